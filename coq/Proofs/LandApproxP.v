(* C09 - proofs about the grid (approximate) landscape arithmetic of Model/LandArithM.v:
   element-wise operators with zero padding and their checks, np.interp, snap_pl, lc_approx,
   average_approx. *)
From Coq Require Import QArith Qminmax Lqa List Bool ZArith Lia Arith.
From Persim Require Import Lib.Kth Lib.PL Model.LandArithM Spec.LandArithS Proofs.LandArithP.
Import ListNotations.
Open Scope Q_scope.

Definition same_grid (A B : approxL) : Prop :=
  a_deg A = a_deg B /\ a_start A = a_start B /\ a_stop A = a_stop B /\ a_steps A = a_steps B.
Definition resample (A : approxL) (row : list Q) (g : Q) : Q :=
  interp (combine (linspace (a_start A) (a_stop A) (a_steps A)) row) g.

(* ------------------------------------------------------------------ reading values *)
Lemma nth_nil_Q i : nth i (@nil Q) 0 = 0. Proof. destruct i; reflexivity. Qed.
Lemma nth_nil_row k : nth k (@nil (list Q)) [] = []. Proof. destruct k; reflexivity. Qed.
Lemma valat_nil k i : valat [] k i = 0. Proof. unfold valat. rewrite nth_nil_row. apply nth_nil_Q. Qed.

Lemma nth_map_Q f l i : f 0 == 0 -> nth i (map f l) 0 == f (nth i l 0).
Proof.
  intro H. revert i. induction l as [|a l IH]; intros [|i]; simpl; try (symmetry; exact H); try reflexivity. apply IH.
Qed.

Lemma valat_map f V k i : f 0 == 0 -> valat (map (map f) V) k i == f (valat V k i).
Proof.
  intro H. unfold valat. change (@nil Q) with (map f []) at 1. rewrite map_nth. apply nth_map_Q. exact H.
Qed.

Lemma nth_repeat0 c i : nth i (repeat 0 c) 0 = 0.
Proof. revert i. induction c; intros [|i]; simpl; auto. Qed.

Lemma nth_repeat_row (z : list Q) m j : nth j (repeat z m) [] = z \/ nth j (repeat z m) [] = [].
Proof. revert j. induction m; intros [|j]; simpl; auto. Qed.

Lemma valat_pad A m k i : valat (pad_rows A m) k i = valat A k i.
Proof.
  unfold valat, pad_rows. destruct (Nat.lt_ge_cases k (length A)) as [L|L].
  - rewrite app_nth1 by exact L. reflexivity.
  - rewrite app_nth2 by exact L. rewrite (nth_overflow A [] L), nth_nil_Q.
    destruct (nth_repeat_row (repeat 0 (ncols A)) m (k - length A)) as [E|E]; rewrite E.
    apply nth_repeat0. apply nth_nil_Q.
Qed.

Lemma rect_pad n A m : A <> [] -> rect n A -> rect n (pad_rows A m).
Proof.
  intros N R. unfold pad_rows, rect in *. apply Forall_app. split; [exact R|].
  assert (C : ncols A = n). { destruct A as [|r A']; [congruence|]. inversion R; subst. reflexivity. }
  rewrite C. clear. induction m; simpl; constructor; auto. apply repeat_length.
Qed.

Lemma pad_length A m : length (pad_rows A m) = (length A + m)%nat.
Proof. unfold pad_rows. rewrite app_length, repeat_length. reflexivity. Qed.

Lemma union_vals_spec A B n A' B' : A <> [] -> B <> [] -> rect n A -> rect n B -> union_vals A B = (A', B') ->
  length A' = length B' /\ length A' = Nat.max (length A) (length B) /\ rect n A' /\ rect n B' /\
  forall k i, valat A' k i = valat A k i /\ valat B' k i = valat B k i.
Proof.
  intros NA NB RA RB. unfold union_vals.
  destruct (Nat.ltb (length A) (length B)) eqn:C1.
  - apply Nat.ltb_lt in C1. intro E. inversion E; subst. rewrite pad_length.
    split; [lia|]. split; [lia|]. split; [apply rect_pad; auto|]. split; [exact RB|].
    intros k i. split; [apply valat_pad|reflexivity].
  - apply Nat.ltb_ge in C1. destruct (Nat.ltb (length B) (length A)) eqn:C2.
    + apply Nat.ltb_lt in C2. intro E. inversion E; subst. rewrite pad_length.
      split; [lia|]. split; [lia|]. split; [exact RA|]. split; [apply rect_pad; auto|].
      intros k i. split; [reflexivity|apply valat_pad].
    + apply Nat.ltb_ge in C2. intro E. inversion E; subst.
      split; [lia|]. split; [lia|]. split; [exact RA|]. split; [exact RB|]. intros; split; reflexivity.
Qed.

Lemma vadd_spec : forall u w, length u = length w ->
  exists r, vadd u w = Some r /\ length r = length u /\ forall i, nth i r 0 == nth i u 0 + nth i w 0.
Proof.
  induction u as [|x u IH]; intros [|y w] H; simpl in H; try discriminate.
  - exists []. simpl. split; [reflexivity|]. split; [reflexivity|]. intro i. destruct i; simpl; ring.
  - destruct (IH w ltac:(lia)) as [r [E [L P]]]. exists (x + y :: r). simpl. rewrite E. simpl.
    split; [reflexivity|]. split; [lia|]. intros [|i]; [reflexivity|apply P].
Qed.

Lemma madd_spec n : forall A B, length A = length B -> rect n A -> rect n B ->
  exists V, madd A B = Some V /\ rect n V /\ length V = length A /\
    forall k i, valat V k i == valat A k i + valat B k i.
Proof.
  induction A as [|u A IH]; intros [|w B] H RA RB; simpl in H; try discriminate.
  - exists []. simpl. split; [reflexivity|]. split; [constructor|]. split; [reflexivity|].
    intros k i. rewrite valat_nil. ring.
  - inversion RA as [|? ? Lu RA']; subst. inversion RB as [|? ? Lw RB']; subst.
    destruct (vadd_spec u w ltac:(congruence)) as [r [E [L P]]].
    destruct (IH B ltac:(lia) RA' RB') as [V [E' [RV [LV PV]]]].
    exists (r :: V). simpl. rewrite E, E'. split; [reflexivity|]. split; [constructor; [congruence|exact RV]|].
    split; [lia|]. intros [|k] i; unfold valat in *; simpl; [apply P|apply PV].
Qed.

(* ------------------------------------------------------------------ a_add and friends *)
Lemma a_add_pointwise : forall A B n,
  a_vals A <> [] -> a_vals B <> [] -> rect n (a_vals A) -> rect n (a_vals B) ->
  a_deg A = a_deg B -> a_start A == a_start B -> a_stop A == a_stop B -> a_steps A = a_steps B ->
  exists V, a_add A B = Ok (mkA (a_deg A) (a_start A) (a_stop A) (a_steps A) V) /\
    rect n V /\ length V = Nat.max (length (a_vals A)) (length (a_vals B)) /\
    forall k i, valat V k i == valat (a_vals A) k i + valat (a_vals B) k i.
Proof.
  intros A B n NA NB RA RB D S E N. unfold a_add.
  replace (Z.eqb (a_deg A) (a_deg B)) with true by (symmetry; apply Z.eqb_eq; exact D).
  replace (Qeq_bool (a_start A) (a_start B)) with true by (symmetry; apply Qeq_bool_iff; exact S).
  replace (Qeq_bool (a_stop A) (a_stop B)) with true by (symmetry; apply Qeq_bool_iff; exact E).
  replace (Nat.eqb (a_steps A) (a_steps B)) with true by (symmetry; apply Nat.eqb_eq; exact N).
  simpl negb. cbv iota.
  destruct (union_vals (a_vals A) (a_vals B)) as [A' B'] eqn:U.
  destruct (union_vals_spec _ _ n A' B' NA NB RA RB U) as [L1 [L2 [RA' [RB' P]]]].
  destruct (madd_spec n A' B' L1 RA' RB') as [V [EV [RV [LV PV]]]]. rewrite EV.
  exists V. split; [reflexivity|]. split; [exact RV|]. split; [lia|].
  intros k i. rewrite PV. destruct (P k i) as [P1 P2]. rewrite P1, P2. reflexivity.
Qed.

Lemma a_add_mismatch : forall A B,
  (a_deg A <> a_deg B -> a_add A B = ErrDegree) /\
  (a_deg A = a_deg B -> ~ a_start A == a_start B -> a_add A B = ErrStart) /\
  (a_deg A = a_deg B -> a_start A == a_start B -> ~ a_stop A == a_stop B -> a_add A B = ErrStop) /\
  (a_deg A = a_deg B -> a_start A == a_start B -> a_stop A == a_stop B -> a_steps A <> a_steps B -> a_add A B = ErrSteps).
Proof.
  intros A B. unfold a_add. repeat split.
  - intro H. apply Z.eqb_neq in H. rewrite H. reflexivity.
  - intros D H. apply Z.eqb_eq in D. rewrite D. simpl.
    destruct (Qeq_bool (a_start A) (a_start B)) eqn:C; [apply Qeq_bool_iff in C; contradiction|reflexivity].
  - intros D S H. apply Z.eqb_eq in D. rewrite D. apply Qeq_bool_iff in S. rewrite S. simpl.
    destruct (Qeq_bool (a_stop A) (a_stop B)) eqn:C; [apply Qeq_bool_iff in C; contradiction|reflexivity].
  - intros D S E H. apply Z.eqb_eq in D. rewrite D. apply Qeq_bool_iff in S. rewrite S.
    apply Qeq_bool_iff in E. rewrite E. apply Nat.eqb_neq in H. rewrite H. reflexivity.
Qed.

Lemma a_unary_pointwise : forall A c,
  (same_grid (a_neg A) A /\ forall k i, valat (a_vals (a_neg A)) k i == - valat (a_vals A) k i) /\
  (same_grid (a_mul c A) A /\ forall k i, valat (a_vals (a_mul c A)) k i == c * valat (a_vals A) k i) /\
  (~ c == 0 -> exists R, a_div A c = Ok R /\ same_grid R A /\ forall k i, valat (a_vals R) k i == valat (a_vals A) k i / c) /\
  (c == 0 -> a_div A c = ErrDivZero).
Proof.
  intros A c. split; [|split; [|split]].
  - split; [repeat split|]. intros k i. simpl. rewrite (valat_map (fun x => -1 * x)) by ring. ring.
  - split; [repeat split|]. intros k i. simpl. apply (valat_map (fun x => c * x)). ring.
  - intro N. unfold a_div. destruct (Qeq_bool c 0) eqn:C; [apply Qeq_bool_iff in C; contradiction|].
    eexists. split; [reflexivity|]. split; [repeat split|]. intros k i. simpl.
    rewrite (valat_map (fun x => 1 / c * x)) by ring. field. exact N.
  - intro H. unfold a_div. apply Qeq_bool_iff in H. rewrite H. reflexivity.
Qed.

Lemma rect_map f n V : rect n V -> rect n (map (map f) V).
Proof. intro R. induction R; simpl; constructor; auto. rewrite map_length. exact H. Qed.

Lemma a_sub_pointwise : forall A B n,
  a_vals A <> [] -> a_vals B <> [] -> rect n (a_vals A) -> rect n (a_vals B) ->
  a_deg A = a_deg B -> a_start A == a_start B -> a_stop A == a_stop B -> a_steps A = a_steps B ->
  exists V, a_sub A B = Ok (mkA (a_deg A) (a_start A) (a_stop A) (a_steps A) V) /\
    rect n V /\ forall k i, valat V k i == valat (a_vals A) k i - valat (a_vals B) k i.
Proof.
  intros A B n NA NB RA RB D S E N. unfold a_sub.
  destruct (a_add_pointwise A (a_neg B) n NA) as [V [EV [RV [_ PV]]]]; simpl; auto.
  - destruct (a_vals B); [congruence|simpl; congruence].
  - apply rect_map. exact RB.
  - exists V. split; [exact EV|]. split; [exact RV|]. intros k i. rewrite PV.
    destruct (a_unary_pointwise B 0) as [[_ P] _]. rewrite P. ring.
Qed.

(* ------------------------------------------------------------------ np.interp *)
Lemma pl_eval_at_first : forall (r : list pt) x0 y0 x, incr ((x0, y0) :: r) -> x == x0 -> pl_eval ((x0, y0) :: r) x == y0.
Proof.
  intros r x0 y0 x I E. destruct r as [|[x1 y1] r'].
  - rewrite pl_eval_single. replace (Qeq_bool x x0) with true by (symmetry; apply Qeq_bool_iff; exact E). reflexivity.
  - apply incr_cons in I. destruct I as [L _]. simpl in L. rewrite pl_eval_cons2 by exact L.
    replace (Qlt_bool x x0) with false by (symmetry; apply Qlt_bool_false; lra).
    replace (Qle_bool x x1) with true by (symmetry; apply b_le; lra).
    rewrite E. field. lra.
Qed.

Lemma interp_go_spec : forall (r : list pt) x0 y0 x, incr ((x0, y0) :: r) -> x0 <= x ->
  (x <= last_x ((x0, y0) :: r) -> interp_go x x0 y0 r == pl_eval ((x0, y0) :: r) x) /\
  (last_x ((x0, y0) :: r) < x -> interp_go x x0 y0 r == last_y ((x0, y0) :: r)).
Proof.
  induction r as [|[x1 y1] r' IH]; intros x0 y0 x I X.
  - unfold last_x, last_y. simpl. split; intro H.
    + replace (Qeq_bool x x0) with true by (symmetry; apply Qeq_bool_iff; lra). reflexivity.
    + reflexivity.
  - assert (I' := I). apply incr_cons in I'. destruct I' as [L I']. simpl in L.
    assert (F := incr_first_le_last_cons r' x1 y1 I').
    unfold last_x, last_y. npt. rewrite !last_cons2. simpl interp_go.
    split; intro H.
    + rewrite pl_eval_cons2 by exact L.
      replace (Qlt_bool x x0) with false by (symmetry; apply Qlt_bool_false; exact X).
      destruct (Qlt_bool x x1) eqn:C.
      * apply Qlt_bool_iff in C. replace (Qle_bool x x1) with true by (symmetry; apply b_le; lra). field. lra.
      * apply Qlt_bool_false in C. destruct (IH x1 y1 x I' C) as [IH1 _]. rewrite (IH1 H).
        destruct (Qle_bool x x1) eqn:C2.
        -- apply b_le in C2. assert (E : x == x1) by lra. rewrite (pl_eval_at_first r' x1 y1 x I' E). rewrite E. field. lra.
        -- reflexivity.
    + assert (X1 : x1 < x) by (eapply Qle_lt_trans; [exact F|exact H]).
      replace (Qlt_bool x x1) with false by (symmetry; apply Qlt_bool_false; lra).
      destruct (IH x1 y1 x I' ltac:(lra)) as [_ IH2]. apply IH2. exact H.
Qed.

Lemma interp_is_linear : forall pts x, pts <> [] -> incr pts ->
  (first_x pts <= x /\ x <= last_x pts -> interp pts x == pl_eval pts x) /\
  (x < first_x pts -> interp pts x == first_y pts) /\
  (last_x pts < x -> interp pts x == last_y pts).
Proof.
  intros [|[x0 y0] r] x N I; [congruence|]. unfold first_x, first_y. simpl hd. simpl fst. simpl snd. simpl interp.
  assert (F := incr_first_le_last_cons r x0 y0 I).
  split; [|split].
  - intros [A B]. replace (Qlt_bool x x0) with false by (symmetry; apply Qlt_bool_false; exact A).
    destruct (interp_go_spec r x0 y0 x I A) as [P _]. apply P. exact B.
  - intro A. replace (Qlt_bool x x0) with true by (symmetry; apply Qlt_bool_iff; exact A). reflexivity.
  - intro B. assert (A : x0 < x) by (eapply Qle_lt_trans; [exact F|exact B]).
    replace (Qlt_bool x x0) with false by (symmetry; apply Qlt_bool_false; lra).
    destruct (interp_go_spec r x0 y0 x I ltac:(lra)) as [_ P]. apply P. exact B.
Qed.

(* ------------------------------------------------------------------ np.linspace *)
Lemma linspace_length s e n : length (linspace s e n) = n.
Proof. unfold linspace. rewrite map_length, seq_length. reflexivity. Qed.

Lemma QofN_S a : QofN (S a) == QofN a + 1.
Proof. unfold QofN. rewrite Nat2Z.inj_succ. unfold Z.succ. rewrite inject_Z_plus. reflexivity. Qed.

Lemma incr_combine_lin s h : 0 < h -> forall n a (row : list Q),
  incr (combine (map (fun i => s + QofN i * h) (seq a n)) row).
Proof.
  intros H. induction n as [|n IH]; intros a row. exact I.
  destruct row as [|v row']. exact I.
  simpl seq. cbn [map combine]. apply incr_cons. split; [|apply IH].
  destruct n as [|n']; [exact I|]. destruct row' as [|v' row'']; [exact I|].
  simpl. rewrite QofN_S. nra.
Qed.

Lemma QofN_pos n : (0 < n)%nat -> 0 < QofN n.
Proof. intro H. unfold QofN. change 0 with (inject_Z 0). rewrite <- Zlt_Qlt. lia. Qed.

Lemma linspace_incr : forall start stop n row, start < stop -> incr (combine (linspace start stop n) row).
Proof.
  intros s e n row H. unfold linspace.
  destruct (Nat.le_gt_cases n 1) as [L|L].
  - destruct n as [|[|n]]; [exact I| |lia]. destruct row; simpl; auto.
  - apply incr_combine_lin. apply Qlt_shift_div_l. apply QofN_pos. lia. lra.
Qed.

(* ------------------------------------------------------------------ snap_pl *)
Lemma min_list_spec : forall l m, min_list l = Some m -> (exists x, In x l /\ x == m) /\ forall x, In x l -> m <= x.
Proof.
  induction l as [|a l IH]; intros m E; simpl in E; [discriminate|].
  destruct (min_list l) as [m'|] eqn:E'.
  - inversion E; subst m. destruct (IH m' eq_refl) as [[x [Ix Ex]] LB]. split.
    + destruct (Q.min_spec a m') as [[_ M]|[_ M]]; [exists a|exists x]; simpl; split; auto; rewrite M; auto; reflexivity.
    + intros y [<-|Iy]. apply Q.le_min_l. eapply Qle_trans; [apply Q.le_min_r|apply LB; exact Iy].
  - inversion E; subst m. destruct l; [|simpl in E'; destruct (min_list l); discriminate].
    split; [exists a; simpl; split; auto; reflexivity|]. intros y [<-|[]]. apply Qle_refl.
Qed.

Lemma max_list_spec : forall l m, max_list l = Some m -> (exists x, In x l /\ x == m) /\ forall x, In x l -> x <= m.
Proof.
  induction l as [|a l IH]; intros m E; simpl in E; [discriminate|].
  destruct (max_list l) as [m'|] eqn:E'.
  - inversion E; subst m. destruct (IH m' eq_refl) as [[x [Ix Ex]] UB]. split.
    + destruct (Q.max_spec a m') as [[_ M]|[_ M]]; [exists x|exists a]; simpl; split; auto; rewrite M; auto; reflexivity.
    + intros y [<-|Iy]. apply Q.le_max_l. eapply Qle_trans; [apply UB; exact Iy|apply Q.le_max_r].
  - inversion E; subst m. destruct l; [|simpl in E'; destruct (max_list l); discriminate].
    split; [exists a; simpl; split; auto; reflexivity|]. intros y [<-|[]]. apply Qle_refl.
Qed.

Lemma max_nat_list_spec : forall l m, max_nat_list l = Some m -> In m l /\ forall x, In x l -> (x <= m)%nat.
Proof.
  induction l as [|a l IH]; intros m E; simpl in E; [discriminate|].
  destruct (max_nat_list l) as [m'|] eqn:E'.
  - inversion E; subst m. destruct (IH m' eq_refl) as [Im UB]. split.
    + destruct (Nat.max_spec a m') as [[_ M]|[_ M]]; rewrite M; simpl; auto.
    + intros y [<-|Iy]. apply Nat.le_max_l. eapply Nat.le_trans; [apply UB; exact Iy|apply Nat.le_max_r].
  - inversion E; subst m. destruct l; [|simpl in E'; destruct (max_nat_list l); discriminate].
    split; [simpl; auto|]. intros y [<-|[]]. apply Nat.le_refl.
Qed.

Lemma all_some_map {A B} (f : A -> option B) : forall l rows, all_some (map f l) = Some rows ->
  Forall2 (fun a r => f a = Some r) l rows.
Proof.
  induction l as [|a l IH]; intros rows E; simpl in E.
  - inversion E. constructor.
  - destruct (f a) as [r|] eqn:Fa; [|discriminate]. destruct (all_some (map f l)) as [rs|] eqn:E'; simpl in E; [|discriminate].
    inversion E; subst. constructor; [exact Fa|apply IH; reflexivity].
Qed.

Lemma snap_pl_spec : forall pls os oe on out, snap_pl pls os oe on = Ok out ->
  exists start stop n,
    or_default os (min_list (map a_start pls)) = Some start /\
    or_default oe (max_list (map a_stop pls)) = Some stop /\
    or_default on (max_nat_list (map a_steps pls)) = Some n /\
    Forall2 (fun A O => a_deg O = a_deg A /\ a_start O = start /\ a_stop O = stop /\ a_steps O = n /\
               a_vals O = map (fun row => map (resample A row) (linspace start stop n)) (a_vals A)) pls out.
Proof.
  intros pls os oe on out. unfold snap_pl.
  destruct (or_default os _) as [start|]; [|discriminate].
  destruct (or_default oe _) as [stop|]; [|destruct (or_default on _); discriminate].
  destruct (or_default on _) as [n|]; [|discriminate].
  destruct (all_some _) as [rows|] eqn:E; [|discriminate].
  intro H. inversion H; subst out; clear H. exists start, stop, n. repeat split.
  apply all_some_map in E. clear -E. induction E as [|A r pls rows HA E IH]; simpl; constructor; [|exact IH].
  simpl. repeat split. unfold snap_rows in HA.
  destruct (forallb _ _); [|discriminate]. inversion HA. reflexivity.
Qed.

Lemma rect_forallb n V : rect n V -> forallb (fun row => Nat.eqb (length row) n) V = true.
Proof. intro R. induction R; simpl; auto. rewrite IHR. apply Nat.eqb_eq in H. rewrite H. reflexivity. Qed.

Lemma all_some_ok {A B} (f : A -> option B) l : (forall a, In a l -> exists r, f a = Some r) -> exists rows, all_some (map f l) = Some rows.
Proof.
  induction l as [|a l IH]; intro H; simpl. eauto.
  destruct (H a (or_introl eq_refl)) as [r E]. rewrite E. destruct IH as [rows E']. intros; apply H; simpl; auto.
  rewrite E'. simpl. eauto.
Qed.

Lemma snap_pl_ok : forall pls os oe on, pls <> [] ->
  (forall A, In A pls -> rect (a_steps A) (a_vals A)) -> exists out, snap_pl pls os oe on = Ok out.
Proof.
  intros pls os oe on N R. unfold snap_pl. destruct pls as [|A0 pls']; [congruence|].
  assert (E1 : exists x, or_default os (min_list (map a_start (A0 :: pls'))) = Some x).
  { destruct os; simpl; eauto. destruct (min_list (map a_start pls')); eauto. }
  assert (E2 : exists x, or_default oe (max_list (map a_stop (A0 :: pls'))) = Some x).
  { destruct oe; simpl; eauto. destruct (max_list (map a_stop pls')); eauto. }
  assert (E3 : exists x, or_default on (max_nat_list (map a_steps (A0 :: pls'))) = Some x).
  { destruct on; simpl; eauto. destruct (max_nat_list (map a_steps pls')); eauto. }
  destruct E1 as [s E1], E2 as [e E2], E3 as [n E3]. rewrite E1, E2, E3.
  destruct (all_some_ok (snap_rows (linspace s e n)) (A0 :: pls')) as [rows E].
  - intros A IA. unfold snap_rows. rewrite (rect_forallb _ _ (R A IA)). eauto.
  - rewrite E. eauto.
Qed.

(* ------------------------------------------------------------------ lc_approx, average_approx *)
Section Sum.
Variables (d : Z) (s e : Q) (st n : nat).
Definition good (X : approxL) : Prop :=
  a_deg X = d /\ a_start X = s /\ a_stop X = e /\ a_steps X = st /\ a_vals X <> [] /\ rect n (a_vals X).

Lemma sum_from_spec : forall l acc, good acc -> Forall good l ->
  exists R, sum_from acc l = Ok R /\ good R /\
    forall k i, valat (a_vals R) k i == valat (a_vals acc) k i + sumQ (map (fun x => valat (a_vals x) k i) l).
Proof.
  induction l as [|x l IH]; intros acc G F.
  - exists acc. simpl. split; [reflexivity|]. split; [exact G|]. intros; ring.
  - inversion F as [|? ? Gx F']; subst. destruct G as [G1 [G2 [G3 [G4 [G5 G6]]]]]. destruct Gx as [X1 [X2 [X3 [X4 [X5 X6]]]]].
    assert (HS : a_start acc == a_start x) by (rewrite G2, X2; reflexivity).
    assert (HE : a_stop acc == a_stop x) by (rewrite G3, X3; reflexivity).
    destruct (a_add_pointwise acc x n G5 X5 G6 X6 ltac:(congruence) HS HE ltac:(congruence)) as [V [E [RV [LV PV]]]].
    simpl. rewrite E.
    destruct (IH (mkA (a_deg acc) (a_start acc) (a_stop acc) (a_steps acc) V)) as [R [ER [GR PR]]]; [|exact F'|].
    + repeat split; simpl; auto. intro Z. rewrite Z in LV. simpl in LV.
      assert (LE : (length (a_vals acc) <= 0)%nat) by (rewrite LV; apply Nat.le_max_l).
      destruct (a_vals acc); [congruence|simpl in LE; lia].
    + exists R. split; [exact ER|]. split; [exact GR|]. intros k i. rewrite PR. simpl. rewrite PV. ring.
Qed.

Lemma good_mul c X : good X -> good (a_mul c X).
Proof.
  intros [G1 [G2 [G3 [G4 [G5 G6]]]]]. repeat split; simpl; auto.
  - destruct (a_vals X); [congruence|simpl; congruence].
  - apply rect_map. exact G6.
Qed.
End Sum.

Lemma sum_terms k i : forall (l : list (Q * approxL)),
  sumQ (map (fun x => valat (a_vals x) k i) (map (fun cp => a_mul (fst cp) (snd cp)) l)) ==
  sumQ (map (fun cp => fst cp * valat (a_vals (snd cp)) k i) l).
Proof.
  induction l as [|[c X] l IH]; simpl. reflexivity.
  rewrite IH. rewrite (valat_map (fun x => c * x)) by ring. reflexivity.
Qed.

Lemma Forall2_length {A B} (P : A -> B -> Prop) l l' : Forall2 P l l' -> length l = length l'.
Proof. induction 1; simpl; auto. Qed.

Lemma Forall2_In_r {A B} (P : A -> B -> Prop) l l' y : Forall2 P l l' -> In y l' -> exists x, In x l /\ P x y.
Proof. induction 1; simpl; intros []. subst. eauto. destruct (IHForall2 H1) as [x0 [I0 P0]]. eauto. Qed.

Lemma In_combine_r {A B} : forall (l : list A) (l' : list B) p, In p (combine l l') -> In (snd p) l'.
Proof. intros l l' [a b] H. apply in_combine_r in H. exact H. Qed.

Lemma lc_is_combination : forall pls cs os oe on snapped,
  snap_pl pls os oe on = Ok snapped -> pls <> [] -> length cs = length pls ->
  (forall A, In A pls -> a_vals A <> []) ->
  (forall A B, In A pls -> In B pls -> a_deg A = a_deg B) ->
  exists R, lc_approx pls cs os oe on = Ok R /\
    (forall S, In S snapped -> same_grid R S) /\
    forall k i, valat (a_vals R) k i ==
                sumQ (map (fun cp => fst cp * valat (a_vals (snd cp)) k i) (combine cs snapped)).
Proof.
  intros pls cs os oe on snapped E N L NV D.
  destruct (snap_pl_spec _ _ _ _ _ E) as [start [stop [n [_ [_ [_ F]]]]]].
  destruct pls as [|A0 pls']; [congruence|].
  assert (G : forall S, In S snapped -> good (a_deg A0) start stop n n S).
  { intros S IS. destruct (Forall2_In_r _ _ _ _ F IS) as [A [IA [P1 [P2 [P3 [P4 P5]]]]]].
    repeat split; auto.
    - rewrite P1. apply D; simpl; auto.
    - rewrite P5. specialize (NV A IA). destruct (a_vals A); [congruence|simpl; congruence].
    - rewrite P5. unfold rect. apply Forall_forall. intros row IR. apply in_map_iff in IR.
      destruct IR as [r0 [<- _]]. rewrite map_length. apply linspace_length. }
  unfold lc_approx. rewrite E.
  assert (LS : length snapped = length (A0 :: pls')) by (symmetry; apply (Forall2_length _ _ _ F)).
  replace (Nat.eqb (length cs) (length snapped)) with true by (symmetry; apply Nat.eqb_eq; congruence).
  simpl negb. cbv iota.
  destruct cs as [|c0 cs']; [simpl in L; discriminate|]. destruct snapped as [|S0 snapped']; [simpl in LS; discriminate|].
  cbn [combine map fst snd].
  assert (G0 : good (a_deg A0) start stop n n (a_mul c0 S0)) by (apply good_mul, G; simpl; auto).
  assert (GF : Forall (good (a_deg A0) start stop n n) (map (fun cp => a_mul (fst cp) (snd cp)) (combine cs' snapped'))).
  { apply Forall_forall. intros X IX. apply in_map_iff in IX. destruct IX as [p [<- Ip]].
    apply good_mul, G. simpl. right. apply (In_combine_r _ _ _ Ip). }
  destruct (sum_from_spec _ _ _ _ _ _ _ G0 GF) as [R [ER [GR PR]]].
  exists R. split; [exact ER|]. split.
  - intros S IS. destruct (G S IS) as [S1 [S2 [S3 [S4 _]]]]. destruct GR as [R1 [R2 [R3 [R4 _]]]].
    unfold same_grid. repeat split; congruence.
  - intros k i. rewrite PR. rewrite sum_terms. simpl sumQ. simpl a_vals.
    rewrite (valat_map (fun x => c0 * x)) by ring. reflexivity.
Qed.

Lemma sum_repeat c k i : forall (l : list approxL),
  sumQ (map (fun cp => fst cp * valat (a_vals (snd cp)) k i) (combine (repeat c (length l)) l)) ==
  c * sumQ (map (fun S => valat (a_vals S) k i) l).
Proof. induction l as [|X l IH]; simpl. ring. rewrite IH. ring. Qed.

Lemma average_is_mean_lemma : forall pls os oe on snapped,
  snap_pl pls os oe on = Ok snapped -> pls <> [] ->
  (forall A, In A pls -> a_vals A <> []) ->
  (forall A B, In A pls -> In B pls -> a_deg A = a_deg B) ->
  exists R, average_approx pls os oe on = Ok R /\
    (forall S, In S snapped -> same_grid R S) /\
    forall k i, valat (a_vals R) k i == sumQ (map (fun S => valat (a_vals S) k i) snapped) / QofN (length pls).
Proof.
  intros pls os oe on snapped E N NV D. unfold average_approx.
  destruct (lc_is_combination pls (repeat (1 / QofN (length pls)) (length pls)) os oe on snapped E N (repeat_length _ _) NV D)
    as [R [ER [GR PR]]].
  exists R. split; [exact ER|]. split; [exact GR|]. intros k i. rewrite PR.
  destruct (snap_pl_spec _ _ _ _ _ E) as [start [stop [n [_ [_ [_ F]]]]]].
  rewrite (Forall2_length _ _ _ F). rewrite sum_repeat. field.
  rewrite <- (Forall2_length _ _ _ F). assert (P := QofN_pos (length pls)). destruct pls; [congruence|].
  specialize (P ltac:(simpl; lia)). lra.
Qed.
