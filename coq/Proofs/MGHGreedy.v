(* C05, T2: completeness of the greedy assignment test.
   If an injective assignment of the entries of v to entries of u with all differences < d
   exists, check_assignment_feasibility (the two-pointer greedy on the reversed frequency
   lists) does not answer False.  Exchange argument on the interval structure |v - u| < d. *)
From Coq Require Import ZArith List Bool Arith Lia Permutation.
From Persim Require Import Spec.MGH Model.MGHM Proofs.MGHBasics Proofs.MGHLb.
Import ListNotations.
Open Scope nat_scope.

(* ------------------------------------------------------------------ stage 1: lists of indices *)
Definition near (d x y : nat) : Prop := x < y + d /\ y < x + d.

(* A can be injectively assigned into B with all pairs near *)
Definition inj (d : nat) (A B : list nat) : Prop :=
  exists B1 B2, Permutation B (B1 ++ B2) /\ Forall2 (near d) A B1.

Ltac perm_solve :=
  apply (Permutation_count_occ Nat.eq_dec); intros ?x;
  repeat (rewrite ?count_occ_app; simpl);
  repeat match goal with |- context [Nat.eq_dec ?a ?b] => destruct (Nat.eq_dec a b) end; lia.

Lemma inj_perm_l d A A' B : Permutation A A' -> inj d A B -> inj d A' B.
Proof.
  intros P [B1 [B2 [PB FA]]]. destruct (Permutation_Forall2 P FA) as [B1' [P1 FA']].
  exists B1', B2. split; [|exact FA']. eapply Permutation_trans; [exact PB|]. apply Permutation_app_tail. exact P1.
Qed.

Lemma exchange d i A B j :
  (forall a, In a A -> i <= a) -> inj d (i :: A) B -> In j B -> i < j + d ->
  (forall y, In y B -> y < j -> y + d <= i) ->
  exists B', Permutation B (j :: B') /\ inj d A B'.
Proof.
  intros Hmin [B1 [B2 [PB FA]]] Ij Hij Hlow.
  inversion FA as [|i' z A' A1 Nz FA1]; subst.
  destruct (Nat.eq_dec z j) as [->|NE].
  - exists (A1 ++ B2). split; [exact PB|]. exists A1, B2. split; [apply Permutation_refl|exact FA1].
  - assert (Iz : In z B) by (apply (Permutation_in _ (Permutation_sym PB)); left; reflexivity).
    assert (Hz : j <= z).
    { destruct (Nat.le_gt_cases j z) as [|LT]; [assumption|]. specialize (Hlow z Iz LT). destruct Nz. lia. }
    pose proof (Permutation_in _ PB Ij) as Ij'. simpl in Ij'. destruct Ij' as [E|Ij']; [congruence|].
    apply in_app_or in Ij'. destruct Ij' as [I1|I2].
    + (* j is used by some w in A: give z to w *)
      destruct (in_split _ _ I1) as [P1 [P2 ->]].
      destruct (Forall2_app_inv_r _ _ FA1) as [Q1 [Q2' [F1 [F2 ->]]]].
      inversion F2 as [|w j' Q2 P2' Nw F2']; subst.
      exists ((P1 ++ z :: P2) ++ B2). split.
      * eapply Permutation_trans; [exact PB|]. perm_solve.
      * exists (P1 ++ z :: P2), B2. split; [apply Permutation_refl|].
        apply Forall2_app; [exact F1|]. constructor; [|exact F2'].
        assert (i <= w) by (apply Hmin; apply in_or_app; right; left; reflexivity).
        destruct Nz, Nw. split; lia.
    + (* j is free: swap it with z *)
      destruct (in_split _ _ I2) as [C1 [C2 ->]].
      exists (A1 ++ (z :: C1 ++ C2)). split.
      * eapply Permutation_trans; [exact PB|]. perm_solve.
      * exists A1, (z :: C1 ++ C2). split; [apply Permutation_refl|exact FA1].
Qed.

Lemma Forall2_partner {X Y} (R : X -> Y -> Prop) A B a : Forall2 R A B -> In a A -> exists y, In y B /\ R a y.
Proof.
  induction 1 as [|x y A' B' N FA IH]; intros Ia; [destruct Ia|].
  destruct Ia as [<-|Ia]; [exists y; split; [left; reflexivity|exact N]|].
  destruct (IH Ia) as [y' [Iy Ry]]. exists y'. split; [right; exact Iy|exact Ry].
Qed.

Lemma inj_partner d A B a : inj d A B -> In a A -> exists y, In y B /\ near d a y.
Proof.
  intros [B1 [B2 [PB FA]]] Ia. destruct (Forall2_partner _ _ _ _ FA Ia) as [y [Iy N]].
  exists y. split; [|exact N]. apply (Permutation_in _ (Permutation_sym PB)). apply in_or_app. left. exact Iy.
Qed.

(* ------------------------------------------------------------------ stage 2: frequency lists *)
Definition cnt (A : list nat) (k : nat) : Z := Z.of_nat (count_occ Nat.eq_dec A k).
Definition repr (A : list nat) (rv : list Z) : Prop := forall k, cnt A k = nth k rv 0%Z.
(* the multisets described by the frequency lists rv, ru admit an injective near-assignment *)
Definition Feas (d : nat) (rv ru : list Z) : Prop := exists A B, repr A rv /\ repr B ru /\ inj d A B.

Lemma set_nth_length k x l : length (set_nth k x l) = length l.
Proof. revert k. induction l; intros [|k]; simpl; auto. Qed.
Lemma nth_set_nth_eq k x l : k < length l -> nth k (set_nth k x l) 0%Z = x.
Proof. revert k. induction l; intros [|k] H; simpl in *; try lia; auto. apply IHl. lia. Qed.
Lemma nth_set_nth_neq k k' x l : k' <> k -> nth k' (set_nth k x l) 0%Z = nth k' l 0%Z.
Proof. revert k k'. induction l; intros [|k] [|k'] H; simpl; try reflexivity; try lia. apply IHl. lia. Qed.
Lemma set_nth_twice k x y l : set_nth k x (set_nth k y l) = set_nth k x l.
Proof. revert k. induction l; intros [|k]; simpl; try reflexivity. f_equal. apply IHl. Qed.
Lemma set_nth_same k l : set_nth k (nth k l 0%Z) l = l.
Proof. revert k. induction l; intros [|k]; simpl; try reflexivity. f_equal. apply IHl. Qed.

Lemma cnt_pos_in A k : (0 < cnt A k)%Z <-> In k A.
Proof. unfold cnt. rewrite (count_occ_In Nat.eq_dec). lia. Qed.

Lemma repr_in A rv k : repr A rv -> In k A -> (0 < nth k rv 0)%Z.
Proof. intros R I. rewrite <- R. apply cnt_pos_in. exact I. Qed.

Lemma repr_remove A A0 rv i : repr A rv -> Permutation A (i :: A0) -> i < length rv ->
  repr A0 (set_nth i (nth i rv 0 - 1)%Z rv).
Proof.
  intros R P Hi k. rewrite (Permutation_count_occ Nat.eq_dec) in P.
  pose proof (R k) as Rk. unfold cnt in *. rewrite P in Rk. simpl in Rk.
  destruct (Nat.eq_dec i k) as [->|NE].
  - rewrite nth_set_nth_eq by exact Hi. lia.
  - rewrite nth_set_nth_neq by congruence. lia.
Qed.

(* one unit of the greedy step: the smallest v entry is assigned to the smallest usable u entry *)
Lemma unit_step d rv ru i j :
  Feas d rv ru -> i < length rv -> j < length ru ->
  (0 < nth i rv 0)%Z -> (forall k, k < i -> (nth k rv 0 <= 0)%Z) ->
  (0 < nth j ru 0)%Z -> i < j + d ->
  (forall y, y < j -> (0 < nth y ru 0)%Z -> y + d <= i) ->
  Feas d (set_nth i (nth i rv 0 - 1)%Z rv) (set_nth j (nth j ru 0 - 1)%Z ru).
Proof.
  intros [A [B [RA [RB I]]]] Hi Hj Pi Zi Pj Hij Low.
  assert (Ii : In i A) by (apply cnt_pos_in; rewrite RA; exact Pi).
  destruct (in_split _ _ Ii) as [A1 [A2 EA]].
  assert (PA : Permutation A (i :: A1 ++ A2)) by (rewrite EA; symmetry; apply Permutation_middle).
  assert (Ij : In j B) by (apply cnt_pos_in; rewrite RB; exact Pj).
  destruct (exchange d i (A1 ++ A2) B j) as [B' [PB I']].
  - intros a Ia. assert (Ia' : In a A) by (apply (Permutation_in _ (Permutation_sym PA)); right; exact Ia).
    pose proof (repr_in _ _ _ RA Ia') as Pa. destruct (Nat.le_gt_cases i a) as [|LT]; [assumption|].
    specialize (Zi a LT). lia.
  - apply (inj_perm_l d A); assumption.
  - exact Ij.
  - exact Hij.
  - intros y Iy Ly. apply Low; [exact Ly|]. apply (repr_in _ _ _ RB Iy).
  - exists (A1 ++ A2), B'. split; [|split; [|exact I']].
    + apply (repr_remove A); assumption.
    + apply (repr_remove B); assumption.
Qed.

(* t units at once *)
Lemma bulk_step d rv ru i j : forall t : nat,
  Feas d rv ru -> i < length rv -> j < length ru ->
  (forall k, k < i -> (nth k rv 0 <= 0)%Z) -> i < j + d ->
  (forall y, y < j -> (0 < nth y ru 0)%Z -> y + d <= i) ->
  (Z.of_nat t <= nth i rv 0)%Z -> (Z.of_nat t <= nth j ru 0)%Z ->
  Feas d (set_nth i (nth i rv 0 - Z.of_nat t)%Z rv) (set_nth j (nth j ru 0 - Z.of_nat t)%Z ru).
Proof.
  induction t as [|t IH]; intros F Hi Hj Zi Hij Low Ti Tj.
  - simpl. rewrite !Z.sub_0_r, !set_nth_same. exact F.
  - assert (F' := IH F Hi Hj Zi Hij Low ltac:(lia) ltac:(lia)).
    set (rv' := set_nth i (nth i rv 0 - Z.of_nat t)%Z rv) in *.
    set (ru' := set_nth j (nth j ru 0 - Z.of_nat t)%Z ru) in *.
    assert (Ei : nth i rv' 0%Z = (nth i rv 0 - Z.of_nat t)%Z) by (apply nth_set_nth_eq; exact Hi).
    assert (Ej : nth j ru' 0%Z = (nth j ru 0 - Z.of_nat t)%Z) by (apply nth_set_nth_eq; exact Hj).
    assert (U : Feas d (set_nth i (nth i rv' 0 - 1)%Z rv') (set_nth j (nth j ru' 0 - 1)%Z ru')).
    { apply unit_step.
      + exact F'.
      + unfold rv'. rewrite set_nth_length. exact Hi.
      + unfold ru'. rewrite set_nth_length. exact Hj.
      + lia.
      + intros k Hk. unfold rv'. rewrite nth_set_nth_neq by lia. apply Zi. exact Hk.
      + lia.
      + exact Hij.
      + intros y Hy. unfold ru'. rewrite nth_set_nth_neq by lia. apply Low. exact Hy. }
    rewrite Ei, Ej in U. unfold rv', ru' in U. rewrite !set_nth_twice in U.
    replace (nth i rv 0 - Z.of_nat (S t))%Z with (nth i rv 0 - Z.of_nat t - 1)%Z by lia.
    replace (nth j ru 0 - Z.of_nat (S t))%Z with (nth j ru 0 - Z.of_nat t - 1)%Z by lia.
    exact U.
Qed.

(* ------------------------------------------------------------------ stage 3: the two-pointer loop *)
Lemma find_seq_some (f : nat -> bool) : forall n lo k, find f (seq lo n) = Some k ->
  lo <= k < lo + n /\ f k = true /\ forall k', lo <= k' < k -> f k' = false.
Proof.
  induction n as [|n IH]; intros lo k E; simpl in E; [discriminate|].
  destruct (f lo) eqn:Fl.
  - injection E as <-. split; [lia|]. split; [exact Fl|]. intros; lia.
  - destruct (IH _ _ E) as [R [Fk Lo]]. split; [lia|]. split; [exact Fk|].
    intros k' Hk'. destruct (Nat.eq_dec k' lo) as [->|NE]; [exact Fl|]. apply Lo. lia.
Qed.
Lemma find_seq_none (f : nat -> bool) : forall n lo, find f (seq lo n) = None ->
  forall k, lo <= k < lo + n -> f k = false.
Proof.
  induction n as [|n IH]; intros lo E k Hk; simpl in E; [lia|].
  destruct (f lo) eqn:Fl; [discriminate|].
  destruct (Nat.eq_dec k lo) as [->|NE]; [exact Fl|]. apply (IH _ E). lia.
Qed.

Lemma fpf_some l lo hi k : first_pos_from l lo hi = Some k ->
  lo <= k < hi /\ (0 < nth k l 0)%Z /\ forall k', lo <= k' < k -> (nth k' l 0 <= 0)%Z.
Proof.
  unfold first_pos_from. intros E. destruct (find_seq_some _ _ _ _ E) as [R [Fk Lo]].
  split; [lia|]. split; [apply Z.ltb_lt; exact Fk|]. intros k' Hk'. specialize (Lo k' Hk'). apply Z.ltb_ge. exact Lo.
Qed.
Lemma fpf_none l lo hi : first_pos_from l lo hi = None -> forall k, lo <= k < hi -> (nth k l 0 <= 0)%Z.
Proof.
  unfold first_pos_from. intros E k Hk. apply Z.ltb_ge. apply (find_seq_none _ _ _ E). lia.
Qed.

Lemma nth_pos_lt (l : list Z) k : (0 < nth k l 0)%Z -> k < length l.
Proof. intros H. destruct (Nat.lt_ge_cases k (length l)); [assumption|]. rewrite nth_overflow in H by lia. lia. Qed.

(* a positive v entry at index i has a usable u entry *)
Lemma feas_witness d rv ru i : Feas d rv ru -> (0 < nth i rv 0)%Z ->
  exists y, (0 < nth y ru 0)%Z /\ near d i y.
Proof.
  intros [A [B [RA [RB I]]]] Pi. assert (Ii : In i A) by (apply cnt_pos_in; rewrite RA; exact Pi).
  destruct (inj_partner _ _ _ _ I Ii) as [y [Iy N]]. exists y. split; [apply (repr_in _ _ _ RB Iy)|exact N].
Qed.

Definition Inv (d : nat) (rv ru : list Z) (i j : nat) : Prop :=
  Feas d rv ru /\
  (i < length rv /\ (0 < nth i rv 0)%Z /\ forall k, k < i -> (nth k rv 0 <= 0)%Z) /\
  (j < length ru /\ (0 < nth j ru 0)%Z /\ i < j + d /\
   forall y, y < j -> (0 < nth y ru 0)%Z -> y + d <= i).

(* next_j, started at or above every unusable entry, finds a usable entry *)
Lemma next_j_inv d rv ru i m : 0 < d -> Feas d rv ru ->
  (i < length rv /\ (0 < nth i rv 0)%Z /\ forall k, k < i -> (nth k rv 0 <= 0)%Z) ->
  (forall y, y < m -> (0 < nth y ru 0)%Z -> y + d <= i) -> i < m + d ->
  match next_j ru d i m with
  | None => False
  | Some j' => Inv d rv ru i j'
  end.
Proof.
  intros Hd F Hi Low Hm. unfold next_j.
  destruct (feas_witness d rv ru i F (proj1 (proj2 Hi))) as [y [Py [N1 N2]]].
  pose proof (nth_pos_lt _ _ Py) as Ly.
  assert (My : m <= y).
  { destruct (Nat.le_gt_cases m y) as [|LT]; [assumption|]. specialize (Low y LT Py). lia. }
  destruct (first_pos_from ru m (S (Nat.min (i + (d - 1)) (length ru - 1)))) as [j'|] eqn:E.
  - destruct (fpf_some _ _ _ _ E) as [R [Pj Lo]]. split; [exact F|]. split; [exact Hi|].
    split; [lia|]. split; [exact Pj|]. split.
    + lia.
    + intros y' Hy' Py'. destruct (Nat.lt_ge_cases y' m) as [|GE]; [apply Low; assumption|].
      specialize (Lo y' ltac:(lia)). lia.
  - pose proof (fpf_none _ _ _ E y) as Z0. lia.
Qed.

Lemma next_ij_inv d rv ru i0 j0 : 0 < d -> Feas d rv ru ->
  (forall k, k < i0 -> (nth k rv 0 <= 0)%Z) ->
  (forall y, y < j0 -> (0 < nth y ru 0)%Z -> y + d <= i0) ->
  match next_i_and_j rv ru d i0 j0 with
  | (None, _) => True
  | (Some _, None) => False
  | (Some i', Some j') => Inv d rv ru i' j'
  end.
Proof.
  intros Hd F Zi Low. unfold next_i_and_j.
  destruct (first_pos_from rv i0 (length rv)) as [i'|] eqn:E; [|exact I].
  destruct (fpf_some _ _ _ _ E) as [R [Pi Lo]].
  assert (Hi : i' < length rv /\ (0 < nth i' rv 0)%Z /\ forall k, k < i' -> (nth k rv 0 <= 0)%Z).
  { split; [lia|]. split; [exact Pi|]. intros k Hk. destruct (Nat.lt_ge_cases k i0); [apply Zi; assumption|apply Lo; lia]. }
  apply (next_j_inv d rv ru i' (Nat.max (i' - (d - 1)) j0) Hd F Hi); [|lia].
  intros y Hy Py. destruct (Nat.lt_ge_cases y j0) as [LT|GE].
  - specialize (Low y LT Py). lia.
  - lia.
Qed.

Lemma feas_loop_not_false d : 0 < d -> forall fuel rv ru i j,
  Inv d rv ru i j -> feas_loop fuel rv ru d i j <> Some false.
Proof.
  intros Hd. induction fuel as [|fuel IH]; intros rv ru i j [F [[Hi [Pi Zi]] [Hj [Pj [Hij Low]]]]]; simpl; [discriminate|].
  destruct (Z.leb_spec (nth i rv 0%Z) (nth j ru 0%Z)) as [LE|GT].
  - (* all remaining copies of the v entry go to u entry j *)
    set (t := Z.to_nat (nth i rv 0%Z)).
    assert (Et : Z.of_nat t = nth i rv 0%Z) by (unfold t; lia).
    pose proof (bulk_step d rv ru i j t F Hi Hj Zi Hij Low ltac:(lia) ltac:(lia)) as F'.
    rewrite Et in F'. rewrite Z.sub_diag in F'.
    set (rv' := set_nth i 0%Z rv) in *. set (ru' := set_nth j (nth j ru 0%Z - nth i rv 0%Z)%Z ru) in *.
    pose proof (next_ij_inv d rv' ru' i j Hd F') as N.
    destruct (next_i_and_j rv' ru' d i j) as [[i'|] [j'|]]; try discriminate.
    + apply IH. apply N.
      * intros k Hk. unfold rv'. rewrite nth_set_nth_neq by lia. apply Zi. exact Hk.
      * intros y Hy. unfold ru'. rewrite nth_set_nth_neq by lia. apply Low. exact Hy.
    + exfalso. apply N.
      * intros k Hk. unfold rv'. rewrite nth_set_nth_neq by lia. apply Zi. exact Hk.
      * intros y Hy. unfold ru'. rewrite nth_set_nth_neq by lia. apply Low. exact Hy.
  - (* u entry j is used up by copies of the v entry *)
    set (t := Z.to_nat (nth j ru 0%Z)).
    assert (Et : Z.of_nat t = nth j ru 0%Z) by (unfold t; lia).
    pose proof (bulk_step d rv ru i j t F Hi Hj Zi Hij Low ltac:(lia) ltac:(lia)) as F'.
    rewrite Et in F'. rewrite Z.sub_diag in F'.
    set (rv' := set_nth i (nth i rv 0%Z - nth j ru 0%Z)%Z rv) in *. set (ru' := set_nth j 0%Z ru) in *.
    assert (Hi' : i < length rv' /\ (0 < nth i rv' 0)%Z /\ forall k, k < i -> (nth k rv' 0 <= 0)%Z).
    { unfold rv'. rewrite set_nth_length. split; [exact Hi|]. rewrite nth_set_nth_eq by exact Hi. split; [lia|].
      intros k Hk. rewrite nth_set_nth_neq by lia. apply Zi. exact Hk. }
    pose proof (next_j_inv d rv' ru' i j Hd F' Hi') as N.
    destruct (next_j ru' d i j) as [j'|]; [|exfalso].
    + apply IH. apply N; [|exact Hij].
      intros y Hy. unfold ru'. rewrite nth_set_nth_neq by lia. apply Low. exact Hy.
    + apply N; [|exact Hij].
      intros y Hy. unfold ru'. rewrite nth_set_nth_neq by lia. apply Low. exact Hy.
Qed.

Theorem check_feas_complete v u d : (0 < d)%Z ->
  Feas (Z.to_nat d) (rev v) (rev u) -> check_feas v u d <> Some false.
Proof.
  intros Hd F. unfold check_feas.
  assert (Hn : 0 < Z.to_nat d) by lia.
  pose proof (next_ij_inv (Z.to_nat d) (rev v) (rev u) 0 0 Hn F) as N.
  destruct (next_i_and_j (rev v) (rev u) (Z.to_nat d) 0 0) as [[i|] [j|]]; try discriminate.
  - apply feas_loop_not_false; [exact Hn|]. apply N; intros; lia.
  - exfalso. apply N; intros; lia.
Qed.

(* ------------------------------------------------------------------ stage 4: from the spec to frequency lists *)
Lemma perm_split (g : list nat) : forall l, NoDup g -> incl g l -> exists g2, Permutation l (g ++ g2).
Proof.
  induction g as [|k g IH]; intros l ND Inc; [exists l; apply Permutation_refl|].
  inversion ND; subst. assert (Ik : In k l) by (apply Inc; left; reflexivity).
  destruct (in_split _ _ Ik) as [l1 [l2 ->]].
  destruct (IH (l1 ++ l2) H2) as [g2 P].
  - intros x Ix. assert (Ix' : In x (l1 ++ k :: l2)) by (apply Inc; right; exact Ix).
    apply in_app_or in Ix'. apply in_or_app. destruct Ix' as [|[E|]]; auto. subst. contradiction.
  - exists g2. simpl. eapply Permutation_trans; [symmetry; apply Permutation_middle|]. constructor. exact P.
Qed.

Lemma map_nth_seq_id (B : list nat) : map (fun k => nth k B 0) (seq 0 (length B)) = B.
Proof.
  apply (nth_ext _ _ 0 0); [rewrite map_length, seq_length; reflexivity|].
  intros k Hk. rewrite map_length, seq_length in Hk. rewrite (nth_map_seq (fun k => nth k B 0)) by exact Hk. reflexivity.
Qed.

Lemma sub_perm (B g : list nat) : NoDup g -> Forall (fun k => k < length B) g ->
  exists B2, Permutation B (map (fun k => nth k B 0) g ++ B2).
Proof.
  intros ND F. destruct (perm_split g (seq 0 (length B)) ND) as [g2 P].
  - intros k Ik. rewrite Forall_forall in F. apply in_seq. specialize (F k Ik). lia.
  - exists (map (fun k => nth k B 0) g2). rewrite <- map_app. rewrite <- (map_nth_seq_id B) at 1.
    apply Permutation_map. exact P.
Qed.

Lemma Forall2_nth_intro {X Y} (R : X -> Y -> Prop) (x0 : X) (y0 : Y) : forall A B,
  length A = length B -> (forall k, k < length A -> R (nth k A x0) (nth k B y0)) -> Forall2 R A B.
Proof.
  induction A as [|a A IH]; intros [|b B] L H; simpl in L; try discriminate; constructor.
  - apply (H 0). simpl. lia.
  - apply IH; [lia|]. intros k Hk. apply (H (S k)). simpl. lia.
Qed.

Definition tr (x : Z) : nat := Z.to_nat (x - 1).

Lemma count_tr (v : list Z) k : Forall (fun x => (1 <= x)%Z) v ->
  count_occ Nat.eq_dec (map tr v) k = count_occ Z.eq_dec v (Z.of_nat k + 1)%Z.
Proof.
  induction 1 as [|x v Hx F IH]; simpl; [reflexivity|].
  destruct (Nat.eq_dec (tr x) k) as [E|NE], (Z.eq_dec x (Z.of_nat k + 1)) as [E'|NE']; unfold tr in *; try lia; rewrite IH; reflexivity.
Qed.

Lemma repr_row_dist maxd v : Forall (fun x => (1 <= x <= maxd)%Z) v ->
  repr (map tr v) (rev (row_dist maxd v)).
Proof.
  intros F k. unfold cnt. rewrite count_tr by (eapply Forall_impl; [|exact F]; simpl; intros; lia).
  set (M := Z.to_nat maxd).
  assert (L : length (row_dist maxd v) = M) by (unfold row_dist; rewrite map_length, seq_length; reflexivity).
  destruct (Nat.lt_ge_cases k M) as [LT|GE].
  - rewrite rev_nth by lia. rewrite L. unfold row_dist. fold M.
    rewrite (nth_map_seq (fun k0 => countZ (maxd - Z.of_nat k0) v)) by lia.
    unfold countZ. do 2 f_equal. lia.
  - rewrite nth_overflow by (rewrite rev_length; lia).
    assert (E : count_occ Z.eq_dec v (Z.of_nat k + 1)%Z = 0); [|rewrite E; reflexivity].
    apply count_occ_not_In. intros I. rewrite Forall_forall in F. specialize (F _ I). unfold M in GE. lia.
Qed.

Theorem inj_assign_feas maxd v u d : (0 < d)%Z ->
  Forall (fun x => (1 <= x <= maxd)%Z) v -> Forall (fun x => (1 <= x <= maxd)%Z) u ->
  inj_assign v u d -> Feas (Z.to_nat d) (rev (row_dist maxd v)) (rev (row_dist maxd u)).
Proof.
  intros Hd Fv Fu [g [Lg [ND [Fg Near]]]].
  exists (map tr v), (map tr u). split; [apply repr_row_dist; exact Fv|]. split; [apply repr_row_dist; exact Fu|].
  set (B := map tr u).
  assert (LB : length B = length u) by (unfold B; apply map_length).
  destruct (sub_perm B g ND) as [B2 P]; [rewrite LB; exact Fg|].
  exists (map (fun k => nth k B 0) g), B2. split; [exact P|].
  apply (Forall2_nth_intro _ 0 0); [rewrite !map_length; symmetry; exact Lg|].
  intros k Hk. rewrite map_length in Hk.
  rewrite (nth_map_dflt tr v k 0 0%Z) by exact Hk.
  rewrite (nth_map_dflt (fun k0 => nth k0 B 0) g k 0 0) by lia.
  assert (Hg : nth k g 0 < length u) by (rewrite Forall_forall in Fg; apply Fg; apply nth_In; lia).
  unfold B. rewrite (nth_map_dflt tr u _ 0 0%Z) by exact Hg.
  specialize (Near k Hk).
  assert (Hx : (1 <= nth k v 0 <= maxd)%Z) by (rewrite Forall_forall in Fv; apply Fv; apply nth_In; exact Hk).
  assert (Hy : (1 <= nth (nth k g 0%nat) u 0 <= maxd)%Z) by (rewrite Forall_forall in Fu; apply Fu; apply nth_In; exact Hg).
  unfold near, tr. split; lia.
Qed.

(* T2: greedy completeness, for all distributions, thresholds and sizes *)
Theorem greedy_complete_holds : greedy_complete.
Proof.
  intros maxd v u d Hd Fv Fu Inf IA. unfold infeasible in Inf.
  pose proof (check_feas_complete (row_dist maxd v) (row_dist maxd u) d Hd
                (inj_assign_feas maxd v u d Hd Fv Fu IA)) as C.
  destruct (check_feas (row_dist maxd v) (row_dist maxd u) d) as [[|]|]; try discriminate. apply C. reflexivity.
Qed.

(* ------------------------------------------------------------------ the loop's fuel suffices *)
Definition npos (l : list Z) : nat := length (filter (fun x => (0 <? x)%Z) l).

Lemma npos_pos k l : k < length l -> (0 < nth k l 0)%Z -> 0 < npos l.
Proof.
  unfold npos. revert k. induction l as [|a t IH]; intros [|k] Hk P; simpl in *; try lia.
  - destruct (Z.ltb_spec 0 a); simpl; lia.
  - destruct (0 <? a)%Z; simpl; [lia|]. apply (IH k); [lia|exact P].
Qed.

Lemma npos_set_nth k x l : k < length l -> (0 < nth k l 0)%Z ->
  npos (set_nth k x l) = if (0 <? x)%Z then npos l else pred (npos l).
Proof.
  revert k. induction l as [|a t IH]; intros [|k] Hk P; simpl in *; try lia.
  - unfold npos. simpl. destruct (Z.ltb_spec 0 a); [|lia]. destruct (0 <? x)%Z; reflexivity.
  - assert (Hk' : k < length t) by lia. specialize (IH k Hk' P).
    pose proof (npos_pos k t Hk' P) as N. unfold npos in *. simpl.
    destruct (0 <? a)%Z; simpl; rewrite IH; destruct (0 <? x)%Z; lia.
Qed.

Lemma npos_le_length l : npos l <= length l.
Proof. unfold npos. induction l as [|a t IH]; simpl; [lia|]. destruct (0 <? a)%Z; simpl; lia. Qed.

Lemma next_j_pos ru d i m j : next_j ru d i m = Some j -> j < length ru /\ (0 < nth j ru 0)%Z.
Proof. unfold next_j. intros E. destruct (fpf_some _ _ _ _ E) as [_ [P _]]. split; [apply nth_pos_lt|]; exact P. Qed.

Lemma feas_loop_total d : forall fuel rv ru i j,
  i < length rv -> j < length ru -> (0 < nth i rv 0)%Z -> (0 < nth j ru 0)%Z ->
  npos rv + npos ru <= fuel -> feas_loop fuel rv ru d i j <> None.
Proof.
  induction fuel as [|fuel IH]; intros rv ru i j Hi Hj Pi Pj M.
  - pose proof (npos_pos i rv Hi Pi). lia.
  - simpl. pose proof (npos_pos i rv Hi Pi) as N1. pose proof (npos_pos j ru Hj Pj) as N2.
    destruct (Z.leb_spec (nth i rv 0%Z) (nth j ru 0%Z)) as [LE|GT].
    + set (rv' := set_nth i 0%Z rv). set (ru' := set_nth j (nth j ru 0 - nth i rv 0)%Z ru).
      assert (M1 : npos rv' = pred (npos rv)) by (unfold rv'; rewrite npos_set_nth by assumption; reflexivity).
      assert (M2 : npos ru' <= npos ru).
      { unfold ru'. rewrite npos_set_nth by assumption. destruct (0 <? _)%Z; lia. }
      unfold next_i_and_j.
      destruct (first_pos_from rv' i (length rv')) as [i'|] eqn:E1; [|discriminate].
      destruct (next_j ru' d i' (Nat.max (i' - (d - 1)) j)) as [j'|] eqn:E2; [|discriminate].
      destruct (fpf_some _ _ _ _ E1) as [R1 [P1 _]]. destruct (next_j_pos _ _ _ _ _ E2) as [R2 P2].
      apply IH; try assumption; lia.
    + set (rv' := set_nth i (nth i rv 0 - nth j ru 0)%Z rv). set (ru' := set_nth j 0%Z ru).
      assert (M1 : npos rv' = npos rv).
      { unfold rv'. rewrite npos_set_nth by assumption. destruct (Z.ltb_spec 0%Z (nth i rv 0 - nth j ru 0)%Z); [reflexivity|lia]. }
      assert (M2 : npos ru' = pred (npos ru)) by (unfold ru'; rewrite npos_set_nth by assumption; reflexivity).
      destruct (next_j ru' d i j) as [j'|] eqn:E2; [|discriminate].
      destruct (next_j_pos _ _ _ _ _ E2) as [R2 P2].
      apply IH; try assumption.
      * unfold rv'. rewrite set_nth_length. exact Hi.
      * unfold rv'. rewrite nth_set_nth_eq by exact Hi. lia.
      * lia.
Qed.

(* check_assignment_feasibility always returns an answer within the model's fuel *)
Theorem check_feas_total v u d : check_feas v u d <> None.
Proof.
  unfold check_feas. unfold next_i_and_j.
  destruct (first_pos_from (rev v) 0 (length (rev v))) as [i|] eqn:E1; [|discriminate].
  destruct (next_j (rev u) (Z.to_nat d) i (Nat.max (i - (Z.to_nat d - 1)) 0)) as [j|] eqn:E2; [|discriminate].
  destruct (fpf_some _ _ _ _ E1) as [R1 [P1 _]]. destruct (next_j_pos _ _ _ _ _ E2) as [R2 P2].
  apply feas_loop_total; try assumption; try lia.
  pose proof (npos_le_length (rev v)). pose proof (npos_le_length (rev u)). lia.
Qed.
