(* C19 - soundness of the purity checker of Model/EffectIR.v.
   Only [closed] and [safe] are reasoned about: the solver is untrusted, its answer is checked. *)
From Coq Require Import List Bool PArith FMapPositive FSetPositive Lia.
From Persim Require Import Model.EffectIR.
Import ListNotations.

Lemma site_neq : forall x, Site x <> PROT.
Proof. intros x. unfold Site, PROT. apply Pos.succ_not_1. Qed.

Lemma mem_In : forall a l, mem a l = true <-> PositiveSet.In a l.
Proof. intros. unfold mem. split; [apply PositiveSet.mem_2 | apply PositiveSet.mem_1]. Qed.

Lemma subset_In : forall l1 l2 a, subset l1 l2 = true -> PositiveSet.In a l1 -> PositiveSet.In a l2.
Proof. unfold subset. intros l1 l2 a H Ha. apply PositiveSet.subset_2 in H. auto. Qed.

Lemma for_all_In : forall (f : positive -> bool) s a,
  PositiveSet.for_all f s = true -> PositiveSet.In a s -> f a = true.
Proof.
  intros f s a H Ha. apply PositiveSet.for_all_2 in H.
  - apply H. exact Ha.
  - intros x y E. rewrite E. reflexivity.
Qed.

Lemma prot_in_cont : forall s f, PositiveSet.In PROT (cont_of s PROT f).
Proof. intros. unfold cont_of. rewrite Pos.eqb_refl. apply PositiveSet.add_1. reflexivity. Qed.

Lemma upd_env_eq : forall e x o, upd_env e x o x = Some o.
Proof. intros. unfold upd_env. now rewrite Pos.eqb_refl. Qed.

Lemma upd_env_neq : forall e x o y, y <> x -> upd_env e x o y = e y.
Proof. intros. unfold upd_env. destruct (Pos.eqb_spec y x); congruence. Qed.

Lemma site_prot_neq_at : forall o x n, site o = PROT -> o <> OAt x n.
Proof. intros o x n H E. subst. simpl in H. now apply site_neq in H. Qed.

(* the abstraction invariant *)
Record inv (s : sol) (st0 st : state) : Prop := {
  inv_env : forall x o, env st x = Some o -> PositiveSet.In (site o) (pts_of s x);
  inv_edges : forall o f o', edges st o f o' -> PositiveSet.In (site o') (cont_of s (site o) f);
  inv_ver : forall o, site o = PROT -> ver st o = ver st0 o;
  inv_elem : forall o o', site o = PROT -> (edges st o f_elem o' <-> edges st0 o f_elem o') }.

Lemma inv_init : forall p s st0, closed p s = true -> init_ok p st0 -> inv s st0 st0.
Proof.
  intros p s st0 Hc [He Hg]. unfold closed in Hc.
  apply andb_prop in Hc. destruct Hc as [Hc _]. apply andb_prop in Hc. destruct Hc as [Hp Hu].
  rewrite forallb_forall in Hp, Hu.
  constructor; auto; try tauto.
  - intros x o Hx. destruct (He x o Hx) as [[Hin Hs] | [_ [Hin Hs]]]; rewrite Hs; apply mem_In.
    + apply Hp in Hin. exact Hin.
    + apply Hu in Hin. exact Hin.
  - intros o f o' E. destruct (Hg _ _ _ E) as [H1 H2]. rewrite H1, H2. apply prot_in_cont.
Qed.

Lemma inv_step : forall s st0 stm st st',
  closed_stmt s stm = true -> safe_stmt s stm = true ->
  inv s st0 st -> step stm st st' -> inv s st0 st'.
Proof.
  intros s st0 stm st st' Hc Hs [I1 I2 I3 I4] Hstep.
  destruct Hstep; cbn [closed_stmt safe_stmt] in Hc, Hs.
  - (* Fresh *)
    constructor.
    + intros y o Hy. rewrite H0 in Hy. destruct (Pos.eq_dec y x) as [->|Ne].
      * rewrite upd_env_eq in Hy. inversion Hy; subst. simpl. now apply mem_In.
      * rewrite upd_env_neq in Hy by auto. auto.
    + intros o f o' E. apply H1 in E. destruct E. auto.
    + intros o Ho. rewrite H2 by (now apply site_prot_neq_at). auto.
    + intros o o' Ho. rewrite <- I4 by auto. rewrite H1. split; [tauto|]. intro; split; auto.
      now apply site_prot_neq_at.
  - (* Rand *)
    constructor.
    + intros y o Hy. rewrite H0 in Hy. destruct (Pos.eq_dec y x) as [->|Ne].
      * rewrite upd_env_eq in Hy. inversion Hy; subst. simpl. now apply mem_In.
      * rewrite upd_env_neq in Hy by auto. auto.
    + intros o f o' E. apply H1 in E. destruct E. auto.
    + intros o Ho. rewrite H2 by (now apply site_prot_neq_at). auto.
    + intros o o' Ho. rewrite <- I4 by auto. rewrite H1. split; [tauto|]. intro; split; auto.
      now apply site_prot_neq_at.
  - (* Alias *)
    constructor.
    + intros z oz Hz. rewrite H0 in Hz. destruct (Pos.eq_dec z x) as [->|Ne].
      * rewrite upd_env_eq in Hz. inversion Hz; subst. eapply subset_In; eauto.
      * rewrite upd_env_neq in Hz by auto. auto.
    + intros a f b E. apply H1 in E. auto.
    + intros a Ha. rewrite H2. auto.
    + intros a b Ha. rewrite H1. auto.
  - (* Load *)
    constructor.
    + intros z oz Hz. rewrite H1 in Hz. destruct (Pos.eq_dec z x) as [->|Ne].
      * rewrite upd_env_eq in Hz. inversion Hz; subst.
        eapply subset_In; [eapply (for_all_In _ _ _ Hc); eauto | eauto].
      * rewrite upd_env_neq in Hz by auto. auto.
    + intros a g b E. apply H2 in E. auto.
    + intros a Ha. rewrite H3. auto.
    + intros a b Ha. rewrite H2. auto.
  - (* Store *)
    assert (Hnp : Pos.eqb f f_elem = true -> site o <> PROT).
    { intros Ef Hp. rewrite Ef in Hs. apply negb_true_iff in Hs.
      assert (mem PROT (pts_of s x) = true) by (apply mem_In; rewrite <- Hp; eauto). congruence. }
    constructor.
    + intros z oz Hz. rewrite H1 in Hz. auto.
    + intros a g b E. apply H2 in E. destruct E as [E | [-> [-> ->]]]; auto.
      eapply subset_In; [eapply (for_all_In _ _ _ Hc); eauto | eauto].
    + intros a Ha. destruct (Pos.eqb f f_elem) eqn:Ef.
      * destruct H3 as [_ H3]. rewrite H3; auto. intro; subst. now apply Hnp.
      * rewrite H3. auto.
    + intros a b Ha. rewrite <- I4 by auto. rewrite H2. split; [|tauto].
      intros [E | [-> [Ef ->]]]; auto. exfalso.
      assert (Pos.eqb f f_elem = true) by (rewrite <- Ef; apply Pos.eqb_refl). now apply Hnp.
  - (* GStore *)
    constructor.
    + intros z oz Hz. rewrite H2 in Hz. auto.
    + intros a g b E. apply H3 in E. destruct E as [E | [-> [-> ->]]]; auto.
      eapply subset_In; [eapply (for_all_In _ _ _ Hc); eauto | eauto].
    + intros a Ha. rewrite H4; auto.
    + intros a b Ha. rewrite <- I4 by auto. rewrite H3. split; [|tauto].
      intros [E | [-> _]]; auto. contradiction.
  - (* Mutate *)
    assert (Hnp : site o <> PROT).
    { intros Hp. apply negb_true_iff in Hs.
      assert (mem PROT (pts_of s x) = true) by (apply mem_In; rewrite <- Hp; eauto). congruence. }
    constructor.
    + intros z oz Hz. rewrite H0 in Hz. auto.
    + intros a g b E. apply H1 in E. auto.
    + intros a Ha. destruct H2 as [_ H2]. rewrite H2; auto. intro; subst. contradiction.
    + intros a b Ha. rewrite H1. auto.
  - discriminate.
Qed.

Lemma inv_exec : forall p s st0, closed p s = true -> safe p s = true ->
  forall st st', exec (p_body p) st st' -> inv s st0 st -> inv s st0 st'.
Proof.
  intros p s st0 Hc Hs st st' Hex. induction Hex; intros Hi; auto.
  apply IHHex. eapply inv_step; eauto.
  - unfold closed in Hc. apply andb_prop in Hc. destruct Hc as [_ Hc].
    rewrite forallb_forall in Hc. auto.
  - unfold safe in Hs. rewrite forallb_forall in Hs. auto.
Qed.

Lemma reach_prot : forall p st0, init_ok p st0 ->
  forall o o', reach st0 o o' -> site o = PROT -> site o' = PROT.
Proof.
  intros p st0 [_ Hg] o o' Hr. induction Hr; auto.
  intros Ho. apply IHHr. destruct (Hg _ _ _ H). auto.
Qed.

(* T1: versions (payload bytes) and element slots of every caller-owned object are untouched *)
Theorem pure_ok_sound_objects : forall p st0 st,
  pure_ok p = true -> init_ok p st0 -> exec (p_body p) st0 st ->
  forall o, site o = PROT ->
    ver st o = ver st0 o /\ (forall e, edges st o f_elem e <-> edges st0 o f_elem e).
Proof.
  intros p st0 st Hp Hi Hex o Ho. unfold pure_ok in Hp. apply andb_prop in Hp. destruct Hp as [Hc Hs].
  assert (I : inv (solve p) st0 st).
  { eapply inv_exec; eauto. eapply inv_init; eauto. }
  destruct I. split; auto.
Qed.

Theorem pure_ok_sound_reach : forall p st0 st,
  pure_ok p = true -> init_ok p st0 -> exec (p_body p) st0 st ->
  forall x o o', In x (p_prot p) -> env st0 x = Some o -> reach st0 o o' ->
    ver st o' = ver st0 o' /\ (forall e, edges st o' f_elem e <-> edges st0 o' f_elem e).
Proof.
  intros p st0 st Hp Hi Hex x o o' Hx Henv Hr.
  eapply pure_ok_sound_objects; eauto.
  eapply reach_prot; eauto.
  destruct Hi as [He _]. destruct (He _ _ Henv) as [[_ H] | [H _]]; auto. contradiction.
Qed.

(* a program that passes contains no Opaque statement at all (fail closed) *)
Lemma pure_ok_no_opaque : forall p, pure_ok p = true -> has_opaque p = false.
Proof.
  intros p Hp. unfold pure_ok in Hp. apply andb_prop in Hp. destruct Hp as [_ Hs].
  unfold safe in Hs. rewrite forallb_forall in Hs.
  unfold has_opaque. apply not_true_is_false. intro H. apply existsb_exists in H.
  destruct H as [st [Hin Ho]]. specialize (Hs _ Hin). destruct st; simpl in *; discriminate.
Qed.

(* the checker really rejects: a body that mutates its parameter, directly or through a view,
   an element, or after being stored into a local container *)
Definition x1 : var := 1%positive. Definition x2 : var := 2%positive. Definition x3 : var := 3%positive.

Lemma reject_direct : pure_ok {| p_prot := [x1]; p_unprot := []; p_body := [Mutate x1] |} = false.
Proof. vm_compute. reflexivity. Qed.
Lemma reject_view : pure_ok {| p_prot := [x1]; p_unprot := []; p_body := [Alias x2 x1; Mutate x2] |} = false.
Proof. vm_compute. reflexivity. Qed.
Lemma reject_element : pure_ok {| p_prot := [x1]; p_unprot := []; p_body := [Load x2 x1 f_elem; Mutate x2] |} = false.
Proof. vm_compute. reflexivity. Qed.
Lemma reject_via_container : pure_ok {| p_prot := [x1]; p_unprot := [];
    p_body := [Fresh x2; Store x2 f_elem x1; Load x3 x2 f_elem; Mutate x3] |} = false.
Proof. vm_compute. reflexivity. Qed.
Lemma reject_via_self : pure_ok {| p_prot := [x1]; p_unprot := [x2];
    p_body := [Store x2 7%positive x1; Load x3 x2 7%positive; Mutate x3] |} = false.
Proof. vm_compute. reflexivity. Qed.
Lemma accept_copy : pure_ok {| p_prot := [x1]; p_unprot := [];
    p_body := [Fresh x2; Mutate x2; Alias x3 x2; Mutate x3] |} = true.
Proof. vm_compute. reflexivity. Qed.
Lemma accept_local_container : pure_ok {| p_prot := [x1]; p_unprot := [];
    p_body := [Fresh x2; Store x2 f_elem x1; Mutate x2] |} = true.
Proof. vm_compute. reflexivity. Qed.

(* non-vacuity of [init_ok] and [exec]: a real execution that the theorem speaks about *)
Definition st_ex : state :=
  {| env := fun x => match x with xH => Some (OProt 0) | _ => None end;
     edges := fun o f o' => o = OProt 0 /\ f = f_elem /\ o' = OProt 1;
     ver := fun _ => 0; live := fun o => o = OProt 0 \/ o = OProt 1 |}.

Lemma init_ok_example : init_ok {| p_prot := [x1]; p_unprot := []; p_body := [Fresh x2; Mutate x2] |} st_ex.
Proof.
  split.
  - intros x o. simpl. destruct x; intro H; try discriminate. inversion H; subst.
    left. simpl. auto.
  - intros o f o' [-> [_ ->]]. simpl. auto.
Qed.

(* rand_sources: a body for which [has_rand] is false contains no draw from the global RNG, so no
   execution of it ever performs a [Rand] step *)
Lemma no_rand_in_body : forall p, has_rand p = false -> forall s, In s (p_body p) -> forall x, s <> Rand x.
Proof.
  intros p H s Hin x E. subst. unfold has_rand in H.
  assert (existsb is_rand (p_body p) = true) by (apply existsb_exists; exists (Rand x); split; auto).
  congruence.
Qed.
