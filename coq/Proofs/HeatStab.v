(* Stability of the heat-kernel distance (Reininghaus et al., Theorem 2), for the model of persim/heat.py:
     heat sigma F G  <=  cost(M) / (4 sigma sqrt pi)   for EVERY partial matching M between F and G,
   cost = sum of Euclidean distances of matched pairs + distances to the diagonal of unmatched points,
   hence  heat <= W1 / (4 sigma sqrt pi).
   Ingredients: positive semidefiniteness of the Gaussian kernel (Proofs/GaussPSD.v), 1 - exp(-x) <= x,
   Minkowski's inequality in the kernel's semi-inner-product space. *)
From Coq Require Import Reals List Lra Permutation.
From Persim Require Import Model.HeatM Proofs.HeatP Proofs.GaussPSD.
Import ListNotations.
Open Scope R_scope.

Lemma one_minus_exp_le x : 1 - exp (- x) <= x.
Proof. pose proof (exp_ineq1_le (- x)). lra. Qed.

Lemma gauss_self sigma p : gauss sigma p p = 1.
Proof. unfold gauss, sqdist. replace (- ((fst p - fst p) * (fst p - fst p) + (snd p - snd p) * (snd p - snd p)) / (8 * sigma)) with 0.
  apply exp_0. unfold Rdiv. ring. Qed.
Lemma gauss_sym sigma p q : gauss sigma p q = gauss sigma q p.
Proof. unfold gauss. rewrite sqdist_sym. reflexivity. Qed.
Lemma gauss_mm sigma p q : gauss sigma (mirror p) (mirror q) = gauss sigma p q.
Proof. unfold gauss. rewrite sqdist_mirror_both. reflexivity. Qed.
Lemma gauss_ml sigma p q : gauss sigma (mirror p) q = gauss sigma p (mirror q).
Proof. unfold gauss. rewrite sqdist_mirror_l. reflexivity. Qed.
Lemma kterm_gauss sigma p q : kterm sigma p q = gauss sigma p q - gauss sigma p (mirror q).
Proof. reflexivity. Qed.

(* ---------- one matched pair ---------- *)
Lemma radicand_pair sigma p q :
  radicand sigma [p] [q] =
  / (8 * PI * sigma) * (2 - 2 * gauss sigma p q
                        - (gauss sigma p (mirror p) + gauss sigma q (mirror q) - 2 * gauss sigma p (mirror q))).
Proof. unfold radicand. rewrite !k_is_sum. unfold dsum. cbn [map hsum fold_right].
  rewrite !kterm_gauss, !gauss_self. ring. Qed.

Lemma radicand_pair_le sigma p q : 0 < sigma ->
  radicand sigma [p] [q] <= sqdist p q / (16 * PI * (sigma * sigma)).
Proof. intros Hs.
  assert (P := PI_RGT_0).
  assert (C : 0 < / (8 * PI * sigma)) by (apply Rinv_0_lt_compat; apply Rmult_lt_0_compat; lra).
  rewrite radicand_pair.
  pose proof (gauss_psd sigma Hs [(1, p); (-1, q); (1, mirror p); (-1, mirror q)]) as G.
  unfold gauss_form, dsum in G. cbn [map hsum fold_right fst snd] in G.
  rewrite !gauss_self, !gauss_mm in G.
  rewrite (gauss_sym sigma q p), (gauss_sym sigma (mirror p) p), (gauss_sym sigma (mirror q) q),
          (gauss_sym sigma (mirror q) p), (gauss_ml sigma p q), (gauss_sym sigma q (mirror p)),
          (gauss_ml sigma p q) in G.
  pose proof (one_minus_exp_le (sqdist p q / (8 * sigma))) as E.
  assert (E' : 1 - gauss sigma p q <= sqdist p q / (8 * sigma)).
  { unfold gauss. replace (- sqdist p q / (8 * sigma)) with (- (sqdist p q / (8 * sigma))) by (unfold Rdiv; ring). exact E. }
  apply Rle_trans with (/ (8 * PI * sigma) * (4 * (sqdist p q / (8 * sigma)))).
  - apply Rmult_le_compat_l. lra. lra.
  - apply Req_le. field. lra. Qed.

(* ---------- one unmatched point (matched to the diagonal) ---------- *)
Definition diagdist (p : pt) : R := Rabs (snd p - fst p) / sqrt 2.

Lemma radicand_single_le sigma p : 0 < sigma ->
  radicand sigma [p] [] <= sqdist p (mirror p) / (64 * PI * (sigma * sigma)).
Proof. intros Hs. assert (P := PI_RGT_0).
  assert (C : 0 < / (8 * PI * sigma)) by (apply Rinv_0_lt_compat; apply Rmult_lt_0_compat; lra).
  unfold radicand. rewrite !k_is_sum. unfold dsum. cbn [map hsum fold_right].
  rewrite kterm_gauss, gauss_self.
  pose proof (one_minus_exp_le (sqdist p (mirror p) / (8 * sigma))) as E.
  assert (E' : 1 - gauss sigma p (mirror p) <= sqdist p (mirror p) / (8 * sigma)).
  { unfold gauss. replace (- sqdist p (mirror p) / (8 * sigma)) with (- (sqdist p (mirror p) / (8 * sigma))) by (unfold Rdiv; ring). exact E. }
  apply Rle_trans with (/ (8 * PI * sigma) * (sqdist p (mirror p) / (8 * sigma))).
  - match goal with |- ?L <= _ => replace L with (/ (8 * PI * sigma) * (1 - gauss sigma p (mirror p))) by ring end.
    apply Rmult_le_compat_l. lra. exact E'.
  - apply Req_le. field. lra. Qed.

Lemma sqdist_mirror_diag p : sqdist p (mirror p) = 4 * (diagdist p * diagdist p).
Proof. unfold sqdist, mirror, diagdist. cbn [fst snd].
  replace (Rabs (snd p - fst p) / sqrt 2 * (Rabs (snd p - fst p) / sqrt 2))
    with ((Rabs (snd p - fst p) * Rabs (snd p - fst p)) / (sqrt 2 * sqrt 2)).
  - rewrite sqrt_sqrt by lra. rewrite <- Rabs_mult, Rabs_right. field.
    apply Rle_ge. apply Rle_0_sqr.
  - field. apply Rgt_not_eq. apply sqrt_lt_R0. lra. Qed.

(* ---------- from squares to values ---------- *)
Definition stab (sigma : R) : R := 4 * sigma * sqrt PI.
Lemma stab_pos sigma : 0 < sigma -> 0 < stab sigma.
Proof. intros. unfold stab. assert (0 < sqrt PI) by (apply sqrt_lt_R0; apply PI_RGT_0).
  apply Rmult_lt_0_compat; lra. Qed.
Lemma stab_sq sigma : stab sigma * stab sigma = 16 * PI * (sigma * sigma).
Proof. unfold stab. replace (4 * sigma * sqrt PI * (4 * sigma * sqrt PI)) with (16 * (sigma * sigma) * (sqrt PI * sqrt PI)) by ring.
  rewrite sqrt_sqrt by (apply Rlt_le, PI_RGT_0). ring. Qed.

Lemma heat_le_of_sq sigma F G x : 0 < sigma -> 0 <= x ->
  radicand sigma F G <= x * x / (stab sigma * stab sigma) -> heat sigma F G <= x / stab sigma.
Proof. intros Hs Hx H. pose proof (stab_pos sigma Hs) as S.
  unfold heat. rewrite Rmax_left by (apply radicand_nonneg; exact Hs).
  replace (x / stab sigma) with (sqrt ((x / stab sigma) * (x / stab sigma))).
  - apply sqrt_le_1_alt. eapply Rle_trans. exact H. apply Req_le. field. lra.
  - apply sqrt_square. apply Rmult_le_pos. exact Hx. apply Rlt_le, Rinv_0_lt_compat. exact S. Qed.

Lemma heat_pair_le sigma p q : 0 < sigma -> heat sigma [p] [q] <= sqrt (sqdist p q) / stab sigma.
Proof. intros Hs. assert (Q : 0 <= sqdist p q) by (unfold sqdist; apply Rplus_le_le_0_compat; apply Rle_0_sqr).
  apply heat_le_of_sq. exact Hs. apply sqrt_pos.
  rewrite sqrt_sqrt by exact Q. rewrite stab_sq. apply radicand_pair_le. exact Hs. Qed.

Lemma heat_single_le sigma p : 0 < sigma -> heat sigma [p] [] <= diagdist p / stab sigma.
Proof. intros Hs. apply heat_le_of_sq. exact Hs.
  unfold diagdist. apply Rmult_le_pos. apply Rabs_pos. apply Rlt_le, Rinv_0_lt_compat, sqrt_lt_R0. lra.
  rewrite stab_sq. eapply Rle_trans. apply radicand_single_le. exact Hs.
  rewrite sqdist_mirror_diag. apply Req_le. field. split. lra. apply Rgt_not_eq, PI_RGT_0. Qed.

(* ---------- Minkowski: distances of concatenated diagrams ---------- *)
Definition crossM sigma F1 G1 F2 G2 : R :=
  evalHeatKernel sigma F1 F2 - evalHeatKernel sigma F1 G2 - evalHeatKernel sigma G1 F2 + evalHeatKernel sigma G1 G2.

Lemma radicand_app sigma F1 F2 G1 G2 :
  radicand sigma (F1 ++ F2) (G1 ++ G2) =
  radicand sigma F1 G1 + 2 * crossM sigma F1 G1 F2 G2 + radicand sigma F2 G2.
Proof. unfold radicand, crossM. rewrite !k_app_l, !k_app_r.
  rewrite (k_sym sigma F2 F1), (k_sym sigma G2 G1), (k_sym sigma F2 G1). ring. Qed.

Lemma gram_line2 sigma F1 G1 F2 G2 t :
  gram sigma [(1, F1); (-1, G1); (t, F2); (- t, G2)]
  = radicand sigma F1 G1 + 2 * crossM sigma F1 G1 F2 G2 * t + radicand sigma F2 G2 * t * t.
Proof. unfold gram, dsum, radicand, crossM. cbn [map hsum fold_right fst snd].
  rewrite (k_sym sigma G1 F1), (k_sym sigma F2 F1), (k_sym sigma G2 F1), (k_sym sigma F2 G1),
          (k_sym sigma G2 G1), (k_sym sigma G2 F2). ring. Qed.

Lemma heat_minkowski sigma F1 F2 G1 G2 : 0 < sigma ->
  heat sigma (F1 ++ F2) (G1 ++ G2) <= heat sigma F1 G1 + heat sigma F2 G2.
Proof. intros Hs. unfold heat. rewrite !Rmax_left by (apply radicand_nonneg; exact Hs).
  rewrite radicand_app. apply sqrt_triangle.
  - apply radicand_nonneg; exact Hs.
  - apply radicand_nonneg; exact Hs.
  - rewrite <- radicand_app. apply radicand_nonneg; exact Hs.
  - apply quad_disc; try (apply radicand_nonneg; exact Hs).
    intros t. rewrite <- gram_line2. apply gram_psd. exact Hs. Qed.

Lemma heat_perm sigma F F' G G' : Permutation F F' -> Permutation G G' -> heat sigma F G = heat sigma F' G'.
Proof. intros P Q. unfold heat, radicand.
  rewrite (k_perm sigma F F' F F' P P), (k_perm sigma G G' G G' Q Q), (k_perm sigma F F' G G' P Q). reflexivity. Qed.

(* ---------- every partial matching bounds the distance ---------- *)
Definition mcostE (Mt : list (pt * pt)) (U1 U2 : list pt) : R :=
  hsum (map (fun pq => sqrt (sqdist (fst pq) (snd pq))) Mt) + hsum (map diagdist U1) + hsum (map diagdist U2).

Lemma heat_nil sigma : heat sigma [] [] = 0.
Proof. apply heat_perm_zero. apply Permutation_refl. Qed.

Lemma heat_matched sigma Mt : 0 < sigma ->
  heat sigma (map fst Mt) (map snd Mt) <= hsum (map (fun pq => sqrt (sqdist (fst pq) (snd pq))) Mt) / stab sigma.
Proof. intros Hs. induction Mt as [|[p q] Mt IH].
  - simpl. rewrite heat_nil. unfold Rdiv. lra.
  - cbn [map hsum fold_right fst snd].
    pose proof (heat_minkowski sigma [p] (map fst Mt) [q] (map snd Mt) Hs) as M. cbn [app] in M.
    pose proof (heat_pair_le sigma p q Hs). fold (hsum (map (fun pq => sqrt (sqdist (fst pq) (snd pq))) Mt)).
    unfold Rdiv in *. rewrite Rmult_plus_distr_r. lra. Qed.

Lemma heat_unmatched sigma U : 0 < sigma -> heat sigma U [] <= hsum (map diagdist U) / stab sigma.
Proof. intros Hs. induction U as [|p U IH].
  - simpl. rewrite heat_nil. unfold Rdiv. lra.
  - cbn [map hsum fold_right].
    pose proof (heat_minkowski sigma [p] U [] [] Hs) as M. cbn [app] in M.
    pose proof (heat_single_le sigma p Hs). fold (hsum (map diagdist U)).
    unfold Rdiv in *. rewrite Rmult_plus_distr_r. lra. Qed.

Theorem heat_le_matching_cost sigma F G Mt U1 U2 : 0 < sigma ->
  Permutation F (map fst Mt ++ U1) -> Permutation G (map snd Mt ++ U2) ->
  heat sigma F G <= mcostE Mt U1 U2 / (4 * sigma * sqrt PI).
Proof. intros Hs P Q. rewrite (heat_perm sigma _ _ _ _ P Q). fold (stab sigma).
  pose proof (heat_minkowski sigma (map fst Mt) U1 (map snd Mt) U2 Hs) as M1.
  pose proof (heat_minkowski sigma U1 [] [] U2 Hs) as M2. rewrite app_nil_r in M2. cbn [app] in M2.
  pose proof (heat_matched sigma Mt Hs). pose proof (heat_unmatched sigma U1 Hs).
  pose proof (heat_unmatched sigma U2 Hs) as H2. rewrite heat_sym in H2.
  unfold mcostE. unfold Rdiv in *. rewrite !Rmult_plus_distr_r. lra. Qed.
