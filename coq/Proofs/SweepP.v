(* C03: one pass of the outer loop preserves the rank function; the shortcut-free sweep is the
   k-th largest tent at every t and k; the Legacy sweep equals it whenever the shortcut never fires. *)
From Coq Require Import QArith Qminmax Lqa List Bool Arith Lia Permutation.
From Persim Require Import Lib.Kth Lib.PL Spec.LandscapeS Model.SweepM Proofs.SweepStep Proofs.SweepSort Proofs.SweepShape
  Proofs.SweepInner.
Import ListNotations.
Open Scope Q_scope.

(* ---- k-th largest of (maximum :: rest) ---- *)
Lemma nonneg_eq x y : 0 <= x -> 0 <= y -> (forall v, 0 <= v -> (v < x <-> v < y)) -> x == y.
Proof. intros X Y H. destruct (Q_dec x y) as [[L|G]|E]; auto; exfalso.
  - apply (H x X) in L. lra.
  - apply (H y Y) in G. lra. Qed.
Lemma ex_all_le l v : (forall y, In y l -> y <= v) -> ex l v = 0%nat.
Proof. induction l as [|x r IH]; intro H. reflexivity. rewrite ex_cons.
  replace (Qlt_bool v x) with false by (symmetry; apply Qlt_bool_false; apply H; left; auto).
  rewrite IH; auto. intros; apply H; right; auto. Qed.
Lemma kth_nonneg' l k : (forall x, In x l -> 0 <= x) -> 0 <= kth l k.
Proof. apply kth_nonneg. Qed.
Lemma kth_head_max M l : 0 <= M -> (forall y, In y l -> 0 <= y) -> (forall y, In y l -> y <= M) ->
  kth (M :: l) 1 == M.
Proof. intros HM N U. apply nonneg_eq; auto.
  - apply kth_nonneg. intros x [Hx|Hx]; subst; auto.
  - intros v Hv. rewrite kth_ex by auto. rewrite ex_cons. destruct (Qlt_bool v M) eqn:E; breflect.
    + split; intro; auto. lia.
    + rewrite ex_all_le. split; intro. lia. lra. intros y Hy. specialize (U y Hy). lra. Qed.
Lemma kth_tail_max M l k : (1 <= k)%nat -> 0 <= M -> (forall y, In y l -> 0 <= y) -> (forall y, In y l -> y <= M) ->
  kth (M :: l) (S k) == kth l k.
Proof. intros Hk HM N U. apply nonneg_eq.
  - apply kth_nonneg. intros x [Hx|Hx]; subst; auto.
  - apply kth_nonneg; auto.
  - intros v Hv. rewrite !kth_ex by (auto; lia). rewrite ex_cons. destruct (Qlt_bool v M) eqn:E; breflect.
    + lia.
    + rewrite ex_all_le. lia. intros y Hy. specialize (U y Hy). lra. Qed.

Lemma tentv_nonneg A t : forall x, In x (tentv A t) -> 0 <= x.
Proof. intros x H. unfold tentv in H. apply in_map_iff in H. destruct H as (a & <- & _). apply tent_nonneg. Qed.

(* ---- T1 pass_spec: one pass of the outer loop (shortcut off) ---- *)
Lemma pass_sem b d A0 : ssorted ((b, d) :: A0) -> positive ((b, d) :: A0) ->
  exists L1 A',
    inner (S (length A0)) [(b, 0); (half (b + d), half (d - b))] b d A0 = Some (L1, A') /\
    ssorted A' /\ positive A' /\ (length A' < length ((b, d) :: A0))%nat /\
    incr L1 /\
    (forall t, 0 <= pl_eval L1 t) /\
    (forall t x, In x ((b, d) :: A0) \/ In x A' -> tent x t <= pl_eval L1 t) /\
    (forall t v, 0 <= v -> ex (tentv ((b, d) :: A0) t) v = ex (pl_eval L1 t :: tentv A' t) v).
Proof.
  intros SA PA. inversion SA as [|? ? HB S0]; subst.
  assert (P : b < d) by (apply (PA (b, d)); left; auto).
  assert (I : Inv b d A0).
  { constructor; auto.
    - intros x Hx. apply PA. right; auto.
    - intros x Hx Hd. destruct (HB x Hx) as [K|[K1 K2]]; simpl in *; auto. lra. }
  assert (M : (cgt d A0 < S (length A0))%nat).
  { unfold cgt. pose proof (ex_le_length (map snd A0) d). rewrite map_length in H. lia. }
  destruct (inner_sem _ b d A0 I M) as (tl & A' & G & RUN & SA' & PA' & LEN & INC & G0 & GLE & SHAPE & RANK & UNDER).
  rewrite inner_eq, RUN. exists ([(b, 0); (half (b + d), half (d - b))] ++ tl), A'.
  change ([(b, 0); (half (b + d), half (d - b))] ++ tl) with ((b, 0) :: peak b d :: tl).
  assert (EV : forall t, pl_eval ((b, 0) :: peak b d :: tl) t == Qmax (tent (b, d) t) (G t)).
  { intro t. destruct (Qlt_le_dec (half (b + d)) t) as [L|Le].
    - rewrite rise_skip by auto. apply SHAPE. lra.
    - rewrite rise_to_peak by auto. symmetry. apply Q.max_l. apply GLE; auto. }
  assert (S0' : SInv (fun t => tent (b, d) t) b d).
  { constructor; auto. intro; lra. intros; reflexivity. }
  assert (U0 : forall x, In x A0 -> snd x <= d -> forall t, tent x t <= tent (b, d) t).
  { intros [xb xd] Hx Hd t. specialize (HB _ Hx). apply kle_birth in HB. simpl in *. apply tent_nested; auto. }
  assert (UA' : forall t x, In x A' -> tent x t <= pl_eval ((b, 0) :: peak b d :: tl) t).
  { intros t x Hx. rewrite EV. apply (UNDER _ S0' U0 x Hx t). }
  assert (NN : forall t, 0 <= pl_eval ((b, 0) :: peak b d :: tl) t).
  { intro t. rewrite EV. pose proof (tent_nonneg (b, d) t). qmm; lra. }
  assert (RK : forall t v, 0 <= v ->
             ex (tentv ((b, d) :: A0) t) v = ex (pl_eval ((b, 0) :: peak b d :: tl) t :: tentv A' t) v).
  { intros t v Hv. change (tentv ((b, d) :: A0) t) with (tent (b, d) t :: tentv A0 t).
    rewrite (RANK _ S0' t v Hv). apply ex_head_eq. symmetry. apply EV. }
  split; [reflexivity|]. split; [auto|]. split; [auto|]. split; [simpl; unfold lt; apply le_n_S; exact LEN|].
  split. { simpl. split; [unfold half; simpl; lra|]. exact INC. }
  split; [exact NN|]. split; [|exact RK].
  intros t x [Hx|Hx]; [|auto].
  (* a bar of the input of the pass above the envelope would be counted by the rank function *)
  destruct (Qlt_le_dec (pl_eval ((b, 0) :: peak b d :: tl) t) (tent x t)) as [L|Le]; auto. exfalso.
  set (Mx := pl_eval ((b, 0) :: peak b d :: tl) t) in *.
  assert (E1 : (1 <= ex (tentv ((b, d) :: A0) t) Mx)%nat).
  { clear - Hx L. unfold tentv. induction ((b, d) :: A0) as [|a r IH]. contradiction.
    simpl map. rewrite ex_cons. destruct Hx as [->|Hx].
    - replace (Qlt_bool Mx (tent x t)) with true by (symmetry; apply Qlt_bool_iff; auto). lia.
    - specialize (IH Hx). eapply Nat.le_trans; [exact IH|apply Nat.le_add_l]. }
  rewrite RK in E1 by apply NN. rewrite ex_cons in E1. fold Mx in E1.
  replace (Qlt_bool Mx Mx) with false in E1 by (symmetry; apply Qlt_bool_false; lra).
  rewrite ex_all_le in E1. simpl in E1. lia.
  intros y Hy. unfold tentv in Hy. apply in_map_iff in Hy. destruct Hy as (a & <- & Ha). apply UA'; auto.
Qed.

(* ---- the outer loop ---- *)
Lemma kth_nil k : kth [] k = 0.
Proof. unfold kth. simpl. destruct (k - 1)%nat; reflexivity. Qed.

Lemma outer_sem : forall fuel A, ssorted A -> positive A -> (length A < fuel)%nat ->
  exists Ls, outer false fuel A = Some Ls /\ (length Ls <= length A)%nat /\ (forall l, In l Ls -> incr l) /\
    forall k t, (1 <= k)%nat -> pl_eval (nth (k - 1) Ls []) t == kth (tentv A t) k.
Proof.
  induction fuel as [|f IH]; intros A SA PA HL. lia.
  destruct A as [|[b d] A0].
  - exists []. split; [reflexivity|]. split; [simpl; lia|]. split; [intros ? []|].
    intros k t Hk. simpl tentv. rewrite kth_nil. destruct (k - 1)%nat; reflexivity.
  - destruct (pass_sem b d A0 SA PA) as (L1 & A' & RUN & SA' & PA' & LEN & INC & NN & UND & RK).
    change (outer false (S f) ((b, d) :: A0)) with
      (match inner (S (length A0)) [(b, 0); (half (b + d), half (d - b))] b d A0 with
       | None => None
       | Some (L, A2) => match outer false f A2 with None => None | Some Ls => Some (L :: repeat L 0 ++ Ls) end
       end).
    match goal with |- context [inner ?a ?b ?c ?d ?e] =>
      replace (inner a b c d e) with (Some (L1, A')) by (symmetry; exact RUN) end.
    assert (HF : (length A' < f)%nat).
    { unfold lt in *. apply le_S_n. eapply Nat.le_trans; [|exact HL]. apply le_n_S. exact LEN. }
    destruct (IH A' SA' PA' HF) as (Ls & RUN' & LEN' & INC' & EV).
    rewrite RUN'. exists (L1 :: Ls). split; [reflexivity|].
    split. { simpl. apply le_n_S. eapply Nat.le_trans; [exact LEN'|]. apply le_S_n. exact LEN. }
    split. { intros l [<-|Hl]; auto. }
    intros k t Hk.
    assert (KE : forall j, (1 <= j)%nat -> kth (tentv ((b, d) :: A0) t) j == kth (pl_eval L1 t :: tentv A' t) j).
    { intros j Hj. apply kth_ext; auto. apply tentv_nonneg.
      intros x [<-|Hx]. apply NN. eapply tentv_nonneg; eauto. }
    assert (UM : forall y, In y (tentv A' t) -> y <= pl_eval L1 t).
    { intros y Hy. unfold tentv in Hy. apply in_map_iff in Hy. destruct Hy as (a & <- & Ha). apply UND; auto. }
    destruct k as [|[|k]]. lia.
    + simpl nth. rewrite KE by lia. symmetry. apply kth_head_max; auto. apply tentv_nonneg.
    + replace (nth (S (S k) - 1) (L1 :: Ls) []) with (nth (S k - 1) Ls []) by (simpl; rewrite Nat.sub_0_r; reflexivity).
      rewrite EV by lia. rewrite KE by lia. symmetry. apply kth_tail_max; auto. lia. apply tentv_nonneg.
Qed.

(* ---- T1 sweep_correct ---- *)
Lemma sweep_sem bars : positive bars ->
  exists L, sweep false bars = Some L /\ (length L <= length bars)%nat /\ (forall l, In l L -> incr l) /\
    forall k t, (1 <= k)%nat -> pl_eval (nth (k - 1) L []) t == land bars k t.
Proof.
  intro PB. unfold sweep.
  pose proof (sort_bars_perm bars) as PM.
  destruct (outer_sem (S (length bars)) (sort_bars bars)) as (L & RUN & LEN & INC & EV).
  - apply sort_bars_sorted.
  - intros x Hx. apply PB. eapply Permutation_in. apply Permutation_sym; eauto. auto.
  - rewrite <- (Permutation_length PM). lia.
  - exists L. split; [exact RUN|]. split. rewrite (Permutation_length PM). exact LEN. split; [exact INC|].
    intros k t Hk. rewrite EV by auto. unfold land. fold (tentv bars t).
    apply kth_ext; auto; try apply tentv_nonneg.
    intros v Hv. apply ex_perm. apply tentv_perm. apply Permutation_sym; auto.
Qed.

Lemma land_beyond bars L : positive bars -> sweep false bars = Some L ->
  forall k t, (length L < k)%nat -> land bars k t == 0.
Proof. intros PB RUN k t Hk. destruct (sweep_sem bars PB) as (L' & RUN' & _ & _ & EV).
  rewrite RUN in RUN'. inversion RUN'; subst L'. rewrite <- EV by lia.
  rewrite nth_overflow by lia. reflexivity. Qed.

(* ---- T1 sweep_shortcut_agrees ---- *)
Lemma dup_loop_mono : forall fuel j A bd dup, let r := dup_loop fuel j A bd dup in
  (dup <= fst r)%nat /\ (fst r = dup -> snd r = A).
Proof. induction fuel as [|f IH]; intros j A bd dup; simpl. split; auto.
  destruct (nth_error A j) as [x|]; simpl; [|split; auto].
  destruct (bar_eqb x bd); simpl; [|split; auto].
  destruct (IH (S j) (remove_nth j A) bd (S dup)) as [H1 H2]. split. lia. intro E. lia. Qed.

Local Opaque inner.
Lemma outer_nofire : forall fuel A, outer_fires fuel A = false -> outer true fuel A = outer false fuel A.
Proof. induction fuel as [|f IH]; intros A H. reflexivity.
  destruct A as [|[b d] A0]. reflexivity. simpl in *.
  pose proof (dup_loop_mono (length A0) 0 A0 (b, d) 0) as M. simpl in M.
  destruct (dup_loop (length A0) 0 A0 (b, d) 0) as [dup A1]. simpl in M. destruct M as [_ M].
  destruct dup as [|n]. 2: discriminate.
  rewrite (M eq_refl) in *.
  destruct (inner (S (length A0)) [(b, 0); (half (b + d), half (d - b))] b d A0) as [[L A2]|]; auto.
  rewrite (IH _ H). reflexivity. Qed.
Local Transparent inner.

Lemma sweep_nofire bars : shortcut_fires bars = false -> sweep true bars = sweep false bars.
Proof. apply outer_nofire. Qed.

(* ---- packaged forms used by Properties/C03.v ---- *)
Lemma sweep_ok bars : positive_bars bars ->
  exists L, sweep false bars = Some L /\ landscape_ok bars L /\ (length L <= length bars)%nat.
Proof. intro PB. destruct (sweep_sem bars PB) as (L & RUN & LEN & INC & EV).
  exists L. split; auto. split; auto. split; auto. Qed.

Lemma legacy_ok_when_silent bars : positive_bars bars -> shortcut_fires bars = false ->
  exists L, sweep true bars = Some L /\ landscape_ok bars L.
Proof. intros PB NF. rewrite (sweep_nofire bars NF). destruct (sweep_ok bars PB) as (L & R & OK & _). eauto. Qed.

Lemma land_perm bars bars' k t : Permutation bars bars' -> (1 <= k)%nat -> land bars k t == land bars' k t.
Proof. intros PM Hk. unfold land. fold (tentv bars t). fold (tentv bars' t).
  apply kth_ext; auto; try apply tentv_nonneg. intros v Hv. apply ex_perm. apply tentv_perm. auto. Qed.

Lemma sweep_order_free bars bars' L L' : positive_bars bars -> Permutation bars bars' ->
  sweep false bars = Some L -> sweep false bars' = Some L' ->
  forall k t, (1 <= k)%nat -> pl_eval (nth (k - 1) L []) t == pl_eval (nth (k - 1) L' []) t.
Proof. intros PB PM R R' k t Hk.
  assert (PB' : positive_bars bars'). { intros a Ha. apply PB. eapply Permutation_in. apply Permutation_sym; eauto. auto. }
  destruct (sweep_sem bars PB) as (L0 & R0 & _ & _ & EV). rewrite R in R0. inversion R0; subst L0.
  destruct (sweep_sem bars' PB') as (L1 & R1 & _ & _ & EV'). rewrite R' in R1. inversion R1; subst L1.
  rewrite EV, EV' by auto. apply land_perm; auto. Qed.

Lemma exact_landscape_sem dgms h dg bars : nth_error dgms h = Some dg ->
  finite_bars (strip_trailing_inf dg) = Some bars -> positive_bars bars ->
  exists L, exact_landscape false true dgms h = Ok L /\ landscape_ok bars L /\ (length L <= length bars)%nat.
Proof. intros HS HF PB. unfold exact_landscape. rewrite HS. destruct dg as [|a r].
  - simpl in HF. inversion HF; subst bars. exists []. split; [reflexivity|]. split; [|simpl; lia]. split.
    + intros k t Hk. unfold land. simpl map. rewrite kth_nil. destruct (k - 1)%nat; reflexivity.
    + intros l [].
  - rewrite HF. destruct (sweep_ok bars PB) as (L & R & OK & LEN). rewrite R. eauto. Qed.

Lemma sweep_correct_full (bars : list bar) : (forall a, In a bars -> fst a < snd a) ->
  exists L, sweep false bars = Some L /\
    (forall (k : nat) (t : Q), (1 <= k)%nat -> pl_eval (nth (k - 1) L []) t == land bars k t) /\
    (forall l, In l L -> incr l) /\
    (length L <= length bars)%nat.
Proof. intros PB. destruct (sweep_sem bars PB) as (L & R & LEN & INC & EV). exists L. auto. Qed.

Lemma ssorted_example : ssorted [(1, 5); (2, 8); (3, 4)].
Proof. constructor. intros y [<-|[<-|[]]]; left; reflexivity.
  constructor. intros y [<-|[]]; left; reflexivity.
  constructor. intros y []. constructor. Qed.

(* ---- the Legacy sweep also terminates; its hook trace is empty exactly when shortcut_fires = false ---- *)
Lemma remove_nth_in {X} n (l : list X) x : In x (remove_nth n l) -> In x l.
Proof. revert n. induction l as [|y r IH]; intros [|n] H; simpl in *; auto. destruct H; auto. right; eauto. Qed.
Lemma remove_nth_len {X} n (l : list X) : (length (remove_nth n l) <= length l)%nat.
Proof. revert n. induction l as [|y r IH]; intros [|n]; simpl; auto. specialize (IH n). lia. Qed.
Lemma remove_nth_sorted n l : ssorted l -> ssorted (remove_nth n l).
Proof. intro H. revert n. induction H as [|y r Hy Sr IH]; intros [|n]; simpl; try constructor; auto.
  intros z Hz. apply Hy. eapply remove_nth_in; eauto. Qed.

Lemma dup_loop_keeps : forall fuel j A bd dup, ssorted A ->
  let r := dup_loop fuel j A bd dup in
  ssorted (snd r) /\ (length (snd r) <= length A)%nat /\ (forall x, In x (snd r) -> In x A).
Proof. induction fuel as [|f IH]; intros j A bd dup SA; simpl. repeat split; auto.
  destruct (nth_error A j) as [x|]; simpl; [|repeat split; auto].
  destruct (bar_eqb x bd); simpl; [|repeat split; auto].
  destruct (IH (S j) (remove_nth j A) bd (S dup) (remove_nth_sorted j A SA)) as (H1 & H2 & H3).
  split; auto. split. pose proof (remove_nth_len j A). lia.
  intros y Hy. eapply remove_nth_in. apply H3. exact Hy. Qed.

Local Opaque inner.
Lemma outer_legacy_sem : forall fuel A, ssorted A -> positive A -> (length A < fuel)%nat ->
  (exists Ls, outer true fuel A = Some Ls) /\ (outer_fires fuel A = false <-> outer_trace fuel A = []).
Proof.
  induction fuel as [|f IH]; intros A SA PA HL. lia.
  destruct A as [|[b d] A0]. { split. exists []; reflexivity. simpl; tauto. }
  simpl. inversion SA as [|? ? HB S0]; subst.
  destruct (dup_loop_keeps (length A0) 0 A0 (b, d) 0 S0) as (S1 & L1 & I1).
  destruct (dup_loop (length A0) 0 A0 (b, d) 0) as [dup A1]. simpl in S1, L1, I1.
  assert (SA1 : ssorted ((b, d) :: A1)) by (constructor; auto).
  assert (PA1 : positive ((b, d) :: A1)). { intros x [<-|Hx]; apply PA. left; auto. right; auto. }
  destruct (pass_sem b d A1 SA1 PA1) as (L & A' & RUN & SA' & PA' & LEN & _).
  match goal with |- context [inner ?a ?b ?c ?d ?e] =>
    replace (inner a b c d e) with (Some (L, A')) by (symmetry; exact RUN) end.
  assert (HF : (length A' < f)%nat).
  { unfold lt in *. simpl length in *. apply le_S_n in LEN. apply le_S_n in HL.
    eapply Nat.le_trans; [apply le_n_S; exact LEN|]. eapply Nat.le_trans; [apply le_n_S; exact L1|exact HL]. }
  destruct (IH A' SA' PA' HF) as ((Ls & R) & EQ). rewrite R. split. eauto.
  destruct dup; simpl. exact EQ. split; intro; discriminate. Qed.
Local Transparent inner.

Lemma sweep_legacy_runs bars : positive_bars bars -> exists L, sweep true bars = Some L.
Proof. intro PB. pose proof (sort_bars_perm bars) as PM.
  destruct (outer_legacy_sem (S (length bars)) (sort_bars bars)) as [H _]; auto.
  - apply sort_bars_sorted.
  - intros x Hx. apply PB. eapply Permutation_in. apply Permutation_sym; eauto. auto.
  - rewrite <- (Permutation_length PM). lia. Qed.

Lemma fires_iff_trace bars : positive_bars bars -> (shortcut_fires bars = false <-> shortcut_trace bars = []).
Proof. intro PB. pose proof (sort_bars_perm bars) as PM.
  destruct (outer_legacy_sem (S (length bars)) (sort_bars bars)) as [_ H]; auto.
  - apply sort_bars_sorted.
  - intros x Hx. apply PB. eapply Permutation_in. apply Permutation_sym; eauto. auto.
  - rewrite <- (Permutation_length PM). lia. Qed.

Lemma no_fuel_error s g dgms h dg bars : nth_error dgms h = Some dg ->
  finite_bars (strip_trailing_inf dg) = Some bars -> positive_bars bars -> exact_landscape s g dgms h <> ErrFuel.
Proof. intros HS HF PB. unfold exact_landscape. rewrite HS. destruct dg as [|a r].
  - destruct g; discriminate.
  - rewrite HF. destruct s.
    + destruct (sweep_legacy_runs bars PB) as (L & R). rewrite R. discriminate.
    + destruct (sweep_ok bars PB) as (L & R & _). rewrite R. discriminate. Qed.
