(* The 45-degree rotation of the matching plots lands on the perpendicular foot (property C20). *)
From Coq Require Import Reals Lra QArith Qreals.
From Persim Require Import Model.SceneM Model.SceneRotM.
Open Scope R_scope.

Lemma cp_sq : cp * cp = 1 / 2.
Proof. unfold cp. rewrite cos_PI4. assert (H : sqrt 2 * sqrt 2 = 2) by (apply sqrt_sqrt; lra).
  assert (sqrt 2 <> 0) by (intro E; rewrite E, Rmult_0_l in H; lra). replace (1 / sqrt 2 * (1 / sqrt 2)) with (1 / (sqrt 2 * sqrt 2)) by (field; assumption). rewrite H. reflexivity. Qed.
Lemma sp_cp : sp = cp.
Proof. unfold sp, cp. rewrite sin_PI4, cos_PI4. reflexivity. Qed.

Lemma diag_elem_is_midpoint b d : diag_elem (b, d) = ((b + d) / 2, (b + d) / 2).
Proof. unfold diag_elem, rot. simpl. rewrite sp_cp. pose proof cp_sq as H. f_equal.
  - replace ((b * cp + d * cp) * cp + 0 * - cp) with ((b + d) * (cp * cp)) by ring. rewrite H. field.
  - replace ((b * cp + d * cp) * cp + 0 * cp) with ((b + d) * (cp * cp)) by ring. rewrite H. field. Qed.

Lemma foot_perpendicular b d :
  let f := diag_elem (b, d) in
  fst f = snd f /\ (fst f - b) * 1 + (snd f - d) * 1 = 0 /\
  forall t, (fst f - b) * (fst f - b) + (snd f - d) * (snd f - d) <= (t - b) * (t - b) + (t - d) * (t - d).
Proof. intro f. unfold f. rewrite diag_elem_is_midpoint. simpl. repeat split; try lra.
  intro t.
  assert (E : (t - b) * (t - b) + (t - d) * (t - d)
              - (((b + d) / 2 - b) * ((b + d) / 2 - b) + ((b + d) / 2 - d) * ((b + d) / 2 - d))
              = 2 * ((t - (b + d) / 2) * (t - (b + d) / 2))) by field.
  pose proof (Rle_0_sqr (t - (b + d) / 2)) as P. unfold Rsqr in P. lra. Qed.

Lemma foot_Q2R (p : pt) :
  (Q2R (fst (foot p)), Q2R (snd (foot p))) = diag_elem (Q2R (fst p), Q2R (snd p)).
Proof. rewrite diag_elem_is_midpoint. unfold foot. simpl. rewrite Q2R_mult, Q2R_plus.
  replace (Q2R (1 # 2)) with (/ 2) by (unfold Q2R; simpl; lra). f_equal. Qed.

Lemma foot_projection : forall b d : R,
  diag_elem (b, d) = ((b + d) / 2, (b + d) / 2) /\
  (let f := diag_elem (b, d) in
   fst f = snd f /\ (fst f - b) * 1 + (snd f - d) * 1 = 0 /\
   forall t : R, (fst f - b) * (fst f - b) + (snd f - d) * (snd f - d) <= (t - b) * (t - b) + (t - d) * (t - d)).
Proof. intros b d. split. apply diag_elem_is_midpoint. apply foot_perpendicular. Qed.
