(* C09 - the Fixed variant (fixes/C09_first_ordinate.patch) on lists whose first ordinate is not 0:
   operands that start at the same abscissa (any first ordinates) and end with ordinate 0. *)
From Coq Require Import QArith Qminmax Lqa List Bool ZArith Lia Arith.
From Persim Require Import Lib.Kth Lib.PL Model.LandArithM Spec.LandArithS Proofs.LandArithP.
Import ListNotations.
Open Scope Q_scope.

Lemma eval_ge_last (r : list pt) x0 y0 t : incr ((x0, y0) :: r) -> last_y ((x0, y0) :: r) == 0 ->
  last_x ((x0, y0) :: r) <= t -> pl_eval ((x0, y0) :: r) t == 0.
Proof.
  intros I YL H.
  destruct (Qlt_le_dec (last_x ((x0, y0) :: r)) t) as [G|G].
  - apply pl_eval_right; [congruence|auto|auto].
  - assert (F := incr_first_le_last_cons r x0 y0 I). unfold last_x in H, G.
    assert (T : x0 <= t) by (eapply Qle_trans; [exact F|exact H]).
    destruct (p2s_spec r x0 y0 t I T) as [P1 P2]. rewrite (P1 G), (P2 H). exact YL.
Qed.

Lemma gen_eval_integ (r : list pt) x0 y0 x' t : incr ((x0, y0) :: r) -> last_y ((x0, y0) :: r) == 0 ->
  x' == x0 -> x' <= t -> pl_eval ((x0, y0) :: r) t == y0 + integ x' 0 (pos_to_slope ((x0, y0) :: r)) t.
Proof.
  intros I YL X T.
  destruct (p2s_head x0 y0 r) as [m0 [tl E]]. npt.
  assert (Ip := p2s_incr _ I). rewrite E in Ip. assert (S := incr_sfrom x0 m0 tl Ip).
  assert (F := incr_first_le_last_cons r x0 y0 I).
  assert (T0 : x0 <= t) by lra.
  destruct (p2s_spec r x0 y0 t I T0) as [P1 P2]. npt. rewrite E in P1, P2. unfold ES in P1, P2.
  npt. rewrite E, integ_cons.
  destruct (Qle_bool t x0) eqn:C.
  - apply b_le in C. assert (TE : t == x0) by lra.
    rewrite P1 by (unfold last_x; eapply Qle_trans; [exact C|exact F]).
    rewrite (integ_compat tl x0 m0 t x0 TE), (integ_at_start x0 m0 tl S). ring.
  - apply b_le_f in C.
    destruct (Qlt_le_dec (last_x ((x0, y0) :: r)) t) as [G|G].
    + rewrite pl_eval_right; [|congruence|auto|exact G]. specialize (P2 (Qlt_le_weak _ _ G)). lra.
    + rewrite (P1 G). lra.
Qed.

Lemma merge_head f (a0 : pt) a' (b0 : pt) b' am bm xs ms rs :
  sum_slopes_go (S f) (a0 :: a') (b0 :: b') am bm = Some ((xs, ms) :: rs) -> xs = fst a0 \/ xs = fst b0.
Proof.
  destruct a0 as [ax am'], b0 as [bx bm']. rewrite go_cc.
  destruct (Qlt_bool bx ax); [|destruct (Qlt_bool ax bx)];
  match goal with |- context [option_map _ ?u] => destruct u; simpl; intro H; inversion H; auto end.
Qed.

Lemma add_depth_fixed_same_start (ra rb : list pt) xa ya xb yb :
  let a := (xa, ya) :: ra in let b := (xb, yb) :: rb in
  incr a -> incr b -> xa == xb -> last_y a == 0 -> last_y b == 0 ->
  exists c, add_depth Fixed a b = Some c /\ incr c /\ first_y c == ya + yb /\ last_y c == 0 /\
    forall t, pl_eval c t == pl_eval a t + pl_eval b t.
Proof.
  intros a b Ia Ib XE La Lb.
  assert (YS : ystart Fixed a b == ya + yb).
  { unfold a, b. simpl. replace (Qle_bool xa xb) with true by (symmetry; apply b_le; lra).
    replace (Qle_bool xb xa) with true by (symmetry; apply b_le; lra). reflexivity. }
  change (add_depth Fixed a b) with (add_depth_core Fixed a b). unfold add_depth_core, sum_slopes. set (ys := ystart Fixed a b) in *.
  set (pa := pos_to_slope a). set (pb := pos_to_slope b).
  destruct (merge_some (length pa + length pb) pa pb 0 0 (le_n _)) as [s E]. rewrite E. simpl option_map.
  exists (slope_to_pos ys s). split; [reflexivity|].
  destruct (p2s_head xa ya ra) as [ma [ta Epa]]. destruct (p2s_head xb yb rb) as [mb [tb Epb]]. npt.
  assert (Ipa : incr pa) by (apply p2s_incr; exact Ia).
  assert (Ipb : incr pb) by (apply p2s_incr; exact Ib).
  assert (Hpa : pa = (xa, ma) :: ta) by exact Epa.
  assert (Hpb : pb = (xb, mb) :: tb) by exact Epb.
  set (x' := Qmin xa xb). assert (X1 : x' <= xa) by apply Q.le_min_l. assert (X2 : x' <= xb) by apply Q.le_min_r.
  assert (X3 : x' == xa) by (unfold x'; destruct (Q.min_spec xa xb) as [[_ M]|[_ M]]; rewrite M; lra).
  assert (Sa : sfrom x' pa) by (apply incr_sfrom'; [exact Ipa|rewrite Hpa; exact X1]).
  assert (Sb : sfrom x' pb) by (apply incr_sfrom'; [exact Ipb|rewrite Hpb; exact X2]).
  destruct (merge_struct _ _ _ _ _ s x' E Ipa Ipb) as [_ [HB Is]].
  assert (Hb : hbound x' s) by (apply HB; [rewrite Hpa|rewrite Hpb]; simpl; auto).
  destruct s as [|[xs ms] rs].
  { apply merge_nil in E. destruct E as [E _]. rewrite Hpa in E. discriminate. }
  assert (XS : xs == x').
  { assert (E2 := E). rewrite Hpa, Hpb in E2. simpl length in E2. apply merge_head in E2. simpl in E2. destruct E2; subst xs; lra. }
  simpl in Hb. simpl slope_to_pos.
  destruct (s2p_spec rs xs ys ms Is) as [Ic [Lc Ec]].
  set (c := (xs, ys) :: s2p_go xs ys ms rs) in *.
  assert (Ss : sfrom xs rs) by (apply (incr_sfrom xs ms); exact Is).
  assert (KEY : forall t, x' <= t -> ys + integ x' 0 ((xs, ms) :: rs) t == pl_eval a t + pl_eval b t).
  { intros t T.
    assert (M := merge_integ _ _ _ _ _ _ x' t E Sa Sb T).
    assert (A := gen_eval_integ ra xa ya x' t Ia La X3 T).
    assert (B := gen_eval_integ rb xb yb x' t Ib Lb ltac:(lra) T).
    assert (M2 : integ x' 0 ((xs, ms) :: rs) t == integ x' (0 + 0) ((xs, ms) :: rs) t) by (apply integ_compat_m; ring).
    unfold pa, pb, a, b in M. unfold a, b. npt. lra. }
  destruct (merge_last _ _ _ _ _ _ x' E Sa Sb) as [LA LB].
  rewrite lastx_d_cons in LA, LB. rewrite <- Lc in LA, LB.
  unfold pa in LA. rewrite (p2s_last a x' (0, 0)) in LA by (unfold a; congruence).
  unfold pb in LB. rewrite (p2s_last b x' (0, 0)) in LB by (unfold b; congruence).
  change (fst (last a (0, 0))) with (last_x a) in LA. change (fst (last b (0, 0))) with (last_x b) in LB.
  assert (PW : forall t, pl_eval c t == pl_eval a t + pl_eval b t).
  { intro t. destruct (Qlt_le_dec t xs) as [G|G].
    - rewrite (pl_eval_left c t) by (try exact Ic; unfold c; try congruence; exact G).
      assert (A0 : pl_eval a t == 0) by (apply pl_eval_left; [unfold a; congruence|exact Ia|unfold first_x, a; simpl; lra]).
      assert (B0 : pl_eval b t == 0) by (apply pl_eval_left; [unfold b; congruence|exact Ib|unfold first_x, b; simpl; lra]).
      rewrite A0, B0. ring.
    - destruct (Qlt_le_dec (last_x c) t) as [G2|G2].
      + rewrite (pl_eval_right c t) by (try exact Ic; unfold c; try congruence; exact G2).
        assert (A1 : pl_eval a t == 0) by (apply (eval_ge_last ra xa ya t Ia La); apply Qle_trans with (last_x c); [exact LA|lra]).
        assert (B1 : pl_eval b t == 0) by (apply (eval_ge_last rb xb yb t Ib Lb); apply Qle_trans with (last_x c); [exact LB|lra]).
        rewrite A1, B1. ring.
      + rewrite (Ec t G G2). rewrite <- (KEY t) by lra. rewrite integ_cons.
        destruct (Qle_bool t xs) eqn:C.
        * apply b_le in C. assert (TE : t == xs) by lra.
          rewrite (integ_compat rs xs ms t xs TE), (integ_at_start xs ms rs Ss). ring.
        * ring. }
  split; [exact Ic|]. split; [unfold first_y, c; simpl; exact YS|]. split; [|exact PW].
  assert (AL := pl_eval_at_last _ xs ys Ic). fold c in AL.
  eapply Qeq_trans; [symmetry; exact AL|].
  assert (A1 : pl_eval a (last_x c) == 0) by (apply (eval_ge_last ra xa ya _ Ia La); exact LA).
  assert (B1 : pl_eval b (last_x c) == 0) by (apply (eval_ge_last rb xb yb _ Ib Lb); exact LB).
  rewrite PW, A1, B1. ring.
Qed.
