(* C17: executable check that a shortest-path result satisfies the hypotheses of the fallback
   theorems ([ometric] and transitivity of reachability); run per case on the Floyd-Warshall
   instance by the correspondence. *)
From Coq Require Import ZArith List Bool Arith Lia.
From Persim Require Import Spec.MGH Model.MGHM Model.GraphM Proofs.GraphDm.
Import ListNotations.
Open Scope Z_scope.

Definition oeqb (a b : option Z) : bool :=
  match a, b with Some x, Some y => x =? y | None, None => true | _, _ => false end.
Definition opos (a : option Z) : bool := match a with Some z => 0 <? z | None => true end.

Definition ohyp_b (D : omat) : bool :=
  let n := length D in
  let idx := seq 0 n in
  forallb (fun r => (length r =? n)%nat) D &&
  forallb (fun i => oeqb (oent D i i) (Some 0) &&
    forallb (fun j => oeqb (oent D i j) (oent D j i) && ((i =? j)%nat || opos (oent D i j)) &&
      forallb (fun k => negb (reach D i j && reach D j k) || reach D i k) idx) idx) idx.

Lemma oeqb_eq a b : oeqb a b = true -> a = b.
Proof. destruct a, b; simpl; intros H; try discriminate; try reflexivity. apply Z.eqb_eq in H. congruence. Qed.

Lemma ohyp_b_sound D : ohyp_b D = true ->
  ometric D /\
  (forall i j k, (i < length D)%nat -> (j < length D)%nat -> (k < length D)%nat ->
                 reach D i j = true -> reach D j k = true -> reach D i k = true).
Proof.
  unfold ohyp_b. intros H. apply andb_true_iff in H. destruct H as [H1 H2].
  rewrite forallb_forall in H1, H2.
  assert (P : forall i j, (i < length D)%nat -> (j < length D)%nat ->
     oent D i i = Some 0 /\ oent D i j = oent D j i /\ (i <> j -> opos (oent D i j) = true) /\
     forall k, (k < length D)%nat -> reach D i j = true -> reach D j k = true -> reach D i k = true).
  { intros i j Hi Hj. specialize (H2 i ltac:(apply in_seq; lia)). apply andb_true_iff in H2. destruct H2 as [Dg H2].
    rewrite forallb_forall in H2. specialize (H2 j ltac:(apply in_seq; lia)).
    apply andb_true_iff in H2. destruct H2 as [H2 Tr]. apply andb_true_iff in H2. destruct H2 as [Sy Po].
    split; [apply oeqb_eq; exact Dg|]. split; [apply oeqb_eq; exact Sy|]. split.
    - intros NE. apply orb_true_iff in Po. destruct Po as [E|Po]; [apply Nat.eqb_eq in E; congruence|exact Po].
    - intros k Hk R1 R2. rewrite forallb_forall in Tr. specialize (Tr k ltac:(apply in_seq; lia)).
      rewrite R1, R2 in Tr. simpl in Tr. exact Tr. }
  split.
  - split; [|split; [|split]].
    + apply Forall_forall. intros r Hr. apply Nat.eqb_eq. apply H1. exact Hr.
    + intros i Hi. apply (P i i Hi Hi).
    + intros i j Hi Hj. apply (P i j Hi Hj).
    + intros i j z Hi Hj NE E. destruct (P i j Hi Hj) as [_ [_ [Po _]]]. specialize (Po NE). rewrite E in Po.
      simpl in Po. apply Z.ltb_lt. exact Po.
  - intros i j k Hi Hj Hk. apply (P i j Hi Hj). exact Hk.
Qed.
