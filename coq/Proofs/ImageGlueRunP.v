(* Glue: the run instances of Corr/ImageCorr.v (what the C04 / C11 ties execute inside Coq) are the kernel
   models of Model/KernelM.v plugged in as in Model/ImageKernelM.v, with Phi = the normal CDF as an integral
   (Spec/BvnS.Phi_int), so the glue theorems of Proofs/ImageGlueP.v apply to them as they stand. *)
From Coq Require Import Reals List Lra.
From Persim Require Import Spec.ImageS Model.ImageM Proofs.ImageP Spec.BvnS Proofs.KernelP.
From Persim Require Import Model.ImageKernelM Proofs.ImageGlueP Corr.ImageCorr.
Import ListNotations.
Open Scope R_scope.

Lemma PhiI_is_Phi_int x : PhiI x = Phi_int x.
Proof. apply PhiI_is_normal_cdf. Qed.

Lemma run_instances :
  KgI = gaussian_kernelM PhiI /\ KuI = uniform_kernelM /\ (forall x, PhiI x = Phi_int x).
Proof. split; [reflexivity|]. split; [reflexivity|]. exact PhiI_is_Phi_int. Qed.

Lemma PhiI_monotone : monotone PhiI.
Proof. intros a b H. rewrite !PhiI_is_Phi_int. apply Phi_int_mono, H. Qed.

Lemma image_nonneg_run skew w k bp pp dgm :
  axis_cfg k -> nondecr bp -> nondecr pp ->
  (forall q, In q dgm -> 0 <= w (fst (bp_of skew q)) (snd (bp_of skew q))) ->
  Forall (Forall (fun v => 0 <= v)) (transform_one PhiI KgI skew w k bp pp dgm).
Proof. apply (image_nonneg_monotone (-100) PhiI). exact PhiI_monotone. Qed.
