(* C17: the matrix handed to estimate is always a distance matrix (never a "non-metric"):
   for every shortest-path result D that is a metric with infinities, the intended fallback
   returns a [dmatrix]. *)
From Coq Require Import ZArith List Bool Arith Lia.
From Persim Require Import Spec.MGH Model.MGHM Model.GraphM Proofs.MGHBasics Proofs.MGHLb Proofs.GraphP.
Import ListNotations.
Open Scope Z_scope.

Definition ometric (D : omat) : Prop :=
  Forall (fun r => length r = length D) D /\
  (forall i, (i < length D)%nat -> oent D i i = Some 0) /\
  (forall i j, (i < length D)%nat -> (j < length D)%nat -> oent D i j = oent D j i) /\
  (forall i j z, (i < length D)%nat -> (j < length D)%nat -> i <> j -> oent D i j = Some z -> 0 < z).

Lemma ent_restrict D C a b : (a < length C)%nat -> (b < length C)%nat ->
  ent (map (map oz) (restrict_both D C)) a b = oz (oent D (nth a C 0%nat) (nth b C 0%nat)).
Proof.
  intros Ha Hb. unfold ent, restrict_both. rewrite map_map.
  rewrite (nth_map_dflt (fun i => map oz (map (fun j => oent D i j) C)) C a [] 0%nat) by exact Ha.
  rewrite map_map. rewrite (nth_map_dflt (fun j => oz (oent D (nth a C 0%nat) j)) C b 0 0%nat) by exact Hb.
  reflexivity.
Qed.

Lemma restrict_dmatrix D C : ometric D -> NoDup C -> Forall (fun c => (c < length D)%nat) C ->
  (forall a b, In a C -> In b C -> oent D a b <> None) ->
  dmatrix (map (map oz) (restrict_both D C)).
Proof.
  intros [Sh [Dg [Sy Po]]] ND FC Fin. rewrite Forall_forall in FC.
  assert (L : length (map (map oz) (restrict_both D C)) = length C) by (unfold restrict_both; rewrite !map_length; reflexivity).
  split; [|split; [|split]]; rewrite ?L.
  - apply Forall_forall. intros r Hr. rewrite L. unfold restrict_both in Hr. rewrite map_map in Hr.
    apply in_map_iff in Hr. destruct Hr as [i [<- _]]. rewrite !map_length. reflexivity.
  - intros a Ha. rewrite ent_restrict by assumption. rewrite Dg; [reflexivity|]. apply FC. apply nth_In. exact Ha.
  - intros a b Ha Hb. rewrite !ent_restrict by assumption. rewrite Sy; [reflexivity| |]; apply FC; apply nth_In; assumption.
  - intros a b Ha Hb NE. rewrite ent_restrict by assumption.
    assert (Ia : In (nth a C 0%nat) C) by (apply nth_In; exact Ha).
    assert (Ib : In (nth b C 0%nat) C) by (apply nth_In; exact Hb).
    destruct (oent D (nth a C 0%nat) (nth b C 0%nat)) as [z|] eqn:E; [|exfalso; apply (Fin _ _ Ia Ib); exact E].
    simpl. apply (Po (nth a C 0%nat) (nth b C 0%nat)); auto.
    intros Eq. rewrite NoDup_nth in ND. apply NE. apply (ND a b Ha Hb Eq).
Qed.

Lemma has_inf_false_all D : has_inf D = false -> forall i j, (i < length D)%nat -> (j < length (nth i D []))%nat -> oent D i j <> None.
Proof.
  intros H i j Hi Hj E. apply not_true_iff_false in H. apply H. unfold has_inf. apply existsb_exists.
  exists (nth i D []). split; [apply nth_In; exact Hi|]. apply existsb_exists. exists None. split; [|reflexivity].
  unfold oent in E. rewrite <- E. apply nth_In. exact Hj.
Qed.

Lemma restrict_all D : Forall (fun r => length r = length D) D -> restrict_both D (seq 0 (length D)) = D.
Proof.
  intros Sh. unfold restrict_both. apply (nth_ext _ _ [] []); [rewrite map_length, seq_length; reflexivity|].
  intros i Hi. rewrite map_length, seq_length in Hi.
  rewrite (nth_map_seq (fun i => map (fun j => oent D i j) (seq 0 (length D)))) by exact Hi.
  assert (Lr : length (nth i D []) = length D) by (rewrite Forall_forall in Sh; apply Sh; apply nth_In; exact Hi).
  apply (nth_ext _ _ None None); [rewrite map_length, seq_length; symmetry; exact Lr|].
  intros j Hj. rewrite map_length, seq_length in Hj. rewrite (nth_map_seq (fun j => oent D i j)) by exact Hj. reflexivity.
Qed.

Theorem make_dm_of_dmatrix D : ometric D -> (0 < length D)%nat ->
  (forall i j k, (i < length D)%nat -> (j < length D)%nat -> (k < length D)%nat ->
                 reach D i j = true -> reach D j k = true -> reach D i k = true) ->
  exists M, make_dm_of D = DMOk (has_inf D) M /\ dmatrix M /\ (0 < length M)%nat.
Proof.
  intros OM Hn Tr. pose proof OM as [Sh [Dg [Sy Po]]].
  assert (Rf : forall i, (i < length D)%nat -> reach D i i = true) by (intros i Hi; unfold reach; rewrite Dg by exact Hi; reflexivity).
  assert (Sm : forall i j, (i < length D)%nat -> (j < length D)%nat -> reach D i j = true -> reach D j i = true).
  { intros i j Hi Hj R. unfold reach in *. rewrite <- Sy by assumption. exact R. }
  destruct (make_dm_of_total D Rf Sm Tr Hn) as [r [Hr [Rr [LC [Fin [Ir [_ E]]]]]]].
  rewrite E. eexists. split; [reflexivity|].
  destruct (has_inf D) eqn:HI.
  - split.
    + apply restrict_dmatrix; [exact OM| | |exact Fin].
      * unfold members. apply NoDup_filter. apply seq_NoDup.
      * apply Forall_forall. intros c Hc. unfold members in Hc. apply filter_In in Hc. destruct Hc as [Hc _]. apply in_seq in Hc. lia.
    + unfold restrict_both. rewrite !map_length. destruct (members D r); [destruct Ir|simpl; lia].
  - rewrite <- (restrict_all D Sh) at 1. split.
    + apply restrict_dmatrix; [exact OM|apply seq_NoDup| |].
      * apply Forall_forall. intros c Hc. apply in_seq in Hc. lia.
      * intros a b Ia Ib. apply in_seq in Ia, Ib. apply (has_inf_false_all D HI); [lia|].
        rewrite Forall_forall in Sh. rewrite (Sh (nth a D [])) by (apply nth_In; lia). lia.
    + rewrite map_length. exact Hn.
Qed.
