(* Non-vacuity of the hypothesis on the external routine: a (brute-force) function that returns a
   maximum matching of every bipartite graph exists, so `max_matching_oracle` is satisfiable and
   bottleneck_correct is not vacuously true. *)
From Coq Require Import List Bool Arith Permutation Lia.
From Persim Require Import Lib.AugMatching Model.BneckM.
Import ListNotations.

(* all matchings of the rows i, i+1, ... of g (up to order of the pairs) *)
Fixpoint allm (i : nat) (g : list (list nat)) : list matching :=
  match g with
  | [] => [[]]
  | row :: rest =>
    let sub := allm (S i) rest in
    sub ++ flat_map (fun m => flat_map (fun j => if existsb (Nat.eqb j) (map snd m) then [] else [(i, j) :: m]) row) sub
  end.

Definition matching_from (i : nat) (g : list (list nat)) (m : matching) : Prop :=
  NoDup (map fst m) /\ NoDup (map snd m) /\
  forall p, In p m -> i <= fst p /\ In (snd p) (nth (fst p - i) g []).

Lemma allm_sound g : forall i m, In m (allm i g) -> matching_from i g m.
Proof.
  induction g as [|row rest IH]; intros i m I.
  - destruct I as [<-|[]]. split; [constructor|]. split; [constructor|]. intros p [].
  - simpl in I. apply in_app_iff in I. destruct I as [I|I].
    + destruct (IH _ _ I) as (A & B & C). split; [exact A|]. split; [exact B|].
      intros p Ip. destruct (C p Ip) as [L H]. split; [lia|].
      replace (fst p - i) with (S (fst p - S i)) by lia. exact H.
    + apply in_flat_map in I. destruct I as [m0 [I0 I]]. apply in_flat_map in I. destruct I as [j [Ij I]].
      destruct (existsb (Nat.eqb j) (map snd m0)) eqn:E; [destruct I|]. destruct I as [<-|[]].
      destruct (IH _ _ I0) as (A & B & C). split; [|split].
      * simpl. constructor; [|exact A]. intros J. apply in_map_iff in J. destruct J as [p [Ep Ip]].
        destruct (C p Ip). lia.
      * simpl. constructor; [|exact B]. intros J. apply existsb_eqb_In in J. congruence.
      * intros p [<-|Ip]; simpl.
        -- split; [lia|]. now rewrite Nat.sub_diag.
        -- destruct (C p Ip) as [L H]. split; [lia|].
           replace (fst p - i) with (S (fst p - S i)) by lia. exact H.
Qed.

Lemma allm_complete g : forall i m, matching_from i g m ->
  exists m', In m' (allm i g) /\ Permutation m m'.
Proof.
  induction g as [|row rest IH]; intros i m (A & B & C).
  - destruct m as [|p m]; [exists []; split; [now left|constructor]|].
    destruct (C p (or_introl eq_refl)) as [_ H]. destruct (fst p - i); destruct H.
  - destruct (in_dec Nat.eq_dec i (map fst m)) as [J|J].
    + apply in_map_iff in J. destruct J as [[a j] [Ea Ip]]. simpl in Ea. subst a.
      destruct (in_split _ _ Ip) as [l1 [l2 ->]].
      assert (P : Permutation (l1 ++ (i, j) :: l2) ((i, j) :: l1 ++ l2)) by (symmetry; apply Permutation_middle).
      pose proof (Permutation_NoDup (Permutation_map fst P) A) as A'.
      pose proof (Permutation_NoDup (Permutation_map snd P) B) as B'.
      simpl in A', B'. inversion A' as [|? ? NA A0]; subst. inversion B' as [|? ? NB B0]; subst.
      assert (M0 : matching_from (S i) rest (l1 ++ l2)).
      { split; [exact A0|]. split; [exact B0|]. intros p Ip0.
        assert (Ip1 : In p (l1 ++ (i, j) :: l2)).
        { apply in_app_iff in Ip0. apply in_app_iff. destruct Ip0; [now left|right; now right]. }
        destruct (C p Ip1) as [L H].
        assert (fst p <> i) by (intros E; apply NA; rewrite <- E; now apply in_map).
        split; [lia|]. replace (fst p - i) with (S (fst p - S i)) in H by lia. exact H. }
      destruct (IH _ _ M0) as [m0 [I0 P0]].
      exists ((i, j) :: m0). split.
      * simpl. apply in_app_iff. right. apply in_flat_map. exists m0. split; [exact I0|].
        apply in_flat_map. exists j. split.
        -- destruct (C (i, j) Ip) as [_ H]. simpl in H. now rewrite Nat.sub_diag in H.
        -- destruct (existsb (Nat.eqb j) (map snd m0)) eqn:E; [|now left].
           exfalso. apply NB. apply existsb_eqb_In in E.
           apply (Permutation_in _ (Permutation_sym (Permutation_map snd P0))). exact E.
      * eapply Permutation_trans; [exact P|]. apply perm_skip, P0.
    + assert (M0 : matching_from (S i) rest m).
      { split; [exact A|]. split; [exact B|]. intros p Ip. destruct (C p Ip) as [L H].
        assert (fst p <> i) by (intros E; apply J; rewrite <- E; now apply in_map).
        split; [lia|]. replace (fst p - i) with (S (fst p - S i)) in H by lia. exact H. }
      destruct (IH _ _ M0) as [m0 [I0 P0]]. exists m0. split; [|exact P0].
      simpl. apply in_app_iff. now left.
Qed.

Fixpoint longest (l : list matching) : matching :=
  match l with
  | [] => []
  | m :: r => let b := longest r in if length b <? length m then m else b
  end.

Lemma longest_ge l m : In m l -> length m <= length (longest l).
Proof.
  induction l as [|a r IH]; simpl; [tauto|]. intros [->|I].
  - destruct (length (longest r) <? length m) eqn:E; [lia|apply Nat.ltb_ge in E; lia].
  - specialize (IH I). destruct (length (longest r) <? length a) eqn:E; [apply Nat.ltb_lt in E; lia|lia].
Qed.
Lemma longest_in l : l <> [] -> In (longest l) l.
Proof.
  induction l as [|a r IH]; [congruence|]. intros _. simpl.
  destruct (length (longest r) <? length a) eqn:E; [now left|]. destruct r as [|b r'].
  - simpl in *. destruct a; [now left|discriminate].
  - right. apply IH. discriminate.
Qed.

Definition brute_oracle (g : list (list nat)) : matching := longest (allm 0 g).

Lemma matching_from_0 g m : matching_from 0 g m <-> is_matching g m.
Proof.
  unfold matching_from, is_matching. split; intros (A & B & C).
  - split; [exact A|]. split; [exact B|]. intros p H. destruct (C p H) as [_ H']. now rewrite Nat.sub_0_r in H'.
  - split; [exact A|]. split; [exact B|]. intros p H. split; [lia|]. rewrite Nat.sub_0_r. apply C, H.
Qed.

Theorem max_matching_oracle_exists : max_matching_oracle brute_oracle.
Proof.
  intros g. unfold brute_oracle. split.
  - apply matching_from_0, allm_sound with (i := 0). apply longest_in.
    destruct g; simpl; [discriminate|]. destruct (allm 1 g) eqn:E; [|discriminate].
    exfalso. destruct (allm_complete g 1 []) as [m' [I _]]; [|rewrite E in I; destruct I].
    split; [constructor|]. split; [constructor|]. intros p [].
  - intros m IM. apply matching_from_0 in IM. destruct (allm_complete g 0 m IM) as [m' [I P]].
    rewrite (Permutation_length P). apply longest_ge, I.
Qed.
