(* Glue C01 / C03 / C10 at REAL abscissae: for every partial matching m of two finite diagrams, every depth k >= 1
   and every real t, the k-th largest tent values (kthR, Proofs/KthReal.v) of the two diagrams differ by at most the
   largest cost of m; with C03.sweep_is_kth_largest_tent_at_every_real_t the same bound holds between the critical
   pairs the sweep returns, read as piecewise-linear functions of a real abscissa (pl_evalR).
   Port of Proofs/LandscapeStabP.v (landscape_stability_matching) to R. *)
From Coq Require Import Reals Lra QArith Qreals Qabs Qminmax List Bool Arith Lia Permutation.
From Persim Require Import Lib.Kth Lib.PL Spec.LandscapeS Spec.LandscapeRealS Spec.PartialMatching Spec.BottleneckS Lib.PMatchLemmas.
From Persim Require Lib.AugMatching Proofs.BneckP Model.SweepM.
From Persim Require Import Proofs.SweepRealLib Proofs.KthReal Proofs.SweepReal.
Import ListNotations.
Open Scope R_scope.

(* ---- rank functions over R ---- *)
Lemma exR_app l1 l2 v : exR (l1 ++ l2) v = (exR l1 v + exR l2 v)%nat.
Proof. unfold exR. rewrite filter_app, app_length. auto. Qed.
Lemma exR_repeat0 m v : 0 <= v -> exR (repeat 0 m) v = O.
Proof. intro H. induction m; simpl. reflexivity. rewrite exR_zero; auto. Qed.

Definition closeR (e : R) (x y : R) : Prop := - e <= x - y <= e.

Lemma exR_shift l1 l2 e w : Forall2 (closeR e) l1 l2 -> (exR l1 (w + e) <= exR l2 w)%nat.
Proof. induction 1 as [|x y l1 l2 H F IH]. unfold exR; simpl; lia.
  rewrite !exR_cons. unfold closeR in H.
  destruct (gtb (w + e) x) eqn:A.
  - apply gtb_true in A. replace (gtb w y) with true. lia. symmetry. apply gtb_true. lra.
  - destruct (gtb w y); lia. Qed.

Lemma Forall2_closeR_sym e l1 l2 : Forall2 (closeR e) l1 l2 -> Forall2 (closeR e) l2 l1.
Proof. induction 1; constructor; auto. unfold closeR in *. lra. Qed.

Lemma kthR_upper l1 l2 e k : (1 <= k)%nat -> 0 <= e ->
  (forall x, In x l2 -> 0 <= x) -> Forall2 (closeR e) l1 l2 -> kthR l1 k <= kthR l2 k + e.
Proof. intros Hk He N2 F.
  pose proof (kthR_nonneg l2 k N2) as P2.
  destruct (Rlt_le_dec (kthR l2 k + e) (kthR l1 k)) as [L|L]; auto. exfalso.
  assert (H : 0 <= kthR l2 k + e) by lra.
  pose proof (proj1 (kthR_ex l1 k _ Hk H) L) as E1.
  pose proof (exR_shift _ _ _ (kthR l2 k) F) as E2.
  assert (E3 : (k <= exR l2 (kthR l2 k))%nat) by lia.
  apply (kthR_ex l2 k _ Hk P2) in E3. lra. Qed.

Lemma kthR_lipschitz l1 l2 e k : (1 <= k)%nat -> 0 <= e ->
  (forall x, In x l1 -> 0 <= x) -> (forall x, In x l2 -> 0 <= x) ->
  Forall2 (closeR e) l1 l2 -> Rabs (kthR l1 k - kthR l2 k) <= e.
Proof. intros Hk He N1 N2 F. apply Rabs_le.
  pose proof (kthR_upper l1 l2 e k Hk He N2 F).
  pose proof (kthR_upper l2 l1 e k Hk He N1 (Forall2_closeR_sym _ _ _ F)). lra. Qed.

Lemma kthR_ext l1 l2 k : (1 <= k)%nat -> (forall x, In x l1 -> 0 <= x) -> (forall x, In x l2 -> 0 <= x) ->
  (forall v, 0 <= v -> exR l1 v = exR l2 v) -> kthR l1 k = kthR l2 k.
Proof. intros Hk N1 N2 E.
  apply (rank_pins_value (fun v => (k <= exR l1 v)%nat)); try (apply kthR_nonneg; auto).
  - intros v Hv. apply kthR_ex; auto.
  - intros v Hv. rewrite E by auto. apply kthR_ex; auto. Qed.

(* ---- pointwise facts ---- *)
Lemma Q2R_half_lit : Q2R (1 # 2) = / 2. Proof. unfold Q2R. simpl. lra. Qed.
Lemma Q2R_0r : Q2R 0 = 0. Proof. unfold Q2R. simpl. lra. Qed.

Lemma Qabs_le_R x y c : (Qabs (x - y) <= c)%Q -> - Q2R c <= Q2R x - Q2R y <= Q2R c.
Proof. intro H. apply Qabs_Qle_condition in H. destruct H as [H1 H2].
  apply Qle_Rle in H1, H2. rewrite Q2R_opp in H1. rewrite Q2R_minus in H1, H2. lra. Qed.

Lemma tentR_lip b d b' d' t e : - e <= b - b' <= e -> - e <= d - d' <= e -> closeR e (tentR b d t) (tentR b' d' t).
Proof. intros. unfold closeR, tentR. split; rmm. Qed.

Lemma pair_close_R (p q : bar) c t : (linf p q <= c)%Q -> closeR (Q2R c) (tR p t) (tR q t).
Proof. intro H. unfold tR. apply tentR_lip; apply Qabs_le_R; (eapply Qle_trans; [|exact H]); unfold linf.
  apply Q.le_max_l. apply Q.le_max_r. Qed.

Lemma unmatched_close_R (p : bar) c t : (diagB p <= c)%Q -> (0 <= c)%Q ->
  closeR (Q2R c) (tR p t) 0 /\ closeR (Q2R c) 0 (tR p t).
Proof. intros D C. apply Qle_Rle in D, C. unfold diagB in D. rewrite Q2R_mult, Q2R_minus, Q2R_half_lit in D.
  rewrite Q2R_0r in C. unfold closeR, tR, tentR. split; split; rmm. Qed.

Lemma Forall2_mapR_repeat_l (f : nat -> R) e l : (forall i, In i l -> closeR e (f i) 0) ->
  Forall2 (closeR e) (map f l) (repeat 0 (length l)).
Proof. induction l as [|a r IH]; intro H; simpl; constructor. apply H; left; auto. apply IH. intros; apply H; right; auto. Qed.
Lemma Forall2_mapR_repeat_r (f : nat -> R) e l : (forall i, In i l -> closeR e 0 (f i)) ->
  Forall2 (closeR e) (repeat 0 (length l)) (map f l).
Proof. induction l as [|a r IH]; intro H; simpl; constructor. apply H; left; auto. apply IH. intros; apply H; right; auto. Qed.
Lemma Forall2_mapR_map {X} (f g : X -> R) e l : (forall p, In p l -> closeR e (f p) (g p)) ->
  Forall2 (closeR e) (map f l) (map g l).
Proof. induction l as [|a r IH]; intro H; simpl; constructor. apply H; left; auto. apply IH. intros; apply H; right; auto. Qed.

Lemma tentsR_by_index (S : list bar) t :
  map (fun i => tR (nth i S (0%Q, 0%Q)) t) (seq 0 (length S)) = map (fun a => tR a t) S.
Proof. rewrite <- (map_map (fun i => nth i S (0%Q, 0%Q)) (fun a => tR a t)). rewrite map_nth_seq. reflexivity. Qed.

Lemma exR_split_indices (S : list bar) t used v : NoDup used -> (forall x, In x used -> (x < length S)%nat) ->
  Nat.add (exR (map (fun i => tR (nth i S (0%Q, 0%Q)) t) used) v)
          (exR (map (fun i => tR (nth i S (0%Q, 0%Q)) t) (unmatched used (length S))) v)
  = exR (map (fun a => tR a t) S) v.
Proof. intros ND B. rewrite <- exR_app, <- map_app, <- tentsR_by_index.
  apply exR_perm. apply Permutation_map. apply AugMatching.unmatched_perm; auto. Qed.

Lemma tentsR_nn (S : list bar) t x : In x (map (fun a => tR a t) S) -> 0 <= x.
Proof. intro H. apply in_map_iff in H. destruct H as (a & <- & _). apply tentR_nonneg. Qed.

(* ---- the bound at every real t ---- *)
Lemma landscape_stability_matching_R (S T : list bar) m : valid_for S T m ->
  forall (k : nat) (t : R), (1 <= k)%nat ->
    Rabs (kthR (map (fun a => tR a t) S) k - kthR (map (fun a => tR a t) T) k) <= Q2R (bcost S T m).
Proof.
  intros (ND1 & ND2 & BD) k t Hk.
  set (c := bcost S T m).
  assert (C0 : (0 <= c)%Q) by apply BneckP.maxl_nonneg.
  assert (CG : forall x, In x (bcosts S T m) -> (x <= c)%Q) by (intros; apply BneckP.maxl_ge; auto).
  clearbody c.
  assert (C0R : 0 <= Q2R c). { apply Qle_Rle in C0. rewrite Q2R_0r in C0. exact C0. }
  set (tS := fun i => tR (nth i S (0%Q, 0%Q)) t). set (tT := fun j => tR (nth j T (0%Q, 0%Q)) t).
  set (UL := unmatched_l (length S) m). set (UR := unmatched_r (length T) m).
  set (l1 := map (fun p => tS (fst p)) m ++ map tS UL ++ repeat 0 (length UR)).
  set (l2 := map (fun p => tT (snd p)) m ++ repeat 0 (length UL) ++ map tT UR).
  assert (F : Forall2 (closeR (Q2R c)) l1 l2).
  { unfold l1, l2. apply Forall2_app; [|apply Forall2_app].
    - apply Forall2_mapR_map. intros p Hp. apply pair_close_R.
      apply CG. apply in_pm_costs. left. exists p. split; auto.
    - apply Forall2_mapR_repeat_l. intros i Hi. unfold UL, unmatched_l in Hi. apply in_unmatched in Hi.
      apply unmatched_close_R; auto. apply CG. apply in_pm_costs. right; left. exists i. tauto.
    - apply Forall2_mapR_repeat_r. intros j Hj. unfold UR, unmatched_r in Hj. apply in_unmatched in Hj.
      apply unmatched_close_R; auto. apply CG. apply in_pm_costs. right; right. exists j. tauto. }
  assert (N1 : forall x, In x l1 -> 0 <= x).
  { intros x Hx. unfold l1 in Hx. rewrite !in_app_iff, !in_map_iff in Hx.
    destruct Hx as [(p & <- & _)|[(i & <- & _)|Hx]]; try apply tentR_nonneg. apply repeat_spec in Hx. subst; lra. }
  assert (N2 : forall x, In x l2 -> 0 <= x).
  { intros x Hx. unfold l2 in Hx. rewrite !in_app_iff, !in_map_iff in Hx.
    destruct Hx as [(p & <- & _)|[Hx|(i & <- & _)]]; try apply tentR_nonneg. apply repeat_spec in Hx. subst; lra. }
  assert (E1 : kthR l1 k = kthR (map (fun a => tR a t) S) k).
  { apply kthR_ext; auto. apply tentsR_nn. intros v Hv. unfold l1.
    rewrite !exR_app, exR_repeat0 by auto.
    rewrite <- (exR_split_indices S t (map fst m) v ND1) by (intros x Hx; apply in_map_iff in Hx; destruct Hx as (p & <- & Hp); apply BD; auto).
    rewrite map_map. fold tS. fold (unmatched_l (length S) m). fold UL. unfold tS. lia. }
  assert (E2 : kthR l2 k = kthR (map (fun a => tR a t) T) k).
  { apply kthR_ext; auto. apply tentsR_nn. intros v Hv. unfold l2.
    rewrite !exR_app, exR_repeat0 by auto.
    rewrite <- (exR_split_indices T t (map snd m) v ND2) by (intros x Hx; apply in_map_iff in Hx; destruct Hx as (p & <- & Hp); apply BD; auto).
    rewrite map_map. fold tT. fold (unmatched_r (length T) m). fold UR. unfold tT. lia. }
  rewrite <- E1, <- E2. apply kthR_lipschitz; auto.
Qed.

Lemma landscape_stability_R (D D' : list bar) v : is_bottleneck D D' v ->
  forall (k : nat) (t : R), (1 <= k)%nat ->
    Rabs (kthR (map (fun a => Rmax 0 (Rmin (t - Q2R (fst a)) (Q2R (snd a) - t))) D) k
          - kthR (map (fun a => Rmax 0 (Rmin (t - Q2R (fst a)) (Q2R (snd a) - t))) D') k) <= Q2R v.
Proof. intros [(m & V & E) _] k t Hk. rewrite <- (Qeq_eqR _ _ E). apply (landscape_stability_matching_R D D' m V k t Hk). Qed.

(* the critical pairs the sweep returns, read at a real abscissa *)
Lemma sweep_stability_R (D D' : list bar) L L' v : positive_bars D -> positive_bars D' ->
  SweepM.sweep false D = Some L -> SweepM.sweep false D' = Some L' -> is_bottleneck D D' v ->
  forall (k : nat) (t : R), (1 <= k)%nat ->
    Rabs (pl_evalR (map rp (nth (k - 1) L [])) t - pl_evalR (map rp (nth (k - 1) L' [])) t) <= Q2R v.
Proof. intros PB PB' RUN RUN' B k t Hk.
  destruct (sweep_kth_at_reals D PB) as (L0 & R0 & H0). rewrite RUN in R0. inversion R0; subst L0.
  destruct (sweep_kth_at_reals D' PB') as (L1 & R1 & H1). rewrite RUN' in R1. inversion R1; subst L1.
  rewrite H0, H1 by auto. apply (landscape_stability_R D D' v B k t Hk). Qed.
