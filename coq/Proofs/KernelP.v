(* Lemmas for C13: uniform kernel = box CDF, product-form Gaussian kernel, product CDFs. *)
From Coq Require Import Reals List Lra Lia.
From Coquelicot Require Import Coquelicot.
From Persim Require Import Model.KernelM Spec.BvnS.
Import ListNotations.
Open Scope R_scope.

(* ---- products of two one-dimensional CDF-like functions -------------------------------- *)
Section Product.
  Variables F G : R -> R.
  Hypothesis HF : cdf_like F.
  Hypothesis HG : cdf_like G.

  Lemma prod_range x y : 0 <= F x * G y <= 1.
  Proof. destruct HF as [_ f], HG as [_ g]. specialize (f x). specialize (g y). nra. Qed.

  Lemma prod_mono_x x1 x2 y : x1 <= x2 -> F x1 * G y <= F x2 * G y.
  Proof. intros H. destruct HF as [m _], HG as [_ g]. specialize (m _ _ H). specialize (g y). nra. Qed.

  Lemma prod_mono_y x y1 y2 : y1 <= y2 -> F x * G y1 <= F x * G y2.
  Proof. intros H. destruct HF as [_ f], HG as [m _]. specialize (m _ _ H). specialize (f x). nra. Qed.

  Lemma prod_rect x1 x2 y1 y2 : x1 <= x2 -> y1 <= y2 ->
    0 <= F x2 * G y2 - F x1 * G y2 - F x2 * G y1 + F x1 * G y1.
  Proof. intros H1 H2. destruct HF as [mf _], HG as [mg _].
    specialize (mf _ _ H1). specialize (mg _ _ H2). nra. Qed.

  Lemma prod_tail_low_x : tails_0_1 F -> forall eps, 0 < eps -> exists M, forall x y, x <= M -> F x * G y <= eps.
  Proof. intros [T _] eps He. destruct (T eps He) as [M HM]. exists M. intros x y Hx.
    specialize (HM x Hx). destruct HF as [_ f], HG as [_ g]. specialize (f x). specialize (g y). nra. Qed.

  Lemma prod_tail_low_y : tails_0_1 G -> forall eps, 0 < eps -> exists M, forall x y, y <= M -> F x * G y <= eps.
  Proof. intros [T _] eps He. destruct (T eps He) as [M HM]. exists M. intros x y Hy.
    specialize (HM y Hy). destruct HF as [_ f], HG as [_ g]. specialize (f x). specialize (g y). nra. Qed.

  Lemma prod_tail_high : tails_0_1 F -> tails_0_1 G -> forall eps, 0 < eps ->
    exists M, forall x y, M <= x -> M <= y -> 1 - eps <= F x * G y.
  Proof. intros [_ TF] [_ TG] eps He.
    destruct (TF (eps / 2)) as [M1 H1]; [lra|]. destruct (TG (eps / 2)) as [M2 H2]; [lra|].
    exists (Rmax M1 M2). intros x y Hx Hy.
    assert (A : M1 <= x) by (generalize (Rmax_l M1 M2); lra).
    assert (B : M2 <= y) by (generalize (Rmax_r M1 M2); lra).
    specialize (H1 x A). specialize (H2 y B).
    destruct HF as [_ f], HG as [_ g]. specialize (f x). specialize (g y). nra. Qed.
End Product.

(* ---- the uniform kernel ---------------------------------------------------------------------- *)
Lemma clamp_is_seg_len c w t : 0 < w ->
  Rmin (Rmax (t - (c - w / 2)) 0) w = seg_len (c - w / 2) (c + w / 2) t.
Proof. intros H. unfold seg_len, Rmin, Rmax. repeat destruct Rle_dec; lra. Qed.

Lemma uniform_eq_box mx my w h x y : 0 < w -> 0 < h ->
  uniform_cdf (mx, my) w h x y = box_cdf mx my w h x y.
Proof. intros Hw Hh. unfold uniform_cdf, box_cdf. cbv [fst snd].
  rewrite !clamp_is_seg_len by assumption. reflexivity. Qed.

Definition seg_frac (c w t : R) : R := seg_len (c - w / 2) (c + w / 2) t / w.

Lemma seg_frac_cdf c w : 0 < w -> cdf_like (seg_frac c w).
Proof. intros H. split.
  - intros a b Hab. unfold seg_frac, Rdiv. apply Rmult_le_compat_r; [left; apply Rinv_0_lt_compat; exact H|].
    unfold seg_len. repeat destruct Rle_dec; lra.
  - intros a. unfold seg_frac.
    assert (0 <= seg_len (c - w / 2) (c + w / 2) a <= w) by (unfold seg_len; repeat destruct Rle_dec; lra).
    split.
    + apply Rmult_le_pos; [lra|left; apply Rinv_0_lt_compat; exact H].
    + apply Rmult_le_reg_r with w; [exact H|]. unfold Rdiv. rewrite Rmult_assoc, Rinv_l by lra. lra.
Qed.

Lemma uniform_eq_prod mx my w h x y : 0 < w -> 0 < h ->
  uniform_cdf (mx, my) w h x y = seg_frac mx w x * seg_frac my h y.
Proof. intros Hw Hh. rewrite uniform_eq_box by assumption. unfold box_cdf, seg_frac. field. lra. Qed.

Lemma uniform_range mx my w h x y : 0 < w -> 0 < h -> 0 <= uniform_cdf (mx, my) w h x y <= 1.
Proof. intros Hw Hh. rewrite uniform_eq_prod by assumption.
  apply prod_range; apply seg_frac_cdf; assumption. Qed.

Lemma uniform_mono_x mx my w h x1 x2 y : 0 < w -> 0 < h -> x1 <= x2 ->
  uniform_cdf (mx, my) w h x1 y <= uniform_cdf (mx, my) w h x2 y.
Proof. intros Hw Hh H. rewrite !uniform_eq_prod by assumption.
  apply prod_mono_x; try apply seg_frac_cdf; assumption. Qed.

Lemma uniform_mono_y mx my w h x y1 y2 : 0 < w -> 0 < h -> y1 <= y2 ->
  uniform_cdf (mx, my) w h x y1 <= uniform_cdf (mx, my) w h x y2.
Proof. intros Hw Hh H. rewrite !uniform_eq_prod by assumption.
  apply prod_mono_y; try apply seg_frac_cdf; assumption. Qed.

Lemma uniform_rect mx my w h x1 x2 y1 y2 : 0 < w -> 0 < h -> x1 <= x2 -> y1 <= y2 ->
  0 <= uniform_cdf (mx, my) w h x2 y2 - uniform_cdf (mx, my) w h x1 y2
       - uniform_cdf (mx, my) w h x2 y1 + uniform_cdf (mx, my) w h x1 y1.
Proof. intros Hw Hh H1 H2. rewrite !uniform_eq_prod by assumption.
  apply prod_rect; try apply seg_frac_cdf; assumption. Qed.

Lemma uniform_zero_outside mx my w h x y : 0 < w -> 0 < h ->
  x <= mx - w / 2 \/ y <= my - h / 2 -> uniform_cdf (mx, my) w h x y = 0.
Proof. intros Hw Hh H. rewrite uniform_eq_prod by assumption. unfold seg_frac, seg_len.
  destruct H as [H|H].
  - destruct (Rle_dec x (mx - w / 2)); [|lra]. unfold Rdiv. rewrite !Rmult_0_l. reflexivity.
  - destruct (Rle_dec y (my - h / 2)); [|lra]. unfold Rdiv. rewrite Rmult_0_l, Rmult_0_r. reflexivity.
Qed.

Lemma uniform_one_beyond mx my w h x y : 0 < w -> 0 < h ->
  mx + w / 2 <= x -> my + h / 2 <= y -> uniform_cdf (mx, my) w h x y = 1.
Proof. intros Hw Hh Hx Hy. rewrite uniform_eq_box by assumption. unfold box_cdf, seg_len.
  destruct (Rle_dec x (mx - w / 2)); [lra|]. destruct (Rle_dec y (my - h / 2)); [lra|].
  destruct (Rle_dec x (mx + w / 2)); destruct (Rle_dec y (my + h / 2)).
  - replace x with (mx + w / 2) by lra. replace y with (my + h / 2) by lra. field. lra.
  - replace x with (mx + w / 2) by lra. field. lra.
  - replace y with (my + h / 2) by lra. field. lra.
  - field. lra.
Qed.

(* ---- the Gaussian kernel with zero covariance --------------------------------------------- *)
Lemma gaussian_zero_cov thr Phi mu sigma x y : s01 sigma = 0 ->
  gaussian_cdf_gen thr Phi mu sigma x y
  = Phi ((x - fst mu) / sqrt (s00 sigma)) * Phi ((y - snd mu) / sqrt (s11 sigma)).
Proof. intros H. unfold gaussian_cdf_gen, sbvn_cdf. destruct (Req_EM_T (s01 sigma) 0); [reflexivity|contradiction]. Qed.

Definition marg (Phi : R -> R) (m v t : R) : R := Phi ((t - m) / sqrt v).

Lemma marg_cdf Phi m v : 0 < v -> cdf_like Phi -> cdf_like (marg Phi m v).
Proof. intros Hv [M Rg]. assert (S : 0 < sqrt v) by (apply sqrt_lt_R0; exact Hv). split.
  - intros a b Hab. unfold marg. apply M. unfold Rdiv. apply Rmult_le_compat_r; [left; apply Rinv_0_lt_compat; exact S|lra].
  - intros a. apply Rg.
Qed.

Lemma marg_tails Phi m v : 0 < v -> tails_0_1 Phi -> tails_0_1 (marg Phi m v).
Proof. intros Hv [T0 T1]. assert (S : 0 < sqrt v) by (apply sqrt_lt_R0; exact Hv). split.
  - intros eps He. destruct (T0 eps He) as [M HM]. exists (m + M * sqrt v). intros a Ha. unfold marg.
    apply HM. apply Rmult_le_reg_r with (sqrt v); [exact S|]. unfold Rdiv. rewrite Rmult_assoc, Rinv_l by lra. lra.
  - intros eps He. destruct (T1 eps He) as [M HM]. exists (m + M * sqrt v). intros a Ha. unfold marg.
    apply HM. apply Rmult_le_reg_r with (sqrt v); [exact S|]. unfold Rdiv. rewrite Rmult_assoc, Rinv_l by lra. lra.
Qed.

(* the defect of line 173 is confined to the high-correlation branch *)
Lemma bvn_std_thr_irrelevant t1 t2 Phi dh dk r : Rabs r < 0.925 ->
  bvn_std t1 Phi dh dk r = bvn_std t2 Phi dh dk r.
Proof. intros H. unfold bvn_std. destruct (Rlt_dec (Rabs r) 0.925); [reflexivity|lra]. Qed.

(* ---- the integral definition of the normal CDF is non-decreasing -------------------------- *)
Lemma gauss_density_integrable a b : ex_RInt (fun t => exp (- (t * t) / 2)) a b.
Proof. apply (@ex_RInt_continuous R_CompleteNormedModule). intros z _.
  apply continuity_pt_filterlim. apply derivable_continuous_pt. auto_derive. exact I. Qed.

Lemma Phi_int_mono a b : a <= b -> Phi_int a <= Phi_int b.
Proof. intros H. unfold Phi_int.
  assert (C : 0 < / sqrt (2 * PI)).
  { apply Rinv_0_lt_compat. apply sqrt_lt_R0. generalize PI_RGT_0. lra. }
  assert (E : RInt (fun t => exp (- (t * t) / 2)) 0 b
            = RInt (fun t => exp (- (t * t) / 2)) 0 a + RInt (fun t => exp (- (t * t) / 2)) a b).
  { symmetry. apply (RInt_Chasles (V:=R_CompleteNormedModule)); apply gauss_density_integrable. }
  rewrite E.
  assert (P : 0 <= RInt (fun t => exp (- (t * t) / 2)) a b).
  { apply RInt_ge_0; [exact H|apply gauss_density_integrable|]. intros x _. left. apply exp_pos. }
  nra. Qed.

Lemma Phi_int_symmetric x : Phi_int (- x) = 1 - Phi_int x.
Proof. unfold Phi_int.
  assert (E : RInt (fun t => exp (- (t * t) / 2)) 0 (- x) = - RInt (fun t => exp (- (t * t) / 2)) 0 x).
  { apply (is_RInt_unique (V:=R_CompleteNormedModule)).
    assert (A : is_RInt (fun t => exp (- (t * t) / 2)) (- 0) (- x) (RInt (fun t => exp (- (t * t) / 2)) (-0) (- x))).
    { apply (RInt_correct (V:=R_CompleteNormedModule)). apply gauss_density_integrable. }
    apply is_RInt_comp_opp in A.
    assert (B : is_RInt (fun t => exp (- (t * t) / 2)) 0 x (opp (RInt (fun t => exp (- (t * t) / 2)) (-0) (- x)))).
    { apply is_RInt_ext with (fun y => opp (opp (exp (- (- y * - y) / 2)))).
      - intros t _. rewrite opp_opp. f_equal. f_equal. f_equal. ring.
      - exact (@is_RInt_opp R_NormedModule _ 0 x _ A). }
    apply (is_RInt_unique (V:=R_CompleteNormedModule)) in B. rewrite B.
    unfold opp; simpl. rewrite Ropp_involutive.
    replace (-0) with 0 by ring.
    apply (RInt_correct (V:=R_CompleteNormedModule)). apply gauss_density_integrable. }
  rewrite E. lra. Qed.

(* ---- structural laws of the transcribed correlated algorithm (both variants) --------------- *)
(* calling the correlated routine with zero correlation gives the product of the marginals *)
Lemma bvn_std_zero_corr thr Phi dh dk : bvn_std thr Phi dh dk 0 = Phi (- dh) * Phi (- dk).
Proof. unfold bvn_std. rewrite Rabs_R0. destruct (Rlt_dec 0 0.925); [|lra].
  unfold bvn_mid. rewrite asin_0. unfold Rdiv. rewrite !Rmult_0_l. lra. Qed.

Lemma bvn_cdf_zero_cov thr Phi x y mx my sxx syy :
  bvn_cdf_gen thr Phi x y mx my sxx syy 0 = sbvn_cdf Phi x y mx my sxx syy.
Proof. unfold bvn_cdf_gen, sbvn_cdf. unfold Rdiv at 3. rewrite Rmult_0_l. rewrite bvn_std_zero_corr.
  f_equal; f_equal; unfold Rdiv; ring. Qed.

Definition phi_symmetric (Phi : R -> R) : Prop := forall x, Phi (- x) = 1 - Phi x.

Lemma bvn_mid_swap Phi q dh dk r : bvn_mid Phi q dh dk r = bvn_mid Phi q dk dh r.
Proof. unfold bvn_mid.
  replace (dk * dh) with (dh * dk) by ring.
  replace ((dk * dk + dh * dh) / 2) with ((dh * dh + dk * dk) / 2) by (unfold Rdiv; ring).
  ring. Qed.

Lemma high_core_swap thr Phi q dh dk r : bvn_high_core thr Phi q dh dk r = bvn_high_core thr Phi q dk dh r.
Proof. unfold bvn_high_core.
  replace (dk * dh) with (dh * dk) by ring.
  replace ((dk - dh) * (dk - dh)) with ((dh - dk) * (dh - dk)) by ring.
  reflexivity. Qed.

Lemma bvn_high_swap thr Phi q dh dk r : phi_symmetric Phi ->
  bvn_high thr Phi q dh dk r = bvn_high thr Phi q dk dh r.
Proof. intros S. unfold bvn_high.
  destruct (Rlt_dec r 0) as [N|N].
  - destruct (Rlt_dec 0 r); [lra|].
    assert (E : bvn_high_core thr Phi q dh (- dk) r = bvn_high_core thr Phi q dk (- dh) r).
    { rewrite (high_core_swap thr Phi q dk (- dh) r). unfold bvn_high_core.
      replace (- dh * dk) with (dh * - dk) by ring.
      replace ((- dh - dk) * (- dh - dk)) with ((dh - - dk) * (dh - - dk)) by ring.
      reflexivity. }
    rewrite E.
    replace (Phi (- dk) - Phi (- - dh)) with (Phi (- dh) - Phi (- - dk)).
    2:{ rewrite !Ropp_involutive. rewrite (S dh), (S dk). ring. }
    reflexivity.
  - rewrite (high_core_swap thr Phi q dh dk r). rewrite (Rmax_comm dh dk). reflexivity.
Qed.

Lemma bvn_std_swap thr Phi dh dk r : phi_symmetric Phi ->
  bvn_std thr Phi dh dk r = bvn_std thr Phi dk dh r.
Proof. intros S. unfold bvn_std. destruct (Rlt_dec (Rabs r) 0.925).
  - apply bvn_mid_swap. - apply bvn_high_swap; exact S. Qed.

(* P(X <= x, Y <= y) = P(Y <= y, X <= x): exchanging the coordinates (and the variances) *)
Lemma gaussian_exchange thr Phi mx my sxx sxy syy x y : phi_symmetric Phi ->
  gaussian_cdf_gen thr Phi (mx, my) (mk_sigma sxx sxy syy) x y
  = gaussian_cdf_gen thr Phi (my, mx) (mk_sigma syy sxy sxx) y x.
Proof. intros S. unfold gaussian_cdf_gen, mk_sigma. cbv [s00 s01 s11 fst snd].
  destruct (Req_EM_T sxy 0).
  - unfold sbvn_cdf. ring.
  - unfold bvn_cdf_gen. rewrite (Rmult_comm syy sxx). apply bvn_std_swap. exact S. Qed.
