(* C03: refutation witnesses of the Legacy model and the definitional glue lemmas
   (hom_deg selection, trailing infinite bar, empty diagram). *)
From Coq Require Import QArith Qminmax Lqa List Bool Arith Lia.
From Persim Require Import Lib.Kth Lib.PL Spec.LandscapeS Model.SweepM.
Import ListNotations.
Open Scope Q_scope.

Fixpoint no_repeats (bars : list bar) : bool :=
  match bars with [] => true | a :: r => negb (existsb (bar_eqb a) r) && no_repeats r end.

(* what "the landscape L is wrong for the diagram bars" means *)
Definition wrong_somewhere (bars : list bar) (L : list (list pt)) : Prop :=
  exists (k : nat) (t : Q), (1 <= k)%nat /\ ~ (pl_eval (nth (k - 1) L []) t == land bars k t).

Lemma legacy_refuted_repeated :
  exists bars L, positive_bars bars /\ sweep true bars = Some L /\ wrong_somewhere bars L.
Proof.
  exists [(1,5); (1,5); (3,6)]. eexists. split; [|split].
  - intros a H. simpl in H. repeat (destruct H as [H|H]; [subst a; reflexivity|]). contradiction.
  - vm_compute. reflexivity.
  - exists 2%nat, (11#2). split. lia. vm_compute. intro H. discriminate H.
Qed.

Lemma legacy_refuted_created :
  exists bars L, positive_bars bars /\ no_repeats bars = true /\ sweep true bars = Some L /\ wrong_somewhere bars L.
Proof.
  exists [(6,11); (5,7); (7,10); (6,7)]. eexists. split; [|split; [|split]].
  - intros a H. simpl in H. repeat (destruct H as [H|H]; [subst a; reflexivity|]). contradiction.
  - vm_compute. reflexivity.
  - vm_compute. reflexivity.
  - exists 3%nat, (8#1). split. lia. vm_compute. intro H. discriminate H.
Qed.

Lemma legacy_empty_refuted : exists dgms h, nth_error dgms h = Some [] /\ exact_landscape true false dgms h = ErrIndex.
Proof. exists [[]], 0%nat. split; reflexivity. Qed.

Lemma glue_select s g dgms h dg : nth_error dgms h = Some dg ->
  exact_landscape s g dgms h = exact_landscape s g [dg] 0.
Proof. intro H. unfold exact_landscape. rewrite H. reflexivity. Qed.

Lemma glue_out_of_range s g dgms h : (length dgms <= h)%nat -> exact_landscape s g dgms h = ErrIndex.
Proof. intro H. unfold exact_landscape. apply nth_error_None in H. rewrite H. reflexivity. Qed.

Lemma glue_empty s dgms h : nth_error dgms h = Some [] -> exact_landscape s true dgms h = Ok [].
Proof. intro H. unfold exact_landscape. rewrite H. reflexivity. Qed.

Lemma finite_bars_no_inf dg bars : finite_bars dg = Some bars -> forallb (fun a => negb (is_inf a)) dg = true.
Proof. revert bars. induction dg as [|[b [d|]] r IH]; simpl; intros bars H; auto; try discriminate.
  destruct (finite_bars r); try discriminate. eapply IH; eauto. Qed.

Lemma strip_snoc_inf dg b : strip_trailing_inf (dg ++ [(b, None)]) = dg.
Proof. unfold strip_trailing_inf. rewrite rev_app_distr. simpl. apply rev_involutive. Qed.

Lemma strip_finite dg bars : finite_bars dg = Some bars -> strip_trailing_inf dg = dg.
Proof. intro H. apply finite_bars_no_inf in H. unfold strip_trailing_inf.
  destruct (rev dg) as [|x r] eqn:E; auto.
  assert (In x dg). { apply in_rev. rewrite E. left; auto. }
  rewrite forallb_forall in H. specialize (H _ H0). destruct (is_inf x); simpl in H; auto. discriminate. Qed.

Definition run_sweep (s : bool) (bars : list bar) : outcome :=
  match sweep s bars with Some L => Ok L | None => ErrFuel end.

Lemma glue_trailing_inf s g dg bars b : finite_bars dg = Some bars ->
  exact_landscape s g [dg ++ [(b, None)]] 0 = run_sweep s bars.
Proof. intro H. unfold exact_landscape. simpl nth_error.
  destruct (dg ++ [(b, None)]) eqn:E. destruct dg; discriminate.
  rewrite <- E. rewrite strip_snoc_inf, H. reflexivity. Qed.

Lemma glue_finite s g dg bars : finite_bars dg = Some bars -> dg <> [] ->
  exact_landscape s g [dg] 0 = run_sweep s bars.
Proof. intros H N. unfold exact_landscape. simpl nth_error. destruct dg as [|a r]. contradiction.
  rewrite (strip_finite _ _ H), H. reflexivity. Qed.

Lemma glue_trailing_both s g dg bars b : finite_bars dg = Some bars ->
  exact_landscape s g [dg ++ [(b, None)]] 0 = run_sweep s bars /\
  (dg <> [] -> exact_landscape s g [dg] 0 = run_sweep s bars).
Proof. intros. split. apply glue_trailing_inf; assumption. apply glue_finite; assumption. Qed.
