(* C17: the executable hop metric (Floyd-Warshall) satisfies the shortest-path specification [sp]
   and the equivalence hypotheses, for every adjacency matrix.  (scipy's shortest_path remains an
   oracle for the real code; this closes the gap for the instance the correspondence runs.) *)
From Coq Require Import ZArith List Bool Arith Lia.
From Persim Require Import Spec.MGH Model.MGHM Model.GraphM Proofs.MGHBasics Proofs.MGHLb Proofs.GraphP
  Proofs.GraphRelabel Proofs.GraphInduced Proofs.GraphDm Proofs.MGHUb Proofs.GraphBr.
Import ListNotations.
Open Scope nat_scope.

(* walks whose intermediate vertices (all but the last) are < k *)
Definition inter_lt (k : nat) (l : list nat) : Prop := Forall (fun v => v < k) (removelast l).
Definition walkk (A : mat) (k i j L : nat) : Prop :=
  exists l, length l = L /\ path A i l /\ last l i = j /\ inter_lt k l.

Lemma removelast_cons2 (y z : nat) t : removelast (y :: z :: t) = y :: removelast (z :: t).
Proof. reflexivity. Qed.

Lemma walkk_nil A k i : walkk A k i i 0.
Proof. exists []. repeat split. constructor. Qed.

Lemma walkk_edge A k i y : y < length A -> edge A i y = true -> walkk A k i y 1.
Proof. intros Hy E. exists [y]. simpl. repeat split; try assumption. constructor. Qed.

Lemma walkk_cons A k i y j L : y < length A -> edge A i y = true -> y < k ->
  walkk A k y j L -> walkk A k i j (S L).
Proof.
  intros Hy E Yk [m [Lm [P [La I]]]]. exists (y :: m). split; [simpl; lia|]. split; [simpl; auto|].
  destruct m as [|z t].
  - simpl in *. split; [exact La|constructor].
  - split.
    + simpl. simpl in La. destruct t; [exact La|]. rewrite (last_dflt _ i y) by discriminate. exact La.
    + unfold inter_lt in *. rewrite removelast_cons2. constructor; assumption.
Qed.

Lemma walkk_mono A k i j L : walkk A k i j L -> walkk A (S k) i j L.
Proof.
  intros [l [Ll [P [La I]]]]. exists l. repeat split; try assumption.
  unfold inter_lt in *. eapply Forall_impl; [|exact I]. simpl. intros; lia.
Qed.

Lemma path_app A i l1 l2 : path A i l1 -> path A (last l1 i) l2 -> path A i (l1 ++ l2).
Proof.
  revert i. induction l1 as [|y t IH]; intros i P1 P2; simpl in *; [exact P2|].
  destruct P1 as [Hy [E Pt]]. split; [exact Hy|]. split; [exact E|]. apply IH; [exact Pt|].
  destruct t; [exact P2|]. rewrite (last_dflt _ y i) by discriminate. exact P2.
Qed.

Lemma last_app_ne (l1 l2 : list nat) i i' : l2 <> [] -> last (l1 ++ l2) i = last l2 i'.
Proof.
  intros NE. induction l1 as [|y t IH]; [apply last_dflt; exact NE|].
  simpl. destruct (t ++ l2) eqn:E; [|exact IH].
  destruct t; simpl in E; [congruence|discriminate].
Qed.

Lemma last_app2 (l1 l2 : list nat) i : last (l1 ++ l2) i = last l2 (last l1 i).
Proof.
  destruct l2 as [|z t]; [rewrite app_nil_r; reflexivity|]. apply last_app_ne. discriminate.
Qed.

Lemma walkk_comp A k i j a b : walkk A k i k a -> walkk A k k j b -> walkk A (S k) i j (a + b).
Proof.
  intros [l1 [L1 [P1 [La1 I1]]]] [l2 [L2 [P2 [La2 I2]]]].
  exists (l1 ++ l2). split; [rewrite app_length; lia|]. split; [apply path_app; [exact P1|rewrite La1; exact P2]|].
  split; [rewrite last_app2, La1; exact La2|].
  unfold inter_lt in *.
  assert (F1 : Forall (fun v => v < S k) l1).
  { destruct l1 as [|y t]; [constructor|].
    rewrite (app_removelast_last i (l := y :: t)) by discriminate. apply Forall_app. split.
    - eapply Forall_impl; [|exact I1]. simpl. intros; lia.
    - constructor; [rewrite La1; lia|constructor]. }
  destruct l2 as [|z t].
  - rewrite app_nil_r. eapply Forall_impl; [|exact I1]. simpl. intros; lia.
  - rewrite removelast_app by discriminate. apply Forall_app. split; [exact F1|].
    eapply Forall_impl; [|exact I2]. simpl. intros; lia.
Qed.

Lemma walkk_dec A k : forall l i, path A i l -> inter_lt (S k) l ->
  (exists L', L' <= length l /\ walkk A k i (last l i) L') \/
  (exists a b, a + b <= length l /\ walkk A k i k a /\ walkk A k k (last l i) b).
Proof.
  induction l as [|y t IH]; intros i P I.
  - left. exists 0. split; [simpl; lia|apply walkk_nil].
  - destruct t as [|z t'].
    + left. exists 1. simpl in *. destruct P as [Hy [E _]]. split; [lia|apply walkk_edge; assumption].
    + destruct P as [Hy [E P']]. unfold inter_lt in I. rewrite removelast_cons2 in I.
      inversion I as [|? ? Yk I']; subst.
      change (last (y :: z :: t') i) with (last (z :: t') i). rewrite (last_dflt (z :: t') i y) by discriminate.
      specialize (IH y P' I'). simpl length in *.
      destruct (Nat.eq_dec y k) as [->|NE].
      * right. destruct IH as [[L' [LL W]]|[a [b [LL [Wa Wb]]]]].
        -- exists 1, L'. split; [lia|]. split; [apply walkk_edge; assumption|exact W].
        -- exists 1, b. split; [lia|]. split; [apply walkk_edge; assumption|exact Wb].
      * assert (Yk' : y < k) by lia. destruct IH as [[L' [LL W]]|[a [b [LL [Wa Wb]]]]].
        -- left. exists (S L'). split; [lia|]. apply (walkk_cons A k i y); assumption.
        -- right. exists (S a), b. split; [lia|]. split; [apply (walkk_cons A k i y); assumption|exact Wb].
Qed.

(* with k = number of vertices the restriction is void *)
Lemma path_vertices A i l : path A i l -> Forall (fun v => v < length A) l.
Proof. revert i. induction l as [|y t IH]; intros i P; [constructor|]. destruct P as [Hy [_ Pt]]. constructor; [exact Hy|apply (IH y); exact Pt]. Qed.

Lemma walkk_all A i j L : walkk A (length A) i j L <-> conn A i j L.
Proof.
  split.
  - intros [l [Ll [P [La _]]]]. exists l. repeat split; assumption.
  - intros [l [Ll [P La]]]. exists l. repeat split; try assumption.
    unfold inter_lt. pose proof (path_vertices A i l P) as F.
    apply Forall_forall. intros v Hv. rewrite Forall_forall in F. apply F.
    destruct l as [|y t]; [destruct Hv|]. rewrite (app_removelast_last 0 (l := y :: t)) by discriminate.
    apply in_or_app. left. exact Hv.
Qed.

(* ------------------------------------------------------------------ the Floyd-Warshall invariant *)
Definition shaped (n : nat) (D : omat) : Prop := length D = n /\ Forall (fun r => length r = n) D.

Lemma fw_step_entry n D k i j : shaped n D -> k < n -> i < n -> j < n ->
  oent (fw_step D k) i j = omin2 (oent D i j) (oadd (oent D i k) (oent D k j)).
Proof.
  intros [L F] Hk Hi Hj. rewrite Forall_forall in F.
  assert (Li : length (nth i D []) = n) by (apply F; apply nth_In; lia).
  assert (Lk : length (nth k D []) = n) by (apply F; apply nth_In; lia).
  unfold oent at 1, fw_step.
  rewrite (nth_map_dflt (fun ri => map (fun p => omin2 (fst p) (oadd (nth k ri None) (snd p))) (combine ri (nth k D []))) D i [] [])
    by lia.
  rewrite (nth_map_dflt (fun p => omin2 (fst p) (oadd (nth k (nth i D []) None) (snd p)))
                        (combine (nth i D []) (nth k D [])) j None (None, None))
    by (rewrite combine_length; lia).
  rewrite combine_nth by lia. reflexivity.
Qed.

Lemma fw_step_shaped n D k : shaped n D -> k < n -> shaped n (fw_step D k).
Proof.
  intros [L F] Hk. rewrite Forall_forall in F. split; [unfold fw_step; rewrite map_length; exact L|].
  apply Forall_forall. intros r Hr. unfold fw_step in Hr. apply in_map_iff in Hr. destruct Hr as [ri [<- Iri]].
  rewrite map_length, combine_length. rewrite (F ri Iri). rewrite (F (nth k D [])) by (apply nth_In; lia). lia.
Qed.

Definition entry_ok (A : mat) (k i j : nat) (e : option Z) : Prop :=
  match e with
  | Some d => (0 <= d)%Z /\ walkk A k i j (Z.to_nat d) /\ forall L, walkk A k i j L -> Z.to_nat d <= L
  | None => forall L, ~ walkk A k i j L
  end.

Definition fw_inv (A : mat) (k : nat) (D : omat) : Prop :=
  shaped (length A) D /\ forall i j, i < length A -> j < length A -> entry_ok A k i j (oent D i j).

Lemma fw_inv_step A k D : k < length A -> fw_inv A k D -> fw_inv A (S k) (fw_step D k).
Proof.
  intros Hk [Sh Inv]. split; [apply fw_step_shaped; assumption|].
  intros i j Hi Hj. rewrite (fw_step_entry (length A)) by assumption.
  pose proof (Inv i j Hi Hj) as X. pose proof (Inv i k Hi Hk) as Y. pose proof (Inv k j Hk Hj) as Z.
  (* every (k+1)-walk is bounded below by a k-walk i->j or a pair of k-walks i->k, k->j *)
  assert (Low : forall L, walkk A (S k) i j L ->
            (exists L', L' <= L /\ walkk A k i j L') \/
            (exists a b, a + b <= L /\ walkk A k i k a /\ walkk A k k j b)).
  { intros L [l [Ll [P [La I]]]]. subst L. rewrite <- La. apply walkk_dec; assumption. }
  destruct (oent D i j) as [x|], (oent D i k) as [y|], (oent D k j) as [z|]; simpl in *.
  - destruct X as [X0 [Xw Xm]], Y as [Y0 [Yw Ym]], Z as [Z0 [Zw Zm]].
    split; [lia|]. split.
    + destruct (Z.min_spec x (y + z)) as [[_ ->]|[_ ->]]; [apply walkk_mono; exact Xw|].
      replace (Z.to_nat (y + z)) with (Z.to_nat y + Z.to_nat z) by lia. apply walkk_comp; assumption.
    + intros L W. destruct (Low L W) as [[L' [LL W']]|[a [b [LL [Wa Wb]]]]].
      * specialize (Xm _ W'). lia.
      * specialize (Ym _ Wa). specialize (Zm _ Wb). lia.
  - destruct X as [X0 [Xw Xm]]. split; [lia|]. split; [apply walkk_mono; exact Xw|].
    intros L W. destruct (Low L W) as [[L' [LL W']]|[a [b [LL [Wa Wb]]]]]; [specialize (Xm _ W'); lia|exfalso; apply (Z _ Wb)].
  - destruct X as [X0 [Xw Xm]]. split; [lia|]. split; [apply walkk_mono; exact Xw|].
    intros L W. destruct (Low L W) as [[L' [LL W']]|[a [b [LL [Wa Wb]]]]]; [specialize (Xm _ W'); lia|exfalso; apply (Y _ Wa)].
  - destruct X as [X0 [Xw Xm]]. split; [lia|]. split; [apply walkk_mono; exact Xw|].
    intros L W. destruct (Low L W) as [[L' [LL W']]|[a [b [LL [Wa Wb]]]]]; [specialize (Xm _ W'); lia|exfalso; apply (Y _ Wa)].
  - destruct Y as [Y0 [Yw Ym]], Z as [Z0 [Zw Zm]]. split; [lia|]. split.
    + replace (Z.to_nat (y + z)) with (Z.to_nat y + Z.to_nat z) by lia. apply walkk_comp; assumption.
    + intros L W. destruct (Low L W) as [[L' [LL W']]|[a [b [LL [Wa Wb]]]]]; [exfalso; apply (X _ W')|].
      specialize (Ym _ Wa). specialize (Zm _ Wb). lia.
  - intros L W. destruct (Low L W) as [[L' [LL W']]|[a [b [LL [Wa Wb]]]]]; [apply (X _ W')|apply (Z _ Wb)].
  - intros L W. destruct (Low L W) as [[L' [LL W']]|[a [b [LL [Wa Wb]]]]]; [apply (X _ W')|apply (Y _ Wa)].
  - intros L W. destruct (Low L W) as [[L' [LL W']]|[a [b [LL [Wa Wb]]]]]; [apply (X _ W')|apply (Y _ Wa)].
Qed.

Lemma fw_init_entry A i j : i < length A -> j < length A ->
  oent (fw_init A) i j = if i =? j then Some 0%Z else if edge A i j then Some 1%Z else None.
Proof.
  intros Hi Hj. unfold oent, fw_init.
  rewrite (nth_map_seq (fun i => map (fun j => if i =? j then Some 0%Z else if edge A i j then Some 1%Z else None)
                                     (seq 0 (length A))) (length A) i []) by exact Hi.
  apply (nth_map_seq (fun j => if i =? j then Some 0%Z else if edge A i j then Some 1%Z else None)). exact Hj.
Qed.

Lemma walk0_shape A i j L : walkk A 0 i j L -> (L = 0 /\ j = i) \/ (L = 1 /\ j < length A /\ edge A i j = true).
Proof.
  intros [l [Ll [P [La I]]]]. destruct l as [|y [|z t]].
  - left. simpl in *. split; [lia|congruence].
  - right. simpl in *. destruct P as [Hy [E _]]. subst. repeat split; assumption.
  - exfalso. unfold inter_lt in I. rewrite removelast_cons2 in I. inversion I; subst. lia.
Qed.

Lemma fw_inv_init A : fw_inv A 0 (fw_init A).
Proof.
  split.
  - split; [unfold fw_init; rewrite map_length, seq_length; reflexivity|].
    apply Forall_forall. intros r Hr. unfold fw_init in Hr. apply in_map_iff in Hr. destruct Hr as [i [<- _]].
    rewrite map_length, seq_length. reflexivity.
  - intros i j Hi Hj. rewrite fw_init_entry by assumption. destruct (Nat.eqb_spec i j) as [->|NE].
    + simpl. split; [lia|]. split; [apply walkk_nil|intros; lia].
    + destruct (edge A i j) eqn:E; simpl.
      * split; [lia|]. split; [apply walkk_edge; assumption|].
        intros L W. destruct (walk0_shape _ _ _ _ W) as [[_ Eq]|[-> _]]; [congruence|change (Z.to_nat 1) with 1; lia].
      * intros L W. destruct (walk0_shape _ _ _ _ W) as [[_ Eq]|[_ [_ E']]]; congruence.
Qed.

Lemma fw_inv_fold A : forall m k D, k + m = length A -> fw_inv A k D ->
  fw_inv A (length A) (fold_left fw_step (seq k m) D).
Proof.
  induction m as [|m IH]; intros k D E Inv; simpl.
  - replace (length A) with k by lia. exact Inv.
  - apply (IH (S k)); [lia|]. apply fw_inv_step; [lia|exact Inv].
Qed.

(* Floyd-Warshall computes the shortest-path answer, for every adjacency matrix *)
Theorem hop_metric_sp A : sp A (hop_metric A).
Proof.
  pose proof (fw_inv_fold A (length A) 0 (fw_init A) eq_refl (fw_inv_init A)) as [_ Inv].
  intros i j Hi Hj. specialize (Inv i j Hi Hj). unfold hop_metric. unfold entry_ok in Inv.
  destruct (oent (fold_left fw_step (seq 0 (length A)) (fw_init A)) i j) as [d|].
  - destruct Inv as [D0 [W M]]. split; [exact D0|]. split; [apply walkk_all; exact W|].
    intros d' C. apply M. apply walkk_all. exact C.
  - intros d' C. apply (Inv d'). apply walkk_all. exact C.
Qed.

Theorem hop_metric_shaped A : shaped (length A) (hop_metric A).
Proof. exact (proj1 (fw_inv_fold A (length A) 0 (fw_init A) eq_refl (fw_inv_init A))). Qed.

(* ------------------------------------------------------------------ consequences of [sp] *)
Lemma edge_sym A i j : edge A i j = edge A j i.
Proof. unfold edge. apply orb_comm. Qed.

Lemma conn_refl A i : conn A i i 0.
Proof. exists []. repeat split. Qed.

Lemma conn_trans A i j k a b : conn A i j a -> conn A j k b -> conn A i k (a + b).
Proof.
  intros [l1 [L1 [P1 La1]]] [l2 [L2 [P2 La2]]]. exists (l1 ++ l2).
  split; [rewrite app_length; lia|]. split; [apply path_app; [exact P1|rewrite La1; exact P2]|].
  rewrite last_app2, La1. exact La2.
Qed.

Lemma conn_sym A : forall l i, i < length A -> path A i l -> conn A (last l i) i (length l).
Proof.
  induction l as [|y t IH]; intros i Hi P; [apply conn_refl|].
  destruct P as [Hy [E Pt]]. specialize (IH y Hy Pt).
  assert (La : last (y :: t) i = last t y).
  { destruct t as [|z t']; [reflexivity|]. change (last (y :: z :: t') i) with (last (z :: t') i). apply last_dflt. discriminate. }
  rewrite La. replace (length (y :: t)) with (length t + 1) by (simpl; lia).
  apply (conn_trans A _ y i); [exact IH|]. exists [i]. simpl. repeat split; try assumption.
  rewrite edge_sym. exact E.
Qed.

Section SpFacts.
Variables (A : mat) (D : omat).
Hypothesis SP : sp A D.
Hypothesis SH : shaped (length A) D.

Lemma reach_iff i j : i < length A -> j < length A -> (reach D i j = true <-> exists d, conn A i j d).
Proof.
  intros Hi Hj. pose proof (SP i j Hi Hj) as S0. unfold reach. destruct (oent D i j) as [d|].
  - split; [intros _; exists (Z.to_nat d); apply S0|reflexivity].
  - split; [discriminate|]. intros [d C]. exfalso. apply (S0 d C).
Qed.

Lemma sp_refl i : i < length D -> reach D i i = true.
Proof. destruct SH as [L _]. intros Hi. apply reach_iff; try lia. exists 0. apply conn_refl. Qed.

Lemma sp_sym i j : i < length D -> j < length D -> reach D i j = true -> reach D j i = true.
Proof.
  destruct SH as [L _]. intros Hi Hj R. apply reach_iff in R; try lia. destruct R as [d [l [Ll [P La]]]].
  apply reach_iff; try lia. exists (length l). rewrite <- La. apply conn_sym; [lia|exact P].
Qed.

Lemma sp_trans i j k : i < length D -> j < length D -> k < length D ->
  reach D i j = true -> reach D j k = true -> reach D i k = true.
Proof.
  destruct SH as [L _]. intros Hi Hj Hk R1 R2. apply reach_iff in R1; try lia. apply reach_iff in R2; try lia.
  destruct R1 as [a Ca], R2 as [b Cb]. apply reach_iff; try lia. exists (a + b). apply (conn_trans A i j k); assumption.
Qed.

Lemma sp_ometric : ometric D.
Proof.
  destruct SH as [L F]. split; [rewrite L; exact F|]. rewrite L. split; [|split].
  - intros i Hi. pose proof (SP i i Hi Hi) as S0. destruct (oent D i i) as [d|].
    + destruct S0 as [D0 [_ M]]. specialize (M 0 (conn_refl A i)). f_equal. lia.
    + exfalso. apply (S0 0). apply conn_refl.
  - intros i j Hi Hj. pose proof (SP i j Hi Hj) as S1. pose proof (SP j i Hj Hi) as S2.
    assert (Sw : forall a b d, a < length A -> conn A a b d -> conn A b a d).
    { intros a b d Ha [l [Ll [P La]]]. subst d b. apply conn_sym; assumption. }
    destruct (oent D i j) as [d|], (oent D j i) as [d'|]; try reflexivity.
    + destruct S1 as [P1 [C1 M1]], S2 as [P2 [C2 M2]].
      pose proof (M1 _ (Sw _ _ _ Hj C2)). pose proof (M2 _ (Sw _ _ _ Hi C1)). f_equal. lia.
    + destruct S1 as [_ [C1 _]]. exfalso. apply (S2 _ (Sw _ _ _ Hi C1)).
    + destruct S2 as [_ [C2 _]]. exfalso. apply (S1 _ (Sw _ _ _ Hj C2)).
  - intros i j z Hi Hj NE E. pose proof (SP i j Hi Hj) as S0. rewrite E in S0. destruct S0 as [Z0 [[l [Ll [P La]]] _]].
    destruct (Z.eq_dec z 0) as [->|]; [|lia]. exfalso. destruct l; [simpl in La; congruence|simpl in Ll; lia].
Qed.
End SpFacts.

(* ------------------------------------------------------------------ unconditional facts about make_dm *)
Theorem make_dm_metric A : 0 < length A ->
  exists M, make_dm A = DMOk (has_inf (hop_metric A)) M /\ dmatrix M /\ 0 < length M.
Proof.
  intros Hn. pose proof (hop_metric_sp A) as SP. pose proof (hop_metric_shaped A) as SH.
  unfold make_dm. apply make_dm_of_dmatrix.
  - apply (sp_ometric A); assumption.
  - destruct SH as [L _]. lia.
  - apply (sp_trans A); assumption.
Qed.

Lemma make_dm_connected A DX : make_dm A = DMOk false DX -> DX = map (map oz) (hop_metric A).
Proof.
  unfold make_dm, make_dm_of, finish. destruct (has_inf (hop_metric A)) eqn:HI.
  - destruct (has_inf (restrict_both _ _)); discriminate.
  - intros E. injection E as <-. reflexivity.
Qed.

Theorem make_dm_relabel_connected A A' p DX DX' :
  is_perm (length A) p -> renamed (img p) A A' ->
  make_dm A = DMOk false DX -> make_dm A' = DMOk false DX' -> isometric DX DX'.
Proof.
  intros HP Rn E E'. rewrite (make_dm_connected _ _ E), (make_dm_connected _ _ E').
  apply (relabelled_connected_isometric A A' _ _ p HP Rn (hop_metric_sp A) (hop_metric_sp A')).
  - apply hop_metric_shaped.
  - destruct Rn as [L _]. rewrite <- L. apply hop_metric_shaped.
Qed.

(* capstone: a pair call on two non-empty graphs (connected or not), for every row oracle and
   every RNG draw of the right shape, returns brackets of the mGH distance between two genuine
   distance matrices - those of the graphs or of their first largest components *)
Theorem pair_end_to_end pick AG AH s1 s2 w l u :
  0 < length AG -> 0 < length AH ->
  gh_pair make_dm (fun _ _ DX DY => estimate2 pick DX DY s1 s2) AG AH = GHPair w l u ->
  exists DX DY,
    make_dm AG = DMOk (has_inf (hop_metric AG)) DX /\ make_dm AH = DMOk (has_inf (hop_metric AH)) DY /\
    w = (has_inf (hop_metric AG) || has_inf (hop_metric AH))%bool /\ dmatrix DX /\ dmatrix DY /\
    (valid_samples (length DX) (length DY) s1 -> valid_samples (length DY) (length DX) s2 ->
     two_mgh_ge DX DY l /\ two_mgh_le DX DY u /\ (0 <= l <= u)%Z).
Proof.
  intros HG HH E.
  destruct (make_dm_metric AG HG) as [DX [EX [MX _]]]. destruct (make_dm_metric AH HH) as [DY [EY [MY _]]].
  destruct (pair_call_brackets make_dm pick s1 s2 AG AH w l u E) as [w1 [DX' [w2 [DY' [E1 [E2 [Ew B]]]]]]].
  rewrite EX in E1. rewrite EY in E2. injection E1 as <- <-. injection E2 as <- <-.
  exists DX, DY. split; [exact EX|]. split; [exact EY|]. split; [exact Ew|]. split; [exact MX|]. split; [exact MY|].
  intros V1 V2. apply B; assumption.
Qed.
