(* C17: representation independence, relabelling, collection symmetrisation, largest component. *)
From Coq Require Import ZArith List Bool Arith Lia.
From Persim Require Import Spec.MGH Model.MGHM Model.GraphM Proofs.MGHBasics Proofs.MGHLb.
Import ListNotations.
Open Scope Z_scope.

(* ------------------------------------------------------------------ same edge set => same metric *)
Definition same_edges (A B : mat) : Prop :=
  length A = length B /\
  forall i j, (i < length A)%nat -> (j < length A)%nat -> i <> j -> edge A i j = edge B i j.

Lemma fw_init_ext A B : same_edges A B -> fw_init A = fw_init B.
Proof.
  intros [L E]. unfold fw_init. rewrite <- L. apply map_ext_in. intros i Hi. apply map_ext_in. intros j Hj.
  apply in_seq in Hi, Hj. destruct (Nat.eqb_spec i j) as [|NE]; [reflexivity|].
  rewrite E by lia. reflexivity.
Qed.

Theorem same_edges_same_dm A B : same_edges A B -> make_dm A = make_dm B.
Proof.
  intros H. unfold make_dm, hop_metric. rewrite (fw_init_ext A B H). destruct H as [-> _]. reflexivity.
Qed.

Lemma ent_gen (n : nat) (h : nat -> nat -> Z) i j : (i < n)%nat -> (j < n)%nat ->
  ent (map (fun i => map (fun j => h i j) (seq 0 n)) (seq 0 n)) i j = h i j.
Proof.
  intros Hi Hj. unfold ent. rewrite (nth_map_seq (fun i => map (fun j => h i j) (seq 0 n)) n i []) by exact Hi.
  apply nth_map_seq. exact Hj.
Qed.

Lemma of_upper_length n e : length (of_upper n e) = n.
Proof. unfold of_upper. rewrite map_length, seq_length. reflexivity. Qed.
Lemma of_symmetric_length n e : length (of_symmetric n e) = n.
Proof. unfold of_symmetric. rewrite map_length, seq_length. reflexivity. Qed.

(* both encodings are read as the undirected closure of e *)
Lemma edge_of_upper n e i j : (i < n)%nat -> (j < n)%nat -> i <> j ->
  edge (of_upper n e) i j = e i j || e j i.
Proof.
  intros Hi Hj NE. unfold edge, of_upper. rewrite !ent_gen by assumption.
  destruct (Nat.ltb_spec i j), (Nat.ltb_spec j i); try lia; simpl;
    destruct (e i j), (e j i); reflexivity.
Qed.
Lemma edge_of_symmetric n e i j : (i < n)%nat -> (j < n)%nat -> i <> j ->
  edge (of_symmetric n e) i j = e i j || e j i.
Proof.
  intros Hi Hj NE. unfold edge, of_symmetric. rewrite !ent_gen by assumption.
  destruct (Nat.eqb_spec i j), (Nat.eqb_spec j i); try lia; simpl;
    destruct (e i j), (e j i); reflexivity.
Qed.

Theorem upper_symmetric_same_dm n e : make_dm (of_upper n e) = make_dm (of_symmetric n e).
Proof.
  apply same_edges_same_dm. split; [rewrite of_upper_length, of_symmetric_length; reflexivity|].
  rewrite of_upper_length. intros i j Hi Hj NE. rewrite edge_of_upper, edge_of_symmetric by assumption. reflexivity.
Qed.

(* ------------------------------------------------------------------ relabelling (isometry invariance) *)
Definition comp (f p : list nat) : list nat := map (fun i => img f (img p i)) (seq 0 (length p)).

Lemma img_comp f p i : (i < length p)%nat -> img (comp f p) i = img f (img p i).
Proof. intros H. unfold img at 1, comp. apply (nth_map_seq (fun i => img f (img p i))). exact H. Qed.

Lemma comp_valid n m k f p : valid_map n m p -> valid_map m k f -> valid_map n k (comp f p).
Proof.
  intros [Lp Fp] Vf. split; [unfold comp; rewrite map_length, seq_length; exact Lp|].
  apply Forall_forall. intros z Hz. unfold comp in Hz. apply in_map_iff in Hz. destruct Hz as [i [<- Hi]].
  apply in_seq in Hi. apply (valid_img _ _ _ _ Vf). apply (valid_img n m p); [split; assumption|lia].
Qed.

(* pre-composition with a distance-preserving map *)
Lemma dis_precompose_le DX DX' DY p f' :
  valid_map (length DX) (length DX') p ->
  (forall i j, (i < length DX)%nat -> (j < length DX)%nat -> ent DX' (img p i) (img p j) = ent DX i j) ->
  dis DX DY (comp f' p) <= dis DX' DY f'.
Proof.
  intros Vp Iso. apply dis_le_iff. split; [apply dis_nonneg|]. intros i j Hi Hj.
  pose proof Vp as [Lp _]. unfold dterm. rewrite !img_comp by lia. rewrite <- Iso by assumption.
  apply (dis_ge DX' DY f'); apply (valid_img _ _ _ _ Vp); assumption.
Qed.

(* post-composition with a distance-preserving map *)
Lemma dis_postcompose_eq DY DX DX' q g' :
  valid_map (length DY) (length DX') g' ->
  (forall y y', (y < length DX')%nat -> (y' < length DX')%nat -> ent DX (img q y) (img q y') = ent DX' y y') ->
  dis DY DX (comp q g') = dis DY DX' g'.
Proof.
  intros Vg Iso. pose proof Vg as [Lg _].
  assert (T : forall a b, (a < length DY)%nat -> (b < length DY)%nat ->
              dterm DY DX (comp q g') a b = dterm DY DX' g' a b).
  { intros a b Ha Hb. unfold dterm. rewrite !img_comp by lia.
    rewrite Iso by (apply (valid_img _ _ _ _ Vg); assumption). reflexivity. }
  apply Z.le_antisymm; apply dis_le_iff; (split; [apply dis_nonneg|]); intros a b Ha Hb.
  - rewrite T by assumption. apply dis_ge; assumption.
  - rewrite <- T by assumption. apply dis_ge; assumption.
Qed.

Lemma perm_inverse n p : is_perm n p ->
  exists q, is_perm n q /\ (forall y, (y < n)%nat -> img p (img q y) = y) /\
            (forall i, (i < n)%nat -> img q (img p i) = i).
Proof.
  intros HP. pose proof HP as [Lp [ND Fp]].
  set (q := map (fun y => index_of y p) (seq 0 n)).
  assert (Iq : forall y, (y < n)%nat -> img q y = index_of y p) by (intros; unfold img, q; apply (nth_map_seq (fun y => index_of y p)); assumption).
  assert (Sp : forall y, (y < n)%nat -> (index_of y p < n)%nat /\ nth (index_of y p) p 0%nat = y).
  { intros y Hy. destruct (index_of_spec y p (perm_covers _ _ HP y Hy)). split; [lia|assumption]. }
  exists q. split; [|split].
  - split; [unfold q; rewrite map_length, seq_length; reflexivity|]. split.
    + unfold q. apply NoDup_map_inj_on; [|apply seq_NoDup].
      intros x y Ix Iy E. apply in_seq in Ix, Iy.
      destruct (Sp x ltac:(lia)) as [_ E1]. destruct (Sp y ltac:(lia)) as [_ E2]. rewrite <- E1, <- E2, E. reflexivity.
    + apply Forall_forall. intros z Hz. unfold q in Hz. apply in_map_iff in Hz. destruct Hz as [y [<- Hy]].
      apply in_seq in Hy. apply Sp. lia.
  - intros y Hy. rewrite Iq by exact Hy. unfold img. apply Sp. exact Hy.
  - intros i Hi. assert (Hpi : (img p i < n)%nat).
    { rewrite Forall_forall in Fp. apply Fp. unfold img. apply nth_In. lia. }
    rewrite Iq by exact Hpi. destruct (Sp _ Hpi) as [A B].
    rewrite NoDup_nth in ND. apply (ND _ i); [lia|lia|exact B].
Qed.

Lemma perm_valid n p : is_perm n p -> valid_map n n p.
Proof. intros [L [_ F]]. split; assumption. Qed.

Lemma isometric_sym DX DY : isometric DX DY -> isometric DY DX.
Proof.
  intros [L [p [HP Iso]]]. destruct (perm_inverse _ _ HP) as [q [HQ [PQ QP]]].
  split; [symmetry; exact L|]. exists q. rewrite <- L. split; [exact HQ|].
  intros a b Ha Hb. pose proof (perm_valid _ _ HQ) as Vq.
  rewrite <- (Iso (img q a) (img q b)) by (apply (valid_img _ _ _ _ Vq); assumption).
  rewrite !PQ by assumption. reflexivity.
Qed.

Lemma comp_cancel n f q p : length f = n -> length p = n ->
  (forall i, (i < n)%nat -> (img p i < length q)%nat) ->
  (forall i, (i < n)%nat -> img q (img p i) = i) -> comp (comp f q) p = f.
Proof.
  intros Lf Lp R C. apply (nth_ext _ _ 0%nat 0%nat).
  - unfold comp at 1. rewrite map_length, seq_length. lia.
  - intros i Hi. unfold comp at 1 in Hi. rewrite map_length, seq_length in Hi.
    change (img (comp (comp f q) p) i = img f i). rewrite img_comp by exact Hi.
    rewrite img_comp by (apply R; lia). rewrite C by lia. reflexivity.
Qed.

Theorem two_mgh_ge_relabel DX DX' DY d : isometric DX DX' -> two_mgh_ge DX DY d -> two_mgh_ge DX' DY d.
Proof.
  intros I G. pose proof (isometric_sym _ _ I) as [L' [q [HQ IsoQ]]]. destruct I as [L [p [HP Iso]]].
  destruct G as [G|G]; [left|right].
  - intros f' V'. eapply Z.le_trans; [apply (G (comp f' p))|apply dis_precompose_le].
    + apply (comp_valid _ (length DX')); [rewrite <- L; apply perm_valid; exact HP|exact V'].
    + rewrite <- L. apply perm_valid. exact HP.
    + exact Iso.
  - intros g' V'. rewrite <- (dis_postcompose_eq DY DX DX' q g' V' IsoQ). apply G.
    apply (comp_valid _ (length DX')); [exact V'|].
    destruct (perm_valid _ _ HQ) as [A B]. split; [exact A|rewrite <- L'; exact B].
Qed.

Theorem two_mgh_le_relabel DX DX' DY u : isometric DX DX' -> two_mgh_le DX DY u -> two_mgh_le DX' DY u.
Proof.
  intros I [f [g [Vf [Vg ->]]]].
  destruct I as [L [p [HP Iso]]]. destruct (perm_inverse _ _ HP) as [q [HQ [PQ QP]]].
  pose proof (perm_valid _ _ HP) as Vp. pose proof (perm_valid _ _ HQ) as Vq.
  assert (IsoQ : forall a b, (a < length DX')%nat -> (b < length DX')%nat -> ent DX (img q a) (img q b) = ent DX' a b).
  { rewrite <- L. intros a b Ha Hb.
    rewrite <- (Iso (img q a) (img q b)) by (apply (valid_img _ _ _ _ Vq); assumption).
    rewrite !PQ by assumption. reflexivity. }
  exists (comp f q), (comp p g). split; [|split].
  - rewrite <- L. apply (comp_valid _ (length DX)); assumption.
  - rewrite <- L. apply (comp_valid _ (length DX)); assumption.
  - f_equal.
    + apply Z.le_antisymm.
      * rewrite <- (comp_cancel (length DX) f q p) at 1.
        -- apply dis_precompose_le; [rewrite <- L; exact Vp|exact Iso].
        -- apply Vf.
        -- apply HP.
        -- intros i Hi. destruct HQ as [-> _]. apply (valid_img _ _ _ _ Vp). exact Hi.
        -- exact QP.
      * apply dis_precompose_le; [|exact IsoQ].
        destruct Vq as [A B]. split; [rewrite <- L; exact A|exact B].
    + symmetry. apply (dis_postcompose_eq DY DX' DX p g Vg). intros y y' Hy Hy'. apply Iso; assumption.
Qed.

Lemma two_mgh_le_swap DX DY u : two_mgh_le DY DX u -> two_mgh_le DX DY u.
Proof. intros [f [g [Vf [Vg ->]]]]. exists g, f. split; [exact Vg|split; [exact Vf|apply Z.max_comm]]. Qed.

(* brackets stay brackets of the same quantity under any relabelling of either graph *)
Theorem relabel_brackets DX DX' DY DY' : isometric DX DX' -> isometric DY DY' ->
  (forall d, two_mgh_ge DX DY d -> two_mgh_ge DX' DY' d) /\
  (forall u, two_mgh_le DX DY u -> two_mgh_le DX' DY' u).
Proof.
  intros IX IY. split.
  - intros d G. apply two_mgh_ge_swap. apply (two_mgh_ge_relabel DY DY' DX' d IY).
    apply two_mgh_ge_swap. apply (two_mgh_ge_relabel DX DX' DY d IX). exact G.
  - intros u G. apply two_mgh_le_swap. apply (two_mgh_le_relabel DY DY' DX' u IY).
    apply two_mgh_le_swap. apply (two_mgh_le_relabel DX DX' DY u IX). exact G.
Qed.

(* ------------------------------------------------------------------ collection dispatch *)
Lemma oall_map_spec {A B} (h : A -> option B) (l : list A) (r : list B) (da : A) (db : B) :
  oall (map h l) = Some r ->
  length r = length l /\ forall k, (k < length l)%nat -> h (nth k l da) = Some (nth k r db).
Proof.
  revert r. induction l as [|x t IH]; intros r E; simpl in E.
  - injection E as <-. split; [reflexivity|]. intros k Hk. simpl in Hk. lia.
  - destruct (h x) as [y|] eqn:Hx; [|discriminate]. destruct (oall (map h t)) as [r'|] eqn:Er; [|discriminate].
    injection E as <-. destruct (IH r' eq_refl) as [L N]. split; [simpl; lia|].
    intros [|k] Hk; simpl; [exact Hx|]. apply N. simpl in Hk. lia.
Qed.

Definition cent (cells : list (list (Z * Z))) (i j : nat) : Z * Z := nth j (nth i cells []) (0, 0).

Lemma ent_map_fst cells i j : ent (map (map fst) cells) i j = fst (cent cells i j).
Proof.
  unfold ent, cent. change (@nil Z) with (map (@fst Z Z) []). rewrite map_nth.
  change 0 with (fst (0, 0)) at 1. rewrite map_nth. reflexivity.
Qed.
Lemma ent_map_snd cells i j : ent (map (map snd) cells) i j = snd (cent cells i j).
Proof.
  unfold ent, cent. change (@nil Z) with (map (@snd Z Z) []). rewrite map_nth.
  change 0 with (snd (0, 0)) at 1. rewrite map_nth. reflexivity.
Qed.

Lemma collect_spec est Ds cells : collect est Ds = Some cells ->
  length cells = length Ds /\
  forall i, (i < length Ds)%nat -> length (nth i cells []) = length Ds /\
  forall j, (j < length Ds)%nat -> cell est Ds i j = Some (cent cells i j).
Proof.
  unfold collect. intros E.
  destruct (oall_map_spec _ _ _ 0%nat [] E) as [L N]. rewrite seq_length in L, N. split; [exact L|].
  intros i Hi. specialize (N i Hi). rewrite seq_nth in N by exact Hi. simpl in N.
  destruct (oall_map_spec _ _ _ 0%nat (0, 0) N) as [L2 N2]. rewrite seq_length in L2, N2. split; [exact L2|].
  intros j Hj. specialize (N2 j Hj). rewrite seq_nth in N2 by exact Hj. exact N2.
Qed.

Lemma cell_sym est Ds i j : cell est Ds i j = cell est Ds j i.
Proof.
  unfold cell. destruct (Nat.ltb_spec i j), (Nat.ltb_spec j i); try lia; reflexivity.
Qed.
Lemma cell_diag est Ds i : cell est Ds i i = Some (0, 0).
Proof. unfold cell. rewrite Nat.ltb_irrefl. reflexivity. Qed.

Theorem collection_shape mk est As w L U : gh_collection mk est As = GHColl w L U ->
  let n := length As in
  (2 <= n)%nat /\ length L = n /\ length U = n /\
  (forall i, (i < n)%nat -> length (nth i L []) = n /\ length (nth i U []) = n) /\
  (forall i j, (i < n)%nat -> (j < n)%nat -> ent L i j = ent L j i /\ ent U i j = ent U j i) /\
  (forall i, (i < n)%nat -> ent L i i = 0 /\ ent U i i = 0).
Proof.
  unfold gh_collection. intros E. destruct (Nat.ltb_spec (length As) 2) as [|N2]; [discriminate|].
  destruct (dms mk As) as [wds|] eqn:ED; [|discriminate].
  destruct (collect est (map snd wds)) as [cells|] eqn:EC; [|discriminate].
  injection E as _ <- <-.
  unfold dms in ED. destruct (oall_map_spec _ _ _ [] (false, []) ED) as [Lw _].
  destruct (collect_spec _ _ _ EC) as [Lc Nc]. assert (Ln : length (map snd wds) = length As) by (rewrite map_length; exact Lw). rewrite Ln in Lc. rewrite Ln in Nc.
  simpl. split; [exact N2|]. rewrite !map_length. split; [exact Lc|]. split; [exact Lc|]. split; [|split].
  - intros i Hi. destruct (Nc i Hi) as [Lr _].
    change (@nil Z) with (map (@fst Z Z) []) at 1. change (@nil Z) with (map (@snd Z Z) []).
    rewrite !map_nth, !map_length. split; exact Lr.
  - intros i j Hi Hj. rewrite !ent_map_fst, !ent_map_snd.
    destruct (Nc i Hi) as [_ Ci]. destruct (Nc j Hj) as [_ Cj].
    specialize (Ci j Hj). specialize (Cj i Hi). rewrite cell_sym, Cj in Ci. injection Ci as Ci. rewrite Ci. split; reflexivity.
  - intros i Hi. rewrite ent_map_fst, ent_map_snd. destruct (Nc i Hi) as [_ Ci]. specialize (Ci i Hi).
    rewrite cell_diag in Ci. injection Ci as Ci. rewrite <- Ci. split; reflexivity.
Qed.

Theorem collection_pairwise mk est As w L U : gh_collection mk est As = GHColl w L U ->
  forall i j, (i < j)%nat -> (j < length As)%nat ->
  exists wi Di wj Dj, mk (nth i As []) = DMOk wi Di /\ mk (nth j As []) = DMOk wj Dj /\
                      est i j Di Dj = Some (ent L i j, ent U i j).
Proof.
  unfold gh_collection. intros E i j Hij Hj. destruct (Nat.ltb_spec (length As) 2) as [|N2]; [discriminate|].
  destruct (dms mk As) as [wds|] eqn:ED; [|discriminate].
  destruct (collect est (map snd wds)) as [cells|] eqn:EC; [|discriminate].
  injection E as _ <- <-.
  unfold dms in ED. destruct (oall_map_spec _ _ _ [] (false, []) ED) as [Lw Nw].
  destruct (collect_spec _ _ _ EC) as [_ Nc]. assert (Ln : length (map snd wds) = length As) by (rewrite map_length; exact Lw). rewrite Ln in Nc.
  assert (Hi : (i < length As)%nat) by lia.
  pose proof (Nw i Hi) as Wi. pose proof (Nw j Hj) as Wj. cbv beta in Wi, Wj.
  match type of Wi with match ?t with _ => _ end = _ => destruct t as [wi Di|] eqn:Mi end; [|discriminate].
  match type of Wj with match ?t with _ => _ end = _ => destruct t as [wj Dj|] eqn:Mj end; [|discriminate].
  exists wi, Di, wj, Dj. split; [exact Mi|]. split; [exact Mj|].
  destruct (Nc i Hi) as [_ Ci]. specialize (Ci j Hj). unfold cell in Ci.
  destruct (Nat.ltb_spec i j); [|lia].
  injection Wi as Wi. injection Wj as Wj.
  match type of Ci with est _ _ ?a ?b = _ =>
    assert (Ei : a = Di) by (transitivity (snd (nth i wds (false, []))); [exact (map_nth snd wds (false, []) i)|exact (f_equal snd (eq_sym Wi))]);
    assert (Ej : b = Dj) by (transitivity (snd (nth j wds (false, []))); [exact (map_nth snd wds (false, []) j)|exact (f_equal snd (eq_sym Wj))]);
    rewrite Ei, Ej in Ci
  end.
  rewrite ent_map_fst, ent_map_snd. rewrite <- surjective_pairing. exact Ci.
Qed.

(* ------------------------------------------------------------------ largest connected component *)
Section Components.
Variable D : omat.
Let n := length D.
(* what shortest_path / connected_components guarantee: finiteness of the distance is an
   equivalence relation on the vertices *)
Hypothesis Hrefl : forall i, (i < n)%nat -> reach D i i = true.
Hypothesis Hsym : forall i j, (i < n)%nat -> (j < n)%nat -> reach D i j = true -> reach D j i = true.
Hypothesis Htrans : forall i j k, (i < n)%nat -> (j < n)%nat -> (k < n)%nat ->
  reach D i j = true -> reach D j k = true -> reach D i k = true.

Lemma comp_root_spec i : (i < n)%nat -> (comp_root D i < n)%nat /\ reach D i (comp_root D i) = true.
Proof.
  intros Hi. unfold comp_root. destruct (find (fun j => reach D i j) (seq 0 (length D))) as [j|] eqn:F.
  - apply find_some in F. destruct F as [I R]. apply in_seq in I. fold n in I. split; [lia|exact R].
  - split; [exact Hi|apply Hrefl; exact Hi].
Qed.

Lemma same_root_reach a b : (a < n)%nat -> (b < n)%nat -> comp_root D a = comp_root D b -> reach D a b = true.
Proof.
  intros Ha Hb E. destruct (comp_root_spec a Ha) as [Ra Pa]. destruct (comp_root_spec b Hb) as [Rb Pb].
  rewrite <- E in Pb. apply (Htrans a (comp_root D a) b); auto.
Qed.

Lemma first_max_in best l : In (first_max best l) (best :: l).
Proof.
  revert best. induction l as [|x t IH]; intros best; simpl; [left; reflexivity|].
  destruct (snd best <? snd x)%nat.
  - destruct (IH x) as [E|I]; [right; left; exact E|right; right; exact I].
  - destruct (IH best) as [E|I]; [left; exact E|right; right; exact I].
Qed.

Lemma first_max_ge l : forall best x, In x (best :: l) -> (snd x <= snd (first_max best l))%nat.
Proof.
  induction l as [|y t IH]; intros best x I; simpl.
  - destruct I as [<-|[]]. lia.
  - destruct (Nat.ltb_spec (snd best) (snd y)).
    + destruct I as [<-|[<-|I]].
      * pose proof (IH y y (or_introl eq_refl)). lia.
      * apply IH. left. reflexivity.
      * apply IH. right. exact I.
    + destruct I as [<-|[<-|I]].
      * apply IH. left. reflexivity.
      * pose proof (IH best best (or_introl eq_refl)). lia.
      * apply IH. right. exact I.
Qed.

Definition members (r : nat) : list nat := filter (fun i => (comp_root D i =? r)%nat) (seq 0 n).

Lemma largest_component_is_class : (0 < n)%nat ->
  exists r, (r < n)%nat /\ comp_root D r = r /\ largest_component D = members r /\
            forall r', (r' < n)%nat -> comp_root D r' = r' -> (length (members r') <= length (members r))%nat.
Proof.
  intros Hn. unfold largest_component.
  assert (R0 : In (0%nat, length (members 0)) (comp_sizes D)).
  { unfold comp_sizes. apply in_map_iff. exists 0%nat. split; [reflexivity|].
    apply filter_In. split; [apply in_seq; fold n; lia|]. apply Nat.eqb_eq.
    unfold comp_root. fold n. destruct n as [|k]; [lia|]. simpl. rewrite (Hrefl 0%nat) by lia. reflexivity. }
  destruct (comp_sizes D) as [|x t] eqn:CS; [destruct R0|].
  pose proof (first_max_in x t) as I. rewrite <- CS in I. unfold comp_sizes in I.
  apply in_map_iff in I. destruct I as [r [E Ir]]. apply filter_In in Ir. destruct Ir as [Ir Rr].
  apply in_seq in Ir. apply Nat.eqb_eq in Rr. fold n in Ir.
  exists r. split; [lia|]. split; [exact Rr|]. rewrite <- E. simpl. split; [reflexivity|].
  intros r' Hr' Rr'.
  assert (I' : In (r', length (members r')) (x :: t)).
  { rewrite <- CS. unfold comp_sizes. apply in_map_iff. exists r'. split; [reflexivity|].
    apply filter_In. split; [apply in_seq; fold n; lia|apply Nat.eqb_eq; exact Rr']. }
  pose proof (first_max_ge t x _ I') as G. rewrite <- E in G. simpl in G. exact G.
Qed.

Lemma has_inf_restrict_false C :
  (forall a b, In a C -> In b C -> reach D a b = true) -> has_inf (restrict_both D C) = false.
Proof.
  intros H. apply not_true_iff_false. intros T. unfold has_inf in T.
  apply existsb_exists in T. destruct T as [row [Ir Tr]]. unfold restrict_both in Ir.
  apply in_map_iff in Ir. destruct Ir as [a [<- Ia]].
  apply existsb_exists in Tr. destruct Tr as [x [Ix Tx]]. apply in_map_iff in Ix. destruct Ix as [b [<- Ib]].
  specialize (H a b Ia Ib). unfold reach in H. destruct (oent D a b); discriminate.
Qed.

(* the fallback never raises: it returns the restriction of the metric to the first largest
   component, on which every distance is finite, and warns exactly when the graph is disconnected *)
Theorem make_dm_of_total : (0 < n)%nat ->
  exists r, (r < n)%nat /\ comp_root D r = r /\ largest_component D = members r /\
    (forall a b, In a (members r) -> In b (members r) -> oent D a b <> None) /\
    In r (members r) /\
    (forall r', (r' < n)%nat -> comp_root D r' = r' -> (length (members r') <= length (members r))%nat) /\
    make_dm_of D =
      DMOk (has_inf D)
           (if has_inf D then map (map oz) (restrict_both D (members r)) else map (map oz) D).
Proof.
  intros Hn. destruct (largest_component_is_class Hn) as [r [Hr [Rr [LC Mx]]]].
  assert (Reach : forall a b, In a (members r) -> In b (members r) -> reach D a b = true).
  { intros a b Ia Ib. unfold members in Ia, Ib. apply filter_In in Ia, Ib.
    destruct Ia as [Ia Ea], Ib as [Ib Eb]. apply in_seq in Ia, Ib. apply Nat.eqb_eq in Ea, Eb.
    apply same_root_reach; [lia|lia|congruence]. }
  exists r. split; [exact Hr|]. split; [exact Rr|]. split; [exact LC|]. split; [|split; [|split]].
  - intros a b Ia Ib E. specialize (Reach a b Ia Ib). unfold reach in Reach. rewrite E in Reach. discriminate.
  - unfold members. apply filter_In. split; [apply in_seq; lia|apply Nat.eqb_eq; exact Rr].
  - exact Mx.
  - unfold make_dm_of. destruct (has_inf D) eqn:HI.
    + rewrite LC. unfold finish. rewrite (has_inf_restrict_false _ Reach). reflexivity.
    + unfold finish. rewrite HI. reflexivity.
Qed.

(* the pinned code (rows only) raises on EVERY disconnected graph *)
Theorem make_dm_legacy_of_raises : (0 < n)%nat -> Forall (fun row => length row = n) D ->
  has_inf D = true -> make_dm_legacy_of D = DMValueError.
Proof.
  intros Hn Sh HI. destruct (largest_component_is_class Hn) as [r [Hr [Rr [LC _]]]].
  unfold make_dm_legacy_of. rewrite HI, LC. unfold finish.
  assert (Rlen : forall i, (i < n)%nat -> length (nth i D []) = n).
  { intros i Hi. rewrite Forall_forall in Sh. apply Sh. apply nth_In. exact Hi. }
  assert (T : has_inf (restrict_rows D (members r)) = true); [|rewrite T; reflexivity].
  unfold has_inf in *. apply existsb_exists in HI. destruct HI as [row [Irow Trow]].
  apply existsb_exists in Trow. destruct Trow as [x [Ix Tx]]. destruct x as [z|]; [discriminate|].
  destruct (In_nth _ _ [] Irow) as [i0 [Hi0 Ei0]]. fold n in Hi0.
  destruct (In_nth _ _ None Ix) as [j0 [Hj0 Ej0]]. rewrite <- Ei0 in Hj0, Ej0. rewrite Rlen in Hj0 by exact Hi0.
  apply existsb_exists. exists (nth r D []). split.
  - unfold restrict_rows. apply in_map_iff. exists r. split; [reflexivity|].
    unfold members. apply filter_In. split; [apply in_seq; lia|apply Nat.eqb_eq; exact Rr].
  - assert (W : exists k, (k < n)%nat /\ oent D r k = None).
    { destruct (oent D r i0) eqn:E1; [|exists i0; split; [exact Hi0|exact E1]].
      destruct (oent D r j0) eqn:E2; [|exists j0; split; [exact Hj0|exact E2]]. exfalso.
      assert (R1 : reach D r i0 = true) by (unfold reach; rewrite E1; reflexivity).
      assert (R2 : reach D r j0 = true) by (unfold reach; rewrite E2; reflexivity).
      pose proof (Htrans i0 r j0 Hi0 Hr Hj0 (Hsym r i0 Hr Hi0 R1) R2) as R3.
      unfold reach, oent in R3. rewrite Ej0 in R3. discriminate. }
    destruct W as [k [Hk Ek]]. apply existsb_exists. exists None. split; [|reflexivity].
    unfold oent in Ek. rewrite <- Ek. apply nth_In. rewrite Rlen by exact Hr. exact Hk.
Qed.
End Components.

(* ------------------------------------------------------------------ the pinned code *)
Definition one_edge_3 : mat := [[0;1;0];[0;0;0];[0;0;0]].
Theorem legacy_fallback_raises :
  make_dm_legacy one_edge_3 = DMValueError /\ make_dm one_edge_3 = DMOk true [[0;1];[1;0]].
Proof. split; vm_compute; reflexivity. Qed.
