(* Glue lemmas tying C12 (imager geometry state machine, exact rationals) and C13 (kernel models)
   to C04 / C11 (the transform model over R, mesh as an input).  Statements are collected at the
   end of Properties/C04.v, C11.v, C12.v. *)
From Coq Require Import Reals ZArith QArith Qreals Qround List Bool Lra Lia.
From Persim Require Import Spec.ImageS Model.ImageM Proofs.ImageP.
From Persim Require Import Model.KernelM Spec.BvnS Proofs.KernelP Model.ImageKernelM.
From Persim Require Model.ImagerM Proofs.ImagerP.
Import ListNotations.
Open Scope R_scope.

Notation st := (ImagerM.state ImagerM.QNum).
Notation Inv := ImagerP.Inv.
Notation bpntsR s := (map Q2R (ImagerM.bpnts s)).
Notation ppntsR s := (map Q2R (ImagerM.ppnts s)).

(* ------------------------------------------------------------------ Q -> R *)
Lemma Q2R_0g : Q2R 0 = 0. Proof. unfold Q2R. simpl. lra. Qed.
Lemma Q2R_injZ z : Q2R (inject_Z z) = IZR z.
Proof. unfold Q2R, inject_Z. simpl. lra. Qed.

Lemma nth_map_Q2R l i : nth i (map Q2R l) 0 = Q2R (nth i l 0%Q).
Proof. rewrite <- Q2R_0g at 1. apply map_nth. Qed.

(* a mesh of the state machine, read over R: node i = lo + i * ps *)
Lemma mesh_ok_R l lo ps n : ImagerP.mesh_ok l lo ps n ->
  length (map Q2R l) = Z.to_nat (n + 1) /\
  forall i, (i < length l)%nat -> nth i (map Q2R l) 0 = Q2R lo + INR i * Q2R ps.
Proof.
  intros (L & H). split; [rewrite map_length; exact L|].
  intros i Hi. rewrite nth_map_Q2R. rewrite (Qeq_eqR _ _ (H i Hi)).
  rewrite Q2R_plus, Q2R_mult, Q2R_injZ, <- INR_IZR_INZ. reflexivity.
Qed.

Lemma mesh_ok_nondecr_aux ps lo : 0 <= ps -> forall l off,
  (forall i, (i < length l)%nat -> nth i l 0 = lo + INR (off + i) * ps) -> nondecr l.
Proof.
  intros Hps. induction l as [|a [|b t] IH]; intros off H; try exact I.
  split.
  - pose proof (H 0%nat) as H0. pose proof (H 1%nat) as H1. cbn [nth length] in H0, H1.
    rewrite H0, H1 by lia. rewrite Nat.add_0_r, Nat.add_1_r, S_INR. nra.
  - apply (IH (S off)). intros i Hi. specialize (H (S i)). cbn [nth length] in H, Hi |- *.
    rewrite H by (cbn [length]; lia). replace (off + S i)%nat with (S off + i)%nat by lia. reflexivity.
Qed.

Lemma mesh_ok_nondecr l lo ps n : (0 < ps)%Q -> ImagerP.mesh_ok l lo ps n -> nondecr (map Q2R l).
Proof.
  intros Hps M. destruct (mesh_ok_R l lo ps n M) as (_ & H).
  apply (mesh_ok_nondecr_aux (Q2R ps) (Q2R lo)) with (off := 0%nat).
  - apply Qlt_Rlt in Hps. rewrite Q2R_0g in Hps. lra.
  - intros i Hi. rewrite map_length in Hi. rewrite (H i Hi). reflexivity.
Qed.

(* ------------------------------------------------------------------ H1: image on an imager state *)
(* the rectangle of pixel (i, j) of a state: a square of side exactly the pixel size *)
Definition px_b (s : st) (i : nat) : R * R :=
  (Q2R (ImagerM.blo s) + INR i * Q2R (ImagerM.psz s), Q2R (ImagerM.blo s) + (INR i + 1) * Q2R (ImagerM.psz s)).
Definition px_p (s : st) (j : nat) : R * R :=
  (Q2R (ImagerM.plo s) + INR j * Q2R (ImagerM.psz s), Q2R (ImagerM.plo s) + (INR j + 1) * Q2R (ImagerM.psz s)).

Lemma inv_meshes (s : st) : Inv s ->
  (0 < ImagerM.psz s)%Q /\ (0 <= ImagerM.resw s)%Z /\ (0 <= ImagerM.resh s)%Z /\
  length (bpntsR s) = Z.to_nat (ImagerM.resw s + 1) /\ length (ppntsR s) = Z.to_nat (ImagerM.resh s + 1) /\
  (forall i, (Z.of_nat i < ImagerM.resw s)%Z ->
     (nth i (bpntsR s) 0, nth (S i) (bpntsR s) 0) = px_b s i) /\
  (forall j, (Z.of_nat j < ImagerM.resh s)%Z ->
     (nth j (ppntsR s) 0, nth (S j) (ppntsR s) 0) = px_p s j) /\
  nondecr (bpntsR s) /\ nondecr (ppntsR s).
Proof.
  intros (Hps & Hw & Hh & _ & _ & _ & _ & Mb & Mp & _).
  destruct (mesh_ok_R _ _ _ _ Mb) as (Lb & Nb). destruct (mesh_ok_R _ _ _ _ Mp) as (Lp & Np).
  rewrite map_length in Lb, Lp.
  repeat split; try assumption; try (rewrite map_length; assumption).
  - intros i Hi. unfold px_b. rewrite !Nb by lia. rewrite S_INR. reflexivity.
  - intros j Hj. unfold px_p. rewrite !Np by lia. rewrite S_INR. reflexivity.
  - apply (mesh_ok_nondecr _ _ _ _ Hps Mb).
  - apply (mesh_ok_nondecr _ _ _ _ Hps Mp).
Qed.

(* the conclusion shared by H1 and H2 *)
Definition image_of_state (s : st) (Phi : R -> R) (Kgauss : R -> R -> R -> kernel)
           (skew : bool) (w : weightfn) (k : kernel_cfg) (dgm : list point) : Prop :=
  let img := transform_one Phi Kgauss skew w k (bpntsR s) (ppntsR s) dgm in
  ImagerM.shape ImagerM.QNum s = Some (ImagerM.resw s, ImagerM.resh s) /\
  Z.of_nat (length img) = ImagerM.resw s /\
  Forall (fun r => Z.of_nat (length r) = ImagerM.resh s) img /\
  forall i j, (Z.of_nat i < ImagerM.resw s)%Z -> (Z.of_nat j < ImagerM.resh s)%Z ->
    nth j (nth i img []) 0
    = sumR (map (fun pt => w (fst pt) (snd pt) *
                           mass (eff_kernel Phi Kgauss k (fst pt) (snd pt)) (px_b s i) (px_p s j))
                (to_birth_pers skew dgm)).

Lemma image_on_state (s : st) : Inv s -> forall Phi Kgauss skew w k dgm,
  image_of_state s Phi Kgauss skew w k dgm.
Proof.
  intros HI Phi Kgauss skew w k dgm.
  destruct (inv_meshes s HI) as (Hps & Hw & Hh & Lb & Lp & Pb & Pp & _).
  destruct HI as (_ & _ & _ & _ & _ & _ & _ & _ & _ & Sh).
  unfold image_of_state. cbv zeta.
  destruct (transform_shape Phi Kgauss skew w k (bpntsR s) (ppntsR s) dgm) as (S1 & S2).
  unfold resolution_of in S1, S2. cbn [fst snd] in S1, S2.
  split; [exact Sh|]. split; [rewrite S1, Lb; lia|]. split.
  - eapply Forall_impl; [|exact S2]. intros r Hr. cbv beta in Hr. rewrite Hr, Lp. lia.
  - intros i j Hi Hj. rewrite transform_pixel by (rewrite ?Lb, ?Lp; lia).
    unfold pixel_spec. rewrite (Pb i Hi), (Pp j Hj). reflexivity.
Qed.

(* H2: the same after a constructor call and any history of valid operations *)
Lemma image_after_history bl bh pl ph ps (h : list (ImagerM.op ImagerM.QNum)) :
  (0 < ps)%Q -> (bl <= bh)%Q -> (pl <= ph)%Q -> Forall ImagerP.op_ok h ->
  forall Phi Kgauss skew w k dgm,
  image_of_state (ImagerM.run ImagerM.QNum (ImagerM.ctor ImagerM.QNum bl bh pl ph ps) h) Phi Kgauss skew w k dgm.
Proof.
  intros Hp Lb Lp F. apply image_on_state. apply ImagerP.history_inv; [|exact F].
  apply (ImagerP.ctor_inv bl bh pl ph ps Hp Lb Lp).
Qed.

(* ------------------------------------------------------------------ H3: the kernel models of Model/KernelM.v *)
(* Spec/BvnS.cdf_like (C13) and Spec/ImageS.mono01 (C04/C11) are the same notion *)
Lemma cdf_like_mono01 Phi : cdf_like Phi <-> mono01 Phi.
Proof. unfold cdf_like, mono01. tauto. Qed.

(* (a) the Gaussian kernel model, both variants of line 173, at zero covariance *)
Lemma gaussian_kernelM_zero_cov thr Phi sxx syy mb mp x y :
  gaussian_kernelM_gen thr Phi sxx 0 syy mb mp x y = Phi ((x - mb) / sqrt sxx) * Phi ((y - mp) / sqrt syy).
Proof. unfold gaussian_kernelM_gen. rewrite gaussian_zero_cov by reflexivity. reflexivity. Qed.

Lemma gaussian_kernelM_intended Phi : gaussian_kernelM Phi = gaussian_kernelM_gen (-100) Phi.
Proof. reflexivity. Qed.

Lemma fast_eq_general_kernelM thr Phi skew w s bp pp dgm :
  (forall mb mp x y, gaussian_kernelM_gen thr Phi s 0 s mb mp x y
                     = Phi ((x - mb) / sqrt s) * Phi ((y - mp) / sqrt s)) /\
  transform_fast Phi w s bp pp (to_birth_pers skew dgm)
    = transform_general w (gaussian_kernelM_gen thr Phi s 0 s) bp pp (to_birth_pers skew dgm) /\
  transform_one Phi (gaussian_kernelM_gen thr Phi) skew w (GaussScalar s) bp pp dgm
    = transform_general w (gaussian_kernelM_gen thr Phi s 0 s) bp pp (to_birth_pers skew dgm) /\
  transform_one Phi (gaussian_kernelM_gen thr Phi) skew w (GaussMatrix s 0 s) bp pp dgm
    = transform_general w (gaussian_kernelM_gen thr Phi s 0 s) bp pp (to_birth_pers skew dgm).
Proof.
  assert (P : forall mb mp x y, gaussian_kernelM_gen thr Phi s 0 s mb mp x y
                     = Phi ((x - mb) / sqrt s) * Phi ((y - mp) / sqrt s))
    by (intros; apply gaussian_kernelM_zero_cov).
  pose proof (fast_eq_general_path Phi (gaussian_kernelM_gen thr Phi) w s bp pp (to_birth_pers skew dgm) P) as E.
  split; [exact P|]. split; [exact E|]. split.
  - exact E.
  - unfold transform_one. destruct (Req_EM_T s s) as [_|N]; [|exfalso; apply N; reflexivity].
    destruct (Req_EM_T 0 0) as [_|N]; [|exfalso; apply N; reflexivity]. exact E.
Qed.

Lemma mass_nonneg_ext K1 K2 : (forall mb mp x y, K1 mb mp x y = K2 mb mp x y) ->
  mass_nonneg K2 /\ mass_le_one K2 -> mass_nonneg K1 /\ mass_le_one K1.
Proof.
  intros E [A B]. split; intros mb mp x0 x1 y0 y1 Hx Hy;
    rewrite (mass_ext (K1 mb mp) (K2 mb mp)) by (intros; apply E); [apply A|apply B]; assumption.
Qed.

Lemma gaussian_kernelM_zero_cov_mass thr Phi sxx syy : mono01 Phi ->
  mass_nonneg (gaussian_kernelM_gen thr Phi sxx 0 syy) /\ mass_le_one (gaussian_kernelM_gen thr Phi sxx 0 syy).
Proof.
  intros HP.
  assert (C : forall s, 0 <= / sqrt s).
  { intros s. destruct (Req_dec (sqrt s) 0) as [E|E]; [rewrite E, Rinv_0; lra|].
    left. apply Rinv_0_lt_compat. pose proof (sqrt_pos s). lra. }
  apply (mass_nonneg_ext _ (fun mb mp x y => (fun m x => Phi ((x - m) / sqrt sxx)) mb x
                                             * (fun m y => Phi ((y - m) / sqrt syy)) mp y)).
  - intros. apply gaussian_kernelM_zero_cov.
  - apply product_kernel_mass; intros m; [apply (mono01_shift Phi (/ sqrt sxx) m HP (C sxx))
                                         |apply (mono01_shift Phi (/ sqrt syy) m HP (C syy))].
Qed.

Lemma gaussian_kernelM_assumption thr Phi sxx syy : mono01 Phi ->
  kernel_assumption (gaussian_kernelM_gen thr Phi) (GaussMatrix sxx 0 syy).
Proof. intros HP. right. apply gaussian_kernelM_zero_cov_mass, HP. Qed.

Lemma image_nonneg_gauss thr Phi skew w sxx syy bp pp dgm :
  mono01 Phi -> nondecr bp -> nondecr pp ->
  (forall q, In q dgm -> 0 <= w (fst (bp_of skew q)) (snd (bp_of skew q))) ->
  Forall (Forall (fun v => 0 <= v))
         (transform_one Phi (gaussian_kernelM_gen thr Phi) skew w (GaussMatrix sxx 0 syy) bp pp dgm).
Proof.
  intros HP Nb Np Hw. apply transform_one_nonneg; try assumption. apply gaussian_kernelM_assumption, HP.
Qed.

Lemma image_total_gauss thr Phi skew w sxx syy bp pp dgm :
  mono01 Phi -> nondecr bp -> nondecr pp ->
  (forall q, In q dgm -> 0 <= w (fst (bp_of skew q)) (snd (bp_of skew q))) ->
  0 <= img_total (transform_one Phi (gaussian_kernelM_gen thr Phi) skew w (GaussMatrix sxx 0 syy) bp pp dgm)
    <= total_weight w (to_birth_pers skew dgm).
Proof.
  intros HP Nb Np Hw. apply transform_one_total; try assumption. apply gaussian_kernelM_assumption, HP.
Qed.

(* (b) the uniform kernel model *)
Lemma uniform_kernelM_is_uniform_kernel width height : uniform_kernelM width height = uniform_kernel width height.
Proof. reflexivity. Qed.

Lemma uniform_kernelM_is_box_cdf width height mb mp x y : 0 < width -> 0 < height ->
  uniform_kernelM width height mb mp x y = box_cdf mb mp width height x y.
Proof. intros. unfold uniform_kernelM. apply uniform_eq_box; assumption. Qed.

Lemma uniform_kernelM_mass width height : 0 < width -> 0 < height ->
  mass_nonneg (uniform_kernelM width height) /\ mass_le_one (uniform_kernelM width height).
Proof. intros W H. rewrite uniform_kernelM_is_uniform_kernel. apply uniform_kernel_mass; assumption. Qed.

(* a kernel handed over as a callable never meets Phi or Kgauss *)
Lemma other_kernel_spec Phi Kgauss skew w K bp pp dgm :
  transform_one Phi Kgauss skew w (OtherKernel K) bp pp dgm = spec_image w K bp pp (to_birth_pers skew dgm).
Proof. apply (transform_one_spec Phi Kgauss skew w (OtherKernel K)). Qed.

Lemma image_nonneg_unif Phi Kgauss skew w width height bp pp dgm :
  0 < width -> 0 < height -> nondecr bp -> nondecr pp ->
  (forall q, In q dgm -> 0 <= w (fst (bp_of skew q)) (snd (bp_of skew q))) ->
  Forall (Forall (fun v => 0 <= v))
         (transform_one Phi Kgauss skew w (OtherKernel (uniform_kernelM width height)) bp pp dgm).
Proof.
  intros W H Nb Np Hw. rewrite other_kernel_spec.
  destruct (uniform_kernelM_mass width height W H) as [A _].
  apply spec_pixels_nonneg; try assumption.
  intros pt Hpt. apply in_to_bp in Hpt. destruct Hpt as [q [I ->]]. apply Hw, I.
Qed.

Lemma image_total_unif Phi Kgauss skew w width height bp pp dgm :
  0 < width -> 0 < height -> nondecr bp -> nondecr pp ->
  (forall q, In q dgm -> 0 <= w (fst (bp_of skew q)) (snd (bp_of skew q))) ->
  0 <= img_total (transform_one Phi Kgauss skew w (OtherKernel (uniform_kernelM width height)) bp pp dgm)
    <= total_weight w (to_birth_pers skew dgm).
Proof.
  intros W H Nb Np Hw. rewrite other_kernel_spec.
  destruct (uniform_kernelM_mass width height W H) as [A B].
  apply spec_total_le; try assumption.
  intros pt Hpt. apply in_to_bp in Hpt. destruct Hpt as [q [I ->]]. apply Hw, I.
Qed.

(* on an imager state the mesh hypotheses of C11 are discharged by C12's invariant *)
Lemma image_nonneg_total_on_state (s : st) Phi Kgauss skew w k dgm :
  Inv s -> mono01 Phi -> kernel_assumption Kgauss k ->
  (forall q, In q dgm -> 0 <= w (fst (bp_of skew q)) (snd (bp_of skew q))) ->
  let img := transform_one Phi Kgauss skew w k (bpntsR s) (ppntsR s) dgm in
  Forall (Forall (fun v => 0 <= v)) img /\
  0 <= img_total img <= total_weight w (to_birth_pers skew dgm).
Proof.
  intros HI HP HK Hw img.
  destruct (inv_meshes s HI) as (_ & _ & _ & _ & _ & _ & _ & Nb & Np).
  split; [apply transform_one_nonneg|apply transform_one_total]; assumption.
Qed.

(* ------------------------------------------------------------------ H4: uniform kernel = area fractions *)
(* length of [a,b] /\ [x0,x1] *)
Definition overlap (a b x0 x1 : R) : R := Rmax 0 (Rmin b x1 - Rmax a x0).

Lemma seg_len_diff a b x0 x1 : a <= b -> x0 <= x1 -> seg_len a b x1 - seg_len a b x0 = overlap a b x0 x1.
Proof. intros Hab Hx. unfold seg_len, overlap, Rmin, Rmax. repeat destruct Rle_dec; lra. Qed.

Lemma overlap_inside a b x0 x1 : a <= b -> x0 <= a -> b <= x1 -> overlap a b x0 x1 = b - a.
Proof. intros. unfold overlap, Rmin, Rmax. repeat destruct Rle_dec; lra. Qed.

Lemma overlap_disjoint a b x0 x1 : x1 <= a \/ b <= x0 -> a <= b -> x0 <= x1 -> overlap a b x0 x1 = 0.
Proof. intros. unfold overlap, Rmin, Rmax. repeat destruct Rle_dec; lra. Qed.

(* the mass the uniform kernel model gives to an ordered rectangle is
   area (box /\ rectangle) / area box, the box being centred at the point *)
Lemma uniform_mass_closed wd ht mb mp x0 x1 y0 y1 : 0 < wd -> 0 < ht -> x0 <= x1 -> y0 <= y1 ->
  mass (uniform_kernelM wd ht mb mp) (x0, x1) (y0, y1)
  = overlap (mb - wd / 2) (mb + wd / 2) x0 x1 * overlap (mp - ht / 2) (mp + ht / 2) y0 y1 / (wd * ht).
Proof.
  intros W H Hx Hy.
  rewrite (mass_ext _ (fun x y => seg_frac mb wd x * seg_frac mp ht y))
    by (intros; unfold uniform_kernelM; apply uniform_eq_prod; assumption).
  rewrite (mass_product (seg_frac mb wd) (seg_frac mp ht)). cbn [fst snd]. unfold seg_frac.
  rewrite <- (seg_len_diff (mb - wd / 2) (mb + wd / 2) x0 x1) by lra.
  rewrite <- (seg_len_diff (mp - ht / 2) (mp + ht / 2) y0 y1) by lra.
  field. lra.
Qed.

Lemma uniform_mass_box_inside wd ht mb mp x0 x1 y0 y1 : 0 < wd -> 0 < ht ->
  x0 <= mb - wd / 2 -> mb + wd / 2 <= x1 -> y0 <= mp - ht / 2 -> mp + ht / 2 <= y1 ->
  mass (uniform_kernelM wd ht mb mp) (x0, x1) (y0, y1) = 1.
Proof.
  intros W H A B C D. rewrite uniform_mass_closed by lra.
  rewrite !overlap_inside by lra. field. lra.
Qed.

Lemma nondecr_nth l : nondecr l -> forall i, (S i < length l)%nat -> nth i l 0 <= nth (S i) l 0.
Proof.
  induction l as [|a [|b t] IH]; intros N i Hi; cbn [length] in Hi; try lia.
  destruct N as [N1 N2]. destruct i as [|i]; [exact N1|].
  change (nth i (b :: t) 0 <= nth (S i) (b :: t) 0). apply IH; [exact N2|cbn [length]; lia].
Qed.

Lemma uniform_pixel_area Phi Kgauss skew w wd ht bp pp dgm i j :
  0 < wd -> 0 < ht -> nondecr bp -> nondecr pp -> (S i < length bp)%nat -> (S j < length pp)%nat ->
  nth j (nth i (transform_one Phi Kgauss skew w (OtherKernel (uniform_kernelM wd ht)) bp pp dgm) []) 0
  = sumR (map (fun pt => w (fst pt) (snd pt) *
                 (overlap (fst pt - wd / 2) (fst pt + wd / 2) (nth i bp 0) (nth (S i) bp 0) *
                  overlap (snd pt - ht / 2) (snd pt + ht / 2) (nth j pp 0) (nth (S j) pp 0) / (wd * ht)))
              (to_birth_pers skew dgm)).
Proof.
  intros W H Nb Np Hi Hj. rewrite transform_pixel by assumption. unfold pixel_spec.
  apply sumR_map_ext. intros pt _. cbn [eff_kernel].
  rewrite uniform_mass_closed; try assumption; [reflexivity| |]; apply nondecr_nth; assumption.
Qed.

(* equality case of pixel_total_le_weight: nothing is lost when every kernel box lies inside the
   imaged region *)
Lemma uniform_mass_conserved Phi Kgauss skew w wd ht bp pp dgm :
  0 < wd -> 0 < ht ->
  (forall pt, In pt (to_birth_pers skew dgm) ->
     fst (span bp) <= fst pt - wd / 2 /\ fst pt + wd / 2 <= snd (span bp) /\
     fst (span pp) <= snd pt - ht / 2 /\ snd pt + ht / 2 <= snd (span pp)) ->
  img_total (transform_one Phi Kgauss skew w (OtherKernel (uniform_kernelM wd ht)) bp pp dgm)
  = total_weight w (to_birth_pers skew dgm).
Proof.
  intros W H In_. rewrite other_kernel_spec, total_spec. unfold total_weight.
  apply sumR_map_ext. intros pt Hpt. destruct (In_ pt Hpt) as (A & B & C & D).
  destruct (span bp) as [x0 x1], (span pp) as [y0 y1]. cbn [fst snd] in *.
  rewrite uniform_mass_box_inside by assumption. lra.
Qed.

(* ---- the imaged region of an imager state *)
Lemma last_nth_R (l : list R) : last l 0 = nth (pred (length l)) l 0.
Proof.
  induction l as [|a [|b t] IH]; try reflexivity.
  change (last (a :: b :: t) 0) with (last (b :: t) 0). rewrite IH. reflexivity.
Qed.

Lemma span_on_state (s : st) : Inv s ->
  span (bpntsR s) = (Q2R (ImagerM.blo s), Q2R (ImagerM.bhi s)) /\
  span (ppntsR s) = (Q2R (ImagerM.plo s), Q2R (ImagerM.phi s)).
Proof.
  intros HI. destruct (ImagerP.pixels_square s HI) as (_ & _ & B0 & B1 & P0 & P1).
  destruct (inv_meshes s HI) as (_ & Hw & Hh & Lb & Lp & _).
  unfold span. rewrite !last_nth_R, Lb, Lp.
  replace (pred (Z.to_nat (ImagerM.resw s + 1))) with (Z.to_nat (ImagerM.resw s)) by lia.
  replace (pred (Z.to_nat (ImagerM.resh s + 1))) with (Z.to_nat (ImagerM.resh s)) by lia.
  assert (Hb : hd 0 (bpntsR s) = nth 0 (bpntsR s) 0) by (destruct (bpntsR s); reflexivity).
  assert (Hp : hd 0 (ppntsR s) = nth 0 (ppntsR s) 0) by (destruct (ppntsR s); reflexivity).
  rewrite Hb, Hp.
  assert (E0 : nth 0 (bpntsR s) 0 = Q2R (ImagerM.blo s)) by (rewrite nth_map_Q2R; apply Qeq_eqR; exact B0).
  assert (E1 : nth (Z.to_nat (ImagerM.resw s)) (bpntsR s) 0 = Q2R (ImagerM.bhi s))
    by (rewrite nth_map_Q2R; apply Qeq_eqR; exact B1).
  assert (F0 : nth 0 (ppntsR s) 0 = Q2R (ImagerM.plo s)) by (rewrite nth_map_Q2R; apply Qeq_eqR; exact P0).
  assert (F1 : nth (Z.to_nat (ImagerM.resh s)) (ppntsR s) 0 = Q2R (ImagerM.phi s))
    by (rewrite nth_map_Q2R; apply Qeq_eqR; exact P1).
  rewrite E0, E1, F0, F1. split; reflexivity.
Qed.

Lemma uniform_mass_conserved_on_state (s : st) Phi Kgauss skew w wd ht dgm :
  Inv s -> 0 < wd -> 0 < ht ->
  (forall pt, In pt (to_birth_pers skew dgm) ->
     Q2R (ImagerM.blo s) <= fst pt - wd / 2 /\ fst pt + wd / 2 <= Q2R (ImagerM.bhi s) /\
     Q2R (ImagerM.plo s) <= snd pt - ht / 2 /\ snd pt + ht / 2 <= Q2R (ImagerM.phi s)) ->
  img_total (transform_one Phi Kgauss skew w (OtherKernel (uniform_kernelM wd ht)) (bpntsR s) (ppntsR s) dgm)
  = total_weight w (to_birth_pers skew dgm).
Proof.
  intros HI W H In_. apply uniform_mass_conserved; try assumption.
  destruct (span_on_state s HI) as (-> & ->). exact In_.
Qed.

(* ---- fit, then transform *)
Definition q2r_pt (p : Q * Q) : point := (Q2R (fst p), Q2R (snd p)).

(* the skew of images.py:925-927 (model C04, over R) is the skew of fit (model C12, over Q) *)
Lemma to_bp_q2r skew (d : ImagerM.dgm ImagerM.QNum) :
  to_birth_pers skew (map q2r_pt (fst d :: snd d)) = map q2r_pt (ImagerM.dgm_points ImagerM.QNum skew d).
Proof.
  unfold to_birth_pers, ImagerM.dgm_points. destruct skew.
  - rewrite !map_map. apply map_ext. intros [b dd]. unfold skew_point, q2r_pt, ImagerM.skew_pt. cbn.
    rewrite Q2R_minus. reflexivity.
  - rewrite map_map. apply map_ext. intros p. reflexivity.
Qed.

Lemma in_coll_points skew (c : ImagerM.coll ImagerM.QNum) d p :
  In d (fst c :: snd c) -> In p (ImagerM.dgm_points ImagerM.QNum skew d) -> In p (ImagerP.coll_points skew c).
Proof. intros Hd Hp. unfold ImagerP.coll_points. apply in_flat_map. exists d. split; assumption. Qed.

Lemma located_pixel_contains (s : st) x y : Inv s ->
  (ImagerM.blo s <= x)%Q -> (x < ImagerM.bhi s)%Q -> (ImagerM.plo s <= y)%Q -> (y < ImagerM.phi s)%Q ->
  exists i j : nat,
    ImagerM.locate ImagerM.QNum (ImagerM.bpnts s) x = Z.of_nat i /\ (Z.of_nat i < ImagerM.resw s)%Z /\
    ImagerM.locate ImagerM.QNum (ImagerM.ppnts s) y = Z.of_nat j /\ (Z.of_nat j < ImagerM.resh s)%Z /\
    fst (px_b s i) <= Q2R x < snd (px_b s i) /\ fst (px_p s j) <= Q2R y < snd (px_p s j).
Proof.
  intros HI A B C D. pose proof HI as (Hps & _).
  destruct (ImagerP.locate_pixel s x HI A B) as (E & F0 & F1).
  destruct (ImagerP.locate_pixel_pers s y HI C D) as (G & H0 & H1).
  exists (Z.to_nat (Qfloor ((x - ImagerM.blo s) / ImagerM.psz s))),
         (Z.to_nat (Qfloor ((y - ImagerM.plo s) / ImagerM.psz s))).
  rewrite !Z2Nat.id by assumption. repeat split; try assumption.
  all: unfold px_b, px_p; cbn [fst snd]; rewrite INR_IZR_INZ, Z2Nat.id by assumption.
  all: assert (P : 0 < Q2R (ImagerM.psz s)) by (apply Qlt_Rlt in Hps; rewrite Q2R_0g in Hps; exact Hps).
  1,2: set (q := ((x - ImagerM.blo s) / ImagerM.psz s)%Q);
       assert (Eq : Q2R q * Q2R (ImagerM.psz s) = Q2R x - Q2R (ImagerM.blo s))
         by (rewrite <- Q2R_mult, <- Q2R_minus; apply Qeq_eqR; unfold q; field; intro Z0; rewrite Z0 in Hps; discriminate).
  3,4: set (q := ((y - ImagerM.plo s) / ImagerM.psz s)%Q);
       assert (Eq : Q2R q * Q2R (ImagerM.psz s) = Q2R y - Q2R (ImagerM.plo s))
         by (rewrite <- Q2R_mult, <- Q2R_minus; apply Qeq_eqR; unfold q; field; intro Z0; rewrite Z0 in Hps; discriminate).
  all: pose proof (Qle_Rle _ _ (Qfloor_le q)) as L1; pose proof (Qlt_Rlt _ _ (Qlt_floor q)) as L2;
       rewrite Q2R_injZ in L1, L2; rewrite plus_IZR in L2; nra.
Qed.

(* a kernel box inside one pixel: that pixel receives the whole weight of the point *)
Lemma uniform_point_in_pixel (s : st) Phi Kgauss w wd ht (pt : point) i j :
  Inv s -> 0 < wd -> 0 < ht -> (Z.of_nat i < ImagerM.resw s)%Z -> (Z.of_nat j < ImagerM.resh s)%Z ->
  fst (px_b s i) <= fst pt - wd / 2 -> fst pt + wd / 2 <= snd (px_b s i) ->
  fst (px_p s j) <= snd pt - ht / 2 -> snd pt + ht / 2 <= snd (px_p s j) ->
  nth j (nth i (transform_one Phi Kgauss false w (OtherKernel (uniform_kernelM wd ht)) (bpntsR s) (ppntsR s) [pt]) []) 0
  = w (fst pt) (snd pt).
Proof.
  intros HI W H Hi Hj A B C D.
  destruct (image_on_state s HI Phi Kgauss false w (OtherKernel (uniform_kernelM wd ht)) [pt]) as (_ & _ & _ & P).
  rewrite (P i j Hi Hj). cbn [to_birth_pers map sumR fold_right eff_kernel].
  destruct (px_b s i) as [x0 x1], (px_p s j) as [y0 y1]. cbn [fst snd] in *.
  rewrite uniform_mass_box_inside by assumption. lra.
Qed.

Definition fit_transform_post (s' : st) (c : ImagerM.coll ImagerM.QNum) (k : bool) : Prop :=
  Inv s' /\
  (* every point _transform processes for a diagram of the fitted collection is covered *)
  (forall d, In d (fst c :: snd c) -> forall pt, In pt (to_birth_pers k (map q2r_pt (fst d :: snd d))) ->
     Q2R (ImagerM.blo s') <= fst pt <= Q2R (ImagerM.bhi s') /\
     Q2R (ImagerM.plo s') <= snd pt <= Q2R (ImagerM.phi s')) /\
  (* a fitted point off the upper edges falls into an existing pixel, whose square contains it *)
  (forall p, In p (ImagerP.coll_points k c) -> (fst p < ImagerM.bhi s')%Q -> (snd p < ImagerM.phi s')%Q ->
     exists i j : nat,
       ImagerM.locate ImagerM.QNum (ImagerM.bpnts s') (fst p) = Z.of_nat i /\ (Z.of_nat i < ImagerM.resw s')%Z /\
       ImagerM.locate ImagerM.QNum (ImagerM.ppnts s') (snd p) = Z.of_nat j /\ (Z.of_nat j < ImagerM.resh s')%Z /\
       fst (px_b s' i) <= Q2R (fst p) < snd (px_b s' i) /\ fst (px_p s' j) <= Q2R (snd p) < snd (px_p s' j)) /\
  (* uniform kernel: a diagram of the collection whose kernel boxes lie inside the covered region
     keeps its whole weight; a point whose box lies inside one pixel gives that pixel its weight *)
  (forall Phi Kgauss w wd ht, 0 < wd -> 0 < ht ->
     (forall d, In d (fst c :: snd c) ->
        (forall pt, In pt (to_birth_pers k (map q2r_pt (fst d :: snd d))) ->
           Q2R (ImagerM.blo s') <= fst pt - wd / 2 /\ fst pt + wd / 2 <= Q2R (ImagerM.bhi s') /\
           Q2R (ImagerM.plo s') <= snd pt - ht / 2 /\ snd pt + ht / 2 <= Q2R (ImagerM.phi s')) ->
        img_total (transform_one Phi Kgauss k w (OtherKernel (uniform_kernelM wd ht)) (bpntsR s') (ppntsR s')
                                 (map q2r_pt (fst d :: snd d)))
        = total_weight w (map q2r_pt (ImagerM.dgm_points ImagerM.QNum k d))) /\
     (forall p i j, In p (ImagerP.coll_points k c) ->
        (Z.of_nat i < ImagerM.resw s')%Z -> (Z.of_nat j < ImagerM.resh s')%Z ->
        fst (px_b s' i) <= Q2R (fst p) - wd / 2 -> Q2R (fst p) + wd / 2 <= snd (px_b s' i) ->
        fst (px_p s' j) <= Q2R (snd p) - ht / 2 -> Q2R (snd p) + ht / 2 <= snd (px_p s' j) ->
        nth j (nth i (transform_one Phi Kgauss false w (OtherKernel (uniform_kernelM wd ht)) (bpntsR s') (ppntsR s')
                                    [q2r_pt p]) []) 0
        = w (Q2R (fst p)) (Q2R (snd p)))).

Lemma fit_then_transform (s : st) c k : Inv s ->
  fit_transform_post (ImagerM.step ImagerM.QNum s (ImagerM.Fit c k)) c k.
Proof.
  intros HI. cbn [ImagerM.step]. destruct (ImagerP.fit_inv s c k HI) as (HI' & _ & Cov & _).
  set (s' := ImagerM.fit ImagerM.QNum s c k) in *.
  unfold fit_transform_post. split; [exact HI'|]. split; [|split].
  - intros d Hd pt Hpt. rewrite to_bp_q2r in Hpt. apply in_map_iff in Hpt. destruct Hpt as (p & <- & Hp).
    destruct (Cov p (in_coll_points k c d p Hd Hp)) as ((A & B) & (C & D)).
    apply Qle_Rle in A, B, C, D. unfold q2r_pt. cbn [fst snd]. lra.
  - intros p Hp Hb Hq. destruct (Cov p Hp) as ((A & _) & (C & _)).
    apply (located_pixel_contains s' (fst p) (snd p) HI' A Hb C Hq).
  - intros Phi Kgauss w wd ht W H. split.
    + intros d Hd Box. rewrite <- to_bp_q2r. apply uniform_mass_conserved_on_state; assumption.
    + intros p i j Hp Hi Hj A B C D.
      apply (uniform_point_in_pixel s' Phi Kgauss w wd ht (q2r_pt p) i j HI' W H Hi Hj A B C D).
Qed.

(* ------------------------------------------------------------------ non-negativity needs monotonicity only *)
(* ... so it holds outright for the normal CDF written as an integral (Spec/BvnS.Phi_int, the Phi of the runs),
   whose monotonicity is C13's normal_cdf_integral_monotone; its range [0,1] is not proved anywhere *)
Definition monotone (G : R -> R) : Prop := forall a b, a <= b -> G a <= G b.

Lemma product_mass_nonneg_monotone (G H : R -> R -> R) :
  (forall m, monotone (G m)) -> (forall m, monotone (H m)) -> mass_nonneg (fun mb mp x y => G mb x * H mp y).
Proof.
  intros HG HH mb mp x0 x1 y0 y1 Hx Hy. rewrite (mass_product (G mb) (H mp)). cbn [fst snd].
  pose proof (HG mb _ _ Hx). pose proof (HH mp _ _ Hy). nra.
Qed.

Lemma shift_monotone Phi c m : monotone Phi -> 0 <= c -> monotone (fun x => Phi ((x - m) * c)).
Proof. intros M Hc a b Hab. apply M. nra. Qed.

Lemma inv_sqrt_nonneg s : 0 <= / sqrt s.
Proof.
  destruct (Req_dec (sqrt s) 0) as [E|E]; [rewrite E, Rinv_0; lra|].
  left. apply Rinv_0_lt_compat. pose proof (sqrt_pos s). lra.
Qed.

Lemma axis_product_nonneg Phi sxx syy : monotone Phi ->
  mass_nonneg (fun mb mp x y => Phi ((x - mb) / sqrt sxx) * Phi ((y - mp) / sqrt syy)).
Proof.
  intros M.
  apply (product_mass_nonneg_monotone (fun m x => Phi ((x - m) / sqrt sxx)) (fun m y => Phi ((y - m) / sqrt syy)));
    intros m; [apply (shift_monotone Phi (/ sqrt sxx) m M (inv_sqrt_nonneg sxx))
              |apply (shift_monotone Phi (/ sqrt syy) m M (inv_sqrt_nonneg syy))].
Qed.

(* kernel = gaussian with a scalar sigma or a 2x2 sigma with zero covariance *)
Definition axis_cfg (k : kernel_cfg) : Prop :=
  match k with GaussScalar _ => True | GaussMatrix _ sxy _ => sxy = 0 | OtherKernel _ => False end.

Lemma eff_kernel_nonneg_monotone thr Phi k : monotone Phi -> axis_cfg k ->
  mass_nonneg (eff_kernel Phi (gaussian_kernelM_gen thr Phi) k).
Proof.
  intros M A.
  assert (Iso : forall s, mass_nonneg (iso_kernel Phi s)) by (intros s; apply (axis_product_nonneg Phi s s M)).
  assert (Gen : forall sxx syy, mass_nonneg (gaussian_kernelM_gen thr Phi sxx 0 syy)).
  { intros sxx syy mb mp x0 x1 y0 y1 Hx Hy.
    rewrite (mass_ext _ (fun x y => Phi ((x - mb) / sqrt sxx) * Phi ((y - mp) / sqrt syy)))
      by (intros; apply gaussian_kernelM_zero_cov).
    apply (axis_product_nonneg Phi sxx syy M mb mp); assumption. }
  destruct k as [s|sxx sxy syy|K]; cbn [axis_cfg] in A; [apply Iso| |contradiction].
  subst sxy. cbn [eff_kernel]. destruct (Req_EM_T sxx syy); [destruct (Req_EM_T 0 0)|]; [apply Iso|apply Gen|apply Gen].
Qed.

Lemma image_nonneg_monotone thr Phi skew w k bp pp dgm :
  monotone Phi -> axis_cfg k -> nondecr bp -> nondecr pp ->
  (forall q, In q dgm -> 0 <= w (fst (bp_of skew q)) (snd (bp_of skew q))) ->
  Forall (Forall (fun v => 0 <= v)) (transform_one Phi (gaussian_kernelM_gen thr Phi) skew w k bp pp dgm).
Proof.
  intros M A Nb Np Hw. rewrite transform_one_spec.
  apply spec_pixels_nonneg; try assumption; [apply eff_kernel_nonneg_monotone; assumption|].
  intros pt Hpt. apply in_to_bp in Hpt. destruct Hpt as [q [I ->]]. apply Hw, I.
Qed.

Lemma image_nonneg_Phi_int thr skew w k bp pp dgm :
  axis_cfg k -> nondecr bp -> nondecr pp ->
  (forall q, In q dgm -> 0 <= w (fst (bp_of skew q)) (snd (bp_of skew q))) ->
  Forall (Forall (fun v => 0 <= v)) (transform_one Phi_int (gaussian_kernelM_gen thr Phi_int) skew w k bp pp dgm).
Proof. apply image_nonneg_monotone. exact Phi_int_mono. Qed.

(* ------------------------------------------------------------------ where the weight of one point goes *)
Lemma px_b_ordered (s : st) i : Inv s -> fst (px_b s i) <= snd (px_b s i).
Proof. intros (Hps & _). apply Qlt_Rlt in Hps. rewrite Q2R_0g in Hps. unfold px_b. cbn [fst snd]. nra. Qed.
Lemma px_p_ordered (s : st) j : Inv s -> fst (px_p s j) <= snd (px_p s j).
Proof. intros (Hps & _). apply Qlt_Rlt in Hps. rewrite Q2R_0g in Hps. unfold px_p. cbn [fst snd]. nra. Qed.

Lemma INR_gap i i' : (i + 2 <= i')%nat -> INR i + 2 <= INR i'.
Proof. intros H. apply le_INR in H. rewrite plus_INR in H. simpl in H. lra. Qed.

(* one axis: a box of width <= 2 ps around a point of pixel i misses every pixel i' with |i' - i| >= 2 *)
Lemma overlap_far lo ps x wd (i i' : nat) : 0 < ps -> 0 < wd -> wd <= 2 * ps ->
  lo + INR i * ps <= x < lo + (INR i + 1) * ps -> (i' + 2 <= i \/ i + 2 <= i')%nat ->
  overlap (x - wd / 2) (x + wd / 2) (lo + INR i' * ps) (lo + (INR i' + 1) * ps) = 0.
Proof.
  intros Hps W Wle Hx Far. apply overlap_disjoint; try nra.
  destruct Far as [F|F]; apply INR_gap in F; [left|right]; nra.
Qed.

(* uniform kernel of width, height <= 2 ps: a point of pixel (i, j) contributes nothing outside the 3 x 3 block
   around (i, j) *)
Lemma uniform_point_localised (s : st) Phi Kgauss w wd ht (pt : point) i j i' j' :
  Inv s -> 0 < wd -> 0 < ht -> wd <= 2 * Q2R (ImagerM.psz s) -> ht <= 2 * Q2R (ImagerM.psz s) ->
  fst (px_b s i) <= fst pt < snd (px_b s i) -> fst (px_p s j) <= snd pt < snd (px_p s j) ->
  (Z.of_nat i' < ImagerM.resw s)%Z -> (Z.of_nat j' < ImagerM.resh s)%Z ->
  (i' + 2 <= i \/ i + 2 <= i')%nat \/ (j' + 2 <= j \/ j + 2 <= j')%nat ->
  nth j' (nth i' (transform_one Phi Kgauss false w (OtherKernel (uniform_kernelM wd ht)) (bpntsR s) (ppntsR s) [pt]) []) 0
  = 0.
Proof.
  intros HI W H Wle Hle Cb Cp Hi Hj Far.
  destruct (image_on_state s HI Phi Kgauss false w (OtherKernel (uniform_kernelM wd ht)) [pt]) as (_ & _ & _ & P).
  rewrite (P i' j' Hi Hj). cbn [to_birth_pers map sumR fold_right eff_kernel].
  pose proof (px_b_ordered s i' HI) as Ob. pose proof (px_p_ordered s j' HI) as Op.
  pose proof HI as (Hps & _). apply Qlt_Rlt in Hps. rewrite Q2R_0g in Hps.
  unfold px_b, px_p in *. cbn [fst snd] in *.
  rewrite uniform_mass_closed by assumption.
  destruct Far as [F|F].
  - rewrite (overlap_far _ _ _ _ i i' Hps W Wle Cb F). unfold Rdiv. ring.
  - rewrite (overlap_far _ _ _ _ j j' Hps H Hle Cp F). unfold Rdiv. ring.
Qed.

(* ---- a point mass: the CDF of the unit mass at (mb, mp), continuous from the left, so that the mass of
   a rectangle is 1 iff x0 <= mb < x1 and y0 <= mp < y1 - the half-open pixels of C12's `locate` *)
Definition point_mass_cdf : kernel :=
  fun mb mp x y => (if Rlt_dec mb x then 1 else 0) * (if Rlt_dec mp y then 1 else 0).

Lemma step_diff m x0 x1 : x0 <= x1 ->
  (if Rlt_dec m x1 then 1 else 0) - (if Rlt_dec m x0 then 1 else 0)
  = if Rle_dec x0 m then (if Rlt_dec m x1 then 1 else 0) else 0.
Proof. intros H. destruct (Rlt_dec m x1), (Rlt_dec m x0), (Rle_dec x0 m); lra. Qed.

Lemma point_mass_in x0 x1 y0 y1 mb mp : x0 <= mb < x1 -> y0 <= mp < y1 ->
  mass (point_mass_cdf mb mp) (x0, x1) (y0, y1) = 1.
Proof.
  intros Hx Hy. unfold point_mass_cdf.
  rewrite (mass_product (fun x => if Rlt_dec mb x then 1 else 0) (fun y => if Rlt_dec mp y then 1 else 0)).
  cbn [fst snd]. rewrite !step_diff by lra.
  destruct (Rle_dec x0 mb), (Rlt_dec mb x1), (Rle_dec y0 mp), (Rlt_dec mp y1); lra.
Qed.

Lemma point_mass_out x0 x1 y0 y1 mb mp : x0 <= x1 -> y0 <= y1 ->
  (mb < x0 \/ x1 <= mb) \/ (mp < y0 \/ y1 <= mp) ->
  mass (point_mass_cdf mb mp) (x0, x1) (y0, y1) = 0.
Proof.
  intros Hx Hy Out. unfold point_mass_cdf.
  rewrite (mass_product (fun x => if Rlt_dec mb x then 1 else 0) (fun y => if Rlt_dec mp y then 1 else 0)).
  cbn [fst snd]. rewrite !step_diff by lra.
  destruct (Rle_dec x0 mb), (Rlt_dec mb x1), (Rle_dec y0 mp), (Rlt_dec mp y1); lra.
Qed.

Lemma INR_gap1 i i' : (i < i')%nat -> INR i + 1 <= INR i'.
Proof. intros H. apply le_INR in H. rewrite S_INR in H. exact H. Qed.

Lemma point_mass_on_state (s : st) Phi Kgauss w (x y : Q) i' j' : Inv s ->
  (ImagerM.blo s <= x)%Q -> (x < ImagerM.bhi s)%Q -> (ImagerM.plo s <= y)%Q -> (y < ImagerM.phi s)%Q ->
  (Z.of_nat i' < ImagerM.resw s)%Z -> (Z.of_nat j' < ImagerM.resh s)%Z ->
  nth j' (nth i' (transform_one Phi Kgauss false w (OtherKernel point_mass_cdf) (bpntsR s) (ppntsR s)
                    [(Q2R x, Q2R y)]) []) 0
  = if ((Z.of_nat i' =? ImagerM.locate ImagerM.QNum (ImagerM.bpnts s) x)%Z
        && (Z.of_nat j' =? ImagerM.locate ImagerM.QNum (ImagerM.ppnts s) y)%Z)%bool
    then w (Q2R x) (Q2R y) else 0.
Proof.
  intros HI A B C D Hi Hj.
  destruct (located_pixel_contains s x y HI A B C D) as (i & j & Li & _ & Lj & _ & Cb & Cp).
  rewrite Li, Lj.
  destruct (image_on_state s HI Phi Kgauss false w (OtherKernel point_mass_cdf) [(Q2R x, Q2R y)]) as (_ & _ & _ & P).
  rewrite (P i' j' Hi Hj). cbn [to_birth_pers map sumR fold_right eff_kernel fst snd].
  pose proof (px_b_ordered s i' HI) as Ob. pose proof (px_p_ordered s j' HI) as Op.
  pose proof HI as (Hps & _). apply Qlt_Rlt in Hps. rewrite Q2R_0g in Hps.
  destruct (Z.eqb_spec (Z.of_nat i') (Z.of_nat i)) as [Ei|Ei];
    [destruct (Z.eqb_spec (Z.of_nat j') (Z.of_nat j)) as [Ej|Ej]|]; cbn [andb].
  - apply Nat2Z.inj in Ei, Ej. subst i' j'.
    destruct (px_b s i) as [x0 x1], (px_p s j) as [y0 y1]. cbn [fst snd] in *.
    rewrite point_mass_in by assumption. lra.
  - assert (N : (j' < j \/ j < j')%nat) by lia.
    unfold px_b, px_p in *. cbn [fst snd] in *. rewrite point_mass_out; [lra|assumption|assumption|].
    right. destruct N as [N|N]; apply INR_gap1 in N; [right|left]; nra.
  - assert (N : (i' < i \/ i < i')%nat) by lia.
    unfold px_b, px_p in *. cbn [fst snd] in *. rewrite point_mass_out; [lra|assumption|assumption|].
    left. destruct N as [N|N]; apply INR_gap1 in N; [right|left]; nra.
Qed.
