(* C10 - the triangle inequality (Minkowski) of the landscape p-norm, every integer p >= 1.
   norm_pow p L (Spec/PNormS.v) is the p-th power of the norm: the sum over the depths of the integral of |f|^p.
   Root-free statement: ||L||^p <= A^p -> ||M||^p <= B^p -> ||S||^p <= (A+B)^p whenever S is, depth by depth and at
   every abscissa, the sum (or the difference) of L and M; and the statement with real p-th roots.
   Route: depth_pow is a Riemann integral over a common interval (PNormMinkowskiInt.v); pointwise convexity and
   monotonicity / linearity of the integral give the linear form
        ||S||^p <= (A+B)^(p-1) (||L||^p / A^(p-1) + ||M||^p / B^(p-1))    for all real A, B > 0
   (PNormMinkowskiR.v), which is summed over the depths here. *)
From Coq Require Import QArith Qabs Qreals Reals Lra Lia List.
From Coquelicot Require Import Coquelicot.
From Persim Require Import Lib.Kth Lib.PL Spec.PNormS Spec.LandscapeRealS Model.PNormM Proofs.PNormP Proofs.PNormLaws Proofs.PNormRInt
  Proofs.PNormMinkowskiR Proofs.PNormMinkowskiInt.
From Persim Require Spec.LandArithS Model.LandArithM Proofs.LandArithP.
Import ListNotations.
Open Scope R_scope.

(* ------------------------------------------------------------------ one depth *)
Lemma bounds_exist (l : list pt) : exists lo hi, lo <= hi /\ forall q, In q l -> lo <= Q2R (fst q) <= hi.
Proof. induction l as [|a r (lo & hi & LH & B)].
  - exists 0, 0. split. lra. intros q [].
  - exists (Rmin lo (Q2R (fst a))), (Rmax hi (Q2R (fst a))).
    assert (M1 := Rmin_l lo (Q2R (fst a))). assert (M2 := Rmin_r lo (Q2R (fst a))).
    assert (M3 := Rmax_l hi (Q2R (fst a))). assert (M4 := Rmax_r hi (Q2R (fst a))).
    split. lra. intros q [E|H]. subst q. lra. specialize (B q H). lra. Qed.

(* h dominated by |f| + |g| at every real abscissa: the linear form of Minkowski for one depth *)
Lemma depth_linear n (a b c : list pt) A B : incr a -> incr b -> incr c ->
  (forall t : R, Rabs (pl_evalR (map rp c) t) <= Rabs (pl_evalR (map rp a) t) + Rabs (pl_evalR (map rp b) t)) ->
  0 < A -> 0 < B ->
  Q2R (depth_pow (S n) c) <= (A + B) ^ n * (Q2R (depth_pow (S n) a) / A ^ n + Q2R (depth_pow (S n) b) / B ^ n).
Proof. intros Ia Ib Ic H PA PB.
  destruct (bounds_exist (a ++ b ++ c)) as (lo & hi & LH & Bd).
  apply (minkowski_linear (fun t => pl_evalR (map rp a) t) (fun t => pl_evalR (map rp b) t) (fun t => pl_evalR (map rp c) t) lo hi); auto.
  - apply (depth_RInt n a lo hi); auto. intros q Hq. apply Bd. apply in_or_app. left. exact Hq.
  - apply (depth_RInt n b lo hi); auto. intros q Hq. apply Bd. apply in_or_app. right. apply in_or_app. left. exact Hq.
  - apply (depth_RInt n c lo hi); auto. intros q Hq. apply Bd. apply in_or_app. right. apply in_or_app. right. exact Hq.
Qed.

Lemma dominated_of_sum (a b c : list pt) : incr a -> incr b -> incr c ->
  (forall t : Q, (pl_eval c t == pl_eval a t + pl_eval b t)%Q) ->
  forall t : R, Rabs (pl_evalR (map rp c) t) <= Rabs (pl_evalR (map rp a) t) + Rabs (pl_evalR (map rp b) t).
Proof. intros Ia Ib Ic H t. rewrite (pointwise_sum_Q_to_R a b c Ia Ib Ic H t). apply Rabs_triang. Qed.

Lemma dominated_of_diff (a b c : list pt) : incr a -> incr b -> incr c ->
  (forall t : Q, (pl_eval c t == pl_eval a t - pl_eval b t)%Q) ->
  forall t : R, Rabs (pl_evalR (map rp c) t) <= Rabs (pl_evalR (map rp a) t) + Rabs (pl_evalR (map rp b) t).
Proof. intros Ia Ib Ic H t.
  assert (H' : forall t : Q, (pl_eval a t == pl_eval c t + pl_eval b t)%Q) by (intro s; rewrite (H s); ring).
  assert (E := pointwise_sum_Q_to_R c b a Ic Ib Ia H' t).
  replace (pl_evalR (map rp c) t) with (pl_evalR (map rp a) t - pl_evalR (map rp b) t) by lra.
  unfold Rminus. eapply Rle_trans. apply Rabs_triang. rewrite Rabs_Ropp. lra. Qed.

(* the whole-depth integral, stated with p >= 1 *)
Lemma depth_pow_RInt p (l : list pt) lo hi : (1 <= p)%nat -> incr l -> lo <= hi ->
  (forall q, In q l -> lo <= Q2R (fst q) <= hi) ->
  is_RInt (fun t => Rabs (pl_evalR (map rp l) t) ^ p) lo hi (Q2R (depth_pow p l)).
Proof. intros P I LH B. destruct p as [|n]. lia. exact (depth_RInt n l lo hi I LH B). Qed.

(* ------------------------------------------------------------------ sums over the depths *)
Definition depth_at (p : nat) (L : landscape) (k : nat) : Q := depth_pow p (nth k L []).

Lemma depth_pow_nil p : depth_pow p [] = 0%Q. Proof. reflexivity. Qed.

Lemma sumQ_zeros (f : nat -> Q) ks : (forall k, (f k == 0)%Q) -> (sumQ (map f ks) == 0)%Q.
Proof. intro Z. induction ks; simpl. reflexivity. rewrite Z, IHks. ring. Qed.

Lemma norm_pow_as_seq p : forall L N, (length L <= N)%nat -> (norm_pow p L == sumQ (map (depth_at p L) (seq 0 N)))%Q.
Proof. induction L as [|l L IH]; intros N H.
  - unfold norm_pow. simpl. symmetry. apply sumQ_zeros. intro k. unfold depth_at. destruct k; reflexivity.
  - destruct N as [|N]. simpl in H. lia. simpl in H.
    change (seq 0 (S N)) with (0%nat :: seq 1 N). rewrite <- seq_shift, map_cons, map_map.
    unfold norm_pow in *. simpl. rewrite (IH N) by lia. reflexivity. Qed.

Lemma sum_linear (F G H : nat -> Q) al be ks :
  (forall k, Q2R (H k) <= al * Q2R (F k) + be * Q2R (G k)) ->
  Q2R (sumQ (map H ks)) <= al * Q2R (sumQ (map F ks)) + be * Q2R (sumQ (map G ks)).
Proof. intro P. induction ks as [|k ks IH]; simpl.
  - rewrite Q2R_0. lra.
  - rewrite !Q2R_plus. specialize (P k). lra. Qed.

Lemma incr_nth (L : landscape) k : wf L -> incr (nth k L []).
Proof. intro W. destruct (Nat.lt_ge_cases k (length L)) as [H|H].
  - unfold wf in W. rewrite Forall_forall in W. apply W. apply nth_In. exact H.
  - rewrite nth_overflow by exact H. exact I. Qed.

(* U dominated depthwise by |L| + |M| at every real abscissa; a missing depth is the zero function *)
Definition dominated (L M U : landscape) : Prop := forall (k : nat) (t : R),
  Rabs (pl_evalR (map rp (nth k U [])) t) <= Rabs (pl_evalR (map rp (nth k L [])) t) + Rabs (pl_evalR (map rp (nth k M [])) t).

Lemma norm_linear n (L M U : landscape) A B : wf L -> wf M -> wf U -> dominated L M U -> 0 < A -> 0 < B ->
  Q2R (norm_pow (S n) U) <= (A + B) ^ n * (Q2R (norm_pow (S n) L) / A ^ n + Q2R (norm_pow (S n) M) / B ^ n).
Proof. intros WL WM WS D PA PB.
  set (N := Nat.max (length L) (Nat.max (length M) (length U))).
  rewrite (Qeq_eqR _ _ (norm_pow_as_seq (S n) L N ltac:(unfold N; lia))).
  rewrite (Qeq_eqR _ _ (norm_pow_as_seq (S n) M N ltac:(unfold N; lia))).
  rewrite (Qeq_eqR _ _ (norm_pow_as_seq (S n) U N ltac:(unfold N; lia))).
  assert (An : 0 < A ^ n) by (apply pow_lt; auto). assert (Bn : 0 < B ^ n) by (apply pow_lt; auto).
  eapply Rle_trans.
  - apply (sum_linear (depth_at (S n) L) (depth_at (S n) M) (depth_at (S n) U) ((A + B) ^ n / A ^ n) ((A + B) ^ n / B ^ n)).
    intro k. unfold depth_at.
    assert (E := depth_linear n (nth k L []) (nth k M []) (nth k U []) A B (incr_nth L k WL) (incr_nth M k WM) (incr_nth U k WS) (D k) PA PB).
    eapply Rle_trans. exact E. right. field. split; lra.
  - right. field. split; lra. Qed.

(* depthwise pointwise sum / difference at every rational abscissa (evalL of Spec/LandArithS.v) *)
Definition is_sum (L M U : landscape) : Prop :=
  forall k (t : Q), (LandArithS.evalL U k t == LandArithS.evalL L k t + LandArithS.evalL M k t)%Q.
Definition is_diff (L M U : landscape) : Prop :=
  forall k (t : Q), (LandArithS.evalL U k t == LandArithS.evalL L k t - LandArithS.evalL M k t)%Q.

Lemma dominated_sum L M U : wf L -> wf M -> wf U -> is_sum L M U -> dominated L M U.
Proof. intros WL WM WS H k t. apply dominated_of_sum; try apply incr_nth; auto. intro s. apply (H k s). Qed.
Lemma dominated_diff L M U : wf L -> wf M -> wf U -> is_diff L M U -> dominated L M U.
Proof. intros WL WM WS H k t. apply dominated_of_diff; try apply incr_nth; auto. intro s. apply (H k s). Qed.

(* ------------------------------------------------------------------ the norm as a real number *)
Lemma Q2R_nonneg x : (0 <= x)%Q -> 0 <= Q2R x.
Proof. intro H. apply Qle_Rle in H. rewrite Q2R_0 in H. exact H. Qed.

(* r is the p-norm of L: the non-negative real whose p-th power is the sum of the integrals *)
Definition is_norm (p : nat) (L : landscape) (r : R) : Prop := is_root p (Q2R (norm_pow p L)) r.

Lemma norm_exists p L : (1 <= p)%nat -> wf L -> exists r, is_norm p L r /\ forall r', is_norm p L r' -> r' = r.
Proof. intros P W. destruct p as [|n]. lia.
  destruct (root_exists n (Q2R (norm_pow (S n) L))) as [r Hr]. apply Q2R_nonneg. apply norm_pow_nonneg; auto.
  exists r. split. exact Hr. intros r' Hr'. eapply root_unique; eauto. Qed.

Lemma norm_triangle_dominated p L M U rL rM rS : (1 <= p)%nat -> wf L -> wf M -> wf U -> dominated L M U ->
  is_norm p L rL -> is_norm p M rM -> is_norm p U rS -> rS <= rL + rM.
Proof. intros P WL WM WS D HL HM HS. destruct p as [|n]. lia.
  apply (roots_triangle n (Q2R (norm_pow (S n) L)) (Q2R (norm_pow (S n) M)) (Q2R (norm_pow (S n) U))); auto.
  intros A B PA PB. apply norm_linear; auto. Qed.

(* root-free form over Q *)
Lemma norm_pow_dominated p L M U (A B : Q) : (1 <= p)%nat -> wf L -> wf M -> wf U -> dominated L M U ->
  (0 <= A)%Q -> (0 <= B)%Q -> (norm_pow p L <= pw A p)%Q -> (norm_pow p M <= pw B p)%Q -> (norm_pow p U <= pw (A + B) p)%Q.
Proof. intros P WL WM WS D PA PB HL HM.
  destruct (norm_exists p L P WL) as (rL & NL & _). destruct (norm_exists p M P WM) as (rM & NM & _).
  destruct (norm_exists p U P WS) as (rS & NS & _).
  assert (T := norm_triangle_dominated p L M U rL rM rS P WL WM WS D NL NM NS).
  destruct p as [|n]. lia.
  assert (LA : rL <= Q2R A). { apply (root_le n _ _ _ NL). apply Q2R_nonneg; auto. rewrite <- Q2R_pw. apply Qle_Rle. exact HL. }
  assert (MB : rM <= Q2R B). { apply (root_le n _ _ _ NM). apply Q2R_nonneg; auto. rewrite <- Q2R_pw. apply Qle_Rle. exact HM. }
  apply Rle_Qle. rewrite Q2R_pw, Q2R_plus. destruct NS as [S0 S1]. rewrite <- S1. apply pow_incr. lra. Qed.

(* ------------------------------------------------------------------ statements for Properties/C10.v *)
Lemma minkowski_sum p L M U (A B : Q) : (1 <= p)%nat -> wf L -> wf M -> wf U -> is_sum L M U ->
  (0 <= A)%Q -> (0 <= B)%Q -> (norm_pow p L <= pw A p)%Q -> (norm_pow p M <= pw B p)%Q -> (norm_pow p U <= pw (A + B) p)%Q.
Proof. intros P WL WM WS H. apply norm_pow_dominated; auto. apply dominated_sum; auto. Qed.

Lemma minkowski_diff p L M U (A B : Q) : (1 <= p)%nat -> wf L -> wf M -> wf U -> is_diff L M U ->
  (0 <= A)%Q -> (0 <= B)%Q -> (norm_pow p L <= pw A p)%Q -> (norm_pow p M <= pw B p)%Q -> (norm_pow p U <= pw (A + B) p)%Q.
Proof. intros P WL WM WS H. apply norm_pow_dominated; auto. apply dominated_diff; auto. Qed.

Lemma minkowski_sum_R p L M U rL rM rS : (1 <= p)%nat -> wf L -> wf M -> wf U -> is_sum L M U ->
  is_norm p L rL -> is_norm p M rM -> is_norm p U rS -> rS <= rL + rM.
Proof. intros P WL WM WS H. apply norm_triangle_dominated; auto. apply dominated_sum; auto. Qed.

Lemma minkowski_diff_R p L M U rL rM rS : (1 <= p)%nat -> wf L -> wf M -> wf U -> is_diff L M U ->
  is_norm p L rL -> is_norm p M rM -> is_norm p U rS -> rS <= rL + rM.
Proof. intros P WL WM WS H. apply norm_triangle_dominated; auto. apply dominated_diff; auto. Qed.

(* one depth *)
Lemma norm_pow_single p l : (norm_pow p [l] == depth_pow p l)%Q.
Proof. unfold norm_pow. simpl. ring. Qed.

Lemma is_sum_single a b c : (forall t : Q, (pl_eval c t == pl_eval a t + pl_eval b t)%Q) -> is_sum [a] [b] [c].
Proof. intros H k t. unfold LandArithS.evalL. destruct k as [|k]. simpl. apply H.
  simpl. destruct k; simpl; ring. Qed.

Lemma minkowski_depth p a b c (A B : Q) : (1 <= p)%nat -> incr a -> incr b -> incr c ->
  (forall t : Q, (pl_eval c t == pl_eval a t + pl_eval b t)%Q) ->
  (0 <= A)%Q -> (0 <= B)%Q -> (depth_pow p a <= pw A p)%Q -> (depth_pow p b <= pw B p)%Q -> (depth_pow p c <= pw (A + B) p)%Q.
Proof. intros P Ia Ib Ic H PA PB HA HB. rewrite <- norm_pow_single in *.
  apply (minkowski_sum p [a] [b] [c]); auto; try (constructor; [assumption|constructor]). apply is_sum_single; auto. Qed.

(* ... applied to the C09 model of the sum of two depths (both variants) *)
Lemma wf_incr l : LandArithS.wf l -> incr l. Proof. intros (_ & I & _). exact I. Qed.
Lemma wfL_wf L : LandArithS.wfL L -> wf L.
Proof. intro W. unfold wf. eapply Forall_impl. 2: exact W. intros l. apply wf_incr. Qed.

Lemma minkowski_add_depth v p a b : (1 <= p)%nat -> LandArithS.wf a -> LandArithS.wf b ->
  exists c, LandArithM.add_depth v a b = Some c /\
    forall A B : Q, (0 <= A)%Q -> (0 <= B)%Q -> (depth_pow p a <= pw A p)%Q -> (depth_pow p b <= pw B p)%Q -> (depth_pow p c <= pw (A + B) p)%Q.
Proof. intros P Wa Wb. destruct (LandArithP.add_depth_wf v a b Wa Wb) as (c & E & Wc & H).
  exists c. split. exact E. intros A B. apply minkowski_depth; auto; apply wf_incr; auto. Qed.

(* ... to the C09 model of + and - on exact landscapes, with the number the C10 model of p_norm returns *)
Lemma minkowski_e_add v p X Y : (1 <= p)%nat ->
  LandArithS.wfL (LandArithM.e_cp X) -> LandArithS.wfL (LandArithM.e_cp Y) -> LandArithM.e_deg X = LandArithM.e_deg Y ->
  exists R nx ny nr, LandArithM.e_add v X Y = LandArithM.Ok R /\
    norm_pow_m p (LandArithM.e_cp X) = Some nx /\ norm_pow_m p (LandArithM.e_cp Y) = Some ny /\
    norm_pow_m p (LandArithM.e_cp R) = Some nr /\
    forall A B : Q, (0 <= A)%Q -> (0 <= B)%Q -> (nx <= pw A p)%Q -> (ny <= pw B p)%Q -> (nr <= pw (A + B) p)%Q.
Proof. intros P WX WY D.
  destruct (LandArithP.e_add_pointwise v X Y WX WY D) as (R & E & _ & WR & _ & H).
  destruct (norm_pow_m_correct p (LandArithM.e_cp X) P) as (nx & EX & VX).
  destruct (norm_pow_m_correct p (LandArithM.e_cp Y) P) as (ny & EY & VY).
  destruct (norm_pow_m_correct p (LandArithM.e_cp R) P) as (nr & ER & VR).
  exists R, nx, ny, nr. repeat (split; [assumption|]). intros A B PA PB HA HB. rewrite VR. rewrite VX in HA. rewrite VY in HB.
  apply (minkowski_sum p (LandArithM.e_cp X) (LandArithM.e_cp Y)); auto; apply wfL_wf; auto. Qed.

Lemma minkowski_e_sub v p X Y : (1 <= p)%nat ->
  LandArithS.wfL (LandArithM.e_cp X) -> LandArithS.wfL (LandArithM.e_cp Y) -> LandArithM.e_deg X = LandArithM.e_deg Y ->
  exists R nx ny nr, LandArithM.e_sub v X Y = LandArithM.Ok R /\
    norm_pow_m p (LandArithM.e_cp X) = Some nx /\ norm_pow_m p (LandArithM.e_cp Y) = Some ny /\
    norm_pow_m p (LandArithM.e_cp R) = Some nr /\
    forall A B : Q, (0 <= A)%Q -> (0 <= B)%Q -> (nx <= pw A p)%Q -> (ny <= pw B p)%Q -> (nr <= pw (A + B) p)%Q.
Proof. intros P WX WY D.
  destruct (LandArithP.e_sub_pointwise v X Y WX WY D) as (R & E & _ & WR & _ & H).
  destruct (norm_pow_m_correct p (LandArithM.e_cp X) P) as (nx & EX & VX).
  destruct (norm_pow_m_correct p (LandArithM.e_cp Y) P) as (ny & EY & VY).
  destruct (norm_pow_m_correct p (LandArithM.e_cp R) P) as (nr & ER & VR).
  exists R, nx, ny, nr. repeat (split; [assumption|]). intros A B PA PB HA HB. rewrite VR. rewrite VX in HA. rewrite VY in HB.
  apply (minkowski_diff p (LandArithM.e_cp X) (LandArithM.e_cp Y)); auto; apply wfL_wf; auto. Qed.

(* the distance d(X, Y) = || X - Y ||_p satisfies d(X, Z) <= d(X, Y) + d(Y, Z) *)
Lemma distance_triangle v p X Y Z : (1 <= p)%nat ->
  LandArithS.wfL (LandArithM.e_cp X) -> LandArithS.wfL (LandArithM.e_cp Y) -> LandArithS.wfL (LandArithM.e_cp Z) ->
  LandArithM.e_deg X = LandArithM.e_deg Y -> LandArithM.e_deg Y = LandArithM.e_deg Z ->
  exists XY YZ XZ dxy dyz dxz,
    LandArithM.e_sub v X Y = LandArithM.Ok XY /\ LandArithM.e_sub v Y Z = LandArithM.Ok YZ /\ LandArithM.e_sub v X Z = LandArithM.Ok XZ /\
    norm_pow_m p (LandArithM.e_cp XY) = Some dxy /\ norm_pow_m p (LandArithM.e_cp YZ) = Some dyz /\
    norm_pow_m p (LandArithM.e_cp XZ) = Some dxz /\
    (forall A B : Q, (0 <= A)%Q -> (0 <= B)%Q -> (dxy <= pw A p)%Q -> (dyz <= pw B p)%Q -> (dxz <= pw (A + B) p)%Q) /\
    (forall r1 r2 r3, is_root p (Q2R dxy) r1 -> is_root p (Q2R dyz) r2 -> is_root p (Q2R dxz) r3 -> r3 <= r1 + r2).
Proof. intros P WX WY WZ D1 D2.
  destruct (LandArithP.e_sub_pointwise v X Y WX WY D1) as (XY & E1 & _ & W1 & _ & H1).
  destruct (LandArithP.e_sub_pointwise v Y Z WY WZ D2) as (YZ & E2 & _ & W2 & _ & H2).
  destruct (LandArithP.e_sub_pointwise v X Z WX WZ ltac:(congruence)) as (XZ & E3 & _ & W3 & _ & H3).
  destruct (norm_pow_m_correct p (LandArithM.e_cp XY) P) as (dxy & EX & VX).
  destruct (norm_pow_m_correct p (LandArithM.e_cp YZ) P) as (dyz & EY & VY).
  destruct (norm_pow_m_correct p (LandArithM.e_cp XZ) P) as (dxz & ER & VR).
  exists XY, YZ, XZ, dxy, dyz, dxz. repeat (split; [assumption|]).
  assert (SUM : is_sum (LandArithM.e_cp XY) (LandArithM.e_cp YZ) (LandArithM.e_cp XZ)).
  { intros k t. rewrite H1, H2, H3. ring. }
  split.
  - intros A B PA PB HA HB. rewrite VR. rewrite VX in HA. rewrite VY in HB.
    apply (minkowski_sum p (LandArithM.e_cp XY) (LandArithM.e_cp YZ)); auto; apply wfL_wf; auto.
  - intros r1 r2 r3 R1 R2 R3. rewrite (Qeq_eqR _ _ VX) in R1. rewrite (Qeq_eqR _ _ VY) in R2. rewrite (Qeq_eqR _ _ VR) in R3.
    apply (minkowski_sum_R p (LandArithM.e_cp XY) (LandArithM.e_cp YZ) (LandArithM.e_cp XZ)); auto; apply wfL_wf; auto. Qed.
