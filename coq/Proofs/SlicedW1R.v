(* C15: sliced Wasserstein <= 2 * (Euclidean 1-Wasserstein distance), against the real-valued
   specification Spec/WassersteinS.v.  The rational theorem sw_le_twice_euclid_matching (any rational
   upper bounds d, dd of the Euclidean / perpendicular distances) is instantiated, for every n, with
   bounds that are within 1/n of the true distances (built with `up`, no choice), transported to R,
   and n is sent to infinity. *)
From Coq Require Import QArith Qabs Qreals Reals List Permutation Lia Lra Psatz.
From Persim Require Import Spec.PartialMatching Spec.WassersteinS Spec.LandscapeRealS
  Lib.PMatchLemmas Lib.AugMatching Model.SlicedM Proofs.SlicedP.
Import ListNotations.

(* ---------- rational upper approximations of a real ---------- *)
Definition qup (n : positive) (x : R) : Q := (up (x * IZR (Zpos n)) # n)%Q.

Lemma qup_spec n x : (x <= Q2R (qup n x) <= x + / IZR (Zpos n))%R.
Proof. unfold qup, Q2R. cbn [Qnum Qden]. set (N := IZR (Zpos n)).
  assert (HN : (0 < N)%R) by (unfold N; apply IZR_lt; lia).
  destruct (archimed (x * N)) as [A1 A2]. set (z := IZR (up (x * N))) in *.
  assert (HI : (0 < / N)%R) by (apply Rinv_0_lt_compat; exact HN).
  assert (E : (x = x * N * / N)%R) by (field; lra).
  split.
  - rewrite E at 1. apply Rmult_le_compat_r; lra.
  - assert ((z * / N <= (x * N + 1) * / N)%R) by (apply Rmult_le_compat_r; lra).
    assert (((x * N + 1) * / N = x + / N)%R) by (field; lra). lra. Qed.

Lemma Q2R_0' : Q2R 0 = 0%R.
Proof. unfold Q2R. simpl. lra. Qed.
Lemma Q2R_half : Q2R (1#2) = (/ 2)%R.
Proof. unfold Q2R. simpl. lra. Qed.

Lemma qup_sqrt_bounds n (x : Q) : (0 <= x)%Q ->
  (0 <= qup n (sqrt (Q2R x)))%Q /\ (x <= qup n (sqrt (Q2R x)) * qup n (sqrt (Q2R x)))%Q.
Proof. intros Hx. destruct (qup_spec n (sqrt (Q2R x))) as [L _].
  pose proof (sqrt_pos (Q2R x)) as S0.
  assert (X0 : (0 <= Q2R x)%R) by (rewrite <- Q2R_0'; apply Qle_Rle; exact Hx).
  split; apply Rle_Qle.
  - rewrite Q2R_0'. lra.
  - rewrite Q2R_mult. rewrite <- (sqrt_sqrt (Q2R x) X0) at 1.
    apply Rmult_le_compat; lra. Qed.

Definition dE (n : positive) (p q : pt) : Q := qup n (sqrt (Q2R (sqd p q))).
Definition ddsq (p : pt) : Q := ((snd p - fst p) * (snd p - fst p) * (1#2))%Q.
Definition ddE (n : positive) (p : pt) : Q := qup n (sqrt (Q2R (ddsq p))).

Lemma sqd_nonneg p q : (0 <= sqd p q)%Q.
Proof. unfold sqd. pose proof (sq_nonneg (fst p - fst q)). pose proof (sq_nonneg (snd p - snd q)). lra. Qed.
Lemma ddsq_nonneg p : (0 <= ddsq p)%Q.
Proof. unfold ddsq. pose proof (sq_nonneg (snd p - fst p)). lra. Qed.

Lemma euclid_bounds_approx n : euclid_bounds (dE n) (ddE n).
Proof. split.
  - intros p q. apply qup_sqrt_bounds, sqd_nonneg.
  - intros p. apply (qup_sqrt_bounds n (ddsq p)), ddsq_nonneg. Qed.

Lemma sqrt_sqd p q : sqrt (Q2R (sqd p q)) = euclid (rp p) (rp q).
Proof. unfold sqd, euclid, rp. cbn [fst snd]. f_equal.
  rewrite Q2R_plus, !Q2R_mult, !Q2R_minus. reflexivity. Qed.

Lemma sqrt_ddsq p : (fst p <= snd p)%Q -> sqrt (Q2R (ddsq p)) = diagW (rp p).
Proof. intros H. apply Qle_Rle in H. unfold ddsq, diagW, rp. cbn [fst snd].
  rewrite !Q2R_mult, !Q2R_minus, Q2R_half.
  set (b := Q2R (fst p)) in *. set (d := Q2R (snd p)) in *.
  assert (S2 : (0 < sqrt 2)%R) by (apply sqrt_lt_R0; lra).
  assert (SS : (sqrt 2 * sqrt 2 = 2)%R) by (apply sqrt_sqrt; lra).
  apply sqrt_lem_1.
  - assert (0 <= (d - b) * (d - b))%R by nra. lra.
  - unfold Rdiv. apply Rmult_le_pos. lra. apply Rlt_le, Rinv_0_lt_compat; exact S2.
  - unfold Rdiv. replace ((d - b) * / sqrt 2 * ((d - b) * / sqrt 2))%R
      with ((d - b) * (d - b) * / (sqrt 2 * sqrt 2))%R by (field; lra).
    rewrite SS. reflexivity. Qed.

Lemma dE_le n p q : (Q2R (dE n p q) <= euclid (rp p) (rp q) + / IZR (Zpos n))%R.
Proof. unfold dE. rewrite <- sqrt_sqd. apply qup_spec. Qed.
Lemma ddE_le n p : (fst p <= snd p)%Q -> (Q2R (ddE n p) <= diagW (rp p) + / IZR (Zpos n))%R.
Proof. intros H. unfold ddE. rewrite <- (sqrt_ddsq p H). apply qup_spec. Qed.

(* ---------- sums ---------- *)
Lemma sumRl_app' a b : sumRl (a ++ b) = (sumRl a + sumRl b)%R.
Proof. induction a as [|x a IH]; simpl. lra. rewrite IH. lra. Qed.

Lemma Q2R_qsum {A} (f : A -> Q) l : Q2R (qsum (map f l)) = sumRl (map (fun x => Q2R (f x)) l).
Proof. induction l as [|x l IH]; simpl. apply Q2R_0'. rewrite Q2R_plus. fold (qsum (map f l)). rewrite IH. reflexivity. Qed.

Lemma sumRl_le_eps {A} (f g : A -> R) (e : R) l : (forall x, In x l -> (f x <= g x + e)%R) ->
  (sumRl (map f l) <= sumRl (map g l) + INR (length l) * e)%R.
Proof. induction l as [|x l IH]; intros H.
  - simpl. lra.
  - cbn [map sumRl fold_right]. fold (sumRl (map f l)). fold (sumRl (map g l)).
    change (length (x :: l)) with (S (length l)). rewrite S_INR.
    assert (f x <= g x + e)%R by (apply H; simpl; auto).
    assert (sumRl (map f l) <= sumRl (map g l) + INR (length l) * e)%R by (apply IH; intros; apply H; simpl; auto).
    lra. Qed.

Lemma sumRl_nonneg {A} (f : A -> R) l : (forall x, In x l -> (0 <= f x)%R) -> (0 <= sumRl (map f l))%R.
Proof. induction l as [|x l IH]; intros H; simpl. lra.
  assert (0 <= f x)%R by (apply H; simpl; auto).
  assert (0 <= sumRl (map f l))%R by (apply IH; intros; apply H; simpl; auto).
  unfold sumRl in *. lra. Qed.

(* ---------- a partial matching on indices as a decomposition of the two point lists ---------- *)
Definition q0 : pt := (0%Q, 0%Q).
Lemma rp_q0 : rp q0 = (0%R, 0%R).
Proof. unfold rp, q0. cbn [fst snd]. rewrite Q2R_0'. reflexivity. Qed.

Definition Mt_of (P1 P2 : list pt) (m : pmatching) : list (pt * pt) :=
  map (fun ij => (nth (fst ij) P1 q0, nth (snd ij) P2 q0)) m.
Definition U_of (P : list pt) (used : list nat) : list pt :=
  map (fun i => nth i P q0) (unmatched used (length P)).

Lemma decomp_perm (P : list pt) used : NoDup used -> (forall i, In i used -> (i < length P)%nat) ->
  Permutation P (map (fun i => nth i P q0) used ++ U_of P used).
Proof. intros ND B. unfold U_of. rewrite <- map_app.
  rewrite <- (map_nth_seq P q0) at 1. apply Permutation_map. apply Permutation_sym.
  apply unmatched_perm; assumption. Qed.

Lemma decomp_l P1 P2 m : valid_pm (length P1) (length P2) m ->
  Permutation P1 (map fst (Mt_of P1 P2 m) ++ U_of P1 (map fst m)).
Proof. intros [N1 [N2 B]]. unfold Mt_of. rewrite map_map. cbn [fst].
  rewrite <- (map_map fst (fun i => nth i P1 q0)). apply decomp_perm. exact N1.
  intros i I. apply in_map_iff in I. destruct I as [p [<- I]]. apply B; exact I. Qed.

Lemma decomp_r P1 P2 m : valid_pm (length P1) (length P2) m ->
  Permutation P2 (map snd (Mt_of P1 P2 m) ++ U_of P2 (map snd m)).
Proof. intros [N1 [N2 B]]. unfold Mt_of. rewrite map_map. cbn [snd].
  rewrite <- (map_map snd (fun i => nth i P2 q0)). apply decomp_perm. exact N2.
  intros i I. apply in_map_iff in I. destruct I as [p [<- I]]. apply B; exact I. Qed.

Lemma nth_rp P i : nth i (map rp P) (0%R, 0%R) = rp (nth i P q0).
Proof. rewrite <- rp_q0. apply map_nth. Qed.

Lemma wcost_decomp P1 P2 m :
  wcost (map rp P1) (map rp P2) m =
  (sumRl (map (fun pq : pt * pt => euclid (rp (fst pq)) (rp (snd pq))) (Mt_of P1 P2 m))
   + sumRl (map (fun p : pt => diagW (rp p)) (U_of P1 (map fst m)))
   + sumRl (map (fun p : pt => diagW (rp p)) (U_of P2 (map snd m))))%R.
Proof. unfold wcost, wcosts, pm_costs, unmatched_l, unmatched_r, Mt_of, U_of.
  rewrite !sumRl_app', !map_length, !map_map. cbn [fst snd].
  rewrite Rplus_assoc. f_equal; [|f_equal].
  - f_equal. apply map_ext. intros p. rewrite !nth_rp. reflexivity.
  - f_equal. apply map_ext. intros i. rewrite nth_rp. reflexivity.
  - f_equal. apply map_ext. intros i. rewrite nth_rp. reflexivity. Qed.

(* ---------- a real number below b + K/n for every n is below b ---------- *)
Lemma le_of_all_inv a b K : (0 <= K)%R -> (forall n : positive, (a <= b + K * / IZR (Zpos n))%R) -> (a <= b)%R.
Proof. intros HK H. destruct (Rle_dec a b) as [L|L]; [exact L|]. exfalso.
  assert (He : (0 < a - b)%R) by lra. set (e := (a - b)%R) in *.
  set (r := ((K + 1) / e)%R).
  assert (Hr : (0 < r)%R) by (unfold r; apply Rdiv_lt_0_compat; lra).
  destruct (archimed r) as [A1 _].
  assert (Hz : (0 < up r)%Z) by (apply lt_IZR; lra).
  specialize (H (Z.to_pos (up r))). rewrite Z2Pos.id in H by exact Hz.
  set (z := IZR (up r)) in *.
  assert (Hzp : (0 < z)%R) by lra.
  assert (K * / z < e)%R.
  { apply Rmult_lt_reg_r with z. exact Hzp.
    replace (K * / z * z)%R with K by (field; lra).
    assert (r * e = K + 1)%R by (unfold r; field; lra).
    assert (r * e < z * e)%R by (apply Rmult_lt_compat_r; lra). lra. }
  unfold e in *. lra. Qed.

(* ---------- the theorem ---------- *)
Lemma sw_le_mcost_R (dirs : list dir) (P1 P2 : list pt) (m : pmatching) (n : positive) :
  dirs <> [] -> (forall u, In u dirs -> in_disc u) ->
  (forall p, In p P1 -> (fst p <= snd p)%Q) -> (forall p, In p P2 -> (fst p <= snd p)%Q) ->
  valid_for (map rp P1) (map rp P2) m ->
  (Q2R (sw dirs P1 P2) <= 2 * wcost (map rp P1) (map rp P2) m
     + (2 * INR (length (Mt_of P1 P2 m)) + INR (length (U_of P1 (map fst m))) + INR (length (U_of P2 (map snd m))))
       * / IZR (Zpos n))%R.
Proof. intros NE HD W1 W2 V. unfold valid_for in V. rewrite !map_length in V.
  pose proof (decomp_l P1 P2 m V) as Q1. pose proof (decomp_r P1 P2 m V) as Q2.
  set (Mt := Mt_of P1 P2 m) in *. set (U1 := U_of P1 (map fst m)) in *. set (U2 := U_of P2 (map snd m)) in *.
  pose proof (sw_le_twice_euclid_matching dirs (dE n) (ddE n) Mt U1 U2 P1 P2 NE HD (euclid_bounds_approx n) Q1 Q2) as H.
  apply Qle_Rle in H. unfold mcost in H. rewrite !Q2R_plus, Q2R_mult, !Q2R_qsum in H.
  assert (E2 : Q2R 2 = 2%R) by (unfold Q2R; simpl; lra). rewrite E2 in H.
  set (e := (/ IZR (Zpos n))%R) in *.
  assert (IU1 : forall p, In p U1 -> In p P1).
  { intros p I. apply (Permutation_in _ (Permutation_sym Q1)). apply in_or_app. right. exact I. }
  assert (IU2 : forall p, In p U2 -> In p P2).
  { intros p I. apply (Permutation_in _ (Permutation_sym Q2)). apply in_or_app. right. exact I. }
  pose proof (sumRl_le_eps (fun pq : pt * pt => Q2R (dE n (fst pq) (snd pq)))
                (fun pq : pt * pt => euclid (rp (fst pq)) (rp (snd pq))) e Mt (fun pq _ => dE_le n (fst pq) (snd pq))) as A.
  pose proof (sumRl_le_eps (fun p : pt => Q2R (ddE n p)) (fun p : pt => diagW (rp p)) e U1
                (fun p I => ddE_le n p (W1 p (IU1 p I)))) as B.
  pose proof (sumRl_le_eps (fun p : pt => Q2R (ddE n p)) (fun p : pt => diagW (rp p)) e U2
                (fun p I => ddE_le n p (W2 p (IU2 p I)))) as C.
  assert (DN : forall p : pt, (fst p <= snd p)%Q -> (0 <= diagW (rp p))%R).
  { intros p Hp. rewrite <- (sqrt_ddsq p Hp). apply sqrt_pos. }
  assert (B0 : (0 <= sumRl (map (fun p : pt => diagW (rp p)) U1))%R)
    by (apply sumRl_nonneg; intros p I; apply DN, W1, IU1, I).
  assert (C0 : (0 <= sumRl (map (fun p : pt => diagW (rp p)) U2))%R)
    by (apply sumRl_nonneg; intros p I; apply DN, W2, IU2, I).
  rewrite wcost_decomp. fold Mt U1 U2. cbv beta in *. lra. Qed.

Lemma sw_le_twice_wasserstein_R (dirs : list dir) (P1 P2 : list pt) (v : R) :
  dirs <> [] -> (forall u, In u dirs -> (fst u * fst u + snd u * snd u <= 1)%Q) ->
  (forall p, In p P1 -> (fst p <= snd p)%Q) -> (forall p, In p P2 -> (fst p <= snd p)%Q) ->
  is_wasserstein (map rp P1) (map rp P2) v -> (Q2R (sw dirs P1 P2) <= 2 * v)%R.
Proof. intros NE HD W1 W2 [[m [V <-]] _].
  apply le_of_all_inv with
    (K := (2 * INR (length (Mt_of P1 P2 m)) + INR (length (U_of P1 (map fst m))) + INR (length (U_of P2 (map snd m))))%R).
  - pose proof (pos_INR (length (Mt_of P1 P2 m))). pose proof (pos_INR (length (U_of P1 (map fst m)))).
    pose proof (pos_INR (length (U_of P2 (map snd m)))). lra.
  - intros n. apply sw_le_mcost_R; assumption. Qed.

(* the bound holds against the cost of EVERY valid partial matching, not only the optimal one *)
Lemma sw_le_twice_wcost (dirs : list dir) (P1 P2 : list pt) (m : pmatching) :
  dirs <> [] -> (forall u, In u dirs -> (fst u * fst u + snd u * snd u <= 1)%Q) ->
  (forall p, In p P1 -> (fst p <= snd p)%Q) -> (forall p, In p P2 -> (fst p <= snd p)%Q) ->
  valid_for (map rp P1) (map rp P2) m -> (Q2R (sw dirs P1 P2) <= 2 * wcost (map rp P1) (map rp P2) m)%R.
Proof. intros NE HD W1 W2 V.
  apply le_of_all_inv with
    (K := (2 * INR (length (Mt_of P1 P2 m)) + INR (length (U_of P1 (map fst m))) + INR (length (U_of P2 (map snd m))))%R).
  - pose proof (pos_INR (length (Mt_of P1 P2 m))). pose proof (pos_INR (length (U_of P1 (map fst m)))).
    pose proof (pos_INR (length (U_of P2 (map snd m)))). lra.
  - intros n. apply sw_le_mcost_R; assumption. Qed.
