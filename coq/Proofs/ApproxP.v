(* C08 - lemmas about Model/ApproxM.v: argmin / snapping, the ramp loops, Lipschitz facts for tents and
   k-th largest values, the half-step bound, vectorize, the transformer, the death vector. *)
From Coq Require Import QArith Qabs Qminmax Lqa List Bool Arith ZArith Lia Permutation Sorting.Sorted.
From Persim Require Import Lib.Kth Lib.PL Proofs.SweepStep Model.ApproxM.
Import ListNotations.
Open Scope Q_scope.

(* ==================== part B ==================== *)
(* ---- argmin returns an index of a minimum, the first one ---- *)
Lemma argmin_go_ok (full : list Q) d : forall r pre best bv,
  full = pre ++ r -> (best < length pre)%nat -> nth best full d = bv ->
  (forall j, (j < length pre)%nat -> bv <= nth j full d) ->
  (forall j, (j < best)%nat -> bv < nth j full d) ->
  let a := argmin_go r (length pre) best bv in
  (a < length full)%nat /\ (forall j, (j < length full)%nat -> nth a full d <= nth j full d)
  /\ (forall j, (j < a)%nat -> nth a full d < nth j full d).
Proof.
  induction r as [|v r IH]; intros pre best bv E B N M F; simpl.
  - rewrite app_nil_r in E. subst full. rewrite N. auto.
  - assert (L : length (pre ++ [v]) = S (length pre)) by (rewrite app_length; simpl; lia).
    assert (E' : full = (pre ++ [v]) ++ r) by (rewrite <- app_assoc; exact E).
    assert (V : nth (length pre) full d = v).
    { rewrite E. rewrite app_nth2 by lia. replace (length pre - length pre)%nat with O by lia. reflexivity. }
    destruct (Qlt_bool v bv) eqn:C.
    + apply Qlt_bool_iff in C. rewrite <- L. apply IH; auto.
      * lia.
      * intros j Hj. rewrite L in Hj. destruct (Nat.eq_dec j (length pre)) as [->|]. rewrite V. lra.
        assert (bv <= nth j full d) by (apply M; lia). lra.
      * intros j Hj. assert (bv <= nth j full d) by (apply M; lia). lra.
    + apply Qlt_bool_false in C. rewrite <- L. apply IH; auto.
      * lia.
      * intros j Hj. rewrite L in Hj. destruct (Nat.eq_dec j (length pre)) as [->|]. rewrite V. lra.
        apply M; lia.
Qed.

Lemma argmin_ok l d : l <> [] ->
  (argmin l < length l)%nat /\ (forall j, (j < length l)%nat -> nth (argmin l) l d <= nth j l d)
  /\ (forall j, (j < argmin l)%nat -> nth (argmin l) l d < nth j l d).
Proof. destruct l as [|v r]. congruence. intros _. unfold argmin.
  apply (argmin_go_ok (v :: r) d r [v] O v); auto; simpl.
  - intros j Hj. assert (j = O) by lia. subst. simpl. lra.
  - intros j Hj. lia. Qed.

(* ---- the grid ---- *)
Lemma grid_length s e n : length (grid s e n) = n.
Proof. unfold grid. rewrite map_length, seq_length. auto. Qed.
Lemma grid_nth s e n i : (i < n)%nat -> nth i (grid s e n) 0 = node s e n i.
Proof. intro H. unfold grid. rewrite (nth_indep _ 0 (node s e n O)) by (rewrite map_length, seq_length; auto).
  rewrite map_nth, seq_nth by auto. reflexivity. Qed.

Lemma qnat_S i : qnat (S i) == qnat i + 1.
Proof. unfold qnat. rewrite Nat2Z.inj_succ. unfold Z.succ. rewrite inject_Z_plus. reflexivity. Qed.
Lemma qnat_0 : qnat 0 == 0. Proof. reflexivity. Qed.
Lemma qnat_nonneg i : 0 <= qnat i.
Proof. unfold qnat. change 0 with (inject_Z 0). rewrite <- Zle_Qle. lia. Qed.
Lemma qnat_le i j : (i <= j)%nat -> qnat i <= qnat j.
Proof. intro. unfold qnat. rewrite <- Zle_Qle. lia. Qed.
Lemma qnat_lt i j : (i < j)%nat -> qnat i + 1 <= qnat j.
Proof. intro. rewrite <- qnat_S. apply qnat_le. lia. Qed.
Lemma qnat_sub i j : (j <= i)%nat -> qnat (i - j) == qnat i - qnat j.
Proof. intro. unfold qnat. rewrite Nat2Z.inj_sub by auto. unfold Z.sub. rewrite inject_Z_plus, inject_Z_opp. ring. Qed.

Lemma step_eq s e n : step s e n == (e - s) / (qnat n - 1).
Proof. unfold step. apply Qred_correct. Qed.
Lemma node_eq s e n i : node s e n i == s + qnat i * step s e n.
Proof. unfold node. apply Qred_correct. Qed.
Lemma step_pos s e n : (2 <= n)%nat -> s < e -> 0 < step s e n.
Proof. intros Hn H. rewrite step_eq. apply Qlt_shift_div_l.
  pose proof (qnat_lt 1 n Hn). change (qnat 1) with 1 in H0. lra. lra. Qed.
Lemma node_last s e n : (2 <= n)%nat -> node s e n (n - 1) == e.
Proof. intro Hn. rewrite node_eq, step_eq. rewrite qnat_sub by lia. change (qnat 1) with 1. field.
  pose proof (qnat_lt 1 n Hn). change (qnat 1) with 1 in H. lra. Qed.
Lemma node_diff s e n i j : node s e n i - node s e n j == (qnat i - qnat j) * step s e n.
Proof. rewrite !node_eq. ring. Qed.

(* every point of [g_0, g_m] is within half a step of some node *)
Lemma cover s st x : 0 <= st -> forall m, s <= x <= s + qnat m * st ->
  exists i, (i <= m)%nat /\ Qabs (s + qnat i * st - x) <= st * (1#2).
Proof. intros Hst. induction m as [|m IH]; intros [L U].
  - exists O. split; auto. apply Qabs_Qle_condition. rewrite qnat_0 in *. lra.
  - rewrite qnat_S in U. destruct (Qlt_le_dec (s + qnat m * st) x) as [G|G].
    + destruct (Qlt_le_dec x (s + qnat m * st + st * (1#2))) as [A|A].
      * exists m. split; auto. apply Qabs_Qle_condition. lra.
      * exists (S m). split; auto. apply Qabs_Qle_condition. rewrite qnat_S. lra.
    + destruct (IH (conj L G)) as [i [Hi Hb]]. exists i. split; auto. Qed.

Lemma snap_idx_ok s e n x : (1 <= n)%nat ->
  let a := snap_idx (grid s e n) x in
  (a < n)%nat /\ (forall j, (j < n)%nat -> Qabs (node s e n a - x) <= Qabs (node s e n j - x))
  /\ (forall j, (j < a)%nat -> Qabs (node s e n a - x) < Qabs (node s e n j - x)).
Proof. intros Hn a.
  set (l := map (fun g => Qabs (g - x)) (grid s e n)).
  assert (Ll : length l = n) by (unfold l; rewrite map_length, grid_length; auto).
  assert (NE : l <> []) by (intro Z; rewrite Z in Ll; simpl in Ll; lia).
  assert (NT : forall j, (j < n)%nat -> nth j l (Qabs (0 - x)) = Qabs (node s e n j - x)).
  { intros j Hj. unfold l. rewrite (map_nth (fun g => Qabs (g - x))). rewrite grid_nth by auto. reflexivity. }
  destruct (argmin_ok l (Qabs (0 - x)) NE) as [A [B C]]. fold (snap_idx (grid s e n) x) in *.
  unfold snap_idx in a. fold l in a. fold a in A, B, C. rewrite Ll in *.
  split; [exact A|]. split.
  - intros j Hj. rewrite <- !NT by auto. apply B; auto.
  - intros j Hj. rewrite <- !NT by lia. apply C; auto. Qed.

Lemma snap_half_step_P s e n x : (2 <= n)%nat -> s < e -> s <= x <= e ->
  Qabs (node s e n (snap_idx (grid s e n) x) - x) <= step s e n * (1#2).
Proof. intros Hn Hse Hx.
  destruct (snap_idx_ok s e n x ltac:(lia)) as [A [B _]].
  pose proof (step_pos s e n Hn Hse) as SP.
  destruct (cover s (step s e n) x ltac:(lra) (n - 1)%nat) as [i [Hi Hb]].
  { pose proof (node_last s e n Hn) as NL. rewrite node_eq in NL. lra. }
  specialize (B i ltac:(lia)). pose proof (node_eq s e n i) as NE. pose proof (node_eq s e n (snap_idx (grid s e n) x)) as NA.
  apply Qabs_Qle_condition. apply Qabs_Qle_condition in Hb.
  assert (Hc : Qabs (node s e n i - x) <= step s e n * (1#2)) by (apply Qabs_Qle_condition; lra).
  assert (Hd : Qabs (node s e n (snap_idx (grid s e n) x) - x) <= step s e n * (1#2)) by lra.
  apply Qabs_Qle_condition in Hd. lra. Qed.

(* ---- the dictionary gives back the index (the nodes are pairwise different when step > 0) ---- *)
Lemma fold_dict_app (ax : list Q) v l1 l2 acc :
  fold_left (fun acc j => if Qeq_bool (nth j ax 0) v then Some j else acc) (l1 ++ l2) acc =
  fold_left (fun acc j => if Qeq_bool (nth j ax 0) v then Some j else acc) l2
    (fold_left (fun acc j => if Qeq_bool (nth j ax 0) v then Some j else acc) l1 acc).
Proof. apply fold_left_app. Qed.

Lemma dict_get_inj (ax : list Q) i : (i < length ax)%nat ->
  (forall j k, (j < k < length ax)%nat -> nth j ax 0 < nth k ax 0) ->
  dict_get ax (nth i ax 0) = Some i.
Proof. intros Hi Inc. unfold dict_get.
  assert (G : forall m, (m <= length ax)%nat ->
    fold_left (fun acc j => if Qeq_bool (nth j ax 0) (nth i ax 0) then Some j else acc) (seq 0 m) None
    = if (i <? m)%nat then Some i else None).
  { induction m as [|m IH]; intro Hm. reflexivity.
    rewrite seq_S, fold_left_app, IH by lia. simpl.
    destruct (Nat.eq_dec i m) as [->|NE].
    - replace (m <? S m)%nat with true by (symmetry; apply Nat.ltb_lt; lia).
      replace (Qeq_bool (nth m ax 0) (nth m ax 0)) with true by (symmetry; apply Qeq_bool_iff; reflexivity). reflexivity.
    - replace (Qeq_bool (nth m ax 0) (nth i ax 0)) with false.
      + destruct (i <? m)%nat eqn:A, (i <? S m)%nat eqn:B; auto.
        apply Nat.ltb_lt in A. apply Nat.ltb_ge in B. lia.
        apply Nat.ltb_ge in A. apply Nat.ltb_lt in B. lia.
      + symmetry. destruct (Qeq_bool (nth m ax 0) (nth i ax 0)) eqn:Q; auto. apply Qeq_bool_iff in Q.
        destruct (Nat.lt_ge_cases i m).
        * pose proof (Inc i m ltac:(lia)). lra.
        * pose proof (Inc m i ltac:(lia)). lra. }
  rewrite G by lia. replace (i <? length ax)%nat with true; auto. symmetry. apply Nat.ltb_lt. auto. Qed.

Lemma grid_increasing s e n : (2 <= n)%nat -> s < e ->
  forall j k, (j < k < length (grid s e n))%nat -> nth j (grid s e n) 0 < nth k (grid s e n) 0.
Proof. intros Hn Hse j k H. rewrite grid_length in H. rewrite !grid_nth by lia.
  pose proof (step_pos s e n Hn Hse). pose proof (node_diff s e n k j). pose proof (qnat_lt j k ltac:(lia)).
  assert (0 < (qnat k - qnat j) * step s e n). { apply Qmult_lt_0_compat; lra. } lra. Qed.

Lemma ind_is_snap s e n x : (2 <= n)%nat -> s < e -> ind (grid s e n) x = snap_idx (grid s e n) x.
Proof. intros Hn Hse. unfold ind, snap_val.
  destruct (snap_idx_ok s e n x ltac:(lia)) as [A _].
  rewrite dict_get_inj. reflexivity. rewrite grid_length; auto. apply grid_increasing; auto. Qed.

(* ==================== part D ==================== *)
Lemma Qabs_le_iff x e : Qabs x <= e <-> - e <= x <= e.
Proof. apply Qabs_Qle_condition. Qed.

(* ---- tents are 1-Lipschitz in the end points ---- *)
Lemma tent_lipschitz_P b d b' d' t e :
  Qabs (b - b') <= e -> Qabs (d - d') <= e -> Qabs (tent (b, d) t - tent (b', d') t) <= e.
Proof. rewrite !Qabs_le_iff. intros. utent. qmm; lra. Qed.

(* ---- rank functions of eps-close aligned lists ---- *)
Lemma ex_shift l1 l2 e w : Forall2 (fun x y => Qabs (x - y) <= e) l1 l2 ->
  (ex l1 (w + e) <= ex l2 w)%nat.
Proof. induction 1 as [|x y l1 l2 H F IH]. unfold ex; simpl; lia.
  rewrite !ex_cons. apply Qabs_le_iff in H.
  destruct (Qlt_bool (w + e) x) eqn:A.
  - apply Qlt_bool_iff in A. replace (Qlt_bool w y) with true. lia. symmetry. apply Qlt_bool_iff. lra.
  - destruct (Qlt_bool w y); lia. Qed.

Lemma Forall2_abs_sym e l1 l2 : Forall2 (fun x y => Qabs (x - y) <= e) l1 l2 -> Forall2 (fun x y => Qabs (x - y) <= e) l2 l1.
Proof. induction 1; constructor; auto. apply Qabs_le_iff in H. apply Qabs_le_iff. lra. Qed.

Lemma kth_upper l1 l2 e k : (1 <= k)%nat -> 0 <= e ->
  (forall x, In x l1 -> 0 <= x) -> (forall x, In x l2 -> 0 <= x) ->
  Forall2 (fun x y => Qabs (x - y) <= e) l1 l2 -> kth l1 k <= kth l2 k + e.
Proof. intros Hk He N1 N2 F.
  pose proof (kth_nonneg l2 k N2) as P2.
  destruct (Qlt_le_dec (kth l2 k + e) (kth l1 k)) as [L|L]; auto. exfalso.
  assert (0 <= kth l2 k + e) by lra.
  pose proof (proj1 (kth_ex l1 k _ Hk H) L) as E1.
  pose proof (ex_shift _ _ _ (kth l2 k) F) as E2.
  assert (E3 : (k <= ex l2 (kth l2 k))%nat) by lia.
  apply (kth_ex l2 k _ Hk P2) in E3. lra. Qed.

Lemma kth_lipschitz_P l1 l2 e k : (1 <= k)%nat -> 0 <= e ->
  (forall x, In x l1 -> 0 <= x) -> (forall x, In x l2 -> 0 <= x) ->
  Forall2 (fun x y => Qabs (x - y) <= e) l1 l2 -> Qabs (kth l1 k - kth l2 k) <= e.
Proof. intros. apply Qabs_le_iff.
  pose proof (kth_upper l1 l2 e k H H0 H1 H2 H3).
  pose proof (kth_upper l2 l1 e k H H0 H2 H1 (Forall2_abs_sym _ _ _ H3)). lra. Qed.

(* ---- zeros are invisible to the rank function at non-negative levels ---- *)
Lemma ex_app l1 l2 v : ex (l1 ++ l2) v = (ex l1 v + ex l2 v)%nat.
Proof. unfold ex. rewrite filter_app, app_length. auto. Qed.
Lemma ex_repeat0 m v : 0 <= v -> ex (repeat 0 m) v = O.
Proof. intro H. induction m; simpl. reflexivity. change (0 :: repeat 0 m) with ([0] ++ repeat 0 m).
  rewrite ex_app, IHm. unfold ex. simpl. replace (Qlt_bool v 0) with false. reflexivity.
  symmetry. apply Qlt_bool_false. auto. Qed.
Lemma kth_zero_padding_P l m k : (1 <= k)%nat -> (forall x, In x l -> 0 <= x) ->
  kth (l ++ repeat 0 m) k == kth l k.
Proof. intros Hk N. apply kth_ext; auto.
  - intros x I. apply in_app_or in I. destruct I as [I|I]; auto. apply repeat_spec in I. subst. lra.
  - intros v Hv. rewrite ex_app, ex_repeat0 by auto. lia. Qed.

(* ==================== part E ==================== *)
Definition sel (g : nat -> Z) (f : nat -> Q) (z : Z) (s c : nat) :=
  map snd (filter (fun e : Z * Q => Z.eqb (fst e) z) (map (fun j => (g j, f j)) (seq s c))).
Lemma hits_none g f z : forall c s, (forall j, (s <= j < s + c)%nat -> g j <> z) -> sel g f z s c = [].
Proof. unfold sel. induction c as [|c IH]; intros s H; simpl. reflexivity.
  destruct (Z.eqb (g s) z) eqn:E. apply Z.eqb_eq in E. exfalso. apply (H s); auto. lia.
  apply IH. intros j Hj. apply H. lia. Qed.
Lemma hits_one g f z : forall c s j0, (s <= j0 < s + c)%nat -> g j0 = z ->
  (forall j, (s <= j < s + c)%nat -> g j = z -> j = j0) -> sel g f z s c = [f j0].
Proof. unfold sel. induction c as [|c IH]; intros s j0 R G U. lia. simpl.
  destruct (Z.eqb (g s) z) eqn:E.
  - apply Z.eqb_eq in E. assert (s = j0) by (apply U; auto; lia). subst. simpl. f_equal.
    apply (hits_none g f (g j0) c (S j0)). intros j Hj Gj. assert (j = j0) by (apply U; auto; lia). lia.
  - apply Z.eqb_neq in E. apply IH. destruct (Nat.eq_dec s j0). subst; congruence. lia. auto.
    intros j Hj. apply U. lia. Qed.

Lemma W_app e1 e2 i : W (e1 ++ e2) i = W e1 i ++ W e2 i.
Proof. unfold W. rewrite filter_app, map_app. reflexivity. Qed.

Local Ltac Zify.zify_post_hook ::= Z.to_euclidean_division_equations.

(* what one bar appends at node i *)
Lemma bar_W stp (ib id i : nat) :
  let mid := mid_pt (Z.of_nat ib) (Z.of_nat id) in
  W (bar_events stp (Z.of_nat ib) (Z.of_nat id)) i =
    if ((Z.of_nat ib <? Z.of_nat i) && (Z.of_nat i <=? mid))%Z then [qnat (i - ib) * stp]
    else if ((mid <? Z.of_nat i) && (Z.of_nat i <? Z.of_nat id))%Z then [qnat (id - i) * stp]
    else [].
Proof. intro mid. unfold bar_events. fold mid. rewrite W_app. unfold W.
  change (map snd (filter (fun e0 : Z * Q => (fst e0 =? Z.of_nat i)%Z) (map (fun j : nat => ((Z.of_nat ib + Z.of_nat j)%Z, qnat j * stp)) (seq 1 (Z.to_nat (mid - Z.of_nat ib))))))
    with (sel (fun j => (Z.of_nat ib + Z.of_nat j)%Z) (fun j => qnat j * stp) (Z.of_nat i) 1 (Z.to_nat (mid - Z.of_nat ib))).
  change (map snd (filter (fun e0 : Z * Q => (fst e0 =? Z.of_nat i)%Z) (map (fun j : nat => ((Z.of_nat id - Z.of_nat j)%Z, qnat j * stp)) (seq 1 (Z.to_nat (Z.of_nat id - (mid + 1)))))))
    with (sel (fun j => (Z.of_nat id - Z.of_nat j)%Z) (fun j => qnat j * stp) (Z.of_nat i) 1 (Z.to_nat (Z.of_nat id - (mid + 1)))).
  destruct ((Z.of_nat ib <? Z.of_nat i) && (Z.of_nat i <=? mid))%Z eqn:C1.
  - apply andb_true_iff in C1. destruct C1 as [A B]. apply Z.ltb_lt in A. apply Z.leb_le in B.
    rewrite (hits_one _ (fun j => qnat j * stp) _ _ _ (i - ib)%nat); try lia.
    rewrite hits_none. reflexivity. intros j Hj. unfold mid, mid_pt in *. lia.
  - rewrite hits_none.
    2:{ intros j Hj E. apply andb_false_iff in C1. destruct C1 as [C|C]; [apply Z.ltb_ge in C|apply Z.leb_gt in C]; lia. }
    simpl. destruct ((mid <? Z.of_nat i) && (Z.of_nat i <? Z.of_nat id))%Z eqn:C2.
    + apply andb_true_iff in C2. destruct C2 as [A B]. apply Z.ltb_lt in A. apply Z.ltb_lt in B.
      apply (hits_one _ (fun j => qnat j * stp) _ _ _ (id - i)%nat); lia.
    + apply hits_none. intros j Hj E. apply andb_false_iff in C2. destruct C2 as [C|C]; apply Z.ltb_ge in C; lia. Qed.

Lemma zq_le (a b : nat) : (Z.of_nat a <= Z.of_nat b)%Z -> qnat a <= qnat b.
Proof. intro. apply qnat_le. lia. Qed.

(* T1 ramps_are_snapped_tent *)
Lemma ramps_are_snapped_tent_P s e n (ib id i : nat) : (2 <= n)%nat -> s < e ->
  let T := tent (node s e n ib, node s e n id) (node s e n i) in
  let w := W (bar_events (step s e n) (Z.of_nat ib) (Z.of_nat id)) i in
  (w = [] /\ T == 0) \/ (exists v, w = [v] /\ v == T /\ 0 < T).
Proof. intros Hn Hse T w. pose proof (step_pos s e n Hn Hse) as SP.
  unfold w. rewrite bar_W. unfold T. utent. pose proof (node_diff s e n i ib) as D1. pose proof (node_diff s e n id i) as D2. set (st := step s e n) in *.
  set (mid := mid_pt (Z.of_nat ib) (Z.of_nat id)).
  destruct ((Z.of_nat ib <? Z.of_nat i) && (Z.of_nat i <=? mid))%Z eqn:C1.
  - apply andb_true_iff in C1. destruct C1 as [A B]. apply Z.ltb_lt in A. apply Z.leb_le in B.
    right. eexists. split. reflexivity.
    assert (ib < i)%nat by lia. assert (i - ib <= id - i)%nat by (unfold mid, mid_pt in B; lia).
    assert (i <= id)%nat by (unfold mid, mid_pt in B; lia).
    pose proof (qnat_lt ib i H). pose proof (qnat_le _ _ H0). rewrite !qnat_sub in * by lia.
    assert (0 < (qnat i - qnat ib) * st) by (apply Qmult_lt_0_compat; lra).
    assert ((qnat i - qnat ib) * st <= (qnat id - qnat i) * st) by (apply Qmult_le_compat_r; lra).
    split; qmm; lra.
  - destruct ((mid <? Z.of_nat i) && (Z.of_nat i <? Z.of_nat id))%Z eqn:C2.
    + apply andb_true_iff in C2. destruct C2 as [A B]. apply Z.ltb_lt in A. apply Z.ltb_lt in B.
      right. eexists. split. reflexivity.
      assert (i < id)%nat by lia. assert (id - i <= i - ib)%nat by (unfold mid, mid_pt in A; lia).
      assert (ib <= i)%nat by (unfold mid, mid_pt in A; lia).
      pose proof (qnat_lt i id H). pose proof (qnat_le _ _ H0). rewrite !qnat_sub in * by lia.
      assert (0 < (qnat id - qnat i) * st) by (apply Qmult_lt_0_compat; lra).
      assert ((qnat id - qnat i) * st <= (qnat i - qnat ib) * st) by (apply Qmult_le_compat_r; lra).
      split; qmm; lra.
    + left. split. reflexivity.
      assert (i <= ib \/ id <= i)%nat.
      { apply andb_false_iff in C1. apply andb_false_iff in C2. unfold mid, mid_pt in *.
        destruct C1 as [C|C]; [apply Z.ltb_ge in C|apply Z.leb_gt in C];
        destruct C2 as [D|D]; apply Z.ltb_ge in D; lia. }
      destruct H as [H|H]; pose proof (qnat_le _ _ H).
      * assert ((qnat i - qnat ib) * st <= 0). { setoid_replace 0 with (0 * st) by ring. apply Qmult_le_compat_r; lra. }
        qmm; lra.
      * assert ((qnat id - qnat i) * st <= 0). { setoid_replace 0 with (0 * st) by ring. apply Qmult_le_compat_r; lra. }
        qmm; lra. Qed.

(* ==================== part F ==================== *)
Definition snapbar (s e : Q) (n : nat) (bd : bar) : bar :=
  (node s e n (snap_idx (grid s e n) (fst bd)), node s e n (snap_idx (grid s e n) (snd bd))).

Lemma W_all ax stp bars i :
  W (all_events ax stp bars) i =
  flat_map (fun bd => W (bar_events stp (Z.of_nat (ind ax (fst bd))) (Z.of_nat (ind ax (snd bd)))) i) bars.
Proof. unfold all_events. induction bars as [|bd r IH]; simpl. reflexivity. rewrite W_app, IH. reflexivity. Qed.

Section Grid.
Variables (s e : Q) (n : nat).
Hypothesis Hn : (2 <= n)%nat.
Hypothesis Hse : s < e.
Let ax := grid s e n.
Let st := step s e n.

Lemma W_bar_spec bd i :
  let T := tent (snapbar s e n bd) (node s e n i) in
  let w := W (bar_events st (Z.of_nat (ind ax (fst bd))) (Z.of_nat (ind ax (snd bd)))) i in
  (w = [] /\ T == 0) \/ (exists v, w = [v] /\ v == T /\ 0 < T).
Proof. unfold ax, st. rewrite !ind_is_snap by auto. apply ramps_are_snapped_tent_P; auto. Qed.

Lemma W_ex bars i v : 0 <= v ->
  ex (W (all_events ax st bars) i) v = ex (map (fun bd => tent (snapbar s e n bd) (node s e n i)) bars) v.
Proof. intro Hv. rewrite W_all. induction bars as [|bd r IH]; simpl. reflexivity.
  rewrite ex_app, IH. change (tent (snapbar s e n bd) (node s e n i) :: map (fun bd0 => tent (snapbar s e n bd0) (node s e n i)) r)
    with ([tent (snapbar s e n bd) (node s e n i)] ++ map (fun bd0 => tent (snapbar s e n bd0) (node s e n i)) r).
  rewrite ex_app. f_equal.
  destruct (W_bar_spec bd i) as [[-> Z]|[x [-> [X P]]]].
  - unfold ex. simpl. replace (Qlt_bool v (tent (snapbar s e n bd) (node s e n i))) with false. reflexivity.
    symmetry. apply Qlt_bool_false. lra.
  - unfold ex. simpl. rewrite (Qlt_bool_compat v _ _ X). destruct (Qlt_bool v (tent (snapbar s e n bd) (node s e n i))); reflexivity. Qed.

Lemma W_nonneg bars i x : In x (W (all_events ax st bars) i) -> 0 <= x.
Proof. rewrite W_all. intro I. apply in_flat_map in I. destruct I as [bd [_ I]].
  destruct (W_bar_spec bd i) as [[E _]|[y [E [X P]]]]; rewrite E in I; simpl in I. contradiction.
  destruct I as [<-|[]]. lra. Qed.

Lemma sorted_W_nth bars i : (i < n)%nat ->
  nth i (sorted_W s e n bars) [] = sort_desc (W (all_events ax st bars) i).
Proof. intro Hi. unfold sorted_W. fold ax. fold st.
  set (f := fun i0 => sort_desc (W (all_events ax st bars) i0)).
  rewrite (nth_indep _ [] (f O)) by (rewrite map_length, seq_length; auto).
  rewrite map_nth, seq_nth by auto. reflexivity. Qed.
Lemma sorted_W_length bars : length (sorted_W s e n bars) = n.
Proof. unfold sorted_W. rewrite map_length, seq_length. reflexivity. Qed.
End Grid.

Lemma depth_of_ge Ws : forall w, In w Ws -> (length w <= depth_of Ws)%nat.
Proof. unfold depth_of. induction Ws as [|a r IH]; simpl; intros w H. contradiction. destruct H as [E|I]. subst; lia. specialize (IH _ I). lia. Qed.

Lemma nth_repeat0 i m : nth i (repeat 0 m) 0 = 0.
Proof. destruct (nth_in_or_default i (repeat 0 m) 0) as [I|I]; auto. apply repeat_spec in I. auto. Qed.

Lemma val_at_fill Ws K k i : (i < length Ws)%nat -> (depth_of Ws <= K)%nat ->
  val_at (fill Ws K) k i = nth k (nth i Ws []) 0.
Proof. intros Hi HK. unfold val_at, fill.
  destruct (Nat.lt_ge_cases k K) as [L|G].
  - set (f := fun k0 => map (fun w : list Q => nth k0 w 0) Ws).
    rewrite (nth_indep _ [] (f O)) by (rewrite map_length, seq_length; auto).
    rewrite map_nth, seq_nth by auto. unfold f. simpl.
    rewrite (nth_indep _ 0 ((fun w : list Q => nth k w 0) [])) by (rewrite map_length; auto).
    rewrite (map_nth (fun w : list Q => nth k w 0)). reflexivity.
  - rewrite (nth_overflow (map _ (seq 0 K))) by (rewrite map_length, seq_length; auto).
    rewrite (nth_overflow (nth i Ws [])). destruct i; reflexivity.
    pose proof (depth_of_ge Ws (nth i Ws []) (nth_In _ _ Hi)). lia. Qed.

Lemma val_at_approx s e n bars k i : (i < n)%nat ->
  val_at (approx_values s e n bars) k i = nth k (nth i (sorted_W s e n bars) []) 0.
Proof. intro Hi. unfold approx_values.
  destruct (Nat.eqb (depth_of (sorted_W s e n bars)) 0) eqn:Z.
  - apply Nat.eqb_eq in Z.
    rewrite (nth_overflow (nth i (sorted_W s e n bars) [])).
    2:{ assert (In (nth i (sorted_W s e n bars) []) (sorted_W s e n bars)) by (apply nth_In; rewrite sorted_W_length; auto).
        pose proof (depth_of_ge _ _ H). lia. }
    unfold val_at. destruct k; simpl. apply nth_repeat0. destruct k; destruct i; reflexivity.
  - apply val_at_fill. rewrite sorted_W_length; auto. lia. Qed.

Lemma in_range_bars_tents_close s e n bars t : (2 <= n)%nat -> s < e ->
  (forall bd, In bd bars -> s <= fst bd <= e /\ s <= snd bd <= e) ->
  Forall2 (fun x y => Qabs (x - y) <= step s e n * (1#2))
    (map (fun bd => tent (snapbar s e n bd) t) bars) (map (fun bd => tent bd t) bars).
Proof. intros Hn Hse R. induction bars as [|[b d] r IH]; simpl; constructor.
  - destruct (R (b, d) (or_introl eq_refl)) as [Rb Rd]. simpl in Rb, Rd.
    unfold snapbar. simpl fst. simpl snd. apply tent_lipschitz_P; apply snap_half_step_P; auto.
  - apply IH. intros bd I. apply R. right. auto. Qed.

Lemma val_is_snapped_land s e n bars k i : (2 <= n)%nat -> s < e -> (i < n)%nat ->
  val_at (approx_values s e n bars) k i == land (map (snapbar s e n) bars) (S k) (node s e n i).
Proof. intros Hn Hse Hi. rewrite val_at_approx by auto. rewrite sorted_W_nth by auto.
  unfold land. rewrite map_map.
  transitivity (kth (W (all_events (grid s e n) (step s e n) bars) i) (S k)).
  { unfold kth. simpl. rewrite Nat.sub_0_r. reflexivity. }
  apply kth_ext. lia.
  - intros x I. eapply W_nonneg; eauto.
  - intros x I. apply in_map_iff in I. destruct I as [bd [<- _]]. apply tent_nonneg.
  - intros v Hv. apply W_ex; auto. Qed.

(* ==================== part G ==================== *)
Lemma tents_nonneg bars t x : In x (map (fun bd : bar => tent bd t) bars) -> 0 <= x.
Proof. intro I. apply in_map_iff in I. destruct I as [bd [<- _]]. apply tent_nonneg. Qed.

Lemma approx_within_half_step_P s e n bars k i : (2 <= n)%nat -> s < e ->
  (forall bd, In bd bars -> s <= fst bd <= e /\ s <= snd bd <= e) -> (i < n)%nat ->
  Qabs (val_at (approx_values s e n bars) k i - land bars (S k) (node s e n i)) <= step s e n * (1#2).
Proof. intros Hn Hse R Hi. rewrite val_is_snapped_land by auto. unfold land. rewrite map_map.
  pose proof (step_pos s e n Hn Hse).
  apply kth_lipschitz_P. lia. lra.
  - intros x I. apply in_map_iff in I. destruct I as [bd [<- _]]. apply tent_nonneg.
  - apply tents_nonneg.
  - apply in_range_bars_tents_close; auto. Qed.

Definition on_grid (s e : Q) (n : nat) (x : Q) : Prop := exists j, (j < n)%nat /\ x == node s e n j.

Lemma snap_on_grid s e n x : (1 <= n)%nat -> on_grid s e n x -> node s e n (snap_idx (grid s e n) x) == x.
Proof. intros Hn [j [Hj E]]. destruct (snap_idx_ok s e n x Hn) as [_ [B _]]. specialize (B j Hj).
  assert (Z : Qabs (node s e n j - x) <= 0). { apply Qabs_le_iff. lra. }
  assert (Z' : Qabs (node s e n (snap_idx (grid s e n) x) - x) <= 0) by lra.
  apply Qabs_le_iff in Z'. lra. Qed.

Lemma approx_exact_on_grid_P s e n bars k i : (2 <= n)%nat -> s < e ->
  (forall bd, In bd bars -> on_grid s e n (fst bd) /\ on_grid s e n (snd bd)) -> (i < n)%nat ->
  val_at (approx_values s e n bars) k i == land bars (S k) (node s e n i).
Proof. intros Hn Hse G Hi. rewrite val_is_snapped_land by auto. unfold land. rewrite map_map.
  assert (Qabs (kth (map (fun x => tent (snapbar s e n x) (node s e n i)) bars) (S k)
              - kth (map (fun a => tent a (node s e n i)) bars) (S k)) <= 0).
  { apply kth_lipschitz_P. lia. lra.
    - intros x I. apply in_map_iff in I. destruct I as [bd [<- _]]. apply tent_nonneg.
    - apply tents_nonneg.
    - clear Hi. induction bars as [|[b d] r IH]; simpl; constructor.
      + destruct (G (b, d) (or_introl eq_refl)) as [Gb Gd]. simpl in Gb, Gd.
        unfold snapbar. simpl fst. simpl snd.
        apply tent_lipschitz_P; apply Qabs_le_iff; rewrite snap_on_grid by (auto; lia); lra.
      + apply IH. intros bd I. apply G. right. auto. }
  apply Qabs_le_iff in H. lra. Qed.

(* shape: at least one row, every row has n entries *)
Lemma approx_rows_rectangular_P s e n bars :
  (1 <= length (approx_values s e n bars))%nat /\ forall r, In r (approx_values s e n bars) -> length r = n.
Proof. unfold approx_values. destruct (Nat.eqb (depth_of (sorted_W s e n bars)) 0) eqn:Z.
  - split. simpl. lia. intros r [<-|[]]. apply repeat_length.
  - apply Nat.eqb_neq in Z. unfold fill. split. rewrite map_length, seq_length. lia.
    intros r I. apply in_map_iff in I. destruct I as [k [<- _]]. rewrite map_length. apply sorted_W_length. Qed.

(* ---- vectorize ---- *)
Lemma interp_go_start x0 y0 r t : incr ((x0, y0) :: r) -> t == x0 -> interp_go x0 y0 r t == y0.
Proof. destruct r as [|[x1 y1] r']; simpl; intros I E. reflexivity.
  destruct I as [L _]. simpl in L.
  replace (Qlt_bool t x1) with true by (symmetry; apply Qlt_bool_iff; lra).
  rewrite E. field. lra. Qed.

Definition last_ord (cps : list pt) : Q := snd (last cps (0, 0)).

Lemma interp_go_pl r : forall x0 y0 t, incr ((x0, y0) :: r) -> x0 <= t -> last_ord ((x0, y0) :: r) == 0 ->
  interp_go x0 y0 r t == pl_eval ((x0, y0) :: r) t.
Proof. induction r as [|[x1 y1] r' IH]; intros x0 y0 t I G Z.
  - unfold last_ord in Z. simpl in Z. simpl. destruct (Qeq_bool t x0); lra.
  - assert (I' := I). destruct I' as [L I']. simpl in L.
    change (pl_eval ((x0, y0) :: (x1, y1) :: r') t) with
      (if Qlt_bool t x0 then 0 else if Qle_bool t x1 && Qlt_bool x0 x1 then y0 + (y1 - y0) * (t - x0) / (x1 - x0)
       else pl_eval ((x1, y1) :: r') t).
    replace (Qlt_bool t x0) with false by (symmetry; apply Qlt_bool_false; auto).
    replace (Qlt_bool x0 x1) with true by (symmetry; apply Qlt_bool_iff; auto). rewrite andb_true_r.
    simpl interp_go.
    assert (Z' : last_ord ((x1, y1) :: r') == 0) by exact Z.
    destruct (Qlt_bool t x1) eqn:A.
    + apply Qlt_bool_iff in A. replace (Qle_bool t x1) with true by (symmetry; apply b_le; lra). field. lra.
    + apply Qlt_bool_false in A. destruct (Qle_bool t x1) eqn:B.
      * apply b_le in B. assert (E : t == x1) by lra. rewrite (interp_go_start x1 y1 r' t I' E). rewrite E. field. lra.
      * apply IH; auto. Qed.

Lemma np_interp_pl cps t : incr cps -> snd (hd (0, 0) cps) == 0 -> last_ord cps == 0 ->
  np_interp cps t == pl_eval cps t.
Proof. destruct cps as [|[x0 y0] r]; intros I H0 HL. reflexivity. simpl in H0.
  unfold np_interp. destruct (Qlt_bool t x0) eqn:A.
  - apply Qlt_bool_iff in A. rewrite pl_eval_before; auto.
    intros p Hp. clear - I Hp A. revert x0 y0 I Hp A. induction r as [|[x1 y1] r IH]; intros x0 y0 I Hp A.
    + destruct Hp as [<-|[]]. auto.
    + destruct Hp as [<-|Hp]. auto. destruct I as [L I]. simpl in L. apply (IH x1 y1 I Hp). lra.
  - apply Qlt_bool_false in A. apply interp_go_pl; auto. Qed.

Definition wellformed_depth (cps : list pt) : Prop := incr cps /\ snd (hd (0, 0) cps) == 0 /\ last_ord cps == 0.

Lemma vectorize_exact_P cps s e n k i : (i < n)%nat -> (k < length cps)%nat ->
  wellformed_depth (nth k cps []) ->
  val_at (vectorize_values cps s e n) k i == pl_eval (nth k cps []) (node s e n i).
Proof. intros Hi Hk [I [H0 HL]]. unfold val_at, vectorize_values.
  set (f := fun depth => map (np_interp depth) (grid s e n)).
  rewrite (nth_indep _ [] (f [])) by (rewrite map_length; auto). rewrite map_nth. unfold f.
  rewrite (nth_indep _ 0 (np_interp (nth k cps []) 0)) by (rewrite map_length, grid_length; auto).
  rewrite map_nth, grid_nth by auto. apply np_interp_pl; auto. Qed.

(* ==================== part H ==================== *)
(* ---- the transformer ---- *)
Lemma landscaper_is_approx_P flatten start stop n dgms h v :
  landscaper flatten start stop n dgms h = Ok v ->
  exists s e v0, approx_ctor (Some s) (Some e) n dgms h = Ok (s, e, v0)
                 /\ (start = Some s \/ start = None) /\ (stop = Some e \/ stop = None)
                 /\ v = if flatten then [concat v0] else v0.
Proof. unfold landscaper, landscaper_gen, approx_ctor. destruct (nth_error dgms h) as [d|] eqn:N; [|discriminate].
  destruct (fit_ends start stop d) as [[s e]| | |] eqn:F; try discriminate.
  unfold ctor_gen. rewrite N. simpl grid_ends. cbv iota beta. intro H. injection H as <-.
  exists s, e, (approx_values s e n (finite_bars d)). split. reflexivity.
  unfold fit_ends in F.
  destruct start as [s0|], stop as [e0|]; simpl in F.
  - injection F as <- <-. repeat split; auto. destruct flatten; reflexivity.
  - destruct (has_inf_death d); try discriminate. destruct (qmax_list (raw_deaths d)); try discriminate.
    injection F as <- <-. repeat split; auto. destruct flatten; reflexivity.
  - destruct (qmin_list (raw_births d)); try discriminate. injection F as <- <-. repeat split; auto. destruct flatten; reflexivity.
  - destruct (qmin_list (raw_births d)); try discriminate. destruct (has_inf_death d); try discriminate.
    destruct (qmax_list (raw_deaths d)); try discriminate. injection F as <- <-. repeat split; auto. destruct flatten; reflexivity. Qed.

(* ---- the pinned code: right whenever it returns numbers, but it does not always return numbers ---- *)
Lemma approx_legacy_numeric_P s e n bars v : approx_values_legacy s e n bars = LVals v -> v = approx_values s e n bars.
Proof. unfold approx_values_legacy, approx_values. destruct (Nat.eqb _ 0); congruence. Qed.

Definition legacy_meets_bound (s e : Q) (n : nat) (bars : list bar) : Prop :=
  exists v, approx_values_legacy s e n bars = LVals v /\
    forall k i, (i < n)%nat -> Qabs (val_at v k i - land bars (S k) (node s e n i)) <= step s e n * (1#2).

Lemma approx_legacy_refuted_P : exists s e n bars, (2 <= n)%nat /\ s < e /\
  (forall bd, In bd bars -> s <= fst bd <= e /\ s <= snd bd <= e) /\ ~ legacy_meets_bound s e n bars.
Proof. exists 0, 1, 3%nat, [(0, 1#10)]. split. lia. split. lra. split.
  - intros bd [<-|[]]. simpl. lra.
  - intros [v [E _]]. vm_compute in E. discriminate. Qed.

(* ---- death vector ---- *)
Definition ext_ge (a b : ext) : Prop := ext_le b a = true.
Lemma ext_le_total a b : ext_le a b = false -> ext_le b a = true.
Proof. destruct a, b; simpl; auto; try discriminate. intro H. apply b_le_f in H. apply b_le. lra. Qed.
Lemma ext_le_trans a b c : ext_le a b = true -> ext_le b c = true -> ext_le a c = true.
Proof. destruct a, b, c; simpl; auto; try discriminate. rewrite !b_le. lra. Qed.
Lemma ins_ext_perm x l : Permutation (x :: l) (ins_ext x l).
Proof. induction l as [|y r IH]; simpl; auto. destruct (ext_le x y); auto.
  eapply perm_trans. apply perm_swap. apply perm_skip. exact IH. Qed.
Lemma ins_ext_sorted x l : StronglySorted ext_ge l -> StronglySorted ext_ge (ins_ext x l).
Proof. induction 1 as [|y r S IH F]; simpl. repeat constructor.
  destruct (ext_le x y) eqn:E.
  - constructor; auto. rewrite Forall_forall in *. intros z Hz.
    apply (Permutation_in _ (Permutation_sym (ins_ext_perm x r))) in Hz. destruct Hz as [<-|Hz]; [exact E | apply F; exact Hz].
  - apply ext_le_total in E. constructor. constructor; auto. constructor; auto.
    rewrite Forall_forall in *. intros z Hz. unfold ext_ge. eapply ext_le_trans. apply F; eauto. exact E. Qed.
Lemma death_vector_sorted_P d : StronglySorted ext_ge (death_vector d) /\ Permutation (map snd d) (death_vector d).
Proof. unfold death_vector. induction (map snd d) as [|x l [S P]]; simpl. split; constructor.
  split. apply ins_ext_sorted; auto. eapply perm_trans. apply perm_skip. exact P. apply ins_ext_perm. Qed.

Lemma snap_first_minimum_P s e n x : (1 <= n)%nat ->
  let a := snap_idx (grid s e n) x in
  (a < n)%nat /\ (forall j, (j < n)%nat -> Qabs (node s e n a - x) <= Qabs (node s e n j - x))
  /\ (forall j, (j < a)%nat -> Qabs (node s e n a - x) < Qabs (node s e n j - x)).
Proof. apply snap_idx_ok. Qed.
(* ==================== part I ==================== *)
(* ---- __init__: infinite bars are dropped, default grid ends cover the diagram ---- *)
Lemma finite_bars_in d x y : In (x, y) (finite_bars d) <-> In (Fin x, Fin y) d.
Proof. unfold finite_bars. rewrite in_flat_map. split.
  - intros [[[a|] [b|]] [I H]]; simpl in H; try contradiction. destruct H as [E|[]]. injection E as <- <-. exact I.
  - intro I. exists (Fin x, Fin y). split; auto. simpl. auto. Qed.

Lemma qmin_list_le l m : qmin_list l = Some m -> forall x, In x l -> m <= x.
Proof. revert m. induction l as [|a r IH]; intros m H x I. contradiction.
  simpl in H. destruct (qmin_list r) as [m'|] eqn:E.
  - injection H as <-. destruct (Qle_bool a m') eqn:C.
    + apply b_le in C. destruct I as [<-|I]. lra. specialize (IH _ eq_refl _ I). lra.
    + apply b_le_f in C. destruct I as [<-|I]. lra. apply (IH _ eq_refl _ I).
  - injection H as <-. destruct I as [<-|I]. lra. destruct r; [contradiction|]. simpl in E.
    destruct (qmin_list r); discriminate. Qed.
Lemma qmax_list_ge l m : qmax_list l = Some m -> forall x, In x l -> x <= m.
Proof. revert m. induction l as [|a r IH]; intros m H x I. contradiction.
  simpl in H. destruct (qmax_list r) as [m'|] eqn:E.
  - injection H as <-. destruct (Qle_bool m' a) eqn:C.
    + apply b_le in C. destruct I as [<-|I]. lra. specialize (IH _ eq_refl _ I). lra.
    + apply b_le_f in C. destruct I as [<-|I]. lra. apply (IH _ eq_refl _ I).
  - injection H as <-. destruct I as [<-|I]. lra. destruct r; [contradiction|]. simpl in E.
    destruct (qmax_list r); discriminate. Qed.

Lemma default_ends_cover_P bars s e : grid_ends None None bars = Some (s, e) ->
  (forall bd, In bd bars -> fst bd <= snd bd) ->
  forall bd, In bd bars -> s <= fst bd <= e /\ s <= snd bd <= e.
Proof. unfold grid_ends. destruct (qmin_list (map fst bars)) as [m|] eqn:A; [|discriminate].
  destruct (qmax_list (map snd bars)) as [M|] eqn:B; [|discriminate]. intro H. injection H as <- <-.
  intros V bd I. pose proof (V bd I).
  pose proof (qmin_list_le _ _ A (fst bd) (in_map fst _ _ I)).
  pose proof (qmax_list_ge _ _ B (snd bd) (in_map snd _ _ I)). lra. Qed.

(* the constructor as a whole: whatever grid it ends up with, if that grid is proper and covers the
   finite bars of the selected degree, the returned values obey the bound against those bars *)
Lemma approx_ctor_within_half_step_P start stop n dgms h s e v k i :
  approx_ctor start stop n dgms h = Ok (s, e, v) -> (2 <= n)%nat -> s < e ->
  (forall x y, In (Fin x, Fin y) (nth h dgms []) -> s <= x <= e /\ s <= y <= e) -> (i < n)%nat ->
  Qabs (val_at v k i - land (finite_bars (nth h dgms [])) (S k) (node s e n i)) <= step s e n * (1#2).
Proof. unfold approx_ctor, ctor_gen. destruct (nth_error dgms h) as [d|] eqn:N; [|discriminate].
  rewrite (nth_error_nth _ _ _ N).
  destruct (grid_ends start stop (finite_bars d)) as [[s' e']|]; [|discriminate].
  intro H. injection H as <- <- <-. intros Hn Hse R Hi.
  apply approx_within_half_step_P; auto. intros [x y] I. apply finite_bars_in in I. simpl. apply R. exact I. Qed.
(* ==================== part J ==================== *)
(* ---- depths are nested and non-negative: values[k+1][i] <= values[k][i], 0 <= values[k][i] ---- *)
Lemma desc_nth_mono l : desc l -> (forall x, In x l -> 0 <= x) -> forall k, nth (S k) l 0 <= nth k l 0 /\ 0 <= nth k l 0.
Proof. induction 1 as [|x l D IH Hx]; intros N k.
  - destruct k; simpl; lra.
  - assert (N' : forall y, In y l -> 0 <= y) by (intros; apply N; right; auto).
    destruct k.
    + simpl. split. 2: apply N; left; auto.
      destruct l as [|y r]. simpl. apply N; left; auto. simpl. apply Hx. left; auto.
    + apply (IH N' k). Qed.

Lemma approx_depths_nested_P s e n bars k i : (2 <= n)%nat -> s < e -> (i < n)%nat ->
  val_at (approx_values s e n bars) (S k) i <= val_at (approx_values s e n bars) k i
  /\ 0 <= val_at (approx_values s e n bars) k i.
Proof. intros Hn Hse Hi. rewrite !val_at_approx by auto. rewrite sorted_W_nth by auto.
  apply desc_nth_mono. apply sort_desc_desc.
  intros x I. apply (Permutation_in _ (Permutation_sym (sort_desc_perm _))) in I.
  eapply W_nonneg; eauto. Qed.
(* ==================== part K ==================== *)
(* ---- the appends stay strictly between the snapped ends: no IndexError, no negative-index wrap-around ---- *)
Lemma ramp_indices_in_range_P stp (ib id : Z) z v : In (z, v) (bar_events stp ib id) -> (ib < z < id)%Z.
Proof. unfold bar_events, mid_pt. intro I. apply in_app_or in I. destruct I as [I|I];
  apply in_map_iff in I; destruct I as [j [E I]]; apply in_seq in I; injection E as <- _; lia. Qed.
