(* Glue C03 / C09 / C10 at REAL abscissae: the largest |y| over the breakpoints (sup_pts / sup_spec, Spec/PNormS.v) bounds
   the piecewise-linear reading pl_evalR (Spec/LandscapeRealS.v) at EVERY real t, for every breakpoint list; hence the
   C09-model difference of the sweeps of two diagrams is bounded by the bottleneck distance at every real t. *)
From Coq Require Import Reals Lra QArith Qreals Qabs Qminmax List Bool Arith Lia.
From Persim Require Import Lib.Kth Lib.PL Spec.LandscapeRealS.
From Persim Require Spec.PNormS Proofs.PNormSup.
Import ListNotations.
Open Scope R_scope.

Lemma Q2R_0s : Q2R 0 = 0. Proof. unfold Q2R. simpl. lra. Qed.

Lemma Rabs_le_iv a b : Rabs a <= b -> - b <= a <= b.
Proof. unfold Rabs. destruct (Rcase_abs a); lra. Qed.

Lemma chord_boundR x0 y0 x1 y1 t M : x0 < x1 -> x0 <= t <= x1 -> Rabs y0 <= M -> Rabs y1 <= M ->
  Rabs (y0 + (y1 - y0) * (t - x0) / (x1 - x0)) <= M.
Proof.
  intros D [T0 T1] H0 H1. apply Rabs_le. apply Rabs_le_iv in H0. apply Rabs_le_iv in H1.
  set (lam := (t - x0) / (x1 - x0)).
  assert (L0 : 0 <= lam). { unfold lam. apply Rmult_le_pos. lra. apply Rlt_le, Rinv_0_lt_compat. lra. }
  assert (L1 : lam <= 1). { unfold lam. apply (Rmult_le_reg_r (x1 - x0)). lra. unfold Rdiv. rewrite Rmult_assoc, Rinv_l by lra. lra. }
  replace (y0 + (y1 - y0) * (t - x0) / (x1 - x0)) with ((1 - lam) * y0 + lam * y1) by (unfold lam; field; lra).
  split; nra.
Qed.

Lemma Rabs_Q2R x : Rabs (Q2R x) = Q2R (Qabs x).
Proof. destruct (Qlt_le_dec x 0) as [N|P].
  - rewrite Qabs_neg by (apply Qlt_le_weak; auto). apply Qlt_Rlt in N. rewrite Q2R_0s in N.
    rewrite Rabs_left by auto. rewrite Q2R_opp. reflexivity.
  - rewrite Qabs_pos by auto. apply Qle_Rle in P. rewrite Q2R_0s in P. rewrite Rabs_right by lra. reflexivity. Qed.

(* the largest |y| over the breakpoints bounds the interpolant at every REAL abscissa *)
Lemma sup_bounds_evalR (l : list pt) (t : R) : Rabs (pl_evalR (map rp l) t) <= Q2R (PNormS.sup_pts l).
Proof.
  assert (NN : forall l', 0 <= Q2R (PNormS.sup_pts l')).
  { intro l'. pose proof (PNormSup.sup_pts_nonneg l') as H. apply Qle_Rle in H. rewrite Q2R_0s in H. exact H. }
  induction l as [|[x0 y0] r IH]. { simpl. rewrite Rabs_R0. apply (NN []). }
  assert (HD : Rabs (Q2R y0) <= Q2R (PNormS.sup_pts ((x0, y0) :: r))).
  { rewrite Rabs_Q2R. apply Qle_Rle. simpl. apply Q.le_max_l. }
  assert (TL : Q2R (PNormS.sup_pts r) <= Q2R (PNormS.sup_pts ((x0, y0) :: r))).
  { apply Qle_Rle. simpl. apply Q.le_max_r. }
  destruct r as [|[x1 y1] r'].
  - simpl map. simpl pl_evalR. destruct (Req_EM_T t (Q2R x0)). exact HD. rewrite Rabs_R0. apply NN.
  - change (pl_evalR (map rp ((x0, y0) :: (x1, y1) :: r')) t) with
      (if Rlt_dec t (Q2R x0) then 0 else if Rle_dec t (Q2R x1) then
         (if Rlt_dec (Q2R x0) (Q2R x1)
          then Q2R y0 + (Q2R y1 - Q2R y0) * (t - Q2R x0) / (Q2R x1 - Q2R x0)
          else pl_evalR (map rp ((x1, y1) :: r')) t)
       else pl_evalR (map rp ((x1, y1) :: r')) t).
    destruct (Rlt_dec t (Q2R x0)). { rewrite Rabs_R0. apply NN. }
    destruct (Rle_dec t (Q2R x1)); [destruct (Rlt_dec (Q2R x0) (Q2R x1))|]; try (eapply Rle_trans; [exact IH|exact TL]).
    apply chord_boundR; auto. lra.
    eapply Rle_trans; [|exact TL]. rewrite Rabs_Q2R. apply Qle_Rle. simpl. apply Q.le_max_l.
Qed.

Lemma sup_spec_bounds_evalR (L : list (list pt)) k (t : R) :
  Rabs (pl_evalR (map rp (nth k L [])) t) <= Q2R (PNormS.sup_spec L).
Proof. destruct (Nat.lt_ge_cases k (length L)) as [Hk|Hk].
  - eapply Rle_trans. apply sup_bounds_evalR. apply Qle_Rle. apply PNormSup.sup_spec_ge. apply nth_In; auto.
  - rewrite nth_overflow by auto. simpl. rewrite Rabs_R0.
    pose proof (PNormSup.sup_spec_nonneg L) as H. apply Qle_Rle in H. rewrite Q2R_0s in H. exact H. Qed.

From Persim Require Spec.LandscapeS Spec.BottleneckS Spec.LandArithS Model.LandArithM Model.SweepM Proofs.LandscapeStabP.

Lemma exact_difference_sup_R variant deg (D D' : list bar) L L' v :
  LandscapeS.positive_bars D -> LandscapeS.positive_bars D' ->
  SweepM.sweep false D = Some L -> SweepM.sweep false D' = Some L' -> BottleneckS.is_bottleneck D D' v ->
  exists Df, LandArithM.e_sub variant (LandArithM.mkE deg L) (LandArithM.mkE deg L') = LandArithM.Ok Df /\
    forall (k : nat) (t : R), Rabs (pl_evalR (map rp (nth k (LandArithM.e_cp Df) [])) t) <= Q2R v.
Proof.
  intros PB PB' RUN RUN' B.
  destruct (LandscapeStabP.exact_landscape_stability_P variant deg D D' L L' v PB PB' RUN RUN' B) as (Df & E & _ & _ & SB & _).
  exists Df. split; [exact E|]. intros k t. eapply Rle_trans. apply sup_spec_bounds_evalR. apply Qle_Rle. exact SB.
Qed.
