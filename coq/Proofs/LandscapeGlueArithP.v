(* Glue C03 -> C08 / C09: np.interp sampling (vectorize) of the exact landscape of a diagram returns the
   k-th largest tent at every node; every expression tree over exact landscapes of diagrams evaluates to
   the same expression of the k-th largest tents. *)
From Coq Require Import QArith Qminmax Qabs Lqa List Bool Arith Lia Permutation.
From Persim Require Import Lib.Kth Lib.PL Spec.LandscapeS Spec.LandArithS Model.LandArithM Proofs.LandArithP.
From Persim Require Model.SweepM Model.ApproxM Proofs.ApproxP.
From Persim Require Import Proofs.SweepStep Proofs.SweepSort Proofs.SweepShape Proofs.SweepInner Proofs.SweepP.
From Persim Require Import Spec.LandscapeGlueS Proofs.LandscapeGlueP.
Import ListNotations.
Open Scope Q_scope.

(* ---- G2 (C08) ---- *)
Lemma vectorize_on_sweep bars L s e n k i : positive_bars bars -> SweepM.sweep false bars = Some L -> (i < n)%nat ->
  ApproxM.val_at (ApproxM.vectorize_values L s e n) k i == land bars (S k) (ApproxM.node s e n i).
Proof.
  intros PB RUN Hi. destruct (sweep_output_wf_P bars PB) as (L0 & R0 & _ & V & _).
  rewrite RUN in R0. inversion R0; subst L0.
  destruct (sweep_sem bars PB) as (L1 & R1 & _ & _ & EV). rewrite RUN in R1. inversion R1; subst L1.
  destruct (Nat.lt_ge_cases k (length L)) as [Hk|Hk].
  - rewrite ApproxP.vectorize_exact_P; auto.
    + rewrite <- (EV (S k)) by lia. replace (S k - 1)%nat with k by lia. reflexivity.
    + rewrite Forall_forall in V. apply V. apply nth_In. exact Hk.
  - rewrite (land_beyond bars L PB RUN) by lia.
    unfold ApproxM.val_at, ApproxM.vectorize_values.
    match goal with |- context [nth k (map ?f L) []] =>
      replace (nth k (map f L) []) with (@nil Q) by (symmetry; apply nth_overflow; rewrite map_length; exact Hk) end.
    destruct i; reflexivity.
Qed.

Lemma vectorize_exact_on_diagrams_P (bars : list bar) s e n : (forall a, In a bars -> fst a < snd a) ->
  exists L, SweepM.sweep false bars = Some L /\ Forall ApproxP.wellformed_depth L /\
    forall k i, (i < n)%nat ->
      ApproxM.val_at (ApproxM.vectorize_values L s e n) k i == land bars (S k) (ApproxM.node s e n i).
Proof. intro PB. destruct (sweep_output_wf_P bars PB) as (L & RUN & _ & W & _). exists L. split; [exact RUN|].
  split; [exact W|]. intros k i Hi. apply vectorize_on_sweep; auto. Qed.

Lemma vectorize_exact_on_exact_landscape_P dgms h dg bars s e n : nth_error dgms h = Some dg ->
  SweepM.finite_bars (SweepM.strip_trailing_inf dg) = Some bars -> positive_bars bars ->
  exists L, SweepM.exact_landscape false true dgms h = SweepM.Ok L /\
    forall k i, (i < n)%nat ->
      ApproxM.val_at (ApproxM.vectorize_values L s e n) k i == land bars (S k) (ApproxM.node s e n i).
Proof.
  intros HS HF PB. destruct (exact_landscape_sem dgms h dg bars HS HF PB) as (L & RUN & _ & _).
  exists L. split; [exact RUN|]. intros k i Hi.
  unfold SweepM.exact_landscape in RUN. rewrite HS in RUN. destruct dg as [|a r].
  - inversion RUN; subst. simpl in HF. inversion HF; subst bars.
    unfold land. simpl map. rewrite kth_nil. unfold ApproxM.val_at. simpl. destruct k, i; reflexivity.
  - rewrite HF in RUN. destruct (SweepM.sweep false bars) as [L'|] eqn:E; [|discriminate]. inversion RUN; subst L'.
    apply vectorize_on_sweep; auto.
Qed.

(* ---- G2 (C09) ---- *)
Definition from_diagram (d : Z) (D : list bar) (A : exactL) : Prop :=
  positive_bars D /\ SweepM.sweep false D = Some (e_cp A) /\ e_deg A = d.

Lemma leaf_is_land d D A : from_diagram d D A -> wfL (e_cp A) /\ forall k t, evalL (e_cp A) k t == land D (S k) t.
Proof. intros (PB & RUN & _).
  destruct (sweep_output_wf_P D PB) as (L0 & R0 & W & _). rewrite RUN in R0. inversion R0; subst L0.
  destruct (sweep_sem D PB) as (L1 & R1 & _ & _ & EV). rewrite RUN in R1. inversion R1. subst L1.
  split; [exact W|]. intros k t. unfold evalL. rewrite <- (EV (S k)) by lia. replace (S k - 1)%nat with k by lia. reflexivity. Qed.

Lemma Forall2_nth_error {X Y} (R : X -> Y -> Prop) l1 l2 : Forall2 R l1 l2 -> forall i,
  match nth_error l1 i, nth_error l2 i with
  | Some x, Some y => R x y | None, None => True | _, _ => False end.
Proof. induction 1; intros [|i]; simpl; auto. apply IHForall2. Qed.

Lemma expr_fun_land d dgs env e k t : Forall2 (from_diagram d) dgs env ->
  expr_fun env e k t == expr_land dgs e (S k) t.
Proof. intro F. induction e; simpl.
  - pose proof (Forall2_nth_error _ _ _ F i) as H.
    destruct (nth_error dgs i) as [D|], (nth_error env i) as [A|]; try contradiction; try reflexivity.
    apply (leaf_is_land d D A H).
  - rewrite IHe1, IHe2. reflexivity.
  - rewrite IHe1, IHe2. reflexivity.
  - rewrite IHe. reflexivity.
  - rewrite IHe. reflexivity.
  - rewrite IHe. reflexivity.
Qed.

Lemma arith_on_diagram_landscapes_P v d dgs env e :
  Forall2 (from_diagram d) dgs env -> expr_ok (length dgs) e ->
  exists R, eval_expr v env e = LandArithM.Ok R /\ e_deg R = d /\ wfL (e_cp R) /\
    forall k t, evalL (e_cp R) k t == expr_land dgs e (S k) t.
Proof.
  intros F OKe.
  assert (HL : length env = length dgs). { clear - F. induction F; simpl; auto. }
  assert (HE : forall A, In A env -> wfL (e_cp A) /\ e_deg A = d).
  { intros A HA. destruct (In_nth_error _ _ HA) as [i Hi].
    pose proof (Forall2_nth_error _ _ _ F i) as H. rewrite Hi in H.
    destruct (nth_error dgs i) as [D|]; [|contradiction]. split. apply (leaf_is_land d D A H). apply H. }
  rewrite <- HL in OKe.
  destruct (expr_pointwise_lemma v env d e HE OKe) as (R & RUN & DEG & W & EV).
  exists R. split; [exact RUN|]. split; [exact DEG|]. split; [exact W|].
  intros k t. rewrite EV. apply (expr_fun_land d); auto.
Qed.

(* every list of positive diagrams has such an environment *)
Lemma diagram_env_exists d dgs : (forall D, In D dgs -> positive_bars D) -> exists env, Forall2 (from_diagram d) dgs env.
Proof. induction dgs as [|D r IH]; intro H. exists []. constructor.
  destruct IH as (env & F). intros; apply H; right; auto.
  destruct (sweep_sem D (H D (or_introl eq_refl))) as (L & RUN & _).
  exists (mkE d L :: env). constructor; auto. split. apply H; left; auto. split; auto. Qed.
