(* C03 over the reals, part 2: the breakpoint lists computed by the (rational) sweep, read as functions
   of a REAL abscissa t, satisfy Bubenik's rank-function definition of the landscape at every real t:
       v < lambda_k(t)  <->  at least k bars have tent value > v at t        (v >= 0 real). *)
From Coq Require Import Reals QArith Qreals Lra List Bool Arith Lia Permutation.
From Persim Require Import Lib.Kth Lib.PL Spec.LandscapeS Spec.LandscapeRealS Model.SweepM Proofs.SweepSort Proofs.SweepShape
  Proofs.SweepInner Proofs.SweepP Proofs.SweepChain Proofs.SweepRealLib Proofs.KthReal.

Import ListNotations.
Open Scope R_scope.

Definition tentvR (A : list bar) (t : R) : list R := map (fun a => tR a t) A.

Lemma Q2R_0' : Q2R 0 = 0. Proof. unfold Q2R. simpl. lra. Qed.
Lemma Q2R_half x : Q2R (half x) = Q2R x / 2.
Proof. unfold half. rewrite Q2R_mult. replace (Q2R (1 # 2)) with (/ 2) by (unfold Q2R; simpl; lra). lra. Qed.
Lemma rp_peak b d : rp (peak b d) = pkR (Q2R b) (Q2R d).
Proof. unfold rp, peak, pkR. simpl. rewrite !Q2R_half, Q2R_plus, Q2R_minus. reflexivity. Qed.
Lemma rp_cross bp d : rp (cross bp d) = pkR (Q2R bp) (Q2R d).
Proof. unfold rp, cross, pkR. simpl. rewrite !Q2R_half, Q2R_plus, Q2R_minus. reflexivity. Qed.
Lemma rp_zero d : rp (d, 0%Q) = (Q2R d, 0).
Proof. unfold rp. simpl. rewrite Q2R_0'. reflexivity. Qed.

Lemma rmax_absorb a b g : g <= b -> Rmax a (Rmax b g) = Rmax a b.
Proof. intro. rmm. Qed.
Lemma rmax_drop a b g : a <= b -> Rmax a (Rmax b g) = Rmax b g.
Proof. intro. rmm. Qed.
Lemma rmax_ge_l a b : a <= Rmax a b. Proof. apply Rmax_l. Qed.

Lemma tentvR_perm A B t : Permutation A B -> Permutation (tentvR A t) (tentvR B t).
Proof. intro P. unfold tentvR. apply Permutation_map. auto. Qed.

Lemma tR_nested (x y : bar) t : (fst x <= fst y)%Q -> (snd y <= snd x)%Q -> tR y t <= tR x t.
Proof. intros A B. unfold tR. apply tentR_nested; apply Qle_Rle; auto. Qed.

Lemma chain_semR b d A tl A' : Chain b d A tl A' -> exists G : R -> R,
  (forall t, 0 <= G t) /\
  (forall t, t <= (Q2R b + Q2R d) / 2 -> G t <= tR (b, d) t) /\
  (forall t, (Q2R b + Q2R d) / 2 <= t ->
     pl_evalR (pkR (Q2R b) (Q2R d) :: map rp tl) t = Rmax (tR (b, d) t) (G t)) /\
  (forall F0, SInvR F0 (Q2R b) (Q2R d) -> forall t v, 0 <= v ->
     exR (F0 t :: tentvR A t) v = exR (Rmax (F0 t) (G t) :: tentvR A' t) v) /\
  (forall F0, SInvR F0 (Q2R b) (Q2R d) -> (forall x, In x A -> (snd x <= d)%Q -> forall t, tR x t <= F0 t) ->
     forall x, In x A' -> forall t, tR x t <= Rmax (F0 t) (G t)).
Proof.
  induction 1 as [b d A P ALL | b d A bp dp A1 A2 tl A' P BP PP DP PERM A2Q LATE CH IH].
  - (* close *)
    apply Qlt_Rlt in P. exists (fun _ => 0).
    split. intro; lra.
    split. intros; apply tentR_nonneg.
    split. { intros t H. simpl map. rewrite rp_zero. rewrite shapeR_close by auto. unfold tR. simpl.
             pose proof (tentR_nonneg (Q2R b) (Q2R d) t). rmm. }
    split.
    + intros F0 S0 t v Hv. pose proof (sr_dom _ _ _ S0 t). pose proof (tentR_nonneg (Q2R b) (Q2R d) t).
      replace (Rmax (F0 t) 0) with (F0 t) by (rmm). reflexivity.
    + intros F0 S0 U x Hx t. specialize (U x Hx (ALL x Hx) t). pose proof (Rmax_l (F0 t) 0). lra.
  - (* step *)
    destruct IH as (G' & G0 & GLE & SHAPE & RANK & UNDER).
    assert (rP := Qlt_Rlt _ _ P). assert (rBP := Qlt_Rlt _ _ BP).
    assert (rPP := Qlt_Rlt _ _ PP). assert (rDP := Qlt_Rlt _ _ DP).
    exists (fun t => Rmax (tR (bp, dp) t) (G' t)).
    assert (JS : (Q2R d < Q2R bp /\ map rp (junction d bp) = [(Q2R d, 0); (Q2R bp, 0)]) \/
                 (Q2R d = Q2R bp /\ map rp (junction d bp) = [(Q2R bp, 0)]) \/
                 (Q2R bp < Q2R d /\ map rp (junction d bp) = [pkR (Q2R bp) (Q2R d)])).
    { unfold junction. destruct (Qlt_bool d bp) eqn:E1, (Qle_bool d bp) eqn:E2; breflect.
      - left. split. apply Qlt_Rlt; auto. simpl. rewrite !rp_zero. reflexivity.
      - exfalso. apply Qlt_Rlt in E1. apply Qlt_Rlt in E2. lra.
      - right; left. split. apply Qle_Rle in E1. apply Qle_Rle in E2. lra. simpl. rewrite rp_zero. reflexivity.
      - right; right. split. apply Qlt_Rlt; auto. simpl. rewrite rp_cross. reflexivity. }
    assert (SD : forall F0, SInvR F0 (Q2R b) (Q2R d) ->
                 SInvR (fun t => Rmax (F0 t) (tR (bp, dp) t)) (Q2R bp) (Q2R dp)).
    { intros F0 S0. destruct A2Q as [[E _]|[E _]].
      - apply (stepR_disjoint F0 _ _ _ _ S0 (Qle_Rle _ _ E) rPP).
      - apply (stepR_overlap F0 _ _ _ _ S0 (Rlt_le _ _ rBP) (Qlt_Rlt _ _ E) rDP). }
    split. { intro t. pose proof (tentR_nonneg (Q2R bp) (Q2R dp) t). unfold tR. simpl. rmm. }
    split.
    { intros t Ht. apply Rmax_lub. unfold tR; simpl. apply chainR_before; auto.
      eapply Rle_trans. apply GLE. lra. unfold tR; simpl. apply chainR_before; auto. }
    split.
    { intros t Ht. rewrite map_app. simpl map. rewrite rp_peak.
      destruct (Rlt_le_dec ((Q2R bp + Q2R dp) / 2) t) as [L|Gt].
      - assert (E : pl_evalR (pkR (Q2R b) (Q2R d) :: map rp (junction d bp) ++ pkR (Q2R bp) (Q2R dp) :: map rp tl) t
                    = pl_evalR (pkR (Q2R bp) (Q2R dp) :: map rp tl) t).
        { destruct JS as [[J ->]|[[J ->]|[J ->]]]; simpl app.
          apply skipR_gap; auto. apply skipR_touch; auto. apply skipR_cross; auto. }
        rewrite E, SHAPE by lra. symmetry. apply rmax_drop. unfold tR; simpl. apply chainR_after; auto; lra.
      - rewrite rmax_absorb by (apply GLE; auto).
        destruct JS as [[J ->]|[[J ->]|[J ->]]]; simpl app; unfold tR; simpl.
        apply shapeR_gap; auto. apply shapeR_touch; auto. apply shapeR_cross; auto. }
    split.
    { intros F0 S0 t v Hv.
      transitivity (exR (F0 t :: tR (bp, dp) t :: tentvR A1 t) v).
      { apply exR_perm. apply perm_skip. change (tR (bp, dp) t :: tentvR A1 t) with (tentvR ((bp, dp) :: A1) t).
        apply tentvR_perm. exact PERM. }
      destruct A2Q as [[E E2]|[E E2]].
      - destruct (stepR_disjoint F0 _ _ _ _ S0 (Qle_Rle _ _ E) rPP) as (S' & RK).
        unfold tR at 1. simpl fst; simpl snd. rewrite RK by auto. rewrite <- E2.
        rewrite (RANK _ S' t v Hv). rewrite Rmax_assoc. reflexivity.
      - destruct (stepR_overlap F0 _ _ _ _ S0 (Rlt_le _ _ rBP) (Qlt_Rlt _ _ E) rDP) as (S' & RK).
        unfold tR at 1. simpl fst; simpl snd. rewrite RK.
        transitivity (exR (Rmax (F0 t) (tR (bp, dp) t) :: tentvR A2 t) v).
        { apply exR_perm. apply perm_skip.
          change (tentR (Q2R bp) (Q2R d) t :: tentvR A1 t) with (tentvR ((bp, d) :: A1) t).
          apply tentvR_perm. exact E2. }
        rewrite (RANK _ (SD F0 S0) t v Hv). rewrite Rmax_assoc. reflexivity. }
    { intros F0 S0 U x Hx t. rewrite Rmax_assoc. apply (UNDER _ (SD F0 S0)); auto.
      intros y Hy Hd s.
      assert (YY : In y A1 \/ (y = (bp, d) /\ (bp < d)%Q)).
      { destruct A2Q as [[E E2]|[E E2]]. subst A2; auto.
        apply (Permutation_in _ (Permutation_sym E2)) in Hy. destruct Hy as [<-|Hy]; auto. }
      destruct YY as [Hy1|[-> Hy1]].
      - destruct (Qlt_le_dec d (snd y)) as [L|Gd].
        + eapply Rle_trans; [|apply Rmax_r]. apply (tR_nested (bp, dp) y). simpl. apply LATE; auto. simpl. auto.
        + eapply Rle_trans; [|apply Rmax_l]. apply U; auto.
          apply (Permutation_in _ (Permutation_sym PERM)). right; auto.
      - eapply Rle_trans; [|apply Rmax_r]. apply (tR_nested (bp, dp) (bp, d)); simpl.
        apply Qle_refl. apply Qlt_le_weak; auto. }
Qed.

Lemma map_rp_first b d tl :
  map rp ((b, 0%Q) :: (half (b + d), half (d - b)) :: tl) = (Q2R b, 0) :: pkR (Q2R b) (Q2R d) :: map rp tl.
Proof. change (map rp ((b, 0%Q) :: (half (b + d), half (d - b)) :: tl)) with (rp (b, 0%Q) :: rp (peak b d) :: map rp tl).
  rewrite rp_zero, rp_peak. reflexivity. Qed.

(* ---- one pass, real t ---- *)
Lemma pass_semR b d A0 L1 A' : ssorted ((b, d) :: A0) -> positive ((b, d) :: A0) ->
  inner (S (length A0)) [(b, 0%Q); (half (b + d), half (d - b))] b d A0 = Some (L1, A') ->
  (forall t, 0 <= pl_evalR (map rp L1) t) /\
  (forall t x, In x A' -> tR x t <= pl_evalR (map rp L1) t) /\
  (forall t v, 0 <= v -> exR (tentvR ((b, d) :: A0) t) v = exR (pl_evalR (map rp L1) t :: tentvR A' t) v).
Proof.
  intros SA PA RUN. inversion SA as [|? ? HB S0]; subst.
  assert (P : (b < d)%Q) by (apply (PA (b, d)); left; auto).
  assert (I : Inv b d A0).
  { constructor; auto.
    - intros x Hx. apply PA. right; auto.
    - intros x Hx Hd. destruct (HB x Hx) as [K|[K1 K2]]; simpl in *; auto.
      exfalso. apply (Qlt_not_le _ _ Hd). auto. }
  assert (M : (cgt d A0 < S (length A0))%nat).
  { unfold cgt. pose proof (ex_le_length (map snd A0) d). rewrite map_length in H. lia. }
  rewrite inner_eq in RUN. destruct (inner_t (S (length A0)) b d A0) as [[tl A'']|] eqn:RT. 2: discriminate.
  inversion RUN; subst L1 A''. clear RUN.
  pose proof (inner_chain _ b d A0 I M tl A' RT) as CH.
  destruct (chain_semR b d A0 tl A' CH) as (G & G0 & GLE & SHAPE & RANK & UNDER).
  assert (rP := Qlt_Rlt _ _ P).
  change ([(b, 0%Q); (half (b + d), half (d - b))] ++ tl) with ((b, 0%Q) :: (half (b + d), half (d - b)) :: tl).
  rewrite map_rp_first.
  assert (EV : forall t, pl_evalR ((Q2R b, 0) :: pkR (Q2R b) (Q2R d) :: map rp tl) t = Rmax (tR (b, d) t) (G t)).
  { intro t. destruct (Rlt_le_dec ((Q2R b + Q2R d) / 2) t) as [L|Le].
    - rewrite riseR_skip by auto. apply SHAPE. lra.
    - rewrite riseR_to_peak by auto. symmetry. apply Rmax_left. apply GLE; auto. }
  assert (S0' : SInvR (fun t => tR (b, d) t) (Q2R b) (Q2R d)).
  { constructor; auto. intro; unfold tR; simpl; lra. }
  assert (U0 : forall x, In x A0 -> (snd x <= d)%Q -> forall t, tR x t <= tR (b, d) t).
  { intros x Hx Hd t. apply (tR_nested (b, d) x); simpl; auto. specialize (HB _ Hx). apply kle_birth in HB. auto. }
  split. { intro t. rewrite EV. pose proof (tentR_nonneg (Q2R b) (Q2R d) t). unfold tR; simpl. rmm. }
  split. { intros t x Hx. rewrite EV. apply (UNDER _ S0' U0 x Hx t). }
  intros t v Hv. change (tentvR ((b, d) :: A0) t) with (tR (b, d) t :: tentvR A0 t).
  rewrite (RANK _ S0' t v Hv). rewrite EV. reflexivity.
Qed.

(* ---- the outer loop, real t: Bubenik's rank-function definition of lambda_k ---- *)
Lemma outer_semR : forall fuel A, ssorted A -> positive A -> (length A < fuel)%nat ->
  forall Ls, outer false fuel A = Some Ls ->
  forall (k : nat) (t v : R), (1 <= k)%nat -> 0 <= v ->
    0 <= pl_evalR (map rp (nth (k - 1) Ls [])) t /\
    (v < pl_evalR (map rp (nth (k - 1) Ls [])) t <-> (k <= exR (tentvR A t) v)%nat).
Proof.
  induction fuel as [|f IH]; intros A SA PA HL Ls RUN k t v Hk Hv. lia.
  destruct A as [|[b d] A0].
  - simpl in RUN. inversion RUN; subst Ls. unfold exR, tentvR. destruct (k - 1)%nat; simpl; (split; [lra|]); split; intro; try lra; lia.
  - destruct (pass_sem b d A0 SA PA) as (L1 & A' & RUN1 & SA' & PA' & LEN & _).
    destruct (pass_semR b d A0 L1 A' SA PA RUN1) as (NN & UND & RK).
    change (outer false (S f) ((b, d) :: A0)) with
      (match inner (S (length A0)) [(b, 0%Q); (half (b + d), half (d - b))] b d A0 with
       | None => None
       | Some (L, A2) => match outer false f A2 with None => None | Some Ls => Some (L :: repeat L 0 ++ Ls) end
       end) in RUN.
    match type of RUN with context [inner ?a ?b ?c ?d ?e] =>
      replace (inner a b c d e) with (Some (L1, A')) in RUN by (symmetry; exact RUN1) end.
    destruct (outer false f A') as [Ls'|] eqn:RUN'. 2: discriminate.
    inversion RUN; subst Ls. clear RUN. simpl app.
    assert (HF : (length A' < f)%nat).
    { unfold lt in *. apply le_S_n. eapply Nat.le_trans; [|exact HL]. apply le_n_S. exact LEN. }
    rewrite RK by auto. rewrite exR_cons.
    set (M := pl_evalR (map rp L1) t) in *.
    assert (Z : M <= v -> exR (tentvR A' t) v = 0%nat).
    { intro Hm. apply exR_all_le. intros y Hy. unfold tentvR in Hy. apply in_map_iff in Hy.
      destruct Hy as (a & <- & Ha). specialize (UND t a Ha). fold M in UND. lra. }
    destruct k as [|[|k]]. lia.
    + simpl nth. fold M. split. apply NN. destruct (gtb v M) eqn:E.
      * apply gtb_true in E. split; intro; auto. lia.
      * apply gtb_false in E. rewrite (Z E). split; intro. lra. lia.
    + replace (nth (S (S k) - 1) (L1 :: Ls') []) with (nth (S k - 1) Ls' []) by (simpl; rewrite Nat.sub_0_r; reflexivity).
      destruct (IH A' SA' PA' HF Ls' RUN' (S k) t v ltac:(lia) Hv) as [N1 EQ]. split; auto.
      rewrite EQ. destruct (gtb v M) eqn:E.
      * lia.
      * apply gtb_false in E. rewrite (Z E). lia.
Qed.

Lemma sweep_semR bars L : positive_bars bars -> sweep false bars = Some L ->
  forall (k : nat) (t v : R), (1 <= k)%nat -> 0 <= v ->
    0 <= pl_evalR (map rp (nth (k - 1) L [])) t /\
    (v < pl_evalR (map rp (nth (k - 1) L [])) t <-> (k <= exR (tentvR bars t) v)%nat).
Proof.
  intros PB RUN k t v Hk Hv. unfold sweep in RUN.
  pose proof (sort_bars_perm bars) as PM.
  assert (PS : positive (sort_bars bars)).
  { intros x Hx. apply PB. eapply Permutation_in. apply Permutation_sym; eauto. auto. }
  assert (HL : (length (sort_bars bars) < S (length bars))%nat).
  { rewrite <- (Permutation_length PM). lia. }
  destruct (outer_semR _ _ (sort_bars_sorted bars) PS HL L RUN k t v Hk Hv) as [N EQ].
  split; auto. rewrite EQ. rewrite (exR_perm _ _ v (tentvR_perm _ _ t PM)). tauto.
Qed.

(* the rank-function characterisation pins the value *)
Lemma rank_pins_value (P : R -> Prop) x y : 0 <= x -> 0 <= y ->
  (forall v, 0 <= v -> (v < x <-> P v)) -> (forall v, 0 <= v -> (v < y <-> P v)) -> x = y.
Proof. intros X Y HX HY. destruct (Rtotal_order x y) as [L|[E|G]]; auto; exfalso.
  - apply (HY x X) in L. apply (HX x X) in L. lra.
  - apply (HX y Y) in G. apply (HY y Y) in G. lra. Qed.

(* on rational abscissae the real reading agrees with Lib.PL.pl_eval *)
Lemma plR_rational l (t : Q) : pl_evalR (map rp l) (Q2R t) = Q2R (pl_eval l t).
Proof.
  induction l as [|[x0 y0] r IH]. simpl. rewrite Q2R_0'. reflexivity.
  destruct r as [|[x1 y1] r'].
  - simpl. unfold rp; simpl. destruct (Req_EM_T (Q2R t) (Q2R x0)) as [E|N].
    + apply eqR_Qeq in E. replace (Qeq_bool t x0) with true by (symmetry; apply Qeq_bool_iff; auto). reflexivity.
    + destruct (Qeq_bool t x0) eqn:E. apply Qeq_bool_iff in E. apply Qeq_eqR in E. contradiction.
      rewrite Q2R_0'. reflexivity.
  - change (pl_eval ((x0, y0) :: (x1, y1) :: r') t) with
      (if Qlt_bool t x0 then 0%Q else if Qle_bool t x1 && Qlt_bool x0 x1
       then (y0 + (y1 - y0) * (t - x0) / (x1 - x0))%Q else pl_eval ((x1, y1) :: r') t).
    change (pl_evalR (map rp ((x0, y0) :: (x1, y1) :: r')) (Q2R t)) with
      (if Rlt_dec (Q2R t) (Q2R x0) then 0 else if Rle_dec (Q2R t) (Q2R x1) then
         (if Rlt_dec (Q2R x0) (Q2R x1)
          then Q2R y0 + (Q2R y1 - Q2R y0) * (Q2R t - Q2R x0) / (Q2R x1 - Q2R x0)
          else pl_evalR (map rp ((x1, y1) :: r')) (Q2R t))
       else pl_evalR (map rp ((x1, y1) :: r')) (Q2R t)).
    destruct (Qlt_bool t x0) eqn:E0; breflect.
    + apply Qlt_Rlt in E0. destruct (Rlt_dec (Q2R t) (Q2R x0)); [|lra]. rewrite Q2R_0'. reflexivity.
    + apply Qle_Rle in E0. destruct (Rlt_dec (Q2R t) (Q2R x0)); [lra|].
      destruct (Qle_bool t x1) eqn:E1; breflect.
      * apply Qle_Rle in E1. destruct (Rle_dec (Q2R t) (Q2R x1)); [|lra].
        destruct (Qlt_bool x0 x1) eqn:E2; breflect; simpl andb; cbv iota.
        -- assert (E2' := Qlt_Rlt _ _ E2). destruct (Rlt_dec (Q2R x0) (Q2R x1)); [|lra].
           rewrite Q2R_plus, Q2R_div, Q2R_mult, !Q2R_minus. reflexivity.
           intro Z. apply Qeq_eqR in Z. rewrite Q2R_minus, Q2R_0' in Z. lra.
        -- apply Qle_Rle in E2. destruct (Rlt_dec (Q2R x0) (Q2R x1)); [lra|]. exact IH.
      * apply Qlt_Rlt in E1. destruct (Rle_dec (Q2R t) (Q2R x1)); [lra|]. simpl andb. cbv iota. exact IH.
Qed.

(* ---- packaged for Properties/C03.v ---- *)
Lemma sweep_correct_at_reals bars : positive_bars bars ->
  exists L, sweep false bars = Some L /\ forall (k : nat) (t : R), (1 <= k)%nat -> is_landscape_value_at bars L k t.
Proof. intro PB. destruct (sweep_ok bars PB) as (L & RUN & _). exists L. split; auto.
  intros k t Hk. split.
  - destruct (sweep_semR bars L PB RUN k t 0 Hk (Rle_refl 0)) as [N _]. exact N.
  - intros v Hv. destruct (sweep_semR bars L PB RUN k t v Hk Hv) as [_ E]. exact E. Qed.

Lemma landscape_value_unique bars L L' k t : is_landscape_value_at bars L k t -> is_landscape_value_at bars L' k t ->
  pl_evalR (map rp (nth (k - 1) L [])) t = pl_evalR (map rp (nth (k - 1) L' [])) t.
Proof. intros [N1 E1] [N2 E2].
  apply (rank_pins_value (fun v => (k <= exR (map (fun a => tR a t) bars) v)%nat)); auto. Qed.

(* the property text verbatim: at every real t, depth k is the k-th largest tent value counted with multiplicity *)
Lemma sweep_kth_at_reals bars : positive_bars bars ->
  exists L, sweep false bars = Some L /\
    forall (k : nat) (t : R), (1 <= k)%nat ->
      pl_evalR (map rp (nth (k - 1) L [])) t = kthR (map (fun a => tR a t) bars) k.
Proof. intro PB. destruct (sweep_correct_at_reals bars PB) as (L & RUN & H). exists L. split; auto.
  intros k t Hk. destruct (H k t Hk) as [N E].
  apply (rank_pins_value (fun v => (k <= exR (map (fun a => tR a t) bars) v)%nat)); auto.
  - apply kthR_nonneg. intros x Hx. apply in_map_iff in Hx. destruct Hx as (a & <- & _). apply tentR_nonneg.
  - intros v Hv. apply kthR_ex; auto. Qed.

Lemma exact_landscape_kth_at_reals dgms h dg bars : nth_error dgms h = Some dg ->
  finite_bars (strip_trailing_inf dg) = Some bars -> positive_bars bars ->
  exists L, exact_landscape false true dgms h = Ok L /\
    forall (k : nat) (t : R), (1 <= k)%nat ->
      pl_evalR (map rp (nth (k - 1) L [])) t = kthR (map (fun a => tR a t) bars) k.
Proof. intros HS HF PB. unfold exact_landscape. rewrite HS. destruct dg as [|a r].
  - simpl in HF. inversion HF; subst bars. exists []. split; [reflexivity|].
    intros k t Hk. unfold kthR. simpl. destruct (k - 1)%nat; reflexivity.
  - rewrite HF. destruct (sweep_kth_at_reals bars PB) as (L & RUN & H). rewrite RUN. eauto. Qed.

Lemma legacy_kth_at_reals_when_silent bars : positive_bars bars -> shortcut_fires bars = false ->
  exists L, sweep true bars = Some L /\
    forall (k : nat) (t : R), (1 <= k)%nat ->
      pl_evalR (map rp (nth (k - 1) L [])) t = kthR (map (fun a => tR a t) bars) k.
Proof. intros PB NF. rewrite (sweep_nofire bars NF). apply sweep_kth_at_reals; auto. Qed.
