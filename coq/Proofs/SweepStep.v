From Coq Require Import QArith Qminmax Lqa List Bool Arith Lia Permutation.
From Persim Require Import Lib.Kth Lib.PL.
Import ListNotations.
Open Scope Q_scope.

Ltac qmm1 :=
  match goal with
  | |- context [Qmax ?a ?b] => let m := fresh "m" in generalize (Q.max_spec a b); generalize (Qmax a b); intros m
  | |- context [Qmin ?a ?b] => let m := fresh "m" in generalize (Q.min_spec a b); generalize (Qmin a b); intros m
  end.
Ltac qmm := repeat qmm1; intros;
  repeat match goal with H : _ \/ _ |- _ => destruct H | H : _ /\ _ |- _ => destruct H end.
Ltac utent := unfold tent, half in *; simpl fst in *; simpl snd in *.

Definition tentv (A : list bar) (t : Q) : list Q := map (fun a => tent a t) A.

(* ---------- rank-function algebra ---------- *)
Lemma ex_cons x l v : ex (x :: l) v = ((if Qlt_bool v x then 1 else 0) + ex l v)%nat.
Proof. unfold ex. simpl. destruct (Qlt_bool v x); simpl; lia. Qed.
Lemma Qlt_bool_compat v x y : x == y -> Qlt_bool v x = Qlt_bool v y.
Proof. intro E. destruct (Qlt_bool v x) eqn:A, (Qlt_bool v y) eqn:B; auto.
  apply Qlt_bool_iff in A. apply Qlt_bool_false in B. lra.
  apply Qlt_bool_iff in B. apply Qlt_bool_false in A. lra. Qed.
Lemma ex2_minmax x y l v : ex (x :: y :: l) v = ex (Qmax x y :: Qmin x y :: l) v.
Proof. rewrite !ex_cons.
  destruct (Q.max_spec x y) as [[H M]|[H M]], (Q.min_spec x y) as [[H' N]|[H' N]]; try lra;
  rewrite (Qlt_bool_compat v _ _ M), (Qlt_bool_compat v _ _ N); lia. Qed.
Lemma ex_head_eq x y l v : x == y -> ex (x :: l) v = ex (y :: l) v.
Proof. intro E. rewrite !ex_cons, (Qlt_bool_compat v _ _ E). auto. Qed.
Lemma ex_zero l v : 0 <= v -> ex (0 :: l) v = ex l v.
Proof. intro H. rewrite ex_cons. replace (Qlt_bool v 0) with false. auto. symmetry. apply Qlt_bool_false. auto. Qed.

(* ---------- pointwise facts about two tents ---------- *)
Lemma tent_nonneg a t : 0 <= tent a t.
Proof. utent. qmm; lra. Qed.
Lemma tent_nested b d b' d' t : b <= b' -> d' <= d -> tent (b',d') t <= tent (b,d) t.
Proof. intros. utent. qmm; lra. Qed.
Lemma tents_min b d b' d' t : b <= b' -> b' < d -> d <= d' ->
  Qmin (tent (b,d) t) (tent (b',d') t) == tent (b',d) t.
Proof. intros. utent. qmm; lra. Qed.
Lemma tents_before_cross b d b' d' t : b <= b' -> b' < d -> d <= d' -> t <= half (b'+d) ->
  tent (b',d') t <= tent (b,d) t /\ tent (b',d') t == tent (b',d) t.
Proof. intros. utent. split; qmm; lra. Qed.
Lemma tents_after_cross b d b' d' t : b <= b' -> b' < d -> d <= d' -> half (b'+d) <= t ->
  tent (b,d) t <= tent (b',d') t.
Proof. intros. utent. qmm; lra. Qed.
Lemma tents_disjoint b d b' d' t : d <= b' -> Qmin (tent (b,d) t) (tent (b',d') t) == 0.
Proof. intros. utent. qmm; lra. Qed.
Lemma tent_zero_after b d t : d <= t -> tent (b,d) t == 0.
Proof. intros. utent. qmm; lra. Qed.

(* ---------- the semantic state of the inner loop ---------- *)
Record SInv (F : Q -> Q) (b d : Q) : Prop := {
  s_pos  : b < d;
  s_dom  : forall t, tent (b,d) t <= F t;
  s_tail : forall t, half (b+d) <= t -> F t == tent (b,d) t }.

(* Case III: the next bar (b',d') overlaps the current one.  New envelope = pointwise max,
   and the pair {F, tent(b',d')} has the same rank function as {max, tent(b',d)}. *)
Lemma step_overlap F b d b' d' : SInv F b d -> b <= b' -> b' < d -> d < d' ->
  let F' := fun t => Qmax (F t) (tent (b',d') t) in
  SInv F' b' d' /\
  (forall t, Qmin (F t) (tent (b',d') t) == tent (b',d) t) /\
  (forall t l v, ex (F t :: tent (b',d') t :: l) v = ex (F' t :: tent (b',d) t :: l) v) /\
  (forall t, t <= half (b'+d) -> F' t == F t) /\
  (forall t, half (b'+d) <= t -> F' t == tent (b',d') t).
Proof.
  intros [P D T] Hb Hbd Hd F'.
  assert (MIN : forall t, Qmin (F t) (tent (b',d') t) == tent (b',d) t).
  { intro t. destruct (Qlt_le_dec t (half (b+d))) as [L|G].
    - assert (t <= half (b'+d)) by (unfold half in *; lra).
      destruct (tents_before_cross b d b' d' t) as [X Y]; auto; try lra.
      specialize (D t). rewrite <- Y. apply Q.min_r. lra.
    - rewrite (T t G). apply tents_min; lra. }
  assert (AFTER : forall t, half (b'+d) <= t -> F t <= tent (b',d') t).
  { intros t H. assert (half (b+d) <= t) by (unfold half in *; lra).
    rewrite (T t H0). apply tents_after_cross; lra. }
  split; [|split; [|split; [|split]]]; auto.
  - constructor. lra.
    + intro t. unfold F'. apply Q.le_max_r.
    + intros t H. unfold F'. apply Q.max_r. apply AFTER. unfold half in *; lra.
  - intros t l v. unfold F'. rewrite ex2_minmax.
    rewrite !ex_cons. rewrite (Qlt_bool_compat v _ _ (MIN t)). lia.
  - intros t H. unfold F'. apply Q.max_l.
    destruct (tents_before_cross b d b' d' t) as [X _]; auto; try lra. specialize (D t). lra.
  - intros t H. unfold F'. apply Q.max_r. auto.
Qed.

(* Cases I/II: the next bar starts at or after the current death. *)
Lemma step_disjoint F b d b' d' : SInv F b d -> d <= b' -> b' < d' ->
  let F' := fun t => Qmax (F t) (tent (b',d') t) in
  SInv F' b' d' /\
  (forall t l v, 0 <= v -> ex (F t :: tent (b',d') t :: l) v = ex (F' t :: l) v) /\
  (forall t, t <= b' -> F' t == F t) /\ (forall t, b' <= t -> F' t == tent (b',d') t).
Proof.
  intros [P D T] Hb Hp F'.
  assert (Z : forall t, d <= t -> F t == 0).
  { intros t H. rewrite T by (unfold half; lra). apply tent_zero_after; auto. }
  assert (MIN : forall t, Qmin (F t) (tent (b',d') t) == 0).
  { intro t. destruct (Qlt_le_dec t b') as [L|G].
    - assert (tent (b',d') t == 0) by (utent; qmm; lra). rewrite H. apply Q.min_r.
      specialize (D t). pose proof (tent_nonneg (b,d) t). lra.
    - rewrite (Z t ltac:(lra)). apply Q.min_l. apply tent_nonneg. }
  split; [|split; [|split]].
  - constructor; auto.
    + intro t. unfold F'. apply Q.le_max_r.
    + intros t H. unfold F'. apply Q.max_r. rewrite Z. apply tent_nonneg. unfold half in *; lra.
  - intros t l v Hv. unfold F'. rewrite ex2_minmax. rewrite ex_cons.
    rewrite (ex_head_eq _ 0 l v (MIN t)). rewrite ex_zero by auto. rewrite ex_cons. auto.
  - intros t H. unfold F'. apply Q.max_l. assert (tent (b',d') t == 0) by (utent; qmm; lra).
    rewrite H0. specialize (D t). pose proof (tent_nonneg (b,d) t). lra.
  - intros t H. unfold F'. apply Q.max_r. rewrite Z by lra. apply tent_nonneg.
Qed.
