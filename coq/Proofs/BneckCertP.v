(* Soundness of the executable checkers of Corr/BneckCorr.v (the certificates with which the
   bottleneck model is executed), and the C06 certificate theorem for the model's matching rows. *)
From Coq Require Import QArith Qminmax Qabs List Bool Arith ZArith Permutation Lia Sorted Lqa.
From Persim Require Import Spec.PartialMatching Spec.BottleneckS Spec.BneckCertS Lib.AugMatching
  Model.BneckM Proofs.BneckP Corr.BneckCorr.
Import ListNotations.
Open Scope Q_scope.

(* ------------------------------------------------------------------ matching_check *)

Lemma nodupb_NoDup l : nodupb l = true -> NoDup l.
Proof.
  induction l as [|x r IH]; simpl; intros H; [constructor|].
  apply andb_true_iff in H. destruct H as [H1 H2]. constructor; [|apply IH, H2].
  intros I. apply existsb_eqb_In in I. rewrite I in H1. discriminate.
Qed.

Lemma matching_check_ok g m : matching_check g m = true -> is_matching g m.
Proof.
  unfold matching_check. rewrite !andb_true_iff. intros [[A B] C].
  split; [apply nodupb_NoDup, A|]. split; [apply nodupb_NoDup, B|].
  intros p I. rewrite forallb_forall in C. specialize (C p I). now apply existsb_eqb_In in C.
Qed.

Lemma perfect_check_ok g m : perfect_check g m = true -> is_matching g m /\ length m = length g.
Proof.
  unfold perfect_check. rewrite andb_true_iff. intros [A B].
  split; [apply matching_check_ok, A|now apply Nat.eqb_eq].
Qed.

(* ------------------------------------------------------------------ hall_check *)

Fixpoint lookup_In i (m : matching) j : lookup i m = Some j -> In (i, j) m.
Proof.
  destruct m as [|[a b] r]; simpl; [discriminate|].
  destruct (a =? i)%nat eqn:E.
  - intros H. injection H as <-. apply Nat.eqb_eq in E. subst. now left.
  - intros H. right. apply (lookup_In i r j H).
Qed.

Lemma lookup_some i (m : matching) : In i (map fst m) -> exists j, lookup i m = Some j.
Proof.
  induction m as [|[a b] r IH]; simpl; [tauto|].
  destruct (a =? i)%nat eqn:E; [intros _; now exists b|].
  intros [H|H]; [apply Nat.eqb_neq in E; contradiction|apply IH, H].
Qed.

Lemma nodup_snd_inj (m : matching) p q : NoDup (map snd m) -> In p m -> In q m -> snd p = snd q -> p = q.
Proof.
  induction m as [|x l IH]; simpl; [tauto|]. intros ND Ip Iq E. inversion ND; subst.
  destruct Ip as [->|Ip], Iq as [->|Iq]; auto.
  - exfalso. apply H1. rewrite E. now apply in_map.
  - exfalso. apply H1. rewrite <- E. now apply in_map.
Qed.
Lemma nodup_fst_inj (m : matching) p q : NoDup (map fst m) -> In p m -> In q m -> fst p = fst q -> p = q.
Proof.
  induction m as [|x l IH]; simpl; [tauto|]. intros ND Ip Iq E. inversion ND; subst.
  destruct Ip as [->|Ip], Iq as [->|Iq]; auto.
  - exfalso. apply H1. rewrite E. now apply in_map.
  - exfalso. apply H1. rewrite <- E. now apply in_map.
Qed.

Lemma NoDup_map_inj_on {A B} (f : A -> B) (l : list A) :
  NoDup l -> (forall x y, In x l -> In y l -> f x = f y -> x = y) -> NoDup (map f l).
Proof.
  induction l as [|a l IH]; simpl; intros ND H; [constructor|]. inversion ND; subst. constructor.
  - intros I. apply in_map_iff in I. destruct I as [y [E I]].
    assert (y = a) by (apply H; auto). subst. contradiction.
  - apply IH; [assumption|]. intros; apply H; auto.
Qed.

(* a perfect matching covers every row *)
Lemma perfect_rows g (m : matching) : is_matching g m -> length m = length g ->
  forall i, (i < length g)%nat -> In i (map fst m).
Proof.
  intros IM L i Li. pose proof IM as (A & _ & _).
  assert (P : Permutation (map fst m) (seq 0 (length g))).
  { apply NoDup_Permutation_bis; [exact A|now rewrite seq_length, map_length, L|].
    intros k I. apply in_map_iff in I. destruct I as [p [<- I]]. apply in_seq.
    pose proof (matching_rows_lt g m IM p I). lia. }
  apply (Permutation_in _ (Permutation_sym P)). apply in_seq. lia.
Qed.

(* Hall's easy direction: rows X with fewer than |X| neighbours rule out a perfect matching *)
Theorem hall_check_sound g X : hall_check g X = true ->
  forall m, is_matching g m -> length m <> length g.
Proof.
  unfold hall_check. rewrite !andb_true_iff. intros [[A B] C] m IM L.
  apply nodupb_NoDup in A. rewrite forallb_forall in B. apply Nat.ltb_lt in C.
  pose proof IM as (NF & NS & G).
  set (f := fun i => match lookup i m with Some j => j | None => O end).
  assert (F : forall i, In i X -> In (i, f i) m).
  { intros i I. specialize (B i I). apply Nat.ltb_lt in B.
    destruct (lookup_some i m (perfect_rows g m IM L i B)) as [j E].
    unfold f. rewrite E. apply lookup_In, E. }
  assert (ND : NoDup (map f X)).
  { apply NoDup_map_inj_on; [exact A|]. intros a b Ia Ib E.
    pose proof (nodup_snd_inj m (a, f a) (b, f b) NS (F a Ia) (F b Ib) E) as H. now injection H. }
  assert (INC : incl (map f X) (neighbours g X)).
  { intros j I. apply in_map_iff in I. destruct I as [i [<- I]]. unfold neighbours. apply nodup_In.
    apply in_flat_map. exists i. split; [exact I|]. apply (G (i, f i) (F i I)). }
  pose proof (NoDup_incl_length ND INC) as LE. rewrite map_length in LE. lia.
Qed.

(* ------------------------------------------------------------------ the certified run *)

(* With accepted certificates, feasibility of a threshold d of the model's matrix is decided by
   vstar <= d: the matching Estar serves every d >= vstar, the Hall violator X every d below. *)
Lemma graph_mono_in D d d' i j : cle d d' = true ->
  In j (nth i (graph D d) []) -> In j (nth i (graph D d') []).
Proof.
  intros C I. apply in_graph in I. apply in_graph. split; [tauto|]. eapply cle_trans; [apply I|exact C].
Qed.

Lemma neighbours_mono D d d' X : cle d d' = true ->
  incl (neighbours (graph D d) X) (neighbours (graph D d') X).
Proof.
  intros C j I. unfold neighbours in *. apply nodup_In in I. apply nodup_In.
  apply in_flat_map in I. destruct I as [i [Ii Ij]]. apply in_flat_map. exists i.
  split; [exact Ii|]. eapply graph_mono_in; eassumption.
Qed.

Lemma graph_length D d : length (graph D d) = length D.
Proof. unfold graph. apply map_length. Qed.

Lemma hall_check_down D d d' X : cle d d' = true -> hall_check (graph D d') X = true -> ~ feas D d.
Proof.
  intros C H [m [IM L]].
  apply (hall_check_sound (graph D d') X H m).
  - destruct IM as (A & B & G). repeat split; auto. intros p I. eapply graph_mono_in; [exact C|apply G, I].
  - now rewrite graph_length.
Qed.

(* ------------------------------------------------------------------ C06: the matching rows *)

Definition inj_row (r : brow) : mrow := (col0 r, col1 r, CFin (rcost r)).
Definition proj_row (r : mrow) : brow :=
  (fst (fst r), snd (fst r), match snd r with CFin q => q | CInf => 0 end).

Lemma proj_inj r : proj_row (inj_row r) = r.
Proof. destruct r as [[i j] c]. reflexivity. Qed.

(* the row(s) produced by lines 122-132 for the matched cell (i,j) *)
Definition rowc (D : list (list cost)) (M N : nat) (p : nat * nat) : list mrow :=
  let d := entry D (fst p) (snd p) in
  if (fst p <? M)%nat then [(Z.of_nat (fst p), if (N <=? snd p)%nat then (-1)%Z else Z.of_nat (snd p), d)]
  else if (N <=? snd p)%nat then [] else [((-1)%Z, Z.of_nat (snd p), d)].

Definition cells_of (mt : matching) (rows : list nat) : list (nat * nat) :=
  flat_map (fun i => match lookup i mt with Some j => [(i, j)] | None => [] end) rows.

Lemma match_rows_flat D M N mt rows : (forall i, In i rows -> exists j, lookup i mt = Some j) ->
  match_rows D M N mt rows = Some (flat_map (rowc D M N) (cells_of mt rows)).
Proof.
  induction rows as [|i rest IH]; intros H; [reflexivity|].
  destruct (H i (or_introl eq_refl)) as [j E].
  assert (C : cells_of mt (i :: rest) = (i, j) :: cells_of mt rest).
  { unfold cells_of. simpl. now rewrite E. }
  rewrite C. cbn [match_rows flat_map]. rewrite E, IH by (intros; apply H; now right).
  unfold rowc. cbn [fst snd].
  destruct (i <? M)%nat; [reflexivity|]. destruct (N <=? j)%nat; reflexivity.
Qed.

Lemma cells_of_fst mt rows : (forall i, In i rows -> exists j, lookup i mt = Some j) ->
  map fst (cells_of mt rows) = rows.
Proof.
  induction rows as [|i rest IH]; intros H; [reflexivity|]. unfold cells_of. simpl.
  destruct (H i (or_introl eq_refl)) as [j E]. rewrite E. simpl. f_equal.
  apply IH. intros; apply H; now right.
Qed.

Lemma cells_of_perm g (mt : matching) : is_matching g mt -> length mt = length g ->
  Permutation (cells_of mt (seq 0 (length g))) mt.
Proof.
  intros IM L. pose proof IM as (NF & NS & G).
  assert (LK : forall i, In i (seq 0 (length g)) -> exists j, lookup i mt = Some j).
  { intros i I. apply in_seq in I. apply lookup_some, (perfect_rows g mt IM L). lia. }
  apply NoDup_Permutation.
  - apply (NoDup_map_inv fst). rewrite cells_of_fst by exact LK. apply seq_NoDup.
  - apply (NoDup_map_inv fst), NF.
  - intros [i j]. unfold cells_of. rewrite in_flat_map. split.
    + intros [k [Ik H]]. destruct (lookup k mt) as [j'|] eqn:E; [|destruct H].
      destruct H as [H|[]]. injection H as -> ->. apply lookup_In, E.
    + intros I. exists i. split.
      * apply in_seq. pose proof (matching_rows_lt g mt IM (i, j) I). simpl in *. lia.
      * destruct (lookup_some i mt) as [j' E]; [apply (in_map fst _ _ I)|]. rewrite E.
        pose proof (nodup_fst_inj mt (i, j') (i, j) NF (lookup_In _ _ _ E) I eq_refl) as H.
        injection H as ->. now left.
Qed.

Lemma flat_map_single {A B} (f : A -> list B) g l : (forall x, In x l -> f x = [g x]) -> flat_map f l = map g l.
Proof.
  induction l as [|a l IH]; simpl; intros H; [reflexivity|].
  rewrite H by now left. simpl. f_equal. apply IH. intros; apply H; now right.
Qed.
Lemma flat_map_map' {A B C} (f : B -> list C) (g : A -> B) l : flat_map f (map g l) = flat_map (fun x => f (g x)) l.
Proof. induction l; simpl; [reflexivity|now rewrite IHl]. Qed.
Lemma flat_map_none {A B} (f : A -> list B) l : (forall x, In x l -> f x = []) -> flat_map f l = [].
Proof.
  induction l as [|a l IH]; simpl; intros H; [reflexivity|].
  rewrite H by now left. simpl. apply IH. intros; apply H; now right.
Qed.

Lemma Permutation_filter {A} (f : A -> bool) l l' : Permutation l l' -> Permutation (filter f l) (filter f l').
Proof.
  induction 1; simpl.
  - constructor.
  - destruct (f x); [now constructor|assumption].
  - destruct (f x), (f y); try apply Permutation_refl. apply perm_swap.
  - eapply Permutation_trans; eassumption.
Qed.

Lemma maxl_perm l l' : Permutation l l' -> maxl l == maxl l'.
Proof.
  intros P. apply Qle_antisym; apply maxl_mono; intros x I; apply maxl_ge.
  - apply (Permutation_in _ P I).
  - apply (Permutation_in _ (Permutation_sym P) I).
Qed.

Lemma bneck_cert_perm S T v r r' : Permutation r r' -> bneck_cert S T v r -> bneck_cert S T v r'.
Proof.
  intros P (A & B & C & E). repeat split.
  - unfold idx_cover in *. rewrite <- A. apply Permutation_sym, Permutation_filter, Permutation_map, P.
  - unfold idx_cover in *. rewrite <- B. apply Permutation_sym, Permutation_filter, Permutation_map, P.
  - eapply Permutation_Forall; eassumption.
  - rewrite <- E. apply maxl_perm, Permutation_map, Permutation_sym, P.
Qed.

Lemma filter_nat_cols (l : list nat) : filter (fun z => negb (is_diag z)) (map Z.of_nat l) = map Z.of_nat l.
Proof.
  induction l as [|a l IH]; simpl; [reflexivity|].
  assert (E : is_diag (Z.of_nat a) = false) by (unfold is_diag; apply Z.eqb_neq; lia).
  rewrite E. simpl. now rewrite IH.
Qed.
Lemma filter_diag_cols {A} (l : list A) : filter (fun z => negb (is_diag z)) (map (fun _ => (-1)%Z) l) = [].
Proof. induction l; simpl; [reflexivity|exact IHl]. Qed.

(* the canonical certificate of a partial matching m *)
Definition canon_rows (S T : list qpoint) (m : pmatching) : list brow :=
  map (fun p => (Z.of_nat (fst p), Z.of_nat (snd p), linf (nth (fst p) S (0, 0)) (nth (snd p) T (0, 0)))) m
  ++ map (fun i => (Z.of_nat i, (-1)%Z, diagB (nth i S (0, 0)))) (unmatched_l (length S) m)
  ++ map (fun j => ((-1)%Z, Z.of_nat j, diagB (nth j T (0, 0)))) (unmatched_r (length T) m).

Lemma canon_cert S T m : valid_for S T m -> bneck_cert S T (bcost S T m) (canon_rows S T m).
Proof.
  intros V. destruct (valid_pm_fst _ _ _ V) as [A1 B1]. destruct (valid_pm_snd _ _ _ V) as [A2 B2].
  unfold canon_rows. repeat split.
  - unfold idx_cover. rewrite !map_app, !map_map. unfold col0. simpl.
    rewrite !filter_app.
    rewrite <- (map_map fst Z.of_nat m), !filter_nat_cols, filter_diag_cols, app_nil_r, <- map_app.
    apply Permutation_map. exact (unmatched_perm _ _ A1 B1).
  - unfold idx_cover. rewrite !map_app, !map_map. unfold col1. simpl.
    rewrite !filter_app.
    rewrite <- (map_map snd Z.of_nat m), !filter_nat_cols, filter_diag_cols. simpl. rewrite <- map_app.
    apply Permutation_map. exact (unmatched_perm _ _ A2 B2).
  - rewrite !Forall_app. repeat split; apply Forall_forall; intros r I; apply in_map_iff in I;
      destruct I as [a [<- I]]; unfold row_cost_ok, col0, col1, rcost; simpl.
    + assert (E1 : is_diag (Z.of_nat (fst a)) = false) by (unfold is_diag; apply Z.eqb_neq; lia).
      assert (E2 : is_diag (Z.of_nat (snd a)) = false) by (unfold is_diag; apply Z.eqb_neq; lia).
      rewrite E1, E2, !Nat2Z.id. apply Qeq_refl.
    + assert (E1 : is_diag (Z.of_nat a) = false) by (unfold is_diag; apply Z.eqb_neq; lia).
      rewrite E1. change (is_diag (-1)) with true. rewrite Nat2Z.id. apply Qeq_refl.
    + assert (E1 : is_diag (Z.of_nat a) = false) by (unfold is_diag; apply Z.eqb_neq; lia).
      rewrite E1. change (is_diag (-1)) with true. rewrite Nat2Z.id. apply Qeq_refl.
  - unfold bcost, bcosts, pm_costs. rewrite !map_app, !map_map. unfold rcost. simpl. apply Qeq_refl.
Qed.

Section Rows.
  Variables (S T : list qpoint).
  Notation M := (length S).
  Notation N := (length T).
  Notation K := (length S + length T)%nat.
  Notation D := (aug S T).

  (* the rows computed from a perfect matching of a finite threshold graph are, up to order, the
     canonical certificate of its restriction *)
  Lemma rows_of_good v mt : good D (CFin v) mt ->
    Permutation (flat_map (rowc D M N) mt) (map inj_row (canon_rows S T (restrict M N mt))).
  Proof.
    intros G. destruct (good_perfect S T _ _ G) as [PE H].
    assert (AV : avoids M N mt).
    { intros c I. destruct (forbidden M N c) eqn:F; [|reflexivity].
      specialize (H c I). rewrite (forbidden_inf S T c F) in H. discriminate. }
    pose proof (restrict_valid _ _ _ PE) as V. pose proof V as (_ & _ & VB).
    rewrite (Permutation_flat_map (rowc D M N) (restrict_cells M N mt PE AV)).
    rewrite !flat_map_app. unfold canon_rows. rewrite !map_app, !map_map.
    apply Permutation_app; [|apply Permutation_app].
    - erewrite flat_map_single; [apply Permutation_refl|]. intros p I. destruct (VB p I) as [Li Lj].
      unfold rowc, inj_row, col0, col1, rcost. simpl.
      rewrite entry_aug by lia. destruct p as [i j]. simpl in *. rewrite cell_ul by assumption.
      apply Nat.ltb_lt in Li. rewrite Li. assert (E : (N <=? j)%nat = false) by (apply Nat.leb_gt; lia).
      now rewrite E.
    - rewrite flat_map_map'. erewrite flat_map_single; [apply Permutation_refl|]. intros i I.
      apply unmatched_In in I. destruct I as [Li _].
      unfold rowc, inj_row, col0, col1, rcost. simpl.
      rewrite entry_aug by lia. rewrite cell_ur by assumption.
      apply Nat.ltb_lt in Li. rewrite Li. assert (E : (N <=? N + i)%nat = true) by (apply Nat.leb_le; lia).
      now rewrite E.
    - rewrite (flat_map_none _ (lower_right M N mt)), app_nil_r.
      + rewrite flat_map_map'. erewrite flat_map_single; [apply Permutation_refl|]. intros j I.
        apply unmatched_In in I. destruct I as [Lj _].
        unfold rowc, inj_row, col0, col1, rcost. simpl.
        rewrite entry_aug by lia. rewrite cell_ll by assumption.
        assert (E1 : (M + j <? M)%nat = false) by (apply Nat.ltb_ge; lia).
        assert (E2 : (N <=? j)%nat = false) by (apply Nat.leb_gt; lia). now rewrite E1, E2.
      + intros p I. destruct (lower_right_block M N mt PE p I) as [[L1 _] [L2 _]]. unfold rowc.
        assert (E1 : (fst p <? M)%nat = false) by (apply Nat.ltb_ge; lia).
        assert (E2 : (N <=? snd p)%nat = true) by (apply Nat.leb_le; lia). now rewrite E1, E2.
  Qed.
End Rows.

Theorem bneck_matching_cert oracle : max_matching_oracle oracle ->
  forall S T : list xpoint, wfdgm (finite S) -> wfdgm (finite T) ->
  exists v rows qrows,
    bottleneck_full oracle S T = Some (CFin v, rows) /\
    rows = map inj_row qrows /\
    bneck_cert (prep (finite S)) (prep (finite T)) v qrows /\
    is_bottleneck (finite S) (finite T) v /\
    bottleneck_model oracle S T = Some (CFin v).
Proof.
  intros OM S T WS WT. unfold bottleneck_full, bottleneck_model.
  set (S' := prep (finite S)). set (T' := prep (finite T)).
  assert (KP : (0 < length S' + length T')%nat) by (pose proof (prep_pos (finite S)); unfold S'; lia).
  destruct (search_correct S' T' oracle OM KP (prep_wf _ WS) (prep_wf _ WT)) as (v & mt & EQ & G & IB & EV).
  rewrite EQ. pose proof G as [IM L].
  assert (LG : length mt = length (graph (aug S' T') (CFin v))) by (rewrite graph_length; exact L).
  assert (LK : length (graph (aug S' T') (CFin v)) = (length S' + length T')%nat)
    by now rewrite graph_length, aug_length.
  pose proof (cells_of_perm _ mt IM LG) as CP. rewrite LK in CP.
  rewrite match_rows_flat.
  2:{ intros i I. apply in_seq in I. apply lookup_some, (perfect_rows _ mt IM LG). rewrite LK. lia. }
  set (rows := flat_map (rowc (aug S' T') (length S') (length T')) (cells_of mt (seq 0 (length S' + length T')))).
  assert (PR : Permutation rows (map inj_row (canon_rows S' T' (restrict (length S') (length T') mt)))).
  { unfold rows. rewrite (Permutation_flat_map _ CP). apply (rows_of_good S' T' v mt G). }
  exists v, rows, (map proj_row rows). split; [reflexivity|]. split.
  - rewrite map_map. rewrite <- (map_id rows) at 1. apply map_ext_in. intros r I.
    pose proof (Permutation_in _ PR I) as J. apply in_map_iff in J. destruct J as [q [<- _]].
    now rewrite proj_inj.
  - split; [|split; [apply prep_neutral, IB|reflexivity]].
    assert (V : valid_for S' T' (restrict (length S') (length T') mt)).
    { destruct (good_perfect S' T' _ _ G) as [PE _]. apply restrict_valid, PE. }
    apply (bneck_cert_perm S' T' v (canon_rows S' T' (restrict (length S') (length T') mt))).
    + apply Permutation_sym. pose proof (Permutation_map proj_row PR) as Q.
      rewrite map_map in Q. rewrite (map_ext _ (fun r => r)) in Q by apply proj_inj. now rewrite map_id in Q.
    + destruct (canon_cert S' T' _ V) as (A & B & C & E). repeat split; auto.
      rewrite E. exact EV.
Qed.

Lemma matching_flag_irrelevant_lemma oracle : max_matching_oracle oracle ->
  forall S T : list xpoint, wfdgm (finite S) -> wfdgm (finite T) ->
  option_map fst (bottleneck_full oracle S T) = bottleneck_model oracle S T.
Proof.
  intros OM S T WS WT. destruct (bneck_matching_cert oracle OM S T WS WT) as (v & rows & q & E1 & _ & _ & _ & E2).
  now rewrite E1, E2.
Qed.

(* ------------------------------------------------------------------ the boolean certificate checker *)

Lemma Qclose0 a b : Qclose 0 a b = true -> a == b.
Proof.
  unfold Qclose. intros H. apply Qle_bool_iff in H. apply Qabs_Qle_condition in H. lra.
Qed.

Lemma idx_cover_b_sound n col : idx_cover_b n col = true -> idx_cover n col.
Proof.
  unfold idx_cover_b, idx_cover. set (l := filter (fun z => negb (is_diag z)) col).
  rewrite andb_true_iff. intros [L F]. apply Nat.eqb_eq in L. rewrite forallb_forall in F.
  apply Permutation_sym. apply NoDup_Permutation_bis.
  - apply FinFun.Injective_map_NoDup; [intros a b; apply Nat2Z.inj|apply seq_NoDup].
  - rewrite map_length, seq_length. lia.
  - intros z I. apply in_map_iff in I. destruct I as [i [<- I]]. specialize (F i I).
    apply existsb_exists in F. destruct F as [y [Iy E]]. apply Z.eqb_eq in E. now subst.
Qed.

Lemma row_cost_ok_b_sound S T r : row_cost_ok_b 0 S T r = true -> row_cost_ok S T r.
Proof.
  unfold row_cost_ok_b, row_cost_ok. destruct (is_diag (col0 r)), (is_diag (col1 r));
    try discriminate; apply Qclose0.
Qed.

Theorem bneck_cert_check_sound S T v rows : bneck_cert_check S T v rows = true -> bneck_cert S T v rows.
Proof.
  unfold bneck_cert_check, bneck_cert_check_tol. rewrite !andb_true_iff. intros [[[A B] C] E].
  split; [apply idx_cover_b_sound, A|]. split; [apply idx_cover_b_sound, B|]. split.
  - apply Forall_forall. intros r I. rewrite forallb_forall in C. apply row_cost_ok_b_sound, C, I.
  - apply Qclose0, E.
Qed.

(* ------------------------------------------------------------------ the certified run equals every real run *)

Lemma nodupb_complete l : NoDup l -> nodupb l = true.
Proof.
  induction 1 as [|x l NI ND IH]; simpl; [reflexivity|]. rewrite IH, andb_true_r.
  destruct (existsb (Nat.eqb x) l) eqn:E; [|reflexivity]. apply existsb_eqb_In in E. contradiction.
Qed.

Lemma perfect_check_complete g m : is_matching g m -> length m = length g -> perfect_check g m = true.
Proof.
  intros (A & B & G) L. unfold perfect_check, matching_check.
  rewrite (nodupb_complete _ A), (nodupb_complete _ B). simpl. apply andb_true_iff. split.
  - apply forallb_forall. intros p I. apply existsb_eqb_In, G, I.
  - now apply Nat.eqb_eq.
Qed.

Lemma pred_threshold_In ds v x : pred_threshold ds v = Some x -> In x ds.
Proof.
  induction ds as [|d r IH]; simpl; [discriminate|]. destruct (cle v d); [discriminate|].
  destruct (pred_threshold r v) as [y|]; intros E; injection E as <-; [right; now apply IH|now left].
Qed.

Lemma pred_threshold_above ds v d : StronglySorted cleP ds -> In d ds -> cle v d = false ->
  exists dp, pred_threshold ds v = Some dp /\ cle d dp = true.
Proof.
  induction ds as [|d0 r IH]; simpl; [tauto|]. intros SS I C. inversion SS as [|? ? Sr F0]; subst.
  rewrite Forall_forall in F0.
  assert (C0 : cle v d0 = false).
  { destruct I as [->|I]; [exact C|]. destruct (cle v d0) eqn:E; [|reflexivity].
    rewrite (cle_trans v d0 d E (F0 d I)) in C. discriminate. }
  rewrite C0. destruct I as [->|I].
  - destruct (pred_threshold r v) as [y|] eqn:E.
    + exists y. split; [reflexivity|]. apply F0, (pred_threshold_In _ _ _ E).
    + exists d. split; [reflexivity|apply cle_refl].
  - destruct (IH Sr I C) as [dp [E H]]. rewrite E. now exists dp.
Qed.

Lemma bsearch_agree o1 o2 D : forall fuel ds bdist mt1 mt2,
  (forall d, In d ds -> ptest o1 D d = ptest o2 D d) ->
  option_map fst (bsearch o1 fuel D ds bdist mt1) = option_map fst (bsearch o2 fuel D ds bdist mt2).
Proof.
  induction fuel as [|f IH]; intros ds bdist mt1 mt2 H.
  - destruct ds; reflexivity.
  - destruct ds as [|a r]; [reflexivity|].
    remember (a :: r) as ds eqn:Eds. assert (NE : ds <> []) by (subst; discriminate).
    rewrite !bsearch_step by exact NE. cbv zeta.
    pose proof (idx_lt ds NE) as IL.
    remember (if (1 <? length ds)%nat then (length ds / 2)%nat else 0%nat) as idx eqn:Eidx.
    pose proof (split_nth ds idx CInf IL) as SP.
    assert (Id : In (nth idx ds CInf) ds) by (apply nth_In, IL).
    rewrite <- (H _ Id). destruct (ptest o1 D (nth idx ds CInf) && cle (nth idx ds CInf) bdist)%bool.
    + apply IH. intros d I. apply H. rewrite SP, in_app_iff. now left.
    + apply IH. intros d I. apply H. rewrite SP, in_app_iff. right; now right.
Qed.

Lemma model_as_search o S T :
  bottleneck_model o S T = option_map fst (search o (prep (finite S)) (prep (finite T))).
Proof. unfold bottleneck_model. destruct (search o _ _) as [[b m]|]; reflexivity. Qed.

(* Accepted certificates make the run with the answering routine equal to the run with ANY
   maximum-matching routine: the value printed by the case files is the value of bottleneck_correct. *)
Theorem cert_run_sound S T vstar Estar X : certs_ok S T vstar Estar X = true ->
  forall oracle, max_matching_oracle oracle ->
  bottleneck_model oracle S T = bottleneck_model (cert_oracle Estar) S T.
Proof.
  unfold certs_ok. set (S' := prep (finite S)). set (T' := prep (finite T)). set (D := aug S' T').
  rewrite andb_true_iff. intros [PC HC] oracle OM. rewrite !model_as_search. fold S' T'. unfold search. fold D.
  apply perfect_check_ok in PC. destruct PC as [IM L]. rewrite graph_length in L.
  assert (GS : good D (CFin vstar) Estar) by (split; assumption).
  assert (KP : length D <> O).
  { unfold D. rewrite aug_length. pose proof (prep_pos (finite S)). fold S' in H. lia. }
  apply bsearch_agree. intros d Id.
  destruct (cle (CFin vstar) d) eqn:C.
  - (* d >= vstar: both perfect *)
    pose proof (good_mono D _ d Estar C GS) as Gd.
    rewrite (feas_ptest oracle OM D d (ex_intro _ Estar Gd)).
    unfold ptest, cert_oracle. destruct Gd as [IMd Ld].
    rewrite (perfect_check_complete _ _ IMd) by (now rewrite graph_length).
    symmetry. apply Nat.eqb_eq. lia.
  - (* d < vstar: the Hall violator rules a perfect matching out *)
    destruct (pred_threshold_above (thresholds D) (CFin vstar) d (thresholds_sorted D) Id C) as [dp [E Cdp]].
    rewrite E in HC. pose proof (hall_check_down D d dp X Cdp HC) as NF.
    assert (P1 : ptest oracle D d = false).
    { destruct (ptest oracle D d) eqn:P; [|reflexivity]. exfalso. apply NF.
      exists (oracle (graph D d)). apply (ptest_good oracle OM), P. }
    rewrite P1. unfold ptest, cert_oracle.
    destruct (perfect_check (graph D d) Estar) eqn:P.
    + exfalso. apply NF. exists Estar. apply perfect_check_ok in P. rewrite graph_length in P. exact P.
    + symmetry. apply Nat.eqb_neq. simpl length. lia.
Qed.

(* the verdict printed for a case *)
Corollary check_case_agree S T impl tol vstar Estar X :
  check_case S T impl tol vstar Estar X = Agree ->
  forall oracle, max_matching_oracle oracle ->
  exists v, bottleneck_model oracle S T = Some (CFin v) /\ Qabs (v - impl) <= tol.
Proof.
  unfold check_case. destruct (certs_ok S T vstar Estar X) eqn:C; [|discriminate].
  intros H oracle OM. rewrite (cert_run_sound _ _ _ _ _ C oracle OM).
  destruct (bottleneck_model (cert_oracle Estar) S T) as [[v|]|]; try discriminate.
  destruct (Qclose tol v impl) eqn:Q; [|discriminate]. exists v. split; [reflexivity|].
  unfold Qclose in Q. now apply Qle_bool_iff in Q.
Qed.
