(* C10: the sup norm.  The largest |y| over the breakpoints bounds |pl_eval| at every t and is
   attained at a breakpoint; the two sup_norm models return it. *)
From Coq Require Import QArith Qabs Qminmax Qfield Lqa List Bool Arith Lia Setoid Morphisms.
From Persim Require Import Lib.Kth Lib.PL Spec.PNormS Model.PNormM.
Import ListNotations.
Open Scope Q_scope.

Lemma sup_pts_nonneg l : 0 <= sup_pts l.
Proof. induction l; simpl. lra. apply Q.max_le_iff. right. exact IHl. Qed.

Lemma sup_pts_ge l a : In a l -> Qabs (snd a) <= sup_pts l.
Proof. induction l; simpl; intros []; subst.
  - apply Q.le_max_l.
  - eapply Qle_trans. apply IHl; auto. apply Q.le_max_r. Qed.

Lemma abs_le_iff v M : Qabs v <= M <-> - M <= v <= M.
Proof. apply Qabs_Qle_condition. Qed.

(* a point of the chord lies between the end values *)
Lemma chord_bound x0 y0 x1 y1 t M : x0 < x1 -> x0 <= t <= x1 -> Qabs y0 <= M -> Qabs y1 <= M ->
  Qabs (y0 + (y1 - y0) * (t - x0) / (x1 - x0)) <= M.
Proof. intros D T H0 H1. apply abs_le_iff in H0. apply abs_le_iff in H1. apply abs_le_iff.
  set (v := y0 + (y1 - y0) * (t - x0) / (x1 - x0)).
  assert (E : v * (x1 - x0) == y0 * (x1 - t) + y1 * (t - x0)) by (unfold v; field; lra).
  assert (A1 : 0 <= (M - y0) * (x1 - t)) by nra.
  assert (A2 : 0 <= (M - y1) * (t - x0)) by nra.
  assert (A3 : 0 <= (M + y0) * (x1 - t)) by nra.
  assert (A4 : 0 <= (M + y1) * (t - x0)) by nra.
  split; nra. Qed.

Lemma sup_bounds_eval l : incr l -> forall t, Qabs (pl_eval l t) <= sup_pts l.
Proof. induction l as [|[x0 y0] r IH]; intros I t.
  - simpl. lra.
  - assert (S0 := sup_pts_nonneg ((x0, y0) :: r)).
    destruct r as [|[x1 y1] r'].
    + simpl pl_eval. destruct (Qeq_bool t x0).
      * apply (sup_pts_ge [(x0, y0)] (x0, y0)). left. reflexivity.
      * exact S0.
    + change (pl_eval ((x0, y0) :: (x1, y1) :: r') t) with
        (if Qlt_bool t x0 then 0 else if Qle_bool t x1 && Qlt_bool x0 x1 then y0 + (y1 - y0) * (t - x0) / (x1 - x0)
         else pl_eval ((x1, y1) :: r') t).
      destruct (Qlt_bool t x0) eqn:E0. exact S0.
      apply Qlt_bool_false in E0.
      destruct (Qle_bool t x1 && Qlt_bool x0 x1) eqn:E1.
      * apply andb_true_iff in E1. destruct E1 as [E1 E2]. apply b_le in E1. apply Qlt_bool_iff in E2.
        apply chord_bound; auto.
        apply (sup_pts_ge ((x0, y0) :: (x1, y1) :: r') (x0, y0)). left. reflexivity.
        apply (sup_pts_ge ((x0, y0) :: (x1, y1) :: r') (x1, y1)). right. left. reflexivity.
      * eapply Qle_trans. apply IH. destruct I. assumption.
        change (sup_pts ((x0, y0) :: (x1, y1) :: r')) with (Qmax (Qabs y0) (sup_pts ((x1, y1) :: r'))).
        apply Q.le_max_r.
Qed.

(* the interpolant passes through its breakpoints *)
Lemma eval_last pre p : incr (pre ++ [p]) -> pl_eval (pre ++ [p]) (fst p) == snd p.
Proof. induction pre as [|[x0 y0] pre' IH]; intro I.
  - destruct p as [x y]. simpl. rewrite (proj2 (Qeq_bool_iff x x)) by reflexivity. reflexivity.
  - destruct p as [x y]. simpl fst. simpl snd.
    destruct pre' as [|[x1 y1] pre''].
    + simpl app in *. simpl in I. destruct I as [L _].
      simpl pl_eval.
      replace (Qlt_bool x x0) with false by (symmetry; apply Qlt_bool_false; lra).
      replace (Qle_bool x x) with true by (symmetry; apply b_le; lra).
      replace (Qlt_bool x0 x) with true by (symmetry; apply Qlt_bool_iff; auto).
      simpl. field. lra.
    + assert (I' : incr (((x1, y1) :: pre'') ++ [(x, y)])) by (simpl in I; simpl; tauto).
      specialize (IH I'). simpl fst in IH. simpl snd in IH.
      assert (L01 : x0 < x1) by (simpl in I; tauto).
      assert (L1 : x1 < x).
      { clear - I'. revert x1 y1 I'. induction pre'' as [|[x2 y2] r IHr]; simpl; intros x1 y1 H. tauto.
        destruct H as [H1 H2]. specialize (IHr x2 y2 H2). simpl in H1. lra. }
      change (pl_eval (((x0, y0) :: (x1, y1) :: pre'') ++ [(x, y)]) x) with
        (if Qlt_bool x x0 then 0 else if Qle_bool x x1 && Qlt_bool x0 x1 then y0 + (y1 - y0) * (x - x0) / (x1 - x0)
         else pl_eval (((x1, y1) :: pre'') ++ [(x, y)]) x).
      replace (Qlt_bool x x0) with false by (symmetry; apply Qlt_bool_false; lra).
      replace (Qle_bool x x1) with false by (symmetry; apply b_le_f; lra).
      simpl andb. cbv iota. exact IH.
Qed.

Lemma incr_app_l l1 l2 : incr (l1 ++ l2) -> incr l1.
Proof. induction l1 as [|a [|b r] IH]; simpl; intro I; auto.
  split. tauto. apply IH. simpl. tauto. Qed.

Lemma eval_at_breakpoint l a : incr l -> In a l -> pl_eval l (fst a) == snd a.
Proof. intros I H. apply in_split in H. destruct H as [pre [post ->]].
  rewrite pl_eval_app by exact I.
  replace (Qle_bool (fst a) (fst a)) with true by (symmetry; apply b_le; lra).
  apply eval_last. replace (pre ++ a :: post) with ((pre ++ [a]) ++ post) in I by (rewrite <- app_assoc; reflexivity).
  apply incr_app_l in I. exact I. Qed.

Lemma sup_pts_attained l : l <> [] -> exists a, In a l /\ sup_pts l == Qabs (snd a).
Proof. induction l as [|a r IH]; intro N. congruence.
  destruct r as [|b r'].
  - exists a. split. left; auto. simpl. apply Q.max_l. apply Qabs_nonneg.
  - destruct IH as [c [Ic Ec]]. discriminate.
    change (sup_pts (a :: b :: r')) with (Qmax (Qabs (snd a)) (sup_pts (b :: r'))).
    destruct (Qlt_le_dec (Qabs (snd a)) (sup_pts (b :: r'))).
    + exists c. split. right; auto. rewrite Q.max_r by lra. exact Ec.
    + exists a. split. left; auto. apply Q.max_l. lra. Qed.

(* sup norm of one depth: bounds |f| everywhere, attained *)
Lemma sup_pts_is_sup l : incr l ->
  (forall t, Qabs (pl_eval l t) <= sup_pts l) /\
  (l <> [] -> exists t, Qabs (pl_eval l t) == sup_pts l).
Proof. intro I. split. apply sup_bounds_eval; auto.
  intro N. destruct (sup_pts_attained l N) as [a [Ia Ea]]. exists (fst a).
  rewrite Ea. rewrite (eval_at_breakpoint l a I Ia). reflexivity. Qed.

Lemma sup_spec_ge L l : In l L -> sup_pts l <= sup_spec L.
Proof. induction L; simpl; intros []; subst. apply Q.le_max_l.
  eapply Qle_trans. apply IHL; auto. apply Q.le_max_r. Qed.

Lemma sup_spec_nonneg L : 0 <= sup_spec L.
Proof. induction L; simpl. lra. apply Q.max_le_iff. right. exact IHL. Qed.

Lemma sup_spec_attained L : concat L <> [] -> exists l, In l L /\ l <> [] /\ sup_spec L == sup_pts l.
Proof. induction L as [|l r IH]; simpl; intro N. congruence.
  destruct (Qlt_le_dec (sup_pts l) (sup_spec r)).
  - assert (Nr : concat r <> []).
    { intro Z. clear IH N. assert (sup_spec r == 0).
      { clear q. induction r as [|l' r' IHr]; simpl in *. reflexivity.
        apply app_eq_nil in Z. destruct Z as [-> Z]. simpl. rewrite IHr by auto. reflexivity. }
      generalize (sup_pts_nonneg l). lra. }
    destruct (IH Nr) as [l' [I' [N' E']]]. exists l'. split. right; auto. split; auto.
    rewrite Q.max_r by lra. exact E'.
  - destruct l as [|a l'].
    + simpl in *. assert (Nr : r <> []) by (intro; subst; simpl in N; congruence).
      destruct (IH N) as [l' [I' [N' E']]]. exists l'. split. right; auto. split; auto.
      generalize (sup_spec_nonneg r). intro. rewrite Q.max_r by lra. exact E'.
    + exists (a :: l'). split. left; auto. split. discriminate. apply Q.max_l. lra. Qed.

(* the whole landscape *)
Lemma sup_spec_is_sup L : wf L ->
  (forall l t, In l L -> Qabs (pl_eval l t) <= sup_spec L) /\
  (concat L <> [] -> exists l t, In l L /\ Qabs (pl_eval l t) == sup_spec L).
Proof. intro W. split.
  - intros l t I. eapply Qle_trans. apply sup_bounds_eval. eapply Forall_forall in W; eauto.
    apply sup_spec_ge; auto.
  - intro N. destruct (sup_spec_attained L N) as [l [I [Nl E]]].
    assert (Il : incr l) by (eapply Forall_forall in W; eauto).
    destruct (proj2 (sup_pts_is_sup l Il) Nl) as [t Et]. exists l, t. split; auto. rewrite Et, E. reflexivity. Qed.

(* ---- the two sup_norm models return the spec's value *)
Lemma sup_pts_app l1 l2 : sup_pts (l1 ++ l2) == Qmax (sup_pts l1) (sup_pts l2).
Proof. induction l1; simpl.
  - symmetry. apply Q.max_r. apply sup_pts_nonneg.
  - rewrite IHl1. apply Q.max_assoc. Qed.

Lemma sup_spec_concat L : sup_spec L == sup_pts (concat L).
Proof. induction L; simpl. reflexivity. rewrite sup_pts_app, IHL. reflexivity. Qed.

Lemma fold_max_exact (r : list pt) : forall m, 0 <= m ->
  fold_left (fun m c => if Qlt_bool m (Qabs (snd c)) then Qabs (snd c) else m) r m == Qmax m (sup_pts r).
Proof. induction r as [|c r IH]; intros m Hm; simpl.
  - symmetry. apply Q.max_l. exact Hm.
  - destruct (Qlt_bool m (Qabs (snd c))) eqn:E.
    + apply Qlt_bool_iff in E. rewrite IH by apply Qabs_nonneg.
      rewrite Q.max_assoc. rewrite (Q.max_r m (Qabs (snd c))) by lra. reflexivity.
    + apply Qlt_bool_false in E. rewrite IH by exact Hm.
      rewrite Q.max_assoc. rewrite (Q.max_l m (Qabs (snd c))) by lra. reflexivity. Qed.

Lemma exact_sup_norm_correct L : concat L <> [] -> exists v, exact_sup_norm L = Some v /\ v == sup_spec L.
Proof. intro N. unfold exact_sup_norm. assert (S := sup_spec_concat L). destruct (concat L) as [|a r]. congruence.
  eexists. split. reflexivity. rewrite S, fold_max_exact by apply Qabs_nonneg. reflexivity. Qed.

Lemma exact_sup_norm_empty L : concat L = [] -> exact_sup_norm L = None.
Proof. intro E. unfold exact_sup_norm. rewrite E. reflexivity. Qed.

Lemma fold_max_approx (r : list Q) : forall m, 0 <= m ->
  fold_left (fun m c => Qmax m (Qabs c)) r m == Qmax m (sup_pts (map (fun v => (0, v)) r)).
Proof. induction r as [|c r IH]; intros m Hm; simpl.
  - symmetry. apply Q.max_l. exact Hm.
  - rewrite IH. rewrite Q.max_assoc. reflexivity. apply Q.max_le_iff. left. exact Hm. Qed.

(* np.max(np.abs(values)) is the largest |value| *)
Lemma approx_sup_norm_correct vals : concat vals <> [] ->
  exists v, approx_sup_norm vals = Some v /\ v == sup_pts (map (fun v => (0, v)) (concat vals)).
Proof. intro N. unfold approx_sup_norm. destruct (concat vals) as [|a r]. congruence.
  eexists. split. reflexivity. rewrite fold_max_approx by apply Qabs_nonneg. reflexivity. Qed.
