(* C03: the combinatorial content of one run of the inner loop, as an inductive relation.
   Chain b d A tl A' : starting from the current bar (b,d) and the remaining sorted bars A, the loop
   appends the breakpoints tl (after the peak of (b,d)) and leaves the bars A'.  Used for the real-t
   version of the semantics (Proofs/SweepReal.v); the rational-t version is Proofs/SweepInner.inner_sem. *)
From Coq Require Import QArith Qminmax Lqa List Bool Arith Lia Permutation.
From Persim Require Import Lib.Kth Lib.PL Spec.LandscapeS Model.SweepM Proofs.SweepStep Proofs.SweepSort
  Proofs.SweepShape Proofs.SweepInner.
Import ListNotations.
Open Scope Q_scope.

Inductive Chain : Q -> Q -> list bar -> list pt -> list bar -> Prop :=
| ch_close b d A : b < d -> (forall x, In x A -> snd x <= d) -> Chain b d A [(d, 0)] A
| ch_step b d A bp dp A1 A2 tl A' :
    b < d -> b < bp -> bp < dp -> d < dp ->
    Permutation A ((bp, dp) :: A1) ->
    ((d <= bp /\ A2 = A1) \/ (bp < d /\ Permutation ((bp, d) :: A1) A2)) ->
    (forall y, In y A1 -> d < snd y -> bp <= fst y) ->
    Chain bp dp A2 tl A' ->
    Chain b d A (junction d bp ++ peak bp dp :: tl) A'.

Lemma inner_chain : forall fuel b d A, Inv b d A -> (cgt d A < fuel)%nat ->
  forall tl A', inner_t fuel b d A = Some (tl, A') -> Chain b d A tl A'.
Proof.
  induction fuel as [|f IH]; intros b d A I M tl A' RUN. lia.
  destruct I as [P SA PA LA]. simpl inner_t in RUN.
  destruct (forallb (fun x => Qle_bool (snd x) d) A) eqn:EX.
  { inversion RUN; subst. apply ch_close; auto. intros x Hx. rewrite forallb_forall in EX.
    specialize (EX x Hx). breflect. auto. }
  destruct (find_gt d A 0) as [[i [bp dp]]|] eqn:FG. 2: discriminate.
  apply find_gt_split in FG. destruct FG as (pre & post & EA & Ei & PRE & DP). simpl in Ei, DP. subst i.
  subst A. rewrite remove_nth_app in RUN.
  assert (PERM : Permutation (pre ++ (bp, dp) :: post) ((bp, dp) :: pre ++ post)) by apply split_perm.
  assert (BP : b < bp). { apply (LA (bp, dp)). apply in_or_app; right; left; auto. auto. }
  assert (PP : bp < dp). { apply (PA (bp, dp)). apply in_or_app; right; left; auto. }
  apply ssorted_app in SA. destruct SA as (S1 & S2 & S12). inversion S2 as [|? ? HP S3]; subst.
  assert (SA1 : ssorted (pre ++ post)).
  { apply ssorted_app. repeat split; auto. intros x y Hx Hy. apply S12; auto. right; auto. }
  assert (PA1 : positive (pre ++ post)).
  { intros x Hx. apply PA. apply in_app_or in Hx. apply in_or_app. destruct Hx; auto. right; right; auto. }
  set (A1 := pre ++ post) in *.
  remember (next_A d bp A1) as A2 eqn:EA2.
  assert (A2P : (Qle_bool d bp = true /\ A2 = A1) \/ (Qle_bool d bp = false /\ A2 = place bp d A1)).
  { rewrite EA2. unfold next_A. destruct (Qle_bool d bp); [left|right]; split; auto. apply insert_pos_place; auto. }
  assert (IN2 : forall x, In x A2 -> In x A1 \/ (x = (bp, d) /\ bp < d)).
  { intros x Hx. destruct A2P as [[E ->]|[E E2]]; auto. rewrite E2 in Hx.
    apply (Permutation_in _ (Permutation_sym (place_perm bp d A1))) in Hx. destruct Hx; auto.
    right. split; auto. breflect; auto. }
  assert (LATE : forall y, In y A1 -> d < snd y -> bp <= fst y).
  { intros y Hy Hd. unfold A1 in Hy. apply in_app_or in Hy. destruct Hy as [Hy|Hy].
    specialize (PRE y Hy). lra. specialize (HP y Hy). apply kle_birth in HP. simpl in HP. auto. }
  assert (I2 : Inv bp dp A2).
  { constructor; auto.
    - destruct A2P as [[E ->]|[E ->]]; auto. apply place_sorted; auto.
    - intros x Hx. apply IN2 in Hx. destruct Hx as [Hx|[-> Hx]]; auto.
    - intros x Hx Hd. apply IN2 in Hx. destruct Hx as [Hx|[-> Hx]].
      + unfold A1 in Hx. apply in_app_or in Hx. destruct Hx as [Hx|Hx].
        * specialize (PRE x Hx). lra.
        * specialize (HP x Hx). destruct HP as [K|[K1 K2]]; simpl in *; lra.
      + simpl in Hd. lra. }
  assert (M2 : (cgt dp A2 < f)%nat).
  { assert (C0 : cgt d (pre ++ (bp, dp) :: post) = S (cgt d A1)).
    { unfold cgt. rewrite (ex_perm _ _ d (Permutation_map snd PERM)). simpl map. rewrite ex_cons. simpl snd.
      replace (Qlt_bool d dp) with true by (symmetry; apply Qlt_bool_iff; auto). reflexivity. }
    assert (C1 : (cgt dp A2 <= cgt d A1)%nat).
    { destruct A2P as [[E ->]|[E ->]].
      - apply ex_mono. lra.
      - unfold cgt. rewrite <- (ex_perm _ _ dp (Permutation_map snd (place_perm bp d A1))). simpl map. rewrite ex_cons.
        simpl snd. replace (Qlt_bool dp d) with false by (symmetry; apply Qlt_bool_false; lra).
        simpl. apply ex_mono. lra. }
    apply (Nat.le_lt_trans _ _ _ C1). unfold lt in *. apply le_S_n. rewrite <- C0. exact M. }
  destruct (inner_t f bp dp A2) as [[tl' A'']|] eqn:RUN2. 2: discriminate.
  inversion RUN; subst tl A'.
  assert (A2Q : (d <= bp /\ A2 = A1) \/ (bp < d /\ Permutation ((bp, d) :: A1) A2)).
  { destruct A2P as [[E E2]|[E E2]]; breflect. left; auto. right. split; auto. rewrite E2. apply place_perm. }
  exact (ch_step b d (pre ++ (bp, dp) :: post) bp dp A1 A2 tl' A'' P BP PP DP PERM A2Q LATE
           (IH bp dp A2 I2 M2 tl' A'' RUN2)).
Qed.
