From Coq Require Import Reals List Bool Lra Permutation.
From Persim Require Import Model.EntropyM.
Import ListNotations.
Open Scope R_scope.

(* ---------- finite sums ---------- *)
Lemma sumR_app a b : sumR (a ++ b) = sumR a + sumR b.
Proof. induction a as [|x a IH]; simpl; [lra|rewrite IH; lra]. Qed.

Lemma sumR_perm a b : Permutation a b -> sumR a = sumR b.
Proof. induction 1; simpl; lra. Qed.

Lemma sumR_map_le {A} (f g : A -> R) l :
  (forall x, In x l -> f x <= g x) -> sumR (map f l) <= sumR (map g l).
Proof. induction l as [|x l IH]; simpl; intros H; [lra|].
  assert (f x <= g x) by (apply H; auto). assert (sumR (map f l) <= sumR (map g l)) by (apply IH; auto). lra. Qed.

Lemma sumR_map_ext {A} (f g : A -> R) l :
  (forall x, In x l -> f x = g x) -> sumR (map f l) = sumR (map g l).
Proof. induction l as [|x l IH]; simpl; intros H; [lra|]. rewrite H by auto. rewrite IH by auto. lra. Qed.

Lemma sumR_map_scal {A} (f : A -> R) c l : sumR (map (fun x => c * f x) l) = c * sumR (map f l).
Proof. induction l as [|x l IH]; simpl; [lra|rewrite IH; lra]. Qed.

Lemma sumR_map_plus {A} (f g : A -> R) l :
  sumR (map (fun x => f x + g x) l) = sumR (map f l) + sumR (map g l).
Proof. induction l as [|x l IH]; simpl; [lra|rewrite IH; lra]. Qed.

Lemma sumR_map_const {A} (c : R) (l : list A) : sumR (map (fun _ => c) l) = INR (length l) * c.
Proof. induction l as [|x l IH]. simpl; lra. cbn [map sumR fold_right length]. fold (sumR (map (fun _ => c) l)).
  rewrite IH, S_INR. lra. Qed.

Lemma sumR_map_id l : sumR (map (fun x => x) l) = sumR l.
Proof. rewrite map_id. reflexivity. Qed.

(* ---------- positivity ---------- *)
Definition pos (l : list R) : Prop := forall x, In x l -> 0 < x.

Lemma all_pos_iff l : all_pos l = true <-> pos l.
Proof. unfold pos. induction l as [|x l IH]; simpl.
  - split; auto. intros _ ? [].
  - destruct (Rlt_dec 0 x) as [H|H].
    + rewrite IH. split. intros P y [->|I]; auto. intros P y I; apply P; auto.
    + split. discriminate. intros P. exfalso. apply H. apply P. auto. Qed.

Lemma all_pos_false l : all_pos l = false <-> exists x, In x l /\ x <= 0.
Proof. induction l as [|x l IH]; simpl.
  - split. discriminate. intros [? [[] _]].
  - destruct (Rlt_dec 0 x) as [H|H].
    + rewrite IH. split. intros [y [I L]]. exists y; auto. intros [y [[->|I] L]]. lra. exists y; auto.
    + split; auto. intros _. exists x. split; auto. lra. Qed.

Lemma pos_sum_pos l : l <> [] -> pos l -> 0 < sumR l.
Proof. intros N P. destruct l as [|x l]; [congruence|]. clear N. revert x P.
  induction l as [|y l IH]; intros x P; simpl.
  - assert (0 < x) by (apply P; simpl; auto). lra.
  - assert (0 < x) by (apply P; simpl; auto).
    assert (0 < sumR (y :: l)). { apply IH. intros z I. apply P. simpl in *; tauto. } simpl in *. lra. Qed.

Lemma pos_le_sum l x : pos l -> In x l -> x <= sumR l.
Proof. induction l as [|y l IH]; simpl; intros P []; subst.
  - destruct l as [|z l]. simpl; lra.
    assert (0 < sumR (z :: l)). { apply pos_sum_pos. congruence. intros w I. apply P. simpl in *; tauto. } lra.
  - assert (0 < y) by (apply P; simpl; auto).
    assert (x <= sumR l). { apply IH; auto. intros w I. apply P. simpl; auto. } lra. Qed.

(* ---------- the probabilities ---------- *)
Lemma probs_sum l : sumR l <> 0 -> sumR (map (fun x => x / sumR l) l) = 1.
Proof. intros N. unfold Rdiv.
  rewrite (sumR_map_ext _ (fun x => / sumR l * (fun y => y) x)) by (intros; lra).
  rewrite sumR_map_scal, sumR_map_id. field. exact N. Qed.

Lemma ln_le_sub1 y : 0 < y -> ln y <= y - 1.
Proof. intros H. pose proof (exp_ineq1_le (ln y)) as E. rewrite exp_ln in E by exact H. lra. Qed.

(* ---------- 0 <= E <= ln n ---------- *)
Lemma shannon_nonneg l : pos l -> 0 <= shannon l.
Proof. intros P. unfold shannon. destruct l as [|a l']. simpl; lra. set (l := a :: l') in *.
  assert (S : 0 < sumR l) by (apply pos_sum_pos; [discriminate|exact P]).
  assert (sumR (map (fun x => x / sumR l * ln (x / sumR l)) l) <= sumR (map (fun _ => 0) l)).
  { apply sumR_map_le. intros x I. assert (0 < x) by (apply P; auto). assert (x <= sumR l) by (apply pos_le_sum; auto).
    assert (0 < x / sumR l) by (apply Rdiv_lt_0_compat; lra).
    assert (x / sumR l <= 1). { apply Rmult_le_reg_r with (sumR l); [lra|]. unfold Rdiv. rewrite Rmult_assoc, Rinv_l by lra. lra. }
    assert (ln (x / sumR l) <= 0). { pose proof (ln_le_sub1 _ H1). lra. }
    nra. }
  rewrite sumR_map_const in H. lra. Qed.

Lemma shannon_le_ln_n l : l <> [] -> pos l -> shannon l <= ln (INR (length l)).
Proof. intros N P. unfold shannon.
  assert (S : 0 < sumR l) by (apply pos_sum_pos; auto).
  set (n := INR (length l)).
  assert (Hn : 0 < n). { unfold n. destruct l; [congruence|]. apply lt_0_INR. simpl. apply Nat.lt_0_succ. }
  (* sum p (-ln p - ln n) <= sum (1/n - p) = 0 *)
  assert (K : sumR (map (fun x => - (x / sumR l * ln (x / sumR l)) + - ln n * (x / sumR l)) l)
              <= sumR (map (fun x => / n + -1 * (x / sumR l)) l)).
  { apply sumR_map_le. intros x I. assert (0 < x) by (apply P; auto).
    assert (Hp : 0 < x / sumR l) by (apply Rdiv_lt_0_compat; lra).
    set (p := x / sumR l) in *.
    assert (0 < / (n * p)). { apply Rinv_0_lt_compat. nra. }
    pose proof (ln_le_sub1 _ H0) as L.
    rewrite ln_Rinv in L by nra. rewrite ln_mult in L by lra.
    assert (/ (n * p) * p = / n). { field. split; lra. }
    assert (p * (- (ln n + ln p)) <= p * (/ (n * p) - 1)) by (apply Rmult_le_compat_l; lra).
    nra. }
  rewrite !sumR_map_plus in K. rewrite sumR_map_const in K. fold n in K.
  rewrite !sumR_map_scal in K. rewrite probs_sum in K by lra.
  rewrite (sumR_map_ext (fun x => - (x / sumR l * ln (x / sumR l))) (fun x => -1 * (x / sumR l * ln (x / sumR l)))) in K by (intros; lra).
  rewrite sumR_map_scal in K.
  assert (n * / n = 1) by (field; lra). lra. Qed.

Lemma shannon_uniform c n : 0 < c -> (0 < n)%nat -> shannon (repeat c n) = ln (INR n).
Proof. intros Hc Hn. unfold shannon.
  assert (S : sumR (repeat c n) = INR n * c).
  { clear Hn. induction n as [|n IH]. simpl; lra. cbn [repeat sumR fold_right]. fold (sumR (repeat c n)). rewrite IH, S_INR. lra. }
  rewrite S. assert (0 < INR n) by (apply lt_0_INR; exact Hn).
  rewrite (sumR_map_ext _ (fun _ => / INR n * ln (/ INR n))).
  2:{ intros x I. apply repeat_spec in I. subst x. replace (c / (INR n * c)) with (/ INR n) by (field; split; lra). reflexivity. }
  rewrite sumR_map_const, repeat_length. rewrite ln_Rinv by lra. field. lra. Qed.

(* ---------- invariances ---------- *)
Lemma shannon_perm a b : Permutation a b -> shannon a = shannon b.
Proof. intros P. unfold shannon. rewrite (sumR_perm _ _ P). f_equal.
  apply sumR_perm. apply Permutation_map. exact P. Qed.

Lemma sumR_scale c l : sumR (map (Rmult c) l) = c * sumR l.
Proof. induction l as [|x l IH]; simpl; [lra|rewrite IH; lra]. Qed.

Lemma shannon_scale c l : c <> 0 -> sumR l <> 0 -> shannon (map (Rmult c) l) = shannon l.
Proof. intros Hc Hs. unfold shannon. rewrite sumR_scale, map_map. f_equal.
  apply sumR_map_ext. intros x _. replace (c * x / (c * sumR l)) with (x / sumR l) by (field; split; assumption). reflexivity. Qed.

Lemma lengths_translate c d : lengths (map (fun b => (fst b + c, snd b + c)) d) = lengths d.
Proof. unfold lengths. rewrite map_map. apply map_ext. intros [b e]; simpl; lra. Qed.

Lemma lengths_scale c d : lengths (map (fun b => (c * fst b, c * snd b)) d) = map (Rmult c) (lengths d).
Proof. unfold lengths. rewrite !map_map. apply map_ext. intros [b e]; simpl; lra. Qed.

Lemma lengths_perm a b : Permutation a b -> Permutation (lengths a) (lengths b).
Proof. apply Permutation_map. Qed.

Lemma pos_perm a b : Permutation a b -> pos a -> pos b.
Proof. intros P H x I. apply H. eapply Permutation_in. apply Permutation_sym; eassumption. exact I. Qed.

Lemma all_pos_perm a b : Permutation a b -> all_pos a = all_pos b.
Proof. intros P. destruct (all_pos a) eqn:A, (all_pos b) eqn:B; auto.
  - apply all_pos_iff in A. apply (pos_perm _ _ P) in A. apply all_pos_iff in A. congruence.
  - apply all_pos_iff in B. apply (pos_perm _ _ (Permutation_sym P)) in B. apply all_pos_iff in B. congruence. Qed.

Lemma pos_scale c l : 0 < c -> pos l -> pos (map (Rmult c) l).
Proof. intros Hc P x I. apply in_map_iff in I. destruct I as [y [<- I]]. apply Rmult_lt_0_compat; auto. Qed.

Lemma all_pos_scale c l : 0 < c -> all_pos (map (Rmult c) l) = all_pos l.
Proof. intros Hc. destruct (all_pos l) eqn:A.
  - apply all_pos_iff. apply pos_scale; auto. apply all_pos_iff; auto.
  - apply all_pos_false in A. destruct A as [x [I L]]. apply all_pos_false. exists (c * x). split.
    apply in_map; auto. nra. Qed.

(* ---------- the API-level statements ---------- *)
Lemma entropy_one_some norm d v : entropy_one norm d = Some v ->
  pos (lengths d) /\ v = entropy_val norm (lengths d).
Proof. unfold entropy_one. destruct (all_pos (lengths d)) eqn:A; [|discriminate]. intros [= <-].
  split; auto. apply all_pos_iff; auto. Qed.

Lemma entropy_one_none norm d : entropy_one norm d = None <-> exists b, In b d /\ snd b - fst b <= 0.
Proof. unfold entropy_one. destruct (all_pos (lengths d)) eqn:A.
  - split; [discriminate|]. intros [b [I L]]. apply all_pos_iff in A. exfalso.
    assert (0 < snd b - fst b). { apply A. unfold lengths. apply in_map_iff. exists b; auto. } lra.
  - split; auto. intros _. apply all_pos_false in A. destruct A as [x [I L]]. unfold lengths in I.
    apply in_map_iff in I. destruct I as [b [<- I]]. exists b; auto. Qed.

Lemma entropy_bounds d v : entropy_one false d = Some v -> d <> [] ->
  0 <= v <= ln (INR (length d)).
Proof. intros H N. apply entropy_one_some in H. destruct H as [P ->]. simpl. split.
  apply shannon_nonneg; auto. replace (length d) with (length (lengths d)) by (unfold lengths; apply map_length).
  apply shannon_le_ln_n; auto. destruct d; [congruence|discriminate]. Qed.

Lemma entropy_normalised_unit d v : entropy_one true d = Some v -> (2 <= length d)%nat -> 0 <= v <= 1.
Proof. intros H N. apply entropy_one_some in H. destruct H as [P ->]. unfold entropy_val.
  assert (L : length (lengths d) = length d) by (unfold lengths; apply map_length). rewrite L.
  assert (1 < INR (length d)). { replace 1 with (INR 1) by reflexivity. apply lt_INR. exact N. }
  assert (0 < ln (INR (length d))). { rewrite <- ln_1. apply ln_increasing; lra. }
  assert (lengths d <> []). { destruct d; simpl in *. inversion N. discriminate. }
  pose proof (shannon_nonneg _ P). pose proof (shannon_le_ln_n _ H1 P) as U. rewrite L in U.
  split. apply Rmult_le_pos; auto. left. apply Rinv_0_lt_compat; auto.
  apply Rmult_le_reg_r with (ln (INR (length d))); auto. unfold Rdiv. rewrite Rmult_assoc, Rinv_l by lra. lra. Qed.

Lemma entropy_equal_lengths c (d : list fbar) : 0 < c -> d <> [] ->
  (forall b, In b d -> snd b - fst b = c) -> entropy_one false d = Some (ln (INR (length d))).
Proof. intros Hc N E. assert (L : lengths d = repeat c (length d)).
  { clear N. induction d as [|b d IH]; simpl; auto. rewrite E by (simpl; auto). f_equal. apply IH. intros; apply E; simpl; auto. }
  unfold entropy_one. rewrite L.
  assert (A : all_pos (repeat c (length d)) = true). { apply all_pos_iff. intros x I. apply repeat_spec in I. subst; auto. }
  rewrite A. simpl. f_equal. apply shannon_uniform; auto. destruct d; [congruence|simpl; apply Nat.lt_0_succ]. Qed.

Lemma entropy_one_perm norm a b : Permutation a b -> entropy_one norm a = entropy_one norm b.
Proof. intros P. unfold entropy_one. rewrite (all_pos_perm _ _ (lengths_perm _ _ P)).
  destruct (all_pos (lengths b)); auto. f_equal. unfold entropy_val.
  rewrite (shannon_perm _ _ (lengths_perm _ _ P)).
  rewrite (Permutation_length (lengths_perm _ _ P)). reflexivity. Qed.

Lemma entropy_one_translate norm c d :
  entropy_one norm (map (fun b => (fst b + c, snd b + c)) d) = entropy_one norm d.
Proof. unfold entropy_one. rewrite lengths_translate. reflexivity. Qed.

Lemma entropy_one_scale norm c d : 0 < c ->
  entropy_one norm (map (fun b => (c * fst b, c * snd b)) d) = entropy_one norm d.
Proof. intros Hc. unfold entropy_one. rewrite lengths_scale, all_pos_scale by auto.
  destruct (all_pos (lengths d)) eqn:A; auto. f_equal. unfold entropy_val. rewrite map_length.
  destruct (lengths d) as [|x l] eqn:E. reflexivity.
  rewrite shannon_scale. reflexivity. lra.
  assert (0 < sumR (x :: l)). { apply pos_sum_pos. discriminate. apply all_pos_iff; auto. } lra. Qed.

Lemma collect_map_some {A} (f : A -> option R) l v :
  collect (map f l) = Some v -> Forall2 (fun a x => f a = Some x) l v.
Proof. revert v. induction l as [|a l IH]; simpl; intros v H.
  - inversion H. constructor.
  - destruct (f a) eqn:F; [|discriminate]. destruct (collect (map f l)) eqn:C; [|discriminate].
    inversion H; subst. constructor; auto. Qed.

Lemma collect_map_none {A} (f : A -> option R) l :
  collect (map f l) = None <-> exists a, In a l /\ f a = None.
Proof. induction l as [|a l IH]; simpl.
  - split. discriminate. intros [? [[] _]].
  - destruct (f a) eqn:F.
    + destruct (collect (map f l)) eqn:C.
      * split. discriminate. intros [b [[->|I] Hb]]. congruence.
        destruct IH as [_ IH]. discriminate IH. exists b; auto.
      * split; auto. intros _. destruct IH as [IH _]. destruct (IH eq_refl) as [b [I Hb]]. exists b; auto.
    + split; auto. intros _. exists a; auto. Qed.

(* a list of diagrams yields the vector of individual entropies, in order *)
Lemma entropy_list_is_map norm dgms v :
  persistent_entropy false None norm dgms = Ok v ->
  Forall2 (fun d x => entropy_one norm (drop_inf d) = Some x) dgms v.
Proof. unfold persistent_entropy. rewrite map_map.
  destruct (collect _) eqn:C; [|discriminate]. intros [= <-]. apply collect_map_some in C. exact C. Qed.

Lemma entropy_list_subst norm w dgms v :
  persistent_entropy true (Some w) norm dgms = Ok v ->
  Forall2 (fun d x => entropy_one norm (subst_inf w d) = Some x) dgms v.
Proof. unfold persistent_entropy. rewrite map_map.
  destruct (collect _) eqn:C; [|discriminate]. intros [= <-]. apply collect_map_some in C. exact C. Qed.

Lemma keep_inf_without_value norm dgms : persistent_entropy true None norm dgms = ErrNoVal.
Proof. reflexivity. Qed.

Lemma nonpositive_bar_is_error norm dgms :
  persistent_entropy false None norm dgms = ErrBar <->
  exists d b, In d dgms /\ In b (drop_inf d) /\ snd b - fst b <= 0.
Proof. unfold persistent_entropy. rewrite map_map. destruct (collect _) eqn:C.
  - split; [discriminate|]. intros [d [b [I [J L]]]]. exfalso.
    assert (X : collect (map (fun x => entropy_one norm (drop_inf x)) dgms) = None).
    { apply collect_map_none. exists d. split; auto. apply entropy_one_none. exists b; auto. } congruence.
  - split; auto. intros _. apply collect_map_none in C. destruct C as [d [I N]].
    apply entropy_one_none in N. destruct N as [b [J L]]. exists d, b; auto. Qed.

(* infinite bars do not influence the value when they are dropped *)
Lemma drop_inf_app a b : drop_inf (a ++ b) = drop_inf a ++ drop_inf b.
Proof. unfold drop_inf. apply flat_map_app. Qed.
Lemma inf_bars_dropped norm (d : list bar) x : entropy_one norm (drop_inf ((x, PInf) :: d)) = entropy_one norm (drop_inf d).
Proof. reflexivity. Qed.
