(* Soundness of the executable rational enclosure of the Wasserstein model (Model/WassEncM.v). *)
From Coq Require Import QArith Qreals Reals List Bool Arith ZArith Permutation Lia Lra.
From Persim Require Import Spec.PartialMatching Spec.WassersteinS Lib.AugMatching Model.WassM Model.WassEncM
     Proofs.WassP.
Import ListNotations.
Open Scope R_scope.

Lemma Q2R_zero : Q2R 0 = 0.
Proof. unfold Q2R. simpl. lra. Qed.
Lemma Q2R_make n d : Q2R (n # d) = IZR n / IZR (Zpos d).
Proof. reflexivity. Qed.

(* ------------------------------------------------------------------ sqrt through Z.sqrt *)
Lemma sqrt_between (a b X : Z) (Y : R) :
  (0 <= a)%Z -> (a * a <= X)%Z -> (X <= b * b)%Z -> (0 <= b)%Z -> 0 < Y ->
  IZR a / Y <= sqrt (IZR X / (Y * Y)) <= IZR b / Y.
Proof.
  intros A0 AX XB B0 Y0.
  assert (IY : 0 < / (Y * Y)) by (apply Rinv_0_lt_compat; nra).
  assert (Yn : Y <> 0) by lra.
  split.
  - rewrite <- (sqrt_square (IZR a / Y)).
    + apply sqrt_le_1_alt.
      replace (IZR a / Y * (IZR a / Y)) with (IZR (a * a) * / (Y * Y)) by (rewrite mult_IZR; field; exact Yn).
      unfold Rdiv. apply Rmult_le_compat_r; [lra|]. apply IZR_le. exact AX.
    + apply Rmult_le_pos; [apply IZR_le; exact A0|]. apply Rlt_le, Rinv_0_lt_compat. exact Y0.
  - rewrite <- (sqrt_square (IZR b / Y)) at 1.
    + apply sqrt_le_1_alt.
      replace (IZR b / Y * (IZR b / Y)) with (IZR (b * b) * / (Y * Y)) by (rewrite mult_IZR; field; exact Yn).
      unfold Rdiv. apply Rmult_le_compat_r; [lra|]. apply IZR_le. exact XB.
    + apply Rmult_le_pos; [apply IZR_le; exact B0|]. apply Rlt_le, Rinv_0_lt_compat. exact Y0.
Qed.

Theorem sqrt_bounds_sound (p : positive) (q : Q) :
  Q2R (fst (sqrt_bounds p q)) <= sqrt (Q2R q) <= Q2R (snd (sqrt_bounds p q)).
Proof.
  unfold sqrt_bounds. rewrite <- (Qeq_eqR _ _ (Qred_correct q)).
  destruct (Qred q) as [n d]. cbn [Qnum Qden].
  destruct (Z.leb_spec n 0) as [Neg|Pos].
  - cbn [fst snd]. rewrite Q2R_zero, sqrt_neg_0; [lra|].
    rewrite Q2R_make. unfold Rdiv. assert (0 < / IZR (Z.pos d)) by (apply Rinv_0_lt_compat, IZR_lt; lia).
    assert (IZR n <= 0) by (apply IZR_le; exact Neg). nra.
  - set (e := (2 ^ p)%positive). set (X := (n * Z.pos d * Z.pos (e * e))%Z).
    assert (X0 : (0 <= X)%Z) by (unfold X; nia).
    pose proof (Z.sqrt_spec X X0) as SP. cbv zeta in SP. pose proof (Z.sqrt_nonneg X) as S0.
    set (s := Z.sqrt X) in *.
    set (Y := IZR (Z.pos (d * e))).
    assert (Y0 : 0 < Y) by (apply IZR_lt; lia).
    assert (E : Q2R (n # d) = IZR X / (Y * Y)).
    { rewrite Q2R_make. unfold X, Y. rewrite !Pos2Z.inj_mul, !mult_IZR. field.
      split; apply not_0_IZR; lia. }
    rewrite E. cbn [fst snd]. rewrite !Q2R_make. fold Y.
    destruct (Z.eqb_spec (s * s) X) as [Ex|Nx].
    + apply sqrt_between; try lia; exact Y0.
    + apply sqrt_between; try lia; try exact Y0.
Qed.

(* ------------------------------------------------------------------ costs *)
Definition inj (a : qpt) : rpoint := (Q2R (fst a), Q2R (snd a)).
Definition injx (a : xpt Q) : xpt R := (Q2R (fst a), option_map Q2R (snd a)).

Definition inside (c : ival) (x : R) : Prop := Q2R (fst c) <= x <= Q2R (snd c).

Lemma euclid_iv_sound p a b : inside (euclid_iv p a b) (euclid (inj a) (inj b)).
Proof.
  unfold inside, euclid_iv, euclid, inj. cbn [fst snd].
  replace ((Q2R (fst a) - Q2R (fst b)) * (Q2R (fst a) - Q2R (fst b)) +
           (Q2R (snd a) - Q2R (snd b)) * (Q2R (snd a) - Q2R (snd b))) with (Q2R (sq_dist a b)).
  - apply sqrt_bounds_sound.
  - unfold sq_dist. rewrite Q2R_plus, !Q2R_mult, !Q2R_minus. reflexivity.
Qed.

Lemma diag_iv_sound p a : inside (diag_iv p a) (diagW (inj a)).
Proof.
  unfold inside, diag_iv, diagW, inj. cbn [fst snd].
  set (t := (snd a - fst a)%Q).
  assert (Et : Q2R (snd a) - Q2R (fst a) = Q2R t) by (unfold t; rewrite Q2R_minus; reflexivity).
  rewrite Et.
  pose proof (sqrt_bounds_sound p (t * t * (1 # 2))) as SB.
  assert (E2 : Q2R (t * t * (1 # 2)) = Q2R t * Q2R t / 2).
  { rewrite !Q2R_mult. rewrite (Q2R_make 1 2). simpl. field. }
  rewrite E2 in SB.
  assert (S2 : 0 < sqrt 2) by (apply sqrt_lt_R0; lra).
  assert (Half : forall T, 0 <= T -> sqrt (T * T / 2) = T / sqrt 2).
  { intros T T0. unfold Rdiv at 1. rewrite sqrt_mult_alt by nra.
    rewrite sqrt_square by exact T0. rewrite sqrt_inv; try lra. }
  destruct (Qle_bool 0 t) eqn:B.
  - apply Qle_bool_iff, Qle_Rle in B. rewrite Q2R_zero in B.
    rewrite (Half _ B) in SB. exact SB.
  - assert (B' : Q2R t < 0).
    { apply Rnot_le_lt. intros H. rewrite <- Q2R_zero in H. apply Rle_Qle, Qle_bool_iff in H. congruence. }
    cbn [fst snd]. rewrite !Q2R_opp.
    replace (Q2R t * Q2R t / 2) with ((- Q2R t) * (- Q2R t) / 2) in SB by field.
    rewrite (Half (- Q2R t)) in SB by lra.
    replace (Q2R t / sqrt 2) with (- (- Q2R t / sqrt 2)) by (field; lra). lra.
Qed.

(* ------------------------------------------------------------------ the two matrices, cell by cell *)
Definition contains (cq : xcost ival) (cr : xcost R) : Prop :=
  match cq, cr with
  | CFin c, CFin x => inside c x
  | CInf, CInf => True
  | _, _ => False
  end.

Ltac qlia := unfold rpoint, qpt in *; lia.
Lemma aug_contains p (SQ TQ : list qpt) i j :
  (i < length SQ + length TQ)%nat -> (j < length SQ + length TQ)%nat ->
  contains (entry (aug_iv p SQ TQ) i j) (entry (aug_matrix (map inj SQ) (map inj TQ)) i j).
Proof.
  intros Li Lj. unfold aug_iv, aug_matrix.
  assert (LS : length (map inj SQ) = length SQ) by apply map_length.
  assert (LT : length (map inj TQ) = length TQ) by apply map_length.
  destruct (lt_dec i (length SQ)) as [Hi|Hi]; destruct (lt_dec j (length TQ)) as [Hj|Hj].
  - rewrite (entry_ul _ _ _ (0, 0)%Q) by qlia.
    rewrite (entry_ul _ _ _ (inj (0, 0)%Q)) by qlia.
    rewrite !map_nth. apply euclid_iv_sound.
  - rewrite (entry_ur _ _ _ (0, 0)%Q) by qlia.
    rewrite (entry_ur _ _ _ (inj (0, 0)%Q)) by qlia.
    unfold rpoint, qpt in *. rewrite LT. destruct (Nat.eqb (j - length TQ) i); [|exact I].
    rewrite map_nth. simpl. rewrite rot_second_coord_l. apply diag_iv_sound.
  - rewrite (entry_ll _ _ _ (0, 0)%Q) by qlia.
    rewrite (entry_ll _ _ _ (inj (0, 0)%Q)) by qlia.
    unfold rpoint, qpt in *. rewrite LS. destruct (Nat.eqb (i - length SQ) j); [|exact I].
    rewrite map_nth. simpl. rewrite rot_second_coord_l. apply diag_iv_sound.
  - rewrite entry_lr by qlia. rewrite entry_lr by qlia.
    simpl. unfold inside. simpl. rewrite Q2R_zero. lra.
Qed.

Lemma finite_pts_inj d : finite_pts (map injx d) = map inj (finite_pts d).
Proof.
  induction d as [|[b [x|]] d IH]; [reflexivity| |].
  - change (finite_pts (map injx ((b, Some x) :: d))) with ((Q2R b, Q2R x) :: finite_pts (map injx d)).
    rewrite IH. reflexivity.
  - change (finite_pts (map injx ((b, None) :: d))) with (finite_pts (map injx d)). exact IH.
Qed.
Lemma prep_inj d : placeholder 0 (finite_pts (map injx d)) = map inj (placeholder 0%Q (finite_pts d)).
Proof.
  rewrite finite_pts_inj. destruct (finite_pts d) as [|a l]; [|reflexivity].
  simpl. unfold inj. simpl. rewrite Q2R_zero. reflexivity.
Qed.

(* ------------------------------------------------------------------ the certificate checks *)
Lemma perm_check_sound K sigma : perm_check K sigma = true -> Permutation sigma (seq 0 K).
Proof.
  unfold perm_check. intros H. apply andb_true_iff in H. destruct H as [L F].
  apply Nat.eqb_eq in L. rewrite forallb_forall in F.
  apply Permutation_sym. apply NoDup_Permutation_bis.
  - apply seq_NoDup.
  - rewrite seq_length. lia.
  - intros j I. apply existsb_eqb_In. apply F. exact I.
Qed.

Lemma dual_ok_sound (D : list (list (xcost ival))) u v : dual_ok D u v = true ->
  length u = length D /\ length v = length D /\
  forall i j c, (i < length D)%nat -> (j < length D)%nat -> entry D i j = CFin c ->
                (nth i u 0 + nth j v 0 <= fst c)%Q.
Proof.
  unfold dual_ok. intros H. apply andb_true_iff in H. destruct H as [H F].
  apply andb_true_iff in H. destruct H as [Lu Lv]. apply Nat.eqb_eq in Lu, Lv.
  split; [exact Lu|split; [exact Lv|]]. intros i j c Li Lj E.
  rewrite forallb_forall in F. specialize (F i). rewrite in_seq in F. specialize (F ltac:(lia)).
  rewrite forallb_forall in F. specialize (F j). rewrite in_seq in F. specialize (F ltac:(lia)).
  rewrite E in F. apply Qle_bool_iff. exact F.
Qed.

Lemma sum_hi_sound lq lr h : Forall2 contains lq lr -> sum_hi lq = Some h ->
  exists s, xsum lr = CFin s /\ s <= Q2R h.
Proof.
  intros F. revert h. induction F as [|cq cr lq lr C F IH]; intros h H.
  - simpl in H. inversion H. exists 0. split; [reflexivity|]. rewrite Q2R_zero. lra.
  - simpl in H. destruct cq as [c|]; [|discriminate]. destruct (sum_hi lq) as [s0|]; [|discriminate].
    inversion H. destruct (IH s0 eq_refl) as [s [X L]].
    destruct cr as [x|]; [|destruct C]. exists (x + s). simpl. rewrite X. split; [reflexivity|].
    rewrite Q2R_plus. destruct C as [_ C]. lra.
Qed.

Lemma gather_contains (DQ : list (list (xcost ival))) DR K mi mj :
  (forall i j, (i < K)%nat -> (j < K)%nat -> contains (entry DQ i j) (entry DR i j)) ->
  (forall i, In i mi -> (i < K)%nat) -> (forall j, In j mj -> (j < K)%nat) ->
  Forall2 contains (gather DQ mi mj) (gather DR mi mj).
Proof.
  intros C. revert mj. induction mi as [|i mi IH]; intros [|j mj] Bi Bj; try constructor.
  - apply C; [apply Bi|apply Bj]; now left.
  - apply IH; intros; [apply Bi|apply Bj]; now right.
Qed.

Lemma sumRl_Q2R u : sumRl (map Q2R u) = Q2R (qsum u).
Proof. induction u as [|x u IH]; simpl; [rewrite Q2R_zero; reflexivity|]. rewrite Q2R_plus, IH. reflexivity. Qed.

(* ------------------------------------------------------------------ the enclosure contains the model's value *)
Theorem wass_enclosure_sound_l lsa matching p d1 d2 sigma u v lo hi :
  wass_enclosure p d1 d2 sigma u v = Some (lo, hi) ->
  lsa_optimal_on lsa (map injx d1) (map injx d2) ->
  exists x, w_dist (wasserstein lsa matching (map injx d1) (map injx d2)) = CFin x /\ Q2R lo <= x <= Q2R hi.
Proof.
  unfold wass_enclosure, lsa_optimal_on, wasserstein. cbn [w_dist]. rewrite !prep_inj.
  set (SQ := placeholder 0%Q (finite_pts d1)). set (TQ := placeholder 0%Q (finite_pts d2)).
  set (DQ := aug_iv p SQ TQ). set (DR := aug_matrix (map inj SQ) (map inj TQ)).
  assert (KQ : length DQ = (length SQ + length TQ)%nat) by apply aug_length.
  assert (KR : length DR = (length SQ + length TQ)%nat).
  { unfold DR, aug_matrix. rewrite aug_length, !map_length. reflexivity. }
  set (K := (length SQ + length TQ)%nat) in *.
  intros H [A O].
  destruct (perm_check (length DQ) sigma && dual_ok DQ u v) eqn:CK; [|discriminate].
  destruct (sum_hi (gather DQ (seq 0 (length DQ)) sigma)) as [h|] eqn:SH; [|discriminate].
  assert (Elo : lo = Qred (qsum u + qsum v)) by congruence.
  assert (Ehi : hi = Qred h) by congruence. clear H. subst lo hi.
  apply andb_true_iff in CK. destruct CK as [PC DK].
  apply perm_check_sound in PC. rewrite KQ in PC, SH.
  destruct (dual_ok_sound _ _ _ DK) as (Lu & Lv & DU). rewrite KQ in Lu, Lv, DU.
  assert (CT : forall i j, (i < K)%nat -> (j < K)%nat -> contains (entry DQ i j) (entry DR i j))
    by (intros; apply aug_contains; assumption).
  (* upper end *)
  assert (AS : is_assignment K (seq 0 K) sigma).
  { split; [rewrite seq_length; symmetry; rewrite (Permutation_length PC), seq_length; reflexivity|].
    split; [apply Permutation_refl|exact PC]. }
  assert (G : Forall2 contains (gather DQ (seq 0 K) sigma) (gather DR (seq 0 K) sigma)).
  { apply (gather_contains DQ DR K); [exact CT| |].
    - intros i I. apply in_seq in I. lia.
    - intros j I. apply (Permutation_in _ PC) in I. apply in_seq in I. lia. }
  destruct (sum_hi_sound _ _ _ G SH) as [s' [X' L']].
  rewrite KR in A, O. pose proof (O _ _ AS) as LE. rewrite X' in LE.
  destruct (xsum (gather DR (fst (lsa DR)) (snd (lsa DR)))) as [x|] eqn:X; [|destruct LE].
  simpl in LE. exists x. split; [reflexivity|]. split.
  - (* lower end: weak duality *)
    rewrite (Qeq_eqR _ _ (Qred_correct _)), Q2R_plus, <- !sumRl_Q2R.
    apply (weak_duality_l DR (map Q2R u) (map Q2R v) (fst (lsa DR)) (snd (lsa DR)) x).
    + rewrite map_length, KR. exact Lu.
    + rewrite map_length, KR. exact Lv.
    + rewrite KR. intros i j c Li Lj E.
      pose proof (CT i j Li Lj) as C. rewrite E in C.
      destruct (entry DQ i j) as [cq|] eqn:EQ; [|destruct C].
      pose proof (DU i j cq Li Lj EQ) as DUij. apply Qle_Rle in DUij. rewrite Q2R_plus in DUij.
      rewrite (nth_map_in Q2R u i 0%Q) by lia. rewrite (nth_map_in Q2R v j 0%Q) by lia.
      destruct C as [C _]. lra.
    + rewrite KR. exact A.
    + exact X.
  - rewrite (Qeq_eqR _ _ (Qred_correct _)). lra.
Qed.
