(* C05: executable check of the hypothesis [dmatrix] (used per case by the correspondence). *)
From Coq Require Import ZArith List Bool Arith Lia.
From Persim Require Import Spec.MGH.
Import ListNotations.
Open Scope Z_scope.

Definition dmatrix_b (D : mat) : bool :=
  let n := length D in
  forallb (fun r => (length r =? n)%nat) D &&
  forallb (fun i => (ent D i i =? 0) &&
                    forallb (fun j => (ent D i j =? ent D j i) && ((i =? j)%nat || (0 <? ent D i j)))
                            (seq 0 n))
          (seq 0 n).

Lemma dmatrix_b_sound D : dmatrix_b D = true -> dmatrix D.
Proof.
  unfold dmatrix_b. intros H. apply andb_true_iff in H. destruct H as [H1 H2].
  rewrite forallb_forall in H1, H2.
  assert (P : forall i j, (i < length D)%nat -> (j < length D)%nat ->
              ent D i i = 0 /\ ent D i j = ent D j i /\ (i <> j -> 0 < ent D i j)).
  { intros i j Hi Hj. specialize (H2 i ltac:(apply in_seq; lia)). apply andb_true_iff in H2. destruct H2 as [Z0 H2].
    rewrite forallb_forall in H2. specialize (H2 j ltac:(apply in_seq; lia)). apply andb_true_iff in H2.
    destruct H2 as [S0 P0]. split; [apply Z.eqb_eq; exact Z0|]. split; [apply Z.eqb_eq; exact S0|].
    intros NE. apply orb_true_iff in P0. destruct P0 as [E|L]; [apply Nat.eqb_eq in E; congruence|apply Z.ltb_lt; exact L]. }
  split; [|split; [|split]].
  - apply Forall_forall. intros r Hr. apply Nat.eqb_eq. apply H1. exact Hr.
  - intros i Hi. apply (P i i Hi Hi).
  - intros i j Hi Hj. apply (P i j Hi Hj).
  - intros i j Hi Hj NE. apply (P i j Hi Hj). exact NE.
Qed.
