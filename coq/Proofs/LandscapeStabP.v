(* Glue C01 / C03 / C08 / C09 / C10: stability of persistence landscapes.  For every partial matching m
   of two diagrams, |lambda_k(D)(t) - lambda_k(D')(t)| <= largest cost of m, hence <= the bottleneck distance;
   lifted to the models: the sup norm (C10) of the difference (C09) of the sweeps (C03) of two diagrams is at
   most the value the bottleneck model (C01) returns; grid landscapes (C08) differ by at most that + one step. *)
From Coq Require Import QArith Qminmax Qabs Lqa List Bool Arith Lia Permutation.
From Persim Require Import Lib.Kth Lib.PL Spec.LandscapeS Spec.PartialMatching Spec.BottleneckS.
From Persim Require Import Lib.PMatchLemmas.
From Persim Require Import Spec.LandArithS Model.LandArithM Proofs.LandArithP.
From Persim Require Spec.PNormS Model.PNormM Proofs.PNormSup.
From Persim Require Lib.AugMatching Model.SweepM Model.ApproxM Proofs.ApproxP Model.BneckM Proofs.BneckP Proofs.MetricInstP.
From Persim Require Import Proofs.SweepStep Proofs.SweepP.
From Persim Require Import Spec.LandscapeGlueS Proofs.LandscapeGlueP Proofs.LandscapeGlueArithP.
Import ListNotations.
Open Scope Q_scope.

(* ---- pointwise facts ---- *)
Lemma tent_le_diag (p : bar) t : tent p t <= Qmax 0 (diagB p).
Proof. destruct p as [b d]. unfold diagB. utent. qmm; lra. Qed.

Lemma tent_unmatched_close (p : bar) t c : diagB p <= c -> 0 <= c ->
  Qabs (tent p t - 0) <= c /\ Qabs (0 - tent p t) <= c.
Proof. intros D C. pose proof (tent_le_diag p t) as H. pose proof (tent_nonneg p t).
  rewrite !ApproxP.Qabs_le_iff. revert H. qmm; lra. Qed.

Lemma tent_pair_close (p q : bar) t : Qabs (tent p t - tent q t) <= linf p q.
Proof. destruct p as [b d], q as [b' d']. apply ApproxP.tent_lipschitz_P; unfold linf; simpl.
  apply Q.le_max_l. apply Q.le_max_r. Qed.

Lemma Forall2_map_repeat_l (f : nat -> Q) e l : (forall i, In i l -> Qabs (f i - 0) <= e) ->
  Forall2 (fun x y => Qabs (x - y) <= e) (map f l) (repeat 0 (length l)).
Proof. induction l as [|a r IH]; intro H; simpl; constructor. apply H; left; auto. apply IH. intros; apply H; right; auto. Qed.
Lemma Forall2_map_repeat_r (f : nat -> Q) e l : (forall i, In i l -> Qabs (0 - f i) <= e) ->
  Forall2 (fun x y => Qabs (x - y) <= e) (repeat 0 (length l)) (map f l).
Proof. induction l as [|a r IH]; intro H; simpl; constructor. apply H; left; auto. apply IH. intros; apply H; right; auto. Qed.
Lemma Forall2_map_map {X} (f g : X -> Q) e l : (forall p, In p l -> Qabs (f p - g p) <= e) ->
  Forall2 (fun x y => Qabs (x - y) <= e) (map f l) (map g l).
Proof. induction l as [|a r IH]; intro H; simpl; constructor. apply H; left; auto. apply IH. intros; apply H; right; auto. Qed.

Lemma tents_by_index (S : list bar) t :
  map (fun i => tent (nth i S (0, 0)) t) (seq 0 (length S)) = map (fun a => tent a t) S.
Proof. rewrite <- (map_map (fun i => nth i S (0, 0)) (fun a => tent a t)). rewrite map_nth_seq. reflexivity. Qed.

(* the tents of the matched and the unmatched indices together have the rank function of all tents *)
Lemma ex_split_indices (S : list bar) t used v : NoDup used -> (forall x, In x used -> (x < length S)%nat) ->
  Nat.add (ex (map (fun i => tent (nth i S (0, 0)) t) used) v)
          (ex (map (fun i => tent (nth i S (0, 0)) t) (unmatched used (length S))) v)
  = ex (map (fun a => tent a t) S) v.
Proof. intros ND B. rewrite <- ApproxP.ex_app, <- map_app, <- tents_by_index.
  apply ex_perm. apply Permutation_map. apply AugMatching.unmatched_perm; auto. Qed.

Lemma tents_nn (S : list bar) t x : In x (map (fun a => tent a t) S) -> 0 <= x.
Proof. intro H. apply in_map_iff in H. destruct H as (a & <- & _). apply tent_nonneg. Qed.

(* ---- G3: every partial matching bounds the difference of the landscapes by its largest cost ---- *)
Lemma landscape_stability_matching (S T : list bar) m : valid_for S T m ->
  forall (k : nat) (t : Q), (1 <= k)%nat -> Qabs (land S k t - land T k t) <= bcost S T m.
Proof.
  intros (ND1 & ND2 & BD) k t Hk.
  set (c := bcost S T m).
  assert (C0 : 0 <= c) by apply BneckP.maxl_nonneg.
  assert (CG : forall x, In x (bcosts S T m) -> x <= c) by (intros; apply BneckP.maxl_ge; auto).
  clearbody c.
  set (tS := fun i => tent (nth i S (0, 0)) t). set (tT := fun j => tent (nth j T (0, 0)) t).
  set (UL := unmatched_l (length S) m). set (UR := unmatched_r (length T) m).
  set (l1 := map (fun p => tS (fst p)) m ++ map tS UL ++ repeat 0 (length UR)).
  set (l2 := map (fun p => tT (snd p)) m ++ repeat 0 (length UL) ++ map tT UR).
  assert (F : Forall2 (fun x y => Qabs (x - y) <= c) l1 l2).
  { unfold l1, l2. apply Forall2_app; [|apply Forall2_app].
    - apply Forall2_map_map. intros p Hp. eapply Qle_trans. apply tent_pair_close.
      apply CG. apply in_pm_costs. left. exists p. split; auto.
    - apply Forall2_map_repeat_l. intros i Hi. unfold UL, unmatched_l in Hi. apply in_unmatched in Hi.
      apply tent_unmatched_close; auto. apply CG. apply in_pm_costs. right; left. exists i. tauto.
    - apply Forall2_map_repeat_r. intros j Hj. unfold UR, unmatched_r in Hj. apply in_unmatched in Hj.
      apply tent_unmatched_close; auto. apply CG. apply in_pm_costs. right; right. exists j. tauto. }
  assert (N1 : forall x, In x l1 -> 0 <= x).
  { intros x Hx. unfold l1 in Hx. rewrite !in_app_iff, !in_map_iff in Hx.
    destruct Hx as [(p & <- & _)|[(i & <- & _)|Hx]]; try apply tent_nonneg. apply repeat_spec in Hx. subst; lra. }
  assert (N2 : forall x, In x l2 -> 0 <= x).
  { intros x Hx. unfold l2 in Hx. rewrite !in_app_iff, !in_map_iff in Hx.
    destruct Hx as [(p & <- & _)|[Hx|(i & <- & _)]]; try apply tent_nonneg. apply repeat_spec in Hx. subst; lra. }
  assert (E1 : kth l1 k == land S k t).
  { unfold land. apply kth_ext; auto. apply tents_nn. intros v Hv. unfold l1.
    rewrite !ApproxP.ex_app, ApproxP.ex_repeat0 by auto.
    rewrite <- (ex_split_indices S t (map fst m) v ND1) by (intros x Hx; apply in_map_iff in Hx; destruct Hx as (p & <- & Hp); apply BD; auto).
    rewrite map_map. fold tS. fold (unmatched_l (length S) m). fold UL. unfold tS. lia. }
  assert (E2 : kth l2 k == land T k t).
  { unfold land. apply kth_ext; auto. apply tents_nn. intros v Hv. unfold l2.
    rewrite !ApproxP.ex_app, ApproxP.ex_repeat0 by auto.
    rewrite <- (ex_split_indices T t (map snd m) v ND2) by (intros x Hx; apply in_map_iff in Hx; destruct Hx as (p & <- & Hp); apply BD; auto).
    rewrite map_map. fold tT. fold (unmatched_r (length T) m). fold UR. unfold tT. lia. }
  rewrite <- E1, <- E2. apply ApproxP.kth_lipschitz_P; auto.
Qed.

Lemma landscape_stability_P (D D' : list bar) v : is_bottleneck D D' v ->
  forall (k : nat) (t : Q), (1 <= k)%nat -> Qabs (land D k t - land D' k t) <= v.
Proof. intros [(m & V & E) _] k t Hk. rewrite <- E. apply landscape_stability_matching; auto. Qed.

(* ---- the sup norm of a landscape is at most v as soon as every depth is at most v everywhere ---- *)
Lemma wfL_incr L : wfL L -> PNormS.wf L.
Proof. intro W. unfold PNormS.wf. unfold wfL in W. rewrite Forall_forall in *. intros l Hl. apply (W l Hl). Qed.

Lemma sup_spec_le (R : list (list pt)) v : PNormS.wf R -> 0 <= v ->
  (forall k t, Qabs (evalL R k t) <= v) -> PNormS.sup_spec R <= v.
Proof.
  intros W V H. destruct (concat R) as [|a r] eqn:E.
  - rewrite PNormSup.sup_spec_concat, E. simpl. exact V.
  - destruct (proj2 (PNormSup.sup_spec_is_sup R W)) as (l & t & Hl & Et). rewrite E; discriminate.
    destruct (In_nth R l [] Hl) as (k & _ & Ek). rewrite <- Et, <- Ek. apply (H k t).
Qed.

Lemma evalL_le_sup (R : list (list pt)) k t : PNormS.wf R -> Qabs (evalL R k t) <= PNormS.sup_spec R.
Proof. intro W. unfold evalL. destruct (Nat.lt_ge_cases k (length R)) as [Hk|Hk].
  - apply (proj1 (PNormSup.sup_spec_is_sup R W)). apply nth_In; auto.
  - rewrite nth_overflow by auto. simpl. apply PNormSup.sup_spec_nonneg. Qed.

Lemma exact_sup_norm_le (R : list (list pt)) v s : PNormS.sup_spec R <= v ->
  PNormM.exact_sup_norm R = Some s -> s <= v.
Proof. intros H E. destruct (concat R) as [|a r] eqn:C.
  - rewrite PNormSup.exact_sup_norm_empty in E by auto. discriminate.
  - destruct (PNormSup.exact_sup_norm_correct R) as (s' & E' & Es). rewrite C; discriminate.
    rewrite E in E'. inversion E'; subst s'. rewrite Es. exact H. Qed.

(* ---- G3, lifted to the models ---- *)
Lemma sub_of_sweeps variant deg D D' L L' : positive_bars D -> positive_bars D' ->
  SweepM.sweep false D = Some L -> SweepM.sweep false D' = Some L' ->
  exists R, e_sub variant (mkE deg L) (mkE deg L') = LandArithM.Ok R /\ wfL (e_cp R) /\
    forall k t, evalL (e_cp R) k t == land D (S k) t - land D' (S k) t.
Proof.
  intros PB PB' RUN RUN'.
  destruct (leaf_is_land deg D (mkE deg L)) as (W & EV). { repeat split; auto. }
  destruct (leaf_is_land deg D' (mkE deg L')) as (W' & EV'). { repeat split; auto. }
  destruct (e_sub_pointwise variant (mkE deg L) (mkE deg L') W W' eq_refl) as (R & E & _ & WR & _ & P).
  exists R. split; [exact E|]. split; [exact WR|]. intros k t. rewrite P, EV, EV'. reflexivity.
Qed.

Lemma is_bottleneck_nonneg S T v : is_bottleneck S T v -> 0 <= v.
Proof. intros [(m & _ & E) _]. rewrite <- E. apply BneckP.maxl_nonneg. Qed.

Lemma exact_landscape_stability_P variant deg D D' L L' v : positive_bars D -> positive_bars D' ->
  SweepM.sweep false D = Some L -> SweepM.sweep false D' = Some L' -> is_bottleneck D D' v ->
  exists R, e_sub variant (mkE deg L) (mkE deg L') = LandArithM.Ok R /\
    (forall k t, evalL (e_cp R) k t == land D (S k) t - land D' (S k) t) /\
    (forall k t, Qabs (evalL (e_cp R) k t) <= v) /\
    PNormS.sup_spec (e_cp R) <= v /\
    (forall s, PNormM.exact_sup_norm (e_cp R) = Some s -> s <= v).
Proof.
  intros PB PB' RUN RUN' B.
  destruct (sub_of_sweeps variant deg D D' L L' PB PB' RUN RUN') as (R & E & W & P).
  exists R. split; [exact E|]. split; [exact P|].
  assert (H : forall k t, Qabs (evalL (e_cp R) k t) <= v).
  { intros k t. rewrite P. apply landscape_stability_P; auto. lia. }
  assert (SB : PNormS.sup_spec (e_cp R) <= v).
  { apply sup_spec_le; auto. apply wfL_incr; auto. eapply is_bottleneck_nonneg; eauto. }
  split; [exact H|]. split; [exact SB|]. intros s Es. eapply exact_sup_norm_le; eauto.
Qed.

Lemma positive_wfdgm (D : list bar) : positive_bars D -> wfdgm D.
Proof. intros P p Hp. apply Qlt_le_weak. apply P; auto. Qed.

Lemma exact_landscape_stability_model_P oracle variant deg D D' L L' :
  BneckM.max_matching_oracle oracle -> positive_bars D -> positive_bars D' ->
  SweepM.sweep false D = Some L -> SweepM.sweep false D' = Some L' ->
  exists R w, e_sub variant (mkE deg L) (mkE deg L') = LandArithM.Ok R /\
    BneckM.bottleneck_model oracle (map MetricInstP.liftQ D) (map MetricInstP.liftQ D') = Some (BneckM.CFin w) /\
    is_bottleneck D D' w /\
    PNormS.sup_spec (e_cp R) <= w /\
    (forall s, PNormM.exact_sup_norm (e_cp R) = Some s -> s <= w).
Proof.
  intros OM PB PB' RUN RUN'.
  destruct (BneckP.bottleneck_model_correct oracle OM (map MetricInstP.liftQ D) (map MetricInstP.liftQ D')) as (w & E & I);
    rewrite ?MetricInstP.finite_liftQ; try (apply positive_wfdgm; assumption).
  rewrite !MetricInstP.finite_liftQ in I.
  destruct (exact_landscape_stability_P variant deg D D' L L' w PB PB' RUN RUN' I) as (R & ER & _ & _ & SB & SN).
  exists R, w. auto.
Qed.

(* ---- G4 ---- *)
Lemma approx_landscape_stability_P s e n D D' v k i : (2 <= n)%nat -> s < e ->
  (forall bd, In bd D -> s <= fst bd <= e /\ s <= snd bd <= e) ->
  (forall bd, In bd D' -> s <= fst bd <= e /\ s <= snd bd <= e) -> (i < n)%nat ->
  is_bottleneck D D' v ->
  Qabs (ApproxM.val_at (ApproxM.approx_values s e n D) k i - ApproxM.val_at (ApproxM.approx_values s e n D') k i)
    <= v + ApproxM.step s e n.
Proof.
  intros Hn Hse R R' Hi B.
  pose proof (ApproxP.approx_within_half_step_P s e n D k i Hn Hse R Hi) as H1.
  pose proof (ApproxP.approx_within_half_step_P s e n D' k i Hn Hse R' Hi) as H2.
  pose proof (landscape_stability_P D D' v B (S k) (ApproxM.node s e n i)) as H3.
  assert (1 <= S k)%nat as K by lia. specialize (H3 K).
  rewrite ApproxP.Qabs_le_iff in *. lra.
Qed.

Lemma sup_norm_triangle_P variant A B : wfL (e_cp A) -> wfL (e_cp B) -> e_deg A = e_deg B ->
  exists R, e_add variant A B = LandArithM.Ok R /\
    PNormS.sup_spec (e_cp R) <= PNormS.sup_spec (e_cp A) + PNormS.sup_spec (e_cp B).
Proof.
  intros WA WB DG. destruct (e_add_pointwise variant A B WA WB DG) as (R & E & _ & WR & _ & P).
  exists R. split; [exact E|]. apply sup_spec_le. apply wfL_incr; auto.
  - pose proof (PNormSup.sup_spec_nonneg (e_cp A)). pose proof (PNormSup.sup_spec_nonneg (e_cp B)). lra.
  - intros k t. rewrite P.
    pose proof (evalL_le_sup (e_cp A) k t (wfL_incr _ WA)) as HA.
    pose proof (evalL_le_sup (e_cp B) k t (wfL_incr _ WB)) as HB.
    eapply Qle_trans. apply Qabs_triangle. lra.
Qed.

Lemma sup_norm_sub_triangle_P variant A B : wfL (e_cp A) -> wfL (e_cp B) -> e_deg A = e_deg B ->
  exists R, e_sub variant A B = LandArithM.Ok R /\
    PNormS.sup_spec (e_cp R) <= PNormS.sup_spec (e_cp A) + PNormS.sup_spec (e_cp B).
Proof.
  intros WA WB DG. destruct (e_sub_pointwise variant A B WA WB DG) as (R & E & _ & WR & _ & P).
  exists R. split; [exact E|]. apply sup_spec_le. apply wfL_incr; auto.
  - pose proof (PNormSup.sup_spec_nonneg (e_cp A)). pose proof (PNormSup.sup_spec_nonneg (e_cp B)). lra.
  - intros k t. rewrite P.
    pose proof (evalL_le_sup (e_cp A) k t (wfL_incr _ WA)) as HA.
    pose proof (evalL_le_sup (e_cp B) k t (wfL_incr _ WB)) as HB.
    rewrite ApproxP.Qabs_le_iff in *. lra.
Qed.

Lemma sup_norm_triangle_both variant A B : wfL (e_cp A) -> wfL (e_cp B) -> e_deg A = e_deg B ->
  (exists R, e_add variant A B = LandArithM.Ok R /\
     PNormS.sup_spec (e_cp R) <= PNormS.sup_spec (e_cp A) + PNormS.sup_spec (e_cp B)) /\
  (exists R, e_sub variant A B = LandArithM.Ok R /\
     PNormS.sup_spec (e_cp R) <= PNormS.sup_spec (e_cp A) + PNormS.sup_spec (e_cp B)).
Proof. intros. split. apply sup_norm_triangle_P; auto. apply sup_norm_sub_triangle_P; auto. Qed.

(* ---- through the public entry point PersLandscapeExact(dgms, hom_deg) ---- *)
Lemma exact_landscape_is_sweep dgms h dg bars L : nth_error dgms h = Some dg ->
  SweepM.finite_bars (SweepM.strip_trailing_inf dg) = Some bars ->
  SweepM.exact_landscape false true dgms h = SweepM.Ok L -> SweepM.sweep false bars = Some L.
Proof. intros HS HF RUN. unfold SweepM.exact_landscape in RUN. rewrite HS in RUN. destruct dg as [|a r].
  - simpl in HF. inversion HF; subst bars. inversion RUN; subst L. reflexivity.
  - rewrite HF in RUN. destruct (SweepM.sweep false bars) as [L0|]; [|discriminate]. inversion RUN. reflexivity. Qed.

Lemma exact_landscape_entry_stability_P oracle variant deg dgms h dg D dgms' h' dg' D' :
  BneckM.max_matching_oracle oracle ->
  nth_error dgms h = Some dg -> SweepM.finite_bars (SweepM.strip_trailing_inf dg) = Some D -> positive_bars D ->
  nth_error dgms' h' = Some dg' -> SweepM.finite_bars (SweepM.strip_trailing_inf dg') = Some D' -> positive_bars D' ->
  exists L L' R w,
    SweepM.exact_landscape false true dgms h = SweepM.Ok L /\ SweepM.exact_landscape false true dgms' h' = SweepM.Ok L' /\
    e_sub variant (mkE deg L) (mkE deg L') = LandArithM.Ok R /\
    BneckM.bottleneck_model oracle (map MetricInstP.liftQ D) (map MetricInstP.liftQ D') = Some (BneckM.CFin w) /\
    is_bottleneck D D' w /\
    (forall k t, evalL (e_cp R) k t == land D (S k) t - land D' (S k) t) /\
    PNormS.sup_spec (e_cp R) <= w /\
    (forall s, PNormM.exact_sup_norm (e_cp R) = Some s -> s <= w).
Proof.
  intros OM HS HF PB HS' HF' PB'.
  destruct (exact_landscape_sem dgms h dg D HS HF PB) as (L & RUN & _).
  destruct (exact_landscape_sem dgms' h' dg' D' HS' HF' PB') as (L' & RUN' & _).
  pose proof (exact_landscape_is_sweep _ _ _ _ _ HS HF RUN) as SW.
  pose proof (exact_landscape_is_sweep _ _ _ _ _ HS' HF' RUN') as SW'.
  destruct (exact_landscape_stability_model_P oracle variant deg D D' L L' OM PB PB' SW SW') as (R & w & E & BM & IB & SB & SN).
  destruct (exact_landscape_stability_P variant deg D D' L L' w PB PB' SW SW' IB) as (R0 & E0 & P & _).
  rewrite E in E0. inversion E0; subst R0.
  exists L, L', R, w. split; [exact RUN|]. split; [exact RUN'|]. split; [exact E|]. split; [exact BM|].
  split; [exact IB|]. split; [exact P|]. split; [exact SB|exact SN].
Qed.

(* ---- the grid constructor end to end: two diagrams sampled on the same grid ---- *)
Lemma approx_ctor_landscape_stability_P start stop start' stop' n dgms h dgms' h' s e V V' v k i :
  ApproxM.approx_ctor start stop n dgms h = ApproxM.Ok (s, e, V) ->
  ApproxM.approx_ctor start' stop' n dgms' h' = ApproxM.Ok (s, e, V') ->
  (2 <= n)%nat -> s < e ->
  (forall x y, In (ApproxM.Fin x, ApproxM.Fin y) (nth h dgms []) -> s <= x <= e /\ s <= y <= e) ->
  (forall x y, In (ApproxM.Fin x, ApproxM.Fin y) (nth h' dgms' []) -> s <= x <= e /\ s <= y <= e) -> (i < n)%nat ->
  is_bottleneck (ApproxM.finite_bars (nth h dgms [])) (ApproxM.finite_bars (nth h' dgms' [])) v ->
  Qabs (ApproxM.val_at V k i - ApproxM.val_at V' k i) <= v + ApproxM.step s e n.
Proof.
  intros C C' Hn Hse R R' Hi B.
  pose proof (ApproxP.approx_ctor_within_half_step_P start stop n dgms h s e V k i C Hn Hse R Hi) as H1.
  pose proof (ApproxP.approx_ctor_within_half_step_P start' stop' n dgms' h' s e V' k i C' Hn Hse R' Hi) as H2.
  pose proof (landscape_stability_P _ _ v B (S k) (ApproxM.node s e n i)) as H3.
  assert (1 <= S k)%nat as K by lia. specialize (H3 K).
  rewrite ApproxP.Qabs_le_iff in *. lra.
Qed.
