(* C10: the repaired _p_norm model computes the spec's closed forms; algebraic consequences. *)
From Coq Require Import QArith Qabs Qminmax Qfield Lqa List Bool Arith Lia Setoid Morphisms.
From Persim Require Import Lib.Kth Lib.PL Spec.PNormS Model.PNormM.
Import ListNotations.
Open Scope Q_scope.

(* ---------------------------------------------------------------- powers *)
Global Instance pw_proper : Proper (Qeq ==> eq ==> Qeq) pw.
Proof. intros x y E n m <-. induction n; simpl. reflexivity. rewrite IHn, E. reflexivity. Qed.

Lemma pw_mult a b n : pw (a * b) n == pw a n * pw b n.
Proof. induction n; simpl. ring. rewrite IHn. ring. Qed.
Lemma pw_nonneg a n : 0 <= a -> 0 <= pw a n.
Proof. intro H. induction n; simpl. lra. nra. Qed.
Lemma pw_pos a n : 0 < a -> 0 < pw a n.
Proof. intro H. induction n; simpl. lra. nra. Qed.
Lemma pw_neq0 a n : ~ a == 0 -> ~ pw a n == 0.
Proof. intros H. induction n; simpl. lra. intro E. apply Qmult_integral in E. tauto. Qed.
Lemma pw_0 n : pw 0 (S n) == 0.
Proof. simpl. ring. Qed.
Lemma pw_inv a n : ~ a == 0 -> pw (/ a) n == / pw a n.
Proof. intro H. induction n; simpl. reflexivity. rewrite IHn. field. split. apply pw_neq0; auto. auto. Qed.
Lemma pw_div a b n : ~ b == 0 -> pw (a / b) n == pw a n / pw b n.
Proof. intro H. unfold Qdiv. rewrite pw_mult, pw_inv; auto. reflexivity. Qed.
Lemma pw_abs a n : pw (Qabs a) n == Qabs (pw a n).
Proof. induction n; simpl. reflexivity. rewrite IHn. symmetry. apply Qabs_Qmult. Qed.

Lemma nQ_S n : nQ (S n) == nQ n + 1.
Proof. unfold nQ. rewrite Nat2Z.inj_succ. unfold Z.succ. rewrite inject_Z_plus. reflexivity. Qed.
Lemma nQ_nonneg n : 0 <= nQ n.
Proof. induction n. unfold nQ. simpl. apply Qle_refl. rewrite nQ_S. lra. Qed.
Lemma nQ_S_pos n : 0 < nQ (S n).
Proof. rewrite nQ_S. generalize (nQ_nonneg n). lra. Qed.

(* ---------------------------------------------------------------- the geometric sum *)
Fixpoint gs (a b : Q) (p : nat) : Q :=
  match p with O => 1 | S k => a * gs a b k + pw b (S k) end.

Lemma sumQ_app l1 l2 : sumQ (l1 ++ l2) == sumQ l1 + sumQ l2.
Proof. induction l1; simpl. ring. rewrite IHl1. ring. Qed.

Lemma sumQ_map_ext (f g : nat -> Q) l : (forall i, In i l -> f i == g i) -> sumQ (map f l) == sumQ (map g l).
Proof. induction l; simpl; intro H. reflexivity. rewrite IHl, (H a); auto. reflexivity. Qed.

Lemma sumQ_map_scal (c : Q) (f : nat -> Q) l : sumQ (map (fun i => c * f i) l) == c * sumQ (map f l).
Proof. induction l; simpl. ring. rewrite IHl. ring. Qed.

Lemma gsum_gs a b p : gsum a b p == gs a b p.
Proof. induction p.
  - unfold gsum. simpl. ring.
  - unfold gsum in *. rewrite seq_S, map_app, sumQ_app.
    assert (E1 : sumQ (map (fun i => pw a (S p - i) * pw b i) (seq 0 (S p))) == a * gs a b p).
    { rewrite <- IHp, <- sumQ_map_scal. apply sumQ_map_ext.
      intros i I. apply in_seq in I. replace (S p - i)%nat with (S (p - i)) by lia. simpl. ring. }
    rewrite E1. simpl map. simpl sumQ. rewrite Nat.sub_diag. simpl. ring.
Qed.

(* (a - b) (a^p + a^(p-1) b + ... + b^p) = a^(p+1) - b^(p+1) *)
Lemma gs_identity a b p : (a - b) * gs a b p == pw a (S p) - pw b (S p).
Proof. induction p.
  - simpl. ring.
  - change (gs a b (S p)) with (a * gs a b p + pw b (S p)).
    transitivity (a * ((a - b) * gs a b p) + (a - b) * pw b (S p)). ring.
    rewrite IHp. simpl. ring. Qed.

Global Instance gs_proper : Proper (Qeq ==> Qeq ==> eq ==> Qeq) gs.
Proof. intros a a' Ea b b' Eb p q <-. induction p. reflexivity.
  change (a * gs a b p + pw b (S p) == a' * gs a' b' p + pw b' (S p)). rewrite IHp, Ea, Eb. reflexivity. Qed.

Lemma gs_diag a p : gs a a p == nQ (S p) * pw a p.
Proof. induction p.
  - simpl. unfold nQ. simpl. ring.
  - change (gs a a (S p)) with (a * gs a a p + pw a (S p)). rewrite IHp, (nQ_S (S p)). simpl. ring. Qed.

Lemma gs_sym a b p : gs a b p == gs b a p.
Proof. destruct (Qeq_dec a b) as [E|N].
  - rewrite E. reflexivity.
  - assert (H : (a - b) * (gs a b p - gs b a p) == 0).
    { transitivity ((a - b) * gs a b p + (b - a) * gs b a p). ring. rewrite !gs_identity. ring. }
    apply Qmult_integral in H. destruct H as [H|H]. exfalso; apply N; lra. lra. Qed.

Lemma gs_zero_r a p : gs a 0 p == pw a p.
Proof. induction p. reflexivity. change (gs a 0 (S p)) with (a * gs a 0 p + pw 0 (S p)). rewrite IHp, pw_0. simpl. ring. Qed.

Lemma gs_nonneg a b p : 0 <= a -> 0 <= b -> 0 <= gs a b p.
Proof. intros A B. induction p. simpl. lra.
  change (gs a b (S p)) with (a * gs a b p + pw b (S p)). generalize (pw_nonneg b (S p) B). nra. Qed.

(* ---------------------------------------------------------------- one segment *)
(* the model's value depends on the ordinates only through |y0|, |y1| and `crosses` *)
Definition seg_core (p : nat) (cr : bool) (A B dx : Q) : option Q :=
  let lo := Qmin A B in
  let hi := Qmax A B in
  if Qeq_bool hi 0 then Some 0
  else
    if cr then
      obind (odiv lo hi) (fun r =>
      odiv (dx * pw hi p * (hi + lo * pw r p)) (nQ (S p) * (lo + hi)))
    else
      obind (odiv (hi - lo) hi) (fun s =>
      if Qeq_bool s 0 then Some (pw hi p * dx)
      else if Qeq_bool lo 0 then odiv (pw hi p * dx) (nQ (S p))
      else
        let gap := 1 - pw (1 - s) (S p) in
        odiv (pw hi p * dx * gap) (nQ (S p) * s)).

Lemma seg_is_core p x0 y0 x1 y1 :
  seg p (x0, y0) (x1, y1) = seg_core p (crosses y0 y1) (Qabs y0) (Qabs y1) (x1 - x0).
Proof. reflexivity. Qed.

Ltac qeqb x := let E := fresh "E" in
  destruct (Qeq_bool x 0) eqn:E; [apply Qeq_bool_iff in E | apply Qeq_bool_neq in E].

(* lo, hi abstracted: {lo, hi} = {A, B}, lo <= hi *)
Lemma core_same_sign p A B dx lo hi : (1 <= p)%nat ->
  0 <= A -> 0 <= B -> ((A <= B /\ lo == A /\ hi == B) \/ (B <= A /\ lo == B /\ hi == A)) ->
  exists v,
    (if Qeq_bool hi 0 then Some 0
     else obind (odiv (hi - lo) hi) (fun s =>
      if Qeq_bool s 0 then Some (pw hi p * dx)
      else if Qeq_bool lo 0 then odiv (pw hi p * dx) (nQ (S p))
      else odiv (pw hi p * dx * (1 - pw (1 - s) (S p))) (nQ (S p) * s))) = Some v
    /\ v == dx * gs A B p / nQ (S p).
Proof.
  intros P1 HA HB Hlh.
  assert (G : gs A B p == gs hi lo p).
  { destruct Hlh as [(_ & E1 & E2)|(_ & E1 & E2)]; rewrite E1, E2; [apply gs_sym|reflexivity]. }
  assert (Hlo : 0 <= lo) by (destruct Hlh as [(_ & E1 & E2)|(_ & E1 & E2)]; rewrite E1; auto).
  assert (Hle : lo <= hi) by (destruct Hlh as [(L & E1 & E2)|(L & E1 & E2)]; rewrite E1, E2; auto).
  assert (NP := nQ_S_pos p).
  match goal with |- exists v, ?X = Some v /\ _ =>
    enough (HH : exists v, X = Some v /\ v == dx * gs hi lo p / nQ (S p))
      by (destruct HH as [v [HE HV]]; exists v; split; [exact HE|rewrite HV, G; reflexivity]) end.
  clear G Hlh HA HB A B.
  qeqb hi.
  - eexists. split. reflexivity.
    assert (lo == 0) by lra. rewrite E, H. destruct p as [|q]. lia.
    change (gs 0 0 (S q)) with (0 * gs 0 0 q + pw 0 (S q)). rewrite pw_0. field. lra.
  - unfold odiv at 1. qeqb hi. contradiction. clear E0. simpl obind.
    qeqb ((hi - lo) / hi).
    + eexists. split. reflexivity.
      assert (hi == lo). { assert (X : (hi - lo) / hi * hi == 0) by (rewrite E0; ring). 
        assert (Y : (hi - lo) / hi * hi == hi - lo) by (field; auto). lra. }
      rewrite <- H, gs_diag. field. lra.
    + qeqb lo.
      * unfold odiv. qeqb (nQ (S p)). lra. eexists. split. reflexivity.
        rewrite E1, gs_zero_r. field. lra.
      * unfold odiv. qeqb (nQ (S p) * ((hi - lo) / hi)).
        { apply Qmult_integral in E2. destruct E2; [lra|contradiction]. }
        eexists. split. reflexivity.
        assert (D : ~ hi - lo == 0).
        { intro X. apply E0. rewrite X. field. auto. }
        assert (R : 1 - (hi - lo) / hi == lo / hi) by (field; auto).
        rewrite R, pw_div by auto.
        assert (I := gs_identity hi lo p).
        assert (HP : ~ pw hi (S p) == 0) by (apply pw_neq0; auto).
        simpl in I.
        assert (L : pw lo p == (hi * pw hi p - (hi - lo) * gs hi lo p) / lo) by (rewrite I; field; auto).
        rewrite L.
        assert (HP' : ~ pw hi p == 0) by (apply pw_neq0; auto).
        field. repeat split; auto; lra.
Qed.

Lemma core_crossing p A B dx lo hi :
  0 < A -> 0 < B -> ((A <= B /\ lo == A /\ hi == B) \/ (B <= A /\ lo == B /\ hi == A)) ->
  exists v,
    (if Qeq_bool hi 0 then Some 0
     else obind (odiv lo hi) (fun r =>
      odiv (dx * pw hi p * (hi + lo * pw r p)) (nQ (S p) * (lo + hi)))) = Some v
    /\ v == dx * (pw A (S p) + pw B (S p)) / (nQ (S p) * (A + B)).
Proof.
  intros HA HB Hlh.
  assert (G : pw A (S p) + pw B (S p) == pw hi (S p) + pw lo (S p)).
  { destruct Hlh as [(_ & E1 & E2)|(_ & E1 & E2)]; rewrite E1, E2; ring. }
  assert (G2 : A + B == lo + hi).
  { destruct Hlh as [(_ & E1 & E2)|(_ & E1 & E2)]; rewrite E1, E2; ring. }
  assert (Hlo : 0 < lo) by (destruct Hlh as [(_ & E1 & E2)|(_ & E1 & E2)]; rewrite E1; auto).
  assert (Hhi : 0 < hi) by (destruct Hlh as [(_ & E1 & E2)|(_ & E1 & E2)]; rewrite E2; auto).
  assert (NP := nQ_S_pos p).
  match goal with |- exists v, ?X = Some v /\ _ =>
    enough (HH : exists v, X = Some v /\ v == dx * (pw hi (S p) + pw lo (S p)) / (nQ (S p) * (lo + hi)))
      by (destruct HH as [v [HE HV]]; exists v; split; [exact HE|rewrite HV, G, G2; reflexivity]) end.
  clear G G2 Hlh HA HB A B.
  qeqb hi. lra. unfold odiv at 1. qeqb hi. lra. simpl obind.
  unfold odiv. qeqb (nQ (S p) * (lo + hi)).
  { apply Qmult_integral in E1. destruct E1; lra. }
  eexists. split. reflexivity.
  rewrite pw_div by lra.
  assert (HP' : ~ pw hi p == 0) by (apply pw_neq0; lra).
  simpl. field. repeat split; auto; lra.
Qed.

Lemma minmax_cases A B :
  (A <= B /\ Qmin A B == A /\ Qmax A B == B) \/ (B <= A /\ Qmin A B == B /\ Qmax A B == A).
Proof. destruct (Qlt_le_dec B A) as [H|H].
  - right. split. lra. split. apply Q.min_r; lra. apply Q.max_l; lra.
  - left. split. lra. split. apply Q.min_l; lra. apply Q.max_r; lra. Qed.

Lemma crosses_true y0 y1 : crosses y0 y1 = true -> 0 < Qabs y0 /\ 0 < Qabs y1.
Proof. unfold crosses. rewrite orb_true_iff, !andb_true_iff, !Qlt_bool_iff.
  intros [[H0 H1]|[H0 H1]].
  - rewrite (Qabs_neg y0), (Qabs_pos y1) by lra. lra.
  - rewrite (Qabs_pos y0), (Qabs_neg y1) by lra. lra. Qed.

(* the model's value of one segment IS the spec's closed form, never a division by zero *)
Lemma seg_correct p a b : (1 <= p)%nat -> exists v, seg p a b = Some v /\ v == seg_int p a b.
Proof. intro P1. destruct a as [x0 y0], b as [x1 y1]. rewrite seg_is_core. unfold seg_core, seg_int.
  destruct (crosses y0 y1) eqn:C.
  - apply crosses_true in C. destruct C as [C0 C1].
    apply (core_crossing p (Qabs y0) (Qabs y1) (x1 - x0)); auto. apply minmax_cases.
  - destruct (core_same_sign p (Qabs y0) (Qabs y1) (x1 - x0) (Qmin (Qabs y0) (Qabs y1)) (Qmax (Qabs y0) (Qabs y1)))
      as [v [E V]]; try apply Qabs_nonneg; auto. apply minmax_cases.
    exists v. split. exact E. rewrite V, gsum_gs. reflexivity.
Qed.

Lemma seg_same_sign p x0 y0 x1 y1 : (1 <= p)%nat -> crosses y0 y1 = false ->
  exists v, seg p (x0, y0) (x1, y1) = Some v /\
            v == (x1 - x0) * gsum (Qabs y0) (Qabs y1) p / nQ (S p).
Proof. intros P C. destruct (seg_correct p (x0, y0) (x1, y1) P) as [v [E V]]. exists v. split; auto.
  rewrite V. unfold seg_int. rewrite C. reflexivity. Qed.

Lemma seg_crossing p x0 y0 x1 y1 : (1 <= p)%nat -> crosses y0 y1 = true ->
  exists v, seg p (x0, y0) (x1, y1) = Some v /\
            v == (x1 - x0) * (pw (Qabs y0) (S p) + pw (Qabs y1) (S p)) / (nQ (S p) * (Qabs y0 + Qabs y1)).
Proof. intros P C. destruct (seg_correct p (x0, y0) (x1, y1) P) as [v [E V]]. exists v. split; auto.
  rewrite V. unfold seg_int. rewrite C. reflexivity. Qed.

(* ---------------------------------------------------------------- the whole landscape *)
Lemma oadd_all_sum (os : list (option Q)) (qs : list Q) :
  Forall2 (fun o q => exists v, o = Some v /\ v == q) os qs ->
  forall acc, exists v, oadd_all acc os = Some v /\ v == acc + sumQ qs.
Proof. induction 1 as [|o q os qs [v [-> V]] F IH]; intro acc; simpl.
  - exists acc. split. reflexivity. ring.
  - destruct (IH (acc + v)) as [w [E W]]. exists w. split. exact E. rewrite W, V. ring. Qed.

Lemma sumQ_flat_map {A} (f : A -> list Q) l : sumQ (flat_map f l) == sumQ (map (fun a => sumQ (f a)) l).
Proof. induction l; simpl. reflexivity. rewrite sumQ_app, IHl. reflexivity. Qed.

Lemma norm_pow_flat p L :
  norm_pow p L == sumQ (flat_map (fun l => map (fun s => seg_int p (fst s) (snd s)) (segments l)) L).
Proof. rewrite sumQ_flat_map. reflexivity. Qed.

Lemma Forall2_flat_map {A B C} (R : B -> C -> Prop) (f : A -> list B) (g : A -> list C) l :
  (forall a, Forall2 R (f a) (g a)) -> Forall2 R (flat_map f l) (flat_map g l).
Proof. intro H. induction l; simpl. constructor. apply Forall2_app; auto. Qed.

Lemma Forall2_map2 {A B C} (R : B -> C -> Prop) (f : A -> B) (g : A -> C) l :
  (forall a, R (f a) (g a)) -> Forall2 R (map f l) (map g l).
Proof. intro H. induction l; simpl; constructor; auto. Qed.

(* norm_pow of the repaired model = sum over depths and segments of the integral of |l|^p,
   for EVERY breakpoint list (sign changes, flat pieces, repeated abscissae) and every p >= 1;
   in particular the model never divides by zero *)
Lemma norm_pow_m_correct p L : (1 <= p)%nat -> exists v, norm_pow_m p L = Some v /\ v == norm_pow p L.
Proof. intro P. unfold norm_pow_m.
  destruct (oadd_all_sum
    (flat_map (fun l => map (fun s => seg p (fst s) (snd s)) (segments l)) L)
    (flat_map (fun l => map (fun s => seg_int p (fst s) (snd s)) (segments l)) L)) with (acc := 0) as [v [E V]].
  - apply Forall2_flat_map. intro l. apply Forall2_map2. intro s. apply seg_correct; auto.
  - exists v. split. exact E. rewrite V, norm_pow_flat. ring. Qed.

Lemma exact_p_norm_correct p L : (1 <= p)%nat -> exists v, exact_p_norm_pow p L = Some v /\ v == norm_pow p L.
Proof. apply norm_pow_m_correct. Qed.
Lemma approx_p_norm_correct p a b n vals : (1 <= p)%nat ->
  exists v, approx_p_norm_pow p a b n vals = Some v /\ v == norm_pow p (values_to_pairs a b n vals).
Proof. apply norm_pow_m_correct. Qed.
