(* C10 - Minkowski's inequality, real-analysis part (no lists, no Q): pointwise convexity of x^p for a
   natural exponent and the root-free, linear form of Minkowski for Coquelicot's Riemann integral. *)
From Coq Require Import Reals Lra Lia Psatz.
From Coquelicot Require Import Coquelicot.
Open Scope R_scope.

(* (u - v)(u^n - v^n) >= 0 *)
Lemma pow_diff_sign u v n : 0 <= u -> 0 <= v -> 0 <= (u - v) * (u ^ n - v ^ n).
Proof. intros U V. destruct (Rle_dec u v) as [H|H].
  - assert (u ^ n <= v ^ n) by (apply pow_incr; lra). nra.
  - assert (v ^ n <= u ^ n) by (apply pow_incr; lra). nra. Qed.

(* two-point convexity of x^n on [0, oo) *)
Lemma pow_convex l m u v n : 0 <= l -> 0 <= m -> l + m = 1 -> 0 <= u -> 0 <= v ->
  (l * u + m * v) ^ n <= l * u ^ n + m * v ^ n.
Proof. intros L M S1 U V. induction n.
  - simpl. lra.
  - assert (P := pow_diff_sign u v n U V).
    assert (W : 0 <= l * u + m * v) by nra.
    assert (LM : 0 <= l * m) by nra.
    change ((l * u + m * v) ^ S n) with ((l * u + m * v) * (l * u + m * v) ^ n).
    apply Rle_trans with ((l * u + m * v) * (l * u ^ n + m * v ^ n)).
    + apply Rmult_le_compat_l; auto.
    + simpl. replace m with (1 - l) in * by lra.
      assert (E : l * (u * u ^ n) + (1 - l) * (v * v ^ n) - (l * u + (1 - l) * v) * (l * u ^ n + (1 - l) * v ^ n)
                  = (l * (1 - l)) * ((u - v) * (u ^ n - v ^ n))) by ring.
      assert (0 <= (l * (1 - l)) * ((u - v) * (u ^ n - v ^ n))) by (apply Rmult_le_pos; auto). lra. Qed.

Lemma div_pow a b n : b <> 0 -> (a / b) ^ n = a ^ n / b ^ n.
Proof. intro H. unfold Rdiv. rewrite Rpow_mult_distr, pow_inv. reflexivity. Qed.

Lemma scaled_pow l x n : l <> 0 -> l * (x / l) ^ S n = x ^ S n / l ^ n.
Proof. intro H. rewrite div_pow by auto. simpl. field. split; auto. apply pow_nonzero; auto. Qed.

(* the weighted form used for Minkowski: (x+y)^(n+1) <= (A+B)^n (x^(n+1)/A^n + y^(n+1)/B^n) *)
Lemma pow_sum_weighted A B x y n : 0 < A -> 0 < B -> 0 <= x -> 0 <= y ->
  (x + y) ^ S n <= (A + B) ^ n * (x ^ S n / A ^ n + y ^ S n / B ^ n).
Proof. intros PA PB X Y.
  assert (AB : 0 < A + B) by lra.
  set (l := A / (A + B)). set (m := B / (A + B)).
  assert (L : 0 < l) by (unfold l; apply Rdiv_lt_0_compat; lra).
  assert (M : 0 < m) by (unfold m; apply Rdiv_lt_0_compat; lra).
  assert (S1 : l + m = 1) by (unfold l, m; field; lra).
  assert (C := pow_convex l m (x / l) (y / m) (S n) (Rlt_le _ _ L) (Rlt_le _ _ M) S1).
  assert (U : 0 <= x / l) by (apply Rmult_le_pos; [lra|left; apply Rinv_0_lt_compat; lra]).
  assert (V : 0 <= y / m) by (apply Rmult_le_pos; [lra|left; apply Rinv_0_lt_compat; lra]).
  specialize (C U V).
  replace (l * (x / l) + m * (y / m)) with (x + y) in C by (field; lra).
  eapply Rle_trans. exact C. right.
  rewrite (scaled_pow l x n), (scaled_pow m y n) by lra.
  assert (An : A ^ n <> 0) by (apply pow_nonzero; lra).
  assert (Bn : B ^ n <> 0) by (apply pow_nonzero; lra).
  assert (ABn : (A + B) ^ n <> 0) by (apply pow_nonzero; lra).
  unfold l, m. rewrite !div_pow by lra. field. repeat split; auto. Qed.

Lemma Rabs_pow_sum_weighted A B f g h n : 0 < A -> 0 < B -> Rabs h <= Rabs f + Rabs g ->
  Rabs h ^ S n <= (A + B) ^ n * (Rabs f ^ S n / A ^ n + Rabs g ^ S n / B ^ n).
Proof. intros PA PB H. eapply Rle_trans. apply pow_incr. split. apply Rabs_pos. exact H.
  apply pow_sum_weighted; auto; apply Rabs_pos. Qed.

(* Minkowski, linear root-free form: for all A, B > 0
     int |h|^p <= (A+B)^(p-1) (int |f|^p / A^(p-1) + int |g|^p / B^(p-1)),  p = n + 1, when |h| <= |f| + |g| *)
Lemma minkowski_linear (f g h : R -> R) lo hi n If Ig Ih A B : lo <= hi -> 0 < A -> 0 < B ->
  is_RInt (fun t => Rabs (f t) ^ S n) lo hi If ->
  is_RInt (fun t => Rabs (g t) ^ S n) lo hi Ig ->
  is_RInt (fun t => Rabs (h t) ^ S n) lo hi Ih ->
  (forall t, lo < t < hi -> Rabs (h t) <= Rabs (f t) + Rabs (g t)) ->
  Ih <= (A + B) ^ n * (If / A ^ n + Ig / B ^ n).
Proof. intros LH PA PB HF HG HH P.
  assert (HU : is_RInt (fun t => scal ((A + B) ^ n) (plus (scal (/ A ^ n) (Rabs (f t) ^ S n)) (scal (/ B ^ n) (Rabs (g t) ^ S n))))
                 lo hi (scal ((A + B) ^ n) (plus (scal (/ A ^ n) If) (scal (/ B ^ n) Ig)))).
  { apply (@is_RInt_scal R_NormedModule _ lo hi ((A + B) ^ n)).
    apply (@is_RInt_plus R_NormedModule (fun t => scal (/ A ^ n) (Rabs (f t) ^ S n)) (fun t => scal (/ B ^ n) (Rabs (g t) ^ S n)) lo hi).
    - exact (@is_RInt_scal R_NormedModule _ lo hi (/ A ^ n) If HF).
    - exact (@is_RInt_scal R_NormedModule _ lo hi (/ B ^ n) Ig HG). }
  replace ((A + B) ^ n * (If / A ^ n + Ig / B ^ n)) with (scal ((A + B) ^ n) (plus (scal (/ A ^ n) If) (scal (/ B ^ n) Ig))).
  2: { change ((A + B) ^ n * (/ A ^ n * If + / B ^ n * Ig) = (A + B) ^ n * (If / A ^ n + Ig / B ^ n)). unfold Rdiv. ring. }
  apply (is_RInt_le _ _ lo hi _ _ LH HH HU).
  intros t T. change (Rabs (h t) ^ S n <= (A + B) ^ n * (/ A ^ n * Rabs (f t) ^ S n + / B ^ n * Rabs (g t) ^ S n)).
  replace (/ A ^ n * Rabs (f t) ^ S n + / B ^ n * Rabs (g t) ^ S n) with (Rabs (f t) ^ S n / A ^ n + Rabs (g t) ^ S n / B ^ n)
    by (unfold Rdiv; ring).
  apply Rabs_pow_sum_weighted; auto. Qed.

(* strict monotonicity of x^(n+1) on [0, oo) and its converse *)
Lemma pow_lt_S x y n : 0 <= x -> x < y -> x ^ S n < y ^ S n.
Proof. intros X L. induction n. simpl. lra.
  change (x ^ S (S n)) with (x * x ^ S n). change (y ^ S (S n)) with (y * y ^ S n).
  assert (0 <= x ^ S n) by (apply pow_le; auto).
  apply Rle_lt_trans with (x * y ^ S n). apply Rmult_le_compat_l; lra.
  apply Rmult_lt_compat_r; auto. lra. Qed.

Lemma pow_le_inv x y n : 0 <= x -> 0 <= y -> x ^ S n <= y ^ S n -> x <= y.
Proof. intros X Y H. destruct (Rle_lt_dec x y) as [L|L]; auto. apply (pow_lt_S y x n Y) in L. lra. Qed.

(* a p-th root of a non-negative real: the non-negative r with r^p = x *)
Definition is_root (p : nat) (x r : R) : Prop := 0 <= r /\ r ^ p = x.

Lemma root_exists n x : 0 <= x -> exists r, is_root (S n) x r.
Proof. intros [P|Z].
  - exists (Rpower x (/ INR (S n))). split. left. apply exp_pos.
    rewrite <- Rpower_pow by apply exp_pos. rewrite Rpower_mult. rewrite Rinv_l by (apply not_0_INR; discriminate).
    apply Rpower_1. exact P.
  - exists 0. split. lra. subst x. simpl. ring. Qed.

Lemma root_unique n x r r' : is_root (S n) x r -> is_root (S n) x r' -> r = r'.
Proof. intros [A B] [C D]. apply Rle_antisym; apply (pow_le_inv _ _ n); auto; lra. Qed.

Lemma root_le n x r c : is_root (S n) x r -> 0 <= c -> x <= c ^ S n -> r <= c.
Proof. intros [A B] C H. apply (pow_le_inv _ _ n); auto. lra. Qed.

(* from the linear form to the triangle inequality for the roots: if for all A, B > 0
   z <= (A+B)^n (x/A^n + y/B^n) then root z <= root x + root y *)
Lemma roots_triangle n x y z rx ry rz :
  (forall A B, 0 < A -> 0 < B -> z <= (A + B) ^ n * (x / A ^ n + y / B ^ n)) ->
  is_root (S n) x rx -> is_root (S n) y ry -> is_root (S n) z rz -> rz <= rx + ry.
Proof. intros H [X EX] [Y EY] [Z EZ]. apply le_epsilon. intros e E.
  set (A := rx + e / 2). set (B := ry + e / 2).
  assert (PA : 0 < A) by (unfold A; lra). assert (PB : 0 < B) by (unfold B; lra).
  specialize (H A B PA PB).
  assert (An : 0 < A ^ n) by (apply pow_lt; auto). assert (Bn : 0 < B ^ n) by (apply pow_lt; auto).
  assert (XA : x / A ^ n <= A).
  { apply (Rmult_le_reg_r (A ^ n)); auto. unfold Rdiv. rewrite Rmult_assoc, Rinv_l, Rmult_1_r by lra.
    rewrite <- EX. change (rx ^ S n <= A ^ S n). apply pow_incr. unfold A. lra. }
  assert (YB : y / B ^ n <= B).
  { apply (Rmult_le_reg_r (B ^ n)); auto. unfold Rdiv. rewrite Rmult_assoc, Rinv_l, Rmult_1_r by lra.
    rewrite <- EY. change (ry ^ S n <= B ^ S n). apply pow_incr. unfold B. lra. }
  assert (ABn : 0 < (A + B) ^ n) by (apply pow_lt; lra).
  assert (z <= (A + B) ^ S n). { eapply Rle_trans. exact H. simpl. rewrite (Rmult_comm (A + B)). apply Rmult_le_compat_l; lra. }
  replace (rx + ry + e) with (A + B) by (unfold A, B; lra).
  apply (pow_le_inv _ _ n); auto; lra. Qed.
