(* C17 with C05: what a pair call and a collection call return brackets the distance between the
   metric spaces that make_distance_matrix produced, for every oracle and every RNG draw. *)
From Coq Require Import ZArith List Bool Arith Lia.
From Persim Require Import Spec.MGH Model.MGHM Model.GraphM Proofs.MGHUb Proofs.MGHFinal Proofs.GraphP.
Import ListNotations.
Open Scope Z_scope.

Theorem pair_call_brackets (mk : mat -> dm_result) pick s1 s2 AG AH w l u :
  gh_pair mk (fun _ _ DX DY => estimate2 pick DX DY s1 s2) AG AH = GHPair w l u ->
  exists w1 DX w2 DY, mk AG = DMOk w1 DX /\ mk AH = DMOk w2 DY /\ w = (w1 || w2)%bool /\
    (dmatrix DX -> dmatrix DY ->
     valid_samples (length DX) (length DY) s1 -> valid_samples (length DY) (length DX) s2 ->
     two_mgh_ge DX DY l /\ two_mgh_le DX DY u /\ 0 <= l <= u).
Proof.
  unfold gh_pair. intros E. destruct (mk AG) as [w1 DX|]; [|discriminate].
  destruct (mk AH) as [w2 DY|]; [|discriminate].
  destruct (estimate2 pick DX DY s1 s2) as [[l' u']|] eqn:Est; [|discriminate].
  injection E as <- <- <-. exists w1, DX, w2, DY. repeat split; try reflexivity;
    destruct (estimate2_brackets_full pick DX DY s1 s2 l' u' H H0 H1 H2 Est) as [A [B C]]; tauto.
Qed.

Theorem collection_call_brackets (mk : mat -> dm_result) pick
        (S1 S2 : nat -> nat -> list (list nat * nat)) As w L U :
  gh_collection mk (fun i j DX DY => estimate2 pick DX DY (S1 i j) (S2 i j)) As = GHColl w L U ->
  forall i j, (i < j)%nat -> (j < length As)%nat ->
  exists wi Di wj Dj, mk (nth i As []) = DMOk wi Di /\ mk (nth j As []) = DMOk wj Dj /\
    (dmatrix Di -> dmatrix Dj ->
     valid_samples (length Di) (length Dj) (S1 i j) -> valid_samples (length Dj) (length Di) (S2 i j) ->
     two_mgh_ge Di Dj (ent L i j) /\ two_mgh_le Di Dj (ent U i j) /\ 0 <= ent L i j <= ent U i j).
Proof.
  intros E i j Hij Hj.
  destruct (collection_pairwise _ _ _ _ _ _ E i j Hij Hj) as [wi [Di [wj [Dj [Mi [Mj Est]]]]]].
  exists wi, Di, wj, Dj. split; [exact Mi|]. split; [exact Mj|].
  intros HX HY V1 V2. apply (estimate2_brackets_full pick Di Dj (S1 i j) (S2 i j)); assumption.
Qed.
