(* Soundness of the executable certificate checker Corr/WassCorr.cert_case (C06, Wasserstein half):
   whatever rows it accepts are, up to the tolerance, a certificate in the sense of Spec/WassCertS. *)
From Coq Require Import QArith Qreals Reals List Bool Arith ZArith Permutation Lia Lra FinFun.
From Persim Require Import Spec.WassersteinS Spec.WassCertS Lib.AugMatching Model.WassM Model.WassEncM
     Proofs.WassP Proofs.WassEncP Corr.WassCorr.
Import ListNotations.
Open Scope R_scope.

Definition injrow (r : qrow) : crow := (fst r, Q2R (snd r)).

Lemma covers_once_sound n col : covers_once n col = true -> Permutation (named col) (map Z.of_nat (seq 0 n)).
Proof.
  unfold covers_once. fold (named col). intros H. apply andb_true_iff in H. destruct H as [L F].
  apply Nat.eqb_eq in L. rewrite forallb_forall in F.
  apply Permutation_sym, NoDup_Permutation_bis.
  - apply Injective_map_NoDup; [intros a b; apply Nat2Z.inj|apply seq_NoDup].
  - rewrite map_length, seq_length. lia.
  - intros z I. apply in_map_iff in I. destruct I as [i [<- I]]. specialize (F i I).
    apply existsb_exists in F. destruct F as [y [Iy E]]. apply Z.eqb_eq in E. subst y. exact Iy.
Qed.

Lemma within_sound tol x c y : within tol x c = true -> inside c y -> Rabs (Q2R x - y) <= Q2R tol.
Proof.
  unfold within, inside. intros H [L U]. apply andb_true_iff in H. destruct H as [H1 H2].
  apply Qle_bool_iff, Qle_Rle in H1, H2. rewrite Q2R_minus in H1. rewrite Q2R_plus in H2.
  apply Rabs_le. lra.
Qed.

Lemma idx_ok_range n z : idx_ok n z = true -> z <> (-1)%Z -> (Z.to_nat z < n)%nat.
Proof.
  unfold idx_ok. intros H NE. apply orb_true_iff in H. destruct H as [H|H].
  - apply Z.eqb_eq in H. contradiction.
  - apply andb_true_iff in H. destruct H as [H1 H2]. apply Z.leb_le in H1. apply Z.ltb_lt in H2. lia.
Qed.

Lemma row_cost_ok_sound p (S T : list qpt) tol r : row_cost_ok p S T tol r = true ->
  ~ (col0 (injrow r) = (-1)%Z /\ col1 (injrow r) = (-1)%Z) /\
  Rabs (cst (injrow r) - pairing_cost (map inj S) (map inj T) (injrow r)) <= Q2R tol.
Proof.
  destruct r as [[i j] c]. unfold row_cost_ok, pairing_cost, col0, col1, cst, injrow. cbn [fst snd].
  intros H. apply andb_true_iff in H. destruct H as [H W]. apply andb_true_iff in H. destruct H as [Oi Oj].
  destruct (Z.eqb_spec i (-1)) as [Ei|Ni]; destruct (Z.eqb_spec j (-1)) as [Ej|Nj]; try discriminate.
  - split; [intros [_ Q]; contradiction|].
    pose proof (idx_ok_range _ _ Oj Nj) as B.
    rewrite (nth_map_in inj T _ (0, 0)%Q) by exact B. apply (within_sound _ _ _ _ W), diag_iv_sound.
  - split; [intros [Q _]; contradiction|].
    pose proof (idx_ok_range _ _ Oi Ni) as B.
    rewrite (nth_map_in inj S _ (0, 0)%Q) by exact B. apply (within_sound _ _ _ _ W), diag_iv_sound.
  - split; [intros [Q _]; contradiction|].
    pose proof (idx_ok_range _ _ Oi Ni) as B1. pose proof (idx_ok_range _ _ Oj Nj) as B2.
    rewrite (nth_map_in inj S _ (0, 0)%Q) by exact B1. rewrite (nth_map_in inj T _ (0, 0)%Q) by exact B2.
    apply (within_sound _ _ _ _ W), euclid_iv_sound.
Qed.

Theorem cert_case_sound p d1 d2 dist rows tol : cert_case p d1 d2 dist rows tol = true ->
  wass_cert_approx (placeholder 0 (finite_pts (map injx d1))) (placeholder 0 (finite_pts (map injx d2)))
                   (Q2R tol) (Q2R dist) (map injrow rows).
Proof.
  unfold cert_case. rewrite !prep_inj.
  set (S := placeholder 0%Q (finite_pts d1)). set (T := placeholder 0%Q (finite_pts d2)).
  intros H. apply andb_true_iff in H. destruct H as [H Sum2]. apply andb_true_iff in H. destruct H as [H Sum1].
  apply andb_true_iff in H. destruct H as [H Rows]. apply andb_true_iff in H. destruct H as [C0 C1].
  split; [|split; [|split]].
  - rewrite map_map, map_length. rewrite (map_ext (fun x => col0 (injrow x)) (fun r => fst (fst r))) by reflexivity.
    apply covers_once_sound. exact C0.
  - rewrite map_map, map_length. rewrite (map_ext (fun x => col1 (injrow x)) (fun r => snd (fst r))) by reflexivity.
    apply covers_once_sound. exact C1.
  - intros r I. apply in_map_iff in I. destruct I as [q [<- I]].
    rewrite forallb_forall in Rows. apply (row_cost_ok_sound p S T tol q). apply Rows. exact I.
  - assert (E : map cst (map injrow rows) = map Q2R (map snd rows)) by (rewrite !map_map; reflexivity).
    rewrite E, sumRl_Q2R.
    apply Qle_bool_iff, Qle_Rle in Sum1, Sum2. rewrite Q2R_minus in Sum1. rewrite Q2R_plus in Sum2.
    apply Rabs_le. lra.
Qed.
