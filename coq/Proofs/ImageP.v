(* Lemmas for C04 / C11: the model of _transform computes the weighted kernel mass of every
   pixel, and the laws that follow. *)
From Coq Require Import Reals List Bool Permutation Lra Lia.
From Persim Require Import Spec.ImageS Model.ImageM.
Import ListNotations.
Open Scope R_scope.

(* ---------------------------------------------------------------- lists ------------------- *)
Lemma zip_with_map {A B C D} (f : B -> C -> D) (g : A -> B) (h : A -> C) l :
  zip_with f (map g l) (map h l) = map (fun x => f (g x) (h x)) l.
Proof. induction l; simpl; congruence. Qed.

Lemma repeat_map {A B} (c : B) (l : list A) : repeat c (length l) = map (fun _ => c) l.
Proof. induction l; simpl; congruence. Qed.

Lemma adj_cons2 a b t : adj (a :: b :: t) = (a, b) :: adj (b :: t).
Proof. reflexivity. Qed.

Lemma adj_length_cons l : forall a, length (adj (a :: l)) = length l.
Proof. induction l as [|b t IH]; intros a; [reflexivity|]. rewrite adj_cons2. cbn [length]. rewrite IH. reflexivity. Qed.

Lemma adj_length l : length (adj l) = pred (length l).
Proof. destruct l; [reflexivity|]. apply adj_length_cons. Qed.

Lemma nth_adj_cons l : forall a i, (i < length l)%nat ->
  nth i (adj (a :: l)) (0, 0) = (nth i (a :: l) 0, nth (S i) (a :: l) 0).
Proof.
  induction l as [|b t IH]; intros a i H; simpl in H; [lia|].
  rewrite adj_cons2. destruct i as [|i]; [reflexivity|].
  cbn [nth]. rewrite IH by lia. reflexivity.
Qed.

Lemma nth_adj l : forall i, (S i < length l)%nat -> nth i (adj l) (0, 0) = (nth i l 0, nth (S i) l 0).
Proof. destruct l; intros i H; simpl in H; [lia|]. apply nth_adj_cons. lia. Qed.

Lemma sumR_app a b : sumR (a ++ b) = sumR a + sumR b.
Proof. induction a; simpl; [lra|]. rewrite IHa. lra. Qed.

Lemma sumR_perm a b : Permutation a b -> sumR a = sumR b.
Proof. induction 1; simpl; lra. Qed.

Lemma sumR_map_plus {A} (f g : A -> R) l : sumR (map (fun x => f x + g x) l) = sumR (map f l) + sumR (map g l).
Proof. induction l; simpl; lra. Qed.

Lemma sumR_map_scal {A} c (f : A -> R) l : sumR (map (fun x => c * f x) l) = c * sumR (map f l).
Proof. induction l; simpl; lra. Qed.

Lemma sumR_map_nonneg {A} (f : A -> R) l : (forall x, In x l -> 0 <= f x) -> 0 <= sumR (map f l).
Proof.
  induction l; simpl; intros H; [lra|].
  assert (0 <= f a) by (apply H; auto). assert (0 <= sumR (map f l)) by (apply IHl; auto). lra.
Qed.

Lemma sumR_map_le {A} (f g : A -> R) l : (forall x, In x l -> f x <= g x) -> sumR (map f l) <= sumR (map g l).
Proof.
  induction l; simpl; intros H; [lra|].
  assert (f a <= g a) by (apply H; auto). assert (sumR (map f l) <= sumR (map g l)) by (apply IHl; auto). lra.
Qed.

Lemma sumR_map_ext {A} (f g : A -> R) l : (forall x, In x l -> f x = g x) -> sumR (map f l) = sumR (map g l).
Proof. intros H. f_equal. apply map_ext_in. exact H. Qed.

(* ---------------------------------------------------------------- tab --------------------- *)
Lemma tab_ext E1 E2 bp pp :
  (forall bx py, In bx (adj bp) -> In py (adj pp) -> E1 bx py = E2 bx py) -> tab E1 bp pp = tab E2 bp pp.
Proof. intros H. unfold tab. apply map_ext_in. intros bx Hb. apply map_ext_in. intros py Hp. auto. Qed.

Lemma zeros_tab bp pp : zeros (pred (length bp)) (pred (length pp)) = tab (fun _ _ => 0) bp pp.
Proof. unfold zeros, tab. rewrite <- !adj_length, !repeat_map. reflexivity. Qed.

Lemma axpy_tab E1 E2 w bp pp :
  img_axpy (tab E1 bp pp) w (tab E2 bp pp) = tab (fun bx py => E1 bx py + w * E2 bx py) bp pp.
Proof.
  unfold img_axpy, tab. rewrite zip_with_map. apply map_ext. intros bx. rewrite zip_with_map. reflexivity.
Qed.

Lemma add_tab E1 E2 bp pp :
  img_add (tab E1 bp pp) (tab E2 bp pp) = tab (fun bx py => E1 bx py + E2 bx py) bp pp.
Proof.
  unfold img_add, tab. rewrite zip_with_map. apply map_ext. intros bx. rewrite zip_with_map. reflexivity.
Qed.

Lemma row_ie_cons2 a0 a1 t0 b0 b1 t1 :
  row_ie (a0 :: a1 :: t0) (b0 :: b1 :: t1) = (b1 - a1 - b0 + a0) :: row_ie (a1 :: t0) (b1 :: t1).
Proof. reflexivity. Qed.
Lemma grid_ie_cons2 r0 r1 t : grid_ie (r0 :: r1 :: t) = row_ie r0 r1 :: grid_ie (r1 :: t).
Proof. reflexivity. Qed.

Lemma row_ie_mass_cons (F : R -> R -> R) x0 x1 l : forall a,
  row_ie (map (F x0) (a :: l)) (map (F x1) (a :: l)) = map (fun py => mass F (x0, x1) py) (adj (a :: l)).
Proof.
  induction l as [|b t IH]; intros a; [reflexivity|].
  rewrite adj_cons2. specialize (IH b). cbn [map] in *. rewrite row_ie_cons2, IH. reflexivity.
Qed.

Lemma row_ie_mass (F : R -> R -> R) x0 x1 pp :
  row_ie (map (F x0) pp) (map (F x1) pp) = map (fun py => mass F (x0, x1) py) (adj pp).
Proof. destruct pp; [reflexivity|]. apply row_ie_mass_cons. Qed.

Lemma grid_ie_mass_cons (F : R -> R -> R) pp l : forall a,
  grid_ie (corner_grid F (a :: l) pp) = tab (mass F) (a :: l) pp.
Proof.
  unfold corner_grid, tab.
  induction l as [|b t IH]; intros a; [reflexivity|].
  rewrite adj_cons2. specialize (IH b). cbn [map] in *. rewrite grid_ie_cons2, IH. f_equal.
  apply (row_ie_mass F a b pp).
Qed.

Lemma grid_ie_mass (F : R -> R -> R) bp pp : grid_ie (corner_grid F bp pp) = tab (mass F) bp pp.
Proof. destruct bp; [reflexivity|]. apply grid_ie_mass_cons. Qed.

Lemma tab_nth E bp pp i j : (S i < length bp)%nat -> (S j < length pp)%nat ->
  nth j (nth i (tab E bp pp) []) 0 = E (nth i bp 0, nth (S i) bp 0) (nth j pp 0, nth (S j) pp 0).
Proof.
  intros Hi Hj. unfold tab.
  assert (Li : (i < length (adj bp))%nat) by (rewrite adj_length; lia).
  assert (Lj : (j < length (adj pp))%nat) by (rewrite adj_length; lia).
  rewrite (nth_indep _ [] (map (fun py => E (0,0) py) (adj pp))) by (rewrite map_length; exact Li).
  rewrite (map_nth (fun bx => map (fun py => E bx py) (adj pp)) (adj bp) (0,0) i).
  rewrite (nth_indep _ 0 (E (nth i (adj bp) (0,0)) (0,0))) by (rewrite map_length; exact Lj).
  rewrite (map_nth (fun py => E (nth i (adj bp) (0,0)) py) (adj pp) (0,0) j).
  rewrite !nth_adj by assumption. reflexivity.
Qed.

Lemma tab_shape E bp pp :
  length (tab E bp pp) = pred (length bp) /\ Forall (fun r => length r = pred (length pp)) (tab E bp pp).
Proof.
  unfold tab. split. { rewrite map_length. apply adj_length. }
  apply Forall_forall. intros r Hr. apply in_map_iff in Hr. destruct Hr as [bx [<- _]].
  rewrite map_length. apply adj_length.
Qed.

(* ---------------------------------------------------------------- the fold ---------------- *)
Section Fold.
  Variable Phi : R -> R.

  Lemma general_fold w K bp pp pts : forall E,
    fold_left (general_step w K bp pp) pts (tab E bp pp)
    = tab (fun bx py => E bx py + pixel_spec w K pts bx py) bp pp.
  Proof.
    induction pts as [|pt pts IH]; intros E; simpl.
    - apply tab_ext. intros. unfold pixel_spec. simpl. lra.
    - unfold general_step at 2. rewrite grid_ie_mass, axpy_tab, IH.
      apply tab_ext. intros. unfold pixel_spec. simpl. lra.
  Qed.

  Lemma transform_general_spec w K bp pp pts :
    transform_general w K bp pp pts = spec_image w K bp pp pts.
  Proof.
    unfold transform_general, spec_image. rewrite zeros_tab, general_fold.
    apply tab_ext. intros. lra.
  Qed.

  (* the CDF the fast path evaluates: Phi((y-mu_p)/sd) * Phi((x-mu_b)/sd), sd = sqrt variance *)
  Definition fast_kernel (variance : R) : kernel :=
    fun mb mp x y => Phi ((y - mp) / sqrt variance) * Phi ((x - mb) / sqrt variance).
  (* sbvn_cdf of images_kernels.py, argument order as there *)
  Definition iso_kernel (variance : R) : kernel :=
    fun mb mp x y => Phi ((x - mb) / sqrt variance) * Phi ((y - mp) / sqrt variance).

  Lemma fast_grid_corner s bp pp pt :
    fast_grid Phi s bp pp pt = corner_grid (fast_kernel s (fst pt) (snd pt)) bp pp.
  Proof.
    unfold fast_grid, corner_grid, fast_kernel. rewrite map_map. apply map_ext. intros x.
    rewrite map_map. reflexivity.
  Qed.

  Lemma fast_step_general w s bp pp img pt :
    fast_step Phi w s bp pp img pt = general_step w (fast_kernel s) bp pp img pt.
  Proof. unfold fast_step, general_step. rewrite fast_grid_corner. reflexivity. Qed.

  Lemma transform_fast_general w s bp pp pts :
    transform_fast Phi w s bp pp pts = transform_general w (fast_kernel s) bp pp pts.
  Proof.
    unfold transform_fast, transform_general. generalize (zeros (pred (length bp)) (pred (length pp))).
    induction pts as [|pt pts IH]; intros z; simpl; [reflexivity|].
    rewrite fast_step_general. apply IH.
  Qed.

  Lemma mass_product G H bx py :
    mass (fun x y => G x * H y) bx py = (G (snd bx) - G (fst bx)) * (H (snd py) - H (fst py)).
  Proof. unfold mass. ring. Qed.
  Lemma mass_product_swapped G H bx py :
    mass (fun x y => H y * G x) bx py = (G (snd bx) - G (fst bx)) * (H (snd py) - H (fst py)).
  Proof. unfold mass. ring. Qed.

  Lemma spec_image_ext w K1 K2 bp pp pts :
    (forall mb mp x y, K1 mb mp x y = K2 mb mp x y) -> spec_image w K1 bp pp pts = spec_image w K2 bp pp pts.
  Proof.
    intros H. unfold spec_image. apply tab_ext. intros. unfold pixel_spec. apply sumR_map_ext.
    intros pt _. unfold mass. rewrite !H. reflexivity.
  Qed.

  Lemma transform_fast_iso w s bp pp pts :
    transform_fast Phi w s bp pp pts = transform_general w (iso_kernel s) bp pp pts.
  Proof.
    rewrite transform_fast_general, !transform_general_spec. apply spec_image_ext.
    intros. unfold fast_kernel, iso_kernel. ring.
  Qed.

  Variable Kgauss : R -> R -> R -> kernel.

  (* the kernel whose rectangle masses _transform accumulates *)
  Definition eff_kernel (k : kernel_cfg) : kernel :=
    match k with
    | GaussScalar s => iso_kernel s
    | GaussMatrix sxx sxy syy =>
        if Req_EM_T sxx syy then if Req_EM_T sxy 0 then iso_kernel sxx else Kgauss sxx sxy syy
        else Kgauss sxx sxy syy
    | OtherKernel K => K
    end.

  Lemma transform_one_spec skew w k bp pp dgm :
    transform_one Phi Kgauss skew w k bp pp dgm
    = spec_image w (eff_kernel k) bp pp (to_birth_pers skew dgm).
  Proof.
    unfold transform_one. destruct k as [s|sxx sxy syy|K]; simpl.
    - rewrite transform_fast_iso. apply transform_general_spec.
    - destruct (Req_EM_T sxx syy); [destruct (Req_EM_T sxy 0)|].
      + rewrite transform_fast_iso. apply transform_general_spec.
      + apply transform_general_spec.
      + apply transform_general_spec.
    - apply transform_general_spec.
  Qed.

  (* C04 T1 *)
  Lemma transform_pixel skew w k bp pp dgm i j : (S i < length bp)%nat -> (S j < length pp)%nat ->
    nth j (nth i (transform_one Phi Kgauss skew w k bp pp dgm) []) 0
    = pixel_spec w (eff_kernel k) (to_birth_pers skew dgm)
        (nth i bp 0, nth (S i) bp 0) (nth j pp 0, nth (S j) pp 0).
  Proof. intros. rewrite transform_one_spec. unfold spec_image. apply tab_nth; assumption. Qed.

  Lemma transform_shape skew w k bp pp dgm :
    length (transform_one Phi Kgauss skew w k bp pp dgm) = fst (resolution_of bp pp) /\
    Forall (fun r => length r = snd (resolution_of bp pp)) (transform_one Phi Kgauss skew w k bp pp dgm).
  Proof. rewrite transform_one_spec. apply tab_shape. Qed.

  (* the two paths agree when the Gaussian kernel with zero covariance is the product form *)
  Lemma fast_eq_general_path w s bp pp pts :
    (forall mb mp x y, Kgauss s 0 s mb mp x y = Phi ((x - mb) / sqrt s) * Phi ((y - mp) / sqrt s)) ->
    transform_fast Phi w s bp pp pts = transform_general w (Kgauss s 0 s) bp pp pts.
  Proof.
    intros H. rewrite transform_fast_iso, !transform_general_spec. apply spec_image_ext.
    intros. rewrite H. reflexivity.
  Qed.

  (* ---------------------------------------------------------------- C11 laws -------------- *)
  Lemma to_bp_app skew a b : to_birth_pers skew (a ++ b) = to_birth_pers skew a ++ to_birth_pers skew b.
  Proof. destruct skew; simpl; [apply map_app|reflexivity]. Qed.

  Lemma spec_image_app w K bp pp p1 p2 :
    spec_image w K bp pp (p1 ++ p2) = img_add (spec_image w K bp pp p1) (spec_image w K bp pp p2).
  Proof.
    unfold spec_image. rewrite add_tab. apply tab_ext. intros. unfold pixel_spec.
    rewrite map_app. apply sumR_app.
  Qed.

  Lemma spec_image_perm w K bp pp p1 p2 : Permutation p1 p2 ->
    spec_image w K bp pp p1 = spec_image w K bp pp p2.
  Proof.
    intros P. unfold spec_image. apply tab_ext. intros. unfold pixel_spec.
    apply sumR_perm. apply Permutation_map. exact P.
  Qed.

  Lemma to_bp_perm skew a b : Permutation a b -> Permutation (to_birth_pers skew a) (to_birth_pers skew b).
  Proof. destruct skew; simpl; [apply Permutation_map|auto]. Qed.

  Lemma transform_one_app skew w k bp pp d1 d2 :
    transform_one Phi Kgauss skew w k bp pp (d1 ++ d2)
    = img_add (transform_one Phi Kgauss skew w k bp pp d1) (transform_one Phi Kgauss skew w k bp pp d2).
  Proof. rewrite !transform_one_spec, to_bp_app. apply spec_image_app. Qed.

  Lemma transform_one_perm skew w k bp pp d1 d2 : Permutation d1 d2 ->
    transform_one Phi Kgauss skew w k bp pp d1 = transform_one Phi Kgauss skew w k bp pp d2.
  Proof. intros P. rewrite !transform_one_spec. apply spec_image_perm, to_bp_perm, P. Qed.

  Definition bp_of (skew : bool) (pt : point) : point := if skew then skew_point pt else pt.

  Lemma to_bp_cons skew pt d : to_birth_pers skew (pt :: d) = bp_of skew pt :: to_birth_pers skew d.
  Proof. destruct skew; reflexivity. Qed.

  Lemma transform_one_zero_weight skew w k bp pp d1 pt d2 :
    w (fst (bp_of skew pt)) (snd (bp_of skew pt)) = 0 ->
    transform_one Phi Kgauss skew w k bp pp (d1 ++ pt :: d2) = transform_one Phi Kgauss skew w k bp pp (d1 ++ d2).
  Proof.
    intros Hw. rewrite !transform_one_spec, !to_bp_app, to_bp_cons.
    unfold spec_image. apply tab_ext. intros. unfold pixel_spec.
    rewrite !map_app, !sumR_app. simpl. rewrite Hw. lra.
  Qed.

  Lemma transform_one_nil skew w k bp pp :
    transform_one Phi Kgauss skew w k bp pp [] = zeros (fst (resolution_of bp pp)) (snd (resolution_of bp pp)).
  Proof.
    rewrite transform_one_spec. unfold resolution_of. simpl fst. simpl snd. rewrite zeros_tab.
    unfold spec_image. apply tab_ext. intros. destruct skew; reflexivity.
  Qed.

  Lemma zeros_all_zero nb np : Forall (Forall (fun v => v = 0)) (zeros nb np) /\
    length (zeros nb np) = nb /\ Forall (fun r => length r = np) (zeros nb np).
  Proof.
    unfold zeros. repeat split.
    - apply Forall_forall. intros r Hr. apply repeat_spec in Hr. subst r.
      apply Forall_forall. intros v Hv. apply repeat_spec in Hv. exact Hv.
    - apply repeat_length.
    - apply Forall_forall. intros r Hr. apply repeat_spec in Hr. subst r. apply repeat_length.
  Qed.

  Lemma transform_one_skew w k bp pp d :
    transform_one Phi Kgauss true w k bp pp d = transform_one Phi Kgauss false w k bp pp (map skew_point d).
  Proof. rewrite !transform_one_spec. reflexivity. Qed.

  (* ---- dispatch ---- *)
  Variable pmap : (list point -> image) -> list (list point) -> list image.
  Hypothesis pmap_is_map : forall f l, pmap f l = map f l.

  Lemma run_is_map (n_jobs : option nat) f l :
    (match n_jobs with Some _ => pmap f | None => map f end) l = map f l.
  Proof. destruct n_jobs; [apply pmap_is_map|reflexivity]. Qed.

  Lemma transform_single skew nj w k bp pp d :
    transform Phi Kgauss pmap skew nj w k bp pp (Single d) = OneImage (transform_one Phi Kgauss skew w k bp pp d).
  Proof.
    unfold transform. destruct d as [|pt d].
    - rewrite transform_one_nil. reflexivity.
    - rewrite run_is_map. reflexivity.
  Qed.

  Lemma transform_collection skew nj w k bp pp ds : ds <> [] ->
    transform Phi Kgauss pmap skew nj w k bp pp (Collection ds) = Images (map (transform_one Phi Kgauss skew w k bp pp) ds).
  Proof.
    intros H. unfold transform. destruct ds as [|d ds]; [congruence|]. rewrite run_is_map. reflexivity.
  Qed.

  Lemma transform_collection_nil skew nj w k bp pp :
    transform Phi Kgauss pmap skew nj w k bp pp (Collection [])
    = OneImage (zeros (fst (resolution_of bp pp)) (snd (resolution_of bp pp))).
  Proof. reflexivity. Qed.

  Lemma transform_njobs skew nj1 nj2 w k bp pp arg :
    transform Phi Kgauss pmap skew nj1 w k bp pp arg = transform Phi Kgauss pmap skew nj2 w k bp pp arg.
  Proof.
    destruct arg as [d|ds].
    - rewrite !transform_single. reflexivity.
    - destruct ds as [|d ds]; [reflexivity|]. rewrite !transform_collection by discriminate. reflexivity.
  Qed.
End Fold.

(* ---------------------------------------------------------------- mass, telescoping ------- *)
Lemma nondecr_adj l bx : nondecr l -> In bx (adj l) -> fst bx <= snd bx.
Proof.
  induction l as [|a [|b t] IH]; simpl; intros N I; try contradiction.
  destruct N as [N1 N2]. destruct I as [<-|I]; [exact N1|]. apply IH; assumption.
Qed.

Lemma last_cons_ne t : forall (a b : R), last (b :: t) a = last t b.
Proof.
  induction t as [|c t IH]; intros a b; [reflexivity|].
  change (last (b :: c :: t) a) with (last (c :: t) a). rewrite (IH a c), (IH b c). reflexivity.
Qed.

Lemma nondecr_hd_last l : forall a, nondecr (a :: l) -> a <= last l a.
Proof.
  induction l as [|b t IH]; intros a N; [simpl; lra|].
  destruct N as [N1 N2]. specialize (IH b N2). rewrite last_cons_ne. lra.
Qed.

Lemma sum_mass_y F bx : forall l a,
  sumR (map (fun py => mass F bx py) (adj (a :: l))) = mass F bx (a, last l a).
Proof.
  induction l as [|b t IH]; intros a.
  - simpl. unfold mass. simpl. lra.
  - rewrite adj_cons2. cbn [map sumR fold_right]. fold (sumR (map (fun py => mass F bx py) (adj (b :: t)))).
    rewrite IH. rewrite last_cons_ne. unfold mass. simpl. lra.
Qed.

Lemma sum_mass_x F py : forall l a,
  sumR (map (fun bx => mass F bx py) (adj (a :: l))) = mass F (a, last l a) py.
Proof.
  induction l as [|b t IH]; intros a.
  - simpl. unfold mass. simpl. lra.
  - rewrite adj_cons2. cbn [map sumR fold_right]. fold (sumR (map (fun bx => mass F bx py) (adj (b :: t)))).
    rewrite IH. rewrite last_cons_ne. unfold mass. simpl. lra.
Qed.

Definition span (l : list R) : R * R := (hd 0 l, last l 0).

Lemma total_mass F bp pp : img_total (tab (mass F) bp pp) = mass F (span bp) (span pp).
Proof.
  unfold img_total, tab. rewrite map_map.
  destruct pp as [|c pp].
  - simpl. replace (sumR (map (fun _ : R * R => 0) (adj bp))) with 0.
    + unfold mass, span. simpl. lra.
    + induction (adj bp); simpl; lra.
  - rewrite (sumR_map_ext _ (fun bx => mass F bx (c, last pp c))) by (intros; apply sum_mass_y).
    destruct bp as [|a bp].
    + simpl. unfold mass, span. simpl. lra.
    + rewrite sum_mass_x. unfold span. simpl hd. f_equal.
      * f_equal. symmetry. apply last_cons_ne.
      * f_equal. symmetry. apply last_cons_ne.
Qed.

Lemma span_ordered l : nondecr l -> fst (span l) <= snd (span l).
Proof.
  destruct l as [|a l]; unfold span; cbn [fst snd hd]; intros N.
  - simpl. lra.
  - rewrite last_cons_ne. apply nondecr_hd_last. exact N.
Qed.

Lemma total_tab_plus E1 E2 bp pp :
  img_total (tab (fun bx py => E1 bx py + E2 bx py) bp pp) = img_total (tab E1 bp pp) + img_total (tab E2 bp pp).
Proof.
  unfold img_total, tab. rewrite !map_map. rewrite <- sumR_map_plus. apply sumR_map_ext.
  intros bx _. apply sumR_map_plus.
Qed.

Lemma total_tab_scal c E bp pp :
  img_total (tab (fun bx py => c * E bx py) bp pp) = c * img_total (tab E bp pp).
Proof.
  unfold img_total, tab. rewrite !map_map. rewrite <- sumR_map_scal. apply sumR_map_ext.
  intros bx _. apply sumR_map_scal.
Qed.

Lemma sumR_map_zero {A} (f : A -> R) l : (forall x, f x = 0) -> sumR (map f l) = 0.
Proof. intros H. induction l as [|x l IH]; simpl; [reflexivity|]. rewrite IH, H. lra. Qed.

Lemma total_tab_zero E bp pp : (forall bx py, E bx py = 0) -> img_total (tab E bp pp) = 0.
Proof.
  intros H. unfold img_total, tab. rewrite map_map.
  apply sumR_map_zero. intros bx. apply sumR_map_zero. intros py. apply H.
Qed.

Lemma total_spec w K bp pp pts :
  img_total (spec_image w K bp pp pts)
  = sumR (map (fun pt => w (fst pt) (snd pt) * mass (K (fst pt) (snd pt)) (span bp) (span pp)) pts).
Proof.
  unfold spec_image. induction pts as [|pt pts IH].
  - simpl. apply total_tab_zero. reflexivity.
  - cbn [map sumR fold_right]. fold (sumR (map (fun pt => w (fst pt) (snd pt) * mass (K (fst pt) (snd pt)) (span bp) (span pp)) pts)).
    rewrite <- IH, <- total_mass, <- total_tab_scal, <- total_tab_plus.
    f_equal.
Qed.

Lemma spec_pixels_nonneg w K bp pp pts :
  mass_nonneg K -> nondecr bp -> nondecr pp ->
  (forall pt, In pt pts -> 0 <= w (fst pt) (snd pt)) ->
  Forall (Forall (fun v => 0 <= v)) (spec_image w K bp pp pts).
Proof.
  intros MK Nb Np Hw. unfold spec_image, tab.
  apply Forall_forall. intros r Hr. apply in_map_iff in Hr. destruct Hr as [bx [<- Hbx]].
  apply Forall_forall. intros v Hv. apply in_map_iff in Hv. destruct Hv as [py [<- Hpy]].
  unfold pixel_spec. apply sumR_map_nonneg. intros pt Hpt.
  apply Rmult_le_pos; [apply Hw, Hpt|].
  destruct bx as [x0 x1], py as [y0 y1]. apply MK.
  - apply (nondecr_adj bp (x0, x1) Nb Hbx).
  - apply (nondecr_adj pp (y0, y1) Np Hpy).
Qed.

Lemma spec_total_le w K bp pp pts :
  mass_nonneg K -> mass_le_one K -> nondecr bp -> nondecr pp ->
  (forall pt, In pt pts -> 0 <= w (fst pt) (snd pt)) ->
  0 <= img_total (spec_image w K bp pp pts) <= total_weight w pts.
Proof.
  intros MK ML Nb Np Hw. rewrite total_spec. unfold total_weight.
  pose proof (span_ordered bp Nb) as Sb. pose proof (span_ordered pp Np) as Sp.
  destruct (span bp) as [x0 x1], (span pp) as [y0 y1]. simpl in Sb, Sp.
  split.
  - apply sumR_map_nonneg. intros pt Hpt. apply Rmult_le_pos; [apply Hw, Hpt|]. apply MK; assumption.
  - apply sumR_map_le. intros pt Hpt.
    pose proof (Hw pt Hpt). pose proof (ML (fst pt) (snd pt) x0 x1 y0 y1 Sb Sp). nra.
Qed.

(* ---------------------------------------------------------------- kernel instances -------- *)
(* a product of two non-decreasing functions with values in [0,1], re-centred at the point *)
Lemma product_kernel_mass (G H : R -> R -> R) :
  (forall m, mono01 (G m)) -> (forall m, mono01 (H m)) ->
  mass_nonneg (fun mb mp x y => G mb x * H mp y) /\ mass_le_one (fun mb mp x y => G mb x * H mp y).
Proof.
  intros HG HH. split; intros mb mp x0 x1 y0 y1 Hx Hy;
    rewrite (mass_product (G mb) (H mp)); simpl;
    destruct (HG mb) as [Gm Gr]; destruct (HH mp) as [Hm Hr];
    pose proof (Gm _ _ Hx); pose proof (Hm _ _ Hy);
    pose proof (Gr x0); pose proof (Gr x1); pose proof (Hr y0); pose proof (Hr y1); nra.
Qed.

Lemma mono01_shift Phi c m : mono01 Phi -> 0 <= c -> mono01 (fun x => Phi ((x - m) * c)).
Proof.
  intros [M Rg] Hc. split; [|intros; apply Rg].
  intros x y Hxy. apply M. nra.
Qed.

Lemma iso_kernel_mass Phi s : mono01 Phi -> mass_nonneg (iso_kernel Phi s) /\ mass_le_one (iso_kernel Phi s).
Proof.
  intros HP. unfold iso_kernel.
  assert (C : 0 <= / sqrt s).
  { destruct (Req_dec (sqrt s) 0) as [E|E]; [rewrite E, Rinv_0; lra|].
    left. apply Rinv_0_lt_compat. pose proof (sqrt_pos s). lra. }
  apply (product_kernel_mass (fun m x => Phi ((x - m) / sqrt s)) (fun m y => Phi ((y - m) / sqrt s)));
    intros m; apply (mono01_shift Phi (/ sqrt s) m HP C).
Qed.

(* the uniform box kernel (images_kernels.uniform): two clamps and a product *)
Definition clamp_frac (width : R) (m x : R) : R := Rmin (Rmax (x - (m - width / 2)) 0) width / width.
Definition uniform_kernel (width height : R) : kernel :=
  fun mb mp x y => Rmin (Rmax (x - (mb - width / 2)) 0) width * Rmin (Rmax (y - (mp - height / 2)) 0) height
                   / (width * height).

Lemma clamp_frac_mono01 width m : 0 < width -> mono01 (clamp_frac width m).
Proof.
  intros W. unfold clamp_frac. split.
  - intros x y Hxy. apply Rmult_le_compat_r; [left; apply Rinv_0_lt_compat, W|].
    apply Rle_min_compat_r. apply Rle_max_compat_r. lra.
  - intros x. assert (0 <= Rmin (Rmax (x - (m - width / 2)) 0) width <= width).
    { split; [apply Rmin_glb; [apply Rmax_r|lra]|apply Rmin_r]. }
    assert (0 < / width) by (apply Rinv_0_lt_compat, W).
    split; [apply Rmult_le_pos; lra|].
    apply Rmult_le_reg_r with width; [exact W|]. unfold Rdiv. rewrite Rmult_assoc, Rinv_l by lra. lra.
Qed.

Lemma uniform_kernel_product width height mb mp x y : width <> 0 -> height <> 0 ->
  uniform_kernel width height mb mp x y = clamp_frac width mb x * clamp_frac height mp y.
Proof. intros. unfold uniform_kernel, clamp_frac. field. split; assumption. Qed.

Lemma mass_ext F1 F2 bx py : (forall x y, F1 x y = F2 x y) -> mass F1 bx py = mass F2 bx py.
Proof. intros H. unfold mass. rewrite !H. reflexivity. Qed.

Lemma uniform_kernel_mass width height : 0 < width -> 0 < height ->
  mass_nonneg (uniform_kernel width height) /\ mass_le_one (uniform_kernel width height).
Proof.
  intros W H.
  destruct (product_kernel_mass (clamp_frac width) (clamp_frac height)
              (fun m => clamp_frac_mono01 width m W) (fun m => clamp_frac_mono01 height m H)) as [A B].
  split; intros mb mp x0 x1 y0 y1 Hx Hy.
  - rewrite (mass_ext _ (fun x y => clamp_frac width mb x * clamp_frac height mp y)).
    + apply (A mb mp); assumption.
    + intros. apply uniform_kernel_product; lra.
  - rewrite (mass_ext _ (fun x y => clamp_frac width mb x * clamp_frac height mp y)).
    + apply (B mb mp); assumption.
    + intros. apply uniform_kernel_product; lra.
Qed.

(* ---------------------------------------------------------------- weights ----------------- *)
Lemma linear_ramp_cases low high start stop b p :
  (p < start -> linear_ramp low high start stop b p = low) /\
  (start <= p -> stop < p -> linear_ramp low high start stop b p = high) /\
  (start <= p -> p <= stop -> linear_ramp low high start stop b p = (p - start) * (high - low) / (stop - start) + low).
Proof.
  unfold linear_ramp. repeat split; intros;
    destruct (Rlt_dec p start); destruct (Rlt_dec stop p); try lra.
Qed.

Lemma linear_ramp_bounds low high start stop b p : start < stop -> low <= high ->
  low <= linear_ramp low high start stop b p <= high.
Proof.
  intros S L. unfold linear_ramp.
  destruct (Rlt_dec p start); [lra|]. destruct (Rlt_dec stop p); [lra|].
  assert (0 < / (stop - start)) by (apply Rinv_0_lt_compat; lra).
  assert (E : (p - start) * (high - low) / (stop - start) = (high - low) * ((p - start) * / (stop - start))) by (unfold Rdiv; ring).
  rewrite E.
  assert (0 <= (p - start) * / (stop - start) <= 1).
  { split; [apply Rmult_le_pos; lra|].
    apply Rmult_le_reg_r with (stop - start); [lra|]. rewrite Rmult_assoc, Rinv_l by lra. lra. }
  nra.
Qed.

Lemma linear_ramp_endpoints low high start stop b : start < stop ->
  linear_ramp low high start stop b start = low /\ linear_ramp low high start stop b stop = high.
Proof.
  intros S. unfold linear_ramp. split.
  - destruct (Rlt_dec start start); [lra|]. destruct (Rlt_dec stop start); [lra|]. unfold Rdiv. ring.
  - destruct (Rlt_dec stop start); [lra|]. destruct (Rlt_dec stop stop); [lra|]. field. lra.
Qed.

Lemma linear_ramp_mono low high start stop b p q : start < stop -> low <= high -> p <= q ->
  linear_ramp low high start stop b p <= linear_ramp low high start stop b q.
Proof.
  intros S L PQ.
  pose proof (linear_ramp_bounds low high start stop b p S L) as Bp.
  pose proof (linear_ramp_bounds low high start stop b q S L) as Bq.
  unfold linear_ramp in *.
  destruct (Rlt_dec p start); destruct (Rlt_dec q start); try lra;
  destruct (Rlt_dec stop p); destruct (Rlt_dec stop q); try lra.
  assert (C : 0 < / (stop - start)) by (apply Rinv_0_lt_compat; lra).
  assert (A : 0 <= (q - p) * (high - low)) by (apply Rmult_le_pos; lra).
  assert (B : 0 <= (q - p) * (high - low) * / (stop - start)) by (apply Rmult_le_pos; lra).
  unfold Rdiv. nra.
Qed.

Lemma linear_ramp_birth_free low high start stop b b' p :
  linear_ramp low high start stop b p = linear_ramp low high start stop b' p.
Proof. reflexivity. Qed.

Lemma persistence_nat_spec k b p :
  persistence_nat k b p = p ^ k /\ (0 <= p -> 0 <= persistence_nat k b p) /\
  (forall q, 0 <= p <= q -> persistence_nat k b p <= persistence_nat k b q) /\
  ((0 < k)%nat -> persistence_nat k b 0 = 0).
Proof.
  unfold persistence_nat. repeat split.
  - apply pow_le.
  - intros q [P Q]. apply pow_incr. split; assumption.
  - intros K. destruct k; [lia|]. simpl. ring.
Qed.

Lemma persistence_real_spec n b p : 0 < n ->
  (0 < p -> persistence_real n b p = Rpower p n) /\ persistence_real n b 0 = 0 /\
  (0 <= p -> 0 <= persistence_real n b p) /\
  (forall q, 0 <= p <= q -> persistence_real n b p <= persistence_real n b q).
Proof.
  intros N. unfold persistence_real. repeat split.
  - intros P. destruct (Rlt_dec 0 p); [reflexivity|lra].
  - destruct (Rlt_dec 0 0); [lra|reflexivity].
  - intros _. destruct (Rlt_dec 0 p); [|lra]. unfold Rpower. left. apply exp_pos.
  - intros q [P Q]. destruct (Rlt_dec 0 p) as [Hp|Hp]; destruct (Rlt_dec 0 q) as [Hq|Hq]; try lra.
    + destruct (Req_dec p q) as [->|NE]; [lra|]. left. apply Rlt_Rpower_l; lra.
    + unfold Rpower. left. apply exp_pos.
Qed.

Lemma persistence_real_nat k b p : 0 < p -> persistence_real (INR k) b p = persistence_nat k b p.
Proof.
  intros P. unfold persistence_real, persistence_nat. destruct (Rlt_dec 0 p); [|lra].
  apply Rpower_pow. exact P.
Qed.

(* ---------------------------------------------------------------- transform_one laws ------ *)
(* what is assumed of the configured kernel: nothing for the isotropic fast path beyond Phi being
   a CDF; rectangle masses in [0,1] for a kernel that is called through the general path *)
Definition kernel_assumption (Kgauss : R -> R -> R -> kernel) (k : kernel_cfg) : Prop :=
  match k with
  | GaussScalar _ => True
  | GaussMatrix sxx sxy syy =>
      (sxx = syy /\ sxy = 0) \/ (mass_nonneg (Kgauss sxx sxy syy) /\ mass_le_one (Kgauss sxx sxy syy))
  | OtherKernel K => mass_nonneg K /\ mass_le_one K
  end.

Lemma eff_kernel_valid Phi Kgauss k : mono01 Phi -> kernel_assumption Kgauss k ->
  mass_nonneg (eff_kernel Phi Kgauss k) /\ mass_le_one (eff_kernel Phi Kgauss k).
Proof.
  intros HP HK. destruct k as [s|sxx sxy syy|K]; simpl in *.
  - apply iso_kernel_mass, HP.
  - destruct (Req_EM_T sxx syy) as [E1|E1]; [destruct (Req_EM_T sxy 0) as [E2|E2]|].
    + apply iso_kernel_mass, HP.
    + destruct HK as [[_ H]|H]; [contradiction|exact H].
    + destruct HK as [[H _]|H]; [contradiction|exact H].
  - exact HK.
Qed.

Lemma in_to_bp skew dgm pt : In pt (to_birth_pers skew dgm) -> exists q, In q dgm /\ pt = bp_of skew q.
Proof.
  destruct skew; simpl; intros H.
  - apply in_map_iff in H. destruct H as [q [E I]]. exists q. split; [exact I|symmetry; exact E].
  - exists pt. split; [exact H|reflexivity].
Qed.

Lemma transform_one_nonneg Phi Kgauss skew w k bp pp dgm :
  mono01 Phi -> kernel_assumption Kgauss k -> nondecr bp -> nondecr pp ->
  (forall q, In q dgm -> 0 <= w (fst (bp_of skew q)) (snd (bp_of skew q))) ->
  Forall (Forall (fun v => 0 <= v)) (transform_one Phi Kgauss skew w k bp pp dgm).
Proof.
  intros HP HK Nb Np Hw. rewrite transform_one_spec.
  destruct (eff_kernel_valid Phi Kgauss k HP HK) as [A _].
  apply spec_pixels_nonneg; try assumption.
  intros pt Hpt. apply in_to_bp in Hpt. destruct Hpt as [q [I ->]]. apply Hw, I.
Qed.

Lemma transform_one_total Phi Kgauss skew w k bp pp dgm :
  mono01 Phi -> kernel_assumption Kgauss k -> nondecr bp -> nondecr pp ->
  (forall q, In q dgm -> 0 <= w (fst (bp_of skew q)) (snd (bp_of skew q))) ->
  0 <= img_total (transform_one Phi Kgauss skew w k bp pp dgm) <= total_weight w (to_birth_pers skew dgm).
Proof.
  intros HP HK Nb Np Hw. rewrite transform_one_spec.
  destruct (eff_kernel_valid Phi Kgauss k HP HK) as [A B].
  apply spec_total_le; try assumption.
  intros pt Hpt. apply in_to_bp in Hpt. destruct Hpt as [q [I ->]]. apply Hw, I.
Qed.
