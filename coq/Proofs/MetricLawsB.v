(* C07, bottleneck.  (1) Directly over Q, closed under the global context: the brute-force twin
   of the spec computes the spec minimum, hence existence.  (2) The real-valued L-infinity /
   largest-cost instance of the generic laws, and the exact correspondence
   is_bottleneck S T v <-> is_bottleneckR (injR S) (injR T) (Q2R v), through which every law is
   transferred to the rational spec.  (3) bottleneck <= Wasserstein. *)
From Coq Require Import List Arith Bool Permutation Lia QArith Qminmax Qabs Qreals Reals Lra Lqa Psatz.
From Persim Require Import Spec.PartialMatching Spec.BottleneckS Spec.WassersteinS Lib.PMatchLemmas
  Model.MetricBruteM Proofs.MetricLawsG Proofs.MetricLawsW.
Import ListNotations.

(* ================= (1) over Q ================= *)
Section OverQ.
Open Scope Q_scope.

Lemma maxl_ge0 l : 0 <= maxl l.
Proof. induction l; simpl; [apply Qle_refl|]. eapply Qle_trans; [exact IHl|apply Q.le_max_r]. Qed.
Lemma maxl_in x l : In x l -> x <= maxl l.
Proof.
  induction l; simpl; [contradiction|]. intros [H|H].
  - subst. apply Q.le_max_l.
  - eapply Qle_trans; [apply IHl; exact H|apply Q.le_max_r].
Qed.
Lemma maxl_le b l : 0 <= b -> (forall x, In x l -> x <= b) -> maxl l <= b.
Proof.
  intros Hb. induction l; simpl; intros H; [exact Hb|].
  apply Q.max_lub; [apply H; auto|apply IHl; intros; apply H; auto].
Qed.
Lemma maxl_perm l l' : Permutation l l' -> maxl l == maxl l'.
Proof.
  intros H. apply Qle_antisym; (apply maxl_le; [apply maxl_ge0|]); intros x Hx; apply maxl_in;
    [eapply Permutation_in; [exact H|exact Hx]|eapply Permutation_in; [symmetry; exact H|exact Hx]].
Qed.

Lemma bcost_perm S T m m' : Permutation m m' -> bcost S T m == bcost S T m'.
Proof. intros H. apply maxl_perm. apply pm_costs_perm. exact H. Qed.

Lemma minQl_le_head x l : minQl x l <= x.
Proof. induction l; simpl; [apply Qle_refl|]. eapply Qle_trans; [apply Q.le_min_r|exact IHl]. Qed.
Lemma minQl_le_in x l y : In y l -> minQl x l <= y.
Proof.
  induction l; simpl; [contradiction|]. intros [H|H].
  - subst. apply Q.le_min_l.
  - eapply Qle_trans; [apply Q.le_min_r|apply IHl; exact H].
Qed.
Lemma minQl_attained x l : minQl x l == x \/ exists y, In y l /\ minQl x l == y.
Proof.
  induction l; simpl; [left; reflexivity|].
  destruct (Q.min_spec a (minQl x l)) as [[_ E]|[_ E]].
  - right. exists a. split; [left; reflexivity|exact E].
  - destruct IHl as [H|[y [I H]]].
    + left. rewrite E. exact H.
    + right. exists y. split; [right; exact I|rewrite E; exact H].
Qed.

Theorem brute_is_bottleneck S T : is_bottleneck S T (bottleneck_brute S T).
Proof.
  unfold bottleneck_brute. split.
  - destruct (minQl_attained (bcost S T []) (map (bcost S T) (all_pm (length S) (length T)))) as [H|[y [I H]]].
    + exists []. split; [apply valid_pm_nil|symmetry; exact H].
    + apply in_map_iff in I. destruct I as [m [E I]]. exists m. split; [apply all_pm_sound; exact I|].
      rewrite E. symmetry. exact H.
  - intros m V. destruct (all_pm_complete _ _ _ V) as [m' [I P]].
    rewrite (bcost_perm S T m m' P). apply minQl_le_in. apply in_map. exact I.
Qed.

Theorem B_exists S T : exists v, is_bottleneck S T v.
Proof. exists (bottleneck_brute S T). apply brute_is_bottleneck. Qed.

Theorem B_unique S T v v' : is_bottleneck S T v -> is_bottleneck S T v' -> v == v'.
Proof.
  intros [[m [V E]] L] [[m' [V' E']] L']. apply Qle_antisym.
  - rewrite <- E'. apply L. exact V'.
  - rewrite <- E. apply L'. exact V.
Qed.

Theorem B_nonneg S T v : is_bottleneck S T v -> 0 <= v.
Proof. intros [[m [V E]] _]. rewrite <- E. apply maxl_ge0. Qed.
End OverQ.

(* ================= (2) the real-valued instance ================= *)
Open Scope R_scope.

Definition linfR (p q : rpoint) : R := Rmax (Rabs (fst p - fst q)) (Rabs (snd p - snd q)).
Definition diagBR (p : rpoint) : R := (snd p - fst p) / 2.
Definition is_bottleneckR (S T : list rpoint) (v : R) : Prop := is_min linfR diagBR (0,0) maxRl S T v.

Ltac rmax_cases := unfold Rmax;
  repeat match goal with |- context [Rle_dec ?a ?b] => destruct (Rle_dec a b) end; try lra.
Ltac rmm := unfold Rabs;
  repeat match goal with |- context [Rcase_abs ?a] => destruct (Rcase_abs a) end; rmax_cases.

Lemma linfR_sym p q : linfR p q = linfR q p.
Proof. unfold linfR. rmm. Qed.
Lemma linfR_refl p : linfR p p = 0.
Proof. unfold linfR. rmm. Qed.
Lemma linfR_tri p q r : linfR p r <= linfR p q + linfR q r.
Proof.
  unfold linfR.
  assert (H1 := Rabs_triang (fst p - fst q) (fst q - fst r)).
  replace (fst p - fst q + (fst q - fst r)) with (fst p - fst r) in H1 by ring.
  assert (H2 := Rabs_triang (snd p - snd q) (snd q - snd r)).
  replace (snd p - snd q + (snd q - snd r)) with (snd p - snd r) in H2 by ring.
  rmax_cases.
Qed.
Lemma diagBR_tri p q : diagBR p <= linfR p q + diagBR q.
Proof. unfold linfR, diagBR. rmm. Qed.

Definition okT (_ : list rpoint) : Prop := True.

Lemma BR_compose A B C m1 m2 : okT B -> valid_for A B m1 -> valid_for B C m2 ->
  maxRl (pm_costs linfR diagBR (0,0) A C (pcompose m1 m2)) <=
  maxRl (pm_costs linfR diagBR (0,0) A B m1) + maxRl (pm_costs linfR diagBR (0,0) B C m2).
Proof. intros _. apply (max_compose linfR diagBR (0,0) linfR_sym linfR_tri diagBR_tri). Qed.

Lemma BR_costs_nonneg (S T : list rpoint) m : okT S -> okT T -> 0 <= maxRl (pm_costs linfR diagBR (0,0) S T m).
Proof. intros _ _. apply maxRl_ge0. Qed.
Lemma okT_perm (S S' : list rpoint) : Permutation S S' -> okT S -> okT S'.
Proof. intros _ _. exact I. Qed.
Lemma okT_cons (z : rpoint) S : diagBR z = 0 -> okT S -> okT (z :: S).
Proof. intros _ _. exact I. Qed.

Lemma BR_unique S T v v' : is_bottleneckR S T v -> is_bottleneckR S T v' -> v = v'.
Proof. apply (min_unique linfR diagBR (0,0) maxRl). Qed.
Lemma BR_sym S T v : is_bottleneckR S T v -> is_bottleneckR T S v.
Proof. apply (min_sym linfR diagBR (0,0) maxRl linfR_sym maxRl_perm). Qed.
Lemma BR_perm_zero S S' : Permutation S S' -> is_bottleneckR S S' 0.
Proof. apply (min_perm_zero linfR diagBR (0,0) maxRl okT linfR_refl maxRl_zero BR_costs_nonneg okT_perm S S' I). Qed.
Lemma BR_triangle A B C v1 v2 v3 :
  is_bottleneckR A B v1 -> is_bottleneckR B C v2 -> is_bottleneckR A C v3 -> v3 <= v1 + v2.
Proof. apply (min_triangle linfR diagBR (0,0) maxRl okT BR_compose A B C v1 v2 v3 I). Qed.
Lemma BR_perm_invariant S S' T v v' : Permutation S S' ->
  is_bottleneckR S T v -> is_bottleneckR S' T v' -> v = v'.
Proof.
  apply (min_perm_invariant linfR diagBR (0,0) maxRl okT linfR_sym linfR_refl maxRl_perm maxRl_zero
           BR_costs_nonneg okT_perm BR_compose S S' T v v' I).
Qed.
Lemma diagBR_diag x : diagBR (x, x) = 0.
Proof. unfold diagBR. simpl. lra. Qed.
Lemma BR_diag_point x S S' T v v' : Permutation S' ((x, x) :: S) ->
  is_bottleneckR S T v -> is_bottleneckR S' T v' -> v = v'.
Proof.
  apply (min_diag_point linfR diagBR (0,0) maxRl okT linfR_sym linfR_refl maxRl_perm maxRl_zero
           BR_costs_nonneg okT_perm okT_cons BR_compose (x, x) S S' T v v' I (diagBR_diag x)).
Qed.
Lemma on_diagR_diagBR Z : on_diagR Z -> Forall (fun z => diagBR z = 0) Z.
Proof. apply Forall_impl. intros z E. unfold diagBR. rewrite E. lra. Qed.
Lemma BR_exists S T : exists v, is_bottleneckR S T v.
Proof. apply (min_exists linfR diagBR (0,0) maxRl). apply maxRl_perm. Qed.
Lemma BR_diag_padding Z1 Z2 S S' T T' v v' : on_diagR Z1 -> on_diagR Z2 ->
  Permutation S' (Z1 ++ S) -> Permutation T' (Z2 ++ T) ->
  is_bottleneckR S T v -> is_bottleneckR S' T' v' -> v = v'.
Proof.
  intros D1 D2 P1 P2 H H'. destruct (BR_exists S' T) as [w Hw].
  transitivity w.
  - apply (min_diag_points linfR diagBR (0,0) maxRl okT linfR_sym linfR_refl maxRl_perm maxRl_zero
             BR_costs_nonneg okT_perm okT_cons BR_compose Z1 S S' T v w I (on_diagR_diagBR _ D1) P1 H Hw).
  - apply (min_diag_points linfR diagBR (0,0) maxRl okT linfR_sym linfR_refl maxRl_perm maxRl_zero
             BR_costs_nonneg okT_perm okT_cons BR_compose Z2 T T' S' w v' I (on_diagR_diagBR _ D2) P2);
      apply BR_sym; assumption.
Qed.
Lemma linfR_shift c p q : linfR (shiftR c p) (shiftR c q) = 1 * linfR p q.
Proof. unfold linfR, shiftR. simpl. rmm. Qed.
Lemma diagBR_shift c p : diagBR (shiftR c p) = 1 * diagBR p.
Proof. unfold diagBR, shiftR. simpl. lra. Qed.
Lemma linfR_scale c p q : 0 <= c -> linfR (scaleR c p) (scaleR c q) = c * linfR p q.
Proof.
  intros Hc. unfold linfR, scaleR. simpl. rewrite <- RmaxRmult by exact Hc.
  f_equal.
  - replace (c * fst p - c * fst q) with (c * (fst p - fst q)) by ring.
    rewrite Rabs_mult, (Rabs_pos_eq c Hc). reflexivity.
  - replace (c * snd p - c * snd q) with (c * (snd p - snd q)) by ring.
    rewrite Rabs_mult, (Rabs_pos_eq c Hc). reflexivity.
Qed.
Lemma diagBR_scale c p : diagBR (scaleR c p) = c * diagBR p.
Proof. unfold diagBR, scaleR. simpl. lra. Qed.
Lemma BR_translate c S T v : is_bottleneckR S T v -> is_bottleneckR (map (shiftR c) S) (map (shiftR c) T) v.
Proof.
  intros H. rewrite <- (Rmult_1_l v).
  apply (min_similarity linfR diagBR (0,0) maxRl maxRl_scale (shiftR c) 1 S T v);
    [lra|apply linfR_shift|apply diagBR_shift|exact H].
Qed.
Lemma BR_scale c S T v : 0 <= c -> is_bottleneckR S T v ->
  is_bottleneckR (map (scaleR c) S) (map (scaleR c) T) (c * v).
Proof.
  intros Hc H.
  apply (min_similarity linfR diagBR (0,0) maxRl maxRl_scale (scaleR c) c S T v);
    [exact Hc|intros; apply linfR_scale; exact Hc|apply diagBR_scale|exact H].
Qed.
Lemma BR_empty S : is_bottleneckR S [] (maxRl (map diagBR S)).
Proof. apply (min_empty linfR diagBR (0,0) maxRl). Qed.

(* ================= (3) rational spec <-> real-valued instance ================= *)
Definition injP (p : qpoint) : rpoint := (Q2R (fst p), Q2R (snd p)).
Definition injR (S : list qpoint) : list rpoint := map injP S.

Lemma Q2R_max a b : Q2R (Qmax a b) = Rmax (Q2R a) (Q2R b).
Proof.
  destruct (Q.max_spec a b) as [[H E]|[H E]]; rewrite (Qeq_eqR _ _ E).
  - rewrite Rmax_right; [reflexivity|]. apply Qle_Rle. apply Qlt_le_weak. exact H.
  - rewrite Rmax_left; [reflexivity|]. apply Qle_Rle. exact H.
Qed.
Lemma Q2R_abs a : Q2R (Qabs a) = Rabs (Q2R a).
Proof.
  destruct (Qlt_le_dec a 0) as [H|H].
  - rewrite (Qeq_eqR _ _ (Qabs_neg a (Qlt_le_weak _ _ H))), Q2R_opp.
    apply Qlt_Rlt in H. rewrite RMicromega.Q2R_0 in H. rewrite Rabs_left; [reflexivity|exact H].
  - rewrite (Qeq_eqR _ _ (Qabs_pos a H)).
    apply Qle_Rle in H. rewrite RMicromega.Q2R_0 in H. rewrite Rabs_pos_eq; [reflexivity|exact H].
Qed.
Lemma Q2R_half : Q2R (1#2) = / 2.
Proof. unfold Q2R. simpl. lra. Qed.

Lemma Q2R_linf p q : Q2R (linf p q) = linfR (injP p) (injP q).
Proof. unfold linf, linfR, injP. cbn [fst snd]. rewrite Q2R_max, !Q2R_abs, !Q2R_minus. reflexivity. Qed.
Lemma Q2R_diagB p : Q2R (diagB p) = diagBR (injP p).
Proof. unfold diagB, diagBR, injP. cbn [fst snd]. rewrite Q2R_mult, Q2R_minus, Q2R_half. reflexivity. Qed.
Lemma Q2R_maxl l : Q2R (maxl l) = maxRl (map Q2R l).
Proof. induction l; simpl; [apply RMicromega.Q2R_0|]. rewrite Q2R_max, IHl. reflexivity. Qed.

Lemma injP_00 : injP (0%Q, 0%Q) = (0, 0).
Proof. unfold injP. simpl. rewrite RMicromega.Q2R_0. reflexivity. Qed.
Lemma nth_injR S i : nth i (injR S) (0, 0) = injP (nth i S (0%Q, 0%Q)).
Proof. rewrite <- injP_00. apply map_nth. Qed.

Lemma Q2R_bcosts S T m :
  map Q2R (bcosts S T m) = pm_costs linfR diagBR (0,0) (injR S) (injR T) m.
Proof.
  unfold bcosts, pm_costs, injR. rewrite !map_app, !map_map, !map_length. f_equal; [|f_equal].
  - apply map_ext. intros p. fold (injR S) (injR T). rewrite !nth_injR. apply Q2R_linf.
  - apply map_ext. intros i. fold (injR S). rewrite nth_injR. apply Q2R_diagB.
  - apply map_ext. intros i. fold (injR T). rewrite nth_injR. apply Q2R_diagB.
Qed.

Lemma Q2R_bcost S T m : Q2R (bcost S T m) = maxRl (pm_costs linfR diagBR (0,0) (injR S) (injR T) m).
Proof. unfold bcost. rewrite Q2R_maxl, Q2R_bcosts. reflexivity. Qed.

Lemma valid_for_injR S T m : valid_for (injR S) (injR T) m <-> valid_for S T m.
Proof. unfold valid_for, injR. rewrite !map_length. tauto. Qed.

Theorem B_iff_BR S T v : is_bottleneck S T v <-> is_bottleneckR (injR S) (injR T) (Q2R v).
Proof.
  unfold is_bottleneck, is_bottleneckR, is_min. split; intros [[m [V E]] L]; split.
  - exists m. split; [apply valid_for_injR; exact V|]. rewrite <- Q2R_bcost. apply Qeq_eqR. exact E.
  - intros m' V'. rewrite <- Q2R_bcost. apply Qle_Rle. apply L. apply valid_for_injR. exact V'.
  - exists m. split; [apply valid_for_injR; exact V|]. apply eqR_Qeq. rewrite Q2R_bcost. exact E.
  - intros m' V'. apply Rle_Qle. rewrite Q2R_bcost. apply L. apply valid_for_injR. exact V'.
Qed.

(* ---------- the laws on the rational spec ---------- *)
Definition shiftQ (c : Q) (p : qpoint) : qpoint := ((fst p + c)%Q, (snd p + c)%Q).
Definition scaleQ (c : Q) (p : qpoint) : qpoint := ((c * fst p)%Q, (c * snd p)%Q).
Definition persQ (p : qpoint) : Q := (snd p - fst p)%Q.

Lemma injR_shift c S : injR (map (shiftQ c) S) = map (shiftR (Q2R c)) (injR S).
Proof.
  unfold injR. rewrite !map_map. apply map_ext. intros p. unfold injP, shiftQ, shiftR. simpl.
  rewrite !Q2R_plus. reflexivity.
Qed.
Lemma injR_scale c S : injR (map (scaleQ c) S) = map (scaleR (Q2R c)) (injR S).
Proof.
  unfold injR. rewrite !map_map. apply map_ext. intros p. unfold injP, scaleQ, scaleR. simpl.
  rewrite !Q2R_mult. reflexivity.
Qed.

Theorem B_sym S T v : is_bottleneck S T v -> is_bottleneck T S v.
Proof. intros H. apply B_iff_BR. apply BR_sym. apply B_iff_BR. exact H. Qed.

Theorem B_perm_zero S S' : Permutation S S' -> is_bottleneck S S' 0%Q.
Proof.
  intros Pm. apply B_iff_BR. rewrite RMicromega.Q2R_0. apply BR_perm_zero.
  apply Permutation_map. exact Pm.
Qed.

Theorem B_triangle A B C v1 v2 v3 :
  is_bottleneck A B v1 -> is_bottleneck B C v2 -> is_bottleneck A C v3 -> (v3 <= v1 + v2)%Q.
Proof.
  intros H1 H2 H3. apply Rle_Qle. rewrite Q2R_plus.
  apply (BR_triangle (injR A) (injR B) (injR C)); apply B_iff_BR; assumption.
Qed.

Theorem B_perm_invariant S S' T v v' : Permutation S S' ->
  is_bottleneck S T v -> is_bottleneck S' T v' -> (v == v')%Q.
Proof.
  intros Pm H H'. apply eqR_Qeq.
  apply (BR_perm_invariant (injR S) (injR S') (injR T)); [apply Permutation_map; exact Pm| |];
    apply B_iff_BR; assumption.
Qed.

Theorem B_diag_point_l x S S' T v v' : Permutation S' ((x, x) :: S) ->
  is_bottleneck S T v -> is_bottleneck S' T v' -> (v == v')%Q.
Proof.
  intros Pm H H'. apply eqR_Qeq.
  apply (BR_diag_point (Q2R x) (injR S) (injR S') (injR T)); [|apply B_iff_BR; exact H|apply B_iff_BR; exact H'].
  change ((Q2R x, Q2R x) :: injR S) with (injR ((x, x) :: S)). apply Permutation_map. exact Pm.
Qed.

Theorem B_diag_point_r y S T T' v v' : Permutation T' ((y, y) :: T) ->
  is_bottleneck S T v -> is_bottleneck S T' v' -> (v == v')%Q.
Proof. intros Pm H H'. apply (B_diag_point_l y T T' S v v' Pm); apply B_sym; assumption. Qed.

Definition on_diagQ (Z : list qpoint) : Prop := Forall (fun z => (fst z == snd z)%Q) Z.
Lemma on_diagQ_injR Z : on_diagQ Z -> on_diagR (injR Z).
Proof.
  unfold on_diagQ, on_diagR, injR. rewrite !Forall_forall. intros H z I.
  apply in_map_iff in I. destruct I as [q [E I]]. subst z. simpl. apply Qeq_eqR. apply H. exact I.
Qed.

Theorem B_diag_padding Z1 Z2 S S' T T' v v' : on_diagQ Z1 -> on_diagQ Z2 ->
  Permutation S' (Z1 ++ S) -> Permutation T' (Z2 ++ T) ->
  is_bottleneck S T v -> is_bottleneck S' T' v' -> (v == v')%Q.
Proof.
  intros D1 D2 P1 P2 H H'. apply eqR_Qeq.
  apply (BR_diag_padding (injR Z1) (injR Z2) (injR S) (injR S') (injR T) (injR T'));
    try (apply on_diagQ_injR; assumption); try (apply B_iff_BR; assumption).
  - unfold injR. rewrite <- map_app. apply Permutation_map. exact P1.
  - unfold injR. rewrite <- map_app. apply Permutation_map. exact P2.
Qed.

Theorem B_translate c S T v : is_bottleneck S T v ->
  is_bottleneck (map (shiftQ c) S) (map (shiftQ c) T) v.
Proof.
  intros H. apply B_iff_BR. rewrite !injR_shift. apply BR_translate. apply B_iff_BR. exact H.
Qed.

Theorem B_scale c S T v : (0 <= c)%Q -> is_bottleneck S T v ->
  is_bottleneck (map (scaleQ c) S) (map (scaleQ c) T) (c * v)%Q.
Proof.
  intros Hc H. apply B_iff_BR. rewrite !injR_scale, Q2R_mult. apply BR_scale.
  - apply Qle_Rle in Hc. rewrite RMicromega.Q2R_0 in Hc. exact Hc.
  - apply B_iff_BR. exact H.
Qed.

Lemma maxl_diagB_pers S : (maxl (map diagB S) == maxl (map persQ S) * (1#2))%Q.
Proof.
  induction S as [|p S IH]; simpl; [reflexivity|].
  unfold diagB at 1. unfold persQ at 1. revert IH.
  generalize (maxl (map diagB S)) (maxl (map persQ S)). intros x y IH.
  generalize (Q.max_spec ((snd p - fst p) * (1#2)) x) (Q.max_spec (snd p - fst p) y).
  generalize (Qmax ((snd p - fst p) * (1#2)) x) (Qmax (snd p - fst p) y). intros a b Ha Hb.
  destruct Ha as [[? ?]|[? ?]], Hb as [[? ?]|[? ?]]; lra.
Qed.

(* against the empty diagram: the largest persistence, halved (maxl is 0 on the empty list) *)
Theorem B_empty S : is_bottleneck S [] (maxl (map persQ S) * (1#2))%Q.
Proof.
  assert (E : forall m, valid_for S [] m -> bcost S [] m = maxl (map diagB S)).
  { intros m V. apply valid_pm_right_empty in V. subst m. unfold bcost, bcosts.
    rewrite pm_costs_nil. simpl. rewrite app_nil_r. reflexivity. }
  assert (H := maxl_diagB_pers S).
  split.
  - exists []. split; [apply valid_pm_nil|]. rewrite (E [] (valid_pm_nil _ _)). exact H.
  - intros m V. rewrite (E m V), H. apply Qle_refl.
Qed.

(* ---------- bottleneck <= Wasserstein ---------- *)
Lemma Forall2_map_same {A} (f g : A -> R) l : (forall x, In x l -> f x <= g x) -> Forall2 Rle (map f l) (map g l).
Proof. induction l; simpl; intros H; constructor; [apply H; auto|apply IHl; intros; apply H; auto]. Qed.

Lemma linfR_le_euclid p q : linfR p q <= euclid p q.
Proof.
  unfold linfR, euclid. set (a := fst p - fst q). set (b := snd p - snd q).
  apply Rmax_lub.
  - rewrite <- sqrt_Rsqr_abs. apply sqrt_le_1_alt. unfold Rsqr. nra.
  - rewrite <- sqrt_Rsqr_abs. apply sqrt_le_1_alt. unfold Rsqr. nra.
Qed.
Lemma diagBR_le_diagW p : fst p <= snd p -> diagBR p <= diagW p.
Proof. intros H. rewrite diagW_alt. unfold diagBR. generalize isq2_ge_half. intros. nra. Qed.

Theorem BR_le_W S T b w : wfdgmR S -> wfdgmR T -> is_bottleneckR S T b -> is_wasserstein S T w -> b <= w.
Proof.
  intros WS WT [_ L] [[m [V E]] _]. rewrite <- E.
  eapply Rle_trans; [apply (L m V)|]. unfold wcost, wcosts. change sumRl with sumR.
  eapply Rle_trans; [|apply maxRl_le_sumR].
  - apply maxRl_mono. unfold pm_costs. destruct V as [_ [_ B]].
    apply Forall2_app; [|apply Forall2_app]; apply Forall2_map_same.
    + intros p _. apply linfR_le_euclid.
    + intros i I. apply in_unmatched in I. apply diagBR_le_diagW. apply WS. apply nth_In. tauto.
    + intros i I. apply in_unmatched in I. apply diagBR_le_diagW. apply WT. apply nth_In. tauto.
  - apply (costs_nonneg euclid diagW (0,0) euclid_sym euclid_refl euclid_tri); apply wfG_wfdgmR; assumption.
Qed.

Lemma wfdgm_injR S : wfdgm S -> wfdgmR (injR S).
Proof.
  intros H p I. apply in_map_iff in I. destruct I as [q [E I]]. subst p. simpl. apply Qle_Rle. apply H. exact I.
Qed.

Theorem B_le_W S T b w : wfdgm S -> wfdgm T ->
  is_bottleneck S T b -> is_wasserstein (injR S) (injR T) w -> Q2R b <= w.
Proof.
  intros WS WT HB HW. apply (BR_le_W (injR S) (injR T)); [apply wfdgm_injR; exact WS|apply wfdgm_injR; exact WT| |exact HW].
  apply B_iff_BR. exact HB.
Qed.

(* ================= (4) transfer to any function that computes the spec minimum ================= *)
(* C01 proves  is_bottleneck S T (model S T)  for well-formed diagrams; every law then holds of the model. *)
Lemma wfdgm_perm S S' : Permutation S S' -> wfdgm S -> wfdgm S'.
Proof. intros Pm H p I. apply H. eapply Permutation_in; [symmetry; exact Pm|exact I]. Qed.
Lemma wfdgm_shift c S : wfdgm S -> wfdgm (map (shiftQ c) S).
Proof.
  intros H p I. apply in_map_iff in I. destruct I as [q [E I]]. subst p. simpl.
  generalize (H q I). intros. lra.
Qed.
Lemma wfdgm_scale c S : (0 <= c)%Q -> wfdgm S -> wfdgm (map (scaleQ c) S).
Proof.
  intros Hc H p I. apply in_map_iff in I. destruct I as [q [E I]]. subst p. simpl.
  generalize (H q I). intros. nra.
Qed.
Lemma wfdgm_pad Z S : on_diagQ Z -> wfdgm S -> wfdgm (Z ++ S).
Proof.
  intros D H p I. apply in_app_or in I. destruct I as [I|I]; [|apply H; exact I].
  unfold on_diagQ in D. rewrite Forall_forall in D. rewrite (D p I). apply Qle_refl.
Qed.
Lemma wfdgm_nil : wfdgm [].
Proof. intros p []. Qed.

Section TransferB.
  Variable bn : list qpoint -> list qpoint -> Q.
  Hypothesis bn_spec : forall S T, wfdgm S -> wfdgm T -> is_bottleneck S T (bn S T).

  Theorem B_transfer :
    (forall S T, wfdgm S -> wfdgm T -> bn S T == bn T S)%Q /\
    (forall S S', wfdgm S -> Permutation S S' -> bn S S' == 0)%Q /\
    (forall S T, wfdgm S -> wfdgm T -> 0 <= bn S T)%Q /\
    (forall A B C, wfdgm A -> wfdgm B -> wfdgm C -> bn A C <= bn A B + bn B C)%Q /\
    (forall S S' T T', wfdgm S -> wfdgm T -> Permutation S S' -> Permutation T T' -> bn S' T' == bn S T)%Q /\
    (forall Z1 Z2 S S' T T', wfdgm S -> wfdgm T -> on_diagQ Z1 -> on_diagQ Z2 ->
       Permutation S' (Z1 ++ S) -> Permutation T' (Z2 ++ T) -> bn S' T' == bn S T)%Q /\
    (forall c S T, wfdgm S -> wfdgm T -> bn (map (shiftQ c) S) (map (shiftQ c) T) == bn S T)%Q /\
    (forall c S T, (0 <= c)%Q -> wfdgm S -> wfdgm T ->
       bn (map (scaleQ c) S) (map (scaleQ c) T) == c * bn S T)%Q /\
    (forall S, wfdgm S -> bn S [] == maxl (map persQ S) * (1#2))%Q.
  Proof.
    repeat apply conj.
    - intros S T WS WT. apply (B_unique S T); [apply bn_spec; assumption|apply B_sym; apply bn_spec; assumption].
    - intros S S' WS Pm. apply (B_unique S S'); [apply bn_spec; [|eapply wfdgm_perm]; eassumption|apply B_perm_zero; exact Pm].
    - intros S T WS WT. apply (B_nonneg S T). apply bn_spec; assumption.
    - intros A B C WA WB WC. apply (B_triangle A B C); apply bn_spec; assumption.
    - intros S S' T T' WS WT PS PT. symmetry.
      apply (B_diag_padding [] [] S S' T T' (bn S T) (bn S' T') (Forall_nil _) (Forall_nil _));
        [symmetry; exact PS|symmetry; exact PT|apply bn_spec; assumption|].
      apply bn_spec; eapply wfdgm_perm; eassumption.
    - intros Z1 Z2 S S' T T' WS WT D1 D2 P1 P2. symmetry.
      apply (B_diag_padding Z1 Z2 S S' T T' (bn S T) (bn S' T') D1 D2 P1 P2); [apply bn_spec; assumption|].
      apply bn_spec; (eapply wfdgm_perm; [symmetry; eassumption|]); apply wfdgm_pad; assumption.
    - intros c S T WS WT. apply (B_unique (map (shiftQ c) S) (map (shiftQ c) T)).
      + apply bn_spec; apply wfdgm_shift; assumption.
      + apply B_translate. apply bn_spec; assumption.
    - intros c S T Hc WS WT. apply (B_unique (map (scaleQ c) S) (map (scaleQ c) T)).
      + apply bn_spec; apply wfdgm_scale; assumption.
      + apply B_scale; [exact Hc|]. apply bn_spec; assumption.
    - intros S WS. apply (B_unique S []); [apply bn_spec; [exact WS|apply wfdgm_nil]|apply B_empty].
  Qed.
End TransferB.

Theorem BW_transfer (bn : list qpoint -> list qpoint -> Q) (wn : list rpoint -> list rpoint -> R) :
  (forall S T, wfdgm S -> wfdgm T -> is_bottleneck S T (bn S T)) ->
  (forall S T, wfdgmR S -> wfdgmR T -> is_wasserstein S T (wn S T)) ->
  forall S T, wfdgm S -> wfdgm T -> Q2R (bn S T) <= wn (injR S) (injR T).
Proof.
  intros HB HW S T WS WT. apply (B_le_W S T _ _ WS WT (HB S T WS WT)).
  apply HW; apply wfdgm_injR; assumption.
Qed.
