(* Proofs about the bottleneck model (Model/BneckM.v): the binary search returns the least
   feasible threshold, and that threshold is the min-max cost over all partial matchings. *)
From Coq Require Import QArith Qminmax Qabs List Bool Arith Permutation Lia Sorted Lqa.
From Persim Require Import Spec.PartialMatching Spec.BottleneckS Lib.AugMatching Model.BneckM.
Import ListNotations.
Open Scope Q_scope.

(* ------------------------------------------------------------------ the order on costs *)

Definition cleP (a b : cost) : Prop := cle a b = true.

Lemma cle_refl a : cle a a = true.
Proof. destruct a; simpl; [apply Qle_bool_iff, Qle_refl|reflexivity]. Qed.

Lemma cle_trans a b c : cle a b = true -> cle b c = true -> cle a c = true.
Proof.
  destruct a, b, c; simpl; try congruence; rewrite ?Qle_bool_iff; intros; try reflexivity.
  eapply Qle_trans; eassumption.
Qed.

Lemma cle_total a b : cle a b = false -> cle b a = true.
Proof.
  destruct a, b; simpl; try congruence; intros H.
  apply Qle_bool_iff. destruct (Qlt_le_dec q0 q) as [L|L]; [apply Qlt_le_weak, L|].
  apply Qle_bool_iff in L. congruence.
Qed.

Lemma cle_fin x y : cle (CFin x) (CFin y) = true <-> x <= y.
Proof. simpl. apply Qle_bool_iff. Qed.

Lemma ceq_cle a b : ceq a b = true -> cle a b = true /\ cle b a = true.
Proof. unfold ceq. apply andb_true_iff. Qed.

(* ------------------------------------------------------------------ maxl *)

Lemma maxl_nonneg l : 0 <= maxl l.
Proof. induction l; simpl; [apply Qle_refl|]. eapply Qle_trans; [exact IHl|apply Q.le_max_r]. Qed.

Lemma maxl_ge l x : In x l -> x <= maxl l.
Proof.
  induction l; simpl; [tauto|]. intros [->|I]; [apply Q.le_max_l|].
  eapply Qle_trans; [apply IHl, I|apply Q.le_max_r].
Qed.

Lemma maxl_le l b : 0 <= b -> (forall x, In x l -> x <= b) -> maxl l <= b.
Proof.
  intros B. induction l; simpl; intros H; [exact B|].
  apply Q.max_lub; [apply H; now left|apply IHl; intros; apply H; now right].
Qed.

Lemma maxl_mono l l' : (forall x, In x l -> x <= maxl l') -> maxl l <= maxl l'.
Proof. intros H. apply maxl_le; [apply maxl_nonneg|exact H]. Qed.

(* ------------------------------------------------------------------ sorted unique thresholds *)

Lemma insc_inv x l z : In z (insc x l) -> z = x \/ In z l.
Proof.
  induction l as [|y r IH]; simpl.
  - intros [<-|[]]. now left.
  - destruct (ceq x y); [tauto|]. destruct (cle x y); simpl.
    + intros [<-|H]; tauto.
    + intros [<-|H]; [tauto|]. destruct (IH H); tauto.
Qed.

Lemma insc_has x l z : z = x \/ In z l -> exists y, In y (insc x l) /\ ceq z y = true.
Proof.
  assert (R : forall a, ceq a a = true) by (intros; unfold ceq; now rewrite cle_refl).
  induction l as [|y r IH]; simpl.
  - intros [->|[]]. exists x. split; [now left|apply R].
  - destruct (ceq x y) eqn:E.
    + intros [->|[->|I]].
      * exists y. split; [now left|exact E].
      * exists z. split; [now left|apply R].
      * exists z. split; [now right|apply R].
    + destruct (cle x y); simpl.
      * intros [->|[->|I]]; [exists x|exists z|exists z]; (split; [tauto|apply R]).
      * intros [->|[->|I]].
        -- destruct (IH (or_introl eq_refl)) as [w [Iw Ew]]. exists w. tauto.
        -- exists z. split; [now left|apply R].
        -- destruct (IH (or_intror I)) as [w [Iw Ew]]. exists w. tauto.
Qed.

Lemma insc_sorted x l : StronglySorted cleP l -> StronglySorted cleP (insc x l).
Proof.
  induction l as [|y r IH]; simpl; intros S.
  - constructor; constructor.
  - inversion S as [|? ? Sr Fy]; subst. destruct (ceq x y) eqn:E; [exact S|].
    destruct (cle x y) eqn:C.
    + constructor; [exact S|]. constructor; [exact C|].
      rewrite Forall_forall in *. intros z I. eapply cle_trans; [exact C|apply Fy, I].
    + constructor; [apply IH, Sr|]. rewrite Forall_forall in *. intros z I.
      destruct (insc_inv _ _ _ I) as [->|I']; [apply cle_total, C|apply Fy, I'].
Qed.

Lemma thresholds_sorted D : StronglySorted cleP (thresholds D).
Proof. unfold thresholds. induction (concat D); simpl; [constructor|apply insc_sorted, IHl]. Qed.

Lemma thresholds_has D z : In z (concat D) -> exists y, In y (thresholds D) /\ ceq z y = true.
Proof.
  unfold thresholds. induction (concat D) as [|a l IH]; simpl; [tauto|].
  intros [->|I].
  - apply insc_has. now left.
  - destruct (IH I) as [y [Iy Ey]].
    destruct (insc_has a (fold_right insc [] l) y (or_intror Iy)) as [w [Iw Ew]].
    exists w. split; [exact Iw|]. apply ceq_cle in Ey, Ew. unfold ceq.
    rewrite (cle_trans z y w), (cle_trans w y z); tauto.
Qed.

Lemma sorted_last l : StronglySorted cleP l -> forall x, In x l -> cle x (last l CInf) = true.
Proof.
  induction l as [|a r IH]; [simpl; tauto|]. intros S x I. inversion S as [|? ? Sr Fa]; subst.
  destruct r as [|b r'].
  - destruct I as [->|[]]. apply cle_refl.
  - change (last (a :: b :: r') CInf) with (last (b :: r') CInf).
    destruct I as [->|I]; [|apply IH; assumption].
    rewrite Forall_forall in Fa. eapply cle_trans; [apply Fa; now left|apply IH; [assumption|now left]].
Qed.

Lemma sorted_app_inv (a : list cost) d b :
  StronglySorted cleP (a ++ d :: b) ->
  StronglySorted cleP a /\ StronglySorted cleP b /\
  (forall x, In x a -> cle x d = true) /\ (forall x, In x b -> cle d x = true).
Proof.
  induction a as [|y a IH]; simpl; intros S.
  - inversion S as [|? ? Sr Fy]; subst. rewrite Forall_forall in Fy.
    split; [constructor|]. split; [exact Sr|]. split; [intros x []|exact Fy].
  - inversion S as [|? ? Sr Fy]; subst. destruct (IH Sr) as (A & B & C & E).
    rewrite Forall_forall in Fy. repeat split; auto.
    + constructor; [exact A|]. rewrite Forall_forall. intros z I. apply Fy. rewrite in_app_iff. now left.
    + intros x [->|I]; [|auto]. apply Fy. rewrite in_app_iff. right. now left.
Qed.

Lemma split_nth {A} (l : list A) idx dflt : (idx < length l)%nat ->
  l = firstn idx l ++ nth idx l dflt :: skipn (S idx) l.
Proof.
  revert idx. induction l as [|a l IH]; simpl; intros idx L; [lia|].
  destruct idx; simpl; [reflexivity|]. f_equal. apply IH. lia.
Qed.

Lemma last_app_cons {A} (a : list A) d b dflt : b <> [] -> last (a ++ d :: b) dflt = last b dflt.
Proof.
  intros NE. induction a as [|x a IH]; simpl.
  - destruct b; [congruence|reflexivity].
  - destruct (a ++ d :: b) eqn:E; [destruct a; discriminate|exact IH].
Qed.
Lemma last_app_single {A} (a : list A) d dflt : last (a ++ [d]) dflt = d.
Proof. induction a as [|x a IH]; simpl; [reflexivity|]. destruct (a ++ [d]) eqn:E; [destruct a; discriminate|exact IH]. Qed.

(* the maximum of a non-empty list of costs is attained *)
Lemma cmax_attained (l : list cost) : l <> [] -> exists x, In x l /\ forall y, In y l -> cle y x = true.
Proof.
  induction l as [|a r IH]; [congruence|]. intros _. destruct r as [|b r'].
  - exists a. split; [now left|]. intros y [->|[]]. apply cle_refl.
  - destruct IH as [x [Ix Hx]]; [discriminate|].
    destruct (cle a x) eqn:C.
    + exists x. split; [now right|]. intros y [->|I]; auto.
    + exists a. split; [now left|]. intros y [->|I]; [apply cle_refl|].
      eapply cle_trans; [apply Hx, I|apply cle_total, C].
Qed.

(* ------------------------------------------------------------------ threshold graphs *)

Lemma in_graph D d i j :
  In j (nth i (graph D d) []) <-> (j < length (nth i D []))%nat /\ cle (entry D i j) d = true.
Proof.
  unfold graph, entry.
  set (f := fun row : list cost => filter (fun j => cle (nth j row CInf) d) (seq 0 (length row))).
  change (@nil nat) with (f []). rewrite map_nth. unfold f.
  rewrite filter_In, in_seq. simpl. intuition lia.
Qed.

(* m is a perfect matching of the threshold graph of D at d *)
Definition good (D : list (list cost)) (d : cost) (m : matching) : Prop :=
  is_matching (graph D d) m /\ length m = length D.
Definition feas (D : list (list cost)) (d : cost) : Prop := exists m, good D d m.

Lemma good_mono D d d' m : cle d d' = true -> good D d m -> good D d' m.
Proof.
  intros C [(A & B & E) L]. split; [|exact L]. repeat split; auto.
  intros p I. specialize (E p I). apply in_graph in E. apply in_graph.
  split; [tauto|]. eapply cle_trans; [apply E|exact C].
Qed.
Lemma feas_mono D d d' : cle d d' = true -> feas D d -> feas D d'.
Proof. intros C [m G]. exists m. eapply good_mono; eassumption. Qed.

Lemma matching_rows_lt g m : is_matching g m -> forall p, In p m -> (fst p < length g)%nat.
Proof.
  intros (_ & _ & E) p I. specialize (E p I).
  destruct (Nat.lt_ge_cases (fst p) (length g)) as [L|L]; [exact L|].
  rewrite nth_overflow in E by exact L. destruct E.
Qed.

Lemma matching_length_le g m : is_matching g m -> (length m <= length g)%nat.
Proof.
  intros IM. pose proof IM as (A & _ & _).
  rewrite <- (map_length fst m), <- (seq_length (length g) 0).
  apply NoDup_incl_length; [exact A|]. intros i I. apply in_map_iff in I. destruct I as [p [<- I]].
  apply in_seq. pose proof (matching_rows_lt g m IM p I). lia.
Qed.

(* ------------------------------------------------------------------ the binary search *)

Section WithOracle.
  Variable oracle : list (list nat) -> matching.
  Hypothesis oracle_max : max_matching_oracle oracle.

  Definition ptest (D : list (list cost)) (d : cost) : bool :=
    (2 * length (oracle (graph D d)) =? 2 * length D)%nat.

  Lemma ptest_good D d : ptest D d = true -> good D d (oracle (graph D d)).
  Proof.
    unfold ptest. intros E. apply Nat.eqb_eq in E. split; [apply oracle_max|]. lia.
  Qed.

  Lemma feas_ptest D d : feas D d -> ptest D d = true.
  Proof.
    intros [m [IM L]]. unfold ptest. apply Nat.eqb_eq.
    destruct (oracle_max (graph D d)) as [IO MX].
    pose proof (MX m IM). pose proof (matching_length_le _ _ IO) as LE.
    unfold graph in LE at 2. rewrite map_length in LE. lia.
  Qed.

  Lemma bsearch_nil fuel D bdist mt : bsearch oracle fuel D [] bdist mt = Some (bdist, mt).
  Proof. destruct fuel; reflexivity. Qed.

  Lemma bsearch_step fuel D ds bdist mt : ds <> [] ->
    bsearch oracle (S fuel) D ds bdist mt =
    (let idx := if (1 <? length ds)%nat then (length ds / 2)%nat else O in
     let d := nth idx ds CInf in
     let res := oracle (graph D d) in
     if (ptest D d && cle d bdist)%bool
     then bsearch oracle fuel D (firstn idx ds) d res
     else bsearch oracle fuel D (skipn (S idx) ds) bdist mt).
  Proof. destruct ds; [congruence|reflexivity]. Qed.

  Lemma idx_lt (ds : list cost) : ds <> [] ->
    ((if (1 <? length ds)%nat then (length ds / 2)%nat else O) < length ds)%nat.
  Proof.
    intros NE. destruct (1 <? length ds)%nat eqn:E.
    - apply Nat.ltb_lt in E. apply Nat.div_lt; lia.
    - destruct ds; [congruence|simpl; lia].
  Qed.

  (* the while loop returns the least feasible threshold, with a perfect matching of its graph *)
  Lemma bsearch_spec D : forall fuel ds bdist mt,
    (length ds < fuel)%nat -> StronglySorted cleP ds ->
    (forall x, In x ds -> cle x bdist = true) ->
    (good D bdist mt \/ (ds <> [] /\ feas D (last ds CInf))) ->
    exists b mt', bsearch oracle fuel D ds bdist mt = Some (b, mt') /\ good D b mt' /\
                  cle b bdist = true /\ (b = bdist \/ In b ds) /\
                  (forall x, In x ds -> feas D x -> cle b x = true).
  Proof.
    induction fuel as [|f IH]; intros ds bdist mt LF SS UB J; [lia|].
    destruct ds as [|a0 r0].
    - rewrite bsearch_nil. exists bdist, mt. destruct J as [G|[NE _]]; [|congruence].
      split; [reflexivity|]. split; [exact G|]. split; [apply cle_refl|]. split; [now left|]. intros x [].
    - remember (a0 :: r0) as ds eqn:Eds. assert (NE : ds <> []) by (subst; discriminate).
      rewrite bsearch_step by exact NE. cbv zeta.
      pose proof (idx_lt ds NE) as IL.
      remember (if (1 <? length ds)%nat then (length ds / 2)%nat else 0%nat) as idx eqn:Eidx.
      pose proof (split_nth ds idx CInf IL) as SP.
      assert (LL : (length (firstn idx ds) < f)%nat) by (rewrite firstn_length; lia).
      assert (LR : (length (skipn (S idx) ds) < f)%nat) by (rewrite skipn_length; lia).
      remember (firstn idx ds) as L eqn:EL. remember (skipn (S idx) ds) as R eqn:ER.
      remember (nth idx ds CInf) as d eqn:Ed.
      assert (SS' := SS). rewrite SP in SS'. apply sorted_app_inv in SS'. destruct SS' as (SL & SR & HL & HR).
      assert (Id : In d ds) by (rewrite SP, in_app_iff; right; now left).
      assert (Cd : cle d bdist = true) by (apply UB, Id).
      rewrite Cd, andb_true_r.
      destruct (ptest D d) eqn:PT.
      + pose proof (ptest_good D d PT) as G.
        destruct (IH L d (oracle (graph D d)) LL SL HL (or_introl G)) as (b & mt' & EQ & Gb & Cb & Mb & LB).
        exists b, mt'. split; [exact EQ|]. split; [exact Gb|]. split; [eapply cle_trans; eauto|]. split.
        * right. destruct Mb as [->|I]; [exact Id|]. rewrite SP, in_app_iff. now left.
        * intros x I F. rewrite SP in I. apply in_app_iff in I. destruct I as [I|[<-|I]].
          -- apply LB; assumption.
          -- exact Cb.
          -- eapply cle_trans; [exact Cb|apply HR, I].
      + assert (NF : ~ feas D d) by (intros F; apply feas_ptest in F; congruence).
        assert (UB' : forall x, In x R -> cle x bdist = true).
        { intros x I. apply UB. rewrite SP, in_app_iff. right; now right. }
        assert (J' : good D bdist mt \/ (R <> [] /\ feas D (last R CInf))).
        { destruct J as [G|[_ F]]; [now left|]. right. rewrite SP in F.
          destruct R as [|r1 R'].
          - rewrite last_app_single in F. contradiction.
          - split; [discriminate|]. rewrite last_app_cons in F by discriminate. exact F. }
        destruct (IH R bdist mt LR SR UB' J') as (b & mt' & EQ & Gb & Cb & Mb & LB).
        exists b, mt'. split; [exact EQ|]. split; [exact Gb|]. split; [exact Cb|]. split.
        * destruct Mb as [->|I]; [now left|]. right. rewrite SP, in_app_iff. right; now right.
        * intros x I F. rewrite SP in I. apply in_app_iff in I. destruct I as [I|[<-|I]].
          -- exfalso. apply NF. eapply feas_mono; [apply HL, I|exact F].
          -- contradiction.
          -- apply LB; assumption.
  Qed.
End WithOracle.

(* ------------------------------------------------------------------ the augmented matrix *)

Lemma nth_wf (S : list qpoint) i : wfdgm S -> fst (nth i S (0, 0)) <= snd (nth i S (0, 0)).
Proof. intros W. destruct (nth_in_or_default i S (0, 0)) as [I | ->]; [apply W, I|simpl; lra]. Qed.

Lemma linf_nonneg p q : 0 <= linf p q.
Proof. unfold linf. eapply Qle_trans; [apply Qabs_nonneg|apply Q.le_max_l]. Qed.

Section Aug.
  Variables (S T : list qpoint).
  Notation M := (length S).
  Notation N := (length T).
  Notation K := (length S + length T)%nat.
  Notation D := (aug S T).
  Notation cell := (aug_cell S T).

  Lemma aug_length : length D = K.
  Proof. unfold aug. now rewrite map_length, seq_length. Qed.

  Lemma aug_row i : (i < K)%nat -> nth i D [] = map (fun j => cell (i, j)) (seq 0 K).
  Proof.
    intros L. unfold aug.
    set (f := fun i => map (fun j => cell (i, j)) (seq 0 K)).
    rewrite (nth_indep _ [] (f O)) by (now rewrite map_length, seq_length).
    rewrite map_nth, seq_nth by exact L. reflexivity.
  Qed.

  Lemma aug_row_length i : (i < K)%nat -> length (nth i D []) = K.
  Proof. intros L. now rewrite aug_row, map_length, seq_length. Qed.

  Lemma entry_aug i j : (i < K)%nat -> (j < K)%nat -> entry D i j = cell (i, j).
  Proof.
    intros Li Lj. unfold entry. rewrite aug_row by exact Li.
    set (g := fun j => cell (i, j)).
    rewrite (nth_indep _ CInf (g O)) by (now rewrite map_length, seq_length).
    rewrite map_nth, seq_nth by exact Lj. reflexivity.
  Qed.

  Lemma cell_in_concat i j : (i < K)%nat -> (j < K)%nat -> In (cell (i, j)) (concat D).
  Proof.
    intros Li Lj. rewrite <- entry_aug by assumption. apply in_concat. exists (nth i D []). split.
    - apply nth_In. now rewrite aug_length.
    - unfold entry. apply nth_In. now rewrite aug_row_length.
  Qed.

  Definition cpairF (p q : qpoint) : cost := CFin (linf p q).
  Definition cdiagF (p : qpoint) : cost := CFin (diagB p).

  Lemma pm_costs_fin m : pm_costs cpairF cdiagF (0, 0) S T m = map CFin (bcosts S T m).
  Proof. unfold bcosts, pm_costs. now rewrite !map_app, !map_map. Qed.

  Lemma cell_ul i j : (i < M)%nat -> (j < N)%nat -> cell (i, j) = cpairF (nth i S (0, 0)) (nth j T (0, 0)).
  Proof. intros A B. unfold aug_cell. simpl. apply Nat.ltb_lt in A, B. now rewrite A, B. Qed.
  Lemma cell_ur i : (i < M)%nat -> cell (i, (N + i)%nat) = cdiagF (nth i S (0, 0)).
  Proof.
    intros A. unfold aug_cell. simpl. apply Nat.ltb_lt in A. rewrite A.
    assert (B : (N + i <? N)%nat = false) by (apply Nat.ltb_ge; lia).
    assert (C : (N + i - N =? i)%nat = true) by (apply Nat.eqb_eq; lia). now rewrite B, C.
  Qed.
  Lemma cell_ll j : (j < N)%nat -> cell ((M + j)%nat, j) = cdiagF (nth j T (0, 0)).
  Proof.
    intros A. unfold aug_cell. simpl. apply Nat.ltb_lt in A. rewrite A.
    assert (B : (M + j <? M)%nat = false) by (apply Nat.ltb_ge; lia).
    assert (C : (M + j - M =? j)%nat = true) by (apply Nat.eqb_eq; lia). now rewrite B, C.
  Qed.
  Lemma cell_lr i j : (M <= i)%nat -> (N <= j)%nat -> cell (i, j) = CFin 0.
  Proof. intros A B. unfold aug_cell. simpl. apply Nat.ltb_ge in A, B. now rewrite A, B. Qed.

  Lemma forbidden_inf c : forbidden M N c = true -> cell c = CInf.
  Proof.
    destruct c as [i j]. unfold forbidden, aug_cell. simpl.
    destruct (Nat.ltb_spec i M), (Nat.ltb_spec j N), (Nat.leb_spec N j), (Nat.leb_spec M i); try lia; simpl;
      rewrite ?andb_false_r; simpl; try discriminate.
    - destruct (j - N =? i)%nat; simpl; [discriminate|reflexivity].
    - destruct (i - M =? j)%nat; simpl; [discriminate|reflexivity].
  Qed.

  Lemma cell_nonneg c x : wfdgm S -> wfdgm T -> cell c = CFin x -> 0 <= x.
  Proof.
    intros WS WT. unfold aug_cell.
    pose proof (nth_wf S (fst c) WS). pose proof (nth_wf T (snd c) WT).
    destruct (fst c <? M)%nat, (snd c <? N)%nat.
    - intros E. injection E as <-. apply linf_nonneg.
    - destruct (snd c - N =? fst c)%nat; [|discriminate]. intros E. injection E as <-. unfold diagB. lra.
    - destruct (fst c - M =? snd c)%nat; [|discriminate]. intros E. injection E as <-. unfold diagB. lra.
    - intros E. injection E as <-. lra.
  Qed.

  Lemma perfect_good E d : perfect_on K E -> (forall p, In p E -> cle (cell p) d = true) -> good D d E.
  Proof.
    intros [PF PS] H.
    assert (B : forall p, In p E -> (fst p < K)%nat /\ (snd p < K)%nat).
    { intros p I. split.
      - assert (J : In (fst p) (seq 0 K)) by (apply (Permutation_in _ PF); now apply in_map). apply in_seq in J. lia.
      - assert (J : In (snd p) (seq 0 K)) by (apply (Permutation_in _ PS); now apply in_map). apply in_seq in J. lia. }
    split.
    - split; [apply (Permutation_NoDup (Permutation_sym PF)), seq_NoDup|].
      split; [apply (Permutation_NoDup (Permutation_sym PS)), seq_NoDup|].
      intros p I. destruct (B p I) as [Bi Bj]. apply in_graph. rewrite aug_row_length by exact Bi.
      split; [exact Bj|]. rewrite entry_aug by assumption. destruct p. apply H, I.
    - rewrite aug_length. apply Permutation_length in PF. now rewrite map_length, seq_length in PF.
  Qed.

  Lemma good_perfect E d : good D d E -> perfect_on K E /\ forall p, In p E -> cle (cell p) d = true.
  Proof.
    intros [IM L]. pose proof IM as (A & B & G). rewrite aug_length in L.
    assert (R : forall p, In p E -> (fst p < K)%nat).
    { intros p I. pose proof (matching_rows_lt _ _ IM p I) as H. unfold graph in H.
      now rewrite map_length, aug_length in H. }
    assert (C : forall p, In p E -> (snd p < K)%nat /\ cle (cell p) d = true).
    { intros p I. pose proof (G p I) as H. apply in_graph in H. rewrite aug_row_length in H by (apply R, I).
      destruct H as [H1 H2]. rewrite entry_aug in H2 by (try apply R; assumption). destruct p. tauto. }
    split; [|intros p I; apply C, I]. split.
    - apply NoDup_Permutation_bis; [exact A|now rewrite seq_length, map_length, L|].
      intros i I. apply in_map_iff in I. destruct I as [p [<- I]]. apply in_seq. specialize (R p I). lia.
    - apply NoDup_Permutation_bis; [exact B|now rewrite seq_length, map_length, L|].
      intros i I. apply in_map_iff in I. destruct I as [p [<- I]]. apply in_seq. destruct (C p I). lia.
  Qed.

  (* lower bound: the cost of any valid partial matching dominates a feasible threshold *)
  Lemma lower m : (0 < K)%nat -> valid_pm M N m ->
    exists y, In y (thresholds D) /\ feas D y /\ cle y (CFin (bcost S T m)) = true.
  Proof.
    intros KP V.
    pose proof (extend_perfect M N m V) as PE.
    pose proof (costs_extend cpairF cdiagF (0, 0) (CFin 0) S T cell cell_ul cell_ur cell_ll cell_lr m V) as P.
    rewrite pm_costs_fin in P.
    set (E := extend M N m) in *.
    assert (LE : length E = K).
    { destruct PE as [PF _]. apply Permutation_length in PF. now rewrite map_length, seq_length in PF. }
    destruct (cmax_attained (map cell E)) as [x [Ix Hx]].
    { intros Z. apply (f_equal (@length _)) in Z. rewrite map_length, LE in Z. simpl in Z. lia. }
    apply in_map_iff in Ix. destruct Ix as [p [<- Ip]].
    assert (Bp : (fst p < K)%nat /\ (snd p < K)%nat).
    { destruct PE as [PF PS]. split.
      - assert (J : In (fst p) (seq 0 K)) by (apply (Permutation_in _ PF); now apply in_map). apply in_seq in J. lia.
      - assert (J : In (snd p) (seq 0 K)) by (apply (Permutation_in _ PS); now apply in_map). apply in_seq in J. lia. }
    destruct (thresholds_has D (cell p)) as [y [Iy Ey]].
    { destruct p. apply cell_in_concat; tauto. }
    apply ceq_cle in Ey. destruct Ey as [E1 E2].
    exists y. split; [exact Iy|]. split.
    - exists E. apply perfect_good; [exact PE|]. intros q Iq.
      eapply cle_trans; [apply Hx; now apply in_map|exact E1].
    - eapply cle_trans; [exact E2|].
      assert (J : In (cell p) (map CFin (bcosts S T m) ++ repeat (CFin 0) (length m))).
      { apply (Permutation_in _ P). now apply in_map. }
      apply in_app_iff in J. destruct J as [J|J].
      + apply in_map_iff in J. destruct J as [c [<- Ic]]. apply cle_fin. apply maxl_ge, Ic.
      + apply repeat_spec in J. rewrite J. apply cle_fin. apply maxl_nonneg.
  Qed.

  (* upper bound: a perfect matching of the threshold graph at v restricts to a partial matching of cost <= v *)
  Lemma upper v mt : (0 < K)%nat -> wfdgm S -> wfdgm T -> good D (CFin v) mt ->
    valid_pm M N (restrict M N mt) /\ bcost S T (restrict M N mt) <= v.
  Proof.
    intros KP WS WT G. destruct (good_perfect _ _ G) as [PE H].
    assert (AV : avoids M N mt).
    { intros c I. destruct (forbidden M N c) eqn:F; [|reflexivity].
      specialize (H c I). rewrite (forbidden_inf c F) in H. discriminate. }
    split; [apply restrict_valid, PE|].
    pose proof (costs_restrict cpairF cdiagF (0, 0) (CFin 0) S T cell cell_ul cell_ur cell_ll cell_lr mt PE AV) as P.
    rewrite pm_costs_fin in P.
    assert (V0 : 0 <= v).
    { destruct mt as [|p mt'].
      - destruct PE as [PF _]. apply Permutation_length in PF. rewrite seq_length in PF. simpl in PF. lia.
      - pose proof (H p (or_introl eq_refl)) as Hp. destruct (cell p) as [x|] eqn:Cp; [|discriminate].
        apply cle_fin in Hp. pose proof (cell_nonneg p x WS WT Cp). lra. }
    unfold bcost. apply maxl_le; [exact V0|]. intros x Ix.
    assert (J : In (CFin x) (map cell mt)).
    { apply (Permutation_in _ (Permutation_sym P)). apply in_app_iff. left. now apply in_map. }
    apply in_map_iff in J. destruct J as [p [Ep Ip]]. specialize (H p Ip). rewrite Ep in H.
    now apply cle_fin.
  Qed.

  Lemma idm_perfect : perfect_on K (map (fun i => (i, i)) (seq 0 K)).
  Proof. split; rewrite map_map; simpl; rewrite map_id; apply Permutation_refl. Qed.

  Section Run.
    Variable oracle : list (list nat) -> matching.
    Hypothesis oracle_max : max_matching_oracle oracle.

    Theorem search_correct : (0 < K)%nat -> wfdgm S -> wfdgm T ->
      exists v mt, search oracle S T = Some (CFin v, mt) /\ good D (CFin v) mt /\
                   is_bottleneck S T v /\ bcost S T (restrict M N mt) == v.
    Proof.
      intros KP WS WT. unfold search.
      set (ds := thresholds D).
      assert (NE : ds <> []).
      { destruct (thresholds_has D (cell (O, O))) as [y [Iy _]]; [apply cell_in_concat; lia|].
        intros Z. fold ds in Iy. rewrite Z in Iy. destruct Iy. }
      assert (FL : feas D (last ds CInf)).
      { exists (map (fun i => (i, i)) (seq 0 K)). apply perfect_good; [apply idm_perfect|].
        intros p I. apply in_map_iff in I. destruct I as [i [<- I]]. apply in_seq in I.
        destruct (thresholds_has D (cell (i, i))) as [y [Iy Ey]]; [apply cell_in_concat; lia|].
        apply ceq_cle in Ey. eapply cle_trans; [apply Ey|]. apply sorted_last; [apply thresholds_sorted|exact Iy]. }
      destruct (bsearch_spec oracle oracle_max D (Datatypes.S (length ds)) ds (last ds CInf) [])
        as (b & mt & EQ & Gb & _ & _ & LB).
      { lia. } { apply thresholds_sorted. } { apply sorted_last, thresholds_sorted. } { right. split; assumption. }
      assert (LOW : forall m, valid_pm M N m -> cle b (CFin (bcost S T m)) = true).
      { intros m V. destruct (lower m KP V) as [y [Iy [Fy Cy]]].
        eapply cle_trans; [apply LB; eassumption|exact Cy]. }
      assert (V0 : valid_pm M N []).
      { split; [constructor|]. split; [constructor|]. intros p []. }
      destruct b as [v|]; [|specialize (LOW [] V0); discriminate].
      exists v, mt. split; [exact EQ|]. split; [exact Gb|].
      destruct (upper v mt KP WS WT Gb) as [Vm Um].
      assert (EQv : bcost S T (restrict M N mt) == v).
      { apply Qle_antisym; [exact Um|]. apply cle_fin. apply LOW, Vm. }
      split; [|exact EQv]. split.
      - exists (restrict M N mt). split; [exact Vm|exact EQv].
      - intros m V. apply cle_fin. apply LOW, V.
    Qed.
  End Run.
End Aug.

(* ------------------------------------------------------------------ diagonal points are neutral *)

Lemma in_bcosts S T m x : In x (bcosts S T m) <->
  (exists p, In p m /\ x = linf (nth (fst p) S (0, 0)) (nth (snd p) T (0, 0))) \/
  (exists i, (i < length S)%nat /\ ~ In i (map fst m) /\ x = diagB (nth i S (0, 0))) \/
  (exists j, (j < length T)%nat /\ ~ In j (map snd m) /\ x = diagB (nth j T (0, 0))).
Proof.
  unfold bcosts, pm_costs, unmatched_l, unmatched_r. rewrite !in_app_iff, !in_map_iff. split.
  - intros [[p [E I]]|[[i [E I]]|[j [E I]]]].
    + left. exists p. split; [exact I|now symmetry].
    + right. left. apply unmatched_In in I. exists i. repeat split; try tauto. now symmetry.
    + right. right. apply unmatched_In in I. exists j. repeat split; try tauto. now symmetry.
  - intros [[p [I E]]|[[i [L [NI E]]]|[j [L [NI E]]]]].
    + left. exists p. split; [now symmetry|exact I].
    + right. left. exists i. split; [now symmetry|]. apply unmatched_In. tauto.
    + right. right. exists j. split; [now symmetry|]. apply unmatched_In. tauto.
Qed.

Lemma diag_le_linf x q : diagB q <= linf (x, x) q.
Proof.
  unfold diagB, linf. cbn [fst snd].
  pose proof (Qle_Qabs (x - fst q)) as A.
  pose proof (Qle_Qabs (snd q - x)) as B. rewrite (Qabs_Qminus (snd q) x) in B.
  pose proof (Q.le_max_l (Qabs (x - fst q)) (Qabs (x - snd q))).
  pose proof (Q.le_max_r (Qabs (x - fst q)) (Qabs (x - snd q))).
  lra.
Qed.

Lemma linf_sym_le p q : linf q p <= linf p q.
Proof.
  unfold linf. apply Q.max_lub.
  - rewrite Qabs_Qminus. apply Q.le_max_l.
  - rewrite Qabs_Qminus. apply Q.le_max_r.
Qed.

Section DiagNeutral.
  Variables (S T : list qpoint) (x : Q).
  Notation S' := (S ++ [(x, x)]).
  Notation M := (length S).

  Lemma nth_app_old i : (i < M)%nat -> nth i S' (0, 0) = nth i S (0, 0).
  Proof. intros L. now apply app_nth1. Qed.
  Lemma nth_app_new : nth M S' (0, 0) = (x, x).
  Proof. rewrite app_nth2 by lia. now rewrite Nat.sub_diag. Qed.

  Lemma valid_weaken m : valid_for S T m -> valid_for S' T m.
  Proof.
    intros (A & B & C). repeat split; auto; rewrite ?app_length; simpl; destruct (C p H); try lia.
  Qed.

  Lemma bcost_app_same m : valid_for S T m -> bcost S' T m == bcost S T m.
  Proof.
    intros V. pose proof V as (_ & _ & B). unfold bcost. apply Qle_antisym; apply maxl_mono; intros y I.
    - apply in_bcosts in I. destruct I as [[p [Ip E]]|[[i [L [NI E]]]|[j [L [NI E]]]]].
      + apply maxl_ge, in_bcosts. left. exists p. split; [exact Ip|].
        rewrite nth_app_old in E by (apply B, Ip). exact E.
      + rewrite app_length in L. simpl in L.
        destruct (Nat.eq_dec i M) as [->|NE].
        * rewrite nth_app_new in E. subst y. unfold diagB. simpl.
          pose proof (maxl_nonneg (bcosts S T m)). lra.
        * apply maxl_ge, in_bcosts. right. left. exists i. rewrite nth_app_old in E by lia.
          repeat split; [lia|exact NI|exact E].
      + apply maxl_ge, in_bcosts. right. right. exists j. tauto.
    - apply in_bcosts in I. destruct I as [[p [Ip E]]|[[i [L [NI E]]]|[j [L [NI E]]]]].
      + apply maxl_ge, in_bcosts. left. exists p. split; [exact Ip|].
        rewrite nth_app_old by (apply B, Ip). exact E.
      + apply maxl_ge, in_bcosts. right. left. exists i. rewrite nth_app_old by lia.
        repeat split; [rewrite app_length; simpl; lia|exact NI|exact E].
      + apply maxl_ge, in_bcosts. right. right. exists j. tauto.
  Qed.

  Definition drop_new (m : pmatching) : pmatching := filter (fun p => (fst p <? M)%nat) m.

  Lemma drop_new_valid m : valid_for S' T m -> valid_for S T (drop_new m).
  Proof.
    intros (A & B & C). unfold drop_new. repeat split.
    - apply NoDup_map_filter, A.
    - apply NoDup_map_filter, B.
    - apply filter_In in H. destruct H as [_ H]. now apply Nat.ltb_lt.
    - apply filter_In in H. destruct H as [H _]. apply C, H.
  Qed.

  Lemma drop_new_cost m : valid_for S' T m -> bcost S T (drop_new m) <= bcost S' T m.
  Proof.
    intros (A & B & C). unfold bcost. apply maxl_mono. intros y I.
    apply in_bcosts in I. destruct I as [[p [Ip E]]|[[i [L [NI E]]]|[j [L [NI E]]]]].
    - apply filter_In in Ip. destruct Ip as [Ip Lp]. apply Nat.ltb_lt in Lp.
      apply maxl_ge, in_bcosts. left. exists p. split; [exact Ip|]. now rewrite nth_app_old.
    - apply maxl_ge, in_bcosts. right. left. exists i. rewrite nth_app_old by exact L.
      repeat split; [rewrite app_length; simpl; lia| |exact E].
      intros J. apply NI. apply in_map_iff in J. destruct J as [p [Ep Ip]]. apply in_map_iff.
      exists p. split; [exact Ep|]. apply filter_In. split; [exact Ip|]. apply Nat.ltb_lt. now rewrite Ep.
    - destruct (in_dec Nat.eq_dec j (map snd m)) as [J|J].
      + apply in_map_iff in J. destruct J as [p [Ep Ip]].
        assert (FM : fst p = M).
        { destruct (C p Ip) as [C1 _]. rewrite app_length in C1. simpl in C1.
          destruct (Nat.lt_ge_cases (fst p) M) as [Lt|Ge]; [|lia]. exfalso. apply NI.
          apply in_map_iff. exists p. split; [exact Ep|]. apply filter_In. split; [exact Ip|].
          now apply Nat.ltb_lt. }
        eapply Qle_trans; [|apply maxl_ge, in_bcosts; left; exists p; split; [exact Ip|reflexivity]].
        rewrite FM, nth_app_new, Ep. subst y. apply diag_le_linf.
      + apply maxl_ge, in_bcosts. right. right. exists j. tauto.
  Qed.

  Lemma diag_neutral_l v : is_bottleneck S' T v <-> is_bottleneck S T v.
  Proof.
    split; intros [[m [V E]] MIN].
    - assert (MIN' : forall m, valid_for S T m -> v <= bcost S T m).
      { intros m0 V0. rewrite <- (bcost_app_same m0 V0). apply MIN, valid_weaken, V0. }
      split; [|exact MIN'].
      exists (drop_new m). split; [apply drop_new_valid, V|].
      apply Qle_antisym; [|apply MIN', drop_new_valid, V].
      rewrite <- E. apply drop_new_cost, V.
    - split.
      + exists m. split; [apply valid_weaken, V|]. now rewrite (bcost_app_same m V).
      + intros m0 V0. eapply Qle_trans; [apply MIN, drop_new_valid, V0|apply drop_new_cost, V0].
  Qed.
End DiagNeutral.

Definition swapm (m : pmatching) : pmatching := map (fun p => (snd p, fst p)) m.

Lemma swapm_valid {P} (S T : list P) m : valid_for S T m -> valid_for T S (swapm m).
Proof.
  intros (A & B & C). unfold swapm, valid_for, valid_pm. rewrite !map_map. simpl.
  split; [exact B|]. split; [exact A|]. intros p I. apply in_map_iff in I.
  destruct I as [q [<- I]]. simpl. destruct (C q I). tauto.
Qed.

Lemma swapm_cost_le S T m : bcost T S (swapm m) <= bcost S T m.
Proof.
  unfold bcost. apply maxl_mono. intros y I. apply in_bcosts in I.
  unfold swapm in I. rewrite !map_map in I. simpl in I.
  destruct I as [[p [Ip E]]|[[i [L [NI E]]]|[j [L [NI E]]]]].
  - apply in_map_iff in Ip. destruct Ip as [q [<- Iq]]. simpl in E. subst y.
    eapply Qle_trans; [apply linf_sym_le|]. apply maxl_ge, in_bcosts. left. exists q. tauto.
  - apply maxl_ge, in_bcosts. right. right. exists i. tauto.
  - apply maxl_ge, in_bcosts. right. left. exists j. tauto.
Qed.

Lemma swapm_invol m : swapm (swapm m) = m.
Proof. unfold swapm. rewrite map_map. simpl. rewrite <- (map_id m) at 2. apply map_ext. now intros []. Qed.

Lemma bottleneck_sym_imp S T v : is_bottleneck S T v -> is_bottleneck T S v.
Proof.
  intros [[m [V E]] MIN].
  assert (MIN' : forall m0, valid_for T S m0 -> v <= bcost T S m0).
  { intros m0 V0. eapply Qle_trans; [apply MIN, (swapm_valid T S m0 V0)|].
    apply swapm_cost_le. }
  split; [|exact MIN']. exists (swapm m). split; [apply swapm_valid, V|].
  apply Qle_antisym; [|apply MIN', swapm_valid, V]. rewrite <- E. apply swapm_cost_le.
Qed.

Lemma diag_neutral_r S T x v : is_bottleneck S (T ++ [(x, x)]) v <-> is_bottleneck S T v.
Proof.
  split; intros H.
  - apply bottleneck_sym_imp. apply (diag_neutral_l T S x v). apply bottleneck_sym_imp, H.
  - apply bottleneck_sym_imp. apply (diag_neutral_l T S x v). apply bottleneck_sym_imp, H.
Qed.

Theorem diag_point_neutral_both S T x v :
  (is_bottleneck (S ++ [(x, x)]) T v <-> is_bottleneck S T v) /\
  (is_bottleneck S (T ++ [(x, x)]) v <-> is_bottleneck S T v).
Proof. split; [apply diag_neutral_l|apply diag_neutral_r]. Qed.

Lemma prep_neutral S T v : is_bottleneck (prep S) (prep T) v <-> is_bottleneck S T v.
Proof.
  destruct S as [|p S], T as [|q T]; simpl.
  - rewrite (diag_neutral_l [] [(0, 0)] 0 v). apply (diag_neutral_r [] [] 0 v).
  - apply (diag_neutral_l [] (q :: T) 0 v).
  - apply (diag_neutral_r (p :: S) [] 0 v).
  - reflexivity.
Qed.

Lemma prep_wf S : wfdgm S -> wfdgm (prep S).
Proof. destruct S; simpl; [|auto]. intros _ p [<-|[]]. simpl. lra. Qed.
Lemma prep_pos S : (0 < length (prep S))%nat.
Proof. destruct S; simpl; lia. Qed.

(* ------------------------------------------------------------------ the headline theorem *)

Theorem bottleneck_model_correct oracle : max_matching_oracle oracle ->
  forall S T : list xpoint, wfdgm (finite S) -> wfdgm (finite T) ->
  exists v, bottleneck_model oracle S T = Some (CFin v) /\ is_bottleneck (finite S) (finite T) v.
Proof.
  intros OM S T WS WT. unfold bottleneck_model.
  destruct (search_correct (prep (finite S)) (prep (finite T)) oracle OM) as (v & mt & EQ & _ & IB & _).
  - pose proof (prep_pos (finite S)). lia.
  - apply prep_wf, WS.
  - apply prep_wf, WT.
  - exists v. rewrite EQ. split; [reflexivity|]. apply prep_neutral, IB.
Qed.

(* the value is unique, so two runs (two oracles, two hash seeds) return equal numbers *)
Lemma is_bottleneck_unique S T v w : is_bottleneck S T v -> is_bottleneck S T w -> v == w.
Proof.
  intros [[m [V E]] MIN] [[m' [V' E']] MIN']. apply Qle_antisym.
  - rewrite <- E'. apply MIN, V'.
  - rewrite <- E. apply MIN', V.
Qed.

Lemma infinite_deaths_ignored oracle (S T : list xpoint) b :
  bottleneck_model oracle ((b, CInf) :: S) T = bottleneck_model oracle S T /\
  bottleneck_model oracle S ((b, CInf) :: T) = bottleneck_model oracle S T.
Proof. split; reflexivity. Qed.

Lemma oracle_independent o1 o2 : max_matching_oracle o1 -> max_matching_oracle o2 ->
  forall S T : list xpoint, wfdgm (finite S) -> wfdgm (finite T) ->
  exists v w, bottleneck_model o1 S T = Some (CFin v) /\ bottleneck_model o2 S T = Some (CFin w) /\ v == w.
Proof.
  intros H1 H2 S T WS WT.
  destruct (bottleneck_model_correct o1 H1 S T WS WT) as (v & E1 & B1).
  destruct (bottleneck_model_correct o2 H2 S T WS WT) as (w & E2 & B2).
  exists v, w. repeat split; auto. exact (is_bottleneck_unique _ _ _ _ B1 B2).
Qed.
