(* k-th largest entry of a finite list of reals, counted with multiplicity (port of Lib/Kth.v to R):
   kthR l k = nth (k-1) of the descending sort, default 0;  kthR_ex:  v < kthR l k <-> k <= exR l v. *)
From Coq Require Import Reals Lra List Bool Arith Lia Permutation.
From Persim Require Import Spec.LandscapeRealS Proofs.SweepRealLib.
Import ListNotations.
Open Scope R_scope.

Fixpoint insR (x : R) (l : list R) : list R :=
  match l with [] => [x] | y :: r => if Rle_dec x y then y :: insR x r else x :: l end.
Definition sort_descR (l : list R) : list R := fold_right insR [] l.
Definition kthR (l : list R) (k : nat) : R := nth (k - 1) (sort_descR l) 0.

Lemma insR_perm x l : Permutation (x :: l) (insR x l).
Proof. induction l as [|y r IH]; simpl; auto. destruct (Rle_dec x y); auto.
  eapply perm_trans. apply perm_swap. apply perm_skip. exact IH. Qed.
Lemma sort_descR_perm l : Permutation l (sort_descR l).
Proof. induction l; simpl; auto. eapply perm_trans. apply perm_skip. exact IHl. apply insR_perm. Qed.

Inductive descR : list R -> Prop :=
| descR_nil : descR []
| descR_cons x l : descR l -> (forall y, In y l -> y <= x) -> descR (x :: l).
Lemma insR_desc x l : descR l -> descR (insR x l).
Proof. induction 1 as [|y r D IH Hy]; simpl.
  - constructor. constructor. intros ? [].
  - destruct (Rle_dec x y) as [E|E].
    + constructor; auto. intros z Hz. apply (Permutation_in _ (Permutation_sym (insR_perm x r))) in Hz.
      destruct Hz; subst; auto.
    + constructor. constructor; auto. intros z [Hz|Hz]; subst. lra. specialize (Hy _ Hz). lra. Qed.
Lemma sort_descR_desc l : descR (sort_descR l).
Proof. induction l; simpl. constructor. apply insR_desc; auto. Qed.

Lemma descR_nth_ex s : descR s -> forall k v, 0 <= v -> (v < nth k s 0 <-> (k < exR s v)%nat).
Proof. induction 1 as [|x l D IH Hx]; intros k v Hv.
  - unfold exR. simpl. destruct k; simpl; split; intro; try lra; lia.
  - rewrite exR_cons. destruct (gtb v x) eqn:E.
    + apply gtb_true in E. destruct k; simpl. split; intro; auto; lia. rewrite IH by auto. lia.
    + apply gtb_false in E. rewrite exR_all_le by (intros y Hy; specialize (Hx y Hy); lra).
      split; [|lia]. intro H. exfalso. destruct k; simpl in H. lra.
      destruct (nth_in_or_default k l 0) as [I|I]. specialize (Hx _ I). lra. rewrite I in H. lra. Qed.

Lemma kthR_ex l k v : (1 <= k)%nat -> 0 <= v -> (v < kthR l k <-> (k <= exR l v)%nat).
Proof. intros Hk Hv. unfold kthR. rewrite (descR_nth_ex _ (sort_descR_desc l)) by auto.
  rewrite <- (exR_perm _ _ v (sort_descR_perm l)). lia. Qed.

Lemma kthR_nonneg l k : (forall x, In x l -> 0 <= x) -> 0 <= kthR l k.
Proof. intro H. unfold kthR. destruct (nth_in_or_default (k - 1) (sort_descR l) 0) as [I|I].
  apply H. eapply Permutation_in. apply Permutation_sym, sort_descR_perm. exact I. rewrite I. lra. Qed.

(* kthR really is an entry of the list (or 0 beyond its length) and is monotone in k *)
Lemma kthR_in l k : (1 <= k <= length l)%nat -> In (kthR l k) l.
Proof. intro H. unfold kthR. eapply Permutation_in. apply Permutation_sym, sort_descR_perm.
  apply nth_In. rewrite <- (Permutation_length (sort_descR_perm l)). lia. Qed.
Lemma kthR_beyond l k : (length l < k)%nat -> kthR l k = 0.
Proof. intro H. unfold kthR. apply nth_overflow. rewrite <- (Permutation_length (sort_descR_perm l)). lia. Qed.
