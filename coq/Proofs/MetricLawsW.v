(* C07, Wasserstein (Euclidean ground metric, sum of costs) and the real-valued bottleneck
   (L-infinity, largest cost): the cost functions are pseudo-metrics compatible with their
   diagonal costs, hence all the generic laws of MetricLawsG.v apply. *)
From Coq Require Import List Arith Bool Permutation Lia Reals Lra Psatz.
From Persim Require Import Spec.PartialMatching Spec.WassersteinS Lib.PMatchLemmas Proofs.MetricLawsG.
Import ListNotations.
Open Scope R_scope.

(* ---------- 1/sqrt 2 ---------- *)
Definition isq2 : R := / sqrt 2.
Lemma isq2_pos : 0 < isq2.
Proof. apply Rinv_0_lt_compat. apply sqrt_lt_R0. lra. Qed.
Lemma isq2_sq : isq2 * isq2 = / 2.
Proof.
  unfold isq2. rewrite <- Rinv_mult. rewrite sqrt_sqrt; lra.
Qed.
Lemma isq2_ge_half : / 2 <= isq2.
Proof. generalize isq2_pos isq2_sq. intros. nra. Qed.
Lemma diagW_alt p : diagW p = (snd p - fst p) * isq2.
Proof. reflexivity. Qed.

(* ---------- Euclidean distance ---------- *)
Lemma euclid_sym p q : euclid p q = euclid q p.
Proof. unfold euclid. f_equal. ring. Qed.
Lemma euclid_refl p : euclid p p = 0.
Proof. unfold euclid. replace (_ + _) with 0 by ring. apply sqrt_0. Qed.

Lemma sqrt_sumsq_char a b : let t := sqrt (a * a + b * b) in 0 <= t /\ t * t = a * a + b * b.
Proof.
  simpl. split; [apply sqrt_pos|]. apply sqrt_sqrt. nra.
Qed.

Lemma minkowski2 a b c d :
  sqrt ((a + c) * (a + c) + (b + d) * (b + d)) <= sqrt (a * a + b * b) + sqrt (c * c + d * d).
Proof.
  destruct (sqrt_sumsq_char a b) as [X0 X2]. destruct (sqrt_sumsq_char c d) as [Y0 Y2].
  set (x := sqrt (a * a + b * b)) in *. set (y := sqrt (c * c + d * d)) in *.
  assert (CS : a * c + b * d <= x * y).
  { destruct (Rle_dec (a * c + b * d) 0) as [N|N]; [nra|].
    assert (SQ : (a * c + b * d) * (a * c + b * d) <= (x * y) * (x * y)).
    { replace ((x * y) * (x * y)) with ((x * x) * (y * y)) by ring. rewrite X2, Y2.
      generalize (Rle_0_sqr (a * d - b * c)). unfold Rsqr. nra. }
    apply Rsqr_incr_0_var; [exact SQ|]. apply Rmult_le_pos; assumption. }
  rewrite <- (sqrt_square (x + y)) by lra. apply sqrt_le_1_alt. nra.
Qed.

Lemma euclid_tri p q r : euclid p r <= euclid p q + euclid q r.
Proof.
  unfold euclid.
  replace (fst p - fst r) with ((fst p - fst q) + (fst q - fst r)) by ring.
  replace (snd p - snd r) with ((snd p - snd q) + (snd q - snd r)) by ring.
  apply minkowski2.
Qed.

Lemma diagW_tri p q : diagW p <= euclid p q + diagW q.
Proof.
  rewrite !diagW_alt. unfold euclid.
  destruct (sqrt_sumsq_char (fst p - fst q) (snd p - snd q)) as [T0 T2].
  set (t := sqrt _) in *. set (u := fst p - fst q) in *. set (w := snd p - snd q) in *.
  generalize isq2_pos isq2_sq. set (k := isq2). intros K0 K2.
  assert (G : (w - u) * k <= t).
  { destruct (Rle_dec ((w - u) * k) 0) as [N|N]; [lra|].
    assert (((w - u) * k) * ((w - u) * k) <= t * t).
    { replace (((w - u) * k) * ((w - u) * k)) with ((w - u) * (w - u) * (k * k)) by ring.
      rewrite K2, T2. generalize (Rle_0_sqr (w + u)). unfold Rsqr. nra. }
    apply Rsqr_incr_0_var; [exact H|exact T0]. }
  unfold u, w in G. nra.
Qed.

Lemma wfG_wfdgmR S : wfG diagW S <-> wfdgmR S.
Proof.
  unfold wfG, wfdgmR. generalize isq2_pos. intros K.
  split; intros H p I; specialize (H p I); rewrite diagW_alt in *; nra.
Qed.

Lemma wfdgmR_perm S S' : Permutation S S' -> wfdgmR S -> wfdgmR S'.
Proof. intros Pm H p I. apply H. eapply Permutation_in; [symmetry; exact Pm|exact I]. Qed.
Lemma wfdgmR_cons z S : diagW z = 0 -> wfdgmR S -> wfdgmR (z :: S).
Proof.
  intros Z H p [I|I]; [|apply H; exact I]. subst p. rewrite diagW_alt in Z.
  generalize isq2_pos. intros. nra.
Qed.

Lemma wcosts_sum_nonneg S T m : wfdgmR S -> wfdgmR T -> 0 <= sumR (pm_costs euclid diagW (0,0) S T m).
Proof.
  intros HS HT. apply sumR_nonneg.
  apply (costs_nonneg euclid diagW (0,0) euclid_sym euclid_refl euclid_tri); apply wfG_wfdgmR; assumption.
Qed.

Lemma wass_compose A B C m1 m2 : wfdgmR B -> valid_for A B m1 -> valid_for B C m2 ->
  sumR (pm_costs euclid diagW (0,0) A C (pcompose m1 m2)) <=
  sumR (pm_costs euclid diagW (0,0) A B m1) + sumR (pm_costs euclid diagW (0,0) B C m2).
Proof.
  intros WB. apply (sum_compose euclid diagW (0,0) euclid_sym euclid_tri diagW_tri). apply wfG_wfdgmR. exact WB.
Qed.

Lemma is_wasserstein_is_min S T v : is_wasserstein S T v <-> is_min euclid diagW (0,0) sumR S T v.
Proof. reflexivity. Qed.

(* ---------- the laws ---------- *)
Definition shiftR (c : R) (p : rpoint) : rpoint := (fst p + c, snd p + c).
Definition scaleR (c : R) (p : rpoint) : rpoint := (c * fst p, c * snd p).
Definition persR (p : rpoint) : R := snd p - fst p.

Local Notation WL lemma := (lemma rpoint euclid diagW (0,0) sumR wfdgmR) (only parsing).

Lemma W_unique S T v v' : is_wasserstein S T v -> is_wasserstein S T v' -> v = v'.
Proof. apply (min_unique euclid diagW (0,0) sumR). Qed.

Lemma W_exists S T : exists v, is_wasserstein S T v.
Proof. apply (min_exists euclid diagW (0,0) sumR). apply sumR_perm. Qed.

Lemma W_sym S T v : is_wasserstein S T v -> is_wasserstein T S v.
Proof. apply (min_sym euclid diagW (0,0) sumR euclid_sym sumR_perm). Qed.

Lemma W_nonneg S T v : wfdgmR S -> wfdgmR T -> is_wasserstein S T v -> 0 <= v.
Proof. apply (min_nonneg euclid diagW (0,0) sumR wfdgmR wcosts_sum_nonneg). Qed.

Lemma W_perm_zero S S' : wfdgmR S -> Permutation S S' -> is_wasserstein S S' 0.
Proof. apply (min_perm_zero euclid diagW (0,0) sumR wfdgmR euclid_refl sumR_zero wcosts_sum_nonneg wfdgmR_perm). Qed.

Lemma W_triangle A B C v1 v2 v3 : wfdgmR B ->
  is_wasserstein A B v1 -> is_wasserstein B C v2 -> is_wasserstein A C v3 -> v3 <= v1 + v2.
Proof. apply (min_triangle euclid diagW (0,0) sumR wfdgmR wass_compose). Qed.

Lemma W_perm_invariant S S' T v v' : wfdgmR S -> Permutation S S' ->
  is_wasserstein S T v -> is_wasserstein S' T v' -> v = v'.
Proof.
  apply (min_perm_invariant euclid diagW (0,0) sumR wfdgmR euclid_sym euclid_refl sumR_perm sumR_zero
           wcosts_sum_nonneg wfdgmR_perm wass_compose).
Qed.

Lemma diagW_diag x : diagW (x, x) = 0.
Proof. rewrite diagW_alt. simpl. ring. Qed.

Lemma W_diag_point_l x S S' T v v' : wfdgmR S -> Permutation S' ((x, x) :: S) ->
  is_wasserstein S T v -> is_wasserstein S' T v' -> v = v'.
Proof.
  intros WS. apply (min_diag_point euclid diagW (0,0) sumR wfdgmR euclid_sym euclid_refl sumR_perm sumR_zero
           wcosts_sum_nonneg wfdgmR_perm wfdgmR_cons wass_compose (x, x) S S' T v v' WS (diagW_diag x)).
Qed.

Lemma W_diag_point_r y S T T' v v' : wfdgmR T -> Permutation T' ((y, y) :: T) ->
  is_wasserstein S T v -> is_wasserstein S T' v' -> v = v'.
Proof.
  intros WT Pm H H'. apply (W_diag_point_l y T T' S v v' WT Pm); apply W_sym; assumption.
Qed.

Definition on_diagR (Z : list rpoint) : Prop := Forall (fun z => fst z = snd z) Z.
Lemma on_diagR_diagW Z : on_diagR Z -> Forall (fun z => diagW z = 0) Z.
Proof. apply Forall_impl. intros z E. rewrite diagW_alt, E. ring. Qed.

(* any number of diagonal points inserted at any positions of both diagrams *)
Lemma W_diag_padding Z1 Z2 S S' T T' v v' : wfdgmR S -> wfdgmR T -> on_diagR Z1 -> on_diagR Z2 ->
  Permutation S' (Z1 ++ S) -> Permutation T' (Z2 ++ T) ->
  is_wasserstein S T v -> is_wasserstein S' T' v' -> v = v'.
Proof.
  intros WS WT D1 D2 P1 P2 H H'. destruct (W_exists S' T) as [w Hw].
  transitivity w.
  - apply (min_diag_points euclid diagW (0,0) sumR wfdgmR euclid_sym euclid_refl sumR_perm sumR_zero
             wcosts_sum_nonneg wfdgmR_perm wfdgmR_cons wass_compose Z1 S S' T v w WS (on_diagR_diagW _ D1) P1 H Hw).
  - apply (min_diag_points euclid diagW (0,0) sumR wfdgmR euclid_sym euclid_refl sumR_perm sumR_zero
             wcosts_sum_nonneg wfdgmR_perm wfdgmR_cons wass_compose Z2 T T' S' w v' WT (on_diagR_diagW _ D2) P2);
      apply W_sym; assumption.
Qed.

Lemma euclid_shift c p q : euclid (shiftR c p) (shiftR c q) = 1 * euclid p q.
Proof. unfold euclid, shiftR. simpl. rewrite Rmult_1_l. f_equal. ring. Qed.
Lemma diagW_shift c p : diagW (shiftR c p) = 1 * diagW p.
Proof. rewrite !diagW_alt. unfold shiftR. simpl. ring. Qed.
Lemma euclid_scale c p q : 0 <= c -> euclid (scaleR c p) (scaleR c q) = c * euclid p q.
Proof.
  intros Hc. unfold euclid, scaleR. simpl.
  set (a := fst p - fst q). set (b := snd p - snd q).
  replace (c * fst p - c * fst q) with (c * a) by (unfold a; ring).
  replace (c * snd p - c * snd q) with (c * b) by (unfold b; ring).
  replace (c * a * (c * a) + c * b * (c * b)) with ((c * c) * (a * a + b * b)) by ring.
  rewrite sqrt_mult; [|nra|nra]. rewrite sqrt_square by exact Hc. reflexivity.
Qed.
Lemma diagW_scale c p : diagW (scaleR c p) = c * diagW p.
Proof. rewrite !diagW_alt. unfold scaleR. simpl. ring. Qed.

Lemma W_translate c S T v : is_wasserstein S T v -> is_wasserstein (map (shiftR c) S) (map (shiftR c) T) v.
Proof.
  intros H. rewrite <- (Rmult_1_l v).
  apply (min_similarity euclid diagW (0,0) sumR (fun c l _ => sumR_scale c l) (shiftR c) 1 S T v);
    [lra|apply euclid_shift|apply diagW_shift|exact H].
Qed.

Lemma W_scale c S T v : 0 <= c -> is_wasserstein S T v ->
  is_wasserstein (map (scaleR c) S) (map (scaleR c) T) (c * v).
Proof.
  intros Hc H.
  apply (min_similarity euclid diagW (0,0) sumR (fun c l _ => sumR_scale c l) (scaleR c) c S T v);
    [exact Hc|intros; apply euclid_scale; exact Hc|apply diagW_scale|exact H].
Qed.

Lemma sum_diagW S : sumR (map diagW S) = sumR (map persR S) / sqrt 2.
Proof.
  induction S as [|p S IH]; simpl; [unfold Rdiv; ring|]. rewrite IH. unfold diagW, persR, Rdiv. ring.
Qed.

Lemma W_empty S : is_wasserstein S [] (sumRl (map persR S) / sqrt 2).
Proof.
  change sumRl with sumR. rewrite <- sum_diagW. apply (min_empty euclid diagW (0,0) sumR).
Qed.

(* ---------- transfer to any function that computes the spec minimum (C02's model) ---------- *)
Lemma wfdgmR_shift c S : wfdgmR S -> wfdgmR (map (shiftR c) S).
Proof.
  intros H p I. apply in_map_iff in I. destruct I as [q [E I]]. subst p. simpl.
  generalize (H q I). intros. lra.
Qed.
Lemma wfdgmR_scale c S : 0 <= c -> wfdgmR S -> wfdgmR (map (scaleR c) S).
Proof.
  intros Hc H p I. apply in_map_iff in I. destruct I as [q [E I]]. subst p. simpl.
  generalize (H q I). intros. nra.
Qed.
Lemma wfdgmR_pad Z S : on_diagR Z -> wfdgmR S -> wfdgmR (Z ++ S).
Proof.
  intros D H p I. apply in_app_or in I. destruct I as [I|I]; [|apply H; exact I].
  unfold on_diagR in D. rewrite Forall_forall in D. rewrite (D p I). lra.
Qed.
Lemma wfdgmR_nil : wfdgmR [].
Proof. intros p []. Qed.

Section TransferW.
  Variable wn : list rpoint -> list rpoint -> R.
  Hypothesis wn_spec : forall S T, wfdgmR S -> wfdgmR T -> is_wasserstein S T (wn S T).

  Theorem W_transfer :
    (forall S T, wfdgmR S -> wfdgmR T -> wn S T = wn T S) /\
    (forall S S', wfdgmR S -> Permutation S S' -> wn S S' = 0) /\
    (forall S T, wfdgmR S -> wfdgmR T -> 0 <= wn S T) /\
    (forall A B C, wfdgmR A -> wfdgmR B -> wfdgmR C -> wn A C <= wn A B + wn B C) /\
    (forall Z1 Z2 S S' T T', wfdgmR S -> wfdgmR T -> on_diagR Z1 -> on_diagR Z2 ->
       Permutation S' (Z1 ++ S) -> Permutation T' (Z2 ++ T) -> wn S' T' = wn S T) /\
    (forall c S T, wfdgmR S -> wfdgmR T -> wn (map (shiftR c) S) (map (shiftR c) T) = wn S T) /\
    (forall c S T, 0 <= c -> wfdgmR S -> wfdgmR T ->
       wn (map (scaleR c) S) (map (scaleR c) T) = c * wn S T) /\
    (forall S, wfdgmR S -> wn S [] = sumRl (map persR S) / sqrt 2).
  Proof.
    repeat apply conj.
    - intros S T WS WT. apply (W_unique S T); [apply wn_spec; assumption|apply W_sym; apply wn_spec; assumption].
    - intros S S' WS Pm. apply (W_unique S S'); [apply wn_spec; [|eapply wfdgmR_perm]; eassumption|apply W_perm_zero; assumption].
    - intros S T WS WT. apply (W_nonneg S T _ WS WT). apply wn_spec; assumption.
    - intros A B C WA WB WC. apply (W_triangle A B C _ _ _ WB); apply wn_spec; assumption.
    - intros Z1 Z2 S S' T T' WS WT D1 D2 P1 P2. symmetry.
      apply (W_diag_padding Z1 Z2 S S' T T' (wn S T) (wn S' T') WS WT D1 D2 P1 P2); [apply wn_spec; assumption|].
      apply wn_spec; (eapply wfdgmR_perm; [symmetry; eassumption|]); apply wfdgmR_pad; assumption.
    - intros c S T WS WT. apply (W_unique (map (shiftR c) S) (map (shiftR c) T)).
      + apply wn_spec; apply wfdgmR_shift; assumption.
      + apply W_translate. apply wn_spec; assumption.
    - intros c S T Hc WS WT. apply (W_unique (map (scaleR c) S) (map (scaleR c) T)).
      + apply wn_spec; apply wfdgmR_scale; assumption.
      + apply W_scale; [exact Hc|]. apply wn_spec; assumption.
    - intros S WS. apply (W_unique S []); [apply wn_spec; [exact WS|apply wfdgmR_nil]|apply W_empty].
  Qed.
End TransferW.
