(* C03 over the reals, part 1 (no Q here): tents, the rank function, the step lemmas and the shapes of
   the emitted breakpoint lists, with real abscissa t and real threshold v.  Port of SweepStep / SweepShape. *)
From Coq Require Import Reals Lra List Bool Arith Lia Permutation.
From Persim Require Import Spec.LandscapeRealS.
Import ListNotations.
Open Scope R_scope.

Lemma Rmax_sp a b : (a <= b /\ Rmax a b = b) \/ (b <= a /\ Rmax a b = a).
Proof. unfold Rmax. destruct (Rle_dec a b); [left|right]; split; lra. Qed.
Lemma Rmin_sp a b : (a <= b /\ Rmin a b = a) \/ (b <= a /\ Rmin a b = b).
Proof. unfold Rmin. destruct (Rle_dec a b); [left|right]; split; lra. Qed.
Ltac rmm1 :=
  match goal with
  | |- context [Rmax ?a ?b] => let m := fresh "m" in generalize (Rmax_sp a b); generalize (Rmax a b); intros m
  | |- context [Rmin ?a ?b] => let m := fresh "m" in generalize (Rmin_sp a b); generalize (Rmin a b); intros m
  end.
Ltac rmm := repeat rmm1; intros;
  repeat match goal with H : _ \/ _ |- _ => destruct H | H : _ /\ _ |- _ => destruct H end; lra.


Lemma gtb_true v x : gtb v x = true <-> v < x.
Proof. unfold gtb. destruct (Rlt_dec v x); split; intro; auto; discriminate. Qed.
Lemma gtb_false v x : gtb v x = false <-> x <= v.
Proof. unfold gtb. destruct (Rlt_dec v x); split; intro; auto; try discriminate; lra. Qed.

Lemma exR_cons x l v : exR (x :: l) v = ((if gtb v x then 1 else 0) + exR l v)%nat.
Proof. unfold exR. simpl. destruct (gtb v x); simpl; lia. Qed.
Lemma exR_perm l1 l2 v : Permutation l1 l2 -> exR l1 v = exR l2 v.
Proof. intro P. unfold exR. induction P; simpl; auto.
  - destruct (gtb v x); simpl; auto.
  - destruct (gtb v x), (gtb v y); simpl; auto.
  - congruence. Qed.
Lemma exR2_minmax x y l v : exR (x :: y :: l) v = exR (Rmax x y :: Rmin x y :: l) v.
Proof. rewrite !exR_cons. unfold Rmax, Rmin. destruct (Rle_dec x y); lia. Qed.
Lemma exR_zero l v : 0 <= v -> exR (0 :: l) v = exR l v.
Proof. intro H. rewrite exR_cons. replace (gtb v 0) with false. auto. symmetry. apply gtb_false. auto. Qed.
Lemma exR_all_le l v : (forall y, In y l -> y <= v) -> exR l v = 0%nat.
Proof. induction l as [|x r IH]; intro H. reflexivity. rewrite exR_cons.
  replace (gtb v x) with false by (symmetry; apply gtb_false; apply H; left; auto).
  rewrite IH; auto. intros; apply H; right; auto. Qed.

Lemma tentR_nonneg b d t : 0 <= tentR b d t.
Proof. unfold tentR. rmm. Qed.
Lemma tentR_nested b d b' d' t : b <= b' -> d' <= d -> tentR b' d' t <= tentR b d t.
Proof. intros. unfold tentR. rmm. Qed.
Lemma tentsR_min b d b' d' t : b <= b' -> b' < d -> d <= d' ->
  Rmin (tentR b d t) (tentR b' d' t) = tentR b' d t.
Proof. intros. unfold tentR. rmm. Qed.
Lemma tentsR_before_cross b d b' d' t : b <= b' -> b' < d -> d <= d' -> t <= (b' + d) / 2 ->
  tentR b' d' t <= tentR b d t /\ tentR b' d' t = tentR b' d t.
Proof. intros. unfold tentR. split; rmm. Qed.
Lemma tentsR_after_cross b d b' d' t : b <= b' -> b' < d -> d <= d' -> (b' + d) / 2 <= t ->
  tentR b d t <= tentR b' d' t.
Proof. intros. unfold tentR. rmm. Qed.
Lemma tentR_zero_after b d t : d <= t -> tentR b d t = 0.
Proof. intros. unfold tentR. rmm. Qed.
Lemma tentR_zero_before b d t : t <= b -> tentR b d t = 0.
Proof. intros. unfold tentR. rmm. Qed.

Record SInvR (F : R -> R) (b d : R) : Prop := {
  sr_pos  : b < d;
  sr_dom  : forall t, tentR b d t <= F t;
  sr_tail : forall t, (b + d) / 2 <= t -> F t = tentR b d t }.

Lemma stepR_overlap F b d b' d' : SInvR F b d -> b <= b' -> b' < d -> d < d' ->
  let F' := fun t => Rmax (F t) (tentR b' d' t) in
  SInvR F' b' d' /\
  (forall t l v, exR (F t :: tentR b' d' t :: l) v = exR (F' t :: tentR b' d t :: l) v).
Proof.
  intros [P D T] Hb Hbd Hd F'.
  assert (MIN : forall t, Rmin (F t) (tentR b' d' t) = tentR b' d t).
  { intro t. destruct (Rlt_le_dec t ((b + d) / 2)) as [L|G].
    - destruct (tentsR_before_cross b d b' d' t) as [X Y]; auto; try lra.
      specialize (D t). rewrite <- Y. apply Rmin_right. lra.
    - rewrite (T t G). apply tentsR_min; lra. }
  assert (AFTER : forall t, (b' + d) / 2 <= t -> F t <= tentR b' d' t).
  { intros t H. assert ((b + d) / 2 <= t) by lra. rewrite (T t H0). apply tentsR_after_cross; lra. }
  split.
  - constructor. lra.
    + intro t. unfold F'. apply Rmax_r.
    + intros t H. unfold F'. apply Rmax_right. apply AFTER. lra.
  - intros t l v. unfold F'. rewrite exR2_minmax. rewrite MIN. reflexivity.
Qed.

Lemma stepR_disjoint F b d b' d' : SInvR F b d -> d <= b' -> b' < d' ->
  let F' := fun t => Rmax (F t) (tentR b' d' t) in
  SInvR F' b' d' /\
  (forall t l v, 0 <= v -> exR (F t :: tentR b' d' t :: l) v = exR (F' t :: l) v).
Proof.
  intros [P D T] Hb Hp F'.
  assert (Z : forall t, d <= t -> F t = 0).
  { intros t H. rewrite T by lra. apply tentR_zero_after; auto. }
  assert (MIN : forall t, Rmin (F t) (tentR b' d' t) = 0).
  { intro t. destruct (Rlt_le_dec t b') as [L|G].
    - rewrite (tentR_zero_before b' d' t) by lra. apply Rmin_right.
      specialize (D t). pose proof (tentR_nonneg b d t). lra.
    - rewrite (Z t ltac:(lra)). apply Rmin_left. apply tentR_nonneg. }
  split.
  - constructor; auto.
    + intro t. unfold F'. apply Rmax_r.
    + intros t H. unfold F'. apply Rmax_right. rewrite Z. apply tentR_nonneg. lra.
  - intros t l v Hv. unfold F'. rewrite exR2_minmax. rewrite exR_cons. rewrite MIN.
    rewrite exR_zero by auto. rewrite exR_cons. auto.
Qed.

Lemma chainR_before b d bp dp t : b < d -> bp < dp -> b < bp -> d < dp -> t <= (b + d) / 2 ->
  tentR bp dp t <= tentR b d t.
Proof. intros. unfold tentR. rmm. Qed.
Lemma chainR_after b d bp dp t : b < d -> bp < dp -> b < bp -> d < dp -> (bp + dp) / 2 <= t ->
  tentR b d t <= tentR bp dp t.
Proof. intros. unfold tentR. rmm. Qed.

(* ---- linear interpolation of real breakpoints, 0 outside (mirror of Lib.PL.pl_eval) ---- *)
Lemma plR_seg x0 y0 x1 y1 r t : x0 < x1 -> x0 <= t -> t <= x1 ->
  pl_evalR ((x0, y0) :: (x1, y1) :: r) t = y0 + (y1 - y0) * (t - x0) / (x1 - x0).
Proof. intros A B C. simpl. destruct (Rlt_dec t x0); try lra. destruct (Rle_dec t x1); try lra.
  destruct (Rlt_dec x0 x1); try lra. Qed.
Lemma plR_skip x0 y0 x1 y1 r t : x0 <= x1 -> x1 < t ->
  pl_evalR ((x0, y0) :: (x1, y1) :: r) t = pl_evalR ((x1, y1) :: r) t.
Proof. intros A B.
  change (pl_evalR ((x0, y0) :: (x1, y1) :: r) t) with
    (if Rlt_dec t x0 then 0 else if Rle_dec t x1 then
       (if Rlt_dec x0 x1 then y0 + (y1 - y0) * (t - x0) / (x1 - x0) else pl_evalR ((x1, y1) :: r) t)
     else pl_evalR ((x1, y1) :: r) t).
  destruct (Rlt_dec t x0); try lra. destruct (Rle_dec t x1); try lra. Qed.
Lemma plR_left x0 y0 r t : t < x0 -> pl_evalR ((x0, y0) :: r) t = 0.
Proof. intro A. destruct r as [|[x1 y1] r]; simpl.
  - destruct (Req_EM_T t x0); lra.
  - destruct (Rlt_dec t x0); lra. Qed.
Lemma plR_last x0 y0 t : x0 < t -> pl_evalR [(x0, y0)] t = 0.
Proof. intro A. simpl. destruct (Req_EM_T t x0); lra. Qed.
Lemma plR_piece s x0 y0 x1 y1 r t : x0 < x1 -> x0 <= t -> t <= x1 -> y1 - y0 = s * (x1 - x0) ->
  pl_evalR ((x0, y0) :: (x1, y1) :: r) t = y0 + s * (t - x0).
Proof. intros A B C E. rewrite plR_seg by auto. rewrite E. field. lra. Qed.

Definition pkR (b d : R) : rpt := ((b + d) / 2, (d - b) / 2).

Lemma riseR_to_peak b d r t : b < d -> t <= (b + d) / 2 ->
  pl_evalR ((b, 0) :: pkR b d :: r) t = tentR b d t.
Proof. intros P H. unfold pkR. destruct (Rlt_le_dec t b) as [L|G].
  - rewrite plR_left by auto. unfold tentR. rmm.
  - rewrite (plR_piece 1) by lra. unfold tentR. rmm. Qed.
Lemma riseR_skip b d r t : b < d -> (b + d) / 2 < t ->
  pl_evalR ((b, 0) :: pkR b d :: r) t = pl_evalR (pkR b d :: r) t.
Proof. intros. unfold pkR. apply plR_skip; lra. Qed.
Lemma shapeR_close b d t : b < d -> (b + d) / 2 <= t -> pl_evalR [pkR b d; (d, 0)] t = tentR b d t.
Proof. intros P H. unfold pkR. destruct (Rlt_le_dec d t) as [L|G].
  - rewrite plR_skip by lra. rewrite plR_last by auto. unfold tentR. rmm.
  - rewrite (plR_piece (-1)) by lra. unfold tentR. rmm. Qed.
Lemma shapeR_cross b d bp dp r t : b < d -> b < bp -> bp < d -> d < dp ->
  (b + d) / 2 <= t -> t <= (bp + dp) / 2 ->
  pl_evalR (pkR b d :: pkR bp d :: pkR bp dp :: r) t = Rmax (tentR b d t) (tentR bp dp t).
Proof. intros P B1 B2 D H1 H2. unfold pkR.
  destruct (Rlt_le_dec ((bp + d) / 2) t) as [L|G].
  - rewrite plR_skip by lra. rewrite (plR_piece 1) by lra. unfold tentR. rmm.
  - rewrite (plR_piece (-1)) by lra. unfold tentR. rmm. Qed.
Lemma skipR_cross b d bp dp r t : b < d -> b < bp -> bp < d -> d < dp -> (bp + dp) / 2 < t ->
  pl_evalR (pkR b d :: pkR bp d :: pkR bp dp :: r) t = pl_evalR (pkR bp dp :: r) t.
Proof. intros. unfold pkR. rewrite !plR_skip by lra. reflexivity. Qed.
Lemma shapeR_gap b d bp dp r t : b < d -> d < bp -> bp < dp ->
  (b + d) / 2 <= t -> t <= (bp + dp) / 2 ->
  pl_evalR (pkR b d :: (d, 0) :: (bp, 0) :: pkR bp dp :: r) t = Rmax (tentR b d t) (tentR bp dp t).
Proof. intros P B1 B2 H1 H2. unfold pkR.
  destruct (Rlt_le_dec d t) as [L|G].
  - rewrite plR_skip by lra.
    destruct (Rlt_le_dec bp t) as [L2|G2].
    + rewrite plR_skip by lra. rewrite (plR_piece 1) by lra. unfold tentR. rmm.
    + rewrite (plR_piece 0) by lra. unfold tentR. rmm.
  - rewrite (plR_piece (-1)) by lra. unfold tentR. rmm. Qed.
Lemma skipR_gap b d bp dp r t : b < d -> d < bp -> bp < dp -> (bp + dp) / 2 < t ->
  pl_evalR (pkR b d :: (d, 0) :: (bp, 0) :: pkR bp dp :: r) t = pl_evalR (pkR bp dp :: r) t.
Proof. intros. unfold pkR. rewrite !plR_skip by lra. reflexivity. Qed.
Lemma shapeR_touch b d bp dp r t : b < d -> d = bp -> bp < dp ->
  (b + d) / 2 <= t -> t <= (bp + dp) / 2 ->
  pl_evalR (pkR b d :: (bp, 0) :: pkR bp dp :: r) t = Rmax (tentR b d t) (tentR bp dp t).
Proof. intros P B1 B2 H1 H2. unfold pkR.
  destruct (Rlt_le_dec bp t) as [L|G].
  - rewrite plR_skip by lra. rewrite (plR_piece 1) by lra. unfold tentR. rmm.
  - rewrite (plR_piece (-1)) by lra. unfold tentR. rmm. Qed.
Lemma skipR_touch b d bp dp r t : b < d -> d = bp -> bp < dp -> (bp + dp) / 2 < t ->
  pl_evalR (pkR b d :: (bp, 0) :: pkR bp dp :: r) t = pl_evalR (pkR bp dp :: r) t.
Proof. intros. unfold pkR. rewrite !plR_skip by lra. reflexivity. Qed.
