(* C03 plumbing: the order on bars used by compute_landscape (birth ascending, death descending),
   sortedness of sorted(A, key=[b,-d]), of A.pop(i) and of the ordered re-insertion (exact.py 331-351). *)
From Coq Require Import QArith Qminmax Lqa List Bool Arith Lia Permutation.
From Persim Require Import Lib.Kth Lib.PL Spec.LandscapeS Model.SweepM.
Import ListNotations.
Open Scope Q_scope.

Lemma Qeq_bool_false x y : Qeq_bool x y = false -> ~ x == y.
Proof. intros H E. apply Qeq_bool_iff in E. congruence. Qed.

Ltac breflect :=
  repeat match goal with
  | H : Qlt_bool _ _ = true |- _ => apply Qlt_bool_iff in H
  | H : Qlt_bool _ _ = false |- _ => apply Qlt_bool_false in H
  | H : Qle_bool _ _ = true |- _ => apply Qle_bool_iff in H
  | H : Qle_bool _ _ = false |- _ => apply b_le_f in H
  | H : Qeq_bool _ _ = true |- _ => apply Qeq_bool_iff in H
  | H : Qeq_bool _ _ = false |- _ => apply Qeq_bool_false in H
  | H : _ && _ = true |- _ => apply andb_true_iff in H; destruct H
  | H : _ || _ = false |- _ => apply orb_false_iff in H; destruct H
  | H : context [true && _] |- _ => cbn [andb] in H
  | H : context [false && _] |- _ => cbn [andb] in H
  | H : context [true || _] |- _ => cbn [orb] in H
  | H : context [false || _] |- _ => cbn [orb] in H
  | H : negb _ = true |- _ => apply negb_true_iff in H
  | H : negb _ = false |- _ => apply negb_false_iff in H
  end.


Lemma key_le_iff x y : key_le x y = true <-> kle x y.
Proof. unfold key_le, kle. split.
  - intro H. apply orb_true_iff in H. destruct H as [H|H]; breflect; auto.
  - intros [H|[H1 H2]]; apply orb_true_iff.
    + left. apply Qlt_bool_iff. auto.
    + right. apply andb_true_iff. split. apply Qeq_bool_iff; auto. apply Qle_bool_iff; auto. Qed.
Lemma key_le_false x y : key_le x y = false -> kle y x.
Proof. unfold key_le, kle. intro H. breflect.
  destruct (Qeq_bool (fst x) (fst y)) eqn:E; breflect.
  - right. split; lra.
  - left. lra. Qed.
Lemma kle_trans x y z : kle x y -> kle y z -> kle x z.
Proof. unfold kle. intros [A|[A1 A2]] [B|[B1 B2]]; try (left; lra). right; split; lra. Qed.
Lemma kle_refl x : kle x x.
Proof. right. split; lra. Qed.
Lemma kle_birth x y : kle x y -> fst x <= fst y.
Proof. intros [H|[H _]]; lra. Qed.


Lemma ssorted_app l1 l2 : ssorted (l1 ++ l2) <->
  ssorted l1 /\ ssorted l2 /\ (forall x y, In x l1 -> In y l2 -> kle x y).
Proof. induction l1 as [|a r IH]; simpl.
  - split. intro H; repeat split; auto. constructor. intros x y []. intros (_ & H & _); auto.
  - split.
    + intro H. inversion H; subst. apply IH in H3. destruct H3 as (S1 & S2 & C). repeat split; auto.
      * constructor; auto. intros y Hy. apply H2. apply in_or_app; auto.
      * intros x y [Hx|Hx] Hy. subst. apply H2. apply in_or_app; auto. auto.
    + intros (S1 & S2 & C). inversion S1; subst. constructor.
      * intros y Hy. apply in_app_or in Hy. destruct Hy; auto.
      * apply IH. repeat split; auto. Qed.

(* ---- sorted(A, key=[b,-d]) ---- *)
Lemma ins_perm x l : Permutation (x :: l) (ins x l).
Proof. induction l as [|y r IH]; simpl; auto. destruct (key_le y x); auto.
  eapply perm_trans. apply perm_swap. apply perm_skip. exact IH. Qed.
Lemma ins_sorted x l : ssorted l -> ssorted (ins x l).
Proof. induction 1 as [|y r Hy Sr IH]; simpl.
  - constructor. intros ? []. constructor.
  - destruct (key_le y x) eqn:E.
    + apply key_le_iff in E. constructor; auto. intros z Hz.
      apply (Permutation_in _ (Permutation_sym (ins_perm x r))) in Hz. destruct Hz; subst; auto.
    + apply key_le_false in E. constructor. 2: constructor; auto.
      intros z [Hz|Hz]; subst; auto. eapply kle_trans; eauto. Qed.
Lemma sort_bars_eq l : sort_bars l = fold_right ins [] l.
Proof. unfold sort_bars. rewrite rev_involutive. reflexivity. Qed.
Lemma sort_bars_perm l : Permutation l (sort_bars l).
Proof. rewrite sort_bars_eq. induction l; simpl; auto. eapply perm_trans. apply perm_skip. exact IHl. apply ins_perm. Qed.
Lemma sort_bars_sorted l : ssorted (sort_bars l).
Proof. rewrite sort_bars_eq. induction l; simpl. constructor. apply ins_sorted; auto. Qed.

(* ---- A.pop(i) ---- *)
Lemma remove_nth_app {A} (pre : list A) x post : remove_nth (length pre) (pre ++ x :: post) = pre ++ post.
Proof. induction pre; simpl; auto. f_equal; auto. Qed.

(* the search "first item with item[1] > d" *)
Lemma find_gt_split d A k i x : find_gt d A k = Some (i, x) ->
  exists pre post, A = pre ++ x :: post /\ i = (k + length pre)%nat /\
    (forall y, In y pre -> snd y <= d) /\ d < snd x.
Proof. revert k. induction A as [|y r IH]; simpl; intros k H. discriminate.
  destruct (Qlt_bool d (snd y)) eqn:E.
  - inversion H; subst. exists [], r. simpl. breflect. split; [reflexivity|split; [lia|split; [intros ? []|auto]]].
  - apply IH in H. destruct H as (pre & post & -> & -> & P & Q). exists (y :: pre), post. simpl. breflect.
    split; [reflexivity|split; [lia|split; [|auto]]]. intros z [Hz|Hz]; subst; auto. Qed.
Lemma find_gt_none d A k : find_gt d A k = None -> forallb (fun x => Qle_bool (snd x) d) A = true.
Proof. revert k. induction A as [|y r IH]; simpl; intros k H; auto.
  destruct (Qlt_bool d (snd y)) eqn:E. discriminate. breflect. apply andb_true_iff. split.
  apply Qle_bool_iff; auto. eapply IH; eauto. Qed.

(* ---- the ordered re-insertion ---- *)
Fixpoint place (bp d : Q) (l : list bar) : list bar :=
  match l with
  | [] => [(bp, d)]
  | y :: r => if Qlt_bool (fst y) bp || (Qeq_bool (fst y) bp && Qlt_bool d (snd y))
              then y :: place bp d r else (bp, d) :: l
  end.

Lemma place_perm bp d l : @Permutation bar ((bp, d) :: l) (place bp d l).
Proof. induction l as [|y r IH]; simpl; auto.
  destruct (Qlt_bool (fst y) bp || (Qeq_bool (fst y) bp && Qlt_bool d (snd y))); auto.
  eapply perm_trans. apply perm_swap. apply perm_skip. exact IH. Qed.

Lemma place_sorted bp d l : ssorted l -> ssorted (place bp d l).
Proof. induction 1 as [|y r Hy Sr IH]; simpl.
  - constructor. intros ? []. constructor.
  - destruct (Qlt_bool (fst y) bp || (Qeq_bool (fst y) bp && Qlt_bool d (snd y))) eqn:E.
    + constructor; auto. intros z Hz.
      apply (Permutation_in _ (Permutation_sym (place_perm bp d r))) in Hz. destruct Hz; subst; auto.
      apply orb_true_iff in E. destruct E as [E|E]; breflect; unfold kle; cbn [fst snd]. left; auto. right; split; lra.
    + breflect. assert (K : kle (bp, d) y).
      { unfold kle; cbn [fst snd]. destruct (Qeq_bool (fst y) bp) eqn:E1; breflect; cbn [fst snd] in *. right; split; lra. left; lra. }
      constructor. 2: constructor; auto.
      intros z [Hz|Hz]; subst; auto. eapply kle_trans; eauto. Qed.

Definition cnt (bp d : Q) (l : list bar) : nat :=
  length (filter (fun it => Qeq_bool (fst it) bp && Qlt_bool d (snd it)) l).

Lemma first_ge_birth_S bp l i : first_ge_birth bp l (S i) = S (first_ge_birth bp l i).
Proof. revert i. induction l as [|y r IH]; simpl; intro i; auto. destruct (Qle_bool bp (fst y)); auto. Qed.
Lemma first_ge_birth_le bp l i : (first_ge_birth bp l i <= i + length l)%nat.
Proof. revert i. induction l as [|y r IH]; simpl; intro i. lia. destruct (Qle_bool bp (fst y)). lia.
  specialize (IH (S i)). lia. Qed.

(* all births >= bp: insertion after the cnt bars with the same birth and larger death *)
Lemma place_cnt bp d l : ssorted l -> (forall y, In y l -> bp <= fst y) ->
  insert_at (cnt bp d l) (bp, d) l = place bp d l.
Proof. induction 1 as [|y r Hy Sr IH]; intro G; simpl. reflexivity.
  assert (Gy : bp <= fst y) by (apply G; left; auto).
  replace (Qlt_bool (fst y) bp) with false by (symmetry; apply Qlt_bool_false; auto). simpl orb.
  unfold cnt in *. simpl filter.
  destruct (Qeq_bool (fst y) bp && Qlt_bool d (snd y)) eqn:E.
  - simpl. f_equal. apply IH. intros; apply G; right; auto.
  - assert (Z : filter (fun it => Qeq_bool (fst it) bp && Qlt_bool d (snd it)) r = []).
    { clear IH. induction r as [|z r' IHr]; simpl; auto.
      assert (Kz : kle y z) by (apply Hy; left; auto).
      assert (Gz : bp <= fst z) by (apply G; right; left; auto).
      replace (Qeq_bool (fst z) bp && Qlt_bool d (snd z)) with false.
      - apply IHr. intros; apply Hy; right; auto. inversion Sr; auto. intros w [Hw|Hw]; subst; auto. apply G; right; right; auto.
      - symmetry. apply andb_false_iff.
        destruct (Qeq_bool (fst z) bp) eqn:E1; auto. right. breflect. apply Qlt_bool_false.
        apply andb_false_iff in E. destruct E as [E|E]; breflect.
        + destruct Kz as [K|[K1 K2]]; lra.
        + destruct Kz as [K|[K1 K2]]; lra. }
    rewrite Z. reflexivity. Qed.

Lemma insert_pos_place bp d l : ssorted l -> insert_at (insert_pos bp d l) (bp, d) l = place bp d l.
Proof. induction 1 as [|y r Hy Sr IH]. reflexivity.
  unfold insert_pos. simpl first_ge_birth. destruct (Qle_bool bp (fst y)) eqn:E.
  - (* ind = 0 *) simpl Nat.eqb. simpl nth_error. cbv iota.
    assert (G : forall z, In z (y :: r) -> bp <= fst z).
    { breflect. intros z [Hz|Hz]; subst; auto. apply Hy in Hz. apply kle_birth in Hz. lra. }
    destruct (Qeq_bool bp (fst y)) eqn:E1.
    + simpl plus. apply (place_cnt bp d (y :: r)); auto. constructor; auto.
    + breflect. simpl. replace (Qlt_bool (fst y) bp) with false by (symmetry; apply Qlt_bool_false; auto).
      replace (Qeq_bool (fst y) bp) with false. reflexivity.
      symmetry. destruct (Qeq_bool (fst y) bp) eqn:E2; auto. breflect. lra.
  - (* fst y < bp: position moves one to the right *)
    breflect. rewrite first_ge_birth_S. set (ind := first_ge_birth bp r 0).
    assert (C : filter (fun it => Qeq_bool (fst it) bp && Qlt_bool d (snd it)) (y :: r) =
                filter (fun it => Qeq_bool (fst it) bp && Qlt_bool d (snd it)) r).
    { simpl. replace (Qeq_bool (fst y) bp) with false. reflexivity.
      symmetry. destruct (Qeq_bool (fst y) bp) eqn:E2; auto. breflect. lra. }
    rewrite C. simpl length. simpl Nat.eqb. simpl nth_error.
    simpl place. replace (Qlt_bool (fst y) bp) with true by (symmetry; apply Qlt_bool_iff; auto). simpl orb.
    rewrite <- IH. unfold insert_pos. fold ind.
    destruct (Nat.eqb ind (length r)) eqn:E3. reflexivity.
    destruct (nth_error r ind) as [x|] eqn:E4; [|reflexivity].
    destruct (Qeq_bool bp (fst x)); reflexivity. Qed.
