(* C12 - lemmas about the exact-rational instance of Model/ImagerM.v, and the binary64 refutation
   of the pinned setters.  Statements are collected in Properties/C12.v. *)
From Coq Require Import ZArith QArith Qround Lqa Lia List Bool.
From Coq Require Import PrimFloat.
From Persim Require Import Model.ImagerM.
Import ListNotations.
Open Scope Q_scope.

Notation st := (state QNum).

Ltac qn := cbn [T add sub mul div half of_int ceil_int trunc_int ltb leb is_zero QNum] in *.

(* ------------------------------------------------------------------ the invariant *)
Definition mesh_ok (l : list Q) (lo ps : Q) (n : Z) : Prop :=
  length l = Z.to_nat (n + 1) /\
  forall i, (i < length l)%nat -> nth i l 0 == lo + inject_Z (Z.of_nat i) * ps.

Definition Inv (s : st) : Prop :=
  0 < psz s /\ (0 <= resw s)%Z /\ (0 <= resh s)%Z /\
  width s == inject_Z (resw s) * psz s /\ height s == inject_Z (resh s) * psz s /\
  bhi s - blo s == width s /\ phi s - plo s == height s /\
  mesh_ok (bpnts s) (blo s) (psz s) (resw s) /\ mesh_ok (ppnts s) (plo s) (psz s) (resh s) /\
  shape QNum s = Some (resw s, resh s).

Lemma injZ_pos n : (0 < n)%Z -> 0 < inject_Z n.
Proof. intros H. change 0 with (inject_Z 0). rewrite <- Zlt_Qlt. exact H. Qed.
Lemma injZ_nonneg n : (0 <= n)%Z -> 0 <= inject_Z n.
Proof. intros H. change 0 with (inject_Z 0). rewrite <- Zle_Qle. exact H. Qed.

(* ------------------------------------------------------------------ linspace *)
Lemma zrange_length n : length (zrange n) = Z.to_nat n.
Proof. unfold zrange. now rewrite map_length, seq_length. Qed.

Lemma zrange_nth n i : (i < Z.to_nat n)%nat -> nth i (zrange n) 0%Z = Z.of_nat i.
Proof.
  intros H. unfold zrange.
  rewrite nth_indep with (d' := Z.of_nat 0) by now rewrite map_length, seq_length.
  rewrite map_nth, seq_nth by assumption. reflexivity.
Qed.

Lemma linspace_mesh lo hi ps n :
  0 < ps -> (0 <= n)%Z -> hi - lo == inject_Z (n + 1) * ps ->
  mesh_ok (linspace_open QNum lo hi (n + 1)) lo ps n.
Proof.
  intros Hps Hn Hd. unfold mesh_ok, linspace_open. qn.
  rewrite map_length, zrange_length. split; [reflexivity|].
  intros i Hi.
  assert (Hn1 : ~ inject_Z (n + 1) == 0).
  { intro E. assert (0 < inject_Z (n + 1)) by (apply injZ_pos; lia). lra. }
  assert (Hstep : (hi - lo) / inject_Z (n + 1) == ps).
  { rewrite Hd. rewrite Qmult_comm. apply Qdiv_mult_l. exact Hn1. }
  set (f := fun i0 : Z => if Qeq_bool ((hi - lo) / inject_Z (n + 1)) 0
                then inject_Z i0 / inject_Z (n + 1) * (hi - lo) + lo
                else inject_Z i0 * ((hi - lo) / inject_Z (n + 1)) + lo).
  rewrite nth_indep with (d' := f 0%Z) by now rewrite map_length, zrange_length.
  rewrite map_nth. rewrite zrange_nth by assumption. unfold f.
  destruct (Qeq_bool ((hi - lo) / inject_Z (n + 1)) 0) eqn:E.
  - apply Qeq_bool_iff in E. lra.
  - rewrite Hstep. lra.
Qed.

(* ------------------------------------------------------------------ _create_mesh *)
Lemma create_mesh_inv (s : st) :
  0 < psz s -> (0 <= resw s)%Z -> (0 <= resh s)%Z ->
  width s == inject_Z (resw s) * psz s -> height s == inject_Z (resh s) * psz s ->
  Inv (create_mesh QNum s).
Proof.
  intros Hps Hw Hh Ew Eh. unfold Inv, create_mesh. cbn [psz blo bhi plo phi width height resw resh bpnts ppnts]. qn.
  assert (Mb : mesh_ok (linspace_open QNum (blo s - (width s - (bhi s - blo s)) * (1 # 2))
                 (bhi s + (width s - (bhi s - blo s)) * (1 # 2) + psz s) (resw s + 1))
                 (blo s - (width s - (bhi s - blo s)) * (1 # 2)) (psz s) (resw s)).
  { apply linspace_mesh; try assumption. rewrite inject_Z_plus. change (inject_Z 1) with 1. lra. }
  assert (Mp : mesh_ok (linspace_open QNum (plo s - (height s - (phi s - plo s)) * (1 # 2))
                 (phi s + (height s - (phi s - plo s)) * (1 # 2) + psz s) (resh s + 1))
                 (plo s - (height s - (phi s - plo s)) * (1 # 2)) (psz s) (resh s)).
  { apply linspace_mesh; try assumption. rewrite inject_Z_plus. change (inject_Z 1) with 1. lra. }
  repeat split; try assumption; try lra; try apply Mb; try apply Mp.
  unfold shape. cbn [psz blo bhi plo phi width height resw resh bpnts ppnts]. qn.
  destruct Mb as [Lb _], Mp as [Lp _]. rewrite Lb, Lp.
  rewrite !Z2Nat.id by lia.
  replace (resw s + 1 - 1 =? resw s)%Z with true by (symmetry; apply Z.eqb_eq; lia).
  replace (resh s + 1 - 1 =? resh s)%Z with true by (symmetry; apply Z.eqb_eq; lia).
  reflexivity.
Qed.

(* ------------------------------------------------------------------ whole pixels *)
Lemma num_pixels_spec ps lo hi :
  0 < ps -> lo <= hi ->
  let n := num_pixels QNum ps lo hi in
  (0 <= n)%Z /\ hi - lo <= inject_Z n * ps /\ inject_Z n * ps - (hi - lo) < ps.
Proof.
  intros Hps Hle n. unfold num_pixels in n. qn.
  set (q := (hi - lo) / ps) in *.
  assert (Hq : q * ps == hi - lo) by (unfold q; field; lra).
  assert (H0 : 0 <= q).
  { unfold q. apply Qle_shift_div_l; lra. }
  pose proof (Qle_ceiling q) as Hc. pose proof (Qceiling_lt q) as Hl. fold n in Hc, Hl.
  unfold Z.sub in Hl. rewrite inject_Z_plus in Hl. change (inject_Z (- (1))%Z) with (-1 # 1) in Hl.
  assert (A : q * ps <= inject_Z n * ps) by (apply Qmult_le_compat_r; lra).
  assert (B : (inject_Z n + -1) * ps < q * ps) by (apply Qmult_lt_compat_r; lra).
  repeat split; try lra.
  assert (C : (Qceiling 0 <= n)%Z) by (apply Qceiling_resp_le; exact H0).
  change (Qceiling 0) with 0%Z in C. exact C.
Qed.

(* ------------------------------------------------------------------ operations *)
Inductive op_ok : op QNum -> Prop :=
| ok_birth lo hi : lo <= hi -> op_ok (@SetBirth QNum lo hi)
| ok_pers lo hi : lo <= hi -> op_ok (@SetPers QNum lo hi)
| ok_pixel p : 0 < p -> op_ok (@SetPixel QNum p)
| ok_fit c k : op_ok (@Fit QNum c k).

Lemma set_birth_inv s lo hi : Inv s -> lo <= hi ->
  let s' := set_birth QNum s lo hi in
  Inv s' /\ psz s' = psz s /\ blo s' <= lo /\ hi <= bhi s' /\ width s' - (hi - lo) < psz s /\
  plo s' == plo s /\ phi s' == phi s /\ height s' = height s /\ resh s' = resh s.
Proof.
  intros (Hps & Hw & Hh & Ew & Eh & Rb & Rp & _) Hle s'.
  destruct (num_pixels_spec (psz s) lo hi Hps Hle) as (N0 & N1 & N2).
  split.
  - apply create_mesh_inv; cbn [psz blo bhi plo phi width height resw resh]; qn; try assumption; reflexivity.
  - unfold s', set_birth, create_mesh. cbn [psz blo bhi plo phi width height resw resh]. qn.
    repeat split; try reflexivity; lra.
Qed.

Lemma set_pers_inv s lo hi : Inv s -> lo <= hi ->
  let s' := set_pers QNum s lo hi in
  Inv s' /\ psz s' = psz s /\ plo s' <= lo /\ hi <= phi s' /\ height s' - (hi - lo) < psz s /\
  blo s' == blo s /\ bhi s' == bhi s /\ width s' = width s /\ resw s' = resw s.
Proof.
  intros (Hps & Hw & Hh & Ew & Eh & Rb & Rp & _) Hle s'.
  destruct (num_pixels_spec (psz s) lo hi Hps Hle) as (N0 & N1 & N2).
  split.
  - apply create_mesh_inv; cbn [psz blo bhi plo phi width height resw resh]; qn; try assumption; reflexivity.
  - unfold s', set_pers, create_mesh. cbn [psz blo bhi plo phi width height resw resh]. qn.
    repeat split; try reflexivity; lra.
Qed.

Lemma set_pixel_inv s p : Inv s -> 0 < p ->
  let s' := set_pixel QNum s p in
  Inv s' /\ psz s' = p /\
  blo s' <= blo s /\ bhi s <= bhi s' /\ width s' - (bhi s - blo s) < p /\
  plo s' <= plo s /\ phi s <= phi s' /\ height s' - (phi s - plo s) < p.
Proof.
  intros (Hps & Hw & Hh & Ew & Eh & Rb & Rp & _) Hp s'.
  assert (Lb : blo s <= bhi s).
  { assert (0 <= inject_Z (resw s)) by (apply injZ_nonneg; exact Hw). nra. }
  assert (Lp : plo s <= phi s).
  { assert (0 <= inject_Z (resh s)) by (apply injZ_nonneg; exact Hh). nra. }
  destruct (num_pixels_spec p (blo s) (bhi s) Hp Lb) as (N0 & N1 & N2).
  destruct (num_pixels_spec p (plo s) (phi s) Hp Lp) as (M0 & M1 & M2).
  split.
  - apply create_mesh_inv; cbn [psz blo bhi plo phi width height resw resh]; qn; try assumption; reflexivity.
  - unfold s', set_pixel, create_mesh. cbn [psz blo bhi plo phi width height resw resh]. qn.
    repeat split; try reflexivity; lra.
Qed.

Lemma ctor_inv bl bh pl ph ps : 0 < ps -> bl <= bh -> pl <= ph ->
  let s := ctor QNum bl bh pl ph ps in
  Inv s /\ psz s = ps /\
  blo s <= bl /\ bh <= bhi s /\ width s - (bh - bl) < ps /\
  plo s <= pl /\ ph <= phi s /\ height s - (ph - pl) < ps.
Proof.
  intros Hp Lb Lp s.
  destruct (num_pixels_spec ps bl bh Hp Lb) as (N0 & N1 & N2).
  destruct (num_pixels_spec ps pl ph Hp Lp) as (M0 & M1 & M2).
  split.
  - apply create_mesh_inv; cbn [psz blo bhi plo phi width height resw resh]; qn; try assumption; reflexivity.
  - unfold s, ctor, create_mesh. cbn [psz blo bhi plo phi width height resw resh]. qn.
    repeat split; try reflexivity; lra.
Qed.

(* ------------------------------------------------------------------ fit: extremes of the data *)
Lemma nmin_le a b : nmin QNum a b <= a /\ nmin QNum a b <= b /\ (nmin QNum a b = a \/ nmin QNum a b = b).
Proof.
  unfold nmin. qn. unfold Qltb. destruct (Qle_bool a b) eqn:E; cbn [negb].
  - apply Qle_bool_iff in E. repeat split; try lra. now left.
  - assert (~ a <= b) by (intro H; apply Qle_bool_iff in H; congruence).
    repeat split; try lra. now right.
Qed.

Lemma nmax_ge a b : a <= nmax QNum a b /\ b <= nmax QNum a b /\ (nmax QNum a b = a \/ nmax QNum a b = b).
Proof.
  unfold nmax. qn. unfold Qltb. destruct (Qle_bool b a) eqn:E; cbn [negb].
  - apply Qle_bool_iff in E. repeat split; try lra. now left.
  - assert (~ b <= a) by (intro H; apply Qle_bool_iff in H; congruence).
    repeat split; try lra. now right.
Qed.

Lemma min_list_spec l : forall x,
  min_list QNum x l <= x /\ (forall y, In y l -> min_list QNum x l <= y) /\ In (min_list QNum x l) (x :: l).
Proof.
  induction l as [|a l IH]; intros x; unfold min_list in *; cbn [fold_left].
  - repeat split; try lra. intros y []. now left.
  - destruct (IH (nmin QNum x a)) as (A & B & C). destruct (nmin_le x a) as (D & E & F).
    repeat split.
    + lra.
    + intros y [<-|I]; [lra|auto].
    + destruct C as [C|C]; [|right; now right].
      destruct F as [F|F]; [left; congruence|right; left; congruence].
Qed.

Lemma max_list_spec l : forall x,
  x <= max_list QNum x l /\ (forall y, In y l -> y <= max_list QNum x l) /\ In (max_list QNum x l) (x :: l).
Proof.
  induction l as [|a l IH]; intros x; unfold max_list in *; cbn [fold_left].
  - repeat split; try lra. intros y []. now left.
  - destruct (IH (nmax QNum x a)) as (A & B & C). destruct (nmax_ge x a) as (D & E & F).
    repeat split.
    + lra.
    + intros y [<-|I]; [lra|auto].
    + destruct C as [C|C]; [|right; now right].
      destruct F as [F|F]; [left; congruence|right; left; congruence].
Qed.

(* all points of a collection, in birth-persistence coordinates *)
Definition coll_points (skew : bool) (c : coll QNum) : list (Q * Q) :=
  flat_map (dgm_points QNum skew) (fst c :: snd c).

(* "e are the extremes of the point list l" *)
Definition extremes (e : Q * Q * Q * Q) (l : list (Q * Q)) : Prop :=
  match e with
  | (mnb, mxb, mnp, mxp) =>
      (forall p, In p l -> mnb <= fst p <= mxb /\ mnp <= snd p <= mxp) /\
      In mnb (map fst l) /\ In mxb (map fst l) /\ In mnp (map snd l) /\ In mxp (map snd l)
  end.

Lemma dgm_ext_spec skew d : extremes (dgm_ext QNum skew d) (dgm_points QNum skew d).
Proof.
  unfold dgm_ext, dgm_points, extremes. destruct d as [p0 rest]. cbn [fst snd map].
  set (q0 := skew_pt QNum skew p0). set (r := map (skew_pt QNum skew) rest).
  destruct (min_list_spec (map fst r) (fst q0)) as (A1 & A2 & A3).
  destruct (max_list_spec (map fst r) (fst q0)) as (B1 & B2 & B3).
  destruct (min_list_spec (map snd r) (snd q0)) as (C1 & C2 & C3).
  destruct (max_list_spec (map snd r) (snd q0)) as (D1 & D2 & D3).
  split; [|repeat split; assumption].
  intros p [<-|I]; [repeat split; assumption|].
  repeat split; [apply A2|apply B2|apply C2|apply D2]; apply in_map; exact I.
Qed.

Lemma extremes_merge e1 l1 e2 l2 : extremes e1 l1 -> extremes e2 l2 ->
  extremes (match e1, e2 with
            | (mnb, mxb, mnp, mxp), (a, b, c', d') => (nmin QNum mnb a, nmax QNum mxb b, nmin QNum mnp c', nmax QNum mxp d')
            end) (l1 ++ l2).
Proof.
  destruct e1 as [[[mnb mxb] mnp] mxp], e2 as [[[a b] c'] d'].
  intros (H1 & I1 & I2 & I3 & I4) (H2 & J1 & J2 & J3 & J4). unfold extremes.
  destruct (nmin_le mnb a) as (A1 & A2 & A3), (nmax_ge mxb b) as (B1 & B2 & B3),
           (nmin_le mnp c') as (C1 & C2 & C3), (nmax_ge mxp d') as (D1 & D2 & D3).
  split.
  - intros p I. apply in_app_or in I. destruct I as [I|I]; [apply H1 in I|apply H2 in I]; lra.
  - rewrite !map_app.
    repeat split; apply in_or_app.
    + destruct A3 as [-> | ->]; [left|right]; assumption.
    + destruct B3 as [-> | ->]; [left|right]; assumption.
    + destruct C3 as [-> | ->]; [left|right]; assumption.
    + destruct D3 as [-> | ->]; [left|right]; assumption.
Qed.

Lemma coll_ext_fold skew ds : forall e l, extremes e l ->
  extremes (fold_left (fun acc d =>
               match acc, dgm_ext QNum skew d with
               | (mnb, mxb, mnp, mxp), (a, b, c', d') => (nmin QNum mnb a, nmax QNum mxb b, nmin QNum mnp c', nmax QNum mxp d')
               end) ds e) (l ++ flat_map (dgm_points QNum skew) ds).
Proof.
  induction ds as [|d ds IH]; intros e l H; cbn [fold_left flat_map].
  - now rewrite app_nil_r.
  - rewrite app_assoc. apply IH. apply extremes_merge; [exact H|apply dgm_ext_spec].
Qed.

Lemma coll_ext_spec skew c : extremes (coll_ext QNum skew c) (coll_points skew c).
Proof.
  unfold coll_ext, coll_points. cbn [flat_map]. apply coll_ext_fold. apply dgm_ext_spec.
Qed.

Lemma extremes_ordered e l : extremes e l ->
  match e with (mnb, mxb, mnp, mxp) => mnb <= mxb /\ mnp <= mxp end.
Proof.
  destruct e as [[[mnb mxb] mnp] mxp]. intros (H & I1 & _ & I3 & _).
  apply in_map_iff in I1. destruct I1 as (p & <- & Ip).
  apply in_map_iff in I3. destruct I3 as (q & <- & Iq).
  pose proof (H p Ip). pose proof (H q Iq). lra.
Qed.

(* post-condition of a fit: every point is covered, and the covered region exceeds the bounding
   box of the data (whose sides are attained by points) by less than a pixel *)
Definition fit_post (s s' : st) (c : coll QNum) (skew : bool) : Prop :=
  psz s' = psz s /\
  (forall p, In p (coll_points skew c) -> blo s' <= fst p <= bhi s' /\ plo s' <= snd p <= phi s') /\
  exists mnb mxb mnp mxp,
    In mnb (map fst (coll_points skew c)) /\ In mxb (map fst (coll_points skew c)) /\
    In mnp (map snd (coll_points skew c)) /\ In mxp (map snd (coll_points skew c)) /\
    width s' - (mxb - mnb) < psz s /\ height s' - (mxp - mnp) < psz s.

Lemma fit_inv s c skew : Inv s -> Inv (fit QNum s c skew) /\ fit_post s (fit QNum s c skew) c skew.
Proof.
  intros HI. unfold fit, fit_with.
  pose proof (coll_ext_spec skew c) as E. pose proof (extremes_ordered _ _ E) as O.
  destruct (coll_ext QNum skew c) as [[[mnb mxb] mnp] mxp].
  destruct O as (Ob & Op). destruct E as (H & I1 & I2 & I3 & I4).
  destruct (set_birth_inv s mnb mxb HI Ob) as (Inv1 & P1 & B1 & B2 & B3 & _).
  destruct (set_pers_inv _ mnp mxp Inv1 Op) as (Inv2 & P2 & Q1 & Q2 & Q3 & Q4 & Q5 & Q6 & _).
  split; [exact Inv2|]. unfold fit_post. split; [congruence|]. split.
  - intros p Ip. specialize (H p Ip). lra.
  - exists mnb, mxb, mnp, mxp. repeat split; try assumption.
Qed.

(* ------------------------------------------------------------------ setter_inv / history_inv *)
Definition post (s : st) (o : op QNum) (s' : st) : Prop :=
  match o with
  | SetBirth lo hi => psz s' = psz s /\ blo s' <= lo /\ hi <= bhi s' /\ width s' - (hi - lo) < psz s /\
                      plo s' == plo s /\ phi s' == phi s /\ height s' = height s /\ resh s' = resh s
  | SetPers lo hi => psz s' = psz s /\ plo s' <= lo /\ hi <= phi s' /\ height s' - (hi - lo) < psz s /\
                     blo s' == blo s /\ bhi s' == bhi s /\ width s' = width s /\ resw s' = resw s
  | SetPixel p => psz s' = p /\
                  blo s' <= blo s /\ bhi s <= bhi s' /\ width s' - (bhi s - blo s) < p /\
                  plo s' <= plo s /\ phi s <= phi s' /\ height s' - (phi s - plo s) < p
  | Fit c k => fit_post s s' c k
  end.

Lemma setter_inv s o : Inv s -> op_ok o -> Inv (step QNum s o) /\ post s o (step QNum s o).
Proof.
  intros HI Hok. destruct Hok; cbn [step post].
  - destruct (set_birth_inv s lo hi HI H) as (A & B). split; [exact A|exact B].
  - destruct (set_pers_inv s lo hi HI H) as (A & B). split; [exact A|exact B].
  - destruct (set_pixel_inv s p HI H) as (A & B). split; [exact A|exact B].
  - apply fit_inv. exact HI.
Qed.

Lemma history_inv h : forall s, Inv s -> Forall op_ok h -> Inv (run QNum s h).
Proof.
  induction h as [|o h IH]; intros s HI F; cbn [run fold_left].
  - exact HI.
  - inversion F; subst. apply IH; [|assumption]. apply setter_inv; assumption.
Qed.

(* every prefix of the history ends in a consistent state *)
Lemma history_inv_prefix h1 h2 s : Inv s -> Forall op_ok (h1 ++ h2) -> Inv (run QNum s h1).
Proof.
  intros HI F. apply history_inv; [exact HI|]. apply Forall_app in F. apply F.
Qed.

(* ------------------------------------------------------------------ the pinned constructor *)
Lemma Qtrunc_mul_div n ps : 0 < ps -> (0 <= n)%Z -> Qtrunc (inject_Z n * ps / ps) = n.
Proof.
  intros Hps Hn. assert (E : inject_Z n * ps / ps == inject_Z n) by (apply Qdiv_mult_l; lra).
  unfold Qtrunc. assert (L : Qle_bool 0 (inject_Z n * ps / ps) = true).
  { apply Qle_bool_iff. rewrite E. change 0 with (inject_Z 0). rewrite <- Zle_Qle. exact Hn. }
  rewrite L. rewrite (Qfloor_comp _ _ E). apply Qfloor_Z.
Qed.

Lemma Qtrunc_comp x y : x == y -> Qtrunc x = Qtrunc y.
Proof.
  intros E. unfold Qtrunc.
  assert (B : Qle_bool 0 x = Qle_bool 0 y).
  { destruct (Qle_bool 0 x) eqn:X, (Qle_bool 0 y) eqn:Y; try reflexivity.
    - apply Qle_bool_iff in X. rewrite E in X. apply Qle_bool_iff in X. congruence.
    - apply Qle_bool_iff in Y. rewrite <- E in Y. apply Qle_bool_iff in Y. congruence. }
  rewrite B. destruct (Qle_bool 0 y); [apply Qfloor_comp|apply Qceiling_comp]; exact E.
Qed.

Lemma Qtrunc_nonneg x : 0 <= x -> (0 <= Qtrunc x)%Z /\ inject_Z (Qtrunc x) <= x.
Proof.
  intros H. unfold Qtrunc. assert (L : Qle_bool 0 x = true) by now apply Qle_bool_iff.
  rewrite L. split; [|apply Qfloor_le].
  assert (C : (Qfloor 0 <= Qfloor x)%Z) by (apply Qfloor_resp_le; exact H). exact C.
Qed.

Definition divides (ps x : Q) : Prop := exists k : Z, x == inject_Z k * ps.

Lemma ctor_legacy_inv_iff bl bh pl ph ps : 0 < ps -> bl <= bh -> pl <= ph ->
  (Inv (ctor_legacy QNum bl bh pl ph ps) <-> divides ps (bh - bl) /\ divides ps (ph - pl)).
Proof.
  intros Hps Lb Lp. split.
  - intros (_ & _ & _ & Ew & Eh & Rb & Rp & _).
    unfold ctor_legacy, create_mesh in *. cbn [psz blo bhi plo phi width height resw resh] in *. qn.
    split; [exists (Qtrunc ((bh - bl) / ps))|exists (Qtrunc ((ph - pl) / ps))]; assumption.
  - intros ((k & Hk) & (m & Hm)).
    assert (K0 : (0 <= k)%Z).
    { apply Z.nlt_ge. intro C. assert (inject_Z k <= inject_Z (-1)) by (rewrite <- Zle_Qle; lia).
      change (inject_Z (-1)) with (-1) in H. nra. }
    assert (M0 : (0 <= m)%Z).
    { apply Z.nlt_ge. intro C. assert (inject_Z m <= inject_Z (-1)) by (rewrite <- Zle_Qle; lia).
      change (inject_Z (-1)) with (-1) in H. nra. }
    unfold ctor_legacy.
    assert (Tk : Qtrunc ((bh - bl) / ps) = k).
    { rewrite <- (Qtrunc_mul_div k ps Hps K0). apply Qtrunc_comp. rewrite Hk. reflexivity. }
    assert (Tm : Qtrunc ((ph - pl) / ps) = m).
    { rewrite <- (Qtrunc_mul_div m ps Hps M0). apply Qtrunc_comp. rewrite Hm. reflexivity. }
    apply create_mesh_inv; cbn [psz blo bhi plo phi width height resw resh]; qn;
      rewrite ?Tk, ?Tm; assumption.
Qed.

(* Ctor (0,1) (0,1) (3/10): the mesh step is 13/40, not 3/10 *)
Lemma ctor_legacy_refuted :
  exists bl bh pl ph ps, 0 < ps /\ bl < bh /\ pl < ph /\
    let s := ctor_legacy QNum bl bh pl ph ps in
    nth 1 (bpnts s) 0 - nth 0 (bpnts s) 0 == 13 # 40 /\ psz s == 3 # 10 /\ resw s = 3%Z /\
    ~ Inv s.
Proof.
  exists 0, 1, 0, 1, (3 # 10). repeat split; try reflexivity.
  intros HI. apply ctor_legacy_inv_iff in HI; try (unfold Qlt, Qle; cbn; lia).
  destruct HI as ((k & Hk) & _).
  (* 1 = k * 3/10 has no integer solution *)
  unfold Qeq, Qminus, Qplus, Qopp, Qmult, inject_Z in Hk. cbn in Hk. lia.
Qed.

(* ------------------------------------------------------------------ pinned setters are right in exact arithmetic *)
Lemma Qtrunc_field_res s : Inv s ->
  Qtrunc (width s / psz s) = resw s /\ Qtrunc (height s / psz s) = resh s.
Proof.
  intros (Hps & Hw & Hh & Ew & Eh & _). split.
  - rewrite <- (Qtrunc_mul_div (resw s) (psz s) Hps Hw). apply Qtrunc_comp. rewrite Ew. reflexivity.
  - rewrite <- (Qtrunc_mul_div (resh s) (psz s) Hps Hh). apply Qtrunc_comp. rewrite Eh. reflexivity.
Qed.

Lemma set_birth_legacy_eq s lo hi : Inv s -> lo <= hi -> set_birth_legacy QNum s lo hi = set_birth QNum s lo hi.
Proof.
  intros HI Hle. destruct (Qtrunc_field_res s HI) as (_ & Th).
  destruct HI as (Hps & _).
  destruct (num_pixels_spec (psz s) lo hi Hps Hle) as (N0 & _).
  unfold set_birth_legacy, set_birth, legacy_res. cbn [fst snd]. qn.
  rewrite Th. rewrite (Qtrunc_mul_div _ _ Hps N0). reflexivity.
Qed.

Lemma set_pers_legacy_eq s lo hi : Inv s -> lo <= hi -> set_pers_legacy QNum s lo hi = set_pers QNum s lo hi.
Proof.
  intros HI Hle. destruct (Qtrunc_field_res s HI) as (Tw & _).
  destruct HI as (Hps & _).
  destruct (num_pixels_spec (psz s) lo hi Hps Hle) as (N0 & _).
  unfold set_pers_legacy, set_pers, legacy_res. cbn [fst snd]. qn.
  rewrite Tw. rewrite (Qtrunc_mul_div _ _ Hps N0). reflexivity.
Qed.

Lemma set_pixel_legacy_eq s p : Inv s -> 0 < p -> set_pixel_legacy QNum s p = set_pixel QNum s p.
Proof.
  intros (Hps & Hw & Hh & Ew & Eh & Rb & Rp & _) Hp.
  assert (Lb : blo s <= bhi s).
  { assert (0 <= inject_Z (resw s)) by (apply injZ_nonneg; exact Hw). nra. }
  assert (Lp : plo s <= phi s).
  { assert (0 <= inject_Z (resh s)) by (apply injZ_nonneg; exact Hh). nra. }
  destruct (num_pixels_spec p (blo s) (bhi s) Hp Lb) as (N0 & _).
  destruct (num_pixels_spec p (plo s) (phi s) Hp Lp) as (M0 & _).
  unfold set_pixel_legacy, set_pixel, legacy_res. cbn [fst snd]. qn.
  rewrite (Qtrunc_mul_div _ _ Hp N0), (Qtrunc_mul_div _ _ Hp M0). reflexivity.
Qed.

Lemma legacy_setters_exact s o : Inv s -> op_ok o -> step_legacy QNum s o = step QNum s o.
Proof.
  intros HI Hok. destruct Hok; cbn [step step_legacy].
  - apply set_birth_legacy_eq; assumption.
  - apply set_pers_legacy_eq; assumption.
  - apply set_pixel_legacy_eq; assumption.
  - unfold fit_legacy, fit, fit_with.
    pose proof (coll_ext_spec k c) as E. pose proof (extremes_ordered _ _ E) as O.
    destruct (coll_ext QNum k c) as [[[mnb mxb] mnp] mxp]. destruct O as (Ob & Op).
    rewrite (set_birth_legacy_eq s mnb mxb HI Ob).
    destruct (set_birth_inv s mnb mxb HI Ob) as (Inv1 & _).
    apply set_pers_legacy_eq; assumption.
Qed.

(* ------------------------------------------------------------------ binary64: the pinned setters are refuted *)
(* ps = 0x1.76f7bea3dabf5p-1, birth range := (0, 7*ps): ceil((7*ps)/ps) = 7 pixels are needed and the
   width is 7*ps, but int(width/ps) = 6; the 7 mesh nodes are then 0.8369... apart instead of ps.
   The repaired setter gives resolution 7 on the same input. *)
Definition ps_w : float := 0x1.76f7bea3dabf5p-1%float.
Definition f0 : float := 0%float.
Definition f1 : float := 1%float.

Lemma setter_float_refuted :
  exists (ps hi : float),
    let s0 := ctor_legacy FNum f0 f1 f0 f1 ps in
    let s := set_birth_legacy FNum s0 f0 hi in
    num_pixels FNum ps f0 hi = 7%Z /\ resw s = 6%Z /\
    PrimFloat.eqb (PrimFloat.mul (fl_of_Z (resw s)) (psz s)) (width s) = false /\
    PrimFloat.eqb (PrimFloat.sub (bhi s) (blo s)) (width s) = true /\
    PrimFloat.ltb (psz s) (PrimFloat.sub (nth 1 (bpnts s) f0) (nth 0 (bpnts s) f0)) = true /\
    resw (set_birth FNum (ctor FNum f0 f1 f0 f1 ps) f0 hi) = 7%Z.
Proof.
  exists ps_w, (PrimFloat.mul 7%float ps_w). vm_compute. repeat split; reflexivity.
Qed.

(* ------------------------------------------------------------------ pixels are squares; where a point lands *)
Lemma mesh_steps l lo ps n : mesh_ok l lo ps n -> forall i, (S i < length l)%nat ->
  (nth (S i) l 0 - nth i l 0 == ps)%Q.
Proof.
  intros (_ & H) i Hi. rewrite (H (S i) Hi), (H i) by lia.
  rewrite Nat2Z.inj_succ. unfold Z.succ. rewrite inject_Z_plus. change (inject_Z 1) with 1%Q. lra.
Qed.

Lemma pixels_square s : Inv s ->
  (forall i, (Z.of_nat i < resw s)%Z -> nth (S i) (bpnts s) 0 - nth i (bpnts s) 0 == psz s) /\
  (forall j, (Z.of_nat j < resh s)%Z -> nth (S j) (ppnts s) 0 - nth j (ppnts s) 0 == psz s) /\
  nth 0 (bpnts s) 0 == blo s /\ nth (Z.to_nat (resw s)) (bpnts s) 0 == bhi s /\
  nth 0 (ppnts s) 0 == plo s /\ nth (Z.to_nat (resh s)) (ppnts s) 0 == phi s.
Proof.
  intros (Hps & Hw & Hh & Ew & Eh & Rb & Rp & Mb & Mp & _).
  pose proof Mb as (Lb & Nb). pose proof Mp as (Lp & Np).
  repeat split.
  - intros i Hi. apply (mesh_steps _ _ _ _ Mb). rewrite Lb. lia.
  - intros j Hj. apply (mesh_steps _ _ _ _ Mp). rewrite Lp. lia.
  - rewrite Nb by (rewrite Lb; lia). change (inject_Z (Z.of_nat 0)) with 0. lra.
  - rewrite Nb by (rewrite Lb; lia). rewrite Z2Nat.id by lia. lra.
  - rewrite Np by (rewrite Lp; lia). change (inject_Z (Z.of_nat 0)) with 0. lra.
  - rewrite Np by (rewrite Lp; lia). rewrite Z2Nat.id by lia. lra.
Qed.

Lemma floor_ge_int z q : inject_Z z <= q <-> (z <= Qfloor q)%Z.
Proof.
  split; intros H.
  - rewrite <- (Qfloor_Z z). apply Qfloor_resp_le. exact H.
  - apply Qle_trans with (inject_Z (Qfloor q)); [rewrite <- Zle_Qle; exact H|apply Qfloor_le].
Qed.

Lemma count_le_mesh lo ps x : 0 < ps -> forall l off,
  (forall i, (i < length l)%nat -> nth i l 0 == lo + inject_Z (off + Z.of_nat i) * ps) ->
  length (filter (fun node => Qle_bool node x) l) =
  Z.to_nat (Z.max 0 (Z.min (Z.of_nat (length l)) (Qfloor ((x - lo) / ps) + 1 - off))).
Proof.
  intros Hps. set (q := (x - lo) / ps). assert (Hq : q * ps == x - lo) by (unfold q; field; lra).
  induction l as [|a l IH]; intros off H.
  - cbn. lia.
  - assert (Ha : a == lo + inject_Z off * ps).
    { specialize (H 0%nat). cbn [nth length] in H. rewrite H by lia. rewrite Z.add_0_r. reflexivity. }
    assert (IH' : length (filter (fun node => Qle_bool node x) l) =
                  Z.to_nat (Z.max 0 (Z.min (Z.of_nat (length l)) (Qfloor q + 1 - (off + 1))))).
    { apply IH. intros i Hi. specialize (H (S i)). cbn [nth length] in H. rewrite H by lia.
      rewrite Nat2Z.inj_succ. unfold Z.succ. rewrite !inject_Z_plus. lra. }
    cbn [filter length]. destruct (Qle_bool a x) eqn:E.
    + apply Qle_bool_iff in E.
      assert (inject_Z off <= q).
      { destruct (Qlt_le_dec q (inject_Z off)) as [L|L]; [|exact L].
        assert (q * ps < inject_Z off * ps) by (apply Qmult_lt_compat_r; assumption). lra. }
      apply floor_ge_int in H0. cbn [length]. rewrite IH'. rewrite Nat2Z.inj_succ. lia.
    + assert (~ a <= x) by (intro L; apply Qle_bool_iff in L; congruence).
      assert (~ (off <= Qfloor q)%Z).
      { intro L. apply floor_ge_int in L.
        assert (inject_Z off * ps <= q * ps) by (apply Qmult_le_compat_r; lra). lra. }
      rewrite IH'. rewrite Nat2Z.inj_succ. lia.
Qed.

(* a point mass at x with blo <= x < bhi falls into pixel floor((x - blo)/ps), which exists *)
Lemma locate_pixel s x : Inv s -> blo s <= x -> x < bhi s ->
  locate QNum (bpnts s) x = Qfloor ((x - blo s) / psz s) /\
  (0 <= Qfloor ((x - blo s) / psz s) < resw s)%Z.
Proof.
  intros (Hps & Hw & Hh & Ew & Eh & Rb & Rp & (Lb & Nb) & _) Hlo Hhi.
  set (q := (x - blo s) / psz s). assert (Hq : q * psz s == x - blo s) by (unfold q; field; lra).
  assert (K0 : (0 <= Qfloor q)%Z).
  { apply floor_ge_int. change (inject_Z 0) with 0.
    destruct (Qlt_le_dec q 0) as [L|L]; [|exact L].
    assert (q * psz s < 0 * psz s) by (apply Qmult_lt_compat_r; assumption). lra. }
  assert (K1 : (Qfloor q < resw s)%Z).
  { apply Z.nle_gt. intro L. apply floor_ge_int in L.
    assert (inject_Z (resw s) * psz s <= q * psz s) by (apply Qmult_le_compat_r; lra). lra. }
  split; [|lia].
  change (Z.of_nat (length (filter (fun node : Q => Qle_bool node x) (bpnts s))) - 1 = Qfloor q)%Z.
  rewrite (count_le_mesh (blo s) (psz s) x Hps (bpnts s) 0%Z).
  - fold q. rewrite Lb. lia.
  - intros i Hi. rewrite Z.add_0_l. apply Nb. exact Hi.
Qed.

Lemma locate_pixel_pers s y : Inv s -> plo s <= y -> y < phi s ->
  locate QNum (ppnts s) y = Qfloor ((y - plo s) / psz s) /\
  (0 <= Qfloor ((y - plo s) / psz s) < resh s)%Z.
Proof.
  intros (Hps & Hw & Hh & Ew & Eh & Rb & Rp & _ & (Lp & Np) & _) Hlo Hhi.
  set (q := (y - plo s) / psz s). assert (Hq : q * psz s == y - plo s) by (unfold q; field; lra).
  assert (K0 : (0 <= Qfloor q)%Z).
  { apply floor_ge_int. change (inject_Z 0) with 0.
    destruct (Qlt_le_dec q 0) as [L|L]; [|exact L].
    assert (q * psz s < 0 * psz s) by (apply Qmult_lt_compat_r; assumption). lra. }
  assert (K1 : (Qfloor q < resh s)%Z).
  { apply Z.nle_gt. intro L. apply floor_ge_int in L.
    assert (inject_Z (resh s) * psz s <= q * psz s) by (apply Qmult_le_compat_r; lra). lra. }
  split; [|lia].
  change (Z.of_nat (length (filter (fun node : Q => Qle_bool node y) (ppnts s))) - 1 = Qfloor q)%Z.
  rewrite (count_le_mesh (plo s) (psz s) y Hps (ppnts s) 0%Z).
  - fold q. rewrite Lp. lia.
  - intros i Hi. rewrite Z.add_0_l. apply Np. exact Hi.
Qed.
