(* Lemmas about the scene model Model/SceneM.v (property C20), over Q. *)
From Coq Require Import QArith Qminmax Qabs List Bool ZArith Lqa Lia.
From Persim Require Import Model.SceneM.
Import ListNotations.
Open Scope Q_scope.

Lemma qmin_list_le_init l : forall v, qmin_list v l <= v.
Proof. induction l as [|x l IH]; intro v; simpl. lra. unfold qmin_list in *. simpl.
  eapply Qle_trans. apply IH. apply Q.le_min_l. Qed.
Lemma qmin_list_le l : forall v x, In x (v :: l) -> qmin_list v l <= x.
Proof. induction l as [|y l IH]; intros v x [<-|I]. 
  - simpl. lra. - destruct I. 
  - apply qmin_list_le_init.
  - unfold qmin_list in *. simpl. destruct I as [<-|I].
    + eapply Qle_trans. apply (qmin_list_le_init l). apply Q.le_min_r.
    + apply IH. right. exact I. Qed.
Lemma qmax_list_ge_init l : forall v, v <= qmax_list v l.
Proof. induction l as [|x l IH]; intro v; simpl. lra. unfold qmax_list in *. simpl.
  eapply Qle_trans. 2: apply IH. apply Q.le_max_l. Qed.
Lemma qmax_list_ge l : forall v x, In x (v :: l) -> x <= qmax_list v l.
Proof. induction l as [|y l IH]; intros v x [<-|I]. 
  - simpl. lra. - destruct I. 
  - apply qmax_list_ge_init.
  - unfold qmax_list in *. simpl. destruct I as [<-|I].
    + eapply Qle_trans. 2: apply (qmax_list_ge_init l). apply Q.le_max_r.
    + apply IH. right. exact I. Qed.

Definition y_down_of (o : opts) (y_down0 y_up0 : Q) : Q :=
  if o_lifetime o then life_ydown (y_up0 - y_down0) else y_down0.
Definition y_up_of (o : opts) (y_down0 y_up0 : Q) : Q :=
  if o_lifetime o then life_ydown (y_up0 - y_down0) + (y_up0 - y_down0) else y_up0.
Definition b_inf_of (o : opts) (y_down0 y_up0 : Q) : Q :=
  inf_ordinate (y_down_of o y_down0 y_up0) (y_up0 - y_down0).

Lemma plot_diagrams_inv o dgms s : plot_diagrams o dgms = Ok s ->
  exists ds labs x_down x_up y_down0 y_up0,
    select (o_plot_only o) dgms = Some ds /\
    labels_for (o_labels o) (o_plot_only o) (length dgms) (length ds) = LOk labs /\
    limits (o_xy_range o) (finite_vals ds) = Some (x_down, x_up, y_down0, y_up0) /\
    s_scatter s = combine labs (map (map (conv_point (o_lifetime o) (b_inf_of o y_down0 y_up0))) ds) /\
    s_xlim s = (x_down, x_up) /\
    s_ylim s = (y_down_of o y_down0 y_up0, y_up_of o y_down0 y_up0) /\
    s_lines s =
      (if o_lifetime o then [mkLine Given Horizon [(x_down, 0); (x_up, 0)]] else []) ++
      (if (if o_lifetime o then false else o_diagonal o)
       then [mkLine Given Diagonal [(x_down, x_down); (x_up, x_up)]] else []) ++
      (if has_inf ds then [mkLine Given InfLine [(x_down, b_inf_of o y_down0 y_up0); (x_up, b_inf_of o y_down0 y_up0)]] else []) /\
    s_title s = o_title o /\ s_legend s = o_legend o /\
    s_xlabel s = (match s_scatter s with [] => None | _ => Some Birth end) /\
    s_ylabel s = (match s_scatter s with [] => None | _ => Some (if o_lifetime o then Lifetime else Death) end).
Proof.
  unfold plot_diagrams. intro H.
  destruct (select (o_plot_only o) dgms) as [ds|] eqn:Es; [|discriminate].
  destruct (labels_for _ _ _ _) as [labs| |] eqn:El; try discriminate.
  destruct (limits _ _) as [[[[xd xu] yd] yu]|] eqn:Elim; [|discriminate].
  inversion H; subst s; clear H. exists ds, labs, xd, xu, yd, yu.
  unfold b_inf_of, y_down_of, y_up_of. cbn [s_scatter s_xlim s_ylim s_lines s_title s_legend s_xlabel s_ylabel].
  repeat split; try reflexivity; assumption.
Qed.

Lemma limits_auto fin xd xu yd yu : limits None fin = Some (xd, xu, yd, yu) ->
  yd = xd /\ yu = xu /\ exists mn mx, (forall x, In x fin -> mn <= x <= mx) /\ mn <= mx /\
    xd = mn - (mx - mn) * (1#5) * (1#2) /\ xu = mx + (mx - mn) * (1#5).
Proof.
  unfold limits. destruct fin as [|v vs]; [discriminate|]. intro H. inversion H; subst; clear H.
  split; [reflexivity|]. split; [reflexivity|].
  exists (qmin_list v vs), (qmax_list v vs). split; [|split; [|split; reflexivity]].
  - intros x I. split. apply qmin_list_le; exact I. apply qmax_list_ge; exact I.
  - eapply Qle_trans. apply (qmin_list_le vs v v). left; reflexivity. apply qmax_list_ge. left; reflexivity.
Qed.

Lemma in_finite_birth ds d (b : bar) : In d ds -> In b d -> In (fst b) (finite_vals ds).
Proof. intros Hd Hb. unfold finite_vals. apply in_flat_map. exists d. split; [exact Hd|].
  apply in_flat_map. exists b. split; [exact Hb|]. left. reflexivity. Qed.
Lemma in_finite_death ds d (b : bar) x : In d ds -> In b d -> snd b = Fin x -> In x (finite_vals ds).
Proof. intros Hd Hb E. unfold finite_vals. apply in_flat_map. exists d. split; [exact Hd|].
  apply in_flat_map. exists b. split; [exact Hb|]. right. rewrite E. left. reflexivity. Qed.

Lemma in_scatter {A B} (labs : list label) (f : A -> B) ds lab pts :
  In (lab, pts) (combine labs (map f ds)) -> exists d, In d ds /\ pts = f d.
Proof. intro I. apply in_combine_r in I. apply in_map_iff in I. destruct I as [d [E I]]. exists d. split; auto. Qed.

Lemma collect_in {A} (l : list (option A)) : forall v x, collect l = Some v -> In x v -> In (Some x) l.
Proof. induction l as [|[a|] l IH]; simpl; intros v x H I.
  - inversion H; subst. destruct I.
  - destruct (collect l) as [w|] eqn:E; [|discriminate]. inversion H; subst. destruct I as [<-|I]. left; reflexivity.
    right. eapply IH; eauto.
  - discriminate. Qed.
Lemma select_in {A} po (l ds : list A) d : select po l = Some ds -> In d ds -> In d l.
Proof. unfold select. destruct po as [[|i idx]|]; intros H I; try (inversion H; subst; exact I).
  apply (collect_in _ _ _ H) in I. apply in_map_iff in I. destruct I as [k [E _]]. eapply nth_error_In; eauto. Qed.

Definition births_le_deaths (ds : list dgm) : Prop :=
  forall d b x, In d ds -> In (b, Fin x) d -> b <= x.

Lemma points_within_limits_gen o dgms s :
  plot_diagrams o dgms = Ok s -> o_xy_range o = None ->
  (o_lifetime o = true -> births_le_deaths dgms) ->
  forall lab pts x y, In (lab, pts) (s_scatter s) -> In (x, y) pts ->
    fst (s_xlim s) <= x <= snd (s_xlim s) /\ fst (s_ylim s) <= y <= snd (s_ylim s).
Proof.
  intros H Hxy Hlife lab pts x y Isc Ipt.
  destruct (plot_diagrams_inv _ _ _ H) as (ds & labs & xd & xu & yd & yu & Es & _ & Elim & Esc & Ex & Ey & _).
  rewrite Hxy in Elim. destruct (limits_auto _ _ _ _ _ Elim) as (-> & -> & mn & mx & Hin & Hle & -> & ->).
  rewrite Esc in Isc. destruct (in_scatter _ _ _ _ _ Isc) as (d & Id & ->).
  apply in_map_iff in Ipt. destruct Ipt as ([b e] & Ec & Ib).
  pose proof (Hin _ (in_finite_birth _ _ _ Id Ib)) as Hb. simpl in Hb.
  rewrite Ex, Ey. unfold y_down_of, y_up_of, b_inf_of, y_down_of, conv_point, inf_ordinate, life_ydown in *.
  simpl fst in *; simpl snd in *.
  destruct e as [dd|].
  - pose proof (Hin _ (in_finite_death _ _ _ _ Id Ib eq_refl)) as Hd.
    destruct (o_lifetime o) eqn:L; inversion Ec; subst; clear Ec.
    + assert (x <= dd) by (apply (Hlife eq_refl d x dd); [eapply select_in; eauto|exact Ib]).
      split; split; lra.
    + split; split; lra.
  - destruct (o_lifetime o) eqn:L; inversion Ec; subst; clear Ec; split; split; lra.
Qed.

Lemma points_within_limits_bd o dgms s :
  plot_diagrams o dgms = Ok s -> o_xy_range o = None -> o_lifetime o = false ->
  forall lab pts x y, In (lab, pts) (s_scatter s) -> In (x, y) pts ->
    fst (s_xlim s) <= x <= snd (s_xlim s) /\ fst (s_ylim s) <= y <= snd (s_ylim s).
Proof. intros H R L. apply (points_within_limits_gen o dgms s H R). intro E. congruence. Qed.

Lemma points_within_limits_lt o dgms s :
  plot_diagrams o dgms = Ok s -> o_xy_range o = None -> o_lifetime o = true ->
  (forall d b x, In d dgms -> In (b, Fin x) d -> b <= x) ->
  forall lab pts x y, In (lab, pts) (s_scatter s) -> In (x, y) pts ->
    fst (s_xlim s) <= x <= snd (s_xlim s) /\ fst (s_ylim s) <= y <= snd (s_ylim s).
Proof. intros H R L B. apply (points_within_limits_gen o dgms s H R). intros _. exact B. Qed.

(* the infinity line: horizontal, spanning the x-limits, strictly inside the y-limits *)
Lemma inf_line_inside_lemma o dgms s :
  plot_diagrams o dgms = Ok s -> fst (s_ylim s) < snd (s_ylim s) ->
  forall l, In l (s_lines s) -> l_kind l = InfLine ->
    exists b, l_pts l = [(fst (s_xlim s), b); (snd (s_xlim s), b)] /\
              fst (s_ylim s) < b < snd (s_ylim s) /\ l_ax l = Given.
Proof.
  intros H Hy l Il Kl.
  destruct (plot_diagrams_inv _ _ _ H) as (ds & labs & xd & xu & yd & yu & _ & _ & _ & _ & Ex & Ey & El & _).
  rewrite Ex, Ey in *. rewrite El in Il. simpl fst in *; simpl snd in *.
  exists (b_inf_of o yd yu).
  assert (Hb : y_down_of o yd yu < b_inf_of o yd yu < y_up_of o yd yu).
  { unfold b_inf_of, y_down_of, y_up_of, inf_ordinate, life_ydown in *. destruct (o_lifetime o); split; lra. }
  apply in_app_or in Il. destruct Il as [Il|Il].
  { destruct (o_lifetime o); simpl in Il; [destruct Il as [<-|[]]; discriminate|destruct Il]. }
  apply in_app_or in Il. destruct Il as [Il|Il].
  { destruct (if o_lifetime o then false else o_diagonal o); simpl in Il; [destruct Il as [<-|[]]; discriminate|destruct Il]. }
  destruct (has_inf ds); simpl in Il; [|destruct Il]. destruct Il as [<-|[]]. simpl. repeat split; try reflexivity; apply Hb.
Qed.

(* what is scattered: the selected diagrams, point by point; infinite deaths sit on the infinity line *)
Lemma scatter_lemma o dgms s :
  plot_diagrams o dgms = Ok s ->
  exists ds labs b_inf,
    select (o_plot_only o) dgms = Some ds /\
    labels_for (o_labels o) (o_plot_only o) (length dgms) (length ds) = LOk labs /\
    s_scatter s = combine labs (map (map (conv_point (o_lifetime o) b_inf)) ds) /\
    (has_inf ds = true ->
       In (mkLine Given InfLine [(fst (s_xlim s), b_inf); (snd (s_xlim s), b_inf)]) (s_lines s)).
Proof.
  intros H.
  destruct (plot_diagrams_inv _ _ _ H) as (ds & labs & xd & xu & yd & yu & Es & Elab & _ & Esc & Ex & _ & El & _).
  exists ds, labs, (b_inf_of o yd yu). repeat split; try assumption.
  intro Hi. rewrite El, Ex, Hi. simpl. apply in_or_app. right. apply in_or_app. right. left. reflexivity.
Qed.

Lemma collect_length {A} (l : list (option A)) : forall v, collect l = Some v -> length v = length l.
Proof. induction l as [|[a|] l IH]; simpl; intros v H; try discriminate.
  - inversion H; reflexivity.
  - destruct (collect l) eqn:E; [|discriminate]. inversion H; subst. simpl. f_equal. apply IH. reflexivity. Qed.

Lemma select_length {A B} po (l : list A) (l' : list B) a b :
  length l = length l' -> select po l = Some a -> select po l' = Some b -> length a = length b.
Proof. unfold select. destruct po as [[|i idx]|]; intros E H1 H2; try (inversion H1; inversion H2; subst; exact E).
  apply collect_length in H1. apply collect_length in H2. rewrite H1, H2, !map_length. reflexivity. Qed.

(* with default labels, one string for all, or as many labels as diagrams, there is exactly one
   collection per plotted diagram *)
Lemma scatter_count o dgms s ds :
  plot_diagrams o dgms = Ok s -> select (o_plot_only o) dgms = Some ds ->
  (o_labels o = LabNone \/ (exists k, o_labels o = LabOne k) \/
   (exists l, o_labels o = LabList l /\ length l = length dgms)) ->
  length (s_scatter s) = length ds.
Proof.
  intros H Es Hl. destruct (scatter_lemma _ _ _ H) as (ds' & labs & b & Es' & Elab & Esc & _).
  rewrite Es in Es'. inversion Es'; subst ds'. rewrite Esc, combine_length, !map_length.
  assert (length labs = length ds).
  { destruct Hl as [Hl|[[k Hl]|[l [Hl Hlen]]]]; rewrite Hl in Elab; simpl in Elab.
    - destruct (select (o_plot_only o) (map LDefault (seq 0 (length dgms)))) as [l|] eqn:E; [|discriminate].
      inversion Elab; subst. eapply select_length; [|exact E|exact Es]. rewrite map_length, seq_length. reflexivity.
    - destruct (o_plot_only o) as [[|]|]; try discriminate; inversion Elab; apply repeat_length.
    - destruct (select (o_plot_only o) (map LUser l)) as [l'|] eqn:E; [|discriminate].
      inversion Elab; subst. eapply select_length; [|exact E|exact Es]. rewrite map_length. exact Hlen. }
  rewrite H0. apply Nat.min_id.
Qed.

Lemma options_lemma o dgms s :
  plot_diagrams o dgms = Ok s ->
  s_title s = o_title o /\ s_legend s = o_legend o /\
  (s_scatter s <> [] -> s_xlabel s = Some Birth /\
                         s_ylabel s = Some (if o_lifetime o then Lifetime else Death)) /\
  (forall a b c d, o_xy_range o = Some (a, b, c, d) ->
     s_xlim s = (a, b) /\ (o_lifetime o = false -> s_ylim s = (c, d)) /\
     (o_lifetime o = true -> snd (s_ylim s) - fst (s_ylim s) == d - c)) /\
  ((exists l, In l (s_lines s) /\ l_kind l = Diagonal) <-> (o_diagonal o = true /\ o_lifetime o = false)) /\
  ((exists l, In l (s_lines s) /\ l_kind l = Horizon) <-> o_lifetime o = true) /\
  Forall (fun l => l_ax l = Given) (s_lines s).
Proof.
  intros H.
  destruct (plot_diagrams_inv _ _ _ H) as (ds & labs & xd & xu & yd & yu & _ & _ & Elim & _ & Ex & Ey & El & Et & Eg & Exl & Eyl).
  split; [exact Et|]. split; [exact Eg|]. split.
  { intro Hne. rewrite Exl, Eyl. destruct (s_scatter s); [congruence|split; reflexivity]. }
  split.
  { intros a b c d Hr. rewrite Hr in Elim. simpl in Elim. inversion Elim; subst. rewrite Ex, Ey.
    unfold y_down_of, y_up_of. split; [reflexivity|]. split; intro L; rewrite L; simpl; [reflexivity|ring]. }
  rewrite El. split; [|split].
  - destruct (o_lifetime o), (o_diagonal o), (has_inf ds); simpl; split;
      try (intros [l [I K]]; repeat (destruct I as [<-|I]; [try discriminate K|]); try contradiction; split; reflexivity);
      try (intros [A B]; first [discriminate A|discriminate B|eexists; split; [left; reflexivity|reflexivity]]).
    all: try (intros [l [I K]]; exfalso; repeat (destruct I as [<-|I]; [discriminate K|]); contradiction).
  - destruct (o_lifetime o), (o_diagonal o), (has_inf ds); simpl; split;
      try (intros [l [I K]]; repeat (destruct I as [<-|I]; [try discriminate K|]); try contradiction; reflexivity);
      try (intros A; first [discriminate A|eexists; split; [left; reflexivity|reflexivity]]).
  - destruct (o_lifetime o), (o_diagonal o), (has_inf ds); simpl; repeat constructor.
Qed.

(* ---------------------------------------------------------------- matchings *)
Definition drawn (r : row) : bool := let '(i, j, _) := r in negb ((i =? -1)%Z && (j =? -1)%Z).

(* what the segment of row number k must look like *)
Definition seg_spec (ax1 : axes) (d1 d2 : list pt) (mx : option nat) (kr : nat * row) (l : line) : Prop :=
  let '(k, (i, j, _)) := kr in
  l_kind l = (match mx with Some a => if Nat.eqb a k then SegMax else Seg | None => Seg end) /\
  if (i =? -1)%Z then exists p, getpt d2 j = Some p /\ l_pts l = [p; foot p] /\ l_ax l = ax1
  else if (j =? -1)%Z then exists p, getpt d1 i = Some p /\ l_pts l = [p; foot p] /\ l_ax l = Given
  else exists p q, getpt d1 i = Some p /\ getpt d2 j = Some q /\ l_pts l = [p; q] /\ l_ax l = Given.

Definition indexed (k0 : nat) (m : list row) : list (nat * row) := combine (seq k0 (length m)) m.

Definition seg_shape (ax1 : axes) (d1 d2 : list pt) (r : row) (l : line) : Prop :=
  let '(i, j, _) := r in
  if (i =? -1)%Z then exists p, getpt d2 j = Some p /\ l_pts l = [p; foot p] /\ l_ax l = ax1
  else if (j =? -1)%Z then exists p, getpt d1 i = Some p /\ l_pts l = [p; foot p] /\ l_ax l = Given
  else exists p q, getpt d1 i = Some p /\ getpt d2 j = Some q /\ l_pts l = [p; q] /\ l_ax l = Given.

Lemma seg_of_spec legacy d1 d2 kd r :
  match seg_of legacy d1 d2 kd r with
  | Some (Some l) => drawn r = true /\ l_kind l = kd /\ seg_shape (ax_minus1 legacy) d1 d2 r l
  | Some None => drawn r = false
  | None => True
  end.
Proof.
  destruct r as [[i j] c]. unfold seg_of, drawn, seg_shape.
  destruct (i =? -1)%Z; destruct (j =? -1)%Z; simpl.
  - reflexivity.
  - destruct (getpt d2 j) as [p|]; [|exact I]. repeat split. exists p. auto.
  - destruct (getpt d1 i) as [p|]; [|exact I]. repeat split. exists p. auto.
  - destruct (getpt d1 i) as [p|]; [|exact I]. destruct (getpt d2 j) as [q|]; [|exact I]. repeat split. exists p, q. auto.
Qed.

Lemma seg_spec_of ax1 d1 d2 mx k r l :
  l_kind l = (match mx with Some a => if Nat.eqb a k then SegMax else Seg | None => Seg end) ->
  seg_shape ax1 d1 d2 r l -> seg_spec ax1 d1 d2 mx (k, r) l.
Proof. destruct r as [[i j] c]. unfold seg_spec, seg_shape. auto. Qed.

Lemma segs_from_spec legacy d1 d2 mx : forall m k0 ls,
  segs_from legacy d1 d2 mx k0 m = Some ls ->
  Forall2 (seg_spec (ax_minus1 legacy) d1 d2 mx) (filter (fun kr => drawn (snd kr)) (indexed k0 m)) ls.
Proof.
  induction m as [|r m IH]; intros k0 ls H; cbn [segs_from] in H.
  - inversion H. constructor.
  - unfold indexed. simpl length. simpl seq. simpl combine. cbn [filter snd].
    match type of H with context [seg_of legacy d1 d2 ?kd r] => pose proof (seg_of_spec legacy d1 d2 kd r) as HS;
      destruct (seg_of legacy d1 d2 kd r) as [[l|]|] end; [| |discriminate].
    + destruct (segs_from legacy d1 d2 mx (S k0) m) as [ls'|] eqn:Er; [|discriminate]. inversion H; subst; clear H.
      destruct HS as (Dr & Kd & Sh). rewrite Dr. constructor; [|apply IH; exact Er].
      apply seg_spec_of; assumption.
    + destruct (segs_from legacy d1 d2 mx (S k0) m) as [ls'|] eqn:Er; [|discriminate]. inversion H; subst; clear H.
      rewrite HS. apply IH; exact Er.
Qed.

(* np.argmax: first index of the maximum *)

(* invariant of the scan: (bi, best) is the first maximum of the prefix *)
Lemma argmax_from_inv : forall l (pre : list Q) best bi,
  (bi < length pre)%nat -> nth bi pre 0 = best ->
  (forall n, (n < length pre)%nat -> nth n pre 0 <= best) ->
  (forall n, (n < bi)%nat -> nth n pre 0 < best) ->
  let a := argmax_from best bi (length pre) l in
  (a < length (pre ++ l))%nat /\
  (forall n, (n < length (pre ++ l))%nat -> nth n (pre ++ l) 0 <= nth a (pre ++ l) 0) /\
  (forall n, (n < a)%nat -> nth n (pre ++ l) 0 < nth a (pre ++ l) 0).
Proof.
  induction l as [|x l IH]; intros pre best bi Hb Hn Hall Hfirst; simpl.
  - rewrite app_nil_r. rewrite Hn. auto.
  - replace (pre ++ x :: l) with ((pre ++ [x]) ++ l) by (rewrite <- app_assoc; reflexivity).
    replace (S (length pre)) with (length (pre ++ [x])) by (rewrite app_length; simpl; lia).
    destruct (Qle_bool x best) eqn:E.
    + apply Qle_bool_iff in E. apply IH.
      * rewrite app_length; simpl; lia.
      * rewrite app_nth1 by exact Hb. exact Hn.
      * intros n Hl. rewrite app_length in Hl; simpl in Hl.
        destruct (Nat.eq_dec n (length pre)) as [->|Ne].
        -- rewrite app_nth2 by lia. rewrite Nat.sub_diag. simpl. exact E.
        -- rewrite app_nth1 by lia. apply Hall. lia.
      * intros n Hl. rewrite app_nth1 by lia. apply Hfirst. exact Hl.
    + assert (Hlt : best < x).
      { destruct (Qlt_le_dec best x) as [L|L]; [exact L|]. apply Qle_bool_iff in L. congruence. }
      apply IH.
      * rewrite app_length; simpl; lia.
      * rewrite app_nth2 by lia. rewrite Nat.sub_diag. reflexivity.
      * intros n Hl. rewrite app_length in Hl; simpl in Hl.
        destruct (Nat.eq_dec n (length pre)) as [->|Ne].
        -- rewrite app_nth2 by lia. rewrite Nat.sub_diag. simpl. lra.
        -- rewrite app_nth1 by lia. specialize (Hall n). assert (nth n pre 0 <= best) by (apply Hall; lia). lra.
      * intros n Hl. rewrite app_nth1 by lia. assert (nth n pre 0 <= best) by (apply Hall; lia). lra.
Qed.

Lemma argmax_spec l a : argmax l = Some a ->
  (a < length l)%nat /\
  (forall n, (n < length l)%nat -> nth n l 0 <= nth a l 0) /\
  (forall n, (n < a)%nat -> nth n l 0 < nth a l 0).
Proof.
  destruct l as [|x l]; [discriminate|]. simpl. intro H. inversion H; subst; clear H.
  apply (argmax_from_inv l [x] x 0%nat).
  - simpl; lia. - reflexivity.
  - intros n Hn. simpl in Hn. assert (n = 0)%nat by lia. subst. simpl. lra.
  - intros n Hn. lia.
Qed.

Definition same_frame (s s0 : scene) : Prop :=
  s_scatter s = s_scatter s0 /\ s_xlim s = s_xlim s0 /\ s_ylim s = s_ylim s0 /\
  s_xlabel s = s_xlabel s0 /\ s_ylabel s = s_ylabel s0 /\ s_title s = s_title s0 /\ s_legend s = s_legend s0.

Lemma bottleneck_scene legacy l1 l2 d1 d2 m s :
  bottleneck_matching legacy l1 l2 d1 d2 m = Ok s ->
  exists s0 a ls,
    plot_diagrams (match_opts l1 l2) [fin_dgm d1; fin_dgm d2] = Ok s0 /\
    argmax (map snd m) = Some a /\
    s_lines s = s_lines s0 ++ ls /\ same_frame s s0 /\
    Forall2 (seg_spec (ax_minus1 legacy) (nonempty d1) (nonempty d2) (Some a))
            (filter (fun kr => drawn (snd kr)) (indexed 0 m)) ls.
Proof.
  unfold bottleneck_matching. intro H.
  destruct (plot_diagrams _ _) as [s0| | |] eqn:E0; try discriminate.
  destruct (argmax (map snd m)) as [a|] eqn:Ea; [|discriminate].
  destruct (segs_from _ _ _ _ _ m) as [ls|] eqn:El; [|discriminate].
  inversion H; subst; clear H. exists s0, a, ls. split; [reflexivity|]. split; [reflexivity|].
  split; [reflexivity|]. split; [repeat split|]. apply segs_from_spec. exact El.
Qed.

Lemma wasserstein_scene legacy pad l1 l2 d1 d2 m s :
  wasserstein_matching legacy pad l1 l2 d1 d2 m = Ok s ->
  exists s0 ls,
    plot_diagrams (match_opts l1 l2)
                  (if pad then [fin_dgm (nonempty d1); fin_dgm (nonempty d2)] else [fin_dgm d1; fin_dgm d2]) = Ok s0 /\
    s_lines s = ls ++ s_lines s0 /\ same_frame s s0 /\
    Forall2 (seg_spec (ax_minus1 legacy) (nonempty d1) (nonempty d2) None)
            (filter (fun kr => drawn (snd kr)) (indexed 0 m)) ls.
Proof.
  unfold wasserstein_matching. intro H.
  destruct (segs_from _ _ _ _ _ m) as [ls|] eqn:El; [|discriminate].
  destruct (plot_diagrams _ _) as [s0| | |] eqn:E0; try discriminate.
  inversion H; subst; clear H. exists s0, ls. split; [reflexivity|].
  split; [reflexivity|]. split; [repeat split|]. apply segs_from_spec. exact El.
Qed.

Lemma seg_spec_shape ax1 d1 d2 mx kr l : seg_spec ax1 d1 d2 mx kr l -> seg_shape ax1 d1 d2 (snd kr) l.
Proof. destruct kr as [k [[i j] c]]. unfold seg_spec, seg_shape. simpl. intros [_ H]. exact H. Qed.
Lemma seg_shape_given d1 d2 r l : seg_shape Given d1 d2 r l -> l_ax l = Given.
Proof. destruct r as [[i j] c]. unfold seg_shape. destruct (i =? -1)%Z; [|destruct (j =? -1)%Z].
  - intros (p & _ & _ & H); exact H. - intros (p & _ & _ & H); exact H. - intros (p & q & _ & _ & _ & H); exact H. Qed.

Lemma Forall2_Forall_r {A B} (R : A -> B -> Prop) (P : B -> Prop) l1 l2 :
  (forall a b, R a b -> P b) -> Forall2 R l1 l2 -> Forall P l2.
Proof. intros H F. induction F; constructor; eauto. Qed.

Lemma Forall2_len {A B} (R : A -> B -> Prop) l1 l2 : Forall2 R l1 l2 -> length l1 = length l2.
Proof. intro F. induction F; simpl; congruence. Qed.

Lemma Forall2_weaken {A B} (R1 R2 : A -> B -> Prop) l1 l2 :
  (forall a b, R1 a b -> R2 a b) -> Forall2 R1 l1 l2 -> Forall2 R2 l1 l2.
Proof. intros H F. induction F; constructor; auto. Qed.

Lemma one_segment_per_row_lemma :
  (forall legacy l1 l2 d1 d2 m s, bottleneck_matching legacy l1 l2 d1 d2 m = Ok s ->
     exists s0 ls, plot_diagrams (match_opts l1 l2) [fin_dgm d1; fin_dgm d2] = Ok s0 /\
       s_lines s = s_lines s0 ++ ls /\ length ls = length (filter drawn m) /\
       Forall2 (seg_shape (ax_minus1 legacy) (nonempty d1) (nonempty d2)) (filter drawn m) ls) /\
  (forall legacy pad l1 l2 d1 d2 m s, wasserstein_matching legacy pad l1 l2 d1 d2 m = Ok s ->
     exists s0 ls, plot_diagrams (match_opts l1 l2)
         (if pad then [fin_dgm (nonempty d1); fin_dgm (nonempty d2)] else [fin_dgm d1; fin_dgm d2]) = Ok s0 /\
       s_lines s = ls ++ s_lines s0 /\ length ls = length (filter drawn m) /\
       Forall2 (seg_shape (ax_minus1 legacy) (nonempty d1) (nonempty d2)) (filter drawn m) ls).
Proof.
  assert (K : forall ax1 d1 d2 mx m k0 ls,
             Forall2 (seg_spec ax1 d1 d2 mx) (filter (fun kr => drawn (snd kr)) (indexed k0 m)) ls ->
             Forall2 (seg_shape ax1 d1 d2) (filter drawn m) ls).
  { intros ax1 d1 d2 mx. induction m as [|r m IH]; intros k0 ls F.
    - inversion F. constructor.
    - unfold indexed in F. simpl in F. simpl. destruct (drawn r).
      + inversion F; subst. constructor. apply (seg_spec_shape _ _ _ _ _ _ H1). apply (IH (S k0)). exact H3.
      + apply (IH (S k0)). exact F. }
  split.
  - intros legacy l1 l2 d1 d2 m s H. destruct (bottleneck_scene _ _ _ _ _ _ _ H) as (s0 & a & ls & E0 & _ & El & _ & F).
    exists s0, ls. apply K in F. repeat split; try assumption. symmetry. eapply Forall2_len; eauto.
  - intros legacy pad l1 l2 d1 d2 m s H. destruct (wasserstein_scene _ _ _ _ _ _ _ _ H) as (s0 & ls & E0 & El & _ & F).
    exists s0, ls. apply K in F. repeat split; try assumption. symmetry. eapply Forall2_len; eauto.
Qed.

Lemma max_row_marked_lemma legacy l1 l2 d1 d2 m s :
  bottleneck_matching legacy l1 l2 d1 d2 m = Ok s ->
  exists s0 a ls, plot_diagrams (match_opts l1 l2) [fin_dgm d1; fin_dgm d2] = Ok s0 /\
    s_lines s = s_lines s0 ++ ls /\
    (a < length m)%nat /\
    (forall n, (n < length m)%nat -> nth n (map snd m) 0 <= nth a (map snd m) 0) /\
    (forall n, (n < a)%nat -> nth n (map snd m) 0 < nth a (map snd m) 0) /\
    Forall2 (fun kr l => (l_kind l = SegMax <-> fst kr = a) /\ (l_kind l = Seg <-> fst kr <> a))
            (filter (fun kr => drawn (snd kr)) (indexed 0 m)) ls.
Proof.
  intro H. destruct (bottleneck_scene _ _ _ _ _ _ _ H) as (s0 & a & ls & E0 & Ea & El & _ & F).
  destruct (argmax_spec _ _ Ea) as (A1 & A2 & A3). rewrite map_length in A1, A2.
  exists s0, a, ls. repeat split; try assumption.
  eapply Forall2_weaken; [|exact F]. intros [k [[i j] c]] l. unfold seg_spec. intros [K _]. simpl fst. rewrite K.
  destruct (Nat.eqb_spec a k); split; split; intro; try congruence; try discriminate; auto.
Qed.

Lemma given_axes_lemma :
  (forall o dgms s, plot_diagrams o dgms = Ok s -> Forall (fun l => l_ax l = Given) (s_lines s)) /\
  (forall l1 l2 d1 d2 m s, bottleneck_matching false l1 l2 d1 d2 m = Ok s -> Forall (fun l => l_ax l = Given) (s_lines s)) /\
  (forall pad l1 l2 d1 d2 m s, wasserstein_matching false pad l1 l2 d1 d2 m = Ok s -> Forall (fun l => l_ax l = Given) (s_lines s)).
Proof.
  split; [|split].
  - intros o dgms s H. apply (options_lemma _ _ _ H).
  - intros l1 l2 d1 d2 m s H. destruct (bottleneck_scene _ _ _ _ _ _ _ H) as (s0 & a & ls & E0 & _ & El & _ & F).
    rewrite El. apply Forall_app. split. apply (options_lemma _ _ _ E0).
    eapply Forall2_Forall_r; [|exact F]. intros kr l S. apply seg_spec_shape in S. eapply seg_shape_given. exact S.
  - intros pad l1 l2 d1 d2 m s H. destruct (wasserstein_scene _ _ _ _ _ _ _ _ H) as (s0 & ls & E0 & El & _ & F).
    rewrite El. apply Forall_app. split; [|apply (options_lemma _ _ _ E0)].
    eapply Forall2_Forall_r; [|exact F]. intros kr l S. apply seg_spec_shape in S. eapply seg_shape_given. exact S.
Qed.

(* the pinned code: the segment of a dgm2 point matched to the diagonal lands on pyplot's current axes *)
Lemma legacy_axes_refuted :
  exists d1 d2 m,
    (exists s l, bottleneck_matching true 0 1 d1 d2 m = Ok s /\ In l (s_lines s) /\ l_ax l = Current) /\
    (exists s l, wasserstein_matching true false 0 1 d1 d2 m = Ok s /\ In l (s_lines s) /\ l_ax l = Current).
Proof.
  exists [(0, 1)], [(0, 1); (4, 6)], [(0%Z, 0%Z, 0); ((-1)%Z, 1%Z, 1)].
  split; eexists; eexists; (split; [vm_compute; reflexivity|]).
  - split; [right; right; left; reflexivity|reflexivity].
  - split; [right; left; reflexivity|reflexivity].
Qed.

Lemma keeps_diagram_scene :
  (forall legacy l1 l2 d1 d2 m s, bottleneck_matching legacy l1 l2 d1 d2 m = Ok s ->
     exists s0, plot_diagrams (match_opts l1 l2) [fin_dgm d1; fin_dgm d2] = Ok s0 /\ same_frame s s0) /\
  (forall legacy l1 l2 d1 d2 m s, wasserstein_matching legacy false l1 l2 d1 d2 m = Ok s ->
     exists s0, plot_diagrams (match_opts l1 l2) [fin_dgm d1; fin_dgm d2] = Ok s0 /\ same_frame s s0).
Proof.
  split.
  - intros. destruct (bottleneck_scene _ _ _ _ _ _ _ H) as (s0 & a & ls & E0 & _ & _ & Fr & _). eauto.
  - intros. destruct (wasserstein_scene _ _ _ _ _ _ _ _ H) as (s0 & ls & E0 & _ & Fr & _). eauto.
Qed.

(* the pinned wasserstein_matching draws an empty diagram as a point at the origin *)
Lemma phantom_point_refuted :
  exists d2 m s, wasserstein_matching false true 0 1 [] d2 m = Ok s /\
                 In (LUser 0, [(0, 0)]) (s_scatter s) /\ fst (s_xlim s) < 0.
Proof.
  exists [(2, 3); (4, 7)], [((-1)%Z, 0%Z, 1#2); ((-1)%Z, 1%Z, 3#2)]. eexists.
  split; [vm_compute; reflexivity|]. split; [left; reflexivity|reflexivity].
Qed.

(* ---------------------------------------------------------------- landscapes *)
Lemma polylines_spec dr : forall fs k0,
  polylines dr k0 fs =
  map (fun kf : nat * list pt => mkLine Given (Poly (fst kf)) (snd kf))
      (filter (fun kf : nat * list pt => depth_selected dr (fst kf)) (combine (seq k0 (length fs)) fs)).
Proof.
  induction fs as [|f fs IH]; intro k0; simpl. reflexivity.
  rewrite IH. destruct (depth_selected dr k0); reflexivity.
Qed.

Lemma landscape_polylines :
  (forall dr title labels fs,
     ls_lines (plot_landscape_exact_simple dr title labels fs) =
     map (fun kf : nat * list pt => mkLine Given (Poly (fst kf)) (snd kf))
         (filter (fun kf : nat * list pt => depth_selected dr (fst kf)) (combine (seq 0 (length fs)) fs))) /\
  (forall dr title labels start stop values,
     ls_lines (plot_landscape_approx_simple dr title labels start stop values) =
     map (fun kf : nat * list pt => mkLine Given (Poly (fst kf)) (snd kf))
         (filter (fun kf : nat * list pt => depth_selected dr (fst kf))
                 (combine (seq 0 (length values))
                          (map (fun v => combine (linspace start stop (length v)) v) values)))).
Proof. split; intros; unfold plot_landscape_exact_simple, plot_landscape_approx_simple, landscape_scene; simpl.
  apply polylines_spec. rewrite polylines_spec, map_length. reflexivity. Qed.

(* ---------------------------------------------------------------- limits formula, linspace *)

Lemma qmin_pick x y : Qmin x y = x \/ Qmin x y = y.
Proof. unfold Qmin, GenericMinMax.gmin. destruct (x ?= y); auto. Qed.
Lemma qmax_pick x y : Qmax x y = x \/ Qmax x y = y.
Proof. unfold Qmax, GenericMinMax.gmax. destruct (x ?= y); auto. Qed.
Lemma qmin_list_in l : forall v, In (qmin_list v l) (v :: l).
Proof. induction l as [|x l IH]; intro v; unfold qmin_list in *; simpl. left; reflexivity.
  destruct (IH (Qmin v x)) as [E|I]. destruct (qmin_pick v x) as [P|P]; rewrite <- E, P; auto.
  right. right. exact I. Qed.
Lemma qmax_list_in l : forall v, In (qmax_list v l) (v :: l).
Proof. induction l as [|x l IH]; intro v; unfold qmax_list in *; simpl. left; reflexivity.
  destruct (IH (Qmax v x)) as [E|I]. destruct (qmax_pick v x) as [P|P]; rewrite <- E, P; auto.
  right. right. exact I. Qed.

(* the automatic range: [min - r/10, max + r/5] with r = max - min over the finite coordinates of the
   plotted diagrams; lifetime mode keeps the height and starts at -height/20 *)
Lemma limits_formula o dgms s :
  plot_diagrams o dgms = Ok s -> o_xy_range o = None ->
  exists ds mn mx,
    select (o_plot_only o) dgms = Some ds /\
    In mn (finite_vals ds) /\ In mx (finite_vals ds) /\
    (forall x, In x (finite_vals ds) -> mn <= x <= mx) /\
    s_xlim s = (mn - (mx - mn) * (1#5) * (1#2), mx + (mx - mn) * (1#5)) /\
    (o_lifetime o = false -> s_ylim s = s_xlim s) /\
    (o_lifetime o = true ->
       let yr := snd (s_xlim s) - fst (s_xlim s) in s_ylim s = (- (yr * (1#20)), - (yr * (1#20)) + yr)).
Proof.
  intros H Hxy.
  destruct (plot_diagrams_inv _ _ _ H) as (ds & labs & xd & xu & yd & yu & Es & _ & Elim & _ & Ex & Ey & _).
  rewrite Hxy in Elim. unfold limits in Elim. destruct (finite_vals ds) as [|v vs] eqn:Ef; [discriminate|].
  inversion Elim; subst; clear Elim.
  exists ds, (qmin_list v vs), (qmax_list v vs). rewrite Ef.
  split; [exact Es|]. split; [apply qmin_list_in|]. split; [apply qmax_list_in|].
  split. { intros x I. split; [apply qmin_list_le|apply qmax_list_ge]; exact I. }
  split; [exact Ex|]. rewrite Ey, Ex. unfold y_down_of, y_up_of, life_ydown. simpl fst; simpl snd.
  split; intro L; rewrite L; reflexivity.
Qed.


Lemma map_nth_lt {A B} (f : A -> B) l : forall i d d', (i < length l)%nat -> nth i (map f l) d = f (nth i l d').
Proof. induction l as [|a l IH]; simpl; intros i d d' H. lia. destruct i. reflexivity. apply IH. lia. Qed.

Lemma linspace_nth start stop n i : (i < n)%nat ->
  nth i (linspace start stop n) 0 = start + inject_nat i * ((stop - start) / inject_nat (n - 1)).
Proof. intro H. unfold linspace. rewrite (map_nth_lt _ _ i 0 0%nat) by (rewrite seq_length; exact H).
  rewrite seq_nth by exact H. reflexivity. Qed.

(* np.linspace(start, stop, n): n nodes, the first is start, the last is stop, equally spaced *)
Lemma linspace_spec start stop n : (2 <= n)%nat ->
  length (linspace start stop n) = n /\
  nth 0 (linspace start stop n) 0 == start /\
  nth (n - 1) (linspace start stop n) 0 == stop /\
  forall i, (S i < n)%nat ->
    nth (S i) (linspace start stop n) 0 - nth i (linspace start stop n) 0 == (stop - start) / inject_nat (n - 1).
Proof.
  intro H. split. unfold linspace. rewrite map_length, seq_length. reflexivity.
  assert (Hn : ~ inject_nat (n - 1) == 0).
  { unfold inject_nat, inject_Z, Qeq. simpl. lia. }
  split; [|split].
  - rewrite linspace_nth by lia. unfold inject_nat at 1. simpl. unfold inject_Z. lra.
  - rewrite linspace_nth by lia. field. exact Hn.
  - intros i Hi. rewrite !linspace_nth by lia. unfold inject_nat at 1 3. rewrite Nat2Z.inj_succ. unfold Z.succ.
    rewrite inject_Z_plus. field. exact Hn.
Qed.
