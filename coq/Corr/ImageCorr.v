(* Fixed runner for the generated C04 case files.  Each case is a lemma
     img_close (transform_one PhiI KgI skew w k bp pp dgm) [impl pixels] tol
   closed by the tactic image_case: branch decisions by lra, every distinct normal-CDF value
   enclosed by `integral_intro`, the pixel goals by `interval`.
   PhiI is the normal CDF written as an integral; KgI is images_kernels.gaussian as modelled in
   Model/KernelM.v (b-c13's model, intended variant); KuI the uniform box kernel of the same file. *)
From Coq Require Import Reals List Bool Lra.
From Coquelicot Require Import Coquelicot.
From Interval Require Import Tactic.
From Persim Require Import Spec.ImageS Model.ImageM Model.KernelM.
Import ListNotations.
Open Scope R_scope.

(* the lower limit 0 is written (0 * PI): coq-interval's integral_intro fails to re-fold its goal
   when the term of the lower limit also occurs inside the upper limit (a mesh node 0 with the
   literal 0; a point on a mesh node with (1 - 1)); 0 * PI never occurs in a generated input and
   evaluates to exactly 0 *)
Definition PhiI (x : R) : R := 1/2 + / sqrt (2*PI) * RInt (fun t => exp (-(t*t)/2)) (0 * PI) x.
Lemma PhiI_is_normal_cdf x : PhiI x = 1/2 + / sqrt (2*PI) * RInt (fun t => exp (-(t*t)/2)) 0 x.
Proof. unfold PhiI. replace (0 * PI) with 0 by ring. reflexivity. Qed.
Definition KgI : R -> R -> R -> kernel :=
  fun sxx sxy syy mb mp x y => gaussian_cdf PhiI (mb, mp) (mk_sigma sxx sxy syy) x y.
Definition KuI (width height : R) : kernel :=
  fun mb mp x y => uniform_cdf (mb, mp) width height x y.

Fixpoint row_close (tol : R) (a b : list R) : Prop :=
  match a, b with
  | [], [] => True
  | x :: a', y :: b' => Rabs (x - y) <= tol /\ row_close tol a' b'
  | _, _ => False
  end.
Fixpoint img_close (tol : R) (a b : list (list R)) : Prop :=
  match a, b with
  | [], [] => True
  | x :: a', y :: b' => row_close tol x y /\ img_close tol a' b'
  | _, _ => False
  end.

Lemma clamp_lo a w : a <= 0 -> 0 <= w -> Rmin (Rmax a 0) w = 0.
Proof. intros. rewrite Rmax_right by lra. apply Rmin_left. lra. Qed.
Lemma clamp_hi a w : w <= a -> 0 <= w -> Rmin (Rmax a 0) w = w.
Proof. intros. rewrite Rmax_left by lra. apply Rmin_right. lra. Qed.
Lemma clamp_mid a w : 0 <= a -> a <= w -> Rmin (Rmax a 0) w = a.
Proof. intros. rewrite Rmax_left by lra. apply Rmin_left. lra. Qed.

Ltac kill_dec :=
  repeat match goal with
  | |- context [Req_EM_T ?a ?b] =>
      let E := fresh "E" in
      destruct (Req_EM_T a b) as [E|E]; [try (exfalso; lra)|try (exfalso; apply E; lra)]
  | |- context [Rlt_dec ?a ?b] =>
      let E := fresh "E" in
      destruct (Rlt_dec a b) as [E|E]; [try (exfalso; lra)|try (exfalso; lra)]
  end.

Ltac kill_clamp :=
  repeat match goal with
  | |- context [Rmin (Rmax ?a 0) ?w] =>
      first [ rewrite (clamp_lo a w) by lra | rewrite (clamp_hi a w) by lra | rewrite (clamp_mid a w) by lra ]
  end.

Ltac enclose_phi :=
  unfold PhiI;
  repeat match goal with
  | |- context [RInt ?f ?a ?b] =>
      let H := fresh "H" in
      integral_intro (RInt f a b) with (i_prec 53, i_width (-40), i_fuel 400) as H;
      revert H; generalize (RInt f a b); intros ? H
  end.

Ltac image_case :=
  cbv [transform_one to_birth_pers skew_point map fst snd];
  kill_dec;
  cbv [transform_fast transform_general fast_step general_step fast_grid corner_grid grid_ie row_ie
       img_axpy zip_with fold_left zeros repeat pred length map fst snd
       KgI KuI gaussian_cdf gaussian_cdf_gen mk_sigma s00 s01 s11 sbvn_cdf uniform_cdf
       linear_ramp persistence_nat persistence_real img_close row_close];
  kill_dec; kill_clamp; enclose_phi;
  repeat split; try exact I; interval with (i_prec 53).

(* the run instances meet the hypotheses of the theorems of Properties/C04.v, C11.v *)
From Persim Require Import Proofs.ImageP.

Lemma KuI_is_uniform_kernel width height : KuI width height = uniform_kernel width height.
Proof. reflexivity. Qed.

Lemma KgI_zero_cov s mb mp x y :
  KgI s 0 s mb mp x y = PhiI ((x - mb) / sqrt s) * PhiI ((y - mp) / sqrt s).
Proof.
  unfold KgI, gaussian_cdf, gaussian_cdf_gen, mk_sigma, s00, s01, s11, sbvn_cdf. simpl.
  destruct (Req_EM_T 0 0) as [_|N]; [reflexivity|exfalso; apply N; reflexivity].
Qed.

Lemma KgI_axis_is_product sxx syy :
  forall mb mp x y, KgI sxx 0 syy mb mp x y
    = (fun m x => PhiI ((x - m) / sqrt sxx)) mb x * (fun m y => PhiI ((y - m) / sqrt syy)) mp y.
Proof.
  intros. unfold KgI, gaussian_cdf, gaussian_cdf_gen, mk_sigma, s00, s01, s11, sbvn_cdf. simpl.
  destruct (Req_EM_T 0 0) as [_|N]; [reflexivity|exfalso; apply N; reflexivity].
Qed.
