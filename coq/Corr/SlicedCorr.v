(* Fixed runner for the generated C15 case files.
   sw_check dirs P1 P2 impl tol : evaluated by vm_compute, one token per case.
   dirs_ok dirs M : the rational directions handed to the model are within 1e-12 of
   (cos theta_i, sin theta_i), theta_i = (1/2 + i/M) pi  -- one interval-certified lemma per M per run. *)
From Coq Require Import QArith Qabs List Reals.
From Interval Require Import Tactic.
From Persim Require Import Model.SlicedM.
Import ListNotations.

Inductive verdict := Agree | Legacy | Disagree.

Definition sw_check (dirs : list dir) (P1 P2 : list pt) (impl tol : Q) : verdict :=
  if Qle_bool (Qabs (sw dirs P1 P2 - impl)) tol then Agree
  else if Qle_bool (Qabs (sw_legacy dirs P1 P2 - impl)) tol then Legacy
  else Disagree.

Definition dir_ok (u : dir) (t : R) : Prop :=
  (Rabs (Q2R (fst u) - cos ((1 / 2 + t) * PI)) <= 1 / 1000000000000 /\
   Rabs (Q2R (snd u) - sin ((1 / 2 + t) * PI)) <= 1 / 1000000000000)%R.

Fixpoint dirs_ok_from (i M : R) (ds : list dir) : Prop :=
  match ds with
  | [] => True
  | u :: r => dir_ok u (i / M) /\ dirs_ok_from (i + 1) M r
  end.
Definition dirs_ok (ds : list dir) (M : R) : Prop := dirs_ok_from 0 M ds.

Ltac dirs_case :=
  cbv [dirs_ok dirs_ok_from dir_ok Q2R fst snd Qnum Qden];
  repeat split; interval with (i_prec 80).

(* the rational directions lie in the closed unit disc (premise of sw_le_2W1_partial): decided by vm_compute *)
From Persim Require Import Proofs.SlicedP.
Definition in_disc_b (u : dir) : bool := Qle_bool (fst u * fst u + snd u * snd u) 1.
Lemma in_disc_of_forallb (ds : list dir) : forallb in_disc_b ds = true -> forall u, In u ds -> in_disc u.
Proof. intros H u I. rewrite forallb_forall in H. apply Qle_bool_iff. exact (H u I). Qed.
Ltac disc_case := apply in_disc_of_forallb; vm_compute; reflexivity.
