(* Fixed runner for the generated C03 case files.  A case is
     check_case dgms hom_deg impl_outcome : verdict
   where impl_outcome is what PersLandscapeExact(dgms, hom_deg).critical_pairs gave (exact rationals)
   or the exception class.  VAgree: equal to the intended model (shortcut-free, empty diagram
   accepted) whose correctness is sweep_correct; VLegacyDup / VLegacyEmpty: equal to the faithful
   model of the pinned code only (refuted variants); VDisagree otherwise. *)
From Coq Require Import QArith Qabs List Bool Arith.
From Persim Require Import Lib.Kth Lib.PL Model.SweepM.
Import ListNotations.
Open Scope Q_scope.

Inductive verdict := VAgree | VLegacyDup | VLegacyEmpty | VDisagree | VTraceMismatch.

Definition pt_eqb (a b : pt) : bool := Qeq_bool (fst a) (fst b) && Qeq_bool (snd a) (snd b).
Fixpoint list_eqb {A} (e : A -> A -> bool) (x y : list A) : bool :=
  match x, y with
  | [], [] => true
  | a :: r, b :: s => e a b && list_eqb e r s
  | _, _ => false
  end.
Definition outcome_eqb (a b : outcome) : bool :=
  match a, b with
  | Ok x, Ok y => list_eqb (list_eqb pt_eqb) x y
  | ErrIndex, ErrIndex => true
  | _, _ => false          (* ErrNonFinite / ErrFuel never equal an implementation outcome *)
  end.

Definition model_verdict (dgms : list (list ebar)) (h : nat) (impl : outcome) : verdict :=
  if outcome_eqb (exact_landscape false true dgms h) impl then VAgree
  else if outcome_eqb (exact_landscape true true dgms h) impl then VLegacyDup
  else if outcome_eqb (exact_landscape true false dgms h) impl then VLegacyEmpty
  else VDisagree.

(* trace = what the guarded hook recorded (None: hook absent).  An implementation that still has the
   shortcut must fire exactly where the Legacy model does; one that never fires must agree with the
   intended model. *)
Definition check_case (dgms : list (list ebar)) (h : nat) (impl : outcome) (trace : option (list nat)) : verdict :=
  let v := model_verdict dgms h impl in
  match trace with
  | None => v
  | Some tr =>
      match v with
      | VDisagree => VDisagree
      | _ => if list_eqb Nat.eqb tr (landscape_trace dgms h) then v
             else match tr, v with [], VAgree => VAgree | _, _ => VTraceMismatch end
      end
  end.

(* ---- the DEFINITION evaluated inside Coq on the implementation's output (executable twin of
   landscape_ok): pl_eval of every depth against land = k-th largest tent, at every breakpoint of the
   output, the midpoints between consecutive breakpoints, the endpoints / midpoints / pairwise crossing
   abscissae of the bars, and points outside, for k = 1 .. max(#bars, #depths) + 1. ---- *)
Fixpoint mids_from (x : Q) (r : list Q) : list Q :=
  match r with [] => [] | y :: r' => half (x + y) :: mids_from y r' end.
Definition mids (l : list Q) : list Q := match l with [] => [] | x :: r => mids_from x r end.
Definition sample_points (bars : list bar) (L : list (list pt)) : list Q :=
  flat_map (fun l => map fst l) L ++ flat_map (fun l => mids (map fst l)) L ++
  flat_map (fun a => [fst a; snd a; fst a - 1; snd a + 1]) bars ++
  flat_map (fun a => map (fun c => half (fst a + snd c)) bars) bars.
Definition def_ok (bars : list bar) (L : list (list pt)) : bool :=
  forallb (fun t => forallb (fun k => Qeq_bool (pl_eval (nth (k - 1) L []) t) (land bars k t))
                            (seq 1 (Nat.max (length bars) (length L) + 1)))
          (sample_points bars L).
Definition ordered (L : list (list pt)) : bool :=
  forallb (fun l => forallb (fun p => Qle_bool (fst (fst p)) (fst (snd p))) (combine l (tl l))) L.
(* first and last ordinate 0: with agreement at all breakpoints of both piecewise-linear functions this
   makes the sample set complete (no jump at the ends of a depth) *)
Definition closed (L : list (list pt)) : bool :=
  forallb (fun l => match l with [] => true | p :: _ => Qeq_bool (snd p) 0 && Qeq_bool (snd (last l p)) 0 end) L.
Definition spec_twin (bars : list bar) (L : list (list pt)) : bool := ordered L && closed L && def_ok bars L.

(* ---- tolerance family (off-grid doubles): every decision of the sweep compares input coordinates only,
   so the implementation must produce the same shape; the computed coordinates (b+d)/2, (d-b)/2 may be
   rounded and are compared within tol. ---- *)
Definition pt_close (tol : Q) (a b : pt) : bool :=
  Qle_bool (Qabs (fst a - fst b)) tol && Qle_bool (Qabs (snd a - snd b)) tol.
Definition outcome_close (tol : Q) (a b : outcome) : bool :=
  match a, b with
  | Ok x, Ok y => list_eqb (list_eqb (pt_close tol)) x y
  | ErrIndex, ErrIndex => true
  | _, _ => false
  end.
Definition model_verdict_tol (tol : Q) (dgms : list (list ebar)) (h : nat) (impl : outcome) : verdict :=
  if outcome_close tol (exact_landscape false true dgms h) impl then VAgree
  else if outcome_close tol (exact_landscape true true dgms h) impl then VLegacyDup
  else if outcome_close tol (exact_landscape true false dgms h) impl then VLegacyEmpty
  else VDisagree.
Definition check_case_tol (tol : Q) (dgms : list (list ebar)) (h : nat) (impl : outcome) (trace : option (list nat)) : verdict :=
  let v := model_verdict_tol tol dgms h impl in
  match trace with
  | None => v
  | Some tr =>
      match v with
      | VDisagree => VDisagree
      | _ => if list_eqb Nat.eqb tr (landscape_trace dgms h) then v
             else match tr, v with [], VAgree => VAgree | _, _ => VTraceMismatch end
      end
  end.
