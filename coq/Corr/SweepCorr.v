(* Fixed runner for the generated C03 case files.  A case is
     check_case dgms hom_deg impl_outcome : verdict
   where impl_outcome is what PersLandscapeExact(dgms, hom_deg).critical_pairs gave (exact rationals)
   or the exception class.  VAgree: equal to the intended model (shortcut-free, empty diagram
   accepted) whose correctness is sweep_correct; VLegacyDup / VLegacyEmpty: equal to the faithful
   model of the pinned code only (refuted variants); VDisagree otherwise. *)
From Coq Require Import QArith List Bool Arith.
From Persim Require Import Lib.Kth Lib.PL Model.SweepM.
Import ListNotations.
Open Scope Q_scope.

Inductive verdict := VAgree | VLegacyDup | VLegacyEmpty | VDisagree.

Definition pt_eqb (a b : pt) : bool := Qeq_bool (fst a) (fst b) && Qeq_bool (snd a) (snd b).
Fixpoint list_eqb {A} (e : A -> A -> bool) (x y : list A) : bool :=
  match x, y with
  | [], [] => true
  | a :: r, b :: s => e a b && list_eqb e r s
  | _, _ => false
  end.
Definition outcome_eqb (a b : outcome) : bool :=
  match a, b with
  | Ok x, Ok y => list_eqb (list_eqb pt_eqb) x y
  | ErrIndex, ErrIndex => true
  | _, _ => false          (* ErrNonFinite / ErrFuel never equal an implementation outcome *)
  end.

Definition check_case (dgms : list (list ebar)) (h : nat) (impl : outcome) : verdict :=
  if outcome_eqb (exact_landscape false true dgms h) impl then VAgree
  else if outcome_eqb (exact_landscape true true dgms h) impl then VLegacyDup
  else if outcome_eqb (exact_landscape true false dgms h) impl then VLegacyEmpty
  else VDisagree.

(* did the repeated-bar shortcut fire anywhere in the Legacy run?  (used by sweep_shortcut_agrees
   and, when the source hook is absent, by the harness) *)
