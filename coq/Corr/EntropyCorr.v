(* Fixed runner for the generated C16 case files: each case is a lemma
     agrees (persistent_entropy k v n dgms) [impl values] tol
   or  persistent_entropy ... = ErrBar / ErrNoVal,
   closed by the tactic entropy_case (branch decisions by lra, values by interval). *)
From Coq Require Import Reals List Bool Lra.
From Interval Require Import Tactic.
From Persim Require Import Model.EntropyM Proofs.EntropyP.
Import ListNotations.
Open Scope R_scope.

Fixpoint close (tol : R) (a b : list R) : Prop :=
  match a, b with
  | [], [] => True
  | x :: a', y :: b' => Rabs (x - y) <= tol /\ close tol a' b'
  | _, _ => False
  end.

Definition agrees (r : res) (impl : list R) (tol : R) : Prop :=
  match r with Ok v => close tol v impl | _ => False end.

Lemma all_pos_cons_true x l : 0 < x -> all_pos l = true -> all_pos (x :: l) = true.
Proof. intros H A. simpl. destruct (Rlt_dec 0 x); [exact A|contradiction]. Qed.
Lemma all_pos_cons_bad x l : x <= 0 -> all_pos (x :: l) = false.
Proof. intros H. simpl. destruct (Rlt_dec 0 x); [lra|reflexivity]. Qed.
Lemma all_pos_cons_skip x l : 0 < x -> all_pos l = false -> all_pos (x :: l) = false.
Proof. intros H A. simpl. destruct (Rlt_dec 0 x); [exact A|reflexivity]. Qed.

Ltac decide_all_pos :=
  repeat match goal with
  | |- context [all_pos ?l] =>
      let b := fresh "AP" in
      first
        [ assert (b : all_pos l = true) by (repeat (apply all_pos_cons_true; [lra|]); reflexivity)
        | assert (b : all_pos l = false)
            by (repeat first [ apply all_pos_cons_bad; lra | apply all_pos_cons_skip; [lra|] ]) ];
      rewrite b; clear b
  end.

Ltac entropy_case :=
  cbv [persistent_entropy map drop_inf subst_inf flat_map app fst snd entropy_one lengths];
  decide_all_pos;
  cbv [collect agrees close entropy_val shannon sumR map fold_right length INR];
  first [ reflexivity
        | repeat split; try exact I; interval with (i_prec 80) ].
