(* Fixed runner for the generated C20 case files.  The harness writes what it collected from the
   matplotlib axes (an [iscene]: scatter offsets, Line2D data with the axes that owns each line,
   limits, labels, title, legend) as exact rationals; [judge_*] run the model of Model/SceneM.v by
   vm_compute on the same exact inputs and compare.  Verdict codes (nat):
     0 agree with the intended model      100 agree only with the Legacy (pinned, plt.plot) model
     101 agree only with the Legacy padded-diagram model of wasserstein_matching   102 both legacy traits
     1 scatter count / labels   2 scatter offsets   3 lines on the given axes   4 lines on the other axes
     5 xlim   6 ylim   7 axis labels   8 title   9 legend   10 error / success mismatch
     11 artists other than lines on the other axes *)
From Coq Require Import QArith Qminmax Qabs List Bool ZArith.
From Persim Require Import Model.SceneM.
Import ListNotations.
Open Scope Q_scope.

Definition qclose (tol a b : Q) : bool := Qle_bool (Qabs (a - b)) tol.
Definition ptclose (tol : Q) (p q : pt) : bool := qclose tol (fst p) (fst q) && qclose tol (snd p) (snd q).

Fixpoint all2 {A B} (f : A -> B -> bool) (l1 : list A) (l2 : list B) : bool :=
  match l1, l2 with
  | [], [] => true
  | x :: r1, y :: r2 => f x y && all2 f r1 r2
  | _, _ => false
  end.

Inductive tag := TInf | TMax | TPlain | TDepth (k : nat).
Record iline := mkIL { il_tag : tag; il_pts : list pt }.
Record iscene := mkI {
  i_scatter : list (label * list pt);
  i_given : list iline;
  i_other : list iline;
  i_other_rest : nat;
  i_xlim : pt;
  i_ylim : pt;
  i_xlabel : option xlab;
  i_ylabel : option ylab;
  i_title : option nat;
  i_legend : bool }.
Inductive ires := IOk (s : iscene) | IValueError | IIndexError | IOther.

Definition tag_of (k : lkind) : tag :=
  match k with InfLine => TInf | SegMax => TMax | Poly d => TDepth d | _ => TPlain end.
Definition tag_eqb (a b : tag) : bool :=
  match a, b with
  | TInf, TInf | TMax, TMax | TPlain, TPlain => true
  | TDepth x, TDepth y => Nat.eqb x y
  | _, _ => false
  end.
Definition label_eqb (a b : label) : bool :=
  match a, b with
  | LDefault x, LDefault y | LUser x, LUser y => Nat.eqb x y
  | _, _ => false
  end.
Definition xlab_eqb (a b : option xlab) : bool :=
  match a, b with
  | None, None | Some Birth, Some Birth => true
  | Some (XUser x), Some (XUser y) => Nat.eqb x y
  | _, _ => false
  end.
Definition ylab_eqb (a b : option ylab) : bool :=
  match a, b with
  | None, None | Some Death, Some Death | Some Lifetime, Some Lifetime => true
  | Some (YUser x), Some (YUser y) => Nat.eqb x y
  | _, _ => false
  end.
Definition optnat_eqb (a b : option nat) : bool :=
  match a, b with None, None => true | Some x, Some y => Nat.eqb x y | _, _ => false end.

(* single-precision tolerance [tp] for what plot_diagrams computes from its float32 copies,
   double-precision tolerance [ts] for matching segments and landscape polylines *)
Definition line_tol (tp ts : Q) (k : lkind) : Q :=
  match k with Seg | SegMax | Poly _ => ts | _ => tp end.
Definition line_ok (tp ts : Q) (l : line) (i : iline) : bool :=
  tag_eqb (tag_of (l_kind l)) (il_tag i) && all2 (ptclose (line_tol tp ts (l_kind l))) (l_pts l) (il_pts i).
Definition on (a : axes) (ls : list line) : list line :=
  filter (fun l => match l_ax l, a with Given, Given | Current, Current => true | _, _ => false end) ls.

Definition first_fail (l : list (bool * nat)) : nat :=
  fold_right (fun (c : bool * nat) acc => if fst c then acc else snd c) 0%nat l.

Definition check_scene (tp ts : Q) (m : scene) (i : iscene) : nat :=
  first_fail
    [ (all2 (fun a b => label_eqb (fst a) (fst b) && Nat.eqb (length (snd a)) (length (snd b)))
            (s_scatter m) (i_scatter i), 1%nat);
      (all2 (fun a b => all2 (ptclose tp) (snd a) (snd b)) (s_scatter m) (i_scatter i), 2%nat);
      (all2 (line_ok tp ts) (on Given (s_lines m)) (i_given i), 3%nat);
      (all2 (line_ok tp ts) (on Current (s_lines m)) (i_other i), 4%nat);
      (Nat.eqb (i_other_rest i) 0, 11%nat);
      (ptclose tp (s_xlim m) (i_xlim i), 5%nat);
      (ptclose tp (s_ylim m) (i_ylim i), 6%nat);
      (xlab_eqb (s_xlabel m) (i_xlabel i) && ylab_eqb (s_ylabel m) (i_ylabel i), 7%nat);
      (optnat_eqb (s_title m) (i_title i), 8%nat);
      (Bool.eqb (s_legend m) (i_legend i), 9%nat) ].

Definition check_res (tp ts : Q) (m : res scene) (i : ires) : nat :=
  match m, i with
  | Ok s, IOk t => check_scene tp ts s t
  | ErrEmpty, IValueError => 0%nat
  | ErrIndex, IIndexError => 0%nat
  | _, _ => 10%nat
  end.

(* [legacy] = the Legacy variants with their verdict codes, tried in order *)
Definition judge (tp ts : Q) (intended : res scene) (legacy : list (nat * res scene)) (i : ires) : nat :=
  match check_res tp ts intended i with
  | O => 0%nat
  | c => fold_right (fun (v : nat * res scene) acc =>
                       match check_res tp ts (snd v) i with O => fst v | _ => acc end) c legacy
  end.

Definition judge_pd (tp : Q) (o : opts) (dgms : list dgm) (i : ires) : nat :=
  judge tp tp (plot_diagrams o dgms) [] i.
Definition judge_bn (tp ts : Q) (l1 l2 : nat) (d1 d2 : list pt) (m : list row) (i : ires) : nat :=
  judge tp ts (bottleneck_matching false l1 l2 d1 d2 m) [(100%nat, bottleneck_matching true l1 l2 d1 d2 m)] i.
Definition judge_ws (tp ts : Q) (l1 l2 : nat) (d1 d2 : list pt) (m : list row) (i : ires) : nat :=
  judge tp ts (wasserstein_matching false false l1 l2 d1 d2 m)
        [(100%nat, wasserstein_matching true false l1 l2 d1 d2 m);
         (101%nat, wasserstein_matching false true l1 l2 d1 d2 m);
         (102%nat, wasserstein_matching true true l1 l2 d1 d2 m)] i.

(* 2-D landscape plots: the impl side is again an iscene whose scatter list is empty and whose
   limits are not compared (ax.margins / autoscale are matplotlib's) *)
Definition check_lscene (ts : Q) (m : lscene) (i : iscene) : nat :=
  first_fail
    [ (Nat.eqb (length (i_scatter i)) 0, 1%nat);
      (all2 (line_ok ts ts) (on Given (ls_lines m)) (i_given i), 3%nat);
      (all2 (line_ok ts ts) (on Current (ls_lines m)) (i_other i), 4%nat);
      (Nat.eqb (i_other_rest i) 0, 11%nat);
      (xlab_eqb (ls_xlabel m) (i_xlabel i) && ylab_eqb (ls_ylabel m) (i_ylabel i), 7%nat);
      (optnat_eqb (ls_title m) (i_title i), 8%nat);
      (Bool.eqb (ls_legend m) (i_legend i), 9%nat) ].
Definition judge_land (ts : Q) (m : lscene) (i : ires) : nat :=
  match i with IOk t => check_lscene ts m t | _ => 10%nat end.
