(* Fixed runner for the generated C01 case files, and the executable certificate checkers.

   The model [bottleneck_model] takes the external maximum-matching routine as an argument.
   To execute it the harness supplies, per case, a claimed value vstar, a perfect matching
   Estar of the threshold graph at vstar and a Hall violator X (a set of rows with fewer
   neighbouring columns than rows) for the largest threshold below vstar.  The checkers below
   (soundness: Proofs/BneckCertP.v) accept or reject them; when they accept, "the threshold
   graph at d has a perfect matching" is equivalent to vstar <= d for every threshold d, and the
   model's own binary search is run with the answering routine [cert_oracle Estar].
   A rejected certificate yields Inconclusive, never Agree/Disagree. *)
From Coq Require Import QArith Qminmax Qabs List Bool Arith ZArith.
From Persim Require Import Spec.PartialMatching Spec.BottleneckS Spec.BneckCertS Model.BneckM.
Import ListNotations.
Open Scope Q_scope.

Fixpoint nodupb (l : list nat) : bool :=
  match l with [] => true | x :: r => negb (existsb (Nat.eqb x) r) && nodupb r end.

(* "m is a matching of the bipartite graph g (rows -> allowed columns)" *)
Definition matching_check (g : list (list nat)) (m : matching) : bool :=
  nodupb (map fst m) && nodupb (map snd m)
  && forallb (fun p => existsb (Nat.eqb (snd p)) (nth (fst p) g [])) m.
Definition perfect_check (g : list (list nat)) (m : matching) : bool :=
  matching_check g m && (length m =? length g)%nat.

(* "the rows X have fewer than |X| neighbours": no matching of g covers all rows *)
Definition neighbours (g : list (list nat)) (X : list nat) : list nat :=
  nodup Nat.eq_dec (flat_map (fun i => nth i g []) X).
Definition hall_check (g : list (list nat)) (X : list nat) : bool :=
  nodupb X && forallb (fun i => (i <? length g)%nat) X && (length (neighbours g X) <? length X)%nat.

(* the answering routine used to execute the model *)
Definition cert_oracle (Estar : matching) (g : list (list nat)) : matching :=
  if perfect_check g Estar then Estar else [].

(* largest element of the sorted list ds that is strictly below v *)
Fixpoint pred_threshold (ds : list cost) (v : cost) : option cost :=
  match ds with
  | [] => None
  | d :: r => if cle v d then None else match pred_threshold r v with Some x => Some x | None => Some d end
  end.

Inductive verdict := Agree | Disagree | Inconclusive.

Definition certs_ok (S T : list xpoint) (vstar : Q) (Estar : matching) (X : list nat) : bool :=
  let S' := prep (finite S) in
  let T' := prep (finite T) in
  let D := aug S' T' in
  perfect_check (graph D (CFin vstar)) Estar
  && match pred_threshold (thresholds D) (CFin vstar) with
     | Some dp => hall_check (graph D dp) X
     | None => true
     end.

Definition Qclose (tol a b : Q) : bool := Qle_bool (Qabs (a - b)) tol.

(* impl: the float returned by persim.bottleneck as an exact rational; tol = 0 in the exact family *)
Definition check_case (S T : list xpoint) (impl tol vstar : Q) (Estar : matching) (X : list nat) : verdict :=
  if certs_ok S T vstar Estar X then
    match bottleneck_model (cert_oracle Estar) S T with
    | Some (CFin v) => if Qclose tol v impl then Agree else Disagree
    | _ => Disagree
    end
  else Inconclusive.

(* ---------------- C06: the certificate predicate on the rows the implementation returned ---------------- *)

Definition idx_cover_b (n : nat) (col : list Z) : bool :=
  let l := filter (fun z => negb (is_diag z)) col in
  (length l =? n)%nat && forallb (fun i => existsb (Z.eqb (Z.of_nat i)) l) (seq 0 n).

Definition row_cost_ok_b (tol : Q) (S T : list qpoint) (r : brow) : bool :=
  match is_diag (col0 r), is_diag (col1 r) with
  | true, true => false
  | false, true => Qclose tol (rcost r) (diagB (nth (Z.to_nat (col0 r)) S (0, 0)))
  | true, false => Qclose tol (rcost r) (diagB (nth (Z.to_nat (col1 r)) T (0, 0)))
  | false, false => Qclose tol (rcost r) (linf (nth (Z.to_nat (col0 r)) S (0, 0)) (nth (Z.to_nat (col1 r)) T (0, 0)))
  end.

Definition bneck_cert_check_tol (tol : Q) (S T : list qpoint) (v : Q) (rows : list brow) : bool :=
  idx_cover_b (length S) (map col0 rows) && idx_cover_b (length T) (map col1 rows)
  && forallb (row_cost_ok_b tol S T) rows && Qclose tol (maxl (map rcost rows)) v.

(* exact version: S T are the caller's diagrams after dropping infinite deaths and expanding an
   empty diagram to [(0,0)] *)
Definition bneck_cert_check (S T : list qpoint) (v : Q) (rows : list brow) : bool :=
  bneck_cert_check_tol 0 S T v rows.

(* the caller's diagrams *)
Definition bneck_cert_case (tol : Q) (S T : list xpoint) (v : Q) (rows : list brow) : bool :=
  bneck_cert_check_tol tol (prep (finite S)) (prep (finite T)) v rows.
