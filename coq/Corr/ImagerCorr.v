(* Fixed runner for the generated C12 case files.  A case is a constructor call, a history of
   operations and, after the constructor and after every operation, the implementation's snapshot
   (all public attributes, both mesh arrays, the shape of transform's output, and where a narrow
   kernel put a point mass), every float as a binary64 hex literal.  [check_history] runs the
   PrimFloat instance of Model/ImagerM.v - intended and Legacy variant - and compares bit for bit.
   Result code (one Z per case):  i + 100000 * l  where i (resp. l) describes the intended
   (resp. Legacy) run:  0 = all snapshots equal,  else 100*(k+1) + f  with k the index of the
   first snapshot that differs (0 = constructor) and f the first differing field:
   1 pixel_size, 2..5 birth/pers range, 6 width, 7 height, 8 9 resolution, 10 11 meshes,
   12 shape, 13 landing pixel. *)
From Coq Require Import ZArith List Bool PrimFloat.
From Persim Require Import Model.ImagerM.
Import ListNotations.

Definition feq (x y : float) : bool := PrimFloat.eqb x y.
Fixpoint leq (a b : list float) : bool :=
  match a, b with
  | [], [] => true
  | x :: a', y :: b' => feq x y && leq a' b'
  | _, _ => false
  end.

Record snap := mkSnap {
  sn_state : state FNum;                   (* attributes and meshes as reported *)
  sn_shape : option (Z * Z);               (* transform(...).shape, None if it raised *)
  sn_land : option (float * float * Z * Z) (* query point (b, p) and the pixel it landed in *)
}.

Definition opt_zz_eqb (a b : option (Z * Z)) : bool :=
  match a, b with
  | Some (x, y), Some (u, v) => (x =? u)%Z && (y =? v)%Z
  | None, None => true
  | _, _ => false
  end.

Definition snap_diff (m : state FNum) (o : snap) : Z :=
  let i := sn_state o in
  if negb (feq (psz m) (psz i)) then 1
  else if negb (feq (blo m) (blo i)) then 2
  else if negb (feq (bhi m) (bhi i)) then 3
  else if negb (feq (plo m) (plo i)) then 4
  else if negb (feq (phi m) (phi i)) then 5
  else if negb (feq (width m) (width i)) then 6
  else if negb (feq (height m) (height i)) then 7
  else if negb (resw m =? resw i)%Z then 8
  else if negb (resh m =? resh i)%Z then 9
  else if negb (leq (bpnts m) (bpnts i)) then 10
  else if negb (leq (ppnts m) (ppnts i)) then 11
  else if negb (opt_zz_eqb (shape FNum m) (sn_shape o)) then 12
  else match sn_land o with
       | None => 0
       | Some (x, y, a, b) =>
           if (locate FNum (bpnts m) x =? a)%Z && (locate FNum (ppnts m) y =? b)%Z then 0 else 13
       end%Z.

Fixpoint walk (stp : state FNum -> op FNum -> state FNum) (s : state FNum)
         (ops : list (op FNum)) (snaps : list snap) (k : Z) : Z :=
  match ops, snaps with
  | [], [] => 0
  | o :: ops', sn :: snaps' =>
      let s' := stp s o in
      let d := snap_diff s' sn in
      if (d =? 0)%Z then walk stp s' ops' snaps' (k + 1) else (100 * (k + 1) + d)
  | _, _ => 99
  end%Z.

Definition check_variant (s0 : state FNum) (stp : state FNum -> op FNum -> state FNum)
           (ops : list (op FNum)) (snaps : list snap) : Z :=
  match snaps with
  | [] => 99
  | sn0 :: rest =>
      let d := snap_diff s0 sn0 in
      if (d =? 0)%Z then walk stp s0 ops rest 1 else (100 + d)
  end%Z.

Definition check_history (bl bh pl ph ps : float) (ops : list (op FNum)) (snaps : list snap) : Z :=
  (check_variant (ctor FNum bl bh pl ph ps) (step FNum) ops snaps
   + 100000 * check_variant (ctor_legacy FNum bl bh pl ph ps) (step_legacy FNum) ops snaps)%Z.

(* shorthand used by the generated files *)
Definition S (ps bl bh pl ph w h : float) (rw rh : Z) (b p : list float) : state FNum :=
  @mkS FNum ps bl bh pl ph w h rw rh b p.
