(* Fixed runner for the generated C14 case files.  Each case is a lemma
     heat_agrees sigma F G v tol
   (v = the implementation's value, tol = the harness' stated tolerance on the SQUARE), closed by
   the tactic heat_case: sign by lra, the radicand by the interval tactic. *)
From Coq Require Import Reals List Lra.
From Interval Require Import Tactic.
From Persim Require Import Model.HeatM Proofs.HeatP.
Import ListNotations.
Open Scope R_scope.

(* v is a non-negative number whose square is within tol of the model's squared distance *)
Definition heat_agrees (sigma : R) (F G : list pt) (v tol : R) : Prop :=
  0 <= v /\ Rabs (v * v - heat sigma F G * heat sigma F G) <= tol.

Lemma heat_agrees_intro sigma F G v tol :
  0 <= v -> Rabs (v * v - radicand sigma F G) <= tol -> heat_agrees sigma F G v tol.
Proof. intros Hv H. split. exact Hv. unfold heat.
  rewrite sqrt_sqrt by apply Rmax_r.
  destruct (Rle_dec 0 (radicand sigma F G)) as [P|N].
  - rewrite Rmax_left by exact P. exact H.
  - rewrite Rmax_right by lra. assert (0 <= v * v) by (apply Rmult_le_pos; exact Hv).
    revert H. unfold Rabs. destruct (Rcase_abs (v * v - radicand sigma F G));
      destruct (Rcase_abs (v * v - 0)); intros; lra. Qed.

(* consequence for the values themselves: |v - heat| <= sqrt tol *)
Lemma heat_agrees_value sigma F G v tol : heat_agrees sigma F G v tol -> Rabs (v - heat sigma F G) <= sqrt tol.
Proof. intros [Hv H]. assert (Hh := heat_nonneg sigma F G). set (h := heat sigma F G) in *.
  assert (T : 0 <= tol) by (eapply Rle_trans; [apply Rabs_pos|exact H]).
  assert (S : Rabs (v - h) * Rabs (v - h) <= tol).
  { apply Rle_trans with (Rabs (v * v - h * h)); [|exact H].
    replace (v * v - h * h) with ((v - h) * (v + h)) by ring. rewrite Rabs_mult.
    apply Rmult_le_compat_l. apply Rabs_pos. rewrite (Rabs_right (v + h)) by lra.
    apply Rabs_le. lra. }
  rewrite <- (sqrt_Rsqr (Rabs (v - h))) by apply Rabs_pos. apply sqrt_le_1_alt. exact S. Qed.

Ltac heat_case :=
  apply heat_agrees_intro;
  [ lra
  | cbv [radicand evalHeatKernel kloop fold_left kterm sqdist mirror fst snd];
    interval with (i_prec 90) ].
