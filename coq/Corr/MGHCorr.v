(* Fixed runners for the generated C05 case files.  Each returns a Z bit mask, 0 = the model and
   the implementation agree on everything the case records. *)
From Coq Require Import ZArith List Bool Arith Lia.
From Persim Require Import Spec.MGH Model.MGHM Model.GraphM Proofs.MGHDec.
Import ListNotations.
Open Scope Z_scope.

Fixpoint list_eqb {A} (eqb : A -> A -> bool) (a b : list A) : bool :=
  match a, b with
  | [], [] => true
  | x :: a', y :: b' => eqb x y && list_eqb eqb a' b'
  | _, _ => false
  end.
Definition mat_eqb (a b : mat) : bool := list_eqb (list_eqb Z.eqb) a b.
Definition natl_eqb (a b : list nat) : bool := list_eqb Nat.eqb a b.

Definition bit (b : bool) (w : Z) : Z := if b then 0 else w.

(* the distance matrix the implementation computed from adjacency A is the hop metric *)
Definition dm_ok (A implD : mat) : bool :=
  match make_dm A with DMOk false D => mat_eqb D implD | _ => false end.

Definition oz_eqb (a : option Z) (b : Z) : bool := match a with Some x => x =? b | None => false end.

(* find_lb: agreement with the exact-key oracle, or with the int8-wrapped key (NumPy 2) *)
Definition lb_ok (DX DY : mat) (impl_lb : Z) : bool :=
  oz_eqb (find_lb pick_exact DX DY) impl_lb || oz_eqb (find_lb pick_int8 DX DY) impl_lb.

(* one recorded call of construct_mapping *)
Definition cm_ok (DX DY : mat) (pi : list nat) (y0 : nat) (images : list nat) (dist : Z) : bool :=
  match construct_mapping DX DY pi y0 with
  | Some (im, ds) => natl_eqb im images && (ds =? dist)
  | None => false
  end.

(* one recorded call of find_ub_of_min_distortion: samples actually drawn (the look-ahead
   permutation dropped), whether more samples were available, goal and result *)
Definition ubmin_ok (DX DY : mat) (goal : Z) (samples : list (list nat * nat)) (more : bool) (res : Z) : bool :=
  oz_eqb (find_ub_of_min_distortion DX DY goal samples) res &&
  (ub_used DX DY goal None samples =? length samples)%nat &&
  (* if more permutations were available, the loop must have stopped because goal was matched *)
  (negb more || (res <=? goal)).

Definition check_c05 (AX AY DX DY : mat) (impl_lb : Z)
           (s1 s2 : list (list nat * nat)) (more1 more2 : bool) (u1 u2 ub : Z) : Z :=
  bit (dm_ok AX DX) 1 + bit (dm_ok AY DY) 2 + bit (lb_ok DX DY impl_lb) 4 +
  bit (ubmin_ok DX DY impl_lb s1 more1 u1) 8 + bit (ubmin_ok DY DX u1 s2 more2 u2) 16 +
  bit (ub =? Z.max u1 u2) 32 +
  bit (oz_eqb (find_ub DX DY s1 s2 impl_lb) ub) 64 +
  (* the hypothesis of the C05 theorems holds for the matrices the implementation works on *)
  bit (dmatrix_b DX && dmatrix_b DY) 1024.

(* cases given directly by distance matrices (no adjacency), lower bound only *)
Definition check_lb (DX DY : mat) (impl_lb : Z) : Z := bit (lb_ok DX DY impl_lb) 4.

(* every recorded construct_mapping call (pi, y0, images, distortion) of the two directions *)
Definition check_cms (DX DY : mat) (r1 r2 : list (list nat * nat * list nat * Z)) : Z :=
  bit (forallb (fun r => match r with (pi, y0, im, ds) => cm_ok DX DY pi y0 im ds end) r1 &&
       forallb (fun r => match r with (pi, y0, im, ds) => cm_ok DY DX pi y0 im ds end) r2) 128.
