(* Fixed runner for the generated C09 case files.  A case is a HISTORY: leaf landscapes, a list of
   steps that refer to earlier objects by index, and the outcomes the implementation produced
   (a landscape or an error enum per step).  check_ehist / check_ahist run the model of
   Model/LandArithM.v over the whole history from the leaves and compare every step.
   tol = 0 means exact comparison (exact family); otherwise |m - i| <= tol * (1 + |m|). *)
From Coq Require Import QArith Qabs Qminmax List Bool ZArith.
From Persim Require Import Lib.Kth Lib.PL Model.LandArithM.
Import ListNotations.
Open Scope Q_scope.

Inductive verdict := VAgree | VLegacy | VDisagree (step : nat).

Definition close (tol m i : Q) : bool := Qle_bool (Qabs (m - i)) (tol * (1 + Qabs m)).

Fixpoint list_close {A} (f : A -> A -> bool) (a b : list A) : bool :=
  match a, b with
  | [], [] => true
  | x :: a', y :: b' => f x y && list_close f a' b'
  | _, _ => false
  end.

Definition pt_close tol (p q : pt) : bool := close tol (fst p) (fst q) && close tol (snd p) (snd q).
Definition exact_close tol (A B : exactL) : bool :=
  Z.eqb (e_deg A) (e_deg B) && list_close (list_close (pt_close tol)) (e_cp A) (e_cp B).
Definition approx_close tol (A B : approxL) : bool :=
  Z.eqb (a_deg A) (a_deg B) && close tol (a_start A) (a_start B) && close tol (a_stop A) (a_stop B)
  && Nat.eqb (a_steps A) (a_steps B) && list_close (list_close (close tol)) (a_vals A) (a_vals B).

Definition res_close {A} (f : A -> A -> bool) (m i : res A) : bool :=
  match m, i with
  | Ok x, Ok y => f x y
  | ErrDegree, ErrDegree | ErrStart, ErrStart | ErrStop, ErrStop | ErrSteps, ErrSteps
  | ErrDivZero, ErrDivZero | ErrEmpty, ErrEmpty | ErrShape, ErrShape => true
  | _, _ => false
  end.

Fixpoint first_false (l : list bool) (n : nat) : option nat :=
  match l with [] => None | true :: r => first_false r (S n) | false :: _ => Some n end.

(* ---------------------------------------------------------------- exact histories *)
Inductive estep :=
| SAdd (i j : nat) | SSub (i j : nat) | SNeg (i : nat) | SMul (c : Q) (i : nat) | SDiv (i : nat) (c : Q).

Definition get {A} (env : list (option A)) (i : nat) : option A := nth i env None.

(* Between steps the runner stores every coordinate in lowest terms (Qred x == x); without it the
   unreduced denominators of Q square at every step of a history. *)
Definition norm_e (A : exactL) : exactL :=
  mkE (e_deg A) (map (map (fun p => (Qred (fst p), Qred (snd p)))) (e_cp A)).
Definition norm_a (A : approxL) : approxL :=
  mkA (a_deg A) (Qred (a_start A)) (Qred (a_stop A)) (a_steps A) (map (map Qred) (a_vals A)).

Definition estep_run (v : variant) (env : list (option exactL)) (s : estep) : res exactL :=
  match s with
  | SAdd i j => match get env i, get env j with Some a, Some b => e_add v a b | _, _ => ErrEmpty end
  | SSub i j => match get env i, get env j with Some a, Some b => e_sub v a b | _, _ => ErrEmpty end
  | SNeg i => match get env i with Some a => Ok (e_neg a) | _ => ErrEmpty end
  | SMul c i => match get env i with Some a => Ok (e_mul c a) | _ => ErrEmpty end
  | SDiv i c => match get env i with Some a => e_div a c | _ => ErrEmpty end
  end.

Fixpoint ehist_run (v : variant) (env : list (option exactL)) (steps : list estep) : list (res exactL) :=
  match steps with
  | [] => []
  | s :: r =>
      let o := estep_run v env s in
      o :: ehist_run v (env ++ [match o with Ok x => Some (norm_e x) | _ => None end]) r
  end.

Definition ehist_cmp tol v leaves steps (impl : list (res exactL)) : list bool :=
  let m := ehist_run v (map Some leaves) steps in
  if Nat.eqb (length m) (length impl)
  then map (fun mi => res_close (exact_close tol) (fst mi) (snd mi)) (combine m impl)
  else [false].

Definition check_ehist (tol : Q) (leaves : list exactL) (steps : list estep) (impl : list (res exactL)) : verdict :=
  match first_false (ehist_cmp tol Fixed leaves steps impl) 0 with
  | None => VAgree
  | Some n => match first_false (ehist_cmp tol Legacy leaves steps impl) 0 with
              | None => VLegacy
              | Some _ => VDisagree n
              end
  end.

(* ---------------------------------------------------------------- approximate histories *)
Inductive astep :=
| AAdd (i j : nat) | ASub (i j : nat) | ANeg (i : nat) | AMul (c : Q) (i : nat) | ADiv (i : nat) (c : Q)
| ASnap (l : list nat) (os oe : option Q) (on : option nat)
| ALc (l : list nat) (cs : list Q) (os oe : option Q) (on : option nat)
| AAvg (l : list nat) (os oe : option Q) (on : option nat).

Definition one {A} (r : res A) : res (list A) :=
  match r with
  | Ok x => Ok [x]
  | ErrDegree => ErrDegree | ErrStart => ErrStart | ErrStop => ErrStop | ErrSteps => ErrSteps
  | ErrDivZero => ErrDivZero | ErrEmpty => ErrEmpty | ErrShape => ErrShape | ErrFuel => ErrFuel
  end.

Definition astep_run (env : list (option approxL)) (s : astep) : res (list approxL) :=
  match s with
  | AAdd i j => match get env i, get env j with Some a, Some b => one (a_add a b) | _, _ => ErrEmpty end
  | ASub i j => match get env i, get env j with Some a, Some b => one (a_sub a b) | _, _ => ErrEmpty end
  | ANeg i => match get env i with Some a => Ok [a_neg a] | _ => ErrEmpty end
  | AMul c i => match get env i with Some a => Ok [a_mul c a] | _ => ErrEmpty end
  | ADiv i c => match get env i with Some a => one (a_div a c) | _ => ErrEmpty end
  | ASnap l os oe on =>
      match all_some (map (get env) l) with Some pls => snap_pl pls os oe on | None => ErrEmpty end
  | ALc l cs os oe on =>
      match all_some (map (get env) l) with Some pls => one (lc_approx pls cs os oe on) | None => ErrEmpty end
  | AAvg l os oe on =>
      match all_some (map (get env) l) with Some pls => one (average_approx pls os oe on) | None => ErrEmpty end
  end.

(* every step appends its objects to the environment; a failed step appends empty slots *)
Definition nslots (s : astep) : nat := match s with ASnap l _ _ _ => length l | _ => 1%nat end.
Fixpoint ahist_run (env : list (option approxL)) (steps : list astep) : list (res (list approxL)) :=
  match steps with
  | [] => []
  | s :: r =>
      let o := astep_run env s in
      o :: ahist_run (env ++ match o with Ok xs => map (fun x => Some (norm_a x)) xs | _ => repeat None (nslots s) end) r
  end.

Definition check_ahist (tol : Q) (leaves : list approxL) (steps : list astep) (impl : list (res (list approxL))) : verdict :=
  let m := ahist_run (map Some leaves) steps in
  let cmp := if Nat.eqb (length m) (length impl)
             then map (fun mi => res_close (list_close (approx_close tol)) (fst mi) (snd mi)) (combine m impl)
             else [false] in
  match first_false cmp 0 with None => VAgree | Some n => VDisagree n end.
