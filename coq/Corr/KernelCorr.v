(* Fixed runner for the generated C13 case files.  Each case is a lemma
     Rabs (gaussian_cdf Phi_int mu sigma x y - <impl value>) <= tol        (tactic gauss_case)
     uniform_cdf mu w h x y = <impl value>   or   Rabs (... - v) <= tol    (tactic uniform_case)
     Rabs (Phi_int x - <impl norm_cdf value>) <= tol                       (tactic phi_case)
   Branch decisions (sigma01 = 0, |r| against 0.3 / 0.75 / 0.925, the masks asr > thr, hk > -100,
   asr1 > -100, max/min) are discharged by lra / interval on small goals while the model is still
   folded; every occurrence of the normal CDF is then enclosed by `integral` and generalised, and
   the value is certified by `interval`. *)
From Coq Require Import Reals List Lra.
From Coquelicot Require Import Coquelicot.
From Interval Require Import Tactic.
From Persim Require Import Model.KernelM Spec.BvnS.
Import ListNotations.
Open Scope R_scope.

Lemma if_lt_true a b (x y : R) : a < b -> (if Rlt_dec a b then x else y) = x.
Proof. intros; destruct (Rlt_dec a b); tauto. Qed.
Lemma if_lt_false a b (x y : R) : b <= a -> (if Rlt_dec a b then x else y) = y.
Proof. intros; destruct (Rlt_dec a b); [lra|reflexivity]. Qed.

Lemma asin_as_atan r : -1 < r < 1 -> asin r = atan (r / sqrt (1 - r * r)).
Proof. intros H. rewrite asin_atan by exact H. unfold Rsqr. reflexivity. Qed.

Lemma std_mid3 thr Phi dh dk r : Rabs r < 0.3 ->
  bvn_std thr Phi dh dk r = bvn_mid Phi gl3 dh dk r.
Proof. intros H. unfold bvn_std, gauss_legendre_quad. cbv zeta.
  repeat destruct Rlt_dec; try lra; reflexivity. Qed.
Lemma std_mid6 thr Phi dh dk r : 0.3 <= Rabs r < 0.75 ->
  bvn_std thr Phi dh dk r = bvn_mid Phi gl6 dh dk r.
Proof. intros H. unfold bvn_std, gauss_legendre_quad. cbv zeta.
  repeat destruct Rlt_dec; try lra; reflexivity. Qed.
Lemma std_mid10 thr Phi dh dk r : 0.75 <= Rabs r < 0.925 ->
  bvn_std thr Phi dh dk r = bvn_mid Phi gl10 dh dk r.
Proof. intros H. unfold bvn_std, gauss_legendre_quad. cbv zeta.
  repeat destruct Rlt_dec; try lra; reflexivity. Qed.
Lemma std_high thr Phi dh dk r : 0.925 <= Rabs r ->
  bvn_std thr Phi dh dk r = bvn_high thr Phi gl10 dh dk r.
Proof. intros H. unfold bvn_std, gauss_legendre_quad. cbv zeta.
  repeat destruct Rlt_dec; try lra; reflexivity. Qed.

Lemma high_pos thr Phi q dh dk r : 0 < r < 1 ->
  bvn_high thr Phi q dh dk r = bvn_high_core thr Phi q dh dk r + Phi (- Rmax dh dk).
Proof. intros H. unfold bvn_high.
  rewrite (if_lt_false r 0) by lra. rewrite (if_lt_true (Rabs r) 1) by (rewrite Rabs_pos_eq; lra).
  rewrite (if_lt_true 0 r) by lra. reflexivity. Qed.
Lemma high_neg thr Phi q dh dk r : -1 < r < 0 ->
  bvn_high thr Phi q dh dk r
  = - bvn_high_core thr Phi q dh (- dk) r + Rmax 0 (Phi (- dh) - Phi (- - dk)).
Proof. intros H. unfold bvn_high.
  rewrite !(if_lt_true r 0) by lra. rewrite (if_lt_true (Rabs r) 1) by (rewrite Rabs_left; lra).
  rewrite (if_lt_false 0 r) by lra. reflexivity. Qed.

Definition high_on (hk xmy2 rhk8 rhk16 s ix w x : R) : R :=
  s * w * exp (-1 * (xmy2 / ((s + s * ix * x) * (s + s * ix * x)) + hk) / 2)
  * (exp (- (hk * (1 - sqrt (1 - (s + s * ix * x) * (s + s * ix * x))))
          / (2 * (1 + sqrt (1 - (s + s * ix * x) * (s + s * ix * x)))))
     / sqrt (1 - (s + s * ix * x) * (s + s * ix * x))
     - (1 + rhk8 * ((s + s * ix * x) * (s + s * ix * x))
            * (1 + rhk16 * ((s + s * ix * x) * (s + s * ix * x))))).
Lemma high_term_on hk xmy2 c d s ix w x :
  -100 < -1 * (xmy2 / ((s + s * ix * x) * (s + s * ix * x)) + hk) / 2 ->
  bvn_high_term hk xmy2 c d s ix (w, x) = high_on hk xmy2 c d s ix w x.
Proof. intros H. unfold bvn_high_term, high_on. cbv [fst snd]. rewrite if_lt_true by exact H. reflexivity. Qed.
Lemma high_term_off hk xmy2 c d s ix w x :
  -1 * (xmy2 / ((s + s * ix * x) * (s + s * ix * x)) + hk) / 2 <= -100 ->
  bvn_high_term hk xmy2 c d s ix (w, x) = 0.
Proof. intros H. unfold bvn_high_term. cbv [fst snd]. rewrite if_lt_false by exact H. reflexivity. Qed.

Lemma gaussian_bvn thr Phi mx my sxx sxy s10 syy x y : sxy <> 0 ->
  gaussian_cdf_gen thr Phi (mx, my) ((sxx, sxy), (s10, syy)) x y
  = bvn_std thr Phi (- (x - mx) / sqrt sxx) (- (y - my) / sqrt syy) (sxy / sqrt (sxx * syy)).
Proof. intros H. unfold gaussian_cdf_gen. cbv [s00 s01 s11 fst snd].
  destruct (Req_EM_T sxy 0); [contradiction|reflexivity]. Qed.
Lemma gaussian_sbvn thr Phi mx my sxx sxy s10 syy x y : sxy = 0 ->
  gaussian_cdf_gen thr Phi (mx, my) ((sxx, sxy), (s10, syy)) x y
  = Phi ((x - mx) / sqrt sxx) * Phi ((y - my) / sqrt syy).
Proof. intros H. unfold gaussian_cdf_gen. cbv [s00 s01 s11 fst snd].
  destruct (Req_EM_T sxy 0); [reflexivity|contradiction]. Qed.

(* comparisons between closed terms *)
Ltac cmp := first [ lra | interval | interval with (i_prec 80)
                  | (unfold Rabs; destruct Rcase_abs; lra)
                  | (rewrite ?Rmult_1_r, ?sqrt_1; unfold Rdiv; rewrite ?Rinv_1, ?Rmult_1_r;
                     unfold Rabs; destruct Rcase_abs; lra) ].
Ltac cmp2 := split; cmp.

(* `integral_intro` mis-reifies some closed bounds (`_ - 0`, `0 / _`): the upper bound is first
   replaced by a variable with a certified enclosure *)
Ltac enclose_rint_with p w fu :=
  repeat match goal with
  | |- context [RInt ?f ?a ?b] =>
      tryif is_var b then
        (let H := fresh "ENC" in
         first [ integral_intro (RInt f a b) with (i_prec p, i_width w, i_fuel fu) as H
               | integral_intro (RInt f a b) with (i_prec 100, i_width w, i_fuel fu) as H ];
         revert H; generalize (RInt f a b); intros ? H)
      else
        (let B := fresh "B" in let HB := fresh "HB" in
         interval_intro b with (i_prec 120) as HB; set (B := b);
         match type of HB with ?lo <= _ <= ?hi => change (lo <= B <= hi) in HB end; clearbody B)
  end.
Ltac enclose_rint := enclose_rint_with 53%positive (-44)%Z 100%positive.
(* deep tails: exp(-hk/2) * Phi(-|h-k|/sqrt(1-r^2)) amplifies the absolute width of the enclosure *)
Ltac enclose_rint_deep := enclose_rint_with 100%positive (-72)%Z 1000%positive.

Ltac elim_max := repeat first [ rewrite Rmax_left by cmp | rewrite Rmax_right by cmp ].
(* an undecidable max(0, d) (d within the enclosure width of 0) is replaced by a variable in [0, hi] *)
Lemma rmax0_bounds d lo hi : lo <= d <= hi -> 0 <= hi -> 0 <= Rmax 0 d <= hi.
Proof. intros [_ H] H0. split; [apply Rmax_l|apply Rmax_lub; lra]. Qed.
Ltac bound_max :=
  repeat match goal with |- context [Rmax 0 ?d] =>
    let H := fresh "HD" in let HM := fresh "HM" in
    interval_intro d as H;
    match type of H with ?lo <= _ <= ?hi =>
      assert (HM : 0 <= Rmax 0 d <= hi) by (apply (rmax0_bounds d lo hi H); lra) end;
    clear H; revert HM; generalize (Rmax 0 d); intros ? HM end.
Ltac elim_min := repeat first [ rewrite Rmin_left by cmp | rewrite Rmin_right by cmp ].

(* name the standardised coordinates so that the goal stays small while branches are decided *)
Ltac name_args :=
  match goal with |- context [bvn_std ?thr ?Phi ?dh ?dk ?r] =>
    set (DH := dh); set (DK := dk); set (RR := r) end.
Ltac sub := repeat match goal with X := _ : R |- _ => subst X end.
Ltac scmp := sub; cmp.
Ltac scmp2 := sub; cmp2.
(* replace the named coordinates by variables with (tight) certified enclosures *)
Ltac enclose_args :=
  rewrite ?Rminus_0_r in *;
  repeat match goal with X := ?v : R |- _ =>
    let H := fresh "HX" in
    interval_intro v with (i_prec 90) as H;
    match type of H with ?lo <= _ <= ?hi => change (lo <= X <= hi) in H end; clearbody X end.

Ltac enclose_high_terms :=
  repeat match goal with |- context [high_on ?a ?b ?c ?d ?e ?f ?g ?h] =>
    let t := constr:(high_on a b c d e f g h) in
    let t' := eval cbv [high_on] in t in
    let H := fresh "HT" in
    interval_intro t' as H; change t' with t in H; revert H; generalize t; intros ? H end.

Ltac finish_value := first [ interval | interval with (i_prec 70) ].

Ltac bvn_mid_case :=
  unfold bvn_mid; rewrite !asin_as_atan by scmp2;
  cbv [map sum_list fold_right gl3 gl6 gl10 bvn_mid_term fst snd];
  unfold Phi_int; enclose_args; enclose_rint; finish_value.

Ltac bvn_high_case_with enc :=
  first [ rewrite high_pos by scmp2 | rewrite high_neg by scmp2 ];
  unfold bvn_high_core;
  cbv [map sum_list fold_right gl10];
  repeat first [ rewrite high_term_on by scmp | rewrite high_term_off by scmp ];
  repeat first [ rewrite if_lt_true by scmp | rewrite if_lt_false by scmp ];
  try first [ rewrite Rmax_left by scmp | rewrite Rmax_right by scmp ];
  enclose_args; enclose_high_terms;
  unfold Phi_int at 1; enc;   (* the amplified factor Phi(-|h-k|/sqrt(1-r^2)) comes first *)
  unfold Phi_int; enclose_rint; elim_max; try bound_max; finish_value.
Ltac bvn_high_case := bvn_high_case_with enclose_rint.

Ltac gauss_case_with enc :=
  unfold gaussian_cdf, Legacy.gaussian_cdf;
  first
    [ rewrite gaussian_sbvn by lra; unfold Phi_int; enclose_rint; finish_value
    | rewrite gaussian_bvn by lra; name_args;
      first [ rewrite std_mid3 by scmp; bvn_mid_case
            | rewrite std_mid6 by scmp2; bvn_mid_case
            | rewrite std_mid10 by scmp2; bvn_mid_case
            | rewrite std_high by scmp; bvn_high_case_with enc ] ].
Ltac gauss_case := gauss_case_with enclose_rint.
Ltac gauss_case_deep := gauss_case_with enclose_rint_deep.

Ltac uniform_case :=
  cbv [uniform_cdf fst snd]; elim_max; elim_min;
  first [ lra | field | interval with (i_prec 70) ].

Ltac phi_case := unfold Phi_int; enclose_rint; finish_value.

(* reference side: Plackett's integral, asin written through atan *)
Ltac ref_case :=
  unfold bvn_ref, Phi2, plackett; rewrite !asin_as_atan by cmp2;
  unfold Phi_int.
