(* Fixed runners for the generated C17 case files. *)
From Coq Require Import ZArith List Bool Arith Lia.
From Persim Require Import Spec.MGH Model.MGHM Model.GraphM Proofs.MGHDec Proofs.GraphDec Corr.MGHCorr.
Import ListNotations.
Open Scope Z_scope.

Definition dm_eqb (a b : dm_result) : bool :=
  match a, b with
  | DMOk w1 D1, DMOk w2 D2 => Bool.eqb w1 w2 && mat_eqb D1 D2
  | DMValueError, DMValueError => true
  | _, _ => false
  end.

(* 0: the implementation's make_distance_matrix_from_adjacency_matrix agrees with the intended
   model; 1: it agrees with the pinned (rows-only) model and not with the intended one; 2: neither *)
Definition is_dm (r : dm_result) : bool :=
  match r with DMOk _ D => dmatrix_b D && (0 <? length D)%nat | DMValueError => true end.
(* for graphs of moderate size also certify that the Floyd-Warshall instance satisfies the
   hypotheses under which the fallback theorems are stated (ometric, transitive reachability) *)
Definition hyp_ok (A : mat) : bool := if (30 <? length A)%nat then true else ohyp_b (hop_metric A).
Definition check_dm (A : mat) (impl : dm_result) : Z :=
  if dm_eqb (make_dm A) impl then (if is_dm impl && hyp_ok A then 0 else 2)
  else if dm_eqb (make_dm_legacy A) impl then 1 else 2.

Definition lb_est (pick : oracle) : pair_est :=
  fun _ _ DX DY => match find_lb pick DX DY with Some l => Some (l, 0) | None => None end.

(* pair call: warning flag and (doubled) lower bound; 0 agree, 1 agrees with legacy (raise), 2 neither.
   impl = Some (warned, 2*lb) or None for ValueError *)
Definition pair_out (mk : mat -> dm_result) (pick : oracle) (A B : mat) : option (bool * Z) :=
  match gh_pair mk (lb_est pick) A B with GHPair w l _ => Some (w, l) | _ => None end.
Definition opt_eqb (a b : option (bool * Z)) : bool :=
  match a, b with
  | Some (w1, l1), Some (w2, l2) => Bool.eqb w1 w2 && (l1 =? l2)
  | None, None => true
  | _, _ => false
  end.
Definition check_pair (A B : mat) (impl : option (bool * Z)) : Z :=
  if opt_eqb (pair_out make_dm pick_exact A B) impl || opt_eqb (pair_out make_dm pick_int8 A B) impl then 0
  else if opt_eqb (pair_out make_dm_legacy pick_exact A B) impl then 1 else 2.

(* collection call: warning flag and the matrix of doubled lower bounds *)
Definition coll_out (mk : mat -> dm_result) (pick : oracle) (As : list mat) : option (bool * mat) :=
  match gh_collection mk (lb_est pick) As with GHColl w L _ => Some (w, L) | _ => None end.
Definition optm_eqb (a b : option (bool * mat)) : bool :=
  match a, b with
  | Some (w1, l1), Some (w2, l2) => Bool.eqb w1 w2 && mat_eqb l1 l2
  | None, None => true
  | _, _ => false
  end.
Definition check_coll (As : list mat) (impl : option (bool * mat)) : Z :=
  if optm_eqb (coll_out make_dm pick_exact As) impl || optm_eqb (coll_out make_dm pick_int8 As) impl then 0
  else if optm_eqb (coll_out make_dm_legacy pick_exact As) impl then 1 else 2.
