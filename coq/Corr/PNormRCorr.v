(* Runner for the real-p C10 cases: each case is a lemma  agrees_R p L v rtol  closed by the tactic
   pnorm_real_case (branch decisions by vm_compute in Q, values by interval). *)
From Coq Require Import QArith Qabs Qminmax Qreals Reals List Bool Lra.
From Interval Require Import Tactic.
From Persim Require Import Lib.Kth Lib.PL Spec.PNormS Model.PNormRM.
Import ListNotations.
Open Scope R_scope.

Definition agrees_R (p : R) (L : landscape) (v rtol : R) : Prop := Rabs (p_norm_R p L - v) <= rtol * v.

Lemma root_pos p s : 0 < s -> root p s = Rpower s (1 / p).
Proof. intro H. unfold root. destruct (Rle_dec s 0); [lra|reflexivity]. Qed.
Lemma root_zero p s : s <= 0 -> root p s = 0.
Proof. intro H. unfold root. destruct (Rle_dec s 0); [reflexivity|lra]. Qed.

Ltac pnorm_real_case :=
  unfold agrees_R, p_norm_R;
  match goal with |- context [shapes ?L] =>
    let v := eval vm_compute in (shapes L) in change (shapes L) with v end;
  cbv beta iota delta [map shape_R sumR fold_right expm1 log1p];
  unfold Q2R; cbv beta iota delta [Qnum Qden];
  first [ rewrite root_pos by (interval with (i_prec 120)); interval with (i_prec 120)
        | rewrite root_zero by lra; apply Rabs_le; lra ].
