(* Tactic used by the REGENERATED obligations (harness/src2coq.py, scalar front end): the term translated from the
   current source must be equal, as a real-valued function, to the hand-written model.
   Deterministic (no backtracking between strategies, so an unprovable obligation fails fast): conversion;
   otherwise case analysis on every comparison that occurs outside a binder, then at each node
   reflexivity / ring / lra, else one step of congruence (under `map` via map_ext) and recursion. *)
From Coq Require Import Reals List Lra.
From Persim Require Import Model.KernelM Model.ImageM.
Import ListNotations.
Open Scope R_scope.

Ltac destruct_decision :=
  match goal with
  | |- context [if ?c then _ else _] =>
      match type of c with sumbool _ _ => destruct c end
  end.

(* two comparisons whose operands are equal only up to ring normalisation were split into contradictory cases *)
Ltac regen_absurd :=
  match goal with
  | H : ?a < ?b, N : ~ (?a' < ?b') |- _ =>
      exfalso; apply N; replace a' with a by ring; replace b' with b by ring; exact H
  | H : ?a <= ?b, N : ~ (?a' <= ?b') |- _ =>
      exfalso; apply N; replace a' with a by ring; replace b' with b by ring; exact H
  | H : ?a = ?b, N : ?a' <> ?b' |- _ =>
      exfalso; apply N; replace a' with a by ring; replace b' with b by ring; exact H
  end.

Ltac regen_node n :=
  repeat destruct_decision;
  first
    [ reflexivity
    | ring
    | lra
    | regen_absurd
    | match n with
      | O => fail 1 "regen: depth exhausted"
      | S ?k =>
        lazymatch goal with
        | |- map _ ?l = map _ ?l => apply map_ext; intros; cbv beta zeta; regen_node k
        | |- ?f ?a1 ?a2 = ?f ?b1 ?b2 => apply f_equal2; regen_node k
        | |- ?f ?a = ?f ?b => apply f_equal; regen_node k
        end
      end ].

Create HintDb regen.
#[global] Hint Unfold bvn_cdf bvn_cdf_gen bvn_std bvn_mid bvn_mid_term bvn_high bvn_high_core bvn_high_term
  linear_ramp uniform_cdf sbvn_cdf : regen.

Ltac regen_solve := intros; first [ reflexivity | (autounfold with regen; cbv beta zeta; timeout 3000 (regen_node 40%nat)) ].
