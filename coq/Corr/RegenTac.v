(* Tactic used by the REGENERATED obligations (harness/src2coq.py, scalar front end): the term translated from the
   current source must be equal, as a real-valued function, to the hand-written model.  Conversion first; otherwise
   structural descent (under map via map_ext), case analysis on the comparisons, and ring / field / lra at the leaves. *)
From Coq Require Import Reals List Lra.
From Persim Require Import Model.KernelM Model.ImageM.
Import ListNotations.
Open Scope R_scope.

Ltac regen_leaf := first [ reflexivity | ring | lra ].

Ltac destruct_decision :=
  match goal with
  | |- context [if ?c then _ else _] =>
      match type of c with sumbool _ _ => destruct c end
  end.

Ltac regen_descend n :=
  match n with
  | O => regen_leaf
  | S ?k =>
    first
      [ reflexivity
      | match goal with
        | |- (if ?c then _ else _) = (if ?c then _ else _) => destruct c; regen_descend k
        | |- map _ ?l = map _ ?l => apply map_ext; intros; cbv beta zeta; regen_descend k
        end
      | regen_leaf
      | (progress f_equal; regen_descend k)
      | (destruct_decision; regen_descend k) ]
  end.

Create HintDb regen.
#[global] Hint Unfold bvn_cdf bvn_cdf_gen bvn_std bvn_mid bvn_mid_term bvn_high bvn_high_core bvn_high_term
  linear_ramp uniform_cdf sbvn_cdf : regen.

Ltac regen_solve := intros; first [ reflexivity | (autounfold with regen; cbv beta zeta; regen_descend 24%nat) ].
