(* Fixed runner for the generated C07 Wasserstein case files (<= 3+3 points): the implementation's
   value v encloses the SPEC minimum within tol.  Every partial matching of the explicit
   enumeration costs at least v - tol and one of them at most v + tol, each certified by the
   interval tactic; W_enclosure turns that into a statement about every w with is_wasserstein. *)
From Coq Require Import Reals List Arith Bool Permutation Lra.
From Interval Require Import Tactic.
From Persim Require Import Spec.PartialMatching Spec.WassersteinS Lib.PMatchLemmas Proofs.MetricLawsG Proofs.MetricLawsW.
Import ListNotations.
Open Scope R_scope.

Lemma W_enclosure S T lo hi :
  Forall (fun m => lo <= wcost S T m) (all_pm (length S) (length T)) ->
  Exists (fun m => wcost S T m <= hi) (all_pm (length S) (length T)) ->
  forall w, is_wasserstein S T w -> lo <= w <= hi.
Proof.
  intros HF HE w [[m0 [V0 E0]] L]. rewrite Forall_forall in HF. apply Exists_exists in HE.
  destruct HE as [m1 [I1 H1]]. split.
  - destruct (all_pm_complete _ _ _ V0) as [m' [I' Pm]]. rewrite <- E0.
    unfold wcost, wcosts. change sumRl with sumR.
    rewrite (sumR_perm _ _ (pm_costs_perm euclid diagW (0,0) S T m0 m' Pm)).
    generalize (HF m' I'). unfold wcost, wcosts. change sumRl with sumR. lra.
  - generalize (L m1 (all_pm_sound _ _ _ I1)). lra.
Qed.

Ltac w_cost_goal :=
  cbv beta;
  cbv [wcost wcosts pm_costs map app unmatched_l unmatched_r unmatched filter seq existsb Nat.eqb negb
       nth fst snd length sumRl fold_right euclid diagW orb];
  interval with (i_prec 60).

Ltac w_enum :=
  match goal with
  | |- context [all_pm ?a ?b] =>
      let a' := eval cbv [length] in a in
      let b' := eval cbv [length] in b in
      let l := eval vm_compute in (all_pm a' b') in
      change (all_pm a b) with l
  end.

(* mstar: the matching (pairs sorted by first index) whose cost is at most hi *)
Ltac w_case mstar :=
  apply W_enclosure;
  [ w_enum; repeat (apply Forall_cons || apply Forall_nil); w_cost_goal
  | w_enum; apply Exists_exists; exists mstar; split; [simpl; tauto | w_cost_goal] ].
