(* Fixed runner for the generated C02 case files (and the Wasserstein half of C06).
   check_case: the value returned by persim.wasserstein (an exact rational) against the certified
   enclosure of the model's value.  cert_case: the matching rows returned by the implementation
   against the certificate predicate of C06, costs evaluated through the same sqrt enclosures. *)
From Coq Require Import QArith ZArith List Bool Arith Qabs.
From Persim Require Import Model.WassM Model.WassEncM.
Import ListNotations.

Inductive verdict := Agree | Disagree | WarnMismatch | SkipCert | SkipGap.

(* tol is absolute; gap is the largest enclosure width that still gives a verdict *)
Definition check_case (p : positive) (dgm1 dgm2 : list (xpt Q)) (sigma : list nat) (u v : list Q)
           (impl tol : Q) : verdict :=
  match wass_enclosure p dgm1 dgm2 sigma u v with
  | None => SkipCert
  | Some (lo, hi) =>
      if Qle_bool (hi - lo) tol then
        if Qle_bool (lo - tol) impl && Qle_bool impl (hi + tol) then Agree else Disagree
      else SkipGap
  end.

(* value and the two "non-finite death" warnings (w_warn of the model = dropped of each input) *)
Definition check_full (p : positive) (dgm1 dgm2 : list (xpt Q)) (sigma : list nat) (u v : list Q)
           (impl tol : Q) (w1 w2 : bool) : verdict :=
  if Bool.eqb (dropped dgm1) w1 && Bool.eqb (dropped dgm2) w2
  then check_case p dgm1 dgm2 sigma u v impl tol else WarnMismatch.

(* the enclosure itself, for replay files *)
Definition show_enclosure (p : positive) (dgm1 dgm2 : list (xpt Q)) (sigma : list nat) (u v : list Q)
  : option (Z * positive * (Z * positive)) :=
  match wass_enclosure p dgm1 dgm2 sigma u v with
  | None => None
  | Some (lo, hi) => Some (Qnum lo, Qden lo, (Qnum hi, Qden hi))
  end.

(* ---- C06, Wasserstein half: certificate predicate on returned rows (i, j, cost) ------------- *)
Definition qrow : Type := (Z * Z * Q)%type.

(* x is within tol of every number of the interval c *)
Definition within (tol : Q) (x : Q) (c : ival) : bool :=
  Qle_bool (snd c - tol) x && Qle_bool x (fst c + tol).

Definition idx_ok (n : nat) (z : Z) : bool := (z =? -1)%Z || ((0 <=? z)%Z && (z <? Z.of_nat n)%Z).

Definition row_cost_ok (p : positive) (S T : list qpt) (tol : Q) (r : qrow) : bool :=
  let i := fst (fst r) in let j := snd (fst r) in let c := snd r in
  idx_ok (length S) i && idx_ok (length T) j &&
  if (i =? -1)%Z then
    if (j =? -1)%Z then false
    else within tol c (diag_iv p (nth (Z.to_nat j) T (0, 0)))
  else
    if (j =? -1)%Z then within tol c (diag_iv p (nth (Z.to_nat i) S (0, 0)))
    else within tol c (euclid_iv p (nth (Z.to_nat i) S (0, 0)) (nth (Z.to_nat j) T (0, 0))).

(* every index of [0, n) occurs exactly once among the entries different from -1 *)
Definition covers_once (n : nat) (col : list Z) : bool :=
  let used := filter (fun z => negb (z =? -1)%Z) col in
  (length used =? n) && forallb (fun i => existsb (Z.eqb (Z.of_nat i)) used) (seq 0 n).

Definition cert_case (p : positive) (dgm1 dgm2 : list (xpt Q)) (dist : Q) (rows : list qrow) (tol : Q) : bool :=
  let S := placeholder 0 (finite_pts dgm1) in
  let T := placeholder 0 (finite_pts dgm2) in
  covers_once (length S) (map (fun r => fst (fst r)) rows) &&
  covers_once (length T) (map (fun r => snd (fst r)) rows) &&
  forallb (row_cost_ok p S T tol) rows &&
  Qle_bool (dist - tol) (qsum (map snd rows)) && Qle_bool (qsum (map snd rows)) (dist + tol).
