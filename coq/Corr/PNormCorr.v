(* Fixed runner for the generated C10 case files (vm_compute).  The implementation returns the
   norm v (a binary64, passed as an exact rational); the models return the p-th power NP of the
   norm.  |v - N| <= rtol * N  for the real N with N^p = NP is decided exactly in Q as
   (v/(1+rtol))^p <= NP <= (v/(1-rtol))^p. *)
From Coq Require Import QArith Qabs Qminmax Qreduction List Bool.
From Persim Require Import Lib.Kth Lib.PL Spec.PNormS Model.PNormM.
Import ListNotations.
Open Scope Q_scope.

(* the model's accumulation with fractions kept in lowest terms (same value, see red_ok below) *)
Fixpoint oadd_red (acc : Q) (l : list (option Q)) : option Q :=
  match l with
  | [] => Some acc
  | None :: _ => None
  | Some v :: r => oadd_red (Qred (acc + Qred v)) r
  end.

Definition oeq (a b : option Q) : Prop :=
  match a, b with Some x, Some y => x == y | None, None => True | _, _ => False end.

Lemma oadd_red_ok l : forall a b, a == b -> oeq (oadd_red a l) (oadd_all b l).
Proof. induction l as [|[v|] r IH]; simpl; intros a b E; auto.
  apply IH. rewrite (Qred_correct (a + Qred v)), (Qred_correct v), E. reflexivity. Qed.

Definition segs_of (f : nat -> pt -> pt -> option Q) (p : nat) (L : landscape) : list (option Q) :=
  flat_map (fun l => map (fun s => f p (fst s) (snd s)) (segments l)) L.

Definition run_intended p L := oadd_red 0 (segs_of seg p L).
Definition run_legacy p L := oadd_red 0 (segs_of Legacy.seg p L).

Lemma run_intended_ok p L : oeq (run_intended p L) (norm_pow_m p L).
Proof. apply oadd_red_ok. reflexivity. Qed.
Lemma run_legacy_ok p L : oeq (run_legacy p L) (Legacy.norm_pow p L).
Proof. apply oadd_red_ok. reflexivity. Qed.

Definition in_tol (p : nat) (v rtol NP : Q) : bool :=
  Qle_bool 0 v && Qle_bool (pw (v / (1 + rtol)) p) NP && Qle_bool NP (pw (v / (1 - rtol)) p).

(* impl = Some v : the implementation returned the finite float v; None : it raised
   ZeroDivisionError or returned nan / inf *)
Definition matches (p : nat) (m impl : option Q) (rtol : Q) : bool :=
  match m, impl with
  | Some NP, Some v => in_tol p v rtol NP
  | None, None => true
  | _, _ => false
  end.

Inductive verdict := VIntended | VLegacy | VNeither.

(* the pinned code's model is only evaluated when the repaired one does not match *)
Definition check_exact (p : nat) (L : landscape) (impl : option Q) (rtol : Q) : verdict :=
  if matches p (run_intended p L) impl rtol then VIntended
  else if matches p (run_legacy p L) impl rtol then VLegacy else VNeither.

Definition check_approx (p : nat) (start stop : Q) (n : nat) (values : list (list Q)) (impl : option Q) (rtol : Q) : verdict :=
  check_exact p (values_to_pairs start stop n values) impl rtol.

Definition oeqb (a b : option Q) : bool :=
  match a, b with Some x, Some y => Qeq_bool x y | None, None => true | _, _ => false end.

(* sup norms are compared exactly: |.| and max are exact in binary64 *)
Definition check_sup_exact (L : landscape) (impl : option Q) : bool := oeqb (exact_sup_norm L) impl.
Definition check_sup_approx (values : list (list Q)) (impl : option Q) : bool := oeqb (approx_sup_norm values) impl.
(* and both must be the spec's largest |y| *)
Definition check_sup_spec (L : landscape) (impl : Q) : bool := Qeq_bool (sup_spec L) impl.

(* the exact value of the spec, for the replay files: numerator and denominator *)
Definition spec_num_den (p : nat) (L : landscape) : Z * positive :=
  let q := Qred (norm_pow p L) in (Qnum q, Qden q).
