(* Fixed runner for the generated C07 case files: the implementation's bottleneck value (an exact
   rational) against the brute-force twin of the spec, by vm_compute. *)
From Coq Require Import QArith List.
From Persim Require Import Spec.BottleneckS Model.MetricBruteM.
Import ListNotations.
Open Scope Q_scope.

Definition brute_agrees (S T : list qpoint) (impl : Q) : bool := Qeq_bool (bottleneck_brute S T) impl.
