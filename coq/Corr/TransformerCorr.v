(* Fixed runner for the generated C18 case files.
   Landscaper: a constructor call, a history of fit / transform / fit_transform calls and, after each
   call, the implementation's start, stop, get_params()['start'/'stop'] and whether the call raised
   (0 no, 1 IndexError, 2 ValueError on an empty diagram).  [check_lhistory] runs the repaired and the
   Legacy machine of Model/TransformerM.v over Q and returns  i + 100000*l  (0 = all equal, else
   100*(k+1)+f: first differing call k, field f: 1 start 2 stop 3 params.start 4 params.stop 5 raised).
   Imager: constructor, history of fit / transform / fit_transform, the C12 snapshot after every call;
   [check_ihistory] runs the binary64 instance (repaired constructor and setters) bit for bit. *)
From Coq Require Import ZArith QArith List Bool PrimFloat.
From Persim Require Import Model.ImagerM Model.TransformerM Corr.ImagerCorr.
Import ListNotations.

Definition oq_eqb (a b : option Q) : bool :=
  match a, b with
  | Some x, Some y => Qeq_bool x y
  | None, None => true
  | _, _ => false
  end.

Record lsnap := mkLS { ls_start : option Q; ls_stop : option Q; ls_pstart : option Q; ls_pstop : option Q; ls_err : Z }.

Definition approx0 (_ _ : option Q) (_ : Z) (_ : nat) (_ : list diagram) : lres unit := LOk tt.
Definition flat0 (u : unit) : unit := u.

Definition lerr_code {A} (r : lres A) : Z :=
  match r with LOk _ => 0 | LErr ErrIndex => 1 | LErr ErrEmpty => 2 end%Z.

Definition lsnap_diff (s : lstate) (r : lres (option unit)) (o : lsnap) : Z :=
  (if negb (oq_eqb (l_start s) (ls_start o)) then 1
   else if negb (oq_eqb (l_stop s) (ls_stop o)) then 2
   else if negb (oq_eqb (fst (lparams s)) (ls_pstart o)) then 3
   else if negb (oq_eqb (snd (lparams s)) (ls_pstop o)) then 4
   else if negb (lerr_code r =? ls_err o) then 5 else 0)%Z.

Fixpoint lwalk (fit : lstate -> list diagram -> lres lstate) (s : lstate) (ops : list lop)
         (snaps : list lsnap) (k : Z) : Z :=
  match ops, snaps with
  | [], [] => 0
  | o :: ops', sn :: snaps' =>
      let (s', r) := lstep_with unit approx0 flat0 fit s o in
      let d := lsnap_diff s' r sn in
      if (d =? 0)%Z then lwalk fit s' ops' snaps' (k + 1) else (100 * (k + 1) + d)
  | _, _ => 99
  end%Z.

Definition check_lhistory (hom : nat) (us up : option Q) (steps : Z) (fl : bool)
           (ops : list lop) (snaps : list lsnap) : Z :=
  (lwalk lfit (lctor hom us up steps fl) ops snaps 0
   + 100000 * lwalk lfit_legacy (lctor hom us up steps fl) ops snaps 0)%Z.

(* ---- imager *)
Definition img0 (_ : Z * Z) (_ _ : list float) (_ : bool) (_ : dgm FNum) : unit := tt.

Fixpoint iwalk (s : state FNum) (ops : list (iop FNum)) (snaps : list snap) (k : Z) : Z :=
  match ops, snaps with
  | [], [] => 0
  | o :: ops', sn :: snaps' =>
      let s' := fst (istep FNum unit img0 s o) in
      let d := snap_diff s' sn in
      if (d =? 0)%Z then iwalk s' ops' snaps' (k + 1) else (100 * (k + 1) + d)
  | _, _ => 99
  end%Z.

Definition check_ihistory (bl bh pl ph ps : float) (ops : list (iop FNum)) (snaps : list snap) : Z :=
  match snaps with
  | [] => 99
  | sn0 :: rest =>
      let s0 := ctor FNum bl bh pl ph ps in
      let d := snap_diff s0 sn0 in
      if (d =? 0)%Z then iwalk s0 ops rest 1 else (100 + d)
  end%Z.
