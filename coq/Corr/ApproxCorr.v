(* Fixed runner for the generated C08 case files.  One closed term per case:
     check_case tol start stop n dgms hom_deg  impl_approx impl_landscaper impl_flat  vec  dv
   evaluated by vm_compute to a small number (sum of the flags below); 0 = the implementation's
   observations equal the model's on this input. *)
From Coq Require Import QArith Qabs List Bool Arith ZArith.
From Persim Require Import Lib.Kth Lib.PL Model.ApproxM.
Import ListNotations.
Open Scope Q_scope.

(* what the implementation returned for a values-like observation *)
Inductive iout := IVals (v : list (list Q)) (* a 2-d array *) | IVec (r : list Q) (* a 1-d array *) | IMarker | IErrIndex | IErrValue | ISkip
  | ISame       (* the observation is identical to the PersLandscapeApprox(...).values observation *)
  | ISameFlat.  (* the observation is that one, flattened *)

Definition qclose (tol x y : Q) : bool := Qle_bool (Qabs (x - y)) tol.
Fixpoint row_close (tol : Q) (a b : list Q) : bool :=
  match a, b with
  | [], [] => true
  | x :: a', y :: b' => qclose tol x y && row_close tol a' b'
  | _, _ => false
  end.
Fixpoint rows_close (tol : Q) (a b : list (list Q)) : bool :=
  match a, b with
  | [], [] => true
  | x :: a', y :: b' => row_close tol x y && rows_close tol a' b'
  | _, _ => false
  end.
Definition all_zero_rows (v : list (list Q)) : bool := forallb (forallb (fun x => Qeq_bool x 0)) v.

Inductive verdict := Agree | LegacyEmpty | Disagree.

(* an observation against the model's result (intended) and the legacy model's result (only
   evaluated when it is needed).  flatm: the model result [row] stands for the 1-d array row. *)
Definition judge (tol : Q) (flatm : bool) (m : res (list (list Q))) (lg : unit -> res lres) (o : iout) : verdict :=
  let legacy_empty := fun _ : unit => match lg tt with Ok LEmptyMarker => Agree | _ => Disagree end in
  match o with
  | ISkip => Agree
  | ISame | ISameFlat => Disagree   (* resolved before judging *)
  | IErrIndex => match m with ErrIndex => Agree | _ => Disagree end
  | IErrValue => match m with ErrEmptyDiagram => Agree | _ => Disagree end
  | IMarker => match lg tt with Ok LEmptyMarker => LegacyEmpty | _ => Disagree end
  | IVals v =>
      match m with
      | Ok mv => if negb flatm && rows_close tol mv v then Agree else Disagree
      | _ => Disagree
      end
  | IVec r =>
      match m with
      | Ok mv =>
          if flatm && rows_close tol mv [r] then Agree
          else (* a repair that returns an empty array for an empty landscape is as good *)
            match r with [] => legacy_empty tt | _ => Disagree end
      | _ => Disagree
      end
  end.
Definition strip {X} (r : res (Q * Q * X)) : res X :=
  match r with Ok (_, _, v) => Ok v | ErrIndex => ErrIndex | ErrEmptyDiagram => ErrEmptyDiagram
             | ErrInfiniteGrid => ErrInfiniteGrid end.

(* vectorize: the implementation's own critical pairs, its grid ends and its sampled values *)
Inductive vobs := VSkip | VObs (cps : list (list pt)) (start stop : option Q) (s e : Q) (vals : list (list Q)).
Definition judge_vectorize (tol : Q) (n : nat) (o : vobs) : bool :=
  match o with
  | VSkip => true
  | VObs cps start stop s e vals =>
      match vectorize_ends cps start stop with
      | Some (s', e') => Qeq_bool s s' && Qeq_bool e e' && rows_close tol (vectorize_values cps s' e' n) vals
      | None => false
      end
  end.

Definition ext_eqb (a b : ext) : bool :=
  match a, b with PInf, PInf => true | Fin x, Fin y => Qeq_bool x y | _, _ => false end.
Fixpoint exts_eqb (a b : list ext) : bool :=
  match a, b with [], [] => true | x :: a', y :: b' => ext_eqb x y && exts_eqb a' b' | _, _ => false end.
Definition judge_dv (dgms : list (list xbar)) (o : option (list ext)) : bool :=
  match o with
  | None => true
  | Some l => match dgms with d :: _ => exts_eqb (death_vector d) l | [] => false end
  end.

Definition vcode (v : verdict) : Z := match v with Agree => 0 | LegacyEmpty => 1 | Disagree => 2 end%Z.

Definition map_res {X Y} (f : X -> Y) (r : res X) : res Y :=
  match r with Ok v => Ok (f v) | ErrIndex => ErrIndex | ErrEmptyDiagram => ErrEmptyDiagram
             | ErrInfiniteGrid => ErrInfiniteGrid end.
(* the flattening transformer is the plain one followed by flattening (so the model runs once) *)
Lemma landscaper_flat_eq start stop n dgms h :
  landscaper true start stop n dgms h = map_res flat (landscaper false start stop n dgms h).
Proof. unfold landscaper, landscaper_gen. destruct (nth_error dgms h); auto.
  destruct (fit_ends start stop l) as [[s e]| | |]; auto.
  destruct (ctor_gen approx_values (Some s) (Some e) n dgms h) as [[[? ?] ?]| | |]; auto. Qed.

Definition resolve (oa o : iout) : iout :=
  match o with
  | ISame => oa
  | ISameFlat => match oa with IVals v => IVec (concat v) | x => x end
  | x => x
  end.

(* digits, least significant first: approx (0/1/2), landscaper (x4), landscaper flattened (x16),
   vectorize (x64: 0/1), death vector (x128: 0/1) *)
Definition check_case (tol : Q) (start stop : option Q) (n : nat) (dgms : list (list xbar)) (hom_deg : nat)
  (oa ol of_ : iout) (ov : vobs) (od : option (list ext)) : Z :=
  let ml := landscaper false start stop n dgms hom_deg in
  let lgl := fun _ : unit => landscaper_legacy false start stop n dgms hom_deg in
  (vcode (judge tol false (strip (approx_ctor start stop n dgms hom_deg))
                (fun _ => strip (approx_ctor_legacy start stop n dgms hom_deg)) oa)
   + 4 * vcode (judge tol false ml lgl (resolve oa ol))
   + 16 * vcode (judge tol true (map_res flat ml) lgl (resolve oa of_))
   + 64 * (if judge_vectorize tol n ov then 0 else 1)
   + 128 * (if judge_dv dgms od then 0 else 1))%Z.
