(* Shared definitions for landscapes over Q: bars, breakpoints, tents, the k-th largest tent
   (the mathematical landscape) and evaluation of a breakpoint list by linear interpolation. *)
From Coq Require Import QArith Qminmax Lqa List Bool Arith Lia.
From Persim Require Import Lib.Kth.
Import ListNotations.
Open Scope Q_scope.

Definition bar := (Q * Q)%type.
Definition pt := (Q * Q)%type.
Definition half (x : Q) : Q := x * (1#2).

(* ---- spec: k-th largest tent ---- *)
Definition tent (a : bar) (t : Q) : Q := Qmax 0 (Qmin (t - fst a) (snd a - t)).
Definition land (bars : list bar) (k : nat) (t : Q) : Q := kth (map (fun a => tent a t) bars) k.

(* linear interpolation of breakpoints, 0 outside *)
Fixpoint pl_eval (cps : list pt) (t : Q) : Q :=
  match cps with
  | [] => 0
  | (x0, y0) :: r =>
      match r with
      | [] => if Qeq_bool t x0 then y0 else 0
      | (x1, y1) :: _ =>
          if Qlt_bool t x0 then 0
          else if Qle_bool t x1 && Qlt_bool x0 x1 then y0 + (y1 - y0) * (t - x0) / (x1 - x0)
          else pl_eval r t
      end end.


Fixpoint incr (l : list pt) : Prop :=
  match l with [] => True | p :: r => (match r with [] => True | q :: _ => fst p < fst q end) /\ incr r end.

Lemma incr_app_r l1 l2 : incr (l1 ++ l2) -> incr l2.
Proof. induction l1 as [|p r IH]; simpl; auto. intros [_ H]. auto. Qed.

Lemma b_le t x : Qle_bool t x = true <-> t <= x. Proof. apply Qle_bool_iff. Qed.
Lemma b_le_f t x : Qle_bool t x = false <-> x < t.
Proof. split; intro H. destruct (Qlt_le_dec x t); auto. apply Qle_bool_iff in q. congruence.
  destruct (Qle_bool t x) eqn:E; auto. apply Qle_bool_iff in E. lra. Qed.

(* before the first abscissa the function is 0 *)
Lemma pl_eval_before l t : incr l -> (forall p, In p l -> t < fst p) -> pl_eval l t == 0.
Proof. destruct l as [|[x0 y0] r]; simpl; intros I H. reflexivity.
  assert (t < x0) by (apply (H (x0,y0)); auto).
  destruct r as [|[x1 y1] r'].
  - destruct (Qeq_bool t x0) eqn:E; [apply Qeq_bool_iff in E; lra|reflexivity].
  - replace (Qlt_bool t x0) with true by (symmetry; apply Qlt_bool_iff; auto). reflexivity. Qed.

(* gluing: left of the junction point only the prefix matters, right of it only the suffix *)
Lemma pl_eval_app pre p l2 t : incr (pre ++ p :: l2) ->
  pl_eval (pre ++ p :: l2) t ==
  if Qle_bool t (fst p) then pl_eval (pre ++ [p]) t else pl_eval (p :: l2) t.
Proof.
  induction pre as [|[x0 y0] r IH]; intro I.
  - simpl app. destruct p as [xp yp]. simpl fst.
    destruct (Qle_bool t xp) eqn:E; [|reflexivity].
    apply b_le in E. simpl. destruct l2 as [|[x1 y1] r2].
    + reflexivity.
    + simpl in I. destruct I as [L _]. simpl in L.
      destruct (Qlt_bool t xp) eqn:E1.
      * apply Qlt_bool_iff in E1. destruct (Qeq_bool t xp) eqn:E2; [apply Qeq_bool_iff in E2; lra|reflexivity].
      * apply Qlt_bool_false in E1. assert (t == xp) by lra.
        replace (Qle_bool t x1) with true by (symmetry; apply b_le; lra).
        replace (Qlt_bool xp x1) with true by (symmetry; apply Qlt_bool_iff; auto). simpl andb. cbv iota.
        replace (Qeq_bool t xp) with true by (symmetry; apply Qeq_bool_iff; auto).
        rewrite H. field. lra.
  - simpl app in *. assert (I' := I). destruct I' as [L I'].
    specialize (IH I').
    destruct r as [|[x1 y1] r'].
    + (* pre = [(x0,y0)] *) simpl app in *. destruct p as [xp yp]. simpl fst in *. simpl in L.
      simpl pl_eval at 1. 
      destruct (Qlt_bool t x0) eqn:E0.
      * apply Qlt_bool_iff in E0. replace (Qle_bool t xp) with true by (symmetry; apply b_le; lra).
        simpl. rewrite (proj2 (Qlt_bool_iff t x0) E0). reflexivity.
      * apply Qlt_bool_false in E0.
        destruct (Qle_bool t xp) eqn:E1.
        -- simpl. rewrite (proj2 (Qlt_bool_false t x0) E0). rewrite E1.
           replace (Qlt_bool x0 xp) with true by (symmetry; apply Qlt_bool_iff; auto). reflexivity.
        -- replace (Qlt_bool x0 xp) with true by (symmetry; apply Qlt_bool_iff; auto). simpl andb. cbv iota.
           reflexivity.
    + simpl app in *. simpl in L.
      change (pl_eval ((x0, y0) :: (x1, y1) :: r' ++ p :: l2) t) with
        (if Qlt_bool t x0 then 0 else if Qle_bool t x1 && Qlt_bool x0 x1 then y0 + (y1 - y0) * (t - x0) / (x1 - x0)
         else pl_eval ((x1, y1) :: r' ++ p :: l2) t).
      change (pl_eval ((x0, y0) :: (x1, y1) :: r' ++ [p]) t) with
        (if Qlt_bool t x0 then 0 else if Qle_bool t x1 && Qlt_bool x0 x1 then y0 + (y1 - y0) * (t - x0) / (x1 - x0)
         else pl_eval ((x1, y1) :: r' ++ [p]) t).
      assert (X1 : x1 <= fst p).
      { clear - I'. revert x1 y1 I'. induction r' as [|[x2 y2] r'' IHr]; simpl; intros x1 y1 [H1 H2]. lra.
        specialize (IHr x2 y2 H2). simpl in H1. lra. }
      destruct (Qlt_bool t x0) eqn:E0.
      * apply Qlt_bool_iff in E0. replace (Qle_bool t (fst p)) with true by (symmetry; apply b_le; lra). reflexivity.
      * destruct (Qle_bool t x1 && Qlt_bool x0 x1) eqn:E1.
        -- apply andb_true_iff in E1. destruct E1 as [E1 _]. apply b_le in E1.
           replace (Qle_bool t (fst p)) with true by (symmetry; apply b_le; lra). reflexivity.
        -- rewrite IH. destruct (Qle_bool t (fst p)); reflexivity.
Qed.
