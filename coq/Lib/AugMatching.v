(* The augmentation bijection shared by the bottleneck (C01) and Wasserstein (C02) developments.

   For diagram sizes M and N the codes build a square (M+N)x(M+N) matrix:
     upper left  [0,M) x [0,N)      point-to-point costs,
     upper right [0,M) x [N,N+M)    allowed only on its diagonal (i, N+i): point i of S to the diagonal,
     lower left  [M,M+N) x [0,N)    allowed only on its diagonal (M+j, j): point j of T to the diagonal,
     lower right [M,M+N) x [N,N+M)  free (cost zero).
   This file is cost-free combinatorics about that index structure:
     (1) every valid partial matching m extends to a perfect matching [extend M N m] of the
         augmented structure that avoids the forbidden cells;
     (2) every perfect matching E avoiding the forbidden cells restricts to a valid partial
         matching [restrict M N E], and E consists exactly of the cells of m, (i,N+i) for i
         unmatched in m, (M+j,j) for j unmatched in m, and |m| cells of the lower right block.
   Section AugCosts turns both into statements about the list of costs along E for ANY cost
   assignment that is cpair on the upper left block, cdiag on the two diagonals of the off
   blocks and zero on the lower right block:  map c E  is a permutation of
   pm_costs ... m ++ repeat zero |m|.  Max and sum versions are corollaries for the users. *)
From Coq Require Import List Arith Bool Permutation Lia.
From Persim Require Import Spec.PartialMatching.
Import ListNotations.

(* ---------------------------------------------------------------- the index structure *)

Definition forbidden (M N : nat) (c : nat * nat) : bool :=
  ((fst c <? M) && (N <=? snd c) && negb (snd c - N =? fst c))
  || ((M <=? fst c) && (snd c <? N) && negb (fst c - M =? snd c)).

(* a perfect matching of the complete index square [0,K) x [0,K), as a list of cells *)
Definition perfect_on (K : nat) (E : list (nat * nat)) : Prop :=
  Permutation (map fst E) (seq 0 K) /\ Permutation (map snd E) (seq 0 K).

Definition avoids (M N : nat) (E : list (nat * nat)) : Prop :=
  forall c, In c E -> forbidden M N c = false.

Definition extend (M N : nat) (m : pmatching) : list (nat * nat) :=
  m ++ map (fun i => (i, N + i)) (unmatched_l M m)
    ++ map (fun j => (M + j, j)) (unmatched_r N m)
    ++ map (fun p => (M + snd p, N + fst p)) m.

Definition in_ul (M N : nat) (p : nat * nat) : bool := (fst p <? M) && (snd p <? N).
Definition in_ur (M N : nat) (p : nat * nat) : bool := (fst p <? M) && negb (snd p <? N).
Definition in_ll (M N : nat) (p : nat * nat) : bool := negb (fst p <? M) && (snd p <? N).
Definition in_lr (M N : nat) (p : nat * nat) : bool := negb (fst p <? M) && negb (snd p <? N).

Definition restrict (M N : nat) (E : list (nat * nat)) : pmatching := filter (in_ul M N) E.
Definition lower_right (M N : nat) (E : list (nat * nat)) : list (nat * nat) := filter (in_lr M N) E.

(* executable perfectness test for a matching given as "column of row i" *)
Definition perfect_cols (K : nat) (cols : list nat) : Prop :=
  length cols = K /\ NoDup cols /\ forall j, In j cols -> j < K.

(* ---------------------------------------------------------------- unmatched indices *)

Lemma existsb_eqb_In x l : existsb (Nat.eqb x) l = true <-> In x l.
Proof.
  rewrite existsb_exists. split.
  - intros [y [I E]]. apply Nat.eqb_eq in E. now subst.
  - intros I. exists x. split; [exact I|apply Nat.eqb_refl].
Qed.

Lemma unmatched_In used n x : In x (unmatched used n) <-> x < n /\ ~ In x used.
Proof.
  unfold unmatched. rewrite filter_In, in_seq, negb_true_iff.
  split.
  - intros [B E]. split; [lia|]. intros I. apply existsb_eqb_In in I. congruence.
  - intros [B NI]. split; [lia|]. destruct (existsb (Nat.eqb x) used) eqn:E; [|reflexivity].
    apply existsb_eqb_In in E. contradiction.
Qed.

Lemma unmatched_NoDup used n : NoDup (unmatched used n).
Proof. apply NoDup_filter, seq_NoDup. Qed.

Lemma NoDup_app_intro {A} (a b : list A) :
  NoDup a -> NoDup b -> (forall x, In x a -> ~ In x b) -> NoDup (a ++ b).
Proof.
  induction a as [|x a IH]; simpl; intros Na Nb D; [exact Nb|].
  inversion Na; subst. constructor.
  - rewrite in_app_iff. intros [I|I]; [contradiction|]. exact (D x (or_introl eq_refl) I).
  - apply IH; auto.
Qed.

Lemma unmatched_perm used n :
  NoDup used -> (forall x, In x used -> x < n) ->
  Permutation (used ++ unmatched used n) (seq 0 n).
Proof.
  intros ND B. apply NoDup_Permutation.
  - apply NoDup_app_intro; [exact ND|apply unmatched_NoDup|].
    intros x I U. apply unmatched_In in U. tauto.
  - apply seq_NoDup.
  - intros x. rewrite in_app_iff, unmatched_In, in_seq. split.
    + intros [I|[L _]]; [specialize (B x I)|]; lia.
    + intros L. destruct (in_dec Nat.eq_dec x used); [left; assumption|right; split; [lia|assumption]].
Qed.

Lemma unmatched_length used n :
  NoDup used -> (forall x, In x used -> x < n) -> length used + length (unmatched used n) = n.
Proof.
  intros ND B. pose proof (Permutation_length (unmatched_perm used n ND B)) as L.
  rewrite app_length, seq_length in L. exact L.
Qed.

Lemma seq_shift_map a n : map (fun j => a + j) (seq 0 n) = seq a n.
Proof.
  revert a. induction n as [|n IH]; intros a; [reflexivity|].
  simpl. rewrite Nat.add_0_r. f_equal. rewrite <- seq_shift, map_map.
  rewrite <- (IH (S a)). apply map_ext. intros; lia.
Qed.

(* ---------------------------------------------------------------- (1) extension *)

Lemma valid_pm_fst M N m : valid_pm M N m -> NoDup (map fst m) /\ forall x, In x (map fst m) -> x < M.
Proof.
  intros (A & _ & B). split; [exact A|]. intros x I. apply in_map_iff in I.
  destruct I as [p [<- I]]. apply B, I.
Qed.
Lemma valid_pm_snd M N m : valid_pm M N m -> NoDup (map snd m) /\ forall x, In x (map snd m) -> x < N.
Proof.
  intros (_ & A & B). split; [exact A|]. intros x I. apply in_map_iff in I.
  destruct I as [p [<- I]]. apply B, I.
Qed.

Lemma extend_fst M N m : valid_pm M N m -> Permutation (map fst (extend M N m)) (seq 0 (M + N)).
Proof.
  intros V. destruct (valid_pm_fst _ _ _ V) as [A1 B1]. destruct (valid_pm_snd _ _ _ V) as [A2 B2].
  unfold extend. rewrite !map_app, !map_map. simpl.
  rewrite seq_app. simpl. rewrite app_assoc. apply Permutation_app.
  - rewrite map_id. exact (unmatched_perm _ _ A1 B1).
  - rewrite <- seq_shift_map.
    transitivity (map (fun j => M + j) (unmatched_r N m) ++ map (fun j => M + j) (map snd m)).
    { rewrite map_map. apply Permutation_refl. }
    rewrite <- map_app. apply Permutation_map.
    rewrite Permutation_app_comm. exact (unmatched_perm _ _ A2 B2).
Qed.

Lemma extend_snd M N m : valid_pm M N m -> Permutation (map snd (extend M N m)) (seq 0 (N + M)).
Proof.
  intros V. destruct (valid_pm_fst _ _ _ V) as [A1 B1]. destruct (valid_pm_snd _ _ _ V) as [A2 B2].
  unfold extend. rewrite !map_app, !map_map. simpl.
  rewrite map_id. rewrite seq_app. simpl.
  (* snd m ++ (N+)ul ++ ur ++ (N+)fst m  ~  (snd m ++ ur) ++ ((N+) fst m ++ (N+) ul) *)
  transitivity ((map snd m ++ unmatched_r N m)
                ++ (map (fun x => N + fst x) m ++ map (fun x => N + x) (unmatched_l M m))).
  - rewrite <- !app_assoc. apply Permutation_app_head.
    rewrite (Permutation_app_comm (map (fun x => N + fst x) m)).
    rewrite !app_assoc. apply Permutation_app_tail. apply Permutation_app_comm.
  - apply Permutation_app.
    + exact (unmatched_perm _ _ A2 B2).
    + rewrite <- seq_shift_map.
      transitivity (map (fun j => N + j) (map fst m) ++ map (fun j => N + j) (unmatched_l M m)).
      { rewrite map_map. apply Permutation_refl. }
      rewrite <- map_app. apply Permutation_map. exact (unmatched_perm _ _ A1 B1).
Qed.

Theorem extend_perfect M N m : valid_pm M N m -> perfect_on (M + N) (extend M N m).
Proof.
  intros V. split; [apply extend_fst, V|]. rewrite (Nat.add_comm M N). apply extend_snd, V.
Qed.

Theorem extend_avoids M N m : valid_pm M N m -> avoids M N (extend M N m).
Proof.
  intros (_ & _ & B) c I. unfold extend in I. rewrite !in_app_iff in I. unfold forbidden.
  destruct I as [I|[I|[I|I]]].
  - destruct (B c I) as [H1 H2].
    assert (E1 : (N <=? snd c) = false) by (apply Nat.leb_gt; lia).
    assert (E2 : (M <=? fst c) = false) by (apply Nat.leb_gt; lia).
    rewrite E1, E2, andb_false_r. reflexivity.
  - apply in_map_iff in I. destruct I as [i [<- I]]. simpl. apply unmatched_In in I.
    assert (E1 : (N + i - N =? i) = true) by (apply Nat.eqb_eq; lia).
    assert (E2 : (M <=? i) = false) by (apply Nat.leb_gt; lia).
    rewrite E1, E2, andb_false_r. reflexivity.
  - apply in_map_iff in I. destruct I as [j [<- I]]. simpl. apply unmatched_In in I.
    assert (E1 : (M + j - M =? j) = true) by (apply Nat.eqb_eq; lia).
    assert (E2 : (M + j <? M) = false) by (apply Nat.ltb_ge; lia).
    rewrite E1, E2, andb_false_r. reflexivity.
  - apply in_map_iff in I. destruct I as [p [<- I]]. simpl.
    assert (E1 : (M + snd p <? M) = false) by (apply Nat.ltb_ge; lia).
    assert (E2 : (N + fst p <? N) = false) by (apply Nat.ltb_ge; lia).
    rewrite E1, E2, andb_false_r. reflexivity.
Qed.

Lemma extend_restrict M N m : valid_pm M N m -> restrict M N (extend M N m) = m.
Proof.
  intros (_ & _ & B). unfold restrict, extend. rewrite !filter_app.
  assert (F1 : filter (in_ul M N) m = m).
  { clear -B. induction m as [|p m IH]; [reflexivity|]. simpl.
    destruct (B p (or_introl eq_refl)) as [H1 H2]. unfold in_ul at 1.
    apply Nat.ltb_lt in H1, H2. rewrite H1, H2. simpl. f_equal. apply IH. intros; apply B; now right. }
  assert (Z : forall (A : Type) (f : A -> nat * nat) (l : list A),
             (forall x, in_ul M N (f x) = false) -> filter (in_ul M N) (map f l) = []).
  { intros A f l H. induction l; simpl; [reflexivity|]. now rewrite H. }
  rewrite F1, !Z.
  - now rewrite !app_nil_r.
  - intros p. unfold in_ul. simpl. assert (E : (M + snd p <? M) = false) by (apply Nat.ltb_ge; lia). now rewrite E.
  - intros j. unfold in_ul. simpl. assert (E : (M + j <? M) = false) by (apply Nat.ltb_ge; lia). now rewrite E.
  - intros i. unfold in_ul. simpl. assert (E : (N + i <? N) = false) by (apply Nat.ltb_ge; lia).
    rewrite E. apply andb_false_r.
Qed.

(* ---------------------------------------------------------------- (2) restriction *)

Lemma four_blocks M N E :
  Permutation E (filter (in_ul M N) E ++ filter (in_ur M N) E ++ filter (in_ll M N) E ++ filter (in_lr M N) E).
Proof.
  induction E as [|p E IH]; [constructor|].
  simpl. unfold in_ul at 1, in_ur at 1, in_ll at 1, in_lr at 1.
  destruct (fst p <? M), (snd p <? N); simpl.
  - constructor. exact IH.
  - apply Permutation_cons_app. exact IH.
  - rewrite app_assoc. apply Permutation_cons_app. rewrite <- app_assoc. exact IH.
  - rewrite 2 app_assoc. apply Permutation_cons_app. rewrite <- 2 app_assoc. exact IH.
Qed.

Lemma NoDup_map_filter {A B} (f : A -> B) g (l : list A) : NoDup (map f l) -> NoDup (map f (filter g l)).
Proof.
  induction l as [|x l IH]; simpl; intros ND; [constructor|].
  inversion ND; subst. destruct (g x); simpl; [|auto].
  constructor; [|auto]. intros I. apply H1. apply in_map_iff in I. destruct I as [y [E I]].
  apply filter_In in I. apply in_map_iff. exists y. tauto.
Qed.

Theorem restrict_valid M N E : perfect_on (M + N) E -> valid_pm M N (restrict M N E).
Proof.
  intros [PF PS]. unfold restrict. repeat split.
  - apply NoDup_map_filter. apply (Permutation_NoDup (Permutation_sym PF)), seq_NoDup.
  - apply NoDup_map_filter. apply (Permutation_NoDup (Permutation_sym PS)), seq_NoDup.
  - apply filter_In in H. destruct H as [_ H]. unfold in_ul in H. apply andb_true_iff in H.
    apply Nat.ltb_lt. tauto.
  - apply filter_In in H. destruct H as [_ H]. unfold in_ul in H. apply andb_true_iff in H.
    apply Nat.ltb_lt. tauto.
Qed.

Section Restrict.
  Variables (M N : nat) (E : list (nat * nat)).
  Hypothesis PE : perfect_on (M + N) E.
  Hypothesis AV : avoids M N E.

  Let NDf : NoDup (map fst E).
  Proof. apply (Permutation_NoDup (Permutation_sym (proj1 PE))), seq_NoDup. Qed.
  Let NDs : NoDup (map snd E).
  Proof. apply (Permutation_NoDup (Permutation_sym (proj2 PE))), seq_NoDup. Qed.

  Lemma same_row p q : In p E -> In q E -> fst p = fst q -> p = q.
  Proof.
    clear PE AV NDs. revert NDf. induction E as [|x l IH]; simpl; [tauto|].
    intros ND Ip Iq Eq. inversion ND; subst.
    destruct Ip as [->|Ip], Iq as [->|Iq]; auto.
    - exfalso. apply H1. rewrite Eq. now apply in_map.
    - exfalso. apply H1. rewrite <- Eq. now apply in_map.
  Qed.
  Lemma same_col p q : In p E -> In q E -> snd p = snd q -> p = q.
  Proof.
    clear PE AV NDf. revert NDs. induction E as [|x l IH]; simpl; [tauto|].
    intros ND Ip Iq Eq. inversion ND; subst.
    destruct Ip as [->|Ip], Iq as [->|Iq]; auto.
    - exfalso. apply H1. rewrite Eq. now apply in_map.
    - exfalso. apply H1. rewrite <- Eq. now apply in_map.
  Qed.

  Lemma ur_shape p : In p (filter (in_ur M N) E) -> p = (fst p, N + fst p) /\ fst p < M.
  Proof.
    intros I. apply filter_In in I. destruct I as [I B]. specialize (AV p I).
    unfold in_ur in B. unfold forbidden in AV. apply andb_true_iff in B. destruct B as [B1 B2].
    apply negb_true_iff in B2. apply Nat.ltb_lt in B1. apply Nat.ltb_ge in B2.
    apply orb_false_iff in AV. destruct AV as [AV1 _].
    assert (T1 : (fst p <? M) = true) by (apply Nat.ltb_lt; lia).
    assert (T2 : (N <=? snd p) = true) by (apply Nat.leb_le; lia).
    rewrite T1, T2 in AV1. simpl in AV1. apply negb_false_iff, Nat.eqb_eq in AV1.
    split; [|exact B1]. destruct p as [i j]. simpl in *. f_equal. lia.
  Qed.

  Lemma ll_shape p : In p (filter (in_ll M N) E) -> p = (M + snd p, snd p) /\ snd p < N.
  Proof.
    intros I. apply filter_In in I. destruct I as [I B]. specialize (AV p I).
    unfold in_ll in B. unfold forbidden in AV. apply andb_true_iff in B. destruct B as [B1 B2].
    apply negb_true_iff in B1. apply Nat.ltb_ge in B1. apply Nat.ltb_lt in B2.
    apply orb_false_iff in AV. destruct AV as [_ AV2].
    assert (T1 : (M <=? fst p) = true) by (apply Nat.leb_le; lia).
    assert (T2 : (snd p <? N) = true) by (apply Nat.ltb_lt; lia).
    rewrite T1, T2 in AV2. simpl in AV2. apply negb_false_iff, Nat.eqb_eq in AV2.
    split; [|exact B2]. destruct p as [i j]. simpl in *. f_equal. lia.
  Qed.

  Lemma ur_rows : Permutation (map fst (filter (in_ur M N) E)) (unmatched_l M (restrict M N E)).
  Proof.
    apply NoDup_Permutation.
    - apply NoDup_map_filter, NDf.
    - apply unmatched_NoDup.
    - intros i. unfold unmatched_l. rewrite unmatched_In. split.
      + intros I. apply in_map_iff in I. destruct I as [p [<- I]].
        destruct (ur_shape p I) as [_ L]. split; [exact L|].
        intros J. apply in_map_iff in J. destruct J as [q [Eq J]].
        apply filter_In in I, J. destruct I as [I Bp], J as [J Bq].
        assert (q = p) by (apply same_row; auto). subst q.
        unfold in_ur in Bp. unfold in_ul in Bq.
        destruct (fst p <? M), (snd p <? N); simpl in *; congruence.
      + intros [L NI].
        assert (I : In i (map fst E)).
        { apply (Permutation_in _ (Permutation_sym (proj1 PE))). apply in_seq. lia. }
        apply in_map_iff in I. destruct I as [p [<- I]]. apply in_map. apply filter_In. split; [exact I|].
        unfold in_ur. apply Nat.ltb_lt in L. rewrite L. simpl.
        destruct (snd p <? N) eqn:C; [|reflexivity]. exfalso. apply NI.
        apply in_map. apply filter_In. split; [exact I|]. unfold in_ul. now rewrite L, C.
  Qed.

  Lemma ll_cols : Permutation (map snd (filter (in_ll M N) E)) (unmatched_r N (restrict M N E)).
  Proof.
    apply NoDup_Permutation.
    - apply NoDup_map_filter, NDs.
    - apply unmatched_NoDup.
    - intros j. unfold unmatched_r. rewrite unmatched_In. split.
      + intros I. apply in_map_iff in I. destruct I as [p [<- I]].
        destruct (ll_shape p I) as [_ L]. split; [exact L|].
        intros J. apply in_map_iff in J. destruct J as [q [Eq J]].
        apply filter_In in I, J. destruct I as [I Bp], J as [J Bq].
        assert (q = p) by (apply same_col; auto). subst q.
        unfold in_ll in Bp. unfold in_ul in Bq.
        destruct (fst p <? M), (snd p <? N); simpl in *; congruence.
      + intros [L NI].
        assert (I : In j (map snd E)).
        { apply (Permutation_in _ (Permutation_sym (proj2 PE))). apply in_seq. lia. }
        apply in_map_iff in I. destruct I as [p [<- I]]. apply in_map. apply filter_In. split; [exact I|].
        unfold in_ll. apply Nat.ltb_lt in L. rewrite L.
        destruct (fst p <? M) eqn:C; [|reflexivity]. exfalso. apply NI.
        apply in_map. apply filter_In. split; [exact I|]. unfold in_ul. now rewrite L, C.
  Qed.

  Lemma ur_cells : filter (in_ur M N) E = map (fun i => (i, N + i)) (map fst (filter (in_ur M N) E)).
  Proof.
    rewrite map_map. rewrite <- (map_id (filter (in_ur M N) E)) at 1.
    apply map_ext_in. intros p I. apply (ur_shape p I).
  Qed.
  Lemma ll_cells : filter (in_ll M N) E = map (fun j => (M + j, j)) (map snd (filter (in_ll M N) E)).
  Proof.
    rewrite map_map. rewrite <- (map_id (filter (in_ll M N) E)) at 1.
    apply map_ext_in. intros p I. apply (ll_shape p I).
  Qed.

  Lemma lower_right_block p : In p (lower_right M N E) -> M <= fst p < M + N /\ N <= snd p < N + M.
  Proof.
    intros I. apply filter_In in I. destruct I as [I B]. unfold in_lr in B.
    apply andb_true_iff in B. destruct B as [B1 B2]. apply negb_true_iff in B1, B2.
    apply Nat.ltb_ge in B1, B2.
    assert (F : In (fst p) (seq 0 (M + N))) by (apply (Permutation_in _ (proj1 PE)); now apply in_map).
    assert (G : In (snd p) (seq 0 (M + N))) by (apply (Permutation_in _ (proj2 PE)); now apply in_map).
    apply in_seq in F, G. lia.
  Qed.

  Lemma lower_right_length : length (lower_right M N E) = length (restrict M N E).
  Proof.
    pose proof (restrict_valid M N E PE) as V.
    destruct (valid_pm_fst _ _ _ V) as [A1 B1]. destruct (valid_pm_snd _ _ _ V) as [A2 B2].
    pose proof (unmatched_length _ _ A1 B1) as L1. pose proof (unmatched_length _ _ A2 B2) as L2.
    pose proof (Permutation_length ur_rows) as U1. pose proof (Permutation_length ll_cols) as U2.
    pose proof (Permutation_length (four_blocks M N E)) as T.
    pose proof (Permutation_length (proj1 PE)) as K.
    rewrite !app_length in T. rewrite !map_length in *. rewrite seq_length in K.
    unfold unmatched_l, unmatched_r, lower_right, restrict in *. lia.
  Qed.

  (* the cells of E, up to order *)
  Theorem restrict_cells :
    Permutation E (restrict M N E
                   ++ map (fun i => (i, N + i)) (unmatched_l M (restrict M N E))
                   ++ map (fun j => (M + j, j)) (unmatched_r N (restrict M N E))
                   ++ lower_right M N E).
  Proof.
    rewrite (four_blocks M N E) at 1. unfold restrict at 1, lower_right.
    apply Permutation_app_head.
    rewrite ur_cells at 1. rewrite ll_cells at 1.
    apply Permutation_app; [apply Permutation_map, ur_rows|].
    apply Permutation_app_tail. apply Permutation_map, ll_cols.
  Qed.
End Restrict.

(* perfectness from the executable test on "column of row i" *)
Lemma map_fst_combine {A B} (a : list A) (b : list B) : length a = length b -> map fst (combine a b) = a.
Proof.
  revert b. induction a as [|x a IH]; intros [|y b]; simpl; intros L; try discriminate; [reflexivity|].
  f_equal. apply IH. lia.
Qed.
Lemma map_snd_combine {A B} (a : list A) (b : list B) : length a = length b -> map snd (combine a b) = b.
Proof.
  revert b. induction a as [|x a IH]; intros [|y b]; simpl; intros L; try discriminate; [reflexivity|].
  f_equal. apply IH. lia.
Qed.

Lemma perfect_cols_perfect K cols :
  perfect_cols K cols -> perfect_on K (combine (seq 0 K) cols).
Proof.
  intros (L & ND & B). split.
  - rewrite map_fst_combine by (rewrite seq_length; lia). reflexivity.
  - rewrite map_snd_combine by (rewrite seq_length; lia).
    apply NoDup_Permutation_bis; [exact ND|rewrite seq_length; lia|].
    intros j I. apply in_seq. specialize (B j I). lia.
Qed.

(* ---------------------------------------------------------------- costs along E *)

Section AugCosts.
  Context {P C : Type} (cpair : P -> P -> C) (cdiag : P -> C) (dflt : P) (zero : C).
  Variables (S T : list P).
  Notation M := (length S).
  Notation N := (length T).
  (* any cost assignment on the augmented square with the four-block shape *)
  Variable c : nat * nat -> C.
  Hypothesis c_ul : forall i j, i < M -> j < N -> c (i, j) = cpair (nth i S dflt) (nth j T dflt).
  Hypothesis c_ur : forall i, i < M -> c (i, N + i) = cdiag (nth i S dflt).
  Hypothesis c_ll : forall j, j < N -> c (M + j, j) = cdiag (nth j T dflt).
  Hypothesis c_lr : forall i j, M <= i -> N <= j -> c (i, j) = zero.

  Lemma map_const_repeat {A} (f : A -> C) (l : list A) :
    (forall x, In x l -> f x = zero) -> map f l = repeat zero (length l).
  Proof.
    induction l as [|x l IH]; simpl; intros H; [reflexivity|].
    rewrite H by now left. f_equal. apply IH. intros; apply H; now right.
  Qed.

  Theorem costs_extend m : valid_pm M N m ->
    Permutation (map c (extend M N m)) (pm_costs cpair cdiag dflt S T m ++ repeat zero (length m)).
  Proof.
    intros V. pose proof V as (_ & _ & B).
    unfold extend, pm_costs. rewrite !map_app, <- !app_assoc, !map_map.
    apply Permutation_app; [|apply Permutation_app; [|apply Permutation_app]].
    - erewrite map_ext_in; [apply Permutation_refl|].
      intros p I. destruct (B p I). destruct p as [i j]. simpl in *. now apply c_ul.
    - erewrite map_ext_in; [apply Permutation_refl|].
      intros i I. apply unmatched_In in I. apply c_ur. tauto.
    - erewrite map_ext_in; [apply Permutation_refl|].
      intros j I. apply unmatched_In in I. apply c_ll. tauto.
    - rewrite (map_const_repeat _ m); [apply Permutation_refl|].
      intros p _. apply c_lr; lia.
  Qed.

  Theorem costs_restrict E : perfect_on (M + N) E -> avoids M N E ->
    Permutation (map c E)
      (pm_costs cpair cdiag dflt S T (restrict M N E) ++ repeat zero (length (restrict M N E))).
  Proof.
    intros PE AV. pose proof (restrict_valid _ _ _ PE) as V. pose proof V as (_ & _ & B).
    rewrite (Permutation_map c (restrict_cells M N E PE AV)).
    unfold pm_costs. rewrite !map_app, <- !app_assoc, !map_map.
    apply Permutation_app; [|apply Permutation_app; [|apply Permutation_app]].
    - erewrite map_ext_in; [apply Permutation_refl|].
      intros p I. destruct (B p I). destruct p as [i j]. simpl in *. now apply c_ul.
    - erewrite map_ext_in; [apply Permutation_refl|].
      intros i I. apply unmatched_In in I. apply c_ur. tauto.
    - erewrite map_ext_in; [apply Permutation_refl|].
      intros j I. apply unmatched_In in I. apply c_ll. tauto.
    - rewrite <- (lower_right_length M N E PE AV).
      rewrite (map_const_repeat _ (lower_right M N E)); [apply Permutation_refl|].
      intros p I. destruct (lower_right_block M N E PE p I). destruct p as [i j]. simpl in *.
      apply c_lr; lia.
  Qed.
End AugCosts.
