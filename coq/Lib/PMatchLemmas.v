(* Combinatorics of partial matchings (Spec/PartialMatching.v): membership in the cost list,
   transposition, lookup functions, composition of two matchings, the identity-like matchings
   induced by a Permutation, and a finite enumeration of all partial matchings.
   Nothing here depends on the cost type. *)
From Coq Require Import List Arith Bool Permutation Lia.
From Persim Require Import Spec.PartialMatching.
Import ListNotations.

(* ---------- unmatched ---------- *)
Lemma existsb_eqb_In i l : existsb (Nat.eqb i) l = true <-> In i l.
Proof.
  rewrite existsb_exists. split.
  - intros [x [H E]]. apply Nat.eqb_eq in E. subst. exact H.
  - intros H. exists i. split; [exact H|apply Nat.eqb_refl].
Qed.

Lemma in_unmatched used n i : In i (unmatched used n) <-> i < n /\ ~ In i used.
Proof.
  unfold unmatched. rewrite filter_In, in_seq, negb_true_iff. split.
  - intros [H1 H2]. split; [lia|]. intro H. apply existsb_eqb_In in H. congruence.
  - intros [H1 H2]. split; [lia|]. destruct (existsb (Nat.eqb i) used) eqn:E; [|reflexivity].
    apply existsb_eqb_In in E. contradiction.
Qed.

Lemma unmatched_ext u u' n : (forall i, In i u <-> In i u') -> unmatched u n = unmatched u' n.
Proof.
  intros H. unfold unmatched. apply filter_ext. intros a. f_equal.
  apply eq_true_iff_eq. rewrite !existsb_eqb_In. apply H.
Qed.

Lemma unmatched_nil n : unmatched [] n = seq 0 n.
Proof.
  unfold unmatched. simpl. induction (seq 0 n); simpl; congruence.
Qed.

Lemma unmatched_full u n : (forall i, i < n -> In i u) -> unmatched u n = [].
Proof.
  intros H. destruct (unmatched u n) as [|x l] eqn:E; [reflexivity|].
  assert (I : In x (unmatched u n)) by (rewrite E; left; reflexivity).
  apply in_unmatched in I. destruct I as [I1 I2]. elim I2. apply H. exact I1.
Qed.

Lemma map_nth_seq {A} (l : list A) d : map (fun i => nth i l d) (seq 0 (length l)) = l.
Proof.
  induction l as [|a l IH]; [reflexivity|]. simpl. f_equal.
  rewrite <- seq_shift, map_map. exact IH.
Qed.

(* ---------- the cost list ---------- *)
Section Costs.
  Context {P C : Type} (cpair : P -> P -> C) (cdiag : P -> C) (dflt : P).
  Notation costs := (pm_costs cpair cdiag dflt).

  Lemma in_pm_costs c S T m : In c (costs S T m) <->
    (exists p, In p m /\ c = cpair (nth (fst p) S dflt) (nth (snd p) T dflt)) \/
    (exists i, i < length S /\ ~ In i (map fst m) /\ c = cdiag (nth i S dflt)) \/
    (exists j, j < length T /\ ~ In j (map snd m) /\ c = cdiag (nth j T dflt)).
  Proof.
    unfold pm_costs, unmatched_l, unmatched_r. rewrite !in_app_iff, !in_map_iff. split.
    - intros [[p [E I]]|[[i [E I]]|[j [E I]]]].
      + left. exists p. auto.
      + right. left. exists i. apply in_unmatched in I. destruct I. auto.
      + right. right. exists j. apply in_unmatched in I. destruct I. auto.
    - intros [[p [I E]]|[[i [I1 [I2 E]]]|[j [I1 [I2 E]]]]].
      + left. exists p. auto.
      + right. left. exists i. split; [auto|]. apply in_unmatched. auto.
      + right. right. exists j. split; [auto|]. apply in_unmatched. auto.
  Qed.

  Lemma pm_costs_perm S T m m' : Permutation m m' -> Permutation (costs S T m) (costs S T m').
  Proof.
    intros H. unfold pm_costs, unmatched_l, unmatched_r.
    rewrite (unmatched_ext (map fst m) (map fst m')), (unmatched_ext (map snd m) (map snd m')).
    - apply Permutation_app_tail. apply Permutation_map. exact H.
    - intros i. split; apply Permutation_in; [|symmetry]; apply Permutation_map; exact H.
    - intros i. split; apply Permutation_in; [|symmetry]; apply Permutation_map; exact H.
  Qed.

  Lemma pm_costs_nil S T : costs S T [] = map cdiag S ++ map cdiag T.
  Proof.
    unfold pm_costs, unmatched_l, unmatched_r. simpl. rewrite !unmatched_nil.
    f_equal.
    - rewrite <- (map_map (fun i => nth i S dflt) cdiag). f_equal. apply map_nth_seq.
    - rewrite <- (map_map (fun i => nth i T dflt) cdiag). f_equal. apply map_nth_seq.
  Qed.
End Costs.

(* ---------- transposition ---------- *)
Definition pswap (m : pmatching) : pmatching := map (fun p => (snd p, fst p)) m.

Lemma map_fst_pswap (m : pmatching) : map fst (pswap m) = map snd m.
Proof. unfold pswap. rewrite map_map. reflexivity. Qed.
Lemma map_snd_pswap (m : pmatching) : map snd (pswap m) = map fst m.
Proof. unfold pswap. rewrite map_map. reflexivity. Qed.
Lemma pswap_invol m : pswap (pswap m) = m.
Proof. unfold pswap. rewrite map_map. rewrite <- (map_id m) at 2. apply map_ext. intros [a b]. reflexivity. Qed.
Lemma in_pswap i j m : In (j, i) (pswap m) <-> In (i, j) m.
Proof.
  unfold pswap. rewrite in_map_iff. split.
  - intros [[a b] [E I]]. simpl in E. inversion E. subst. exact I.
  - intros I. exists (i, j). auto.
Qed.

Lemma valid_pm_pswap M N m : valid_pm M N m -> valid_pm N M (pswap m).
Proof.
  intros [H1 [H2 H3]]. unfold valid_pm. rewrite map_fst_pswap, map_snd_pswap. repeat split; auto.
  - destruct p as [a b]. apply -> in_pswap in H. apply H3 in H. simpl in *. tauto.
  - destruct p as [a b]. apply -> in_pswap in H. apply H3 in H. simpl in *. tauto.
Qed.

Lemma pm_costs_pswap {P C} (cpair : P -> P -> C) cdiag dflt S T m :
  (forall p q, cpair p q = cpair q p) ->
  Permutation (pm_costs cpair cdiag dflt T S (pswap m)) (pm_costs cpair cdiag dflt S T m).
Proof.
  intros sym. unfold pm_costs, unmatched_l, unmatched_r. rewrite map_fst_pswap, map_snd_pswap.
  apply Permutation_app.
  - unfold pswap. rewrite map_map. simpl. erewrite map_ext; [apply Permutation_refl|].
    intros a. simpl. apply sym.
  - apply Permutation_app_comm.
Qed.

(* ---------- a valid matching is a partial injection ---------- *)
Lemma pm_fun_l (m : pmatching) i j j' : NoDup (map fst m) -> In (i, j) m -> In (i, j') m -> j = j'.
Proof.
  induction m as [|[a b] m IH]; simpl; intros ND H1 H2; [contradiction|].
  inversion ND as [|x l NI ND']. subst.
  destruct H1 as [H1|H1]; destruct H2 as [H2|H2].
  - congruence.
  - inversion H1. subst. elim NI. apply in_map_iff. exists (i, j'). auto.
  - inversion H2. subst. elim NI. apply in_map_iff. exists (i, j). auto.
  - auto.
Qed.

Lemma pm_fun_r (m : pmatching) i i' j : NoDup (map snd m) -> In (i, j) m -> In (i', j) m -> i = i'.
Proof.
  intros ND H1 H2. apply (pm_fun_l (pswap m) j i i').
  - rewrite map_fst_pswap. exact ND.
  - apply in_pswap. exact H1.
  - apply in_pswap. exact H2.
Qed.

(* ---------- lookups ---------- *)
Fixpoint lookup_l (m : pmatching) (i : nat) : option nat :=
  match m with
  | [] => None
  | p :: m' => if Nat.eqb i (fst p) then Some (snd p) else lookup_l m' i
  end.
Definition lookup_r (m : pmatching) (j : nat) : option nat := lookup_l (pswap m) j.

Lemma lookup_l_In m i j : NoDup (map fst m) -> (lookup_l m i = Some j <-> In (i, j) m).
Proof.
  induction m as [|[a b] m IH]; simpl; intros ND.
  - split; [discriminate|contradiction].
  - inversion ND as [|x l NI ND']. subst. destruct (Nat.eqb_spec i a) as [E|E].
    + subst. split.
      * intros H. inversion H. auto.
      * intros [H|H]; [congruence|]. elim NI. apply in_map_iff. exists (a, j). auto.
    + rewrite (IH ND'). split; [auto|]. intros [H|H]; [congruence|exact H].
Qed.

Lemma lookup_l_None m i : lookup_l m i = None <-> ~ In i (map fst m).
Proof.
  induction m as [|[a b] m IH]; simpl.
  - tauto.
  - destruct (Nat.eqb_spec i a) as [E|E].
    + subst. split; [discriminate|]. intros H. elim H. auto.
    + rewrite IH. split; [|tauto]. intros H [H'|H']; [congruence|tauto].
Qed.

Lemma lookup_r_In m i j : NoDup (map snd m) -> (lookup_r m j = Some i <-> In (i, j) m).
Proof.
  intros ND. unfold lookup_r. rewrite lookup_l_In; [apply in_pswap|]. rewrite map_fst_pswap. exact ND.
Qed.
Lemma lookup_r_None m j : lookup_r m j = None <-> ~ In j (map snd m).
Proof. unfold lookup_r. rewrite lookup_l_None, map_fst_pswap. tauto. Qed.

Lemma in_map_fst (m : pmatching) i : In i (map fst m) <-> exists j, In (i, j) m.
Proof.
  rewrite in_map_iff. split.
  - intros [[a b] [E I]]. simpl in E. subst. exists b. exact I.
  - intros [j I]. exists (i, j). auto.
Qed.
Lemma in_map_snd (m : pmatching) j : In j (map snd m) <-> exists i, In (i, j) m.
Proof.
  rewrite in_map_iff. split.
  - intros [[a b] [E I]]. simpl in E. subst. exists a. exact I.
  - intros [i I]. exists (i, j). auto.
Qed.

(* ---------- composition ---------- *)
Definition pcompose (m1 m2 : pmatching) : pmatching :=
  flat_map (fun p => match lookup_l m2 (snd p) with Some k => [(fst p, k)] | None => [] end) m1.

Lemma in_pcompose m1 m2 i k : NoDup (map fst m2) ->
  (In (i, k) (pcompose m1 m2) <-> exists j, In (i, j) m1 /\ In (j, k) m2).
Proof.
  intros ND. unfold pcompose. rewrite in_flat_map. split.
  - intros [[a b] [I H]]. simpl in H. destruct (lookup_l m2 b) as [k'|] eqn:E; [|contradiction].
    destruct H as [H|[]]. inversion H. subst. exists b. split; [exact I|]. apply lookup_l_In; assumption.
  - intros [j [I1 I2]]. exists (i, j). split; [exact I1|]. simpl.
    apply lookup_l_In in I2; [|exact ND]. rewrite I2. left. reflexivity.
Qed.

Lemma valid_pcompose A B C m1 m2 : valid_pm A B m1 -> valid_pm B C m2 -> valid_pm A C (pcompose m1 m2).
Proof.
  intros [F1 [S1 B1]] [F2 [S2 B2]].
  assert (IC := fun i k => in_pcompose m1 m2 i k F2).
  split; [|split].
  - clear B1 S1 IC. induction m1 as [|[a b] m1 IH]; simpl; [constructor|].
    inversion F1 as [|x l NI ND]. subst.
    destruct (lookup_l m2 b) as [k|]; simpl; [|auto]. constructor; [|auto].
    intros H. apply in_map_fst in H. destruct H as [k' H]. apply in_pcompose in H; [|exact F2].
    destruct H as [j [H _]]. apply NI. apply in_map_fst. exists j. exact H.
  - clear B1 IC. induction m1 as [|[a b] m1 IH]; simpl; [constructor|].
    inversion F1 as [|x l NI ND]. inversion S1 as [|x' l' NI' ND']. subst.
    destruct (lookup_l m2 b) as [k|] eqn:E; simpl; [|auto]. constructor; [|auto].
    intros H. apply in_map_snd in H. destruct H as [i H]. apply in_pcompose in H; [|exact F2].
    destruct H as [j [H1 H2]]. apply lookup_l_In in E; [|exact F2].
    assert (j = b) by (apply (pm_fun_r m2 j b k S2 H2 E)). subst.
    apply NI'. apply in_map_snd. exists i. exact H1.
  - intros [i k] H. apply IC in H. destruct H as [j [H1 H2]].
    apply B1 in H1. apply B2 in H2. simpl in *. tauto.
Qed.

Lemma lookup_l_pcompose m1 m2 i : NoDup (map fst m1) -> NoDup (map fst m2) ->
  lookup_l (pcompose m1 m2) i = match lookup_l m1 i with Some j => lookup_l m2 j | None => None end.
Proof.
  intros F1 F2. unfold pcompose. induction m1 as [|[a b] m1 IH]; simpl; [reflexivity|].
  inversion F1 as [|x l NI ND]. subst. destruct (Nat.eqb_spec i a) as [E|E].
  - subst. destruct (lookup_l m2 b) as [k|] eqn:E2; simpl.
    + rewrite Nat.eqb_refl. reflexivity.
    + rewrite (IH ND). destruct (lookup_l m1 a) eqn:E1; [|reflexivity].
      apply lookup_l_In in E1; [|exact ND]. elim NI. apply in_map_fst. eexists; eauto.
  - destruct (lookup_l m2 b) as [k|] eqn:E2; simpl.
    + destruct (Nat.eqb_spec i a); [contradiction|]. apply IH. exact ND.
    + apply IH. exact ND.
Qed.

Lemma option_ext (x y : option nat) : (forall v, x = Some v <-> y = Some v) -> x = y.
Proof.
  intros H. destruct x as [a|], y as [b|]; auto.
  - symmetry. apply H. reflexivity.
  - discriminate (proj1 (H a) eq_refl).
  - discriminate (proj2 (H b) eq_refl).
Qed.

Lemma lookup_r_pcompose A B C m1 m2 k : valid_pm A B m1 -> valid_pm B C m2 ->
  lookup_r (pcompose m1 m2) k = match lookup_r m2 k with Some j => lookup_r m1 j | None => None end.
Proof.
  intros V1 V2. assert (V := valid_pcompose _ _ _ _ _ V1 V2).
  destruct V1 as [F1 [S1 B1]], V2 as [F2 [S2 B2]], V as [F [S _]].
  apply option_ext. intros i. rewrite lookup_r_In; [|exact S]. rewrite in_pcompose; [|exact F2].
  split.
  - intros [j [H1 H2]]. apply (lookup_r_In _ _ _ S2) in H2. rewrite H2. apply lookup_r_In; assumption.
  - destruct (lookup_r m2 k) as [j|] eqn:E; [|discriminate]. intros H.
    exists j. split; [apply lookup_r_In in H; assumption|apply lookup_r_In in E; assumption].
Qed.

(* ---------- the matching induced by a Permutation, and by dropping the head ---------- *)
Lemma NoDup_map_inj_in {A B} (f : A -> B) l :
  (forall x y, In x l -> In y l -> f x = f y -> x = y) -> NoDup l -> NoDup (map f l).
Proof.
  induction l as [|a l IH]; simpl; intros inj ND; [constructor|].
  inversion ND as [|x l' NI ND']. subst. constructor.
  - intros H. apply in_map_iff in H. destruct H as [y [E I]].
    assert (y = a) by (apply inj; auto). subst. contradiction.
  - apply IH; auto.
Qed.

(* a perfect matching along which the two lists agree *)
Lemma perm_matching {A} (l l' : list A) d : Permutation l l' ->
  exists m, valid_pm (length l) (length l') m /\
    (forall i, i < length l -> In i (map fst m)) /\ (forall j, j < length l' -> In j (map snd m)) /\
    (forall p, In p m -> nth (fst p) l d = nth (snd p) l' d).
Proof.
  intros H. apply (Permutation_nth l l' d) in H. destruct H as [L [f [bf [bi E]]]].
  set (n := length l) in *. exists (map (fun x => (f x, x)) (seq 0 n)).
  assert (Sn : map snd (map (fun x => (f x, x)) (seq 0 n)) = seq 0 n)
    by (rewrite map_map; simpl; apply map_id).
  assert (Fs : map fst (map (fun x => (f x, x)) (seq 0 n)) = map f (seq 0 n))
    by (rewrite map_map; reflexivity).
  assert (NDf : NoDup (map f (seq 0 n))).
  { apply NoDup_map_inj_in; [|apply seq_NoDup]. intros x y Hx Hy. apply in_seq in Hx, Hy.
    apply bi; lia. }
  repeat split.
  - rewrite Fs. exact NDf.
  - rewrite Sn. apply seq_NoDup.
  - apply in_map_iff in H. destruct H as [x [Ex Ix]]. subst p. simpl. apply in_seq in Ix. apply bf. lia.
  - apply in_map_iff in H. destruct H as [x [Ex Ix]]. subst p. simpl. apply in_seq in Ix. lia.
  - rewrite Fs. intros i Hi.
    assert (I : incl (seq 0 n) (map f (seq 0 n))).
    { apply NoDup_length_incl; [exact NDf|rewrite map_length; lia|].
      intros y Hy. apply in_map_iff in Hy. destruct Hy as [x [Ex Ix]]. subst y.
      apply in_seq in Ix. apply in_seq. split; [lia|]. simpl. apply bf. lia. }
    apply I. apply in_seq. lia.
  - rewrite Sn. intros j Hj. apply in_seq. lia.
  - intros p Hp. apply in_map_iff in Hp. destruct Hp as [x [Ex Ix]]. subst p. simpl.
    apply in_seq in Ix. symmetry. apply E. lia.
Qed.

(* (i+1, i): matches  a :: l  with  l, leaving the head unmatched *)
Definition shift_matching (n : nat) : pmatching := map (fun i => (S i, i)) (seq 0 n).

Lemma shift_matching_spec {A} (a : A) l d :
  let m := shift_matching (length l) in
  valid_pm (length (a :: l)) (length l) m /\
  (forall i, i < length (a :: l) -> ~ In i (map fst m) -> i = 0) /\
  (forall j, j < length l -> In j (map snd m)) /\
  (forall p, In p m -> nth (fst p) (a :: l) d = nth (snd p) l d).
Proof.
  simpl. unfold shift_matching. set (n := length l).
  assert (Sn : map snd (map (fun i => (S i, i)) (seq 0 n)) = seq 0 n)
    by (rewrite map_map; simpl; apply map_id).
  assert (Fs : map fst (map (fun i => (S i, i)) (seq 0 n)) = seq 1 n)
    by (rewrite map_map; simpl; apply seq_shift).
  repeat split.
  - rewrite Fs. apply seq_NoDup.
  - rewrite Sn. apply seq_NoDup.
  - apply in_map_iff in H. destruct H as [x [Ex Ix]]. subst p. simpl. apply in_seq in Ix. lia.
  - apply in_map_iff in H. destruct H as [x [Ex Ix]]. subst p. simpl. apply in_seq in Ix. lia.
  - rewrite Fs. intros i Hi NI. destruct i; [reflexivity|]. elim NI. apply in_seq. lia.
  - rewrite Sn. intros j Hj. apply in_seq. lia.
  - intros p Hp. apply in_map_iff in Hp. destruct Hp as [x [Ex Ix]]. subst p. reflexivity.
Qed.

(* ---------- a finite enumeration of all partial matchings ---------- *)
Definition remove_nat (j : nat) (l : list nat) : list nat := filter (fun x => negb (Nat.eqb x j)) l.

Fixpoint pms (is js : list nat) : list pmatching :=
  match is with
  | [] => [[]]
  | i :: is' => pms is' js ++ flat_map (fun j => map (cons (i, j)) (pms is' (remove_nat j js))) js
  end.

Definition all_pm (M N : nat) : list pmatching := pms (seq 0 M) (seq 0 N).

Lemma in_remove_nat x j l : In x (remove_nat j l) <-> In x l /\ x <> j.
Proof.
  unfold remove_nat. rewrite filter_In, negb_true_iff, Nat.eqb_neq. tauto.
Qed.

Lemma nil_in_pms is js : In [] (pms is js).
Proof. revert js. induction is as [|i is IH]; intros js; simpl; [auto|]. apply in_or_app. left. apply IH. Qed.

Lemma pms_sound is : NoDup is -> forall js m, NoDup js -> In m (pms is js) ->
  NoDup (map fst m) /\ NoDup (map snd m) /\ forall p, In p m -> In (fst p) is /\ In (snd p) js.
Proof.
  induction is as [|i is IH]; intros NDi js m NDj H; simpl in H.
  - destruct H as [H|[]]. subst. simpl. repeat split; try constructor; contradiction.
  - inversion NDi as [|x l NI ND]. subst. apply in_app_or in H. destruct H as [H|H].
    + destruct (IH ND js m NDj H) as [A [B C]]. repeat split; auto.
      * right. apply C. exact H0.
      * apply C. exact H0.
    + apply in_flat_map in H. destruct H as [j [Ij H]]. apply in_map_iff in H.
      destruct H as [m' [E H]]. subst m.
      assert (NDr : NoDup (remove_nat j js)) by (apply NoDup_filter; exact NDj).
      destruct (IH ND (remove_nat j js) m' NDr H) as [A [B C]]. simpl. repeat split.
      * constructor; [|exact A]. intros I. apply in_map_iff in I. destruct I as [p [E I]].
        apply C in I. subst i. tauto.
      * constructor; [|exact B]. intros I. apply in_map_iff in I. destruct I as [p [E I]].
        apply C in I. destruct I as [_ I]. apply in_remove_nat in I. subst j. tauto.
      * destruct H0 as [H0|H0]; [subst p; simpl; auto|]. right. apply C. exact H0.
      * destruct H0 as [H0|H0]; [subst p; simpl; auto|]. apply C in H0. destruct H0 as [_ I].
        apply in_remove_nat in I. tauto.
Qed.

Lemma pms_complete is : forall js (m : pmatching), NoDup (map fst m) -> NoDup (map snd m) ->
  (forall p, In p m -> In (fst p) is /\ In (snd p) js) ->
  exists m', In m' (pms is js) /\ Permutation m m'.
Proof.
  induction is as [|i is IH]; intros js m F S B.
  - destruct m as [|p m]; [exists []; simpl; auto|]. destruct (B p (or_introl eq_refl)) as [[] _].
  - destruct (in_dec Nat.eq_dec i (map fst m)) as [I|NI].
    + apply in_map_fst in I. destruct I as [j I]. destruct (in_split _ _ I) as [l1 [l2 E]].
      assert (Pm : Permutation m ((i, j) :: l1 ++ l2)) by (subst m; symmetry; apply Permutation_middle).
      assert (F' : NoDup (map fst ((i, j) :: l1 ++ l2)))
        by (eapply Permutation_NoDup; [apply Permutation_map; exact Pm|exact F]).
      assert (S' : NoDup (map snd ((i, j) :: l1 ++ l2)))
        by (eapply Permutation_NoDup; [apply Permutation_map; exact Pm|exact S]).
      simpl in F', S'. inversion F' as [|x l NIf NDf]. inversion S' as [|x' l' NIs NDs]. subst x l x' l'.
      destruct (IH (remove_nat j js) (l1 ++ l2) NDf NDs) as [m0 [I0 P0]].
      { intros p Hp. assert (Hm : In p m) by (eapply Permutation_in; [symmetry; exact Pm|right; exact Hp]).
        destruct (B p Hm) as [B1 B2]. split.
        - destruct B1 as [B1|B1]; [|exact B1]. elim NIf. rewrite B1. apply in_map. exact Hp.
        - apply in_remove_nat. split; [exact B2|]. intros Ej. elim NIs. rewrite <- Ej. apply in_map. exact Hp. }
      exists ((i, j) :: m0). split.
      * simpl. apply in_or_app. right. apply in_flat_map. exists j. split.
        -- apply (B (i, j) I).
        -- apply in_map. exact I0.
      * rewrite Pm. constructor. exact P0.
    + destruct (IH js m F S) as [m0 [I0 P0]].
      { intros p Hp. destruct (B p Hp) as [B1 B2]. split; [|exact B2].
        destruct B1 as [B1|B1]; [|exact B1]. elim NI. rewrite B1. apply in_map. exact Hp. }
      exists m0. split; [|exact P0]. simpl. apply in_or_app. left. exact I0.
Qed.

Lemma all_pm_sound M N m : In m (all_pm M N) -> valid_pm M N m.
Proof.
  intros H. destruct (pms_sound (seq 0 M) (seq_NoDup M 0) (seq 0 N) m (seq_NoDup N 0) H) as [A [B C]].
  repeat split; auto.
  - apply C in H0. destruct H0 as [H0 _]. apply in_seq in H0. lia.
  - apply C in H0. destruct H0 as [_ H0]. apply in_seq in H0. lia.
Qed.

Lemma all_pm_complete M N m : valid_pm M N m -> exists m', In m' (all_pm M N) /\ Permutation m m'.
Proof.
  intros [A [B C]]. apply pms_complete; auto.
  intros p Hp. apply C in Hp. rewrite !in_seq. lia.
Qed.

Lemma valid_pm_nil M N : valid_pm M N [].
Proof. repeat split; try constructor; contradiction. Qed.

Lemma valid_pm_perm M N m m' : Permutation m m' -> valid_pm M N m -> valid_pm M N m'.
Proof.
  intros H [A [B C]]. repeat split.
  - eapply Permutation_NoDup; [apply Permutation_map; exact H|exact A].
  - eapply Permutation_NoDup; [apply Permutation_map; exact H|exact B].
  - apply C. eapply Permutation_in; [symmetry; exact H|exact H0].
  - apply C. eapply Permutation_in; [symmetry; exact H|exact H0].
Qed.

Lemma valid_pm_right_empty M m : valid_pm M 0 m -> m = [].
Proof.
  intros [_ [_ C]]. destruct m as [|p m]; [reflexivity|]. destruct (C p (or_introl eq_refl)). lia.
Qed.
