From Coq Require Import QArith Qminmax Lqa List Bool Arith Lia Permutation Sorting.Sorted.
Import ListNotations.
Open Scope Q_scope.

Definition Qlt_bool (a b : Q) : bool := negb (Qle_bool b a).
Lemma Qlt_bool_iff a b : Qlt_bool a b = true <-> a < b.
Proof. unfold Qlt_bool. rewrite negb_true_iff. split.
  - intro H. apply Qnot_le_lt. intro X. apply Qle_bool_iff in X. congruence.
  - intro H. destruct (Qle_bool b a) eqn:E; auto. apply Qle_bool_iff in E. lra. Qed.
Lemma Qlt_bool_false a b : Qlt_bool a b = false <-> b <= a.
Proof. unfold Qlt_bool. rewrite negb_false_iff. apply Qle_bool_iff. Qed.

(* exceedance count: the rank function *)
Definition ex (l : list Q) (v : Q) : nat := length (filter (fun x => Qlt_bool v x) l).

Fixpoint insq (x : Q) (l : list Q) : list Q :=
  match l with [] => [x] | y :: r => if Qle_bool x y then y :: insq x r else x :: l end.
Definition sort_desc (l : list Q) : list Q := fold_right insq [] l.
Definition kth (l : list Q) (k : nat) : Q := nth (k - 1) (sort_desc l) 0.

Lemma ex_perm l1 l2 v : Permutation l1 l2 -> ex l1 v = ex l2 v.
Proof. intro P. unfold ex. induction P; simpl; auto.
  - destruct (Qlt_bool v x); simpl; auto.
  - destruct (Qlt_bool v x), (Qlt_bool v y); simpl; auto.
  - congruence. Qed.
Lemma insq_perm x l : Permutation (x :: l) (insq x l).
Proof. induction l as [|y r IH]; simpl; auto. destruct (Qle_bool x y); auto.
  eapply perm_trans. apply perm_swap. apply perm_skip. exact IH. Qed.
Lemma sort_desc_perm l : Permutation l (sort_desc l).
Proof. induction l; simpl; auto. eapply perm_trans. apply perm_skip. exact IHl. apply insq_perm. Qed.

Inductive desc : list Q -> Prop :=
| desc_nil : desc []
| desc_cons x l : desc l -> (forall y, In y l -> y <= x) -> desc (x :: l).
Lemma insq_in x l y : In y (insq x l) -> y = x \/ In y l.
Proof. intro H. apply Permutation_in with (l' := x :: l) in H. simpl in H; intuition. apply Permutation_sym, insq_perm. Qed.
Lemma insq_desc x l : desc l -> desc (insq x l).
Proof. induction 1 as [|y r D IH Hy]; simpl.
  - constructor. constructor. intros ? [].
  - destruct (Qle_bool x y) eqn:E.
    + apply Qle_bool_iff in E. constructor; auto. intros z Hz. apply insq_in in Hz. destruct Hz; subst; auto.
    + assert (y <= x). { destruct (Qlt_le_dec y x). lra. apply Qle_bool_iff in q. congruence. }
      constructor. constructor; auto. intros z [Hz|Hz]; subst. auto. specialize (Hy _ Hz). lra. Qed.
Lemma sort_desc_desc l : desc (sort_desc l).
Proof. induction l; simpl. constructor. apply insq_desc; auto. Qed.

(* in a descending list, nth (k-1) exceeds v iff at least k entries exceed v *)
Lemma desc_nth_ex s : desc s -> forall k v, 0 <= v -> (v < nth k s 0 <-> (k < ex s v)%nat).
Proof. induction 1 as [|x l D IH Hx]; intros k v Hv.
  - unfold ex. simpl. destruct k; simpl; split; intro; try lra; lia.
  - unfold ex in *. simpl. destruct (Qlt_bool v x) eqn:E.
    + apply Qlt_bool_iff in E. destruct k; simpl. split; intro; auto; lia.
      rewrite IH by auto. lia.
    + apply Qlt_bool_false in E.
      assert (Z : filter (fun x0 => Qlt_bool v x0) l = []).
      { clear IH. induction l as [|y r IHr]; simpl; auto. inversion D; subst.
        assert (Qlt_bool v y = false). { apply Qlt_bool_false. specialize (Hx y (or_introl eq_refl)). lra. }
        rewrite H. apply IHr; auto. intros z Hz. apply Hx. right; auto. }
      rewrite Z. simpl. split; [|lia]. intro H. exfalso.
      destruct k; simpl in H. lra.
      destruct (nth_in_or_default k l 0) as [I|I]. specialize (Hx _ I). lra. rewrite I in H. lra. Qed.

Lemma kth_ex l k v : (1 <= k)%nat -> 0 <= v -> (v < kth l k <-> (k <= ex l v)%nat).
Proof. intros Hk Hv. unfold kth. rewrite (desc_nth_ex _ (sort_desc_desc l)) by auto.
  rewrite <- (ex_perm _ _ v (sort_desc_perm l)). lia. Qed.

Lemma kth_nonneg l k : (forall x, In x l -> 0 <= x) -> 0 <= kth l k.
Proof. intro H. unfold kth. destruct (nth_in_or_default (k-1) (sort_desc l) 0) as [I|I].
  apply H. eapply Permutation_in. apply Permutation_sym, sort_desc_perm. exact I. rewrite I. lra. Qed.

(* two non-negative lists with the same rank function have the same k-th largest *)
Lemma kth_ext l1 l2 k : (1 <= k)%nat ->
  (forall x, In x l1 -> 0 <= x) -> (forall x, In x l2 -> 0 <= x) ->
  (forall v, 0 <= v -> ex l1 v = ex l2 v) -> kth l1 k == kth l2 k.
Proof. intros Hk N1 N2 E.
  pose proof (kth_nonneg l1 k N1). pose proof (kth_nonneg l2 k N2).
  destruct (Q_dec (kth l1 k) (kth l2 k)) as [[L|G]|Eq]; auto; exfalso.
  - pose proof (proj1 (kth_ex l2 k (kth l1 k) Hk H) L). rewrite <- E in H1 by auto.
    apply (kth_ex l1 k _ Hk H) in H1. lra.
  - pose proof (proj1 (kth_ex l1 k (kth l2 k) Hk H0) G). rewrite E in H1 by auto.
    apply (kth_ex l2 k _ Hk H0) in H1. lra. Qed.
