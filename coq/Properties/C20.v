(* C20 - Plots draw exactly the data and matchings they are given.
   Only statements here; every proof is `exact <lemma of Proofs/SceneP.v / SceneRotP.v>`.
   The model (Model/SceneM.v) maps (data, options) to an abstract scene; each line artist carries
   the axes it was drawn on (Given = the `ax` argument, Current = pyplot's current axes). *)
From Coq Require Import Reals QArith Qreals List Bool ZArith.
From Persim Require Import Model.SceneM Model.SceneRotM Proofs.SceneP Proofs.SceneRotP.
Import ListNotations.
Open Scope Q_scope.

(* birth-death mode, no explicit range: every scattered point - including the infinite deaths moved
   onto the infinity line - lies within the axis limits *)
Theorem points_within_limits : forall o dgms s,
  plot_diagrams o dgms = Ok s -> o_xy_range o = None -> o_lifetime o = false ->
  forall lab pts x y, In (lab, pts) (s_scatter s) -> In (x, y) pts ->
    fst (s_xlim s) <= x <= snd (s_xlim s) /\ fst (s_ylim s) <= y <= snd (s_ylim s).
Proof. exact points_within_limits_bd. Qed.
Print Assumptions points_within_limits.

(* lifetime mode: the same for diagrams with birth <= death *)
Theorem points_within_limits_lifetime : forall o dgms s,
  plot_diagrams o dgms = Ok s -> o_xy_range o = None -> o_lifetime o = true ->
  (forall d b x, In d dgms -> In (b, Fin x) d -> b <= x) ->
  forall lab pts x y, In (lab, pts) (s_scatter s) -> In (x, y) pts ->
    fst (s_xlim s) <= x <= snd (s_xlim s) /\ fst (s_ylim s) <= y <= snd (s_ylim s).
Proof. exact points_within_limits_lt. Qed.
Print Assumptions points_within_limits_lifetime.

(* the infinity line is horizontal, spans the x-limits, is drawn on the given axes and lies strictly
   inside the y-limits whenever these are non-degenerate (any mode, explicit range or not) *)
Theorem inf_line_inside : forall o dgms s,
  plot_diagrams o dgms = Ok s -> fst (s_ylim s) < snd (s_ylim s) ->
  forall l, In l (s_lines s) -> l_kind l = InfLine ->
    exists b, l_pts l = [(fst (s_xlim s), b); (snd (s_xlim s), b)] /\
              fst (s_ylim s) < b < snd (s_ylim s) /\ l_ax l = Given.
Proof. exact inf_line_inside_lemma. Qed.
Print Assumptions inf_line_inside.

(* the scatter collections are the selected diagrams, point by point: (b, d), (b, d - b) in lifetime
   mode, (b, b_inf) for an infinite death, where b_inf is the ordinate of an infinity line that IS drawn *)
Theorem inf_points_on_inf_line : forall o dgms s,
  plot_diagrams o dgms = Ok s ->
  exists ds labs b_inf,
    select (o_plot_only o) dgms = Some ds /\
    labels_for (o_labels o) (o_plot_only o) (length dgms) (length ds) = LOk labs /\
    s_scatter s = combine labs (map (map (conv_point (o_lifetime o) b_inf)) ds) /\
    (has_inf ds = true ->
       In (mkLine Given InfLine [(fst (s_xlim s), b_inf); (snd (s_xlim s), b_inf)]) (s_lines s)).
Proof. exact scatter_lemma. Qed.
Print Assumptions inf_points_on_inf_line.

(* one collection per plotted diagram (default labels, one label string for all, or one label per diagram) *)
Theorem scatter_per_plotted_diagram : forall o dgms s ds,
  plot_diagrams o dgms = Ok s -> select (o_plot_only o) dgms = Some ds ->
  (o_labels o = LabNone \/ (exists k, o_labels o = LabOne k) \/
   (exists l, o_labels o = LabList l /\ length l = length dgms)) ->
  length (s_scatter s) = length ds.
Proof. exact scatter_count. Qed.
Print Assumptions scatter_per_plotted_diagram.

(* title, legend, axis labels, explicit range, diagonal and horizon line as requested; plot_diagrams
   draws every line on the given axes *)
Theorem scene_reflects_options : forall o dgms s,
  plot_diagrams o dgms = Ok s ->
  s_title s = o_title o /\ s_legend s = o_legend o /\
  (s_scatter s <> [] -> s_xlabel s = Some Birth /\
                         s_ylabel s = Some (if o_lifetime o then Lifetime else Death)) /\
  (forall a b c d, o_xy_range o = Some (a, b, c, d) ->
     s_xlim s = (a, b) /\ (o_lifetime o = false -> s_ylim s = (c, d)) /\
     (o_lifetime o = true -> snd (s_ylim s) - fst (s_ylim s) == d - c)) /\
  ((exists l, In l (s_lines s) /\ l_kind l = Diagonal) <-> (o_diagonal o = true /\ o_lifetime o = false)) /\
  ((exists l, In l (s_lines s) /\ l_kind l = Horizon) <-> o_lifetime o = true) /\
  Forall (fun l => l_ax l = Given) (s_lines s).
Proof. exact options_lemma. Qed.
Print Assumptions scene_reflects_options.

(* the code's rotation arithmetic over R (cos(pi/4), sin(pi/4)): the rotated-back point is the
   midpoint ((b+d)/2, (b+d)/2); it lies on the diagonal, the segment to it is orthogonal to the
   diagonal, and it is the nearest diagonal point *)
Theorem foot_is_perpendicular_projection : forall b d : R,
  diag_elem (b, d) = ((b + d) / 2, (b + d) / 2)%R /\
  (let f := diag_elem (b, d) in
   fst f = snd f /\ ((fst f - b) * 1 + (snd f - d) * 1 = 0)%R /\
   forall t : R, ((fst f - b) * (fst f - b) + (snd f - d) * (snd f - d) <= (t - b) * (t - b) + (t - d) * (t - d))%R).
Proof. exact foot_projection. Qed.
Print Assumptions foot_is_perpendicular_projection.

(* the foot used by the rational model is that rotation result *)
Theorem foot_is_rotation : forall p : pt,
  (Q2R (fst (foot p)), Q2R (snd (foot p))) = diag_elem (Q2R (fst p), Q2R (snd p)).
Proof. exact foot_Q2R. Qed.
Print Assumptions foot_is_rotation.

(* exactly one segment per row with i <> -1 or j <> -1, in row order: point to partner, or point to
   its foot; appended after (bottleneck) / put before (wasserstein) the lines of plot_diagrams *)
Theorem one_segment_per_row :
  (forall legacy l1 l2 d1 d2 m s, bottleneck_matching legacy l1 l2 d1 d2 m = Ok s ->
     exists s0 ls, plot_diagrams (match_opts l1 l2) [fin_dgm d1; fin_dgm d2] = Ok s0 /\
       s_lines s = s_lines s0 ++ ls /\ length ls = length (filter drawn m) /\
       Forall2 (seg_shape (ax_minus1 legacy) (nonempty d1) (nonempty d2)) (filter drawn m) ls) /\
  (forall legacy pad l1 l2 d1 d2 m s, wasserstein_matching legacy pad l1 l2 d1 d2 m = Ok s ->
     exists s0 ls, plot_diagrams (match_opts l1 l2)
         (if pad then [fin_dgm (nonempty d1); fin_dgm (nonempty d2)] else [fin_dgm d1; fin_dgm d2]) = Ok s0 /\
       s_lines s = ls ++ s_lines s0 /\ length ls = length (filter drawn m) /\
       Forall2 (seg_shape (ax_minus1 legacy) (nonempty d1) (nonempty d2)) (filter drawn m) ls).
Proof. exact one_segment_per_row_lemma. Qed.
Print Assumptions one_segment_per_row.

(* bottleneck_matching: the segment of row a is the only one of kind SegMax, where a is the FIRST row of
   maximal cost *)
Theorem max_row_marked : forall legacy l1 l2 d1 d2 m s,
  bottleneck_matching legacy l1 l2 d1 d2 m = Ok s ->
  exists s0 a ls, plot_diagrams (match_opts l1 l2) [fin_dgm d1; fin_dgm d2] = Ok s0 /\
    s_lines s = s_lines s0 ++ ls /\
    (a < length m)%nat /\
    (forall n, (n < length m)%nat -> nth n (map snd m) 0 <= nth a (map snd m) 0) /\
    (forall n, (n < a)%nat -> nth n (map snd m) 0 < nth a (map snd m) 0) /\
    Forall2 (fun kr l => (l_kind l = SegMax <-> fst kr = a) /\ (l_kind l = Seg <-> fst kr <> a))
            (filter (fun kr => drawn (snd kr)) (indexed 0 m)) ls.
Proof. exact max_row_marked_lemma. Qed.
Print Assumptions max_row_marked.

(* intended code: every line artist is on the axes that was passed in *)
Theorem all_artists_on_given_axes :
  (forall o dgms s, plot_diagrams o dgms = Ok s -> Forall (fun l => l_ax l = Given) (s_lines s)) /\
  (forall l1 l2 d1 d2 m s, bottleneck_matching false l1 l2 d1 d2 m = Ok s -> Forall (fun l => l_ax l = Given) (s_lines s)) /\
  (forall pad l1 l2 d1 d2 m s, wasserstein_matching false pad l1 l2 d1 d2 m = Ok s -> Forall (fun l => l_ax l = Given) (s_lines s)).
Proof. exact given_axes_lemma. Qed.
Print Assumptions all_artists_on_given_axes.

(* pinned code (plt.plot in the i == -1 branch, visuals.py 226 / 280 at f8f9fe3): refuted *)
Theorem matching_axes_legacy_refuted :
  exists d1 d2 m,
    (exists s l, bottleneck_matching true 0 1 d1 d2 m = Ok s /\ In l (s_lines s) /\ l_ax l = Current) /\
    (exists s l, wasserstein_matching true false 0 1 d1 d2 m = Ok s /\ In l (s_lines s) /\ l_ax l = Current).
Proof. exact legacy_axes_refuted. Qed.
Print Assumptions matching_axes_legacy_refuted.

(* a matching plot shows the two diagrams exactly as plot_diagrams would (scatter, limits, labels,
   title, legend) ... *)
Theorem matching_keeps_diagram_scene :
  (forall legacy l1 l2 d1 d2 m s, bottleneck_matching legacy l1 l2 d1 d2 m = Ok s ->
     exists s0, plot_diagrams (match_opts l1 l2) [fin_dgm d1; fin_dgm d2] = Ok s0 /\ same_frame s s0) /\
  (forall legacy l1 l2 d1 d2 m s, wasserstein_matching legacy false l1 l2 d1 d2 m = Ok s ->
     exists s0, plot_diagrams (match_opts l1 l2) [fin_dgm d1; fin_dgm d2] = Ok s0 /\ same_frame s s0).
Proof. exact keeps_diagram_scene. Qed.
Print Assumptions matching_keeps_diagram_scene.

(* ... which the pinned wasserstein_matching (padded arrays handed to plot_diagrams, visuals.py 267-270,
   288) does not: an empty diagram is drawn as a point at the origin and the range is stretched to 0 *)
Theorem wasserstein_phantom_point_legacy_refuted :
  exists d2 m s, wasserstein_matching false true 0 1 [] d2 m = Ok s /\
                 In (LUser 0, [(0, 0)]) (s_scatter s) /\ fst (s_xlim s) < 0.
Proof. exact phantom_point_refuted. Qed.
Print Assumptions wasserstein_phantom_point_legacy_refuted.

(* 2-D landscape plots: one polyline per selected depth, through that depth's critical pairs
   (grid landscapes: np.linspace(start, stop, len) against the sampled values), on the given axes *)
Theorem landscape_one_polyline_per_depth :
  (forall dr title labels fs,
     ls_lines (plot_landscape_exact_simple dr title labels fs) =
     map (fun kf : nat * list pt => mkLine Given (Poly (fst kf)) (snd kf))
         (filter (fun kf : nat * list pt => depth_selected dr (fst kf)) (combine (seq 0 (length fs)) fs))) /\
  (forall dr title labels start stop values,
     ls_lines (plot_landscape_approx_simple dr title labels start stop values) =
     map (fun kf : nat * list pt => mkLine Given (Poly (fst kf)) (snd kf))
         (filter (fun kf : nat * list pt => depth_selected dr (fst kf))
                 (combine (seq 0 (length values))
                          (map (fun v => combine (linspace start stop (length v)) v) values)))).
Proof. exact landscape_polylines. Qed.
Print Assumptions landscape_one_polyline_per_depth.

(* the automatic range is [min - r/10, max + r/5], r = max - min, min and max attained among the finite
   coordinates of the plotted diagrams; lifetime mode keeps the height and starts at -height/20 *)
Theorem limits_are_padded_min_max : forall o dgms s,
  plot_diagrams o dgms = Ok s -> o_xy_range o = None ->
  exists ds mn mx,
    select (o_plot_only o) dgms = Some ds /\
    In mn (finite_vals ds) /\ In mx (finite_vals ds) /\
    (forall x, In x (finite_vals ds) -> mn <= x <= mx) /\
    s_xlim s = (mn - (mx - mn) * (1#5) * (1#2), mx + (mx - mn) * (1#5)) /\
    (o_lifetime o = false -> s_ylim s = s_xlim s) /\
    (o_lifetime o = true ->
       let yr := snd (s_xlim s) - fst (s_xlim s) in s_ylim s = (- (yr * (1#20)), - (yr * (1#20)) + yr)).
Proof. exact limits_formula. Qed.
Print Assumptions limits_are_padded_min_max.

(* the abscissae of a grid landscape's polyline: n equally spaced nodes from start to stop *)
Theorem linspace_nodes : forall start stop n, (2 <= n)%nat ->
  length (linspace start stop n) = n /\
  nth 0 (linspace start stop n) 0 == start /\
  nth (n - 1) (linspace start stop n) 0 == stop /\
  forall i, (S i < n)%nat ->
    nth (S i) (linspace start stop n) 0 - nth i (linspace start stop n) 0 == (stop - start) / inject_nat (n - 1).
Proof. exact linspace_spec. Qed.
Print Assumptions linspace_nodes.

(* non-vacuity: the hypotheses are met by concrete scenes *)
Example plot_diagrams_hyp_satisfiable :
  exists s, plot_diagrams (mkOpts None None None LabNone true false true) [[(0, Fin 1); (2, Fin 4); (3, PInf)]] = Ok s /\
            fst (s_ylim s) < snd (s_ylim s) /\ (exists l, In l (s_lines s) /\ l_kind l = InfLine).
Proof. eexists. split; [vm_compute; reflexivity|]. split; [reflexivity|]. eexists. split; [right; left; reflexivity|reflexivity]. Qed.
Example lifetime_hyp_satisfiable :
  exists s, plot_diagrams (mkOpts (Some [1%nat]) (Some 0%nat) None LabNone true true false)
                          [[(0, Fin 1)]; [(2, Fin 4); (3, PInf)]] = Ok s /\
            (exists y, s_scatter s = [(LDefault 1, [(2, 2); (3, y)])] /\ y == 117 # 50) /\ s_legend s = false.
Proof. eexists. split; [vm_compute; reflexivity|]. split; [|reflexivity]. eexists. split; [reflexivity|]. reflexivity. Qed.
Example matching_hyp_satisfiable :
  exists s, bottleneck_matching false 0 1 [(0, 1)] [(0, 1); (4, 6)] [(0%Z, 0%Z, 0); ((-1)%Z, 1%Z, 1)] = Ok s /\
            length (s_lines s) = 3%nat.
Proof. eexists. split; vm_compute; reflexivity. Qed.
