(* C17 - mGH accepts every graph representation and degrades gracefully.
   Only statements here; proofs are `exact <lemma of Proofs/GraphP.v>`.

   Model: Model/GraphM.v.  An adjacency matrix is read the way
   shortest_path(directed=False, unweighted=True) reads it: {i,j} is an edge iff A[i][j] or
   A[j][i] is non-zero (weights and the diagonal are irrelevant).  shortest_path /
   connected_components are oracles in the theorems about the fallback (their result D is
   universally quantified, with the one assumption that "finite distance" is an equivalence
   relation); the executable instance hop_metric (Floyd-Warshall) is what the correspondence runs,
   and it is itself proved correct ([hop_metric_is_shortest_path]), so the theorems about
   [make_dm] at the end need no assumption. *)
From Coq Require Import ZArith List Bool Arith Lia.
From Persim Require Import Spec.MGH Model.MGHM Model.GraphM Proofs.MGHUb Proofs.MGHFinal Proofs.GraphP
  Proofs.GraphDm Proofs.GraphBr Proofs.GraphRelabel Proofs.GraphInduced Proofs.GraphFW
  Model.MGHLegacy Proofs.MGHLegacyP.
Import ListNotations.
Open Scope Z_scope.

(* T1.  Two adjacency matrices with the same undirected off-diagonal edge set give the same
   distance matrix, warning flag and error behaviour ... *)
Theorem same_edges_same_metric : forall A B,
  length A = length B ->
  (forall i j, (i < length A)%nat -> (j < length A)%nat -> i <> j -> edge A i j = edge B i j) ->
  make_dm A = make_dm B.
Proof. intros A B L E. apply same_edges_same_dm. split; assumption. Qed.
Print Assumptions same_edges_same_metric.

(* ... in particular the upper-triangular and the symmetric encoding of any edge relation. *)
Theorem upper_eq_symmetric : forall n (e : nat -> nat -> bool),
  make_dm (of_upper n e) = make_dm (of_symmetric n e).
Proof. exact upper_symmetric_same_dm. Qed.
Print Assumptions upper_eq_symmetric.

(* T1.  Relabelling either graph (an isometry of the metric spaces) does not change the
   bracketed quantity: lower bounds stay lower bounds, upper bounds stay upper bounds.  (With
   C05: the estimates computed from relabelled inputs bracket the same distance.) *)
Theorem relabel_bracket : forall DX DX' DY DY', isometric DX DX' -> isometric DY DY' ->
  (forall d, two_mgh_ge DX DY d -> two_mgh_ge DX' DY' d) /\
  (forall u, two_mgh_le DX DY u -> two_mgh_le DX' DY' u).
Proof. exact relabel_brackets. Qed.
Print Assumptions relabel_bracket.

(* T1.  Relabelling at the level of graphs, shortest_path being an oracle: ANY two correct
   shortest-path answers ([sp]: entry = length of a shortest walk, None = no walk) for a graph and
   for a copy whose vertices are renamed by a permutation p agree entry by entry up to p ... *)
Theorem relabelled_graph_same_metric : forall A A' D D' p,
  is_perm (length A) p -> renamed (img p) A A' -> sp A D -> sp A' D' ->
  forall i j, (i < length A)%nat -> (j < length A)%nat -> oent D' (img p i) (img p j) = oent D i j.
Proof. exact relabelled_metric. Qed.
Print Assumptions relabelled_graph_same_metric.

(* ... so the distance matrices are isometric and [relabel_bracket] applies to them. *)
Theorem relabelled_graphs_isometric : forall A A' D D' p,
  is_perm (length A) p -> renamed (img p) A A' -> sp A D -> sp A' D' ->
  length D = length A -> length D' = length A ->
  isometric (map (map oz) D) (map (map oz) D').
Proof. exact relabelled_connected_isometric. Qed.
Print Assumptions relabelled_graphs_isometric.

(* T1.  The executable instance needs no oracle assumption: Floyd-Warshall computes a correct
   shortest-path answer for EVERY adjacency matrix; hence make_distance_matrix (intended variant)
   never raises on a non-empty graph, returns a distance matrix, and relabelled connected graphs
   get isometric distance matrices. *)
Theorem hop_metric_is_shortest_path : forall A, sp A (hop_metric A).
Proof. exact hop_metric_sp. Qed.
Print Assumptions hop_metric_is_shortest_path.

Theorem make_dm_returns_metric : forall A, (0 < length A)%nat ->
  exists M, make_dm A = DMOk (has_inf (hop_metric A)) M /\ dmatrix M /\ (0 < length M)%nat.
Proof. exact make_dm_metric. Qed.
Print Assumptions make_dm_returns_metric.

Theorem relabelled_connected_graphs_isometric_dm : forall A A' p DX DX',
  is_perm (length A) p -> renamed (img p) A A' ->
  make_dm A = DMOk false DX -> make_dm A' = DMOk false DX' -> isometric DX DX'.
Proof. exact make_dm_relabel_connected. Qed.
Print Assumptions relabelled_connected_graphs_isometric_dm.

(* T1, capstone (C17 + C05).  A pair call on two non-empty graphs, connected or not, given in any
   encoding, returns - for every row oracle and every well-formed RNG draw - brackets of the mGH
   distance between two genuine distance matrices (of the graphs, or of their first largest
   components, with the warning flag set exactly then). *)
Theorem pair_call_end_to_end : forall (pick : oracle) AG AH s1 s2 w l u,
  (0 < length AG)%nat -> (0 < length AH)%nat ->
  gh_pair make_dm (fun _ _ DX DY => estimate2 pick DX DY s1 s2) AG AH = GHPair w l u ->
  exists DX DY,
    make_dm AG = DMOk (has_inf (hop_metric AG)) DX /\ make_dm AH = DMOk (has_inf (hop_metric AH)) DY /\
    w = (has_inf (hop_metric AG) || has_inf (hop_metric AH))%bool /\ dmatrix DX /\ dmatrix DY /\
    (valid_samples (length DX) (length DY) s1 -> valid_samples (length DY) (length DX) s2 ->
     two_mgh_ge DX DY l /\ two_mgh_le DX DY u /\ 0 <= l <= u).
Proof. exact pair_end_to_end. Qed.
Print Assumptions pair_call_end_to_end.

(* T1.  A collection call returns N x N matrices (N >= 2) that are symmetric with zero diagonal,
   whatever the per-pair estimates (RNG draws) are. *)
Theorem collection_symmetric_zero_diag : forall mk (est : pair_est) As w L U,
  gh_collection mk est As = GHColl w L U ->
  let n := length As in
  (2 <= n)%nat /\ length L = n /\ length U = n /\
  (forall i, (i < n)%nat -> length (nth i L []) = n /\ length (nth i U []) = n) /\
  (forall i j, (i < n)%nat -> (j < n)%nat -> ent L i j = ent L j i /\ ent U i j = ent U j i) /\
  (forall i, (i < n)%nat -> ent L i i = 0 /\ ent U i i = 0).
Proof. exact collection_shape. Qed.
Print Assumptions collection_symmetric_zero_diag.

(* T1.  Entry (i, j), i < j, is exactly what estimate returned for the distance matrices of
   graphs i and j (so, by C05, it brackets that pair's distance). *)
Theorem collection_entries_are_pairwise : forall mk (est : pair_est) As w L U,
  gh_collection mk est As = GHColl w L U ->
  forall i j, (i < j)%nat -> (j < length As)%nat ->
  exists wi Di wj Dj, mk (nth i As []) = DMOk wi Di /\ mk (nth j As []) = DMOk wj Dj /\
                      est i j Di Dj = Some (ent L i j, ent U i j).
Proof. exact collection_pairwise. Qed.
Print Assumptions collection_entries_are_pairwise.

(* T1.  The (intended) fallback never raises: for every shortest-path result D whose finiteness
   relation is an equivalence, it returns the restriction of D (rows AND columns) to the first
   component of maximal size; all distances inside are finite; the warning is issued exactly when
   D has an infinite entry. *)
Theorem largest_component_connected : forall D : omat,
  (forall i, (i < length D)%nat -> reach D i i = true) ->
  (forall i j, (i < length D)%nat -> (j < length D)%nat -> reach D i j = true -> reach D j i = true) ->
  (forall i j k, (i < length D)%nat -> (j < length D)%nat -> (k < length D)%nat ->
                 reach D i j = true -> reach D j k = true -> reach D i k = true) ->
  (0 < length D)%nat ->
  exists r, (r < length D)%nat /\ comp_root D r = r /\ largest_component D = members D r /\
    (forall a b, In a (members D r) -> In b (members D r) -> oent D a b <> None) /\
    In r (members D r) /\
    (forall r', (r' < length D)%nat -> comp_root D r' = r' ->
                (length (members D r') <= length (members D r))%nat) /\
    make_dm_of D =
      DMOk (has_inf D)
           (if has_inf D then map (map oz) (restrict_both D (members D r)) else map (map oz) D).
Proof. exact make_dm_of_total. Qed.
Print Assumptions largest_component_connected.

(* T1.  ... and what it returns is a distance matrix (square, zero diagonal, symmetric, positive
   off the diagonal) on at least one point: estimate never sees a non-metric. *)
Theorem largest_component_is_metric : forall D : omat, ometric D -> (0 < length D)%nat ->
  (forall i j k, (i < length D)%nat -> (j < length D)%nat -> (k < length D)%nat ->
                 reach D i j = true -> reach D j k = true -> reach D i k = true) ->
  exists M, make_dm_of D = DMOk (has_inf D) M /\ dmatrix M /\ (0 < length M)%nat.
Proof. exact make_dm_of_dmatrix. Qed.
Print Assumptions largest_component_is_metric.

(* T1.  ... and it IS the shortest-path metric of the induced subgraph on that component: if D is
   a correct shortest-path answer for A ([sp]), the restricted matrix is a correct shortest-path
   answer for the adjacency matrix restricted to the component (walks never leave a component). *)
Theorem largest_component_is_induced_metric : forall (A : mat) (D : omat),
  length D = length A -> sp A D ->
  (forall i, (i < length D)%nat -> reach D i i = true) ->
  (forall i j, (i < length D)%nat -> (j < length D)%nat -> reach D i j = true -> reach D j i = true) ->
  (forall i j k, (i < length D)%nat -> (j < length D)%nat -> (k < length D)%nat ->
                 reach D i j = true -> reach D j k = true -> reach D i k = true) ->
  forall r, (r < length D)%nat ->
  sp (submat A (members D r)) (restrict_both D (members D r)).
Proof. exact induced_metric. Qed.
Print Assumptions largest_component_is_induced_metric.

(* T1 (with C05).  A pair call returns brackets of the distance between the two metric spaces that
   make_distance_matrix produced, and warns iff one of them was a fallback; every entry (i < j) of
   a collection call brackets the distance of its pair - for every row oracle and RNG draw. *)
Theorem pair_brackets : forall (mk : mat -> dm_result) (pick : oracle) s1 s2 AG AH w l u,
  gh_pair mk (fun _ _ DX DY => estimate2 pick DX DY s1 s2) AG AH = GHPair w l u ->
  exists w1 DX w2 DY, mk AG = DMOk w1 DX /\ mk AH = DMOk w2 DY /\ w = (w1 || w2)%bool /\
    (dmatrix DX -> dmatrix DY ->
     valid_samples (length DX) (length DY) s1 -> valid_samples (length DY) (length DX) s2 ->
     two_mgh_ge DX DY l /\ two_mgh_le DX DY u /\ 0 <= l <= u).
Proof. exact pair_call_brackets. Qed.
Print Assumptions pair_brackets.

Theorem collection_entries_bracket : forall (mk : mat -> dm_result) (pick : oracle)
    (S1 S2 : nat -> nat -> list (list nat * nat)) As w L U,
  gh_collection mk (fun i j DX DY => estimate2 pick DX DY (S1 i j) (S2 i j)) As = GHColl w L U ->
  forall i j, (i < j)%nat -> (j < length As)%nat ->
  exists wi Di wj Dj, mk (nth i As []) = DMOk wi Di /\ mk (nth j As []) = DMOk wj Dj /\
    (dmatrix Di -> dmatrix Dj ->
     valid_samples (length Di) (length Dj) (S1 i j) -> valid_samples (length Dj) (length Di) (S2 i j) ->
     two_mgh_ge Di Dj (ent L i j) /\ two_mgh_le Di Dj (ent U i j) /\ 0 <= ent L i j <= ent U i j).
Proof. exact collection_call_brackets. Qed.
Print Assumptions collection_entries_bracket.

(* T1.  Smallest sufficient integer dtype: the type chosen from the maximum holds every entry, so
   the cast is the identity (values round-trip); the type changes exactly above 127 and 32767. *)
Theorem dtype_roundtrip : forall D D',
  Forall (fun r => Forall (fun x => 0 <= x) r) D -> cast_optimal D = Some D' -> D' = D.
Proof. exact cast_optimal_roundtrip. Qed.
Print Assumptions dtype_roundtrip.
Theorem dtype_boundaries :
  optimal_int_max 127 = Some 127 /\ optimal_int_max 128 = Some 32767 /\
  optimal_int_max 32767 = Some 32767 /\ optimal_int_max 32768 = Some 2147483647.
Proof. exact cast_optimal_boundaries. Qed.
Print Assumptions dtype_boundaries.

(* T1.  The pinned code (line 211: rows only) raises ValueError on the 3-vertex graph with one
   edge, where the intended behaviour is the 2-point space with a warning ... *)
Theorem fallback_legacy_refuted :
  make_dm_legacy one_edge_3 = DMValueError /\ make_dm one_edge_3 = DMOk true [[0;1];[1;0]].
Proof. exact legacy_fallback_raises. Qed.
Print Assumptions fallback_legacy_refuted.

(* ... and in fact on EVERY disconnected graph. *)
Theorem fallback_legacy_always_raises : forall D : omat,
  (forall i, (i < length D)%nat -> reach D i i = true) ->
  (forall i j, (i < length D)%nat -> (j < length D)%nat -> reach D i j = true -> reach D j i = true) ->
  (forall i j k, (i < length D)%nat -> (j < length D)%nat -> (k < length D)%nat ->
                 reach D i j = true -> reach D j k = true -> reach D i k = true) ->
  (0 < length D)%nat -> Forall (fun row => length row = length D) D ->
  has_inf D = true -> make_dm_legacy_of D = DMValueError.
Proof. exact make_dm_legacy_of_raises. Qed.
Print Assumptions fallback_legacy_always_raises.

(* ---- non-vacuity *)
Example disconnected_runs :
  make_dm [[0;1;0;0;0];[0;0;0;0;0];[0;0;0;1;1];[0;0;0;0;0];[0;0;0;0;0]]
  = DMOk true [[0;1;1];[1;0;2];[1;2;0]].
Proof. vm_compute. reflexivity. Qed.
Example collection_runs :
  gh_collection make_dm (fun _ _ DX DY => match find_lb pick_exact DX DY with Some l => Some (l, l + 1) | None => None end)
                [[[0;1];[0;0]]; [[0]]; [[0;1;0];[0;0;1];[0;0;0]]]
  = GHColl false [[0;1;1];[1;0;2];[1;2;0]] [[0;2;2];[2;0;3];[2;3;0]].
Proof. vm_compute. reflexivity. Qed.

(* the shortest-path specification is met by the executable instance on the one-edge graph *)
Example sp_edge : sp [[0;1];[0;0]] (hop_metric [[0;1];[0;0]]).
Proof.
  intros [|[|i]] [|[|j]] Hi Hj; simpl in Hi, Hj; try lia; vm_compute oent.
  - split; [lia|]. split; [exists []; repeat split|intros; simpl; lia].
  - split; [lia|]. split; [exists [1%nat]; simpl; repeat split; lia|].
    intros [|d'] [l [Ll [_ La]]]; [|simpl; lia]. destruct l; [simpl in La; discriminate|discriminate].
  - split; [lia|]. split; [exists [0%nat]; simpl; repeat split; lia|].
    intros [|d'] [l [Ll [_ La]]]; [|simpl; lia]. destruct l; [simpl in La; discriminate|discriminate].
  - split; [lia|]. split; [exists []; repeat split|intros; simpl; lia].
Qed.
