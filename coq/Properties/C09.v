(* C09 - Landscape arithmetic is pointwise and leaves operands untouched.
   Only statements here; every proof is `exact <lemma of Proofs/LandArithP.v / LandApproxP.v>`.
   A list of critical pairs denotes the function pl_eval (linear interpolation, 0 outside);
   wf = abscissae strictly increasing, first and last ordinate 0; evalL L k = the function of depth k
   of a landscape, the zero function when the depth is missing.  The model is pure: operands are
   values, so "operands unchanged" is carried by the correspondence check on the real objects. *)
From Coq Require Import QArith List ZArith.
From Persim Require Import Lib.Kth Lib.PL Model.LandArithM Spec.LandArithS Proofs.LandArithP Proofs.LandApproxP Proofs.LandArithFixedP.
Import ListNotations.
Open Scope Q_scope.

(* T1: pos_to_slope -> sum_slopes -> slope_to_pos is the pointwise sum, never runs out of fuel, and
   gives a well-formed list again (both variants of the model) *)
Theorem add_pointwise : forall v a b, wf a -> wf b ->
  exists c, add_depth v a b = Some c /\ wf c /\ forall t, pl_eval c t == pl_eval a t + pl_eval b t.
Proof. exact add_depth_wf. Qed.
Print Assumptions add_pointwise.

(* T1: landscapes of different depth counts: zip-longest; a missing depth counts as the zero function *)
Theorem add_missing_depth_is_zero : forall v A B, wfL (e_cp A) -> wfL (e_cp B) -> e_deg A = e_deg B ->
  exists R, e_add v A B = Ok R /\ e_deg R = e_deg A /\ wfL (e_cp R) /\
    length (e_cp R) = Nat.max (length (e_cp A)) (length (e_cp B)) /\
    forall k t, evalL (e_cp R) k t == evalL (e_cp A) k t + evalL (e_cp B) k t.
Proof. exact e_add_pointwise. Qed.
Print Assumptions add_missing_depth_is_zero.

Theorem neg_pointwise : forall A, wfL (e_cp A) ->
  e_deg (e_neg A) = e_deg A /\ wfL (e_cp (e_neg A)) /\ length (e_cp (e_neg A)) = length (e_cp A) /\
  forall k t, evalL (e_cp (e_neg A)) k t == - evalL (e_cp A) k t.
Proof. exact e_neg_pointwise. Qed.
Print Assumptions neg_pointwise.

Theorem scale_pointwise : forall c A, wfL (e_cp A) ->
  e_deg (e_mul c A) = e_deg A /\ wfL (e_cp (e_mul c A)) /\ length (e_cp (e_mul c A)) = length (e_cp A) /\
  forall k t, evalL (e_cp (e_mul c A)) k t == c * evalL (e_cp A) k t.
Proof. exact e_mul_pointwise. Qed.
Print Assumptions scale_pointwise.

Theorem div_pointwise : forall c A, wfL (e_cp A) -> ~ c == 0 ->
  exists R, e_div A c = Ok R /\ e_deg R = e_deg A /\ wfL (e_cp R) /\ length (e_cp R) = length (e_cp A) /\
  forall k t, evalL (e_cp R) k t == evalL (e_cp A) k t / c.
Proof. exact e_div_pointwise. Qed.
Print Assumptions div_pointwise.

Theorem div_by_zero_rejected : forall c A, c == 0 -> e_div A c = ErrDivZero.
Proof. exact e_div_zero. Qed.
Print Assumptions div_by_zero_rejected.

Theorem sub_pointwise : forall v A B, wfL (e_cp A) -> wfL (e_cp B) -> e_deg A = e_deg B ->
  exists R, e_sub v A B = Ok R /\ e_deg R = e_deg A /\ wfL (e_cp R) /\
    length (e_cp R) = Nat.max (length (e_cp A)) (length (e_cp B)) /\
    forall k t, evalL (e_cp R) k t == evalL (e_cp A) k t - evalL (e_cp B) k t.
Proof. exact e_sub_pointwise. Qed.
Print Assumptions sub_pointwise.

Theorem add_degree_mismatch_rejected : forall v A B, e_deg A <> e_deg B -> e_add v A B = ErrDegree.
Proof. exact e_add_degree. Qed.
Print Assumptions add_degree_mismatch_rejected.

(* T1: every expression tree over + - neg c* /c on well-formed leaves of one degree evaluates, in the
   model, to a well-formed landscape whose depth-k function is the pointwise expression at every t:
   the "every sequence of operations on shared operands" quantifier (a leaf may occur many times) *)
Theorem expr_pointwise : forall v env d e,
  (forall A, In A env -> wfL (e_cp A) /\ e_deg A = d) -> expr_ok (length env) e ->
  exists R, eval_expr v env e = Ok R /\ e_deg R = d /\ wfL (e_cp R) /\
    forall k t, evalL (e_cp R) k t == expr_fun env e k t.
Proof. intros v env d e. exact (expr_pointwise_lemma v env d e). Qed.
Print Assumptions expr_pointwise.

(* the pinned code (Legacy variant) on lists whose first ordinate is not 0: [[0,1],[1,1]] + itself
   evaluates to 0 at t = 0 instead of 2 *)
Theorem add_legacy_refuted :
  exists a b c, incr a /\ incr b /\ add_depth Legacy a b = Some c /\ ~ pl_eval c 0 == pl_eval a 0 + pl_eval b 0.
Proof. exact add_legacy_refuted_lemma. Qed.
Print Assumptions add_legacy_refuted.

(* the intended (Fixed) variant - fixes/C09_first_ordinate.patch - is pointwise also when the first
   ordinates are not 0: operands that start at the same abscissa and end with ordinate 0 (partial; the
   general statement under Spec.ends_compatible is add_first_ordinate_pointwise at the end of this file) *)
Theorem add_first_ordinate_pointwise_partial : forall (ra rb : list pt) xa ya xb yb,
  let a := (xa, ya) :: ra in let b := (xb, yb) :: rb in
  incr a -> incr b -> xa == xb -> last_y a == 0 -> last_y b == 0 ->
  exists c, add_depth Fixed a b = Some c /\ incr c /\ first_y c == ya + yb /\ last_y c == 0 /\
    forall t, pl_eval c t == pl_eval a t + pl_eval b t.
Proof. exact add_depth_fixed_same_start. Qed.
Print Assumptions add_first_ordinate_pointwise_partial.

Theorem add_variants_agree_on_wf : forall a b, wf a -> wf b ->
  exists c c', add_depth Legacy a b = Some c /\ add_depth Fixed a b = Some c' /\ forall t, pl_eval c t == pl_eval c' t.
Proof. exact add_variants_agree_lemma. Qed.
Print Assumptions add_variants_agree_on_wf.


(* ---------------------------------------------------------------- grid (approximate) landscapes
   valat V k i = value of depth k at grid node i, 0 when the row is missing (zero padding). *)
Theorem approx_add_pointwise : forall A B n,
  a_vals A <> [] -> a_vals B <> [] -> rect n (a_vals A) -> rect n (a_vals B) ->
  a_deg A = a_deg B -> a_start A == a_start B -> a_stop A == a_stop B -> a_steps A = a_steps B ->
  exists V, a_add A B = Ok (mkA (a_deg A) (a_start A) (a_stop A) (a_steps A) V) /\
    rect n V /\ length V = Nat.max (length (a_vals A)) (length (a_vals B)) /\
    forall k i, valat V k i == valat (a_vals A) k i + valat (a_vals B) k i.
Proof. exact a_add_pointwise. Qed.
Print Assumptions approx_add_pointwise.

(* the checks in the order of the code: degree, start, stop, number of steps *)
Theorem approx_add_mismatch_rejected : forall A B,
  (a_deg A <> a_deg B -> a_add A B = ErrDegree) /\
  (a_deg A = a_deg B -> ~ a_start A == a_start B -> a_add A B = ErrStart) /\
  (a_deg A = a_deg B -> a_start A == a_start B -> ~ a_stop A == a_stop B -> a_add A B = ErrStop) /\
  (a_deg A = a_deg B -> a_start A == a_start B -> a_stop A == a_stop B -> a_steps A <> a_steps B -> a_add A B = ErrSteps).
Proof. exact a_add_mismatch. Qed.
Print Assumptions approx_add_mismatch_rejected.

Theorem approx_neg_scale_div_pointwise : forall A c,
  (same_grid (a_neg A) A /\ forall k i, valat (a_vals (a_neg A)) k i == - valat (a_vals A) k i) /\
  (same_grid (a_mul c A) A /\ forall k i, valat (a_vals (a_mul c A)) k i == c * valat (a_vals A) k i) /\
  (~ c == 0 -> exists R, a_div A c = Ok R /\ same_grid R A /\ forall k i, valat (a_vals R) k i == valat (a_vals A) k i / c) /\
  (c == 0 -> a_div A c = ErrDivZero).
Proof. exact a_unary_pointwise. Qed.
Print Assumptions approx_neg_scale_div_pointwise.

Theorem approx_sub_pointwise : forall A B n,
  a_vals A <> [] -> a_vals B <> [] -> rect n (a_vals A) -> rect n (a_vals B) ->
  a_deg A = a_deg B -> a_start A == a_start B -> a_stop A == a_stop B -> a_steps A = a_steps B ->
  exists V, a_sub A B = Ok (mkA (a_deg A) (a_start A) (a_stop A) (a_steps A) V) /\
    rect n V /\ forall k i, valat V k i == valat (a_vals A) k i - valat (a_vals B) k i.
Proof. exact a_sub_pointwise. Qed.
Print Assumptions approx_sub_pointwise.

(* snap_pl: the common grid defaults to (min start, max stop, max num_steps); every depth of every
   landscape is re-sampled by `resample` = np.interp over its own grid ... *)
Theorem snap_is_interp : forall pls os oe on out, snap_pl pls os oe on = Ok out ->
  exists start stop n,
    or_default os (min_list (map a_start pls)) = Some start /\
    or_default oe (max_list (map a_stop pls)) = Some stop /\
    or_default on (max_nat_list (map a_steps pls)) = Some n /\
    Forall2 (fun A O => a_deg O = a_deg A /\ a_start O = start /\ a_stop O = stop /\ a_steps O = n /\
               a_vals O = map (fun row => map (resample A row) (linspace start stop n)) (a_vals A)) pls out.
Proof. exact snap_pl_spec. Qed.
Print Assumptions snap_is_interp.

(* ... and np.interp over an increasing grid is linear interpolation of the samples inside the grid
   (pl_eval of the sample points) and the end values outside it; a grid with start < stop is increasing *)
Theorem resample_is_linear_interpolation : forall A row g, a_start A < a_stop A ->
  let pts := combine (linspace (a_start A) (a_stop A) (a_steps A)) row in
  pts <> [] ->
  (first_x pts <= g /\ g <= last_x pts -> resample A row g == pl_eval pts g) /\
  (g < first_x pts -> resample A row g == first_y pts) /\
  (last_x pts < g -> resample A row g == last_y pts).
Proof. intros A row g H pts N. apply interp_is_linear; [exact N|apply linspace_incr; exact H]. Qed.
Print Assumptions resample_is_linear_interpolation.

Theorem snap_defaults_are_min_max :
  (forall l m, min_list l = Some m -> (exists x, In x l /\ x == m) /\ forall x, In x l -> m <= x) /\
  (forall l m, max_list l = Some m -> (exists x, In x l /\ x == m) /\ forall x, In x l -> x <= m) /\
  (forall l m, max_nat_list l = Some m -> In m l /\ forall x, In x l -> (x <= m)%nat).
Proof. exact (conj min_list_spec (conj max_list_spec max_nat_list_spec)). Qed.
Print Assumptions snap_defaults_are_min_max.

Theorem snap_succeeds : forall pls os oe on, pls <> [] ->
  (forall A, In A pls -> rect (a_steps A) (a_vals A)) -> exists out, snap_pl pls os oe on = Ok out.
Proof. exact snap_pl_ok. Qed.
Print Assumptions snap_succeeds.

(* lc_approx = the same linear combination of the re-sampled values (zero padding for missing depths) *)
Theorem lc_is_combination : forall pls cs os oe on snapped,
  snap_pl pls os oe on = Ok snapped -> pls <> [] -> length cs = length pls ->
  (forall A, In A pls -> a_vals A <> []) ->
  (forall A B, In A pls -> In B pls -> a_deg A = a_deg B) ->
  exists R, lc_approx pls cs os oe on = Ok R /\
    (forall S, In S snapped -> same_grid R S) /\
    forall k i, valat (a_vals R) k i ==
                sumQ (map (fun cp => fst cp * valat (a_vals (snd cp)) k i) (combine cs snapped)).
Proof. exact LandApproxP.lc_is_combination. Qed.
Print Assumptions lc_is_combination.

Theorem average_is_mean : forall pls os oe on snapped,
  snap_pl pls os oe on = Ok snapped -> pls <> [] ->
  (forall A, In A pls -> a_vals A <> []) ->
  (forall A B, In A pls -> In B pls -> a_deg A = a_deg B) ->
  exists R, average_approx pls os oe on = Ok R /\
    (forall S, In S snapped -> same_grid R S) /\
    forall k i, valat (a_vals R) k i == sumQ (map (fun S => valat (a_vals S) k i) snapped) / QofN (length pls).
Proof. exact average_is_mean_lemma. Qed.
Print Assumptions average_is_mean.

(* non-vacuity *)
Example wf_satisfiable : wf [(0, 0); (1, 1); (2, 0)] /\ wf [(1 # 2, 0); (1, -(1)); (3, 2); (4, 0)].
Proof. split; (split; [discriminate|]; split; [simpl; repeat split; reflexivity|]; split; reflexivity). Qed.
Example expr_hyp_satisfiable :
  let env := [mkE 0 [[(0, 0); (1, 1); (2, 0)]]; mkE 0 [[(0, 0); (2, 2); (4, 0)]; [(1, 0); (2, 1); (3, 0)]]] in
  expr_ok (length env) (ESub (EAdd (Leaf 0) (EScale (5 # 2) (Leaf 1))) (EDiv (ENeg (Leaf 0)) 2)).
Proof. simpl. repeat split; auto; discriminate. Qed.
Example approx_hyp_satisfiable :
  let A := mkA 0 0 4 5 [[0; 1; 2; 1; 0]; [0; 0; 1; 0; 0]] in let B := mkA 0 1 5 3 [[1; 1; 1]] in
  rect 5 (a_vals A) /\ a_vals A <> [] /\ a_start B < a_stop B /\
  exists out, snap_pl [A; B] None None None = Ok out /\ length out = 2%nat.
Proof. simpl. split; [repeat constructor|]. split; [discriminate|]. split; [reflexivity|]. eexists. split; [vm_compute; reflexivity|reflexivity]. Qed.

(* ================= glue with C03 (the exact sweep): coq/Proofs/LandscapeGlueP.v, LandscapeGlueArithP.v ================= *)
From Persim Require Spec.LandscapeS Model.SweepM Proofs.ApproxP Spec.LandscapeGlueS Proofs.LandscapeGlueP Proofs.LandscapeGlueArithP.

(* every depth the sweep (Model/SweepM.v, shortcut off) returns for a finite diagram of positive-length bars is well
   formed in the sense of this file (wf: non-empty, abscissae strictly increasing, first and last ordinate 0) and in the
   sense of C08.vectorize_exact (wellformed_depth): each depth starts with (b,0) and the inner loop closes it with (d,0) *)
Theorem sweep_output_wf : forall bars : list bar, (forall a, In a bars -> fst a < snd a) ->
  exists L, SweepM.sweep false bars = Some L /\ wfL L /\ Forall ApproxP.wellformed_depth L /\
    (forall l, In l L -> exists b d mid, l = (b, 0) :: mid ++ [(d, 0)]).
Proof. exact LandscapeGlueP.sweep_output_wf_P. Qed.
Print Assumptions sweep_output_wf.

(* ... and through the public entry point PersLandscapeExact(dgms, hom_deg) *)
Theorem exact_landscape_output_wf : forall dgms h dg (bars : list bar), nth_error dgms h = Some dg ->
  SweepM.finite_bars (SweepM.strip_trailing_inf dg) = Some bars -> (forall a, In a bars -> fst a < snd a) ->
  exists L, SweepM.exact_landscape false true dgms h = SweepM.Ok L /\ LandscapeS.landscape_ok bars L /\
    wfL L /\ Forall ApproxP.wellformed_depth L.
Proof. exact LandscapeGlueP.exact_landscape_output_wf_P. Qed.
Print Assumptions exact_landscape_output_wf.

(* expr_pointwise on landscapes OF DIAGRAMS: for every list of finite diagrams of positive-length bars, every
   environment whose i-th leaf carries the critical pairs the sweep computes from the i-th diagram, and every
   expression tree over + - neg c* /c on these leaves: the model evaluates it (no degree / fuel error), the result is
   well formed, and its depth k at EVERY t is the same expression of the (k+1)-st largest tents of the diagrams
   (Spec/LandscapeGlueS.expr_land).  No well-formedness hypothesis on the leaves is left: sweep_output_wf provides it. *)
Theorem arith_on_diagram_landscapes : forall v d (dgs : list (list bar)) env e,
  Forall2 (fun D A => (forall a, In a D -> fst a < snd a) /\ SweepM.sweep false D = Some (e_cp A) /\ e_deg A = d) dgs env ->
  expr_ok (length dgs) e ->
  exists R, eval_expr v env e = Ok R /\ e_deg R = d /\ wfL (e_cp R) /\
    forall k t, evalL (e_cp R) k t == LandscapeGlueS.expr_land dgs e (S k) t.
Proof. exact LandscapeGlueArithP.arith_on_diagram_landscapes_P. Qed.
Print Assumptions arith_on_diagram_landscapes.

(* such an environment exists for every list of diagrams *)
Theorem diagram_environment_exists : forall d (dgs : list (list bar)),
  (forall D, In D dgs -> forall a, In a D -> fst a < snd a) ->
  exists env, Forall2 (fun D A => (forall a, In a D -> fst a < snd a) /\ SweepM.sweep false D = Some (e_cp A) /\ e_deg A = d) dgs env.
Proof. exact LandscapeGlueArithP.diagram_env_exists. Qed.
Print Assumptions diagram_environment_exists.

(* non-vacuity: two diagrams with interacting bars, the tree (P0 - P1) + 2 * P1 / 4 - (-P0): the hypotheses hold and the
   model's result at depth 0 (k = 1), t = 5/2 is the expression of the largest tents: (3/2 - 3/2) + 2*(3/2)/4 + 3/2 = 9/4 *)
Example arith_on_diagrams_instance :
  let dgs := [[(1, 5); (2, 8); (3, 4)]; [(0, 4); (1, 3)]] in
  let env := [mkE 1 [[(1, 0); (6 # 2, 4 # 2); (7 # 2, 3 # 2); (10 # 2, 6 # 2); (8, 0)]; [(2, 0); (7 # 2, 3 # 2); (5, 0)]; [(3, 0); (7 # 2, 1 # 2); (4, 0)]];
              mkE 1 [[(0, 0); (4 # 2, 4 # 2); (4, 0)]; [(1, 0); (4 # 2, 2 # 2); (3, 0)]]] in
  let e := ESub (EAdd (ESub (Leaf 0) (Leaf 1)) (EDiv (EScale 2 (Leaf 1)) 4)) (ENeg (Leaf 0)) in
  Forall2 (fun D A => (forall a, In a D -> fst a < snd a) /\ SweepM.sweep false D = Some (e_cp A) /\ e_deg A = 1%Z) dgs env /\
  expr_ok (length dgs) e /\
  match eval_expr Fixed env e with Ok R => Qeq_bool (evalL (e_cp R) 0 (5 # 2)) (9 # 4) | _ => false end = true /\
  LandscapeGlueS.expr_land dgs e 1 (5 # 2) == 9 # 4.
Proof. cbv zeta. split; [|split; [|split]].
  - constructor; [|constructor; [|constructor]]; (split; [|split; [vm_compute; reflexivity|reflexivity]]);
    intros a H; simpl in H; repeat (destruct H as [H|H]; [subst a; reflexivity|]); contradiction.
  - simpl. repeat split; auto; discriminate.
  - vm_compute. reflexivity.
  - vm_compute. reflexivity. Qed.

(* ================= the exact sum on arbitrary critical-pair lists: coq/Proofs/LandArithEndsP.v ================= *)
From Coq Require Import Qminmax.
From Persim Require Proofs.LandArithEndsP.

(* T1, general form of add_first_ordinate_pointwise_partial: for ANY two non-empty critical-pair lists with strictly
   increasing abscissae (different first abscissae, non-zero first and last ordinates, single-point lists) whose ends are
   compatible (Spec.ends_compatible: no non-zero end ordinate of one operand strictly inside the abscissa range of the
   other) the repaired code's sum evaluates, has strictly increasing abscissae again, spans [min first_x, max last_x],
   and is the pointwise sum of the two functions at EVERY t (pl_eval is 0 outside the range of its list, so this
   includes the jumps at non-zero end ordinates).  Empty depths are excluded: the real code raises IndexError on them
   (a[0][0] in union_crit_pairs) and the model returns its error value (add_empty_depth_is_error below). *)
Theorem add_first_ordinate_pointwise : forall a b : list pt,
  a <> [] -> b <> [] -> incr a -> incr b -> ends_compatible a b ->
  exists c, add_depth Fixed a b = Some c /\ c <> [] /\ incr c /\
    first_x c == Qmin (first_x a) (first_x b) /\ last_x c == Qmax (last_x a) (last_x b) /\
    forall t, pl_eval c t == pl_eval a t + pl_eval b t.
Proof. exact LandArithEndsP.add_depth_fixed_ends. Qed.
Print Assumptions add_first_ordinate_pointwise.

(* T1: ends_compatible is the EXACT boundary, not a proof artefact: on non-empty lists with strictly increasing
   abscissae the sum is pointwise at every t if and only if the ends are compatible (for every incompatible pair the
   result - a continuous function between its first and last point - differs from the pointwise sum at some t) *)
Theorem add_pointwise_iff_ends_compatible : forall a b : list pt, a <> [] -> b <> [] -> incr a -> incr b ->
  ((exists c, add_depth Fixed a b = Some c /\ forall t, pl_eval c t == pl_eval a t + pl_eval b t)
   <-> ends_compatible a b).
Proof. exact LandArithEndsP.add_depth_fixed_ends_iff. Qed.
Print Assumptions add_pointwise_iff_ends_compatible.

(* the condition is decidable: boolean form *)
Theorem ends_compatible_decidable : forall a b : list pt,
  LandArithEndsP.ends_compatible_b a b = true <-> ends_compatible a b.
Proof. exact LandArithEndsP.ends_compatible_b_spec. Qed.
Print Assumptions ends_compatible_decidable.

(* the sum of two non-empty increasing lists always evaluates (no fuel error), compatible ends or not *)
Theorem add_first_ordinate_total : forall a b : list pt, a <> [] -> b <> [] -> incr a -> incr b ->
  exists c, add_depth Fixed a b = Some c /\ c <> [] /\ incr c.
Proof. exact LandArithEndsP.add_depth_fixed_total. Qed.
Print Assumptions add_first_ordinate_total.

(* boundary witnesses.  [[0,0],[2,2],[4,0]] + [[1,1],[3,0]]: the first ordinate 1 of b sits strictly inside the range of
   a; model and real code return the continuous list [[0,0],[1,1],[2,1.5],[3,0],[4,-1]], which has 1 at t = 1 where the
   operands have 1 + 1.  Such operands cannot come from diagrams (sweep_output_wf below: every depth starts and ends with
   ordinate 0, and sums / differences / multiples of such lists do so again: add_pointwise) but the public constructor
   PersLandscapeExact(critical_pairs=...) accepts any lists, so the real __add__ CAN be given them; no breakpoint list
   with strictly increasing abscissae represents the pointwise sum then, so this is a limit of the representation, not
   a defect of the code. *)
Theorem add_ends_incompatible_refuted :
  exists a b c t, a <> [] /\ b <> [] /\ incr a /\ incr b /\ LandArithEndsP.ends_compatible_b a b = false /\
    add_depth Fixed a b = Some c /\ ~ pl_eval c t == pl_eval a t + pl_eval b t.
Proof. exact LandArithEndsP.add_ends_incompatible_refuted_lemma. Qed.
Print Assumptions add_ends_incompatible_refuted.

(* non-vacuity of add_first_ordinate_pointwise: different first abscissae, non-zero first ordinate of the operand that
   starts first, common last abscissa with a non-zero last ordinate *)
Example ends_compatible_satisfiable :
  let a := [(0, 1); (2, 3); (5, 0)] in let b := [(2, 0); (3, -(1)); (5, 4)] in
  a <> [] /\ b <> [] /\ incr a /\ incr b /\ ends_compatible a b /\
  add_depth Fixed a b = Some [(0, 1); (2, 6 # 2); (3, 6 # 6); (5, 144 # 36)].
Proof. exact LandArithEndsP.ends_compatible_instance. Qed.

(* an explicitly empty depth (only constructible through critical_pairs=[[], ...]) is rejected by the model exactly as
   by the code (IndexError): the sum of landscapes containing one is an error value, never a wrong landscape *)
Theorem add_empty_depth_is_error : forall v b, add_depth v [] b = None /\ add_depth v b [] = None.
Proof. exact LandArithEndsP.add_empty_depth_raises. Qed.
Print Assumptions add_empty_depth_is_error.
