(* C05 - mGH estimates always bracket the true modified Gromov-Hausdorff distance.
   Only statements here; every proof is `exact <lemma of Proofs/MGH*.v>`.

   Reading guide.  2*mGH(X,Y) = max(min_f dis DX DY f, min_g dis DY DX g);
   [two_mgh_ge DX DY d] says d <= 2*mGH, [two_mgh_le DX DY u] says 2*mGH <= u with u the
   larger distortion of an actual pair of maps (Spec/MGH.v).  The model (Model/MGHM.v) keeps the
   doubled integers; [estimate] multiplies by 1/2.

   Greedy completeness ("check_assignment_feasibility answers False only if no injective
   assignment exists", T2) is proved in general ([greedy_complete_all], Proofs/MGHGreedy.v, an
   exchange argument on the frequency lists), so [lb_sound], [iso_find_lb_zero] and
   [estimate_brackets] carry no hypothesis about it.  The finite sweep
   [greedy_eq_bruteforce_small] is kept as an independent executable cross-check (it also
   covers the converse direction, soundness of a True answer, on that finite domain). *)
From Coq Require Import ZArith QArith List Bool Arith Lia.
From Persim Require Import Spec.MGH Model.MGHM Proofs.MGHBasics Proofs.MGHUb Proofs.MGHLb
  Proofs.MGHSweep Proofs.MGHEst Proofs.MGHGreedy Proofs.MGHFinal Model.MGHLegacy Proofs.MGHDec Proofs.MGHLegacyP.
Import ListNotations.
Open Scope Z_scope.

(* T1.  For EVERY permutation pi and first image y0 (every state of NumPy's RNG),
   construct_mapping returns the images of a genuine map X -> Y and exactly its distortion. *)
Theorem construct_mapping_is_distortion : forall DX DY pi y0 ys dist,
  dmatrix DX -> dmatrix DY -> is_perm (length DX) pi -> (y0 < length DY)%nat ->
  construct_mapping DX DY pi y0 = Some (ys, dist) ->
  valid_map (length DX) (length DY) (map_of pi ys) /\ dist = dis DX DY (map_of pi ys).
Proof. exact construct_mapping_dis. Qed.
Print Assumptions construct_mapping_is_distortion.

(* T1.  find_ub, for every list of samples in both directions (every RNG state, every
   mapping_sample_size_order = every list length, every early exit), returns max(dis f, dis g)
   for actual maps f : X -> Y and g : Y -> X, hence an upper bound of 2*mGH. *)
Theorem ub_sound : forall DX DY s1 s2 lb u,
  dmatrix DX -> dmatrix DY ->
  valid_samples (length DX) (length DY) s1 -> valid_samples (length DY) (length DX) s2 ->
  find_ub DX DY s1 s2 lb = Some u -> two_mgh_le DX DY u.
Proof. exact find_ub_sound. Qed.
Print Assumptions ub_sound.

(* T1.  |diam X - diam Y| and [|X| <> |Y|] are lower bounds of 2*mGH. *)
Theorem lb_trivial_sound : forall DX DY, dmatrix DX -> dmatrix DY ->
  two_mgh_ge DX DY (Z.max (Z.abs (diam DX - diam DY)) (if (length DX =? length DY)%nat then 0 else 1)).
Proof. exact trivial_lb_sound. Qed.
Print Assumptions lb_trivial_sound.

(* T1 (Theorem A).  A d-bounded curvature of X on more points than Y has forces dis f >= d. *)
Theorem thmA_sound : forall DX DY ks d f,
  dmatrix DY -> bounded_curv DX ks d -> (length DY < length ks)%nat ->
  valid_map (length DX) (length DY) f -> d <= dis DX DY f.
Proof. exact thmA. Qed.
Print Assumptions thmA_sound.

(* T1 (Theorem B), with the spec-level infeasibility of the injective assignment. *)
Theorem thmB_sound : forall DX DY ks d a,
  dmatrix DX -> dmatrix DY -> bounded_curv DX ks d -> In a ks ->
  (forall j, (j < length DY)%nat ->
             ~ inj_assign (row_others DX a ks) (row_others DY j (seq 0 (length DY))) d) ->
  forall f, valid_map (length DX) (length DY) f -> d <= dis DX DY f.
Proof. exact thmB. Qed.
Print Assumptions thmB_sound.

(* T1.  Whatever row the oracle deletes (every tie-break of argmin, the int8 wrap-around of the
   sort key), find_largest_size_bounded_curvature returns a d-bounded curvature. *)
Theorem bounded_curvature_any_oracle : forall (pick : oracle) D diamX d ks,
  dmatrix D -> find_largest pick D diamX d = Some ks -> bounded_curv D ks d.
Proof. exact find_largest_bounded. Qed.
Print Assumptions bounded_curvature_any_oracle.

(* T2.  Greedy completeness: whenever check_assignment_feasibility, run on the frequency
   distributions of two vectors with entries in 1..max_d, answers False, no injective assignment
   with all differences < d exists - for all sizes, all max_d, all thresholds. *)
Theorem greedy_complete_all : forall maxd v u d, 0 < d ->
  Forall (fun x => 1 <= x <= maxd) v -> Forall (fun x => 1 <= x <= maxd) u ->
  infeasible (row_dist maxd v) (row_dist maxd u) d = true -> ~ inj_assign v u d.
Proof. exact greedy_complete_holds. Qed.
Print Assumptions greedy_complete_all.

(* The model's fuel for the greedy loop always suffices (each round zeroes a positive entry). *)
Theorem greedy_total : forall v u d, check_feas v u d <> None.
Proof. exact check_feas_total. Qed.
Print Assumptions greedy_total.

(* T1.  find_lb returns a lower bound of 2*mGH, for every row-selection oracle. *)
Theorem lb_sound : forall (pick : oracle) DX DY L,
  dmatrix DX -> dmatrix DY -> find_lb pick DX DY = Some L -> two_mgh_ge DX DY L /\ 0 <= L.
Proof. exact find_lb_sound. Qed.
Print Assumptions lb_sound.

(* ... and it does return a value whenever the oracle names an existing row, as np.argmin does;
   the two concrete oracles of the correspondence (exact key, int8-wrapped key) are such. *)
Theorem lb_total : forall (pick : oracle) DX DY, in_range pick -> find_lb pick DX DY <> None.
Proof. exact find_lb_total. Qed.
Print Assumptions lb_total.
Theorem numpy_oracles_in_range : in_range pick_exact /\ in_range pick_int8.
Proof. exact (conj pick_exact_in_range pick_int8_in_range). Qed.
Print Assumptions numpy_oracles_in_range.

(* Finite sweep (independent of the general theorem above): on all multisets with entries in 1..max_d,
   max_d <= 5, at most 5 entries, every threshold d in 1..max_d, the greedy test on the
   distributions equals the brute-force search over injective assignments. *)
Theorem greedy_eq_bruteforce_small :
  forallb (fun maxd => sweep_ok maxd 5) [1%nat; 2%nat; 3%nat; 4%nat; 5%nat] = true.
Proof. exact greedy_sweep. Qed.
Print Assumptions greedy_eq_bruteforce_small.

(* T1.  The lower bound is at least the trivial bound and non-negative (no hypothesis). *)
Theorem lb_nonneg : forall (pick : oracle) DX DY L,
  find_lb pick DX DY = Some L -> trivial_lb DX DY <= L /\ 0 <= L.
Proof. exact find_lb_nonneg. Qed.
Print Assumptions lb_nonneg.

(* T1.  Both estimates are non-negative multiples of 1/2. *)
Theorem half_integers : forall (pick : oracle) DX DY s1 s2 l u,
  estimate pick DX DY s1 s2 = Some (l, u) ->
  exists a b : Z, 0 <= a /\ 0 <= b /\ l = half a /\ u = half b.
Proof. exact estimate_half_integers. Qed.
Print Assumptions half_integers.

(* T1.  Isometric spaces (relabelled graphs): every sound lower bound is <= 0 ... *)
Theorem iso_lb_zero : forall DX DY d, isometric DX DY -> two_mgh_ge DX DY d -> d <= 0.
Proof. exact iso_any_lb_le_0. Qed.
Print Assumptions iso_lb_zero.

(* ... hence find_lb returns exactly 0 on them. *)
Theorem iso_find_lb_zero : forall (pick : oracle) DX DY L,
  dmatrix DX -> dmatrix DY -> isometric DX DY -> find_lb pick DX DY = Some L -> L = 0.
Proof. exact iso_find_lb_zero_full. Qed.
Print Assumptions iso_find_lb_zero.

(* Assembly: estimate's doubled values bracket 2*mGH and lower <= upper, for every oracle and
   every RNG draw; and estimate returns a value. *)
Theorem estimate_brackets : forall (pick : oracle) DX DY s1 s2 L U,
  dmatrix DX -> dmatrix DY ->
  valid_samples (length DX) (length DY) s1 -> valid_samples (length DY) (length DX) s2 ->
  estimate2 pick DX DY s1 s2 = Some (L, U) ->
  two_mgh_ge DX DY L /\ two_mgh_le DX DY U /\ 0 <= L <= U.
Proof. exact estimate2_brackets_full. Qed.
Print Assumptions estimate_brackets.

Theorem estimate_total : forall (pick : oracle) DX DY s1 s2, in_range pick ->
  s1 <> [] -> s2 <> [] -> Forall (fun p => fst p <> []) s1 -> Forall (fun p => fst p <> []) s2 ->
  estimate2 pick DX DY s1 s2 <> None.
Proof. exact estimate2_total. Qed.
Print Assumptions estimate_total.

(* Legacy (pinned tree, NumPy >= 2): the sort key `len(K) * diam_X` is computed in the int8 type of
   diam_X; on two copies of the star with 128 points the curvature search starts and its first
   round raises OverflowError instead of returning a bracket (fixed by
   fixes/C05_sortkey_overflow.patch, after which the exact-key oracle is the faithful one; the
   positive theorems above hold for every oracle anyway). *)
Theorem sortkey_legacy_refuted :
  dmatrix_b (star 128) = true /\ diam (star 128) = 2 /\ trivial_lb (star 128) (star 128) = 0 /\
  legacy_step (star 128) (seq 0 128) 2 2 = StepRaise /\
  legacy_step (star 127) (seq 0 127) 2 2 <> StepRaise.
Proof. exact sortkey_legacy_raises. Qed.
Print Assumptions sortkey_legacy_refuted.

(* ---- non-vacuity: the hypotheses are met by concrete graphs (P3 and K1), and the model runs *)
Definition P3 : mat := [[0;1;2];[1;0;1];[2;1;0]].
Definition K1 : mat := [[0]].
Example P3_dmatrix : dmatrix P3.
Proof.
  split; [repeat constructor|]. split; [|split].
  - intros [|[|[|i]]] H; unfold ent, P3, K1 in *; simpl in *; try reflexivity; lia.
  - intros [|[|[|i]]] [|[|[|j]]] H1 H2; unfold ent, P3, K1 in *; simpl in *; try reflexivity; lia.
  - intros [|[|[|i]]] [|[|[|j]]] H1 H2 NE; unfold ent, P3, K1 in *; simpl in *; try lia; congruence.
Qed.
Example K1_dmatrix : dmatrix K1.
Proof.
  split; [repeat constructor|]. split; [|split].
  - intros [|i] H; unfold ent, P3, K1 in *; simpl in *; try reflexivity; lia.
  - intros [|i] [|j] H1 H2; unfold ent, P3, K1 in *; simpl in *; try reflexivity; lia.
  - intros [|i] [|j] H1 H2 NE; unfold ent, P3, K1 in *; simpl in *; try lia; congruence.
Qed.
Example samples_valid : valid_samples 3 1 [([2;0;1]%nat, 0%nat)] /\ valid_samples 1 3 [([0]%nat, 2%nat)].
Proof.
  split; repeat constructor; simpl; try lia; intuition (try discriminate; try lia).
Qed.
Example estimate_runs :
  estimate2 pick_exact P3 K1 [([2;0;1]%nat, 0%nat)] [([0]%nat, 2%nat)] = Some (2, 2).
Proof. vm_compute. reflexivity. Qed.
Example thmA_instance : bounded_curv P3 [0%nat; 2%nat] 2.
Proof.
  split; [repeat constructor; simpl; intuition lia|]. split; [repeat constructor; simpl; lia|].
  intros a b [<-|[<-|[]]] [<-|[<-|[]]] NE; unfold ent, P3; simpl; try lia; congruence.
Qed.
