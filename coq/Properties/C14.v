(* C14 - Heat-kernel distance (persim/heat.py).  Only statements here; every proof is
   `exact <lemma of Proofs/HeatP.v, GaussPSD.v or HeatStab.v>`.

   T1 (all inputs, no hypotheses): the loop computes Reininghaus et al.'s kernel with the
   1/(8 pi sigma) constant; kernel symmetry and permutation invariance; the radicand is EXACTLY 0
   for reorderings, so heat = 0; symmetry; diagonal points ignored; translation invariance;
   the result is a non-negative real.
   T2 (all inputs, sigma > 0, no hypothesis): the kernel is positive semidefinite -- proved in
   Proofs/GaussPSD.v from the exponential series (the Gaussian kernel on R^2 is PSD; the mirrored
   difference is half the Gaussian form on the signed point set) -- hence radicand >= 0,
   heat^2 = radicand, and the triangle inequality (Cauchy-Schwarz).
   Stability (Proofs/HeatStab.v): heat <= cost(M) / (4 sigma sqrt pi) for EVERY partial matching M
   (Euclidean distances of matched pairs + perpendicular distances to the diagonal of unmatched
   points), hence heat <= W1 / (4 sigma sqrt pi); from Gaussian PSD, 1 - exp(-x) <= x and Minkowski.
   The harness additionally monitors the bound on the implementation against a computed W1.
   "Never NaN" is a statement about binary64: over R the pinned tree's sqrt(r) and the patched
   sqrt(max(r,0)) are the same function (heat_legacy_same_real_function); the tie demands a
   number within tolerance of the real model, so a NaN is a correspondence failure. *)
From Coq Require Import Reals List Lra Permutation.
From Persim Require Import Model.HeatM Proofs.HeatP Proofs.GaussPSD Proofs.HeatStab.
Import ListNotations.
Open Scope R_scope.

Theorem heat_loop_is_reininghaus_kernel : forall sigma F G,
  evalHeatKernel sigma F G =
  / (8 * PI * sigma) *
  hsum (map (fun p => hsum (map (fun q =>
      exp (- sqdist p q / (8 * sigma)) - exp (- sqdist p (mirror q) / (8 * sigma))) G)) F).
Proof. exact k_is_sum. Qed.
Print Assumptions heat_loop_is_reininghaus_kernel.

Theorem heat_kernel_sym : forall sigma F G, evalHeatKernel sigma F G = evalHeatKernel sigma G F.
Proof. exact k_sym. Qed.
Print Assumptions heat_kernel_sym.

Theorem heat_kernel_reorder : forall sigma F F' G G', Permutation F F' -> Permutation G G' ->
  evalHeatKernel sigma F G = evalHeatKernel sigma F' G'.
Proof. exact k_perm. Qed.
Print Assumptions heat_kernel_reorder.

Theorem heat_reorder_zero : forall sigma F G, Permutation F G ->
  radicand sigma F G = 0 /\ heat sigma F G = 0.
Proof. intros sigma F G P. split. exact (radicand_perm_zero sigma F G P). exact (heat_perm_zero sigma F G P). Qed.
Print Assumptions heat_reorder_zero.

Theorem heat_symmetric : forall sigma F G, heat sigma F G = heat sigma G F.
Proof. exact heat_sym. Qed.
Print Assumptions heat_symmetric.

Theorem heat_kernel_diag_point_zero : forall sigma p q, on_diag p \/ on_diag q -> kterm sigma p q = 0.
Proof. intros sigma p q [H|H]. exact (kterm_diag_l sigma p q H). exact (kterm_diag_r sigma p q H). Qed.
Print Assumptions heat_kernel_diag_point_zero.

(* F' = F with diagonal points D inserted anywhere, likewise G' *)
Theorem heat_diag_points_ignored : forall sigma F F' D G G' D', Forall on_diag D -> Forall on_diag D' ->
  Permutation F' (F ++ D) -> Permutation G' (G ++ D') -> heat sigma F' G' = heat sigma F G.
Proof. exact heat_diag_ignored. Qed.
Print Assumptions heat_diag_points_ignored.

Theorem heat_kernel_translate : forall sigma c F G,
  evalHeatKernel sigma (shift c F) (shift c G) = evalHeatKernel sigma F G.
Proof. exact k_translate. Qed.
Print Assumptions heat_kernel_translate.

Theorem heat_translate_invariant : forall sigma c F G, heat sigma (shift c F) (shift c G) = heat sigma F G.
Proof. exact heat_translate. Qed.
Print Assumptions heat_translate_invariant.

Theorem heat_nonnegative_real : forall sigma F G, 0 <= heat sigma F G.
Proof. exact heat_nonneg. Qed.
Print Assumptions heat_nonnegative_real.

Theorem heat_legacy_same_real_function : forall sigma F G, heat_legacy sigma F G = heat sigma F G.
Proof. exact heat_legacy_eq. Qed.
Print Assumptions heat_legacy_same_real_function.

(* ---- T2: positive semidefiniteness and its consequences (sigma > 0) ---- *)
Theorem gaussian_kernel_psd : forall sigma, 0 < sigma -> forall (ps : list (R * pt)),
  0 <= dsum (fun a b => fst a * fst b * exp (- sqdist (snd a) (snd b) / (8 * sigma))) ps ps.
Proof. exact gauss_psd. Qed.
Print Assumptions gaussian_kernel_psd.

(* the Gram matrix of k on any finite weighted family of diagrams is positive semidefinite *)
Theorem heat_kernel_psd : forall sigma, 0 < sigma -> forall (ws : list (R * list pt)),
  0 <= dsum (fun a b => fst a * fst b * evalHeatKernel sigma (snd a) (snd b)) ws ws.
Proof. exact gram_psd. Qed.
Print Assumptions heat_kernel_psd.

Theorem heat_radicand_nonneg : forall sigma F G, 0 < sigma -> 0 <= radicand sigma F G.
Proof. exact radicand_nonneg. Qed.
Print Assumptions heat_radicand_nonneg.

Theorem heat_square_is_radicand : forall sigma F G, 0 < sigma ->
  heat sigma F G * heat sigma F G =
  evalHeatKernel sigma F F + evalHeatKernel sigma G G - 2 * evalHeatKernel sigma F G.
Proof. exact heat_sq_radicand. Qed.
Print Assumptions heat_square_is_radicand.

Theorem heat_triangle_inequality : forall sigma F G H, 0 < sigma ->
  heat sigma F H <= heat sigma F G + heat sigma G H.
Proof. exact heat_triangle. Qed.
Print Assumptions heat_triangle_inequality.

(* stability w.r.t. the 1-Wasserstein distance: Mt = matched pairs, U1/U2 = points matched to the
   diagonal; the right-hand side is the cost of that partial matching over 4 sigma sqrt pi, and W1 is
   the minimum of these costs *)
Theorem heat_stability : forall sigma F G (Mt : list (pt * pt)) (U1 U2 : list pt), 0 < sigma ->
  Permutation F (map fst Mt ++ U1) -> Permutation G (map snd Mt ++ U2) ->
  heat sigma F G <=
  (hsum (map (fun pq => sqrt (sqdist (fst pq) (snd pq))) Mt)
   + hsum (map (fun p => Rabs (snd p - fst p) / sqrt 2) U1)
   + hsum (map (fun p => Rabs (snd p - fst p) / sqrt 2) U2)) / (4 * sigma * sqrt PI).
Proof. exact heat_le_matching_cost. Qed.
Print Assumptions heat_stability.

(* non-vacuity: the hypotheses of the T1 theorems are met by concrete diagrams *)
Example heat_reorder_hyp_satisfiable : Permutation [(0,1);(1,3)] [(1,3);(0,1)] /\ (on_diag (2,2)).
Proof. split. apply perm_swap. reflexivity. Qed.
Example heat_diag_hyp_satisfiable :
  Forall on_diag [(2,2)] /\ Permutation [(0,1);(2,2);(1,3)] ([(0,1);(1,3)] ++ [(2,2)]).
Proof. split. repeat constructor. apply perm_skip. apply perm_swap. Qed.
Example heat_sigma_hyp_satisfiable : 0 < 4 / 10.
Proof. lra. Qed.
Example heat_stability_hyp_satisfiable :
  Permutation [(0,1);(1,3)] (map fst [((1,3),(1,2))] ++ [(0,1)]) /\ Permutation [(1,2)] (map snd [((1,3),(1,2))] ++ []).
Proof. split. apply perm_swap. apply Permutation_refl. Qed.
