(* C07 - Bottleneck and Wasserstein obey the metric and invariance laws at any size.
   Every law is about the SPEC minimum (Spec/BottleneckS.v over Q, Spec/WassersteinS.v over R):
   "for all v with is_bottleneck S T v ...".  C01 / C02 prove that the models of the code compute
   such a v, so the laws transfer; nothing here is bounded in the number of points.
   Only statements; every proof is `exact <lemma of Proofs/MetricLaws{B,W}.v>`. *)
From Coq Require Import List Permutation QArith Qreals Reals.
From Persim Require Import Spec.PartialMatching Spec.BottleneckS Spec.WassersteinS
  Model.MetricBruteM Proofs.MetricLawsW Proofs.MetricLawsB.
Import ListNotations.

(* ===================== bottleneck (rational spec) ===================== *)

(* the value is unique and exists for all diagrams, so no law below is vacuous *)
Theorem bottleneck_value_unique : forall S T v v',
  is_bottleneck S T v -> is_bottleneck S T v' -> (v == v')%Q.
Proof. exact B_unique. Qed.
Print Assumptions bottleneck_value_unique.

Theorem bottleneck_value_exists : forall S T, exists v, is_bottleneck S T v.
Proof. exact B_exists. Qed.
Print Assumptions bottleneck_value_exists.

(* the executable twin of the spec (explicit enumeration of all partial matchings) is the spec *)
Theorem bottleneck_brute_is_bottleneck : forall S T, is_bottleneck S T (bottleneck_brute S T).
Proof. exact brute_is_bottleneck. Qed.
Print Assumptions bottleneck_brute_is_bottleneck.

Theorem bottleneck_zero_on_permutation : forall S S', Permutation S S' -> is_bottleneck S S' 0%Q.
Proof. exact B_perm_zero. Qed.
Print Assumptions bottleneck_zero_on_permutation.

Theorem bottleneck_symmetric : forall S T v, is_bottleneck S T v -> is_bottleneck T S v.
Proof. exact B_sym. Qed.
Print Assumptions bottleneck_symmetric.

Theorem bottleneck_nonneg : forall S T v, is_bottleneck S T v -> (0 <= v)%Q.
Proof. exact B_nonneg. Qed.
Print Assumptions bottleneck_nonneg.

(* reordering a diagram does not change its distance to any other diagram *)
Theorem bottleneck_reorder_invariant : forall S S' T v v', Permutation S S' ->
  is_bottleneck S T v -> is_bottleneck S' T v' -> (v == v')%Q.
Proof. exact B_perm_invariant. Qed.
Print Assumptions bottleneck_reorder_invariant.

(* a diagonal point (x,x) inserted at any position of either diagram *)
Theorem bottleneck_diagonal_point_left : forall x S S' T v v', Permutation S' ((x, x) :: S) ->
  is_bottleneck S T v -> is_bottleneck S' T v' -> (v == v')%Q.
Proof. exact B_diag_point_l. Qed.
Print Assumptions bottleneck_diagonal_point_left.

Theorem bottleneck_diagonal_point_right : forall y S T T' v v', Permutation T' ((y, y) :: T) ->
  is_bottleneck S T v -> is_bottleneck S T' v' -> (v == v')%Q.
Proof. exact B_diag_point_r. Qed.
Print Assumptions bottleneck_diagonal_point_right.

(* any number of diagonal points inserted at any positions of both diagrams *)
Theorem bottleneck_diagonal_padding : forall Z1 Z2 S S' T T' v v', on_diagQ Z1 -> on_diagQ Z2 ->
  Permutation S' (Z1 ++ S) -> Permutation T' (Z2 ++ T) ->
  is_bottleneck S T v -> is_bottleneck S' T' v' -> (v == v')%Q.
Proof. exact B_diag_padding. Qed.
Print Assumptions bottleneck_diagonal_padding.

Theorem bottleneck_translation : forall c S T v, is_bottleneck S T v ->
  is_bottleneck (map (shiftQ c) S) (map (shiftQ c) T) v.
Proof. exact B_translate. Qed.
Print Assumptions bottleneck_translation.

Theorem bottleneck_scaling : forall c S T v, (0 <= c)%Q -> is_bottleneck S T v ->
  is_bottleneck (map (scaleQ c) S) (map (scaleQ c) T) (c * v)%Q.
Proof. exact B_scale. Qed.
Print Assumptions bottleneck_scaling.

(* against the empty diagram: largest persistence / 2 *)
Theorem bottleneck_vs_empty : forall S, is_bottleneck S [] (maxl (map persQ S) * (1#2))%Q.
Proof. exact B_empty. Qed.
Print Assumptions bottleneck_vs_empty.

(* T2 *)
Theorem bottleneck_triangle : forall A B C v1 v2 v3,
  is_bottleneck A B v1 -> is_bottleneck B C v2 -> is_bottleneck A C v3 -> (v3 <= v1 + v2)%Q.
Proof. exact B_triangle. Qed.
Print Assumptions bottleneck_triangle.

(* ===================== Wasserstein (real spec) ===================== *)

Theorem wasserstein_value_unique : forall S T v v',
  is_wasserstein S T v -> is_wasserstein S T v' -> v = v'.
Proof. exact W_unique. Qed.
Print Assumptions wasserstein_value_unique.

Theorem wasserstein_value_exists : forall S T, exists v, is_wasserstein S T v.
Proof. exact W_exists. Qed.
Print Assumptions wasserstein_value_exists.

Theorem wasserstein_zero_on_permutation : forall S S', wfdgmR S -> Permutation S S' -> is_wasserstein S S' 0%R.
Proof. exact W_perm_zero. Qed.
Print Assumptions wasserstein_zero_on_permutation.

Theorem wasserstein_symmetric : forall S T v, is_wasserstein S T v -> is_wasserstein T S v.
Proof. exact W_sym. Qed.
Print Assumptions wasserstein_symmetric.

Theorem wasserstein_nonneg : forall S T v, wfdgmR S -> wfdgmR T -> is_wasserstein S T v -> (0 <= v)%R.
Proof. exact W_nonneg. Qed.
Print Assumptions wasserstein_nonneg.

Theorem wasserstein_reorder_invariant : forall S S' T v v', wfdgmR S -> Permutation S S' ->
  is_wasserstein S T v -> is_wasserstein S' T v' -> v = v'.
Proof. exact W_perm_invariant. Qed.
Print Assumptions wasserstein_reorder_invariant.

Theorem wasserstein_diagonal_point_left : forall x S S' T v v', wfdgmR S -> Permutation S' ((x, x) :: S) ->
  is_wasserstein S T v -> is_wasserstein S' T v' -> v = v'.
Proof. exact W_diag_point_l. Qed.
Print Assumptions wasserstein_diagonal_point_left.

Theorem wasserstein_diagonal_point_right : forall y S T T' v v', wfdgmR T -> Permutation T' ((y, y) :: T) ->
  is_wasserstein S T v -> is_wasserstein S T' v' -> v = v'.
Proof. exact W_diag_point_r. Qed.
Print Assumptions wasserstein_diagonal_point_right.

Theorem wasserstein_diagonal_padding : forall Z1 Z2 S S' T T' v v', wfdgmR S -> wfdgmR T ->
  on_diagR Z1 -> on_diagR Z2 -> Permutation S' (Z1 ++ S) -> Permutation T' (Z2 ++ T) ->
  is_wasserstein S T v -> is_wasserstein S' T' v' -> v = v'.
Proof. exact W_diag_padding. Qed.
Print Assumptions wasserstein_diagonal_padding.

Theorem wasserstein_translation : forall c S T v, is_wasserstein S T v ->
  is_wasserstein (map (shiftR c) S) (map (shiftR c) T) v.
Proof. exact W_translate. Qed.
Print Assumptions wasserstein_translation.

Theorem wasserstein_scaling : forall c S T v, (0 <= c)%R -> is_wasserstein S T v ->
  is_wasserstein (map (scaleR c) S) (map (scaleR c) T) (c * v)%R.
Proof. exact W_scale. Qed.
Print Assumptions wasserstein_scaling.

(* against the empty diagram: total persistence / sqrt 2 *)
Theorem wasserstein_vs_empty : forall S, is_wasserstein S [] (sumRl (map persR S) / sqrt 2)%R.
Proof. exact W_empty. Qed.
Print Assumptions wasserstein_vs_empty.

(* T2; the middle diagram must lie on/above the diagonal (otherwise its diagonal costs are negative
   and the inequality is false: A = C = [], B = [(1,0)]) *)
Theorem wasserstein_triangle : forall A B C v1 v2 v3, wfdgmR B ->
  is_wasserstein A B v1 -> is_wasserstein B C v2 -> is_wasserstein A C v3 -> (v3 <= v1 + v2)%R.
Proof. exact W_triangle. Qed.
Print Assumptions wasserstein_triangle.

(* ===================== bottleneck <= Wasserstein ===================== *)
Theorem bottleneck_le_wasserstein : forall S T b w, wfdgm S -> wfdgm T ->
  is_bottleneck S T b -> is_wasserstein (injR S) (injR T) w -> (Q2R b <= w)%R.
Proof. exact B_le_W. Qed.
Print Assumptions bottleneck_le_wasserstein.

(* ===================== transfer to the code ===================== *)
(* Any function that returns the spec minimum on well-formed diagrams - this is what C01's
   bottleneck_correct and C02's wasserstein_correct establish for the models of the code - obeys all
   the laws, as equations / inequalities between its own values. *)
Theorem bottleneck_laws_transfer : forall bn : list qpoint -> list qpoint -> Q,
  (forall S T, wfdgm S -> wfdgm T -> is_bottleneck S T (bn S T)) ->
    (forall S T, wfdgm S -> wfdgm T -> bn S T == bn T S)%Q /\
    (forall S S', wfdgm S -> Permutation S S' -> bn S S' == 0)%Q /\
    (forall S T, wfdgm S -> wfdgm T -> 0 <= bn S T)%Q /\
    (forall A B C, wfdgm A -> wfdgm B -> wfdgm C -> bn A C <= bn A B + bn B C)%Q /\
    (forall S S' T T', wfdgm S -> wfdgm T -> Permutation S S' -> Permutation T T' -> bn S' T' == bn S T)%Q /\
    (forall Z1 Z2 S S' T T', wfdgm S -> wfdgm T -> on_diagQ Z1 -> on_diagQ Z2 ->
       Permutation S' (Z1 ++ S) -> Permutation T' (Z2 ++ T) -> bn S' T' == bn S T)%Q /\
    (forall c S T, wfdgm S -> wfdgm T -> bn (map (shiftQ c) S) (map (shiftQ c) T) == bn S T)%Q /\
    (forall c S T, (0 <= c)%Q -> wfdgm S -> wfdgm T ->
       bn (map (scaleQ c) S) (map (scaleQ c) T) == c * bn S T)%Q /\
    (forall S, wfdgm S -> bn S [] == maxl (map persQ S) * (1#2))%Q.
Proof. exact B_transfer. Qed.
Print Assumptions bottleneck_laws_transfer.

Theorem wasserstein_laws_transfer : forall wn : list rpoint -> list rpoint -> R,
  (forall S T, wfdgmR S -> wfdgmR T -> is_wasserstein S T (wn S T)) ->
    (forall S T, wfdgmR S -> wfdgmR T -> wn S T = wn T S) /\
    (forall S S', wfdgmR S -> Permutation S S' -> wn S S' = 0%R) /\
    (forall S T, wfdgmR S -> wfdgmR T -> (0 <= wn S T)%R) /\
    (forall A B C, wfdgmR A -> wfdgmR B -> wfdgmR C -> (wn A C <= wn A B + wn B C)%R) /\
    (forall Z1 Z2 S S' T T', wfdgmR S -> wfdgmR T -> on_diagR Z1 -> on_diagR Z2 ->
       Permutation S' (Z1 ++ S) -> Permutation T' (Z2 ++ T) -> wn S' T' = wn S T) /\
    (forall c S T, wfdgmR S -> wfdgmR T -> wn (map (shiftR c) S) (map (shiftR c) T) = wn S T) /\
    (forall c S T, (0 <= c)%R -> wfdgmR S -> wfdgmR T ->
       wn (map (scaleR c) S) (map (scaleR c) T) = (c * wn S T)%R) /\
    (forall S, wfdgmR S -> wn S [] = (sumRl (map persR S) / sqrt 2)%R).
Proof. exact W_transfer. Qed.
Print Assumptions wasserstein_laws_transfer.

Theorem bottleneck_le_wasserstein_transfer :
  forall (bn : list qpoint -> list qpoint -> Q) (wn : list rpoint -> list rpoint -> R),
  (forall S T, wfdgm S -> wfdgm T -> is_bottleneck S T (bn S T)) ->
  (forall S T, wfdgmR S -> wfdgmR T -> is_wasserstein S T (wn S T)) ->
  forall S T, wfdgm S -> wfdgm T -> (Q2R (bn S T) <= wn (injR S) (injR T))%R.
Proof. exact BW_transfer. Qed.
Print Assumptions bottleneck_le_wasserstein_transfer.

(* the hypothesis of bottleneck_laws_transfer is satisfiable: the brute-force twin is such a function *)
Example transfer_hypothesis_satisfiable :
  forall S T, wfdgm S -> wfdgm T -> is_bottleneck S T (bottleneck_brute S T).
Proof. intros S T _ _. apply brute_is_bottleneck. Qed.

(* ===================== non-vacuity ===================== *)
(* (existence theorems above make every `is_bottleneck` / `is_wasserstein` hypothesis satisfiable;
   the examples below exhibit concrete values, a diagonal point, a permutation, well-formedness) *)
Example bottleneck_example :
  exists v, is_bottleneck [(0, 2); (1, 5)]%Q [(0, 3)]%Q v /\ (v == 2)%Q.
Proof. eexists. split; [apply brute_is_bottleneck|vm_compute; reflexivity]. Qed.

Example bottleneck_diag_example :
  Permutation [(0, 2); (7, 7); (1, 5)]%Q ((7, 7) :: [(0, 2); (1, 5)])%Q /\
  exists v, is_bottleneck [(0, 2); (7, 7); (1, 5)]%Q [(0, 3)]%Q v /\ (v == 2)%Q.
Proof.
  split; [apply perm_swap|]. eexists. split; [apply brute_is_bottleneck|vm_compute; reflexivity].
Qed.

Example bottleneck_empty_example :
  is_bottleneck [(0, 2); (1, 5)]%Q [] (2#1)%Q /\ wfdgm [(0, 2); (1, 5)]%Q.
Proof.
  split.
  - destruct (B_empty [(0, 2); (1, 5)]%Q) as [[m [V E]] L]. split.
    + exists m. split; [exact V|]. rewrite E. vm_compute. reflexivity.
    + intros m' V'. eapply Qle_trans; [|apply (L m' V')]. vm_compute. discriminate.
  - intros p [H|[H|[]]]; subst p; simpl; discriminate.
Qed.

Example bottleneck_padding_example :
  on_diagQ [(7, 7); (3, 3)]%Q /\ on_diagQ [(1, 1)]%Q /\
  Permutation [(0, 2); (7, 7); (1, 5); (3, 3)]%Q ([(7, 7); (3, 3)] ++ [(0, 2); (1, 5)])%Q /\
  Permutation [(1, 1); (0, 3)]%Q ([(1, 1)] ++ [(0, 3)])%Q /\
  exists v, is_bottleneck [(0, 2); (7, 7); (1, 5); (3, 3)]%Q [(1, 1); (0, 3)]%Q v /\ (v == 2)%Q.
Proof.
  repeat split.
  - repeat constructor.
  - repeat constructor.
  - apply Permutation_trans with [(7, 7); (0, 2); (1, 5); (3, 3)]%Q; [apply perm_swap|].
    apply perm_skip. symmetry. apply (Permutation_middle [(0, 2); (1, 5)]%Q [] (3, 3)%Q).
  - apply Permutation_refl.
  - eexists. split; [apply brute_is_bottleneck|vm_compute; reflexivity].
Qed.

(* a triple on which the triangle inequality is tight: 0 -- 1 -- 2 *)
Example bottleneck_triangle_example :
  exists v1 v2 v3, is_bottleneck [(0, 4)]%Q [(1, 5)]%Q v1 /\ is_bottleneck [(1, 5)]%Q [(2, 6)]%Q v2 /\
    is_bottleneck [(0, 4)]%Q [(2, 6)]%Q v3 /\ (v3 == v1 + v2)%Q.
Proof.
  do 3 eexists. split; [apply brute_is_bottleneck|]. split; [apply brute_is_bottleneck|].
  split; [apply brute_is_bottleneck|]. vm_compute. reflexivity.
Qed.

Example wasserstein_example :
  wfdgmR [(0, 1); (2, 5)]%R /\ wfdgmR [(0, 2)]%R /\ exists v, is_wasserstein [(0, 1); (2, 5)]%R [(0, 2)]%R v.
Proof.
  split; [|split; [|apply W_exists]].
  - intros p [H|[H|[]]]; subst p; simpl; Lra.lra.
  - intros p [H|[]]; subst p; simpl; Lra.lra.
Qed.

Example bridge_example :
  wfdgm [(0, 2)]%Q /\ wfdgm [(0, 3)]%Q /\ (exists b, is_bottleneck [(0, 2)]%Q [(0, 3)]%Q b) /\
  (exists w, is_wasserstein (injR [(0, 2)]%Q) (injR [(0, 3)]%Q) w).
Proof.
  repeat split; try apply B_exists; try apply W_exists;
    intros p [H|[]]; subst p; simpl; discriminate.
Qed.

(* ===================== the laws as theorems about the MODELS of the code ===================== *)
(* (appended by b-c02)  The hypotheses of the three transfer theorems are discharged with the models of
   bottleneck.py (Model/BneckM.v, C01: bottleneck_correct) and wasserstein.py (Model/WassM.v, C02:
   wasserstein_correct): bn_model oracle S T / wn_model lsa S T are the numbers those models return on
   the diagrams S, T, for EVERY maximum-matching routine [oracle] and EVERY optimal-assignment solver
   [lsa] - i.e. for every hash seed and every tie-break.  Symmetry, zero on reorderings, non-negativity,
   the triangle inequality, reordering, diagonal padding, translation, scaling, the value against the empty
   diagram and bottleneck <= Wasserstein are therefore laws of what the modelled code returns. *)
From Persim Require Import Proofs.MetricInstP.
From Persim Require Model.BneckM Model.WassM Proofs.BneckOracleP.

(* bn_model is the model's return value, and it is the spec minimum *)
Theorem bottleneck_model_computes_spec : forall oracle, BneckM.max_matching_oracle oracle ->
  forall S T, wfdgm S -> wfdgm T ->
  BneckM.bottleneck_model oracle (map liftQ S) (map liftQ T) = Some (BneckM.CFin (bn_model oracle S T)) /\
  is_bottleneck S T (bn_model oracle S T).
Proof. exact bn_model_value. Qed.
Print Assumptions bottleneck_model_computes_spec.

Theorem bottleneck_model_laws : forall oracle, BneckM.max_matching_oracle oracle ->
  let bn := bn_model oracle in
    (forall S T, wfdgm S -> wfdgm T -> bn S T == bn T S)%Q /\
    (forall S S', wfdgm S -> Permutation S S' -> bn S S' == 0)%Q /\
    (forall S T, wfdgm S -> wfdgm T -> 0 <= bn S T)%Q /\
    (forall A B C, wfdgm A -> wfdgm B -> wfdgm C -> bn A C <= bn A B + bn B C)%Q /\
    (forall S S' T T', wfdgm S -> wfdgm T -> Permutation S S' -> Permutation T T' -> bn S' T' == bn S T)%Q /\
    (forall Z1 Z2 S S' T T', wfdgm S -> wfdgm T -> on_diagQ Z1 -> on_diagQ Z2 ->
       Permutation S' (Z1 ++ S) -> Permutation T' (Z2 ++ T) -> bn S' T' == bn S T)%Q /\
    (forall c S T, wfdgm S -> wfdgm T -> bn (map (shiftQ c) S) (map (shiftQ c) T) == bn S T)%Q /\
    (forall c S T, (0 <= c)%Q -> wfdgm S -> wfdgm T ->
       bn (map (scaleQ c) S) (map (scaleQ c) T) == c * bn S T)%Q /\
    (forall S, wfdgm S -> bn S [] == maxl (map persQ S) * (1#2))%Q.
Proof. exact bn_model_laws. Qed.
Print Assumptions bottleneck_model_laws.

(* a solver that returns an optimal assignment of every matrix exists, so the next theorems are not vacuous *)
Theorem wasserstein_solver_exists : exists lsa, lsa_optimal lsa.
Proof. exact lsa_optimal_exists. Qed.
Print Assumptions wasserstein_solver_exists.

(* wn_model is the model's return value (with and without the matching flag), and it is the spec minimum *)
Theorem wasserstein_model_computes_spec : forall lsa, lsa_optimal lsa -> forall (matching : bool) S T,
  WassM.w_dist (WassM.wasserstein lsa matching (map liftR S) (map liftR T)) = WassM.CFin (wn_model lsa S T) /\
  is_wasserstein S T (wn_model lsa S T).
Proof. exact wn_model_value. Qed.
Print Assumptions wasserstein_model_computes_spec.

Theorem wasserstein_model_laws : forall lsa, lsa_optimal lsa ->
  let wn := wn_model lsa in
    (forall S T, wfdgmR S -> wfdgmR T -> wn S T = wn T S) /\
    (forall S S', wfdgmR S -> Permutation S S' -> wn S S' = 0%R) /\
    (forall S T, wfdgmR S -> wfdgmR T -> (0 <= wn S T)%R) /\
    (forall A B C, wfdgmR A -> wfdgmR B -> wfdgmR C -> (wn A C <= wn A B + wn B C)%R) /\
    (forall Z1 Z2 S S' T T', wfdgmR S -> wfdgmR T -> on_diagR Z1 -> on_diagR Z2 ->
       Permutation S' (Z1 ++ S) -> Permutation T' (Z2 ++ T) -> wn S' T' = wn S T) /\
    (forall c S T, wfdgmR S -> wfdgmR T -> wn (map (shiftR c) S) (map (shiftR c) T) = wn S T) /\
    (forall c S T, (0 <= c)%R -> wfdgmR S -> wfdgmR T ->
       wn (map (scaleR c) S) (map (scaleR c) T) = (c * wn S T)%R) /\
    (forall S, wfdgmR S -> wn S [] = (sumRl (map persR S) / sqrt 2)%R).
Proof. exact wn_model_laws. Qed.
Print Assumptions wasserstein_model_laws.

Theorem bottleneck_le_wasserstein_models : forall oracle lsa, BneckM.max_matching_oracle oracle -> lsa_optimal lsa ->
  forall S T, wfdgm S -> wfdgm T -> (Q2R (bn_model oracle S T) <= wn_model lsa (injR S) (injR T))%R.
Proof. exact bn_le_wn_model. Qed.
Print Assumptions bottleneck_le_wasserstein_models.

(* non-vacuity: a maximum-matching routine exists, and the bottleneck model runs with it *)
Example model_hypotheses_satisfiable :
  (exists oracle, BneckM.max_matching_oracle oracle) /\ (exists lsa, lsa_optimal lsa).
Proof. split; [exact (ex_intro _ BneckOracleP.brute_oracle BneckOracleP.max_matching_oracle_exists)|exact lsa_optimal_exists]. Qed.
Example bn_model_runs : (bn_model BneckOracleP.brute_oracle [(0, 2); (1, 5)] [(0, 3)] == 2)%Q.
Proof. vm_compute. reflexivity. Qed.
