(* C11 - Persistence images are additive, order-free and call-style independent.
   Only statements here; every proof is `exact <lemma of Proofs/ImageP.v>`.
   Model: Model/ImageM.v (the same as C04).  Phi, Kgauss, user kernels and weights are
   universally quantified.  Kernel assumptions are explicit: `mono01 Phi` (norm_cdf is
   non-decreasing with values in [0,1]) and `kernel_assumption Kgauss k` (rectangle masses of a
   kernel called through the general path lie in [0,1]); they are PROVED below for product
   kernels with monotone marginals and for the uniform box kernel, and remain hypotheses for the
   correlated Gaussian. *)
From Coq Require Import Reals List Bool Permutation Lra.
From Persim Require Import Spec.ImageS Model.ImageM Proofs.ImageP.
Import ListNotations.
Open Scope R_scope.

Theorem transform_app : forall Phi Kgauss skew w k bp pp d1 d2,
  transform_one Phi Kgauss skew w k bp pp (d1 ++ d2)
  = img_add (transform_one Phi Kgauss skew w k bp pp d1) (transform_one Phi Kgauss skew w k bp pp d2).
Proof. exact transform_one_app. Qed.
Print Assumptions transform_app.

Theorem transform_perm : forall Phi Kgauss skew w k bp pp d1 d2, Permutation d1 d2 ->
  transform_one Phi Kgauss skew w k bp pp d1 = transform_one Phi Kgauss skew w k bp pp d2.
Proof. exact transform_one_perm. Qed.
Print Assumptions transform_perm.

(* a point whose weight (at its birth-persistence coordinates) is 0 can be dropped, wherever it is *)
Theorem zero_weight_neutral : forall Phi Kgauss skew w k bp pp d1 pt d2,
  w (fst (bp_of skew pt)) (snd (bp_of skew pt)) = 0 ->
  transform_one Phi Kgauss skew w k bp pp (d1 ++ pt :: d2) = transform_one Phi Kgauss skew w k bp pp (d1 ++ d2).
Proof. exact transform_one_zero_weight. Qed.
Print Assumptions zero_weight_neutral.

(* empty diagram: all-zero image of shape = resolution, through _transform and through the
   public dispatch (single empty diagram or empty collection), whatever n_jobs *)
Theorem transform_nil : forall Phi Kgauss pmap skew nj w k bp pp,
  let z := zeros (fst (resolution_of bp pp)) (snd (resolution_of bp pp)) in
  transform_one Phi Kgauss skew w k bp pp [] = z /\
  transform Phi Kgauss pmap skew nj w k bp pp (Single []) = OneImage z /\
  transform Phi Kgauss pmap skew nj w k bp pp (Collection []) = OneImage z /\
  Forall (Forall (fun v => v = 0)) z /\ length z = fst (resolution_of bp pp) /\
  Forall (fun r => length r = snd (resolution_of bp pp)) z.
Proof.
  intros. split; [apply transform_one_nil|]. split; [reflexivity|]. split; [reflexivity|].
  apply zeros_all_zero.
Qed.
Print Assumptions transform_nil.

(* a diagram passed alone gives the image that it gives inside a collection; a collection gives
   the images of its members, element-wise and in order.  pmap is joblib's Parallel; its
   contract (results in input order) is the hypothesis. *)
Theorem single_eq_collection : forall Phi Kgauss pmap, (forall f l, pmap f l = map f l) ->
  forall skew nj w k bp pp,
  (forall d, transform Phi Kgauss pmap skew nj w k bp pp (Single d)
             = OneImage (transform_one Phi Kgauss skew w k bp pp d)) /\
  (forall d, transform Phi Kgauss pmap skew nj w k bp pp (Collection [d])
             = Images [transform_one Phi Kgauss skew w k bp pp d]) /\
  (forall ds, ds <> [] -> transform Phi Kgauss pmap skew nj w k bp pp (Collection ds)
             = Images (map (transform_one Phi Kgauss skew w k bp pp) ds)).
Proof.
  intros Phi Kgauss pmap H skew nj w k bp pp. split; [|split].
  - intros d. apply transform_single, H.
  - intros d. apply (transform_collection Phi Kgauss pmap H). discriminate.
  - intros ds. apply transform_collection, H.
Qed.
Print Assumptions single_eq_collection.

(* serial vs parallel.  PARTIAL: the model has n_jobs only as the choice between `map` and the
   external `pmap`; that joblib returns the results in input order is assumed, and worker
   scheduling is runtime behaviour that no Gallina model exhibits (the tie runs
   n_jobs in {None,1,2,4} on the implementation and requires identical images). *)
Theorem parallel_eq_serial_partial : forall Phi Kgauss pmap, (forall f l, pmap f l = map f l) ->
  forall skew nj1 nj2 w k bp pp arg,
  transform Phi Kgauss pmap skew nj1 w k bp pp arg = transform Phi Kgauss pmap skew nj2 w k bp pp arg.
Proof. exact transform_njobs. Qed.
Print Assumptions parallel_eq_serial_partial.

Theorem skew_equiv : forall Phi Kgauss w k bp pp d,
  transform_one Phi Kgauss true w k bp pp d = transform_one Phi Kgauss false w k bp pp (map skew_point d).
Proof. exact transform_one_skew. Qed.
Print Assumptions skew_equiv.

Theorem pixels_nonneg : forall Phi Kgauss skew w k bp pp dgm,
  mono01 Phi -> kernel_assumption Kgauss k -> nondecr bp -> nondecr pp ->
  (forall q, In q dgm -> 0 <= w (fst (bp_of skew q)) (snd (bp_of skew q))) ->
  Forall (Forall (fun v => 0 <= v)) (transform_one Phi Kgauss skew w k bp pp dgm).
Proof. exact transform_one_nonneg. Qed.
Print Assumptions pixels_nonneg.

Theorem pixel_total_le_weight : forall Phi Kgauss skew w k bp pp dgm,
  mono01 Phi -> kernel_assumption Kgauss k -> nondecr bp -> nondecr pp ->
  (forall q, In q dgm -> 0 <= w (fst (bp_of skew q)) (snd (bp_of skew q))) ->
  0 <= img_total (transform_one Phi Kgauss skew w k bp pp dgm) <= total_weight w (to_birth_pers skew dgm).
Proof. exact transform_one_total. Qed.
Print Assumptions pixel_total_le_weight.

(* the inclusion-exclusion sums telescope: the pixels of one kernel add up to the mass of the
   whole imaged region *)
Theorem pixel_sums_telescope : forall F bp pp,
  img_total (tab (mass F) bp pp) = mass F (span bp) (span pp).
Proof. exact total_mass. Qed.
Print Assumptions pixel_sums_telescope.

(* the kernel assumptions hold for every product of non-decreasing [0,1]-valued marginals
   (axis-aligned Gaussian, any sbvn-like kernel) and for the uniform box kernel *)
Theorem product_kernels_valid : forall G H : R -> R -> R,
  (forall m, mono01 (G m)) -> (forall m, mono01 (H m)) ->
  mass_nonneg (fun mb mp x y => G mb x * H mp y) /\ mass_le_one (fun mb mp x y => G mb x * H mp y).
Proof. exact product_kernel_mass. Qed.
Print Assumptions product_kernels_valid.

Theorem uniform_kernel_valid : forall width height, 0 < width -> 0 < height ->
  mass_nonneg (uniform_kernel width height) /\ mass_le_one (uniform_kernel width height).
Proof. exact uniform_kernel_mass. Qed.
Print Assumptions uniform_kernel_valid.

(* non-vacuity: the hypotheses of pixels_nonneg / pixel_total_le_weight are satisfiable *)
Example c11_hyp_satisfiable :
  mono01 (fun x => if Rle_dec 0 x then 1 else 0) /\ kernel_assumption (fun _ _ _ _ _ _ _ => 0) (GaussScalar 1) /\
  nondecr [0; 1; 2] /\ (forall q, In q [(0, 1)] -> 0 <= persistence_nat 1 (fst (bp_of true q)) (snd (bp_of true q))).
Proof.
  split; [|split; [exact I|split]].
  - split.
    + intros x y Hxy. destruct (Rle_dec 0 x); destruct (Rle_dec 0 y); lra.
    + intros x. destruct (Rle_dec 0 x); lra.
  - simpl. lra.
  - intros q [<-|[]]. unfold persistence_nat. simpl. lra.
Qed.

(* =============================================================================================
   Cross-property glue (lemmas in Proofs/ImageGlueP.v): C13 -> C11 and C12 -> C11.
   `kernel_assumption` / `mono01 Phi` above are hypotheses on abstract kernels; here they are DISCHARGED for
   the kernel models of persim/images_kernels.py (Model/KernelM.v, C13) as images.py calls them
   (Model/ImageKernelM.v), and the mesh hypotheses `nondecr` for the meshes of C12's imager states. *)
From Coq Require Import ZArith QArith Qreals Lia.
From Persim Require Model.ImagerM Proofs.ImagerP Model.KernelM Spec.BvnS Model.ImageKernelM Proofs.ImageGlueP.
Open Scope R_scope.

(* C13's `cdf_like` and this file's `mono01` are one notion *)
Theorem cdf_like_iff_mono01 : forall Phi, BvnS.cdf_like Phi <-> mono01 Phi.
Proof. exact ImageGlueP.cdf_like_mono01. Qed.
Print Assumptions cdf_like_iff_mono01.

(* H3 (b): kernel = images_kernels.uniform with any width, height > 0 (C13: uniform_is_box_cdf; above:
   uniform_kernel_valid).  Nothing is assumed of Phi / Kgauss: a callable kernel never meets them. *)
Theorem image_nonneg_uniform : forall Phi Kgauss skew w width height bp pp dgm,
  0 < width -> 0 < height -> nondecr bp -> nondecr pp ->
  (forall q, In q dgm -> 0 <= w (fst (bp_of skew q)) (snd (bp_of skew q))) ->
  Forall (Forall (fun v => 0 <= v))
         (transform_one Phi Kgauss skew w (OtherKernel (ImageKernelM.uniform_kernelM width height)) bp pp dgm).
Proof. exact ImageGlueP.image_nonneg_unif. Qed.
Print Assumptions image_nonneg_uniform.

Theorem image_total_le_weight_uniform : forall Phi Kgauss skew w width height bp pp dgm,
  0 < width -> 0 < height -> nondecr bp -> nondecr pp ->
  (forall q, In q dgm -> 0 <= w (fst (bp_of skew q)) (snd (bp_of skew q))) ->
  0 <= img_total (transform_one Phi Kgauss skew w (OtherKernel (ImageKernelM.uniform_kernelM width height)) bp pp dgm)
    <= total_weight w (to_birth_pers skew dgm).
Proof. exact ImageGlueP.image_total_unif. Qed.
Print Assumptions image_total_le_weight_uniform.

(* H3 (a): kernel = images_kernels.gaussian (model of C13, either reading of line 173) with sigma =
   [[sxx, 0], [0, syy]], for EVERY Phi that is non-decreasing with values in [0,1] (C13:
   gaussian_zero_cov_is_product; above: product_kernels_valid).  sxx = syy takes the fast path, sxx <> syy
   the general path; both are covered. *)
Theorem image_nonneg_gaussian_zero_cov : forall thr Phi skew w sxx syy bp pp dgm,
  mono01 Phi -> nondecr bp -> nondecr pp ->
  (forall q, In q dgm -> 0 <= w (fst (bp_of skew q)) (snd (bp_of skew q))) ->
  Forall (Forall (fun v => 0 <= v))
         (transform_one Phi (ImageKernelM.gaussian_kernelM_gen thr Phi) skew w (GaussMatrix sxx 0 syy) bp pp dgm).
Proof. exact ImageGlueP.image_nonneg_gauss. Qed.
Print Assumptions image_nonneg_gaussian_zero_cov.

Theorem image_total_le_weight_gaussian_zero_cov : forall thr Phi skew w sxx syy bp pp dgm,
  mono01 Phi -> nondecr bp -> nondecr pp ->
  (forall q, In q dgm -> 0 <= w (fst (bp_of skew q)) (snd (bp_of skew q))) ->
  0 <= img_total (transform_one Phi (ImageKernelM.gaussian_kernelM_gen thr Phi) skew w (GaussMatrix sxx 0 syy) bp pp dgm)
    <= total_weight w (to_birth_pers skew dgm).
Proof. exact ImageGlueP.image_total_gauss. Qed.
Print Assumptions image_total_le_weight_gaussian_zero_cov.

(* the kernel hypotheses themselves, for the record: what the four theorems above feed to pixels_nonneg /
   pixel_total_le_weight *)
Theorem kernelM_assumptions_hold : forall thr Phi sxx syy width height,
  (mono01 Phi -> kernel_assumption (ImageKernelM.gaussian_kernelM_gen thr Phi) (GaussMatrix sxx 0 syy)) /\
  (0 < width -> 0 < height ->
   forall Kgauss, kernel_assumption Kgauss (OtherKernel (ImageKernelM.uniform_kernelM width height))) /\
  ImageKernelM.uniform_kernelM width height = uniform_kernel width height /\
  (0 < width -> 0 < height -> forall mb mp x y,
   ImageKernelM.uniform_kernelM width height mb mp x y = BvnS.box_cdf mb mp width height x y).
Proof.
  intros. split; [apply ImageGlueP.gaussian_kernelM_assumption|]. split.
  - intros W H Kg. exact (ImageGlueP.uniform_kernelM_mass width height W H).
  - split; [reflexivity|]. intros. apply ImageGlueP.uniform_kernelM_is_box_cdf; assumption.
Qed.
Print Assumptions kernelM_assumptions_hold.

(* C12 -> C11: on the meshes of ANY consistent imager state the mesh hypotheses hold, so for every kernel
   configuration meeting kernel_assumption the image is non-negative and its total at most the total weight *)
Theorem pixels_nonneg_on_imager_state : forall (s : ImagerM.state ImagerM.QNum) Phi Kgauss skew w k dgm,
  ImagerP.Inv s -> mono01 Phi -> kernel_assumption Kgauss k ->
  (forall q, In q dgm -> 0 <= w (fst (bp_of skew q)) (snd (bp_of skew q))) ->
  let img := transform_one Phi Kgauss skew w k (map Q2R (ImagerM.bpnts s)) (map Q2R (ImagerM.ppnts s)) dgm in
  Forall (Forall (fun v => 0 <= v)) img /\
  0 <= img_total img <= total_weight w (to_birth_pers skew dgm).
Proof. exact ImageGlueP.image_nonneg_total_on_state. Qed.
Print Assumptions pixels_nonneg_on_imager_state.

(* H4: with the uniform kernel model every pixel is the weighted AREA FRACTION of the kernel box (centred at the
   point, width x height) that falls into the pixel: overlap a b x0 x1 = length of [a,b] /\ [x0,x1] *)
Theorem uniform_pixel_is_area_fraction : forall Phi Kgauss skew w width height bp pp dgm i j,
  0 < width -> 0 < height -> nondecr bp -> nondecr pp -> (S i < length bp)%nat -> (S j < length pp)%nat ->
  nth j (nth i (transform_one Phi Kgauss skew w (OtherKernel (ImageKernelM.uniform_kernelM width height)) bp pp dgm) []) 0
  = sumR (map (fun pt => w (fst pt) (snd pt) *
                 (Rmax 0 (Rmin (fst pt + width / 2) (nth (S i) bp 0) - Rmax (fst pt - width / 2) (nth i bp 0)) *
                  Rmax 0 (Rmin (snd pt + height / 2) (nth (S j) pp 0) - Rmax (snd pt - height / 2) (nth j pp 0))
                  / (width * height)))
              (to_birth_pers skew dgm)).
Proof. exact ImageGlueP.uniform_pixel_area. Qed.
Print Assumptions uniform_pixel_is_area_fraction.

(* H4: the equality case of pixel_total_le_weight (via pixel_sums_telescope): when every kernel box lies inside
   the imaged region span bp x span pp no weight is lost - for any mesh, and for the mesh of a consistent
   imager state, whose region is [blo, bhi] x [plo, phi] *)
Theorem uniform_mass_conserved : forall Phi Kgauss skew w width height bp pp dgm,
  0 < width -> 0 < height ->
  (forall pt, In pt (to_birth_pers skew dgm) ->
     fst (span bp) <= fst pt - width / 2 /\ fst pt + width / 2 <= snd (span bp) /\
     fst (span pp) <= snd pt - height / 2 /\ snd pt + height / 2 <= snd (span pp)) ->
  img_total (transform_one Phi Kgauss skew w (OtherKernel (ImageKernelM.uniform_kernelM width height)) bp pp dgm)
  = total_weight w (to_birth_pers skew dgm).
Proof. exact ImageGlueP.uniform_mass_conserved. Qed.
Print Assumptions uniform_mass_conserved.

Theorem uniform_mass_conserved_on_imager_state : forall (s : ImagerM.state ImagerM.QNum) Phi Kgauss skew w width height dgm,
  ImagerP.Inv s -> 0 < width -> 0 < height ->
  (forall pt, In pt (to_birth_pers skew dgm) ->
     Q2R (ImagerM.blo s) <= fst pt - width / 2 /\ fst pt + width / 2 <= Q2R (ImagerM.bhi s) /\
     Q2R (ImagerM.plo s) <= snd pt - height / 2 /\ snd pt + height / 2 <= Q2R (ImagerM.phi s)) ->
  img_total (transform_one Phi Kgauss skew w (OtherKernel (ImageKernelM.uniform_kernelM width height))
                           (map Q2R (ImagerM.bpnts s)) (map Q2R (ImagerM.ppnts s)) dgm)
  = total_weight w (to_birth_pers skew dgm).
Proof. exact ImageGlueP.uniform_mass_conserved_on_state. Qed.
Print Assumptions uniform_mass_conserved_on_imager_state.

(* non-vacuity: the hypotheses of the H3 theorems are satisfiable (a step function for Phi, a 2 x 2 mesh, the
   persistence weight) ... *)
Example kernelM_hyp_satisfiable :
  mono01 (fun x => if Rle_dec 0 x then 1 else 0) /\ 0 < 1 / 2 /\ nondecr [0; 1; 2] /\
  (forall q, In q [(0, 1)] -> 0 <= persistence_nat 1 (fst (bp_of true q)) (snd (bp_of true q))).
Proof.
  split; [|split; [lra|split]].
  - split.
    + intros x y Hxy. destruct (Rle_dec 0 x); destruct (Rle_dec 0 y); lra.
    + intros x. destruct (Rle_dec 0 x); lra.
  - simpl. lra.
  - intros q [<-|[]]. unfold persistence_nat. simpl. lra.
Qed.

(* ... of uniform_mass_conserved too, and its conclusion is not 0 = 0: one point of weight 3 at (1, 1) with a
   1/2 x 1/2 box on the mesh [0;1;2] x [0;1;2] - the box straddles all four pixels, the image total is 3 *)
Example uniform_mass_conserved_instance : forall Phi Kgauss,
  img_total (transform_one Phi Kgauss false (fun _ _ => 3) (OtherKernel (ImageKernelM.uniform_kernelM (1 / 2) (1 / 2)))
                           [0; 1; 2] [0; 1; 2] [(1, 1)]) = 3.
Proof.
  intros. rewrite uniform_mass_conserved.
  - unfold total_weight. simpl. lra.
  - lra.
  - lra.
  - intros pt [<-|[]]. unfold span. simpl. lra.
Qed.

(* ... and uniform_pixel_is_area_fraction on the same input: pixel (0,0) holds a quarter of the weight *)
Example uniform_pixel_is_area_fraction_instance : forall Phi Kgauss,
  nth 0 (nth 0 (transform_one Phi Kgauss false (fun _ _ => 3) (OtherKernel (ImageKernelM.uniform_kernelM (1 / 2) (1 / 2)))
                              [0; 1; 2] [0; 1; 2] [(1, 1)]) []) 0 = 3 / 4.
Proof.
  intros. rewrite uniform_pixel_is_area_fraction; try lra; try (simpl; lia); try (simpl; lra).
  cbn [to_birth_pers map sumR fold_right fst snd nth].
  replace (Rmin (1 + 1 / 2 / 2) 1) with 1 by (unfold Rmin; destruct Rle_dec; lra).
  replace (Rmax (1 - 1 / 2 / 2) 0) with (3 / 4) by (unfold Rmax; destruct Rle_dec; lra).
  replace (Rmax 0 (1 - 3 / 4)) with (1 / 4) by (unfold Rmax; destruct Rle_dec; lra).
  lra.
Qed.

(* non-negativity needs only that Phi is NON-DECREASING (no range assumption): kernel = gaussian with a scalar
   sigma or a 2x2 sigma with zero covariance, kernel model of C13 (either reading of line 173) *)
Theorem image_nonneg_gaussian_monotone_Phi : forall thr Phi skew w k bp pp dgm,
  (forall a b, a <= b -> Phi a <= Phi b) ->
  match k with GaussScalar _ => True | GaussMatrix _ sxy _ => sxy = 0 | OtherKernel _ => False end ->
  nondecr bp -> nondecr pp ->
  (forall q, In q dgm -> 0 <= w (fst (bp_of skew q)) (snd (bp_of skew q))) ->
  Forall (Forall (fun v => 0 <= v))
         (transform_one Phi (ImageKernelM.gaussian_kernelM_gen thr Phi) skew w k bp pp dgm).
Proof. exact ImageGlueP.image_nonneg_monotone. Qed.
Print Assumptions image_nonneg_gaussian_monotone_Phi.

(* ... hence, with C13's normal_cdf_integral_monotone, it holds with NO hypothesis on Phi for the objects the
   ties of C04 / C11 run inside Coq (Corr/ImageCorr.v): PhiI = the normal CDF as an integral = BvnS.Phi_int,
   KgI = the Gaussian kernel model on PhiI, KuI = the uniform kernel model *)
From Persim Require Corr.ImageCorr Proofs.ImageGlueRunP.
Theorem run_instances_are_kernel_models :
  ImageCorr.KgI = ImageKernelM.gaussian_kernelM ImageCorr.PhiI /\
  ImageCorr.KuI = ImageKernelM.uniform_kernelM /\
  (forall x, ImageCorr.PhiI x = BvnS.Phi_int x).
Proof. exact ImageGlueRunP.run_instances. Qed.
Print Assumptions run_instances_are_kernel_models.

Theorem image_nonneg_run_instance : forall skew w k bp pp dgm,
  match k with GaussScalar _ => True | GaussMatrix _ sxy _ => sxy = 0 | OtherKernel _ => False end ->
  nondecr bp -> nondecr pp ->
  (forall q, In q dgm -> 0 <= w (fst (bp_of skew q)) (snd (bp_of skew q))) ->
  Forall (Forall (fun v => 0 <= v)) (transform_one ImageCorr.PhiI ImageCorr.KgI skew w k bp pp dgm).
Proof. exact ImageGlueRunP.image_nonneg_run. Qed.
Print Assumptions image_nonneg_run_instance.

(* non-vacuity: BvnS.Phi_int meets the monotonicity hypothesis (C13), GaussMatrix 1 0 2 the configuration one *)
Example image_nonneg_gaussian_monotone_Phi_hyp_satisfiable :
  (forall a b, a <= b -> BvnS.Phi_int a <= BvnS.Phi_int b) /\
  match GaussMatrix 1 0 2 with GaussScalar _ => True | GaussMatrix _ sxy _ => sxy = 0 | OtherKernel _ => False end.
Proof. split; [exact KernelP.Phi_int_mono|reflexivity]. Qed.

(* H4: where the weight of ONE point goes.  On a consistent imager state, with kernel = images_kernels.uniform of
   width, height <= 2 pixel sizes: a point lying in the square of pixel (i, j) contributes NOTHING to any pixel
   outside the 3 x 3 block around (i, j); with uniform_mass_conserved_on_imager_state its whole weight is in that
   block whenever its box lies inside the covered region *)
Theorem uniform_point_localised_on_imager_state :
  forall (s : ImagerM.state ImagerM.QNum) Phi Kgauss w width height (pt : point) i j i' j',
  ImagerP.Inv s -> 0 < width -> 0 < height ->
  width <= 2 * Q2R (ImagerM.psz s) -> height <= 2 * Q2R (ImagerM.psz s) ->
  let ps := Q2R (ImagerM.psz s) in let b0 := Q2R (ImagerM.blo s) in let p0 := Q2R (ImagerM.plo s) in
  b0 + INR i * ps <= fst pt < b0 + (INR i + 1) * ps -> p0 + INR j * ps <= snd pt < p0 + (INR j + 1) * ps ->
  (Z.of_nat i' < ImagerM.resw s)%Z -> (Z.of_nat j' < ImagerM.resh s)%Z ->
  (i' + 2 <= i \/ i + 2 <= i')%nat \/ (j' + 2 <= j \/ j + 2 <= j')%nat ->
  nth j' (nth i' (transform_one Phi Kgauss false w (OtherKernel (ImageKernelM.uniform_kernelM width height))
                    (map Q2R (ImagerM.bpnts s)) (map Q2R (ImagerM.ppnts s)) [pt]) []) 0 = 0.
Proof. exact ImageGlueP.uniform_point_localised. Qed.
Print Assumptions uniform_point_localised_on_imager_state.

(* non-vacuity: on the constructor's 4 x 4 state (0,1) x (0,1), ps = 1/4, the point (3/8, 3/8) lies in pixel (1,1),
   a 1/4 x 1/4 box is allowed, and pixel (3,0) is outside the block *)
Example uniform_point_localised_hyp_satisfiable :
  let s := (ImagerM.ctor ImagerM.QNum 0 1 0 1 (1 # 4))%Q in
  ImagerP.Inv s /\ (ImagerM.resw s, ImagerM.resh s) = (4, 4)%Z /\
  1 / 4 <= 2 * Q2R (ImagerM.psz s) /\
  Q2R (ImagerM.blo s) + INR 1 * Q2R (ImagerM.psz s) <= 3 / 8 < Q2R (ImagerM.blo s) + (INR 1 + 1) * Q2R (ImagerM.psz s) /\
  ((3 + 2 <= 1 \/ 1 + 2 <= 3)%nat \/ (0 + 2 <= 1 \/ 1 + 2 <= 0)%nat).
Proof.
  intros s.
  assert (E0 : Q2R (ImagerM.blo s) = 0).
  { transitivity (Q2R 0); [apply Qeq_eqR; vm_compute; reflexivity|apply ImageGlueP.Q2R_0g]. }
  assert (E2 : Q2R (ImagerM.psz s) = 1 / 4) by (unfold Q2R; simpl; lra).
  split; [apply ImagerP.ctor_inv; unfold Qlt, Qle; cbn; lia|].
  split; [vm_compute; reflexivity|]. rewrite E0, E2. simpl INR. split; [lra|]. split; [lra|]. left. right. lia.
Qed.
