(* C11 - Persistence images are additive, order-free and call-style independent.
   Only statements here; every proof is `exact <lemma of Proofs/ImageP.v>`.
   Model: Model/ImageM.v (the same as C04).  Phi, Kgauss, user kernels and weights are
   universally quantified.  Kernel assumptions are explicit: `mono01 Phi` (norm_cdf is
   non-decreasing with values in [0,1]) and `kernel_assumption Kgauss k` (rectangle masses of a
   kernel called through the general path lie in [0,1]); they are PROVED below for product
   kernels with monotone marginals and for the uniform box kernel, and remain hypotheses for the
   correlated Gaussian. *)
From Coq Require Import Reals List Bool Permutation Lra.
From Persim Require Import Spec.ImageS Model.ImageM Proofs.ImageP.
Import ListNotations.
Open Scope R_scope.

Theorem transform_app : forall Phi Kgauss skew w k bp pp d1 d2,
  transform_one Phi Kgauss skew w k bp pp (d1 ++ d2)
  = img_add (transform_one Phi Kgauss skew w k bp pp d1) (transform_one Phi Kgauss skew w k bp pp d2).
Proof. exact transform_one_app. Qed.
Print Assumptions transform_app.

Theorem transform_perm : forall Phi Kgauss skew w k bp pp d1 d2, Permutation d1 d2 ->
  transform_one Phi Kgauss skew w k bp pp d1 = transform_one Phi Kgauss skew w k bp pp d2.
Proof. exact transform_one_perm. Qed.
Print Assumptions transform_perm.

(* a point whose weight (at its birth-persistence coordinates) is 0 can be dropped, wherever it is *)
Theorem zero_weight_neutral : forall Phi Kgauss skew w k bp pp d1 pt d2,
  w (fst (bp_of skew pt)) (snd (bp_of skew pt)) = 0 ->
  transform_one Phi Kgauss skew w k bp pp (d1 ++ pt :: d2) = transform_one Phi Kgauss skew w k bp pp (d1 ++ d2).
Proof. exact transform_one_zero_weight. Qed.
Print Assumptions zero_weight_neutral.

(* empty diagram: all-zero image of shape = resolution, through _transform and through the
   public dispatch (single empty diagram or empty collection), whatever n_jobs *)
Theorem transform_nil : forall Phi Kgauss pmap skew nj w k bp pp,
  let z := zeros (fst (resolution_of bp pp)) (snd (resolution_of bp pp)) in
  transform_one Phi Kgauss skew w k bp pp [] = z /\
  transform Phi Kgauss pmap skew nj w k bp pp (Single []) = OneImage z /\
  transform Phi Kgauss pmap skew nj w k bp pp (Collection []) = OneImage z /\
  Forall (Forall (fun v => v = 0)) z /\ length z = fst (resolution_of bp pp) /\
  Forall (fun r => length r = snd (resolution_of bp pp)) z.
Proof.
  intros. split; [apply transform_one_nil|]. split; [reflexivity|]. split; [reflexivity|].
  apply zeros_all_zero.
Qed.
Print Assumptions transform_nil.

(* a diagram passed alone gives the image that it gives inside a collection; a collection gives
   the images of its members, element-wise and in order.  pmap is joblib's Parallel; its
   contract (results in input order) is the hypothesis. *)
Theorem single_eq_collection : forall Phi Kgauss pmap, (forall f l, pmap f l = map f l) ->
  forall skew nj w k bp pp,
  (forall d, transform Phi Kgauss pmap skew nj w k bp pp (Single d)
             = OneImage (transform_one Phi Kgauss skew w k bp pp d)) /\
  (forall d, transform Phi Kgauss pmap skew nj w k bp pp (Collection [d])
             = Images [transform_one Phi Kgauss skew w k bp pp d]) /\
  (forall ds, ds <> [] -> transform Phi Kgauss pmap skew nj w k bp pp (Collection ds)
             = Images (map (transform_one Phi Kgauss skew w k bp pp) ds)).
Proof.
  intros Phi Kgauss pmap H skew nj w k bp pp. split; [|split].
  - intros d. apply transform_single, H.
  - intros d. apply (transform_collection Phi Kgauss pmap H). discriminate.
  - intros ds. apply transform_collection, H.
Qed.
Print Assumptions single_eq_collection.

(* serial vs parallel.  PARTIAL: the model has n_jobs only as the choice between `map` and the
   external `pmap`; that joblib returns the results in input order is assumed, and worker
   scheduling is runtime behaviour that no Gallina model exhibits (the tie runs
   n_jobs in {None,1,2,4} on the implementation and requires identical images). *)
Theorem parallel_eq_serial_partial : forall Phi Kgauss pmap, (forall f l, pmap f l = map f l) ->
  forall skew nj1 nj2 w k bp pp arg,
  transform Phi Kgauss pmap skew nj1 w k bp pp arg = transform Phi Kgauss pmap skew nj2 w k bp pp arg.
Proof. exact transform_njobs. Qed.
Print Assumptions parallel_eq_serial_partial.

Theorem skew_equiv : forall Phi Kgauss w k bp pp d,
  transform_one Phi Kgauss true w k bp pp d = transform_one Phi Kgauss false w k bp pp (map skew_point d).
Proof. exact transform_one_skew. Qed.
Print Assumptions skew_equiv.

Theorem pixels_nonneg : forall Phi Kgauss skew w k bp pp dgm,
  mono01 Phi -> kernel_assumption Kgauss k -> nondecr bp -> nondecr pp ->
  (forall q, In q dgm -> 0 <= w (fst (bp_of skew q)) (snd (bp_of skew q))) ->
  Forall (Forall (fun v => 0 <= v)) (transform_one Phi Kgauss skew w k bp pp dgm).
Proof. exact transform_one_nonneg. Qed.
Print Assumptions pixels_nonneg.

Theorem pixel_total_le_weight : forall Phi Kgauss skew w k bp pp dgm,
  mono01 Phi -> kernel_assumption Kgauss k -> nondecr bp -> nondecr pp ->
  (forall q, In q dgm -> 0 <= w (fst (bp_of skew q)) (snd (bp_of skew q))) ->
  0 <= img_total (transform_one Phi Kgauss skew w k bp pp dgm) <= total_weight w (to_birth_pers skew dgm).
Proof. exact transform_one_total. Qed.
Print Assumptions pixel_total_le_weight.

(* the inclusion-exclusion sums telescope: the pixels of one kernel add up to the mass of the
   whole imaged region *)
Theorem pixel_sums_telescope : forall F bp pp,
  img_total (tab (mass F) bp pp) = mass F (span bp) (span pp).
Proof. exact total_mass. Qed.
Print Assumptions pixel_sums_telescope.

(* the kernel assumptions hold for every product of non-decreasing [0,1]-valued marginals
   (axis-aligned Gaussian, any sbvn-like kernel) and for the uniform box kernel *)
Theorem product_kernels_valid : forall G H : R -> R -> R,
  (forall m, mono01 (G m)) -> (forall m, mono01 (H m)) ->
  mass_nonneg (fun mb mp x y => G mb x * H mp y) /\ mass_le_one (fun mb mp x y => G mb x * H mp y).
Proof. exact product_kernel_mass. Qed.
Print Assumptions product_kernels_valid.

Theorem uniform_kernel_valid : forall width height, 0 < width -> 0 < height ->
  mass_nonneg (uniform_kernel width height) /\ mass_le_one (uniform_kernel width height).
Proof. exact uniform_kernel_mass. Qed.
Print Assumptions uniform_kernel_valid.

(* non-vacuity: the hypotheses of pixels_nonneg / pixel_total_le_weight are satisfiable *)
Example c11_hyp_satisfiable :
  mono01 (fun x => if Rle_dec 0 x then 1 else 0) /\ kernel_assumption (fun _ _ _ _ _ _ _ => 0) (GaussScalar 1) /\
  nondecr [0; 1; 2] /\ (forall q, In q [(0, 1)] -> 0 <= persistence_nat 1 (fst (bp_of true q)) (snd (bp_of true q))).
Proof.
  split; [|split; [exact I|split]].
  - split.
    + intros x y Hxy. destruct (Rle_dec 0 x); destruct (Rle_dec 0 y); lra.
    + intros x. destruct (Rle_dec 0 x); lra.
  - simpl. lra.
  - intros q [<-|[]]. unfold persistence_nat. simpl. lra.
Qed.
