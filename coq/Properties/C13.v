(* C13 - Gaussian / uniform kernels are valid, accurate cumulative distribution functions.
   Only statements here; every proof is `exact <lemma of Proofs/KernelP.v, Proofs/BvnP.v>`.
   Model: Model/KernelM.v (images_kernels.py).  Phi stands for scipy's normal CDF
   (erfc(-x/sqrt 2)/2); it is universally quantified under `cdf_like` (non-decreasing, values in
   [0,1]) and `tails_0_1` (limits 0 and 1).  `bvn_ref` is Plackett's integral (Spec/BvnS.v). *)
From Coq Require Import Reals List Lra.
From Coquelicot Require Import Coquelicot.
From Persim Require Import Model.KernelM Spec.BvnS Proofs.KernelP Proofs.BvnP.
Import ListNotations.
Open Scope R_scope.

(* ---- uniform kernel = CDF of the uniform distribution on the box centred at mu -------------- *)
Theorem uniform_is_box_cdf : forall mx my w h x y, 0 < w -> 0 < h ->
  uniform_cdf (mx, my) w h x y = box_cdf mx my w h x y.
Proof. exact uniform_eq_box. Qed.
Print Assumptions uniform_is_box_cdf.

Theorem uniform_in_unit_interval : forall mx my w h x y, 0 < w -> 0 < h ->
  0 <= uniform_cdf (mx, my) w h x y <= 1.
Proof. exact uniform_range. Qed.
Print Assumptions uniform_in_unit_interval.

Theorem uniform_monotone_x : forall mx my w h x1 x2 y, 0 < w -> 0 < h -> x1 <= x2 ->
  uniform_cdf (mx, my) w h x1 y <= uniform_cdf (mx, my) w h x2 y.
Proof. exact uniform_mono_x. Qed.
Print Assumptions uniform_monotone_x.

Theorem uniform_monotone_y : forall mx my w h x y1 y2, 0 < w -> 0 < h -> y1 <= y2 ->
  uniform_cdf (mx, my) w h x y1 <= uniform_cdf (mx, my) w h x y2.
Proof. exact uniform_mono_y. Qed.
Print Assumptions uniform_monotone_y.

Theorem uniform_rectangle_mass_nonneg : forall mx my w h x1 x2 y1 y2, 0 < w -> 0 < h -> x1 <= x2 -> y1 <= y2 ->
  0 <= uniform_cdf (mx, my) w h x2 y2 - uniform_cdf (mx, my) w h x1 y2
       - uniform_cdf (mx, my) w h x2 y1 + uniform_cdf (mx, my) w h x1 y1.
Proof. exact uniform_rect. Qed.
Print Assumptions uniform_rectangle_mass_nonneg.

Theorem uniform_zero_left_or_below : forall mx my w h x y, 0 < w -> 0 < h ->
  x <= mx - w / 2 \/ y <= my - h / 2 -> uniform_cdf (mx, my) w h x y = 0.
Proof. exact uniform_zero_outside. Qed.
Print Assumptions uniform_zero_left_or_below.

Theorem uniform_one_right_and_above : forall mx my w h x y, 0 < w -> 0 < h ->
  mx + w / 2 <= x -> my + h / 2 <= y -> uniform_cdf (mx, my) w h x y = 1.
Proof. exact uniform_one_beyond. Qed.
Print Assumptions uniform_one_right_and_above.

(* ---- dispatch: zero covariance = product of the two marginals ------------------------------- *)
Theorem gaussian_zero_cov_is_product : forall thr Phi mu sigma x y, s01 sigma = 0 ->
  gaussian_cdf_gen thr Phi mu sigma x y
  = marg Phi (fst mu) (s00 sigma) x * marg Phi (snd mu) (s11 sigma) y.
Proof. exact gaussian_zero_cov. Qed.
Print Assumptions gaussian_zero_cov_is_product.

(* ... and a product of marginals of any CDF-like Phi is a valid CDF *)
Theorem product_kernel_is_cdf : forall Phi mx my vx vy, 0 < vx -> 0 < vy -> cdf_like Phi ->
  let K := fun x y => marg Phi mx vx x * marg Phi my vy y in
  (forall x y, 0 <= K x y <= 1) /\
  (forall x1 x2 y, x1 <= x2 -> K x1 y <= K x2 y) /\
  (forall x y1 y2, y1 <= y2 -> K x y1 <= K x y2) /\
  (forall x1 x2 y1 y2, x1 <= x2 -> y1 <= y2 -> 0 <= K x2 y2 - K x1 y2 - K x2 y1 + K x1 y1).
Proof. intros Phi mx my vx vy Hx Hy HP K. unfold K.
  pose proof (marg_cdf Phi mx vx Hx HP) as A. pose proof (marg_cdf Phi my vy Hy HP) as B.
  repeat split.
  - apply (prod_range _ _ A B).
  - apply (prod_range _ _ A B).
  - intros. apply (prod_mono_x _ _ A B); assumption.
  - intros. apply (prod_mono_y _ _ A B); assumption.
  - intros. apply (prod_rect _ _ A B); assumption.
Qed.
Print Assumptions product_kernel_is_cdf.

Theorem product_kernel_tails : forall Phi mx my vx vy, 0 < vx -> 0 < vy -> cdf_like Phi -> tails_0_1 Phi ->
  let K := fun x y => marg Phi mx vx x * marg Phi my vy y in
  (forall eps, 0 < eps -> exists M, forall x y, x <= M -> K x y <= eps) /\
  (forall eps, 0 < eps -> exists M, forall x y, y <= M -> K x y <= eps) /\
  (forall eps, 0 < eps -> exists M, forall x y, M <= x -> M <= y -> 1 - eps <= K x y).
Proof. intros Phi mx my vx vy Hx Hy HP HT K. unfold K.
  pose proof (marg_cdf Phi mx vx Hx HP) as A. pose proof (marg_cdf Phi my vy Hy HP) as B.
  pose proof (marg_tails Phi mx vx Hx HT) as TA. pose proof (marg_tails Phi my vy Hy HT) as TB.
  repeat split.
  - apply (prod_tail_low_x _ _ A B TA).
  - apply (prod_tail_low_y _ _ A B TB).
  - apply (prod_tail_high _ _ A B TA TB).
Qed.
Print Assumptions product_kernel_tails.

(* ---- correlated form ----------------------------------------------------------------------- *)
(* the pinned tree (line 173 `asr > 100`) is NOT the bivariate normal CDF: it is 6e-2 away from
   Plackett's integral at rho = 0.925, and it is not a CDF at all: a negative value at rho = -0.93 *)
Theorem bvn_legacy_refuted :
  (exists mx my sxx sxy syy x y, valid_cov sxx sxy syy /\
     Rabs (Legacy.gaussian_cdf Phi_int (mx, my) (mk_sigma sxx sxy syy) x y
           - bvn_ref mx my sxx sxy syy x y) > 1e-7) /\
  (exists mx my sxx sxy syy x y, valid_cov sxx sxy syy /\
     Legacy.gaussian_cdf Phi_int (mx, my) (mk_sigma sxx sxy syy) x y < -0.02).
Proof. exact (conj legacy_refuted legacy_negative). Qed.
Print Assumptions bvn_legacy_refuted.

(* the intended variant (`asr > -100`, Genz) agrees with Plackett's integral at both witnesses *)
Theorem bvn_intended_accurate_at_witnesses :
  Rabs (gaussian_cdf Phi_int (0, 0) (mk_sigma 1 0.925 1) (-0.1649) (-0.2215)
        - bvn_ref 0 0 1 0.925 1 (-0.1649) (-0.2215)) <= 1e-8 /\
  Rabs (gaussian_cdf Phi_int (0, 0) (mk_sigma 1 (-0.93) 1) (-0.25) 0
        - bvn_ref 0 0 1 (-0.93) 1 (-0.25) 0) <= 1e-8.
Proof. exact intended_accurate_at_witnesses. Qed.
Print Assumptions bvn_intended_accurate_at_witnesses.

(* the two variants differ only in the high-correlation branch *)
Theorem bvn_legacy_eq_intended_below_0925 : forall t1 t2 Phi dh dk r, Rabs r < 0.925 ->
  bvn_std t1 Phi dh dk r = bvn_std t2 Phi dh dk r.
Proof. exact bvn_std_thr_irrelevant. Qed.
Print Assumptions bvn_legacy_eq_intended_below_0925.

(* the executable instance of Phi used by the tie (the RInt definition) is non-decreasing;
   its range [0,1] needs the Gaussian integral and is only monitored numerically *)
Theorem normal_cdf_integral_monotone : forall a b, a <= b -> Phi_int a <= Phi_int b.
Proof. exact Phi_int_mono. Qed.
Print Assumptions normal_cdf_integral_monotone.

Theorem normal_cdf_integral_symmetric : forall x, Phi_int (- x) = 1 - Phi_int x.
Proof. exact Phi_int_symmetric. Qed.
Print Assumptions normal_cdf_integral_symmetric.

(* structural laws of the whole transcribed correlated algorithm, both variants, every Phi *)
Theorem bvn_zero_covariance_is_product : forall thr Phi x y mx my sxx syy,
  bvn_cdf_gen thr Phi x y mx my sxx syy 0 = sbvn_cdf Phi x y mx my sxx syy.
Proof. exact bvn_cdf_zero_cov. Qed.
Print Assumptions bvn_zero_covariance_is_product.

Theorem gaussian_exchange_symmetric : forall thr Phi mx my sxx sxy syy x y, phi_symmetric Phi ->
  gaussian_cdf_gen thr Phi (mx, my) (mk_sigma sxx sxy syy) x y
  = gaussian_cdf_gen thr Phi (my, mx) (mk_sigma syy sxy sxx) y x.
Proof. exact gaussian_exchange. Qed.
Print Assumptions gaussian_exchange_symmetric.

(* non-vacuity *)
Example cdf_like_satisfiable : cdf_like (fun t => if Rle_dec t 0 then 0 else 1) /\
                               tails_0_1 (fun t => if Rle_dec t 0 then 0 else 1).
Proof. split; split.
  - intros a b H. repeat destruct Rle_dec; lra.
  - intros a. destruct Rle_dec; lra.
  - intros eps He. exists 0. intros a Ha. destruct Rle_dec; lra.
  - intros eps He. exists 1. intros a Ha. destruct Rle_dec; lra.
Qed.
Example phi_symmetric_satisfiable : phi_symmetric Phi_int.
Proof. exact Phi_int_symmetric. Qed.
Example uniform_hyp_satisfiable : uniform_cdf (0, 0) 1 1 (1/4) 0 = 3/8.
Proof. rewrite uniform_eq_box by lra. unfold box_cdf, seg_len. repeat destruct Rle_dec; lra. Qed.
