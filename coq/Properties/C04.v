(* C04 - Persistence image pixels are weighted kernel mass over each pixel.
   Only statements here; every proof is `exact <lemma of Proofs/ImageP.v>`.
   Phi (norm_cdf), Kgauss (images_kernels.gaussian) and user kernels / weights are universally
   quantified, so every theorem holds for EVERY kernel and EVERY weight function.
   eff_kernel Phi Kgauss k is the CDF whose rectangle masses _transform accumulates for the
   kernel configuration k: the kernel passed, or - on the isotropic fast path - the product
   Phi((x-mu_b)/sqrt s) * Phi((y-mu_p)/sqrt s). *)
From Coq Require Import Reals List Bool Lra.
From Persim Require Import Spec.ImageS Model.ImageM Proofs.ImageP.
Import ListNotations.
Open Scope R_scope.

(* T1: pixel (i,j) - i along the birth mesh, j along the persistence mesh - is the sum over the
   points (in birth-persistence coordinates) of weight * kernel mass of that pixel's rectangle *)
Theorem transform_is_weighted_mass : forall Phi Kgauss skew w k bp pp dgm i j,
  (S i < length bp)%nat -> (S j < length pp)%nat ->
  nth j (nth i (transform_one Phi Kgauss skew w k bp pp dgm) []) 0
  = sumR (map (fun pt => w (fst pt) (snd pt) *
                         mass (eff_kernel Phi Kgauss k (fst pt) (snd pt))
                              (nth i bp 0, nth (S i) bp 0) (nth j pp 0, nth (S j) pp 0))
              (to_birth_pers skew dgm)).
Proof. exact transform_pixel. Qed.
Print Assumptions transform_is_weighted_mass.

(* the same for the whole image, with its shape: (len bp - 1) rows of (len pp - 1) pixels *)
Theorem transform_is_spec_image : forall Phi Kgauss skew w k bp pp dgm,
  transform_one Phi Kgauss skew w k bp pp dgm = spec_image w (eff_kernel Phi Kgauss k) bp pp (to_birth_pers skew dgm)
  /\ length (transform_one Phi Kgauss skew w k bp pp dgm) = fst (resolution_of bp pp)
  /\ Forall (fun r => length r = snd (resolution_of bp pp)) (transform_one Phi Kgauss skew w k bp pp dgm).
Proof.
  intros. split; [apply transform_one_spec|apply transform_shape].
Qed.
Print Assumptions transform_is_spec_image.

(* T1: for a product CDF the four-term inclusion-exclusion is the product of the marginal
   differences (in the code's operand order too), the fast path is the general path run on
   Phi((x-mu_b)/sqrt s) * Phi((y-mu_p)/sqrt s) - so `sigma` is a VARIANCE - and it is the general
   path on images_kernels.gaussian whenever that has the product form at zero covariance
   (C13: gaussian_zero_cov) *)
Theorem fast_path_eq_general : forall Phi (Kgauss : R -> R -> R -> kernel) w s bp pp pts,
  (forall G H bx py, mass (fun x y => G x * H y) bx py = (G (snd bx) - G (fst bx)) * (H (snd py) - H (fst py))) /\
  (forall G H bx py, mass (fun x y => H y * G x) bx py = (G (snd bx) - G (fst bx)) * (H (snd py) - H (fst py))) /\
  transform_fast Phi w s bp pp pts
    = transform_general w (fun mb mp x y => Phi ((x - mb) / sqrt s) * Phi ((y - mp) / sqrt s)) bp pp pts /\
  ((forall mb mp x y, Kgauss s 0 s mb mp x y = Phi ((x - mb) / sqrt s) * Phi ((y - mp) / sqrt s)) ->
   transform_fast Phi w s bp pp pts = transform_general w (Kgauss s 0 s) bp pp pts).
Proof.
  intros. split; [exact mass_product|]. split; [exact mass_product_swapped|].
  split; [exact (transform_fast_iso Phi w s bp pp pts)|exact (fast_eq_general_path Phi Kgauss w s bp pp pts)].
Qed.
Print Assumptions fast_path_eq_general.

(* T1: linear_ramp - the three branches, bounds, end values, monotone for high >= low *)
Theorem linear_ramp_spec : forall low high start stop b p,
  ((p < start -> linear_ramp low high start stop b p = low) /\
   (start <= p -> stop < p -> linear_ramp low high start stop b p = high) /\
   (start <= p -> p <= stop ->
      linear_ramp low high start stop b p = (p - start) * (high - low) / (stop - start) + low)) /\
  (start < stop -> low <= high -> low <= linear_ramp low high start stop b p <= high) /\
  (start < stop -> linear_ramp low high start stop b start = low /\ linear_ramp low high start stop b stop = high) /\
  (forall q, start < stop -> low <= high -> p <= q ->
      linear_ramp low high start stop b p <= linear_ramp low high start stop b q).
Proof.
  intros. split; [apply linear_ramp_cases|]. split; [apply linear_ramp_bounds|].
  split; [apply linear_ramp_endpoints|]. intros q. apply linear_ramp_mono.
Qed.
Print Assumptions linear_ramp_spec.

(* T1: persistence weight p^n - integral exponent (repeated product) and real exponent *)
Theorem persistence_weight_spec : forall (k : nat) (n : R) b p,
  (persistence_nat k b p = p ^ k /\ (0 <= p -> 0 <= persistence_nat k b p) /\
   (forall q, 0 <= p <= q -> persistence_nat k b p <= persistence_nat k b q) /\
   ((0 < k)%nat -> persistence_nat k b 0 = 0)) /\
  (0 < n -> (0 < p -> persistence_real n b p = Rpower p n) /\ persistence_real n b 0 = 0 /\
            (0 <= p -> 0 <= persistence_real n b p) /\
            (forall q, 0 <= p <= q -> persistence_real n b p <= persistence_real n b q)) /\
  (0 < p -> persistence_real (INR k) b p = persistence_nat k b p).
Proof.
  intros. split; [apply persistence_nat_spec|]. split; [apply persistence_real_spec|apply persistence_real_nat].
Qed.
Print Assumptions persistence_weight_spec.

(* non-vacuity: a 1x1 mesh, one point, persistence weight: the pixel is w * mass *)
Example c04_hyp_satisfiable : forall Phi Kgauss,
  nth 0 (nth 0 (transform_one Phi Kgauss true (persistence_nat 1) (GaussScalar 1) [0;1] [0;1] [(0,1)]) []) 0
  = (1 ^ 1) * ((Phi ((1 - 0) / sqrt 1) - Phi ((0 - 0) / sqrt 1)) * (Phi ((1 - (1 - 0)) / sqrt 1) - Phi ((0 - (1 - 0)) / sqrt 1))) + 0.
Proof.
  intros. rewrite transform_is_weighted_mass by (simpl; auto).
  simpl. unfold iso_kernel, mass, persistence_nat. simpl. ring.
Qed.

(* =============================================================================================
   Cross-property glue (lemmas in Proofs/ImageGlueP.v).
   C12 -> C04: the mesh, an INPUT of the transform model above, is here the mesh of a state of
   C12's imager state machine (Model/ImagerM.v, exact-rational instance QNum), read over R with Q2R.
   C13 -> C04: Kgauss, a universally quantified argument above, is here the kernel MODEL of
   images_kernels.gaussian (Model/KernelM.v) as images.py calls it (Model/ImageKernelM.v). *)
From Coq Require Import ZArith QArith Qreals Lia.
From Persim Require Model.ImagerM Proofs.ImagerP Model.KernelM Model.ImageKernelM Proofs.ImageGlueP.
Open Scope R_scope.

(* H1: for EVERY consistent imager state (C12: [Inv s], which holds after the repaired constructor and
   any history of setters / fits - imager_history_inv), every kernel configuration, Phi, Kgauss, weight,
   skew flag and diagram: the image _transform computes on the state's two meshes has the shape the
   state reports (= its resolution), and pixel (i,j) is the sum over the points of weight * kernel mass
   of the SQUARE [blo + i ps, blo + (i+1) ps] x [plo + j ps, plo + (j+1) ps], ps the configured pixel
   size - for all i < res_b, j < res_p *)
Theorem image_on_imager_state : forall s : ImagerM.state ImagerM.QNum, ImagerP.Inv s ->
  forall Phi Kgauss skew w k dgm,
  let ps := Q2R (ImagerM.psz s) in let b0 := Q2R (ImagerM.blo s) in let p0 := Q2R (ImagerM.plo s) in
  let img := transform_one Phi Kgauss skew w k (map Q2R (ImagerM.bpnts s)) (map Q2R (ImagerM.ppnts s)) dgm in
  ImagerM.shape ImagerM.QNum s = Some (ImagerM.resw s, ImagerM.resh s) /\
  Z.of_nat (length img) = ImagerM.resw s /\
  Forall (fun r => Z.of_nat (length r) = ImagerM.resh s) img /\
  forall i j, (Z.of_nat i < ImagerM.resw s)%Z -> (Z.of_nat j < ImagerM.resh s)%Z ->
    nth j (nth i img []) 0
    = sumR (map (fun pt => w (fst pt) (snd pt) *
                           mass (eff_kernel Phi Kgauss k (fst pt) (snd pt))
                                (b0 + INR i * ps, b0 + (INR i + 1) * ps) (p0 + INR j * ps, p0 + (INR j + 1) * ps))
                (to_birth_pers skew dgm)).
Proof. exact ImageGlueP.image_on_state. Qed.
Print Assumptions image_on_imager_state.

(* H2: the same phrased over a history: construct with any pixel size > 0 and ordered ranges, apply ANY
   list of valid operations (range assignments lo <= hi, pixel sizes > 0, fits), then transform *)
Theorem history_then_transform : forall bl bh pl ph ps0 (h : list (ImagerM.op ImagerM.QNum)),
  (0 < ps0)%Q -> (bl <= bh)%Q -> (pl <= ph)%Q -> Forall ImagerP.op_ok h ->
  forall Phi Kgauss skew w k dgm,
  let s := ImagerM.run ImagerM.QNum (ImagerM.ctor ImagerM.QNum bl bh pl ph ps0) h in
  let ps := Q2R (ImagerM.psz s) in let b0 := Q2R (ImagerM.blo s) in let p0 := Q2R (ImagerM.plo s) in
  let img := transform_one Phi Kgauss skew w k (map Q2R (ImagerM.bpnts s)) (map Q2R (ImagerM.ppnts s)) dgm in
  ImagerM.shape ImagerM.QNum s = Some (ImagerM.resw s, ImagerM.resh s) /\
  Z.of_nat (length img) = ImagerM.resw s /\
  Forall (fun r => Z.of_nat (length r) = ImagerM.resh s) img /\
  forall i j, (Z.of_nat i < ImagerM.resw s)%Z -> (Z.of_nat j < ImagerM.resh s)%Z ->
    nth j (nth i img []) 0
    = sumR (map (fun pt => w (fst pt) (snd pt) *
                           mass (eff_kernel Phi Kgauss k (fst pt) (snd pt))
                                (b0 + INR i * ps, b0 + (INR i + 1) * ps) (p0 + INR j * ps, p0 + (INR j + 1) * ps))
                (to_birth_pers skew dgm)).
Proof. exact ImageGlueP.image_after_history. Qed.
Print Assumptions history_then_transform.

(* non-vacuity of H1 / H2: a valid history whose final state has 5 x 2 pixels to characterise ... *)
Example history_then_transform_hyp_satisfiable :
  (0 < 1 # 2)%Q /\ (0 <= 1)%Q /\
  Forall ImagerP.op_ok [@ImagerM.SetBirth ImagerM.QNum 0%Q (3 # 2)%Q; @ImagerM.SetPixel ImagerM.QNum (1 # 4)%Q;
                        @ImagerM.Fit ImagerM.QNum (((0, 1), [(5 # 4, 7 # 4)]), [])%Q true] /\
  let s := ImagerM.run ImagerM.QNum (ImagerM.ctor ImagerM.QNum 0 1 0 1 (1 # 2))%Q
             [@ImagerM.SetBirth ImagerM.QNum 0%Q (3 # 2)%Q; @ImagerM.SetPixel ImagerM.QNum (1 # 4)%Q;
              @ImagerM.Fit ImagerM.QNum (((0, 1), [(5 # 4, 7 # 4)]), [])%Q true] in
  (ImagerM.resw s, ImagerM.resh s) = (5, 2)%Z.
Proof.
  split; [reflexivity|]. split; [discriminate|]. split.
  - repeat constructor; unfold Qlt, Qle; cbn; lia.
  - vm_compute. reflexivity.
Qed.

(* ... and H1 used on the constructor's 2 x 2 state: pixel (0,1) of a one-point diagram under any
   kernel K passed as a callable is w * K-mass of the square [0,1/2] x [1/2,1] *)
Example image_on_imager_state_instance : forall Phi Kgauss w K b p,
  let s := (ImagerM.ctor ImagerM.QNum 0 1 0 1 (1 # 2))%Q in
  nth 1 (nth 0 (transform_one Phi Kgauss false w (OtherKernel K)
                   (map Q2R (ImagerM.bpnts s)) (map Q2R (ImagerM.ppnts s)) [(b, p)]) []) 0
  = w b p * mass (K b p) (0, 1 / 2) (1 / 2, 1).
Proof.
  intros Phi Kgauss w K b p s.
  assert (HI : ImagerP.Inv s) by (apply ImagerP.ctor_inv; unfold Qlt, Qle; cbn; lia).
  destruct (image_on_imager_state s HI Phi Kgauss false w (OtherKernel K) [(b, p)]) as (_ & _ & _ & P).
  rewrite (P 0%nat 1%nat) by (vm_compute; reflexivity).
  assert (E0 : Q2R (ImagerM.blo s) = 0).
  { transitivity (Q2R 0); [apply Qeq_eqR; vm_compute; reflexivity|apply ImageGlueP.Q2R_0g]. }
  assert (E1 : Q2R (ImagerM.plo s) = 0).
  { transitivity (Q2R 0); [apply Qeq_eqR; vm_compute; reflexivity|apply ImageGlueP.Q2R_0g]. }
  assert (E2 : Q2R (ImagerM.psz s) = 1 / 2) by (unfold Q2R; simpl; lra).
  rewrite E0, E1, E2. cbn [to_birth_pers map sumR fold_right eff_kernel fst snd INR].
  replace (0 + 0 * (1 / 2)) with 0 by lra. replace (0 + (0 + 1) * (1 / 2)) with (1 / 2) by lra.
  replace (0 + 1 * (1 / 2)) with (1 / 2) by lra. replace (0 + (1 + 1) * (1 / 2)) with 1 by lra. lra.
Qed.

(* H3 (C13 -> C04): the hypothesis of the last part of fast_path_eq_general, discharged for the kernel model
   of images_kernels.gaussian (both readings of line 173: thr = -100 intended, thr = 100 pinned; C13:
   gaussian_zero_cov_is_product): at zero covariance the model IS the product form, for EVERY Phi, so
   with kernel = gaussian the fast path (sigma a scalar, or an isotropic 2x2 matrix) computes exactly the image
   the general path computes with images_kernels.gaussian at sigma = [[s,0],[0,s]].  No hypothesis is left. *)
Theorem fast_path_eq_general_kernelM : forall thr Phi skew w s bp pp dgm,
  (forall mb mp x y, ImageKernelM.gaussian_kernelM_gen thr Phi s 0 s mb mp x y
                     = Phi ((x - mb) / sqrt s) * Phi ((y - mp) / sqrt s)) /\
  transform_fast Phi w s bp pp (to_birth_pers skew dgm)
    = transform_general w (ImageKernelM.gaussian_kernelM_gen thr Phi s 0 s) bp pp (to_birth_pers skew dgm) /\
  transform_one Phi (ImageKernelM.gaussian_kernelM_gen thr Phi) skew w (GaussScalar s) bp pp dgm
    = transform_general w (ImageKernelM.gaussian_kernelM_gen thr Phi s 0 s) bp pp (to_birth_pers skew dgm) /\
  transform_one Phi (ImageKernelM.gaussian_kernelM_gen thr Phi) skew w (GaussMatrix s 0 s) bp pp dgm
    = transform_general w (ImageKernelM.gaussian_kernelM_gen thr Phi s 0 s) bp pp (to_birth_pers skew dgm).
Proof. exact ImageGlueP.fast_eq_general_kernelM. Qed.
Print Assumptions fast_path_eq_general_kernelM.

(* instance: the intended kernel model (gaussian_cdf = gaussian_cdf_gen (-100)); scalar sigma 2 and the
   matrix [[2,0],[0,2]] give the same image *)
Example fast_path_eq_general_kernelM_instance : forall Phi w bp pp dgm,
  transform_one Phi (ImageKernelM.gaussian_kernelM Phi) true w (GaussScalar 2) bp pp dgm
  = transform_one Phi (ImageKernelM.gaussian_kernelM Phi) true w (GaussMatrix 2 0 2) bp pp dgm.
Proof.
  intros. rewrite ImageGlueP.gaussian_kernelM_intended.
  destruct (fast_path_eq_general_kernelM (-100) Phi true w 2 bp pp dgm) as (_ & _ & A & B).
  rewrite A, B. reflexivity.
Qed.
