(* C04 - Persistence image pixels are weighted kernel mass over each pixel.
   Only statements here; every proof is `exact <lemma of Proofs/ImageP.v>`.
   Phi (norm_cdf), Kgauss (images_kernels.gaussian) and user kernels / weights are universally
   quantified, so every theorem holds for EVERY kernel and EVERY weight function.
   eff_kernel Phi Kgauss k is the CDF whose rectangle masses _transform accumulates for the
   kernel configuration k: the kernel passed, or - on the isotropic fast path - the product
   Phi((x-mu_b)/sqrt s) * Phi((y-mu_p)/sqrt s). *)
From Coq Require Import Reals List Bool Lra.
From Persim Require Import Spec.ImageS Model.ImageM Proofs.ImageP.
Import ListNotations.
Open Scope R_scope.

(* T1: pixel (i,j) - i along the birth mesh, j along the persistence mesh - is the sum over the
   points (in birth-persistence coordinates) of weight * kernel mass of that pixel's rectangle *)
Theorem transform_is_weighted_mass : forall Phi Kgauss skew w k bp pp dgm i j,
  (S i < length bp)%nat -> (S j < length pp)%nat ->
  nth j (nth i (transform_one Phi Kgauss skew w k bp pp dgm) []) 0
  = sumR (map (fun pt => w (fst pt) (snd pt) *
                         mass (eff_kernel Phi Kgauss k (fst pt) (snd pt))
                              (nth i bp 0, nth (S i) bp 0) (nth j pp 0, nth (S j) pp 0))
              (to_birth_pers skew dgm)).
Proof. exact transform_pixel. Qed.
Print Assumptions transform_is_weighted_mass.

(* the same for the whole image, with its shape: (len bp - 1) rows of (len pp - 1) pixels *)
Theorem transform_is_spec_image : forall Phi Kgauss skew w k bp pp dgm,
  transform_one Phi Kgauss skew w k bp pp dgm = spec_image w (eff_kernel Phi Kgauss k) bp pp (to_birth_pers skew dgm)
  /\ length (transform_one Phi Kgauss skew w k bp pp dgm) = fst (resolution_of bp pp)
  /\ Forall (fun r => length r = snd (resolution_of bp pp)) (transform_one Phi Kgauss skew w k bp pp dgm).
Proof.
  intros. split; [apply transform_one_spec|apply transform_shape].
Qed.
Print Assumptions transform_is_spec_image.

(* T1: for a product CDF the four-term inclusion-exclusion is the product of the marginal
   differences (in the code's operand order too), the fast path is the general path run on
   Phi((x-mu_b)/sqrt s) * Phi((y-mu_p)/sqrt s) - so `sigma` is a VARIANCE - and it is the general
   path on images_kernels.gaussian whenever that has the product form at zero covariance
   (C13: gaussian_zero_cov) *)
Theorem fast_path_eq_general : forall Phi (Kgauss : R -> R -> R -> kernel) w s bp pp pts,
  (forall G H bx py, mass (fun x y => G x * H y) bx py = (G (snd bx) - G (fst bx)) * (H (snd py) - H (fst py))) /\
  (forall G H bx py, mass (fun x y => H y * G x) bx py = (G (snd bx) - G (fst bx)) * (H (snd py) - H (fst py))) /\
  transform_fast Phi w s bp pp pts
    = transform_general w (fun mb mp x y => Phi ((x - mb) / sqrt s) * Phi ((y - mp) / sqrt s)) bp pp pts /\
  ((forall mb mp x y, Kgauss s 0 s mb mp x y = Phi ((x - mb) / sqrt s) * Phi ((y - mp) / sqrt s)) ->
   transform_fast Phi w s bp pp pts = transform_general w (Kgauss s 0 s) bp pp pts).
Proof.
  intros. split; [exact mass_product|]. split; [exact mass_product_swapped|].
  split; [exact (transform_fast_iso Phi w s bp pp pts)|exact (fast_eq_general_path Phi Kgauss w s bp pp pts)].
Qed.
Print Assumptions fast_path_eq_general.

(* T1: linear_ramp - the three branches, bounds, end values, monotone for high >= low *)
Theorem linear_ramp_spec : forall low high start stop b p,
  ((p < start -> linear_ramp low high start stop b p = low) /\
   (start <= p -> stop < p -> linear_ramp low high start stop b p = high) /\
   (start <= p -> p <= stop ->
      linear_ramp low high start stop b p = (p - start) * (high - low) / (stop - start) + low)) /\
  (start < stop -> low <= high -> low <= linear_ramp low high start stop b p <= high) /\
  (start < stop -> linear_ramp low high start stop b start = low /\ linear_ramp low high start stop b stop = high) /\
  (forall q, start < stop -> low <= high -> p <= q ->
      linear_ramp low high start stop b p <= linear_ramp low high start stop b q).
Proof.
  intros. split; [apply linear_ramp_cases|]. split; [apply linear_ramp_bounds|].
  split; [apply linear_ramp_endpoints|]. intros q. apply linear_ramp_mono.
Qed.
Print Assumptions linear_ramp_spec.

(* T1: persistence weight p^n - integral exponent (repeated product) and real exponent *)
Theorem persistence_weight_spec : forall (k : nat) (n : R) b p,
  (persistence_nat k b p = p ^ k /\ (0 <= p -> 0 <= persistence_nat k b p) /\
   (forall q, 0 <= p <= q -> persistence_nat k b p <= persistence_nat k b q) /\
   ((0 < k)%nat -> persistence_nat k b 0 = 0)) /\
  (0 < n -> (0 < p -> persistence_real n b p = Rpower p n) /\ persistence_real n b 0 = 0 /\
            (0 <= p -> 0 <= persistence_real n b p) /\
            (forall q, 0 <= p <= q -> persistence_real n b p <= persistence_real n b q)) /\
  (0 < p -> persistence_real (INR k) b p = persistence_nat k b p).
Proof.
  intros. split; [apply persistence_nat_spec|]. split; [apply persistence_real_spec|apply persistence_real_nat].
Qed.
Print Assumptions persistence_weight_spec.

(* non-vacuity: a 1x1 mesh, one point, persistence weight: the pixel is w * mass *)
Example c04_hyp_satisfiable : forall Phi Kgauss,
  nth 0 (nth 0 (transform_one Phi Kgauss true (persistence_nat 1) (GaussScalar 1) [0;1] [0;1] [(0,1)]) []) 0
  = (1 ^ 1) * ((Phi ((1 - 0) / sqrt 1) - Phi ((0 - 0) / sqrt 1)) * (Phi ((1 - (1 - 0)) / sqrt 1) - Phi ((0 - (1 - 0)) / sqrt 1))) + 0.
Proof.
  intros. rewrite transform_is_weighted_mass by (simpl; auto).
  simpl. unfold iso_kernel, mass, persistence_nat. simpl. ring.
Qed.
