(* C06 - Returned matchings certify the reported bottleneck / Wasserstein distance.
   Only statements here; every proof is `exact <lemma>`.
   Bottleneck half: Model/BneckM.v (bottleneck_full = bottleneck(..., matching=True)), certificate
   predicate Spec/BneckCertS.v, lemmas Proofs/BneckCertP.v (b-c01).
   Wasserstein half: Model/WassM.v (w_rows of wasserstein true), certificate predicate
   Spec/WassCertS.v, lemmas Proofs/WassP.v, Proofs/WassCorrP.v (b-c02).
   The external routines (HopcroftKarp maximum matching, scipy linear_sum_assignment) are
   universally quantified: "any optimal matching is acceptable, no tie-break is assumed". *)
From Coq Require Import QArith Qminmax Qabs List Bool Arith ZArith Permutation.
From Persim Require Import Spec.PartialMatching Spec.BottleneckS Spec.BneckCertS Model.BneckM
     Corr.BneckCorr Proofs.BneckCertP Proofs.BneckOracleP.
Import ListNotations.

(* ---------------------------------------------------------------------------------------------- *)
(* bottleneck                                                                                     *)
Open Scope Q_scope.

(* For every maximum-matching routine and all diagrams with births <= deaths: matching=True returns a
   finite distance v and rows (all third entries finite) such that, with an empty diagram standing for
   [(0,0)]: among the first (second) entries every index of the first (second) diagram occurs exactly
   once and everything else is -1; no (-1,-1) row; each third entry is the L-infinity / (d-b)/2 cost of
   its pairing; the largest third entry == v; v is the min-max value of the finite points; and v is also
   what matching=False returns. *)
Theorem bottleneck_matching_cert : forall oracle, max_matching_oracle oracle ->
  forall S T : list xpoint, wfdgm (finite S) -> wfdgm (finite T) ->
  exists v rows qrows,
    bottleneck_full oracle S T = Some (CFin v, rows) /\
    rows = map inj_row qrows /\
    bneck_cert (prep (finite S)) (prep (finite T)) v qrows /\
    is_bottleneck (finite S) (finite T) v /\
    bottleneck_model oracle S T = Some (CFin v).
Proof. exact bneck_matching_cert. Qed.
Print Assumptions bottleneck_matching_cert.

(* the distance component does not depend on the flag *)
Theorem bottleneck_matching_flag_irrelevant : forall oracle, max_matching_oracle oracle ->
  forall S T : list xpoint, wfdgm (finite S) -> wfdgm (finite T) ->
  option_map fst (bottleneck_full oracle S T) = bottleneck_model oracle S T.
Proof. exact matching_flag_irrelevant_lemma. Qed.
Print Assumptions bottleneck_matching_flag_irrelevant.

(* the executable checker that is run on the implementation's rows (exact family) is sound *)
Theorem bottleneck_cert_checker_sound : forall S T v rows,
  bneck_cert_check S T v rows = true -> bneck_cert S T v rows.
Proof. exact bneck_cert_check_sound. Qed.
Print Assumptions bottleneck_cert_checker_sound.

(* non-vacuity: a maximum-matching routine exists; the checker accepts the rows that persim returns for
   [(0,2)] against the empty diagram (distance 1, rows (0,-1,1) and (-1,0,0)) *)
Example bottleneck_hypothesis_satisfiable : exists oracle, max_matching_oracle oracle.
Proof. exact (ex_intro _ brute_oracle max_matching_oracle_exists). Qed.
Example bottleneck_checker_accepts :
  bneck_cert_case 0 [(0, CFin 2)] [] 1 [(0%Z, (-1)%Z, 1); ((-1)%Z, 0%Z, 0)] = true.
Proof. vm_compute. reflexivity. Qed.
Example bottleneck_model_rows :
  exists v rows, bottleneck_full brute_oracle [(0, CFin 2); (1, CInf)] [(0, CFin 3)] = Some (CFin v, rows) /\ v == 1.
Proof. eexists. eexists. split; [vm_compute; reflexivity|reflexivity]. Qed.

Close Scope Q_scope.

(* ---------------------------------------------------------------------------------------------- *)
(* Wasserstein                                                                                    *)
From Coq Require Import Qreals Reals.
From Persim Require Import Spec.WassersteinS Spec.WassCertS Model.WassM Model.WassEncM
     Proofs.WassP Proofs.WassEncP Corr.WassCorr Proofs.WassCorrP.
Open Scope R_scope.

(* matching=True returns the same distance (definitional in the model: matchdist is computed before the
   flag is looked at) *)
Theorem wasserstein_matching_flag_irrelevant : forall lsa dgm1 dgm2,
  w_dist (wasserstein lsa true dgm1 dgm2) = w_dist (wasserstein lsa false dgm1 dgm2).
Proof. exact matching_flag_irrelevant_l. Qed.
Print Assumptions wasserstein_matching_flag_irrelevant.

(* For every solver that returns an optimal assignment: the distance v is finite, all third entries are
   finite, and the rows are a certificate (Spec/WassCertS.wass_cert) for v on the placeholder-expanded
   diagrams: every index of each diagram exactly once in its column, everything else -1, no (-1,-1) row,
   each third entry = Euclidean / (d-b)/sqrt 2 cost of its pairing, third entries sum to v; and v is the
   min-sum value of the finite points. *)
Theorem wasserstein_matching_cert : forall lsa dgm1 dgm2, lsa_optimal_on lsa dgm1 dgm2 ->
  exists v rs,
    w_dist (wasserstein lsa true dgm1 dgm2) = WassM.CFin v /\
    w_rows (wasserstein lsa true dgm1 dgm2) = Some (map (fun r => (fst r, WassM.CFin (snd r))) rs) /\
    wass_cert (placeholder 0 (finite_pts dgm1)) (placeholder 0 (finite_pts dgm2)) v rs /\
    is_wasserstein (finite_pts dgm1) (finite_pts dgm2) v.
Proof. exact wasserstein_matching_cert_l. Qed.
Print Assumptions wasserstein_matching_cert.

(* the executable checker that is run on the implementation's rows is sound: accepted rows are a
   certificate up to the tolerance (coverage exactly once and the -1 conventions hold exactly; every cost
   and the sum are within tol of the real-valued costs) *)
Theorem wasserstein_cert_checker_sound : forall p d1 d2 dist rows tol,
  cert_case p d1 d2 dist rows tol = true ->
  wass_cert_approx (placeholder 0 (finite_pts (map injx d1))) (placeholder 0 (finite_pts (map injx d2)))
                   (Q2R tol) (Q2R dist) (map injrow rows).
Proof. exact cert_case_sound. Qed.
Print Assumptions wasserstein_cert_checker_sound.

(* non-vacuity: for every input some solver meets the assumption; the checker accepts the rows persim
   returns for [(0,2)] against the empty diagram (distance sqrt 2 within 2^-9) *)
Example wasserstein_hypothesis_satisfiable : forall dgm1 dgm2, exists lsa, lsa_optimal_on lsa dgm1 dgm2.
Proof. exact lsa_hypothesis_satisfiable_l. Qed.
Example wasserstein_checker_accepts :
  cert_case 10 [(0, Some 2)]%Q [] (1448 # 1024)%Q
            [(0%Z, (-1)%Z, (1448 # 1024)%Q); ((-1)%Z, 0%Z, 0%Q)] (1 # 512)%Q = true.
Proof. vm_compute. reflexivity. Qed.
