(* C16 - Persistent entropy is the Shannon entropy of normalised bar lengths.
   Only statements here; every proof is `exact <lemma of Proofs/EntropyP.v>`. *)
From Coq Require Import Reals List Bool Permutation Lra.
From Persim Require Import Model.EntropyM Proofs.EntropyP.
Import ListNotations.
Open Scope R_scope.

(* the value is -sum p_i ln p_i, p_i = length_i / total (definitional: this is what the model returns) *)
Theorem entropy_is_shannon : forall norm d v, entropy_one norm d = Some v ->
  (forall x, In x (lengths d) -> 0 < x) /\ v = entropy_val norm (lengths d).
Proof. exact entropy_one_some. Qed.
Print Assumptions entropy_is_shannon.

Theorem entropy_between_0_and_ln_n : forall d v, entropy_one false d = Some v -> d <> [] ->
  0 <= v <= ln (INR (length d)).
Proof. exact entropy_bounds. Qed.
Print Assumptions entropy_between_0_and_ln_n.

Theorem entropy_equal_lengths_is_ln_n : forall c (d : list fbar), 0 < c -> d <> [] ->
  (forall b, In b d -> snd b - fst b = c) -> entropy_one false d = Some (ln (INR (length d))).
Proof. exact entropy_equal_lengths. Qed.
Print Assumptions entropy_equal_lengths_is_ln_n.

Theorem entropy_reorder : forall norm a b, Permutation a b -> entropy_one norm a = entropy_one norm b.
Proof. exact entropy_one_perm. Qed.
Print Assumptions entropy_reorder.

Theorem entropy_translate : forall norm c d,
  entropy_one norm (map (fun b => (fst b + c, snd b + c)) d) = entropy_one norm d.
Proof. exact entropy_one_translate. Qed.
Print Assumptions entropy_translate.

Theorem entropy_rescale : forall norm c d, 0 < c ->
  entropy_one norm (map (fun b => (c * fst b, c * snd b)) d) = entropy_one norm d.
Proof. exact entropy_one_scale. Qed.
Print Assumptions entropy_rescale.

Theorem entropy_normalised_in_unit : forall d v, entropy_one true d = Some v -> (2 <= length d)%nat -> 0 <= v <= 1.
Proof. exact entropy_normalised_unit. Qed.
Print Assumptions entropy_normalised_in_unit.

Theorem entropy_of_list_is_vector : forall norm dgms v,
  persistent_entropy false None norm dgms = Ok v ->
  Forall2 (fun d x => entropy_one norm (drop_inf d) = Some x) dgms v.
Proof. exact entropy_list_is_map. Qed.
Print Assumptions entropy_of_list_is_vector.

Theorem entropy_inf_substituted : forall norm w dgms v,
  persistent_entropy true (Some w) norm dgms = Ok v ->
  Forall2 (fun d x => entropy_one norm (subst_inf w d) = Some x) dgms v.
Proof. exact entropy_list_subst. Qed.
Print Assumptions entropy_inf_substituted.

Theorem entropy_inf_dropped : forall norm (d : list bar) x,
  entropy_one norm (drop_inf ((x, PInf) :: d)) = entropy_one norm (drop_inf d).
Proof. exact inf_bars_dropped. Qed.
Print Assumptions entropy_inf_dropped.

Theorem entropy_nonpositive_bar_errors : forall norm dgms,
  persistent_entropy false None norm dgms = ErrBar <->
  exists d b, In d dgms /\ In b (drop_inf d) /\ snd b - fst b <= 0.
Proof. exact nonpositive_bar_is_error. Qed.
Print Assumptions entropy_nonpositive_bar_errors.

Theorem entropy_keep_inf_needs_value : forall norm dgms, persistent_entropy true None norm dgms = ErrNoVal.
Proof. exact keep_inf_without_value. Qed.
Print Assumptions entropy_keep_inf_needs_value.

(* non-vacuity: a concrete barcode meets the hypotheses *)
Example entropy_hyp_satisfiable :
  exists v, entropy_one false [(0,1);(0,3);(2,4)] = Some v /\ [(0,1);(0,3);(2,4)] <> ([] : list fbar).
Proof. eexists. split. 2: discriminate. unfold entropy_one.
  assert (A : all_pos (lengths [(0,1);(0,3);(2,4)]) = true).
  { apply all_pos_iff. intros x I. simpl in I. repeat (destruct I as [<-|I]; [lra|]). destruct I. }
  rewrite A. reflexivity. Qed.
