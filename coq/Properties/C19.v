(* C19 - Public API is pure, repeatable and representation-independent.
   Static half: the purity checker [pure_ok] of Model/EffectIR.v is sound for the heap semantics
   defined there.  The per-entry-point obligations [pure_ok prog_f = true] are regenerated from
   the current source on every run (harness/effects_translator.py -> .work/C19/Programs.v). *)
From Coq Require Import List Bool PArith.
From Persim Require Import Model.EffectIR Proofs.EffectP.
Import ListNotations.

(* T1: if the checker accepts a program then, in every execution of its statements (any order,
   any number of times) from every initial heap, every object reachable from a protected
   parameter keeps its version counter and its element slots *)
Theorem pure_ok_sound : forall p st0 st,
  pure_ok p = true -> init_ok p st0 -> exec (p_body p) st0 st ->
  forall x o o', In x (p_prot p) -> env st0 x = Some o -> reach st0 o o' ->
    ver st o' = ver st0 o' /\ (forall e, edges st o' f_elem e <-> edges st0 o' f_elem e).
Proof. exact pure_ok_sound_reach. Qed.
Print Assumptions pure_ok_sound.

(* the same for every caller-owned object, reachable or not *)
Theorem pure_ok_sound_all_caller_objects : forall p st0 st,
  pure_ok p = true -> init_ok p st0 -> exec (p_body p) st0 st ->
  forall o, site o = PROT ->
    ver st o = ver st0 o /\ (forall e, edges st o f_elem e <-> edges st0 o f_elem e).
Proof. exact pure_ok_sound_objects. Qed.
Print Assumptions pure_ok_sound_all_caller_objects.

(* fail closed: an accepted program contains no construct the translator could not summarise *)
Theorem pure_ok_rejects_opaque : forall p, pure_ok p = true -> has_opaque p = false.
Proof. exact pure_ok_no_opaque. Qed.
Print Assumptions pure_ok_rejects_opaque.

(* rand_sources: the per-run obligation [has_rand prog_f = false] (every entry point outside
   gromov_hausdorff.py) means that no statement of the body draws from NumPy's global RNG *)
Theorem rand_free_body : forall p, has_rand p = false ->
  forall s, In s (p_body p) -> forall x, s <> Rand x.
Proof. exact no_rand_in_body. Qed.
Print Assumptions rand_free_body.

(* the checker is not vacuous: it rejects a write through a view / an element / a local container /
   an attribute of self, and accepts a write to a private copy *)
Theorem checker_rejects_and_accepts :
  pure_ok {| p_prot := [x1]; p_unprot := []; p_body := [Alias x2 x1; Mutate x2] |} = false /\
  pure_ok {| p_prot := [x1]; p_unprot := []; p_body := [Load x2 x1 f_elem; Mutate x2] |} = false /\
  pure_ok {| p_prot := [x1]; p_unprot := []; p_body := [Fresh x2; Store x2 f_elem x1; Load x3 x2 f_elem; Mutate x3] |} = false /\
  pure_ok {| p_prot := [x1]; p_unprot := [x2]; p_body := [Store x2 7%positive x1; Load x3 x2 7%positive; Mutate x3] |} = false /\
  pure_ok {| p_prot := [x1]; p_unprot := []; p_body := [Fresh x2; Mutate x2; Alias x3 x2; Mutate x3] |} = true /\
  pure_ok {| p_prot := [x1]; p_unprot := []; p_body := [Fresh x2; Store x2 f_elem x1; Mutate x2] |} = true.
Proof.
  exact (conj reject_view (conj reject_element (conj reject_via_container
        (conj reject_via_self (conj accept_copy accept_local_container))))).
Qed.
Print Assumptions checker_rejects_and_accepts.

Example init_ok_satisfiable :
  init_ok {| p_prot := [x1]; p_unprot := []; p_body := [Fresh x2; Mutate x2] |} st_ex.
Proof. exact init_ok_example. Qed.
