From Coq Require Import Reals List Lra.
From Persim Require Import Spec.WassersteinS Model.WassM.
Open Scope R_scope.
Theorem rot_second_coord : forall p : rpoint, diag_entry p = diagW p.
Proof. intros [b d]. unfold diag_entry, rotate, diagW, cp, sp. simpl. rewrite cos_PI4, sin_PI4.
  assert (sqrt 2 <> 0) by (apply Rgt_not_eq, sqrt_lt_R0; lra). field. assumption. Qed.
Print Assumptions rot_second_coord.
