(* C02 - The Wasserstein distance returned by persim.wasserstein is the true min-sum matching cost.
   Only statements here; every proof is `exact <lemma of Proofs/WassP.v or Proofs/WassEncP.v>`.
   Model: Model/WassM.v (wasserstein.py lines 46-110); scipy's linear_sum_assignment is the
   universally quantified [lsa], assumed only to return an optimal assignment of the one matrix it
   is called on ([lsa_optimal_on]). *)
From Coq Require Import QArith Qreals Reals List Bool Arith ZArith Permutation Lra Lia.
From Persim Require Import Spec.PartialMatching Spec.WassersteinS Lib.AugMatching
     Spec.WassCertS Model.WassM Model.WassEncM Proofs.WassP Proofs.WassEncP.
Import ListNotations.
Open Scope R_scope.

(* lines 79-92: the entry written on the diagonals of the off blocks - the SECOND coordinate of the
   diagram rotated by pi/4 - is the perpendicular distance (d-b)/sqrt 2 to the diagonal *)
Theorem rot_second_coord : forall b d : R,
  - b * sin (PI / 4) + d * cos (PI / 4) = (d - b) / sqrt 2 /\ diag_entry (b, d) = diagW (b, d).
Proof. intros b d. split; [apply rot_second_coord_explicit|apply rot_second_coord_l]. Qed.
Print Assumptions rot_second_coord.

(* Euclidean form of "a diagonal point is neutral": pairing q with a point (x,x) of the diagonal never
   beats sending q to the diagonal line *)
Theorem diag_point_neutral : forall (q : rpoint) (x : R), diagW q <= euclid q (x, x).
Proof. exact diag_le_euclid. Qed.
Print Assumptions diag_point_neutral.

(* lines 67-72: replacing an empty diagram by the one-point diagram [(0,0)] does not change the minimum;
   more generally the value against any diagram of diagonal points is the total persistence / sqrt 2 *)
Theorem placeholder_neutral : forall S T v,
  is_wasserstein (placeholder 0 S) (placeholder 0 T) v -> is_wasserstein S T v.
Proof. exact WassP.placeholder_neutral. Qed.
Print Assumptions placeholder_neutral.

Theorem wasserstein_against_diagonal_points : forall P T,
  (forall p, In p P -> fst p = snd p) -> is_wasserstein P T (sumRl (map diagW T)).
Proof. exact wass_all_diag. Qed.
Print Assumptions wasserstein_against_diagonal_points.

(* spec-level neutrality: adding a point of the diagonal to either diagram leaves the min-sum value unchanged *)
Theorem diagonal_point_is_neutral : forall (S T : list rpoint) (x v : R),
  (is_wasserstein (S ++ [(x, x)]) T v <-> is_wasserstein S T v) /\
  (is_wasserstein S (T ++ [(x, x)]) v <-> is_wasserstein S T v).
Proof. intros S T x v. split; [apply diag_point_neutral_spec|apply diag_point_neutral_spec_r]. Qed.
Print Assumptions diagonal_point_is_neutral.

(* the headline: for EVERY solver that returns an optimal assignment of the augmented matrix, the value
   returned is finite and is the minimum over all partial matchings of the finite points of the summed
   Euclidean / (d-b)/sqrt 2 costs.  All sizes (0 included), multiplicities, diagonal points, signs. *)
Theorem wasserstein_correct :
  forall (lsa : list (list (xcost R)) -> lsa_result) (matching : bool) (dgm1 dgm2 : list (xpt R)),
  lsa_optimal_on lsa dgm1 dgm2 ->
  exists v, w_dist (wasserstein lsa matching dgm1 dgm2) = CFin v /\
            is_wasserstein (finite_pts dgm1) (finite_pts dgm2) v.
Proof. exact wasserstein_correct_l. Qed.
Print Assumptions wasserstein_correct.

(* no tie-break is assumed: two solvers that both return optimal assignments give the same distance *)
Theorem wasserstein_oracle_independent : forall lsa1 lsa2 b1 b2 dgm1 dgm2,
  lsa_optimal_on lsa1 dgm1 dgm2 -> lsa_optimal_on lsa2 dgm1 dgm2 ->
  w_dist (wasserstein lsa1 b1 dgm1 dgm2) = w_dist (wasserstein lsa2 b2 dgm1 dgm2).
Proof. exact oracle_independent_l. Qed.
Print Assumptions wasserstein_oracle_independent.

(* the assumption is satisfiable for every input (so wasserstein_correct is never vacuous), the minimum
   always exists, and every admissible solver makes the model return exactly that minimum *)
Theorem wasserstein_value : forall dgm1 dgm2 : list (xpt R),
  exists v, is_wasserstein (finite_pts dgm1) (finite_pts dgm2) v /\
            (exists lsa, lsa_optimal_on lsa dgm1 dgm2) /\
            forall lsa b, lsa_optimal_on lsa dgm1 dgm2 -> w_dist (wasserstein lsa b dgm1 dgm2) = CFin v.
Proof. exact wasserstein_value_l. Qed.
Print Assumptions wasserstein_value.

(* points with a non-finite death are dropped (value and rows unchanged) and the warning is raised *)
Theorem wasserstein_infinite_deaths_ignored :
  forall lsa matching (a b : list (xpt R)) (x : R) dgm2,
    w_dist (wasserstein lsa matching (a ++ (x, None) :: b) dgm2) = w_dist (wasserstein lsa matching (a ++ b) dgm2) /\
    w_rows (wasserstein lsa matching (a ++ (x, None) :: b) dgm2) = w_rows (wasserstein lsa matching (a ++ b) dgm2) /\
    w_dist (wasserstein lsa matching dgm2 (a ++ (x, None) :: b)) = w_dist (wasserstein lsa matching dgm2 (a ++ b)) /\
    w_rows (wasserstein lsa matching dgm2 (a ++ (x, None) :: b)) = w_rows (wasserstein lsa matching dgm2 (a ++ b)) /\
    fst (w_warn (wasserstein lsa matching (a ++ (x, None) :: b) dgm2)) = true /\
    snd (w_warn (wasserstein lsa matching dgm2 (a ++ (x, None) :: b))) = true.
Proof. exact infinite_deaths_ignored_l. Qed.
Print Assumptions wasserstein_infinite_deaths_ignored.

(* value against the empty diagram *)
Theorem wasserstein_vs_empty : forall lsa matching dgm1,
  lsa_optimal_on lsa dgm1 [] ->
  w_dist (wasserstein lsa matching dgm1 []) = CFin (sumRl (map diagW (finite_pts dgm1))).
Proof. exact wasserstein_vs_empty_l. Qed.
Print Assumptions wasserstein_vs_empty.

(* weak LP duality on a matrix with np.inf cells: potentials that are feasible on the finite cells bound
   the cost of every assignment from below *)
Theorem weak_duality : forall (D : list (list (xcost R))) (u v : list R) mi mj s,
  length u = length D -> length v = length D ->
  (forall i j c, (i < length D)%nat -> (j < length D)%nat -> entry D i j = CFin c -> nth i u 0 + nth j v 0 <= c) ->
  is_assignment (length D) mi mj -> xsum (gather D mi mj) = CFin s ->
  sumRl u + sumRl v <= s.
Proof. exact weak_duality_l. Qed.
Print Assumptions weak_duality.

(* the Z.sqrt based bounds used to execute the model *)
Theorem sqrt_enclosure_sound : forall (p : positive) (q : Q),
  Q2R (fst (sqrt_bounds p q)) <= sqrt (Q2R q) <= Q2R (snd (sqrt_bounds p q)).
Proof. exact sqrt_bounds_sound. Qed.
Print Assumptions sqrt_enclosure_sound.

(* how the model is run: whenever the checker accepts the certificates (an assignment, dual potentials) and
   returns (lo, hi), the value of the model on the same (rational) input lies in [lo, hi] - for every
   optimal-assignment solver.  A rejected certificate gives None: never a wrong enclosure. *)
Theorem wass_enclosure_sound :
  forall lsa matching (p : positive) (d1 d2 : list (xpt Q)) (sigma : list nat) (u v : list Q) (lo hi : Q),
  wass_enclosure p d1 d2 sigma u v = Some (lo, hi) ->
  lsa_optimal_on lsa (map injx d1) (map injx d2) ->
  exists x, w_dist (wasserstein lsa matching (map injx d1) (map injx d2)) = CFin x /\ Q2R lo <= x <= Q2R hi.
Proof. exact wass_enclosure_sound_l. Qed.
Print Assumptions wass_enclosure_sound.

(* ---- second return value (shared with C06, Wasserstein half) ------------------------------- *)
(* matching=True returns the same distance *)
Theorem matching_flag_irrelevant : forall lsa dgm1 dgm2,
  w_dist (wasserstein lsa true dgm1 dgm2) = w_dist (wasserstein lsa false dgm1 dgm2).
Proof. exact matching_flag_irrelevant_l. Qed.
Print Assumptions matching_flag_irrelevant.

(* for every optimal-assignment solver the returned rows are a certificate for the returned distance:
   all third entries are finite; among the first (second) entries every index of the placeholder-expanded
   first (second) diagram occurs exactly once and everything else is -1; no (-1,-1) row; each third entry
   is the Euclidean / (d-b)/sqrt 2 cost of its pairing; the third entries sum to the distance - which is
   the min-sum value of the finite points. *)
Theorem wasserstein_matching_cert : forall lsa dgm1 dgm2, lsa_optimal_on lsa dgm1 dgm2 ->
  exists v rs,
    w_dist (wasserstein lsa true dgm1 dgm2) = CFin v /\
    w_rows (wasserstein lsa true dgm1 dgm2) = Some (map (fun r => (fst r, CFin (snd r))) rs) /\
    wass_cert (placeholder 0 (finite_pts dgm1)) (placeholder 0 (finite_pts dgm2)) v rs /\
    is_wasserstein (finite_pts dgm1) (finite_pts dgm2) v.
Proof. exact wasserstein_matching_cert_l. Qed.
Print Assumptions wasserstein_matching_cert.

(* ---- non-vacuity ------------------------------------------------------------------------ *)
(* the enclosure checker does accept certificates: [(0,1)] against [(1,2)] costs sqrt 2 *)
Example enclosure_accepts :
  exists lo hi, wass_enclosure 10 [(0, Some 1)]%Q [(1, Some 2)]%Q [1%nat; 0%nat] [(724#1024); 0]%Q [(724#1024); 0]%Q = Some (lo, hi)
                /\ (hi - lo <= 3 # 1024)%Q.
Proof. eexists. eexists. split; [vm_compute; reflexivity|]. vm_compute. discriminate. Qed.

