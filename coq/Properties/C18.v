(* C18 - Transformers: fit+transform == fit_transform, and refits forget the past.
   Only statements here; every proof is `exact <lemma of Proofs/TransformerP.v>`.
   Model: Model/TransformerM.v.  [approx] / [flat] (what PersLandscapeApprox computes, flatten) and
   [img] (the per-diagram image) are universally quantified: the laws hold whatever they compute.
   [lstep_with fit] / [istep_with fit] return (new state, returned value or exception). *)
From Coq Require Import ZArith QArith List Bool.
From Persim Require Import Model.ImagerM Model.TransformerM Proofs.TransformerP.
Import ListNotations.

(* ---------------------------------------------------------------- landscaper *)
(* for the pinned and the repaired fit alike: when fit succeeds, fit_transform X leaves the state fit X
   leaves and returns what transform X returns on that state; transform leaves that state unchanged *)
Theorem landscaper_fit_then_transform_eq_fit_transform :
  forall V approx flat (fit : lstate -> list diagram -> lres lstate) s X s',
  fit s X = LOk s' ->
  lstep_with V approx flat fit s (LFit X) = (s', LOk None) /\
  lstep_with V approx flat fit s (LFitTransform X) = (s', snd (lstep_with V approx flat fit s' (LTransform X))) /\
  fst (lstep_with V approx flat fit s' (LTransform X)) = s'.
Proof. exact l_fit_then_transform. Qed.
Print Assumptions landscaper_fit_then_transform_eq_fit_transform.

(* ... and in general (including a fit that raises) *)
Theorem landscaper_fit_transform_unfolds :
  forall V approx flat (fit : lstate -> list diagram -> lres lstate) s X,
  lstep_with V approx flat fit s (LFitTransform X) =
  match fit s X with
  | LOk s' => (s', snd (lstep_with V approx flat fit s' (LTransform X)))
  | LErr e => (s, LErr e)
  end.
Proof. exact l_fit_transform_eq. Qed.
Print Assumptions landscaper_fit_transform_unfolds.

(* transform does not alter the state and is repeatable *)
Theorem landscaper_transform_pure :
  forall V approx flat (fit : lstate -> list diagram -> lres lstate) s X,
  fst (lstep_with V approx flat fit s (LTransform X)) = s /\
  snd (lstep_with V approx flat fit (fst (lstep_with V approx flat fit s (LTransform X))) (LTransform X))
  = snd (lstep_with V approx flat fit s (LTransform X)).
Proof. exact l_transform_pure. Qed.
Print Assumptions landscaper_transform_pure.

(* the pinned fit (start / stop filled only while None): fit X1; fit X2 differs from fit X2 on a fresh
   estimator - X1 = [(0,4)], X2 = [(10,14)] leaves the grid at 0..4; the repaired fit gives 10..14 *)
Theorem landscaper_refit_legacy_refuted :
  forall V approx flat,
  let s0 := lctor 0 None None 5 false in
  lpublic (lrun_legacy V approx flat s0 [LFit X1; LFit X2]) <> lpublic (lrun_legacy V approx flat s0 [LFit X2]) /\
  l_start (lrun_legacy V approx flat s0 [LFit X1; LFit X2]) = Some 0 /\
  l_start (lrun_legacy V approx flat s0 [LFit X2]) = Some (10 # 1) /\
  l_start (lrun V approx flat s0 [LFit X1; LFit X2]) = Some (10 # 1) /\
  l_stop (lrun V approx flat s0 [LFit X1; LFit X2]) = Some (14 # 1).
Proof. exact refit_legacy_refuted. Qed.
Print Assumptions landscaper_refit_legacy_refuted.

(* the repaired fit: after ANY history of fit / transform / fit_transform / clone calls (failed ones included),
   fit X yields exactly the state - or the exception - it yields on a fresh estimator constructed with the
   user's parameters: user-fixed ends are kept, learned ones are recomputed from X alone *)
Theorem landscaper_fit_forgets :
  forall V approx flat hom (ustart ustop : option Q) steps flatten (h : list lop) X,
  lfit (lrun V approx flat (fresh hom ustart ustop steps flatten) h) X = lfit (fresh hom ustart ustop steps flatten) X.
Proof. exact landscaper_fit_forgets. Qed.
Print Assumptions landscaper_fit_forgets.

(* hence fit_transform returns the same value after any history as on a fresh estimator *)
Theorem landscaper_fit_transform_forgets :
  forall V approx flat hom (ustart ustop : option Q) steps flatten (h : list lop) X,
  snd (lstep V approx flat (lrun V approx flat (fresh hom ustart ustop steps flatten) h) (LFitTransform X))
  = snd (lstep V approx flat (fresh hom ustart ustop steps flatten) (LFitTransform X)) /\
  (forall s', lfit (fresh hom ustart ustop steps flatten) X = LOk s' ->
     fst (lstep V approx flat (lrun V approx flat (fresh hom ustart ustop steps flatten) h) (LFitTransform X)) = s').
Proof. exact landscaper_fit_transform_forgets. Qed.
Print Assumptions landscaper_fit_transform_forgets.

(* scikit-learn's clone contract: get_params() reports the user's start / stop after any history *)
Theorem landscaper_params_are_users :
  forall V approx flat hom (ustart ustop : option Q) steps flatten (h : list lop),
  lparams (lrun V approx flat (fresh hom ustart ustop steps flatten) h) = (ustart, ustop).
Proof. exact landscaper_params_are_users. Qed.
Print Assumptions landscaper_params_are_users.

Theorem landscaper_clone_is_fresh :
  forall V approx flat hom (ustart ustop : option Q) steps flatten (h : list lop),
  fst (lstep V approx flat (lrun V approx flat (fresh hom ustart ustop steps flatten) h) LClone)
  = fresh hom ustart ustop steps flatten.
Proof. exact landscaper_clone_is_fresh. Qed.
Print Assumptions landscaper_clone_is_fresh.

(* with nothing user-fixed the learned grid spans every bar of X[hom_deg] *)
Theorem landscaper_fit_learns_span :
  forall V approx flat hom steps flatten (h : list lop) X s',
  lfit (lrun V approx flat (fresh hom None None steps flatten) h) X = LOk s' ->
  exists d a b, nth_error X hom = Some d /\ d <> [] /\ l_start s' = Some a /\ l_stop s' = Some b /\
    forall x, In x d -> Qle a (fst x) /\ Qle (snd x) b.
Proof. exact landscaper_fit_learns_span. Qed.
Print Assumptions landscaper_fit_learns_span.

(* ---------------------------------------------------------------- imager (any numeric instance: Q or binary64) *)
Theorem imager_fit_then_transform_eq_fit_transform :
  forall N I img (f : state N -> coll N -> bool -> state N) s c k,
  istep_with N I img f s (IFitTransform c k) =
  (fst (istep_with N I img f s (IFit c k)),
   snd (istep_with N I img f (fst (istep_with N I img f s (IFit c k))) (ITransform c k))).
Proof. exact i_fit_transform_eq. Qed.
Print Assumptions imager_fit_then_transform_eq_fit_transform.

Theorem imager_transform_pure :
  forall N I img (f : state N -> coll N -> bool -> state N) s c k,
  fst (istep_with N I img f s (ITransform c k)) = s /\
  snd (istep_with N I img f (fst (istep_with N I img f s (ITransform c k))) (ITransform c k))
  = snd (istep_with N I img f s (ITransform c k)).
Proof. exact i_transform_pure. Qed.
Print Assumptions imager_transform_pure.

(* a collection is mapped diagram by diagram, in order; element i is what the one-diagram call returns *)
Theorem imager_maps_elementwise :
  forall N I img (s : state N) c k,
  length (itransform N I img s c k) = length (fst c :: snd c) /\
  (forall i d, nth_error (fst c :: snd c) i = Some d ->
     nth_error (itransform N I img s c k) i = Some (image_of N I img s k d) /\
     itransform N I img s (d, []) k = [image_of N I img s k d]).
Proof. exact i_maps_elementwise. Qed.
Print Assumptions imager_maps_elementwise.

(* fit overwrites both ranges and recomputes everything else from them: two states with the same pixel
   size are mapped to literally the same state (all attributes and both meshes; over Q and over binary64) *)
Theorem imager_fit_forgets :
  forall N (s1 s2 : state N) c k, psz s1 = psz s2 -> fit N s1 c k = fit N s2 c k.
Proof. exact i_fit_forgets. Qed.
Print Assumptions imager_fit_forgets.

(* ... so after any two histories of fit / transform / fit_transform calls, fit_transform returns the same
   images and leaves the same state *)
Theorem imager_fit_forgets_history :
  forall N I img (s1 s2 : state N) (h1 h2 : list (iop N)) c k, psz s1 = psz s2 ->
  istep N I img (irun N I img s1 h1) (IFitTransform c k) = istep N I img (irun N I img s2 h2) (IFitTransform c k) /\
  fit N (irun N I img s1 h1) c k = fit N s2 c k.
Proof. exact i_fit_forgets_history. Qed.
Print Assumptions imager_fit_forgets_history.

(* non-vacuity *)
Example landscaper_hyp_satisfiable :
  exists s', lfit (fresh 0 None (Some (20 # 1)) 5 true) X2 = LOk s' /\ l_start s' = Some (10 # 1) /\ l_stop s' = Some (20 # 1).
Proof. eexists. repeat split. Qed.
