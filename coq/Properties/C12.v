(* C12 - Imager geometry stays self-consistent under any configuration history.
   Only statements here; every proof is `exact <lemma of Proofs/ImagerP.v>`.
   Model: Model/ImagerM.v (one model text; instance QNum = exact rationals, FNum = binary64).
   [Inv s]: pixel size positive, width = res_w*ps, height = res_h*ps, hi - lo = width on both axes,
   mesh node i = lo + i*ps for i = 0..res (so every pixel is a square of side exactly ps), and the
   image transform returns has shape = resolution. *)
From Coq Require Import ZArith QArith Qround List Bool Lia.
From Coq Require PrimFloat.
From Persim Require Import Model.ImagerM Proofs.ImagerP.
Import ListNotations.
Open Scope Q_scope.

(* the repaired constructor establishes the invariant, covers the requested ranges and exceeds
   each of them by less than one pixel *)
Theorem imager_ctor_inv : forall bl bh pl ph ps : Q, 0 < ps -> bl <= bh -> pl <= ph ->
  let s := ctor QNum bl bh pl ph ps in
  Inv s /\ psz s = ps /\
  blo s <= bl /\ bh <= bhi s /\ width s - (bh - bl) < ps /\
  plo s <= pl /\ ph <= phi s /\ height s - (ph - pl) < ps.
Proof. exact ctor_inv. Qed.
Print Assumptions imager_ctor_inv.

(* every operation (range assignment with lo <= hi, pixel size > 0, fit on non-empty data) keeps the
   invariant and meets its post-condition [post]: the new range contains the assigned range / every
   fitted point / the range covered before, exceeds it by < one pixel, and the other axis is untouched *)
Theorem imager_setter_inv : forall (s : state QNum) (o : op QNum), Inv s -> op_ok o ->
  Inv (step QNum s o) /\
  match o with
  | SetBirth lo hi => psz (step QNum s o) = psz s /\ blo (step QNum s o) <= lo /\ hi <= bhi (step QNum s o) /\
                      width (step QNum s o) - (hi - lo) < psz s /\
                      plo (step QNum s o) == plo s /\ phi (step QNum s o) == phi s /\
                      height (step QNum s o) = height s /\ resh (step QNum s o) = resh s
  | SetPers lo hi => psz (step QNum s o) = psz s /\ plo (step QNum s o) <= lo /\ hi <= phi (step QNum s o) /\
                     height (step QNum s o) - (hi - lo) < psz s /\
                     blo (step QNum s o) == blo s /\ bhi (step QNum s o) == bhi s /\
                     width (step QNum s o) = width s /\ resw (step QNum s o) = resw s
  | SetPixel p => psz (step QNum s o) = p /\
                  blo (step QNum s o) <= blo s /\ bhi s <= bhi (step QNum s o) /\
                  width (step QNum s o) - (bhi s - blo s) < p /\
                  plo (step QNum s o) <= plo s /\ phi s <= phi (step QNum s o) /\
                  height (step QNum s o) - (phi s - plo s) < p
  | Fit c k =>
      psz (step QNum s o) = psz s /\
      (forall p, In p (coll_points k c) ->
         blo (step QNum s o) <= fst p <= bhi (step QNum s o) /\ plo (step QNum s o) <= snd p <= phi (step QNum s o)) /\
      exists mnb mxb mnp mxp,
        In mnb (map fst (coll_points k c)) /\ In mxb (map fst (coll_points k c)) /\
        In mnp (map snd (coll_points k c)) /\ In mxp (map snd (coll_points k c)) /\
        width (step QNum s o) - (mxb - mnb) < psz s /\ height (step QNum s o) - (mxp - mnp) < psz s
  end.
Proof. exact setter_inv. Qed.
Print Assumptions imager_setter_inv.

(* from any consistent state, every finite history of valid operations ends in a consistent state
   (and so does every prefix of it) *)
Theorem imager_history_inv : forall (h : list (op QNum)) (s : state QNum),
  Inv s -> Forall op_ok h -> Inv (run QNum s h).
Proof. exact history_inv. Qed.
Print Assumptions imager_history_inv.

Theorem imager_history_inv_from_ctor : forall bl bh pl ph ps (h1 h2 : list (op QNum)),
  0 < ps -> bl <= bh -> pl <= ph -> Forall op_ok (h1 ++ h2) ->
  Inv (run QNum (ctor QNum bl bh pl ph ps) h1).
Proof.
  intros bl bh pl ph ps h1 h2 Hp Lb Lp F.
  exact (history_inv_prefix h1 h2 _ (proj1 (ctor_inv bl bh pl ph ps Hp Lb Lp)) F).
Qed.
Print Assumptions imager_history_inv_from_ctor.

(* the pinned constructor (truncation, no rounding up) is consistent iff the pixel size divides both extents *)
Theorem imager_ctor_legacy_inv_iff : forall bl bh pl ph ps : Q, 0 < ps -> bl <= bh -> pl <= ph ->
  (Inv (ctor_legacy QNum bl bh pl ph ps) <->
   (exists k : Z, bh - bl == inject_Z k * ps) /\ (exists k : Z, ph - pl == inject_Z k * ps)).
Proof. exact ctor_legacy_inv_iff. Qed.
Print Assumptions imager_ctor_legacy_inv_iff.

(* ... and is refuted: range (0,1), pixel 3/10 gives 3 pixels of side 13/40 *)
Theorem imager_ctor_legacy_refuted :
  exists bl bh pl ph ps : Q, 0 < ps /\ bl < bh /\ pl < ph /\
    let s := ctor_legacy QNum bl bh pl ph ps in
    nth 1 (bpnts s) 0 - nth 0 (bpnts s) 0 == 13 # 40 /\ psz s == 3 # 10 /\ resw s = 3%Z /\ ~ Inv s.
Proof. exact ctor_legacy_refuted. Qed.
Print Assumptions imager_ctor_legacy_refuted.

(* in exact arithmetic the pinned setters coincide with the repaired ones: their defect is rounding only *)
Theorem imager_legacy_setters_exact : forall (s : state QNum) (o : op QNum), Inv s -> op_ok o ->
  step_legacy QNum s o = step QNum s o.
Proof. exact legacy_setters_exact. Qed.
Print Assumptions imager_legacy_setters_exact.

(* binary64: with ps = 0x1.76f7bea3dabf5p-1 and birth_range := (0, 7*ps) the pinned setter needs 7 pixels,
   sets width = 7*ps, but reports int(width/ps) = 6 pixels, so resolution*ps <> width and the mesh step
   exceeds ps; the repaired setter reports 7 *)
Theorem imager_setter_float_refuted :
  exists (ps hi : PrimFloat.float),
    let s0 := ctor_legacy FNum f0 f1 f0 f1 ps in
    let s := set_birth_legacy FNum s0 f0 hi in
    num_pixels FNum ps f0 hi = 7%Z /\ resw s = 6%Z /\
    PrimFloat.eqb (PrimFloat.mul (fl_of_Z (resw s)) (psz s)) (width s) = false /\
    PrimFloat.eqb (PrimFloat.sub (bhi s) (blo s)) (width s) = true /\
    PrimFloat.ltb (psz s) (PrimFloat.sub (nth 1 (bpnts s) f0) (nth 0 (bpnts s) f0)) = true /\
    resw (set_birth FNum (ctor FNum f0 f1 f0 f1 ps) f0 hi) = 7%Z.
Proof. exact setter_float_refuted. Qed.
Print Assumptions imager_setter_float_refuted.

(* pixels are squares of side exactly the pixel size, and the meshes start and end at the range ends *)
Theorem imager_pixels_square : forall s : state QNum, Inv s ->
  (forall i, (Z.of_nat i < resw s)%Z -> nth (S i) (bpnts s) 0 - nth i (bpnts s) 0 == psz s) /\
  (forall j, (Z.of_nat j < resh s)%Z -> nth (S j) (ppnts s) 0 - nth j (ppnts s) 0 == psz s) /\
  nth 0 (bpnts s) 0 == blo s /\ nth (Z.to_nat (resw s)) (bpnts s) 0 == bhi s /\
  nth 0 (ppnts s) 0 == plo s /\ nth (Z.to_nat (resh s)) (ppnts s) 0 == phi s.
Proof. exact pixels_square. Qed.
Print Assumptions imager_pixels_square.

(* a point mass at (x, y) inside the covered region falls into the pixel
   (floor((x - blo)/ps), floor((y - plo)/ps)), and that pixel exists *)
Theorem imager_locate_pixel : forall (s : state QNum) (x y : Q), Inv s ->
  blo s <= x -> x < bhi s -> plo s <= y -> y < phi s ->
  locate QNum (bpnts s) x = Qfloor ((x - blo s) / psz s) /\
  (0 <= Qfloor ((x - blo s) / psz s) < resw s)%Z /\
  locate QNum (ppnts s) y = Qfloor ((y - plo s) / psz s) /\
  (0 <= Qfloor ((y - plo s) / psz s) < resh s)%Z.
Proof.
  intros s x y HI A B C D.
  destruct (locate_pixel s x HI A B) as (E & F). destruct (locate_pixel_pers s y HI C D) as (G & H).
  repeat split; assumption || apply F || apply H.
Qed.
Print Assumptions imager_locate_pixel.

(* non-vacuity: a concrete consistent state and a valid history *)
Example imager_hyp_satisfiable :
  Inv (ctor QNum 0 1 0 1 (3 # 10)) /\
  Forall op_ok [@SetBirth QNum 0 (7 # 10); @SetPixel QNum (1 # 3);
                @Fit QNum (((0, 4), [(1 # 2, 3)]), []) true].
Proof.
  split.
  - apply ctor_inv; unfold Qlt, Qle; cbn; lia.
  - repeat constructor; unfold Qlt, Qle; cbn; lia.
Qed.
