(* C12 - Imager geometry stays self-consistent under any configuration history.
   Only statements here; every proof is `exact <lemma of Proofs/ImagerP.v>`.
   Model: Model/ImagerM.v (one model text; instance QNum = exact rationals, FNum = binary64).
   [Inv s]: pixel size positive, width = res_w*ps, height = res_h*ps, hi - lo = width on both axes,
   mesh node i = lo + i*ps for i = 0..res (so every pixel is a square of side exactly ps), and the
   image transform returns has shape = resolution. *)
From Coq Require Import ZArith QArith Qround List Bool Lia.
From Coq Require PrimFloat.
From Persim Require Import Model.ImagerM Proofs.ImagerP.
Import ListNotations.
Open Scope Q_scope.

(* the repaired constructor establishes the invariant, covers the requested ranges and exceeds
   each of them by less than one pixel *)
Theorem imager_ctor_inv : forall bl bh pl ph ps : Q, 0 < ps -> bl <= bh -> pl <= ph ->
  let s := ctor QNum bl bh pl ph ps in
  Inv s /\ psz s = ps /\
  blo s <= bl /\ bh <= bhi s /\ width s - (bh - bl) < ps /\
  plo s <= pl /\ ph <= phi s /\ height s - (ph - pl) < ps.
Proof. exact ctor_inv. Qed.
Print Assumptions imager_ctor_inv.

(* every operation (range assignment with lo <= hi, pixel size > 0, fit on non-empty data) keeps the
   invariant and meets its post-condition [post]: the new range contains the assigned range / every
   fitted point / the range covered before, exceeds it by < one pixel, and the other axis is untouched *)
Theorem imager_setter_inv : forall (s : state QNum) (o : op QNum), Inv s -> op_ok o ->
  Inv (step QNum s o) /\
  match o with
  | SetBirth lo hi => psz (step QNum s o) = psz s /\ blo (step QNum s o) <= lo /\ hi <= bhi (step QNum s o) /\
                      width (step QNum s o) - (hi - lo) < psz s /\
                      plo (step QNum s o) == plo s /\ phi (step QNum s o) == phi s /\
                      height (step QNum s o) = height s /\ resh (step QNum s o) = resh s
  | SetPers lo hi => psz (step QNum s o) = psz s /\ plo (step QNum s o) <= lo /\ hi <= phi (step QNum s o) /\
                     height (step QNum s o) - (hi - lo) < psz s /\
                     blo (step QNum s o) == blo s /\ bhi (step QNum s o) == bhi s /\
                     width (step QNum s o) = width s /\ resw (step QNum s o) = resw s
  | SetPixel p => psz (step QNum s o) = p /\
                  blo (step QNum s o) <= blo s /\ bhi s <= bhi (step QNum s o) /\
                  width (step QNum s o) - (bhi s - blo s) < p /\
                  plo (step QNum s o) <= plo s /\ phi s <= phi (step QNum s o) /\
                  height (step QNum s o) - (phi s - plo s) < p
  | Fit c k =>
      psz (step QNum s o) = psz s /\
      (forall p, In p (coll_points k c) ->
         blo (step QNum s o) <= fst p <= bhi (step QNum s o) /\ plo (step QNum s o) <= snd p <= phi (step QNum s o)) /\
      exists mnb mxb mnp mxp,
        In mnb (map fst (coll_points k c)) /\ In mxb (map fst (coll_points k c)) /\
        In mnp (map snd (coll_points k c)) /\ In mxp (map snd (coll_points k c)) /\
        width (step QNum s o) - (mxb - mnb) < psz s /\ height (step QNum s o) - (mxp - mnp) < psz s
  end.
Proof. exact setter_inv. Qed.
Print Assumptions imager_setter_inv.

(* from any consistent state, every finite history of valid operations ends in a consistent state
   (and so does every prefix of it) *)
Theorem imager_history_inv : forall (h : list (op QNum)) (s : state QNum),
  Inv s -> Forall op_ok h -> Inv (run QNum s h).
Proof. exact history_inv. Qed.
Print Assumptions imager_history_inv.

Theorem imager_history_inv_from_ctor : forall bl bh pl ph ps (h1 h2 : list (op QNum)),
  0 < ps -> bl <= bh -> pl <= ph -> Forall op_ok (h1 ++ h2) ->
  Inv (run QNum (ctor QNum bl bh pl ph ps) h1).
Proof.
  intros bl bh pl ph ps h1 h2 Hp Lb Lp F.
  exact (history_inv_prefix h1 h2 _ (proj1 (ctor_inv bl bh pl ph ps Hp Lb Lp)) F).
Qed.
Print Assumptions imager_history_inv_from_ctor.

(* the pinned constructor (truncation, no rounding up) is consistent iff the pixel size divides both extents *)
Theorem imager_ctor_legacy_inv_iff : forall bl bh pl ph ps : Q, 0 < ps -> bl <= bh -> pl <= ph ->
  (Inv (ctor_legacy QNum bl bh pl ph ps) <->
   (exists k : Z, bh - bl == inject_Z k * ps) /\ (exists k : Z, ph - pl == inject_Z k * ps)).
Proof. exact ctor_legacy_inv_iff. Qed.
Print Assumptions imager_ctor_legacy_inv_iff.

(* ... and is refuted: range (0,1), pixel 3/10 gives 3 pixels of side 13/40 *)
Theorem imager_ctor_legacy_refuted :
  exists bl bh pl ph ps : Q, 0 < ps /\ bl < bh /\ pl < ph /\
    let s := ctor_legacy QNum bl bh pl ph ps in
    nth 1 (bpnts s) 0 - nth 0 (bpnts s) 0 == 13 # 40 /\ psz s == 3 # 10 /\ resw s = 3%Z /\ ~ Inv s.
Proof. exact ctor_legacy_refuted. Qed.
Print Assumptions imager_ctor_legacy_refuted.

(* in exact arithmetic the pinned setters coincide with the repaired ones: their defect is rounding only *)
Theorem imager_legacy_setters_exact : forall (s : state QNum) (o : op QNum), Inv s -> op_ok o ->
  step_legacy QNum s o = step QNum s o.
Proof. exact legacy_setters_exact. Qed.
Print Assumptions imager_legacy_setters_exact.

(* binary64: with ps = 0x1.76f7bea3dabf5p-1 and birth_range := (0, 7*ps) the pinned setter needs 7 pixels,
   sets width = 7*ps, but reports int(width/ps) = 6 pixels, so resolution*ps <> width and the mesh step
   exceeds ps; the repaired setter reports 7 *)
Theorem imager_setter_float_refuted :
  exists (ps hi : PrimFloat.float),
    let s0 := ctor_legacy FNum f0 f1 f0 f1 ps in
    let s := set_birth_legacy FNum s0 f0 hi in
    num_pixels FNum ps f0 hi = 7%Z /\ resw s = 6%Z /\
    PrimFloat.eqb (PrimFloat.mul (fl_of_Z (resw s)) (psz s)) (width s) = false /\
    PrimFloat.eqb (PrimFloat.sub (bhi s) (blo s)) (width s) = true /\
    PrimFloat.ltb (psz s) (PrimFloat.sub (nth 1 (bpnts s) f0) (nth 0 (bpnts s) f0)) = true /\
    resw (set_birth FNum (ctor FNum f0 f1 f0 f1 ps) f0 hi) = 7%Z.
Proof. exact setter_float_refuted. Qed.
Print Assumptions imager_setter_float_refuted.

(* pixels are squares of side exactly the pixel size, and the meshes start and end at the range ends *)
Theorem imager_pixels_square : forall s : state QNum, Inv s ->
  (forall i, (Z.of_nat i < resw s)%Z -> nth (S i) (bpnts s) 0 - nth i (bpnts s) 0 == psz s) /\
  (forall j, (Z.of_nat j < resh s)%Z -> nth (S j) (ppnts s) 0 - nth j (ppnts s) 0 == psz s) /\
  nth 0 (bpnts s) 0 == blo s /\ nth (Z.to_nat (resw s)) (bpnts s) 0 == bhi s /\
  nth 0 (ppnts s) 0 == plo s /\ nth (Z.to_nat (resh s)) (ppnts s) 0 == phi s.
Proof. exact pixels_square. Qed.
Print Assumptions imager_pixels_square.

(* a point mass at (x, y) inside the covered region falls into the pixel
   (floor((x - blo)/ps), floor((y - plo)/ps)), and that pixel exists *)
Theorem imager_locate_pixel : forall (s : state QNum) (x y : Q), Inv s ->
  blo s <= x -> x < bhi s -> plo s <= y -> y < phi s ->
  locate QNum (bpnts s) x = Qfloor ((x - blo s) / psz s) /\
  (0 <= Qfloor ((x - blo s) / psz s) < resw s)%Z /\
  locate QNum (ppnts s) y = Qfloor ((y - plo s) / psz s) /\
  (0 <= Qfloor ((y - plo s) / psz s) < resh s)%Z.
Proof.
  intros s x y HI A B C D.
  destruct (locate_pixel s x HI A B) as (E & F). destruct (locate_pixel_pers s y HI C D) as (G & H).
  repeat split; assumption || apply F || apply H.
Qed.
Print Assumptions imager_locate_pixel.

(* non-vacuity: a concrete consistent state and a valid history *)
Example imager_hyp_satisfiable :
  Inv (ctor QNum 0 1 0 1 (3 # 10)) /\
  Forall op_ok [@SetBirth QNum 0 (7 # 10); @SetPixel QNum (1 # 3);
                @Fit QNum (((0, 4), [(1 # 2, 3)]), []) true].
Proof.
  split.
  - apply ctor_inv; unfold Qlt, Qle; cbn; lia.
  - repeat constructor; unfold Qlt, Qle; cbn; lia.
Qed.

(* =============================================================================================
   Cross-property glue (lemmas in Proofs/ImageGlueP.v): C12 -> C04 / C11 / C13.
   The meshes of a state are handed, through Q2R, to the transform model of C04 (Model/ImageM.v, over R);
   the companion theorems image_on_imager_state / history_then_transform are at the end of Properties/C04.v,
   pixels_nonneg_on_imager_state / uniform_mass_conserved_on_imager_state at the end of Properties/C11.v. *)
From Coq Require Import Reals Qreals.
From Persim Require Spec.ImageS Model.ImageM Proofs.ImageP Model.ImageKernelM Proofs.ImageGlueP.

(* the meshes of a consistent state, read over R, are what C04 / C11 ask of a mesh: res+1 non-decreasing
   nodes per axis, node i = lo + i * ps, spanning exactly [blo, bhi] x [plo, phi] *)
Theorem imager_mesh_feeds_transform : forall s : state QNum, Inv s ->
  (0 < psz s /\ (0 <= resw s)%Z /\ (0 <= resh s)%Z) /\
  length (map Q2R (bpnts s)) = Z.to_nat (resw s + 1) /\ length (map Q2R (ppnts s)) = Z.to_nat (resh s + 1) /\
  (forall i, (Z.of_nat i < resw s)%Z ->
     (nth i (map Q2R (bpnts s)) 0%R, nth (S i) (map Q2R (bpnts s)) 0%R)
     = (Q2R (blo s) + INR i * Q2R (psz s), Q2R (blo s) + (INR i + 1) * Q2R (psz s))%R) /\
  (forall j, (Z.of_nat j < resh s)%Z ->
     (nth j (map Q2R (ppnts s)) 0%R, nth (S j) (map Q2R (ppnts s)) 0%R)
     = (Q2R (plo s) + INR j * Q2R (psz s), Q2R (plo s) + (INR j + 1) * Q2R (psz s))%R) /\
  ImageS.nondecr (map Q2R (bpnts s)) /\ ImageS.nondecr (map Q2R (ppnts s)) /\
  ImageP.span (map Q2R (bpnts s)) = (Q2R (blo s), Q2R (bhi s)) /\
  ImageP.span (map Q2R (ppnts s)) = (Q2R (plo s), Q2R (phi s)).
Proof.
  intros s HI. destruct (ImageGlueP.inv_meshes s HI) as (A & B & C & D & E & F & G & H & I).
  destruct (ImageGlueP.span_on_state s HI) as (J & K).
  repeat split; assumption.
Qed.
Print Assumptions imager_mesh_feeds_transform.

(* H4: fit, then transform (fit_transform).  From ANY consistent state, after Fit on a collection c:
   (1) the state is consistent;
   (2) every point _transform then processes for a diagram of c (C04's skew over R = fit's skew over Q) lies in
       the covered region [blo, bhi] x [plo, phi];
   (3) a fitted point off the upper edges is located (imager_locate_pixel) in an EXISTING pixel (i, j), and that
       pixel's square [blo + i ps, blo + (i+1) ps) x [plo + j ps, plo + (j+1) ps) contains it;
   (4) with kernel = images_kernels.uniform (model of C13), any width, height > 0, any weight:
       a diagram of c all of whose kernel boxes lie inside the covered region keeps its whole weight
       (image total = total weight), and a fitted point whose box lies inside pixel (i, j) gives that pixel
       its whole weight. *)
Theorem fit_covers_points_then_mass : forall (s : state QNum) (c : coll QNum) (k : bool), Inv s ->
  let s' := step QNum s (Fit c k) in
  let q2r := fun p : Q * Q => (Q2R (fst p), Q2R (snd p)) in
  let sq_b := fun i : nat => (Q2R (blo s') + INR i * Q2R (psz s'), Q2R (blo s') + (INR i + 1) * Q2R (psz s'))%R in
  let sq_p := fun j : nat => (Q2R (plo s') + INR j * Q2R (psz s'), Q2R (plo s') + (INR j + 1) * Q2R (psz s'))%R in
  Inv s' /\
  (forall d, In d (fst c :: snd c) -> forall pt, In pt (ImageM.to_birth_pers k (map q2r (fst d :: snd d))) ->
     (Q2R (blo s') <= fst pt <= Q2R (bhi s') /\ Q2R (plo s') <= snd pt <= Q2R (phi s'))%R) /\
  (forall p, In p (coll_points k c) -> fst p < bhi s' -> snd p < phi s' ->
     exists i j : nat,
       locate QNum (bpnts s') (fst p) = Z.of_nat i /\ (Z.of_nat i < resw s')%Z /\
       locate QNum (ppnts s') (snd p) = Z.of_nat j /\ (Z.of_nat j < resh s')%Z /\
       (fst (sq_b i) <= Q2R (fst p) < snd (sq_b i) /\ fst (sq_p j) <= Q2R (snd p) < snd (sq_p j))%R) /\
  (forall Phi Kgauss w wd ht, (0 < wd)%R -> (0 < ht)%R ->
     (forall d, In d (fst c :: snd c) ->
        (forall pt, In pt (ImageM.to_birth_pers k (map q2r (fst d :: snd d))) ->
           (Q2R (blo s') <= fst pt - wd / 2 /\ fst pt + wd / 2 <= Q2R (bhi s') /\
            Q2R (plo s') <= snd pt - ht / 2 /\ snd pt + ht / 2 <= Q2R (phi s'))%R) ->
        ImageS.img_total (ImageM.transform_one Phi Kgauss k w (ImageM.OtherKernel (ImageKernelM.uniform_kernelM wd ht))
                            (map Q2R (bpnts s')) (map Q2R (ppnts s')) (map q2r (fst d :: snd d)))
        = ImageS.total_weight w (map q2r (dgm_points QNum k d))) /\
     (forall p i j, In p (coll_points k c) -> (Z.of_nat i < resw s')%Z -> (Z.of_nat j < resh s')%Z ->
        (fst (sq_b i) <= Q2R (fst p) - wd / 2)%R -> (Q2R (fst p) + wd / 2 <= snd (sq_b i))%R ->
        (fst (sq_p j) <= Q2R (snd p) - ht / 2)%R -> (Q2R (snd p) + ht / 2 <= snd (sq_p j))%R ->
        nth j (nth i (ImageM.transform_one Phi Kgauss false w (ImageM.OtherKernel (ImageKernelM.uniform_kernelM wd ht))
                        (map Q2R (bpnts s')) (map Q2R (ppnts s')) [q2r p]) []) 0%R
        = w (Q2R (fst p)) (Q2R (snd p)))).
Proof. exact ImageGlueP.fit_then_transform. Qed.
Print Assumptions fit_covers_points_then_mass.

(* non-vacuity: from the constructor's state (0,1)x(0,1), ps = 3/10, fit the two points (0,4), (1/2,13/5) given in
   birth-persistence coordinates; the fitted point (1/2, 13/5) is off the upper edges, and a 1/10 x 1/10 box around
   it lies inside the covered region [-1/20, 11/20] x [13/5 - 1/20, 4 + 1/20] *)
Example fit_covers_points_then_mass_hyp_satisfiable :
  let c : coll QNum := (((0, 4), [(1 # 2, 13 # 5)]), []) in
  let s' := step QNum (ctor QNum 0 1 0 1 (3 # 10)) (Fit c false) in
  Inv (ctor QNum 0 1 0 1 (3 # 10)) /\ In (1 # 2, 13 # 5) (coll_points false c) /\
  (resw s', resh s') = (2, 5)%Z /\
  1 # 2 < bhi s' /\ 13 # 5 < phi s' /\
  blo s' <= (1 # 2) - (1 # 20) /\ (1 # 2) + (1 # 20) <= bhi s' /\
  plo s' <= (13 # 5) - (1 # 20) /\ (13 # 5) + (1 # 20) <= phi s'.
Proof.
  cbv zeta. split; [apply ctor_inv; unfold Qlt, Qle; cbn; lia|].
  split; [right; left; vm_compute; reflexivity|].
  split; [vm_compute; reflexivity|].
  repeat split; vm_compute; congruence.
Qed.

(* imager_locate_pixel tied to the transform model of C04: feed the state's meshes and the UNIT POINT MASS at a
   point (x, y) of the covered region (its CDF, continuous from the left, passed as a callable kernel) to
   _transform: pixel (locate bpnts x, locate ppnts y) receives the weight of the point and every other pixel 0.
   So `locate` IS the pixel a point mass falls into, with the half-open convention [node_i, node_{i+1}). *)
Theorem point_mass_lands_in_located_pixel : forall (s : state QNum) Phi Kgauss w (x y : Q) (i j : nat), Inv s ->
  blo s <= x -> x < bhi s -> plo s <= y -> y < phi s ->
  (Z.of_nat i < resw s)%Z -> (Z.of_nat j < resh s)%Z ->
  nth j (nth i (ImageM.transform_one Phi Kgauss false w
                  (ImageM.OtherKernel (fun mb mp u v => (if Rlt_dec mb u then 1 else 0) * (if Rlt_dec mp v then 1 else 0))%R)
                  (map Q2R (bpnts s)) (map Q2R (ppnts s)) [(Q2R x, Q2R y)]) []) 0%R
  = if ((Z.of_nat i =? locate QNum (bpnts s) x)%Z && (Z.of_nat j =? locate QNum (ppnts s) y)%Z)%bool
    then w (Q2R x) (Q2R y) else 0%R.
Proof. exact ImageGlueP.point_mass_on_state. Qed.
Print Assumptions point_mass_lands_in_located_pixel.

(* non-vacuity: on the constructor's state (0,1) x (0,1), ps = 3/10 (4 x 4 pixels, region [-1/10, 11/10]^2)
   the point (1/2, 9/10) is located in pixel (2, 3) *)
Example point_mass_lands_in_located_pixel_hyp_satisfiable :
  let s := ctor QNum 0 1 0 1 (3 # 10) in
  Inv s /\ blo s <= 1 # 2 /\ 1 # 2 < bhi s /\ plo s <= 9 # 10 /\ 9 # 10 < phi s /\
  (locate QNum (bpnts s) (1 # 2), locate QNum (ppnts s) (9 # 10)) = (2, 3)%Z /\ (resw s, resh s) = (4, 4)%Z.
Proof.
  cbv zeta. split; [apply ctor_inv; unfold Qlt, Qle; cbn; lia|].
  repeat split; vm_compute; congruence.
Qed.
