(* C01 - the bottleneck distance is the true min-max matching cost.
   Only statements here; every proof is `exact <lemma>`. *)
From Coq Require Import QArith Qminmax Qabs List Bool Arith Permutation.
From Persim Require Import Spec.PartialMatching Spec.BottleneckS Lib.AugMatching Model.BneckM.
Import ListNotations.
Open Scope Q_scope.

(* every valid partial matching extends to a perfect matching of the augmented square that avoids
   the forbidden (infinite-cost) cells *)
Theorem aug_extend_perfect : forall M N m, valid_pm M N m ->
  perfect_on (M + N) (extend M N m) /\ avoids M N (extend M N m) /\ restrict M N (extend M N m) = m.
Proof. intros M N m V. exact (conj (extend_perfect M N m V) (conj (extend_avoids M N m V) (extend_restrict M N m V))). Qed.
Print Assumptions aug_extend_perfect.

(* every perfect matching E of the augmented square avoiding the forbidden cells restricts to a valid
   partial matching whose costs, plus zeros, are the costs along E -- for any four-block cost assignment *)
Theorem aug_costs_perm : forall (P C : Type) (cpair : P -> P -> C) (cdiag : P -> C) (dflt : P) (zero : C)
    (S T : list P) (c : nat * nat -> C),
  (forall i j, (i < length S)%nat -> (j < length T)%nat -> c (i, j) = cpair (nth i S dflt) (nth j T dflt)) ->
  (forall i, (i < length S)%nat -> c (i, (length T + i)%nat) = cdiag (nth i S dflt)) ->
  (forall j, (j < length T)%nat -> c ((length S + j)%nat, j) = cdiag (nth j T dflt)) ->
  (forall i j, (length S <= i)%nat -> (length T <= j)%nat -> c (i, j) = zero) ->
  forall E, perfect_on (length S + length T) E -> avoids (length S) (length T) E ->
  valid_pm (length S) (length T) (restrict (length S) (length T) E) /\
  Permutation (map c E)
    (pm_costs cpair cdiag dflt S T (restrict (length S) (length T) E)
     ++ repeat zero (length (restrict (length S) (length T) E))).
Proof.
  intros P C cpair cdiag dflt zero S T c H1 H2 H3 H4 E PE AV. split.
  - exact (restrict_valid _ _ E PE).
  - exact (costs_restrict cpair cdiag dflt zero S T c H1 H2 H3 H4 E PE AV).
Qed.
Print Assumptions aug_costs_perm.

From Coq Require Import Sorted.
From Persim Require Import Proofs.BneckP.

(* The while loop of bottleneck.py:104-118.  For thresholds ds sorted in non-decreasing order, all
   <= bdist, and either a perfect matching mt of the threshold graph at bdist in hand or a feasible last
   element: the loop terminates within the fuel and returns the LEAST feasible threshold b (no feasible
   element of ds is below it) together with a perfect matching of the threshold graph at b.
   ("perfect matching of the threshold graph of D at d" is spelled out.) *)
Theorem bsearch_least_feasible : forall oracle, max_matching_oracle oracle ->
  forall D fuel ds bdist mt,
  (length ds < fuel)%nat ->
  StronglySorted (fun a b => cle a b = true) ds ->
  (forall x, In x ds -> cle x bdist = true) ->
  ((is_matching (graph D bdist) mt /\ length mt = length D) \/
   (ds <> [] /\ exists m, is_matching (graph D (last ds CInf)) m /\ length m = length D)) ->
  exists b mt', bsearch oracle fuel D ds bdist mt = Some (b, mt') /\
    (is_matching (graph D b) mt' /\ length mt' = length D) /\
    cle b bdist = true /\ (b = bdist \/ In b ds) /\
    (forall x, In x ds -> (exists m, is_matching (graph D x) m /\ length m = length D) -> cle b x = true).
Proof. exact bsearch_spec. Qed.
Print Assumptions bsearch_least_feasible.

(* adding a diagonal point (x,x) to either diagram does not change the min-max value: this is what makes
   the [(0,0)] placeholder for an empty diagram harmless, for every sign of the coordinates *)
Theorem diag_point_neutral : forall S T x v,
  (is_bottleneck (S ++ [(x, x)]) T v <-> is_bottleneck S T v) /\
  (is_bottleneck S (T ++ [(x, x)]) v <-> is_bottleneck S T v).
Proof. exact diag_point_neutral_both. Qed.
Print Assumptions diag_point_neutral.

(* HEADLINE.  For every routine that returns a maximum matching (every hash seed, every tie-break), all
   diagrams of every size with births <= deaths (points with infinite death allowed): the model of
   bottleneck.py returns a finite number, and it is the minimum over all partial matchings of the
   finite points of the largest cost. *)
Theorem bottleneck_correct : forall oracle, max_matching_oracle oracle ->
  forall S T : list xpoint, wfdgm (finite S) -> wfdgm (finite T) ->
  exists v, bottleneck_model oracle S T = Some (CFin v) /\ is_bottleneck (finite S) (finite T) v.
Proof. exact bottleneck_model_correct. Qed.
Print Assumptions bottleneck_correct.

(* points with infinite death do not influence the value *)
Theorem bottleneck_ignores_infinite_deaths : forall oracle (S T : list xpoint) b,
  bottleneck_model oracle ((b, CInf) :: S) T = bottleneck_model oracle S T /\
  bottleneck_model oracle S ((b, CInf) :: T) = bottleneck_model oracle S T.
Proof. exact infinite_deaths_ignored. Qed.
Print Assumptions bottleneck_ignores_infinite_deaths.

(* the value does not depend on which maximum matchings the routine returns *)
Theorem bottleneck_oracle_independent : forall o1 o2, max_matching_oracle o1 -> max_matching_oracle o2 ->
  forall S T : list xpoint, wfdgm (finite S) -> wfdgm (finite T) ->
  exists v w, bottleneck_model o1 S T = Some (CFin v) /\ bottleneck_model o2 S T = Some (CFin w) /\ v == w.
Proof. exact oracle_independent. Qed.
Print Assumptions bottleneck_oracle_independent.

From Persim Require Import Corr.BneckCorr Proofs.BneckCertP.

(* the two checkers with which the model is executed are sound *)
Theorem matching_check_sound : forall g m, perfect_check g m = true -> is_matching g m /\ length m = length g.
Proof. exact perfect_check_ok. Qed.
Print Assumptions matching_check_sound.

(* Hall's easy direction: a set of rows with fewer neighbours than rows excludes a perfect matching *)
Theorem hall_violator_sound : forall g X, hall_check g X = true ->
  forall m, is_matching g m -> length m <> length g.
Proof. exact hall_check_sound. Qed.
Print Assumptions hall_violator_sound.

(* with accepted certificates the model run with the answering routine returns what the model returns
   with EVERY maximum-matching routine -- so the value compared with the implementation in the generated
   case files is the value of bottleneck_correct; rejected certificates give Inconclusive *)
Theorem certified_run_sound : forall S T vstar Estar X, certs_ok S T vstar Estar X = true ->
  forall oracle, max_matching_oracle oracle ->
  bottleneck_model oracle S T = bottleneck_model (cert_oracle Estar) S T.
Proof. exact cert_run_sound. Qed.
Print Assumptions certified_run_sound.

Theorem case_verdict_sound : forall S T impl tol vstar Estar X,
  check_case S T impl tol vstar Estar X = Agree ->
  forall oracle, max_matching_oracle oracle ->
  exists v, bottleneck_model oracle S T = Some (CFin v) /\ Qabs (v - impl) <= tol.
Proof. exact check_case_agree. Qed.
Print Assumptions case_verdict_sound.

(* ---- non-vacuity ---- *)
(* the hypotheses of bottleneck_correct are met by a diagram with a tie, a repeated point, a diagonal point,
   an infinite bar and an empty partner *)
Example wf_hyp_satisfiable :
  wfdgm (finite [(0, CFin 2); (0, CFin 2); (1, CFin 1); (3, CInf)]) /\ wfdgm (finite []).
Proof. split; intros p I; simpl in I; repeat (destruct I as [<-|I]; [simpl; discriminate|]); destruct I. Qed.

(* the specification is not vacuous: the distance from the one-bar diagram (0,2) to the empty diagram is 1 *)
Example spec_instance : is_bottleneck [(0, 2)] [] 1.
Proof.
  split.
  - exists []. split; [|reflexivity]. split; [constructor|]. split; [constructor|]. intros p [].
  - intros m (_ & _ & B). destruct m as [|p m]; [discriminate|].
    destruct (B p (or_introl eq_refl)) as [_ H]. inversion H.
Qed.

(* certificates that the checkers accept exist: S = [(0,2)], T = [], value 1, matching {(0,1),(1,0)},
   Hall violator {0} for the threshold 0 *)
Example certs_instance :
  check_case [(0, CFin 2)] [] 1 0 1 [(0%nat, 1%nat); (1%nat, 0%nat)] [0%nat] = Agree.
Proof. vm_compute. reflexivity. Qed.

From Persim Require Import Proofs.BneckOracleP.

(* the hypothesis on the external routine is satisfiable: a (brute-force) function returning a maximum
   matching of every graph exists, so bottleneck_correct is not vacuous *)
Theorem max_matching_routine_exists : exists oracle, max_matching_oracle oracle.
Proof. exact (ex_intro _ brute_oracle max_matching_oracle_exists). Qed.
Print Assumptions max_matching_routine_exists.

(* and the model runs with it: ties, a repeated point, a diagonal point, an infinite bar *)
Example model_runs_with_brute_force :
  exists v, bottleneck_model brute_oracle [(0, CFin 2); (0, CFin 2); (1, CFin 1); (3, CInf)] [(0, CFin 3)]
            = Some (CFin v) /\ v == 1.
Proof. eexists. split; [vm_compute; reflexivity|reflexivity]. Qed.
