(* C15 - Sliced Wasserstein (persim/sliced_wasserstein.py).  Only statements here; every proof is
   `exact <lemma of Proofs/SlicedP.v>`.  The model (Model/SlicedM.v) is over Q and parametric in
   the list of directions, so every theorem holds for EVERY direction list (any M, any angles);
   equalities are Qeq (==).  `sw` is the current tree / intended model, `sw_legacy` the pinned
   tree (diagonal projection through sqrt(x**2/2) = |x|/sqrt 2). *)
From Coq Require Import QArith Qabs List Permutation.
From Persim Require Import Model.SlicedM Spec.Transport1D Proofs.SlicedP.
Import ListNotations.
Open Scope Q_scope.

(* the loop returns (1/M) * sum over the M directions of the per-direction cost *)
Theorem sw_is_average_of_slices : forall dp dirs P1 P2,
  sw_gen dp dirs P1 P2 ==
  (1 / inject_Z (Z.of_nat (length dirs))) * qsum (map (fun u => slice dp u P1 P2) dirs).
Proof. exact sw_gen_sum. Qed.
Print Assumptions sw_is_average_of_slices.

Theorem sw_symmetric : forall dirs P1 P2, sw dirs P1 P2 == sw dirs P2 P1.
Proof. exact (sw_gen_sym dproj). Qed.
Print Assumptions sw_symmetric.

Theorem sw_reorder_invariant : forall dirs P1 P1' P2 P2', Permutation P1 P1' -> Permutation P2 P2' ->
  sw dirs P1 P2 == sw dirs P1' P2'.
Proof. exact (sw_gen_perm dproj). Qed.
Print Assumptions sw_reorder_invariant.

Theorem sw_reorder_zero : forall dirs P1 P2, Permutation P1 P2 -> sw dirs P1 P2 == 0.
Proof. exact (sw_gen_perm_zero dproj). Qed.
Print Assumptions sw_reorder_zero.

Theorem sw_scale_linear : forall dirs c P1 P2, 0 < c -> sw dirs (scale c P1) (scale c P2) == c * sw dirs P1 P2.
Proof. exact sw_scale. Qed.
Print Assumptions sw_scale_linear.

(* translation along the diagonal, by any rational t (also into negative coordinates) *)
Theorem sw_translate_invariant : forall dirs t P1 P2, sw dirs (shift t P1) (shift t P2) == sw dirs P1 P2.
Proof. exact sw_shift. Qed.
Print Assumptions sw_translate_invariant.

(* the pinned tree's model is NOT translation invariant: [(-9,-7);(-8,-15/2)] vs [(-17/2,-8)],
   directions of M = 2 (exactly rational: theta = pi/2, pi), shift +10: 16 before, 5/4 after *)
Theorem sw_legacy_refuted :
  exists dirs P1 P2 t, ~ sw_legacy dirs (shift t P1) (shift t P2) == sw_legacy dirs P1 P2.
Proof. exact sw_legacy_not_translation_invariant. Qed.
Print Assumptions sw_legacy_refuted.

(* ... and coincides with the intended model when every point has b + d >= 0 (why the suite passed) *)
Theorem sw_legacy_agrees_on_nonnegative : forall dirs P1 P2,
  (forall p, In p (P1 ++ P2) -> 0 <= fst p + snd p) -> sw_legacy dirs P1 P2 == sw dirs P1 P2.
Proof. exact sw_legacy_nonneg. Qed.
Print Assumptions sw_legacy_agrees_on_nonnegative.

(* ---- T2 ---- *)
(* the sorted pairing is an optimal transport plan between two equal-size multisets on the line:
   its cost is attained by a pairing and is a lower bound for every pairing (Spec/Transport1D.v) *)
Theorem sorted_matching_optimal : forall a b, length a = length b -> is_ot1 a b (l1 (isort a) (isort b)).
Proof. exact OT_is_ot1. Qed.
Print Assumptions sorted_matching_optimal.

(* hence each slice IS the 1-D optimal transport cost between the projections of each diagram
   augmented with the diagonal projections of the other *)
Theorem sw_slice_is_1d_transport_cost : forall dp u P1 P2,
  is_ot1 (map (proj u) P1 ++ map (proj u) (map dp P2)) (map (proj u) P2 ++ map (proj u) (map dp P1))
         (slice dp u P1 P2).
Proof. exact slice_is_ot1. Qed.
Print Assumptions sw_slice_is_1d_transport_cost.

(* diagonal points, inserted anywhere in either diagram, do not change the value *)
Theorem sw_diag_neutral : forall dirs P1 P1' D1 P2 P2' D2, Forall on_diag D1 -> Forall on_diag D2 ->
  Permutation P1' (D1 ++ P1) -> Permutation P2' (D2 ++ P2) -> sw dirs P1' P2' == sw dirs P1 P2.
Proof. exact sw_diag_ignored. Qed.
Print Assumptions sw_diag_neutral.

Theorem sw_triangle : forall dirs A B C, sw dirs A C <= sw dirs A B + sw dirs B C.
Proof. exact (sw_gen_triangle dproj). Qed.
Print Assumptions sw_triangle.

(* sw <= 2 * (cost of ANY partial matching), hence <= 2 * W1, for every ground cost (d, dd) that
   dominates the projections (general form; the Euclidean and l1 instances follow) *)
Theorem sw_le_twice_dominating_cost : forall dirs d dd Mt U1 U2 P1 P2, dirs <> [] ->
  (forall u, In u dirs -> dominates dproj u d dd) ->
  Permutation P1 (map fst Mt ++ U1) -> Permutation P2 (map snd Mt ++ U2) ->
  sw dirs P1 P2 <= 2 * qsum (map (fun pq => d (fst pq) (snd pq)) Mt) + qsum (map dd U1) + qsum (map dd U2).
Proof. exact (sw_gen_le_matching dproj). Qed.
Print Assumptions sw_le_twice_dominating_cost.

(* Euclidean instance.  The Euclidean W1 of persim.wasserstein is irrational, so it is approached from
   above: d is ANY rational upper bound of the Euclidean distance between points, dd ANY rational upper
   bound of the perpendicular distance |d - b|/sqrt 2 to the diagonal; directions in the closed unit
   disc (cos^2 + sin^2 <= 1).  Then sw <= 2 * sum d(matched) + sum dd(unmatched) for every partial
   matching; taking d, dd arbitrarily close to the true distances and the optimal matching gives
   sw <= 2 * W1.  PARTIAL only in this sense: the infimum over rational bounds is not formed inside Q.
   (The rational directions used by the harness are truncated towards 0 and certified on every run
   to lie in the closed unit disc: lemma dirs_M_disc in the generated direction files.) *)
Theorem sw_le_2W1_partial : forall (dirs : list dir) (d : pt -> pt -> Q) (dd : pt -> Q)
  (Mt : list (pt * pt)) (U1 U2 P1 P2 : list pt), dirs <> [] ->
  (forall u, In u dirs -> fst u * fst u + snd u * snd u <= 1) ->
  (forall p q : pt, 0 <= d p q /\
     (fst p - fst q) * (fst p - fst q) + (snd p - snd q) * (snd p - snd q) <= d p q * d p q) ->
  (forall p : pt, 0 <= dd p /\ (snd p - fst p) * (snd p - fst p) * (1#2) <= dd p * dd p) ->
  Permutation P1 (map fst Mt ++ U1) -> Permutation P2 (map snd Mt ++ U2) ->
  sw dirs P1 P2 <= 2 * qsum (map (fun pq => d (fst pq) (snd pq)) Mt) + qsum (map dd U1) + qsum (map dd U2).
Proof. intros dirs d dd Mt U1 U2 P1 P2 NE HD H1 H2. apply sw_le_twice_euclid_matching; auto. split; assumption. Qed.
Print Assumptions sw_le_2W1_partial.

(* complete instance: directions with |cos|, |sin| <= 1 and the l1 ground distance
   (matched pairs cost |b-b'| + |d-d'|, unmatched points |d-b|) *)
Theorem sw_le_twice_W1_l1 : forall dirs Mt U1 U2 P1 P2, dirs <> [] ->
  (forall u, In u dirs -> Qabs (fst u) <= 1 /\ Qabs (snd u) <= 1) ->
  Permutation P1 (map fst Mt ++ U1) -> Permutation P2 (map snd Mt ++ U2) ->
  sw dirs P1 P2 <= 2 * qsum (map (fun pq => Qabs (fst (fst pq) - fst (snd pq)) + Qabs (snd (fst pq) - snd (snd pq))) Mt)
                   + qsum (map (fun p => Qabs (snd p - fst p)) U1) + qsum (map (fun p => Qabs (snd p - fst p)) U2).
Proof. exact sw_le_twice_l1_matching. Qed.
Print Assumptions sw_le_twice_W1_l1.

(* non-vacuity *)
Example sw_legacy_witness_values :
  sw_legacy wdirs wA wB == 16#1 /\ sw_legacy wdirs (shift (10#1) wA) (shift (10#1) wB) == 5#4 /\
  sw wdirs wA wB == 5#4 /\ sw wdirs (shift (10#1) wA) (shift (10#1) wB) == 5#4.
Proof. exact sw_legacy_witness. Qed.
Example sw_reorder_hyp_satisfiable : Permutation [(0,1);(1,3)] [(1,3);(0,1)] /\ 0 < 2.
Proof. split. apply perm_swap. reflexivity. Qed.
Example sw_diag_hyp_satisfiable : Forall on_diag [(2, 2)] /\ Permutation [(0,1);(2,2)] ([(2,2)] ++ [(0,1)]).
Proof. split. repeat constructor. simpl. apply perm_swap. Qed.
Example sw_l1_hyp_satisfiable : wdirs <> [] /\ (forall u, In u wdirs -> Qabs (fst u) <= 1 /\ Qabs (snd u) <= 1) /\
  Permutation wA (map fst [(((-9)#1, (-7)#1), ((-17)#2, (-8)#1))] ++ [((-8)#1, (-15)#2)]) /\
  Permutation wB (map snd [(((-9)#1, (-7)#1), ((-17)#2, (-8)#1))] ++ []).
Proof. split. discriminate. split.
  - intros u [<-|[<-|[]]]; simpl; split; vm_compute; discriminate.
  - split; apply Permutation_refl. Qed.

(* ---- sw <= 2 * W1, FULL version against the real-valued Wasserstein specification ----
   Spec/WassersteinS.v: is_wasserstein S T v says v is the minimum over all partial matchings of the sum of
   Euclidean costs of matched pairs plus (d - b)/sqrt 2 for every unmatched point.  The diagrams are the
   rational point lists of the model mapped into R x R (rp); directions in the closed unit disc; points on or
   above the diagonal (the spec charges the signed (d - b)/sqrt 2, the code |d - b|/sqrt 2).
   Proofs/SlicedW1R.v instantiates sw_le_2W1_partial, for every n, with rational bounds within 1/n of the true
   distances at the optimal matching and lets n go to infinity. *)
From Coq Require Import Reals Qreals.
From Persim Require Import Spec.PartialMatching Spec.WassersteinS Spec.LandscapeRealS Proofs.MetricLawsW Proofs.SlicedW1R.

Theorem sw_le_twice_wasserstein : forall (dirs : list dir) (P1 P2 : list pt) (v : R),
  dirs <> [] -> (forall u, In u dirs -> (fst u * fst u + snd u * snd u <= 1)%Q) ->
  (forall p, In p P1 -> (fst p <= snd p)%Q) -> (forall p, In p P2 -> (fst p <= snd p)%Q) ->
  is_wasserstein (map rp P1) (map rp P2) v -> (Q2R (sw dirs P1 P2) <= 2 * v)%R.
Proof. exact sw_le_twice_wasserstein_R. Qed.
Print Assumptions sw_le_twice_wasserstein.

(* the same bound against the cost of EVERY valid partial matching (not only an optimal one) *)
Theorem sw_le_twice_any_matching_cost : forall (dirs : list dir) (P1 P2 : list pt) (m : pmatching),
  dirs <> [] -> (forall u, In u dirs -> (fst u * fst u + snd u * snd u <= 1)%Q) ->
  (forall p, In p P1 -> (fst p <= snd p)%Q) -> (forall p, In p P2 -> (fst p <= snd p)%Q) ->
  valid_for (map rp P1) (map rp P2) m -> (Q2R (sw dirs P1 P2) <= 2 * wcost (map rp P1) (map rp P2) m)%R.
Proof. exact sw_le_twice_wcost. Qed.
Print Assumptions sw_le_twice_any_matching_cost.

Example sw_W1_hyp_satisfiable : wdirs <> [] /\
  (forall u, In u wdirs -> (fst u * fst u + snd u * snd u <= 1)%Q) /\
  (forall p, In p wA -> (fst p <= snd p)%Q) /\ (forall p, In p wB -> (fst p <= snd p)%Q) /\
  (exists v, is_wasserstein (map rp wA) (map rp wB) v) /\
  valid_for (map rp wA) (map rp wB) [(0%nat, 0%nat)] /\ (0 < sw wdirs wA wB)%Q.
Proof. split. discriminate. split.
  - intros u [<-|[<-|[]]]; vm_compute; discriminate.
  - split. intros p [<-|[<-|[]]]; vm_compute; discriminate.
    split. intros p [<-|[]]; vm_compute; discriminate.
    split. apply W_exists.
    split.
    { unfold valid_for, valid_pm. simpl. split; [|split].
      - constructor. intros []. constructor.
      - constructor. intros []. constructor.
      - intros q [<-|[]]. simpl. split; repeat constructor. }
    vm_compute. reflexivity. Qed.
